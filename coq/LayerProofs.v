(** * LayerProofs: the layer-level (one B+-tree) interface for the tree proofs.

    Elements of a layer in key order, well-formedness [WF_bt] / [WF_layer], and
    the exact effect of find / lookup / put / update / delete / layer_remove on
    the element list and on the set of node ids. *)
From Coq Require Import NArith PeanoNat Lia ZifyBool ZifyN Bool List Sorted Permutation.
From Yk Require Import ListAux Word64 PermDefs PermProofs VersionDefs KeyDefs KeyProofs
     TreeDefs ScanDefs LeafProofs.
Import ListNotations.

(** ** Interface definitions *)
Fixpoint bt_elems (t : bt) : list slot_t :=
  match t with
  | BLeaf l => leaf_entries l
  | BInt _ _ _ ch => flat_map bt_elems ch
  end.
Definition bt_keys (t : bt) : list ktuple := map sl_key (bt_elems t).
Fixpoint bt_ids (t : bt) : list N :=
  match t with
  | BLeaf l => [lf_id l]
  | BInt id _ _ ch => id :: flat_map bt_ids ch
  end.

Definition dk : ktuple := {| ks := 0; kl := 0 |}.
Definition dleaf : leaf := {| lf_id := 0; lf_ver := 0; lf_perm := 0; lf_slots := [] |}.
Definition dbt : bt := BLeaf dleaf.

(** optional bounds: [None] is infinite *)
Definition lo_ok (lo : option ktuple) (k : ktuple) : Prop :=
  match lo with None => True | Some b => canon_lt k b = false end.     (* lo <= k *)
Definition lo_lt (lo : option ktuple) (k : ktuple) : Prop :=
  match lo with None => True | Some b => canon_lt b k = true end.      (* lo < k *)
Definition hi_ok (hi : option ktuple) (k : ktuple) : Prop :=
  match hi with None => True | Some b => canon_lt k b = true end.      (* k < hi *)
Definition in_bnd lo hi k : Prop := lo_ok lo k /\ hi_ok hi k.          (* element keys *)
Definition sep_bnd lo hi k : Prop := lo_lt lo k /\ hi_ok hi k.         (* separators *)

(** bounds of child [i] of an interior node with separators [keys] *)
Definition lo_at (lo : option ktuple) (keys : list ktuple) (i : nat) : option ktuple :=
  match i with O => lo | S j => Some (nth j keys dk) end.
Definition hi_at (hi : option ktuple) (keys : list ktuple) (i : nat) : option ktuple :=
  if (i <? length keys)%nat then Some (nth i keys dk) else hi.

Inductive WF_bt : option ktuple -> option ktuple -> bt -> Prop :=
| WF_leaf_node lo hi l :
    WF_leaf l -> Forall (in_bnd lo hi) (leaf_keys l) -> WF_bt lo hi (BLeaf l)
| WF_int_node lo hi id ver keys ch :
    (1 <= length keys <= 15)%nat -> length ch = S (length keys) ->
    sorted_keys keys -> Forall (fun s => kt_wf s = true) keys ->
    Forall (sep_bnd lo hi) keys ->
    (forall i, (i < length ch)%nat -> WF_bt (lo_at lo keys i) (hi_at hi keys i) (nth i ch dbt)) ->
    (forall i, (i < length ch)%nat -> bt_elems (nth i ch dbt) <> []) ->
    WF_bt lo hi (BInt id ver keys ch).

Definition WF_layer (root : bt) : Prop := WF_bt None None root /\ NoDup (bt_ids root).

(** the children part of [WF_bt] for an interior node (no bound on the number of keys) *)
Definition kids_ok lo hi (keys : list ktuple) (ch : list bt) : Prop :=
  length ch = S (length keys) /\
  sorted_keys keys /\ Forall (fun s => kt_wf s = true) keys /\
  Forall (sep_bnd lo hi) keys /\
  (forall i, (i < length ch)%nat -> WF_bt (lo_at lo keys i) (hi_at hi keys i) (nth i ch dbt)) /\
  (forall i, (i < length ch)%nat -> bt_elems (nth i ch dbt) <> []).

Lemma WF_int_iff lo hi id ver keys ch :
  WF_bt lo hi (BInt id ver keys ch) <-> (1 <= length keys <= 15)%nat /\ kids_ok lo hi keys ch.
Proof.
  split.
  - intros H. inversion H; subst. split; [assumption|]. repeat split; assumption.
  - intros (H1 & H2 & H3 & H4 & H5 & H6 & H7). constructor; assumption.
Qed.

Lemma WF_leaf_iff lo hi l :
  WF_bt lo hi (BLeaf l) <-> WF_leaf l /\ Forall (in_bnd lo hi) (leaf_keys l).
Proof.
  split.
  - intros H. inversion H; subst. split; assumption.
  - intros [H1 H2]. constructor; assumption.
Qed.

(** ** induction principle for [bt] *)
Lemma bt_ind' (P : bt -> Prop) :
  (forall l, P (BLeaf l)) ->
  (forall id ver keys ch, Forall P ch -> P (BInt id ver keys ch)) ->
  forall t, P t.
Proof.
  intros Hl Hi. fix IH 1. intros [l|id ver keys ch].
  - apply Hl.
  - apply Hi. revert ch. fix IHch 1. intros [|c ch].
    + constructor.
    + constructor; [apply IH|apply IHch].
Qed.

(** ** order facts *)
Lemma canon_le_lt_trans a b c : canon_lt b a = false -> canon_lt b c = true -> canon_lt a c = true.
Proof. unfold canon_lt. lia. Qed.
Lemma canon_lt_le_trans a b c : canon_lt a b = true -> canon_lt c b = false -> canon_lt a c = true.
Proof. unfold canon_lt. lia. Qed.
Lemma canon_le_trans a b c : canon_lt b a = false -> canon_lt c b = false -> canon_lt c a = false.
Proof. unfold canon_lt. lia. Qed.
Lemma canon_lt_le a b : canon_lt a b = true -> canon_lt b a = false.
Proof. apply canon_lt_asym. Qed.

Definition lo_le (lo' lo : option ktuple) : Prop :=
  match lo' with
  | None => True
  | Some a => match lo with None => False | Some b => canon_lt b a = false end
  end.
Definition hi_le (hi hi' : option ktuple) : Prop :=
  match hi' with
  | None => True
  | Some b' => match hi with None => False | Some b => canon_lt b' b = false end
  end.

Lemma lo_le_refl lo : lo_le lo lo.
Proof. destruct lo; cbn; [apply canon_lt_irrefl|exact I]. Qed.
Lemma hi_le_refl hi : hi_le hi hi.
Proof. destruct hi; cbn; [apply canon_lt_irrefl|exact I]. Qed.

Lemma lo_ok_widen lo' lo k : lo_le lo' lo -> lo_ok lo k -> lo_ok lo' k.
Proof.
  destruct lo' as [a|]; [|intros; exact I]. destruct lo as [b|]; cbn; [|intros []].
  intros H1 H2. eapply canon_le_trans; eassumption.
Qed.
Lemma lo_lt_widen lo' lo k : lo_le lo' lo -> lo_lt lo k -> lo_lt lo' k.
Proof.
  destruct lo' as [a|]; [|intros; exact I]. destruct lo as [b|]; cbn; [|intros []].
  intros H1 H2. eapply canon_le_lt_trans; eassumption.
Qed.
Lemma hi_ok_widen hi hi' k : hi_le hi hi' -> hi_ok hi k -> hi_ok hi' k.
Proof.
  destruct hi' as [a|]; [|intros; exact I]. destruct hi as [b|]; cbn; [|intros []].
  intros H1 H2. eapply canon_lt_le_trans; eassumption.
Qed.
Lemma lo_lt_ok lo k : lo_lt lo k -> lo_ok lo k.
Proof. destruct lo; cbn; [apply canon_lt_asym|auto]. Qed.
Lemma lo_lt_le lo k : lo_lt lo k -> lo_le lo (Some k).
Proof. destruct lo; cbn; [apply canon_lt_asym|auto]. Qed.
Lemma hi_ok_le hi k : hi_ok hi k -> hi_le (Some k) hi.
Proof. destruct hi; cbn; [apply canon_lt_asym|auto]. Qed.
Lemma lo_ok_lt_trans lo a b : lo_ok lo a -> canon_lt a b = true -> lo_lt lo b.
Proof. destruct lo; cbn; [|auto]. intros. eapply canon_le_lt_trans; eassumption. Qed.
Lemma lo_lt_trans lo a b : lo_lt lo a -> canon_lt a b = true -> lo_lt lo b.
Proof. destruct lo; cbn; [|auto]. intros. eapply canon_lt_trans; eassumption. Qed.
Lemma hi_ok_trans hi a b : canon_lt a b = true -> hi_ok hi b -> hi_ok hi a.
Proof. destruct hi; cbn; [|auto]. intros. eapply canon_lt_trans; eassumption. Qed.
Lemma hi_ok_le_trans hi a b : canon_lt b a = false -> hi_ok hi b -> hi_ok hi a.
Proof. destruct hi; cbn; [|auto]. intros. eapply canon_le_lt_trans; eassumption. Qed.

Lemma sorted_nth_lt keys : sorted_keys keys -> forall i j,
  (i < j)%nat -> (j < length keys)%nat -> canon_lt (nth i keys dk) (nth j keys dk) = true.
Proof.
  induction keys as [|a keys IH]; intros Hs i j Hij Hj; [cbn in Hj; lia|].
  apply sorted_cons_iff in Hs. destruct Hs as [Hs Hf].
  destruct j as [|j]; [lia|]. cbn [length] in Hj. destruct i as [|i]; cbn [nth].
  - rewrite Forall_forall in Hf. apply Hf. apply nth_In. lia.
  - apply IH; [exact Hs|lia|lia].
Qed.

Lemma sorted_nth_le keys : sorted_keys keys -> forall i j,
  (i <= j)%nat -> (j < length keys)%nat -> canon_lt (nth j keys dk) (nth i keys dk) = false.
Proof.
  intros Hs i j Hij Hj. destruct (Nat.eq_dec i j) as [->|Hne]; [apply canon_lt_irrefl|].
  apply canon_lt_asym. apply sorted_nth_lt; [exact Hs|lia|exact Hj].
Qed.

(** ** list helpers *)
Lemma set_nth_split {A} i (x : A) l :
  (i < length l)%nat -> set_nth i x l = firstn i l ++ x :: skipn (S i) l.
Proof.
  revert i. induction l as [|a l IH]; intros i H; [cbn in H; lia|].
  destruct i as [|i]; [reflexivity|]. cbn [set_nth firstn skipn app]. f_equal. apply IH.
  cbn [length] in H. lia.
Qed.

Lemma insert_after_set {A} i (x r : A) l :
  (i < length l)%nat -> insert_at (S i) r (set_nth i x l) = firstn i l ++ x :: r :: skipn (S i) l.
Proof.
  revert i. induction l as [|a l IH]; intros i H; [cbn in H; lia|].
  destruct i as [|i]; [reflexivity|]. cbn [length] in H.
  specialize (IH i ltac:(lia)). unfold insert_at in *.
  cbn [set_nth firstn skipn app]. f_equal. exact IH.
Qed.

Lemma flat_map_split {A B} (f : A -> list B) (d : A) l i :
  (i < length l)%nat ->
  flat_map f l = flat_map f (firstn i l) ++ f (nth i l d) ++ flat_map f (skipn (S i) l).
Proof.
  intros H. rewrite (split_at_nth d l i H) at 1. rewrite flat_map_app. cbn [flat_map]. reflexivity.
Qed.

Lemma flat_map_set_nth {A B} (f : A -> list B) l i x :
  (i < length l)%nat ->
  flat_map f (set_nth i x l) = flat_map f (firstn i l) ++ f x ++ flat_map f (skipn (S i) l).
Proof.
  intros H. rewrite set_nth_split by exact H. rewrite flat_map_app. cbn [flat_map]. reflexivity.
Qed.

Lemma flat_map_insert_after_set {A B} (f : A -> list B) l i x r :
  (i < length l)%nat ->
  flat_map f (insert_at (S i) r (set_nth i x l)) =
    flat_map f (firstn i l) ++ (f x ++ f r) ++ flat_map f (skipn (S i) l).
Proof.
  intros H. rewrite insert_after_set by exact H. rewrite flat_map_app. cbn [flat_map].
  rewrite <- app_assoc. reflexivity.
Qed.

Lemma flat_map_remove_at {A B} (f : A -> list B) l i :
  flat_map f (remove_at i l) = flat_map f (firstn i l) ++ flat_map f (skipn (S i) l).
Proof. unfold remove_at. apply flat_map_app. Qed.

Lemma in_flat_map_nth {A B} (f : A -> list B) (d : A) l y :
  In y (flat_map f l) <-> exists i, (i < length l)%nat /\ In y (f (nth i l d)).
Proof.
  rewrite in_flat_map. split.
  - intros (x & Hx & Hy). destruct (In_nth l x d Hx) as (i & Hi & E).
    exists i. split; [exact Hi|]. rewrite E. exact Hy.
  - intros (i & Hi & Hy). exists (nth i l d). split; [apply nth_In; exact Hi|exact Hy].
Qed.

Lemma height_child id ver keys ch i :
  (i < length ch)%nat -> (bt_height (nth i ch dbt) < bt_height (BInt id ver keys ch))%nat.
Proof.
  intros H. cbn [bt_height]. apply Nat.lt_succ_r.
  assert (forall c, In c ch ->
            (bt_height c <= fold_right (fun c m => Nat.max (bt_height c) m) 0 ch)%nat) as G.
  { clear. induction ch as [|a ch IH]; intros c []; cbn [fold_right].
    - subst. lia.
    - specialize (IH c H). lia. }
  apply G. apply nth_In. exact H.
Qed.

Lemma nth_error_child (ch : list bt) i :
  (i < length ch)%nat -> nth_error ch i = Some (nth i ch dbt).
Proof. apply nth_error_nth'. Qed.

(** ** [bt_set_ver] changes nothing of interest *)
Lemma bt_set_ver_elems t v : bt_elems (bt_set_ver t v) = bt_elems t.
Proof. destruct t; reflexivity. Qed.
Lemma bt_set_ver_ids t v : bt_ids (bt_set_ver t v) = bt_ids t.
Proof. destruct t; reflexivity. Qed.
Lemma bt_set_ver_id t v : bt_id (bt_set_ver t v) = bt_id t.
Proof. destruct t; reflexivity. Qed.
Lemma bt_set_ver_leaves_entries t v :
  map leaf_entries (bt_leaves (bt_set_ver t v)) = map leaf_entries (bt_leaves t).
Proof. destruct t; reflexivity. Qed.
Lemma bt_set_ver_WF lo hi t v : WF_bt lo hi t -> WF_bt lo hi (bt_set_ver t v).
Proof.
  intros H. destruct t as [l|id ver keys ch]; cbn [bt_set_ver].
  - apply WF_leaf_iff in H. destruct H as [H1 H2]. apply WF_leaf_iff. split.
    + revert H1. apply WF_leaf_cong; reflexivity.
    + exact H2.
  - apply WF_int_iff in H. apply WF_int_iff. exact H.
Qed.
Lemma set_root_flag_elems t b : bt_elems (set_root_flag t b) = bt_elems t.
Proof. apply bt_set_ver_elems. Qed.
Lemma set_root_flag_ids t b : bt_ids (set_root_flag t b) = bt_ids t.
Proof. apply bt_set_ver_ids. Qed.
Lemma set_root_flag_WF lo hi t b : WF_bt lo hi t -> WF_bt lo hi (set_root_flag t b).
Proof. apply bt_set_ver_WF. Qed.
Lemma set_root_flag_WF_layer t b : WF_layer t -> WF_layer (set_root_flag t b).
Proof.
  intros [H1 H2]. split; [apply set_root_flag_WF; exact H1|].
  rewrite set_root_flag_ids. exact H2.
Qed.

(** ** bounds widening *)
Lemma WF_bt_widen lo hi t :
  WF_bt lo hi t -> forall lo' hi', lo_le lo' lo -> hi_le hi hi' -> WF_bt lo' hi' t.
Proof.
  induction 1 as [lo hi l Hl Hb|lo hi id ver keys ch Hn Hlen Hs Hw Hsb Hc IH Hne];
    intros lo' hi' Hlo Hhi.
  - constructor; [exact Hl|]. eapply Forall_impl; [|exact Hb].
    intros k [H1 H2]. split; [eapply lo_ok_widen|eapply hi_ok_widen]; eassumption.
  - constructor; try assumption.
    + eapply Forall_impl; [|exact Hsb].
      intros k [H1 H2]. split; [eapply lo_lt_widen|eapply hi_ok_widen]; eassumption.
    + intros i Hi. apply IH; [exact Hi| |].
      * destruct i; cbn [lo_at]; [exact Hlo|apply lo_le_refl].
      * unfold hi_at. destruct (i <? length keys)%nat; [apply hi_le_refl|exact Hhi].
Qed.

(** ** 1. the elements are sorted, well-formed and within the bounds *)
Lemma lo_at_cons lo s keys i : lo_at lo (s :: keys) (S i) = lo_at (Some s) keys i.
Proof. destruct i; reflexivity. Qed.
Lemma hi_at_cons hi s keys i : hi_at hi (s :: keys) (S i) = hi_at hi keys i.
Proof. reflexivity. Qed.

Lemma flat_keys_sorted (f : bt -> list ktuple) ch : forall lo hi keys,
  length ch = S (length keys) -> sorted_keys keys -> Forall (sep_bnd lo hi) keys ->
  (forall i, (i < length ch)%nat ->
     sorted_keys (f (nth i ch dbt)) /\
     Forall (in_bnd (lo_at lo keys i) (hi_at hi keys i)) (f (nth i ch dbt))) ->
  sorted_keys (flat_map f ch) /\ Forall (in_bnd lo hi) (flat_map f ch).
Proof.
  induction ch as [|c ch IH]; intros lo hi keys Hlen Hsk Hsb Hc; [cbn in Hlen; lia|].
  cbn [flat_map]. destruct keys as [|s keys].
  - destruct ch; [|cbn in Hlen; lia]. cbn [flat_map]. rewrite app_nil_r.
    destruct (Hc 0%nat ltac:(cbn; lia)) as [H1 H2]. cbn in H1, H2. split; assumption.
  - apply Forall_cons_iff in Hsb. destruct Hsb as [[Hs1 Hs2] Hsb].
    apply sorted_cons_iff in Hsk. destruct Hsk as [Hsk Hsf].
    destruct (Hc 0%nat ltac:(cbn; lia)) as [H1 H2]. cbn [nth lo_at] in H1, H2.
    change (hi_at hi (s :: keys) 0) with (Some s) in H2.
    destruct (IH (Some s) hi keys) as [I1 I2].
    + cbn [length] in Hlen. lia.
    + exact Hsk.
    + rewrite Forall_forall in Hsb, Hsf |- *. intros k Hk. split; [|apply Hsb; exact Hk].
      cbn. apply Hsf. exact Hk.
    + intros i Hi. specialize (Hc (S i) ltac:(cbn [length]; lia)).
      rewrite lo_at_cons, hi_at_cons in Hc. exact Hc.
    + split.
      * apply sorted_app_iff. split; [exact H1|]. split; [exact I1|].
        intros a b Ha Hb. rewrite Forall_forall in H2, I2.
        destruct (H2 a Ha) as [_ Ha2]. destruct (I2 b Hb) as [Hb1 _]. cbn in Ha2, Hb1.
        eapply canon_lt_le_trans; eassumption.
      * apply Forall_app. split.
        -- eapply Forall_impl; [|exact H2]. intros k [K1 K2]. split; [exact K1|].
           cbn in K2. eapply hi_ok_trans; eassumption.
        -- eapply Forall_impl; [|exact I2]. intros k [K1 K2]. split; [|exact K2].
           apply (lo_ok_widen lo (Some s)); [apply lo_lt_le; exact Hs1|exact K1].
Qed.
Theorem bt_elems_sorted lo hi t :
  WF_bt lo hi t ->
  sorted_keys (bt_keys t) /\
  Forall (fun k => kt_wf k = true) (bt_keys t) /\
  Forall entry_ok (bt_elems t) /\
  Forall (in_bnd lo hi) (bt_keys t).
Proof.
  induction 1 as [lo hi l Hl Hb|lo hi id ver keys ch Hn Hlen Hs Hw Hsb Hc IH Hne].
  - unfold bt_keys. cbn [bt_elems]. fold (leaf_keys l).
    split; [apply Hl|]. split; [apply WF_leaf_keys_wf; exact Hl|]. split; [apply Hl|exact Hb].
  - assert (bt_keys (BInt id ver keys ch) = flat_map bt_keys ch) as E.
    { unfold bt_keys. cbn [bt_elems]. clear. induction ch as [|c ch I]; [reflexivity|].
      cbn [flat_map]. rewrite map_app, I. reflexivity. }
    rewrite E.
    destruct (flat_keys_sorted bt_keys ch lo hi keys Hlen Hs Hsb) as [S1 S2].
    { intros i Hi. destruct (IH i Hi) as (A & _ & _ & B). split; assumption. }
    split; [exact S1|]. split; [|split; [|exact S2]].
    + apply Forall_forall. intros k Hk. apply (in_flat_map_nth bt_keys dbt) in Hk.
      destruct Hk as (i & Hi & Hk). destruct (IH i Hi) as (_ & A & _).
      rewrite Forall_forall in A. apply A. exact Hk.
    + cbn [bt_elems]. apply Forall_forall. intros s Hs'.
      apply (in_flat_map_nth bt_elems dbt) in Hs'.
      destruct Hs' as (i & Hi & Hk). destruct (IH i Hi) as (_ & _ & A & _).
      rewrite Forall_forall in A. apply A. exact Hk.
Qed.

Corollary WF_bt_sorted lo hi t : WF_bt lo hi t -> sorted_keys (bt_keys t).
Proof. intros H. apply (bt_elems_sorted lo hi t H). Qed.
Corollary WF_bt_keys_wf lo hi t : WF_bt lo hi t -> Forall (fun k => kt_wf k = true) (bt_keys t).
Proof. intros H. apply (bt_elems_sorted lo hi t H). Qed.
Corollary WF_bt_entries_ok lo hi t : WF_bt lo hi t -> Forall entry_ok (bt_elems t).
Proof. intros H. apply (bt_elems_sorted lo hi t H). Qed.
Corollary WF_bt_keys_bnd lo hi t : WF_bt lo hi t -> Forall (in_bnd lo hi) (bt_keys t).
Proof. intros H. apply (bt_elems_sorted lo hi t H). Qed.
Corollary WF_bt_keys_NoDup lo hi t : WF_bt lo hi t -> NoDup (bt_keys t).
Proof. intros H. apply sorted_NoDup. apply (WF_bt_sorted lo hi t H). Qed.

Lemma in_elems_in_keys t s : In s (bt_elems t) -> In (sl_key s) (bt_keys t).
Proof. intros H. unfold bt_keys. apply in_map. exact H. Qed.

Lemma in_keys_in_elems t k : In k (bt_keys t) -> exists s, In s (bt_elems t) /\ sl_key s = k.
Proof.
  unfold bt_keys. intros H. apply in_map_iff in H. destruct H as (s & E & H). exists s. split; assumption.
Qed.

(** entries with the same key are the same entry *)
Lemma map_NoDup_inj {A B} (f : A -> B) l a b :
  NoDup (map f l) -> In a l -> In b l -> f a = f b -> a = b.
Proof.
  induction l as [|x l IH]; intros Hnd Ha Hb E; [destruct Ha|].
  cbn [map] in Hnd. apply NoDup_cons_iff in Hnd. destruct Hnd as [Hx Hnd].
  destruct Ha as [->|Ha], Hb as [->|Hb].
  - reflexivity.
  - exfalso. apply Hx. rewrite E. apply in_map. exact Hb.
  - exfalso. apply Hx. rewrite <- E. apply in_map. exact Ha.
  - apply IH; assumption.
Qed.

Lemma WF_bt_key_inj lo hi t a b :
  WF_bt lo hi t -> In a (bt_elems t) -> In b (bt_elems t) -> sl_key a = sl_key b -> a = b.
Proof. intros H. apply map_NoDup_inj. apply (WF_bt_keys_NoDup lo hi t H). Qed.

(** sorted lists are determined by their contents *)
Lemma sorted_perm_eq (l1 l2 : list slot_t) :
  sorted_keys (map sl_key l1) -> sorted_keys (map sl_key l2) -> Permutation l1 l2 -> l1 = l2.
Proof.
  revert l2. induction l1 as [|a l1 IH]; intros l2 H1 H2 HP.
  - apply Permutation_nil in HP. subst. reflexivity.
  - destruct l2 as [|b l2]; [apply Permutation_sym, Permutation_nil in HP; discriminate|].
    cbn [map] in H1, H2. apply sorted_cons_iff in H1, H2.
    destruct H1 as [S1 F1], H2 as [S2 F2]. rewrite Forall_forall in F1, F2.
    assert (a = b) as ->.
    { assert (In a (b :: l2)) as Ha by (eapply Permutation_in; [exact HP|left; reflexivity]).
      assert (In b (a :: l1)) as Hb
        by (eapply Permutation_in; [apply Permutation_sym; exact HP|left; reflexivity]).
      destruct Ha as [->|Ha]; [reflexivity|]. destruct Hb as [->|Hb]; [reflexivity|].
      specialize (F2 _ (in_map sl_key _ _ Ha)). specialize (F1 _ (in_map sl_key _ _ Hb)).
      apply canon_lt_asym in F1. congruence. }
    f_equal. apply IH; [exact S1|exact S2|]. eapply Permutation_cons_inv. exact HP.
Qed.

(** ** 7. leaves *)
Lemma bt_leaves_elems t : flat_map leaf_entries (bt_leaves t) = bt_elems t.
Proof.
  induction t as [l|id ver keys ch IH] using bt_ind'.
  - cbn. apply app_nil_r.
  - cbn [bt_leaves bt_elems]. induction IH as [|c ch Hc _ IH2]; [reflexivity|].
    cbn [flat_map]. rewrite flat_map_app, Hc, IH2. reflexivity.
Qed.

Lemma bt_leaves_ids_incl t l : In l (bt_leaves t) -> In (lf_id l) (bt_ids t).
Proof.
  induction t as [l0|id ver keys ch IH] using bt_ind'.
  - cbn. intros [->|[]]. left. reflexivity.
  - cbn [bt_leaves bt_ids]. intros H. right. rewrite in_flat_map in *.
    destruct H as (c & Hc & H). exists c. split; [exact Hc|].
    rewrite Forall_forall in IH. apply IH; assumption.
Qed.

Lemma bt_leaves_WF lo hi t : WF_bt lo hi t -> forall l, In l (bt_leaves t) -> WF_leaf l.
Proof.
  induction 1 as [lo hi l Hl Hb|lo hi id ver keys ch Hn Hlen Hs Hw Hsb Hc IH Hne]; intros l' Hin.
  - cbn in Hin. destruct Hin as [<-|[]]. exact Hl.
  - cbn [bt_leaves] in Hin. apply (in_flat_map_nth bt_leaves dbt) in Hin.
    destruct Hin as (i & Hi & Hin). apply (IH i Hi). exact Hin.
Qed.

Lemma bt_leaves_nonempty lo hi t :
  WF_bt lo hi t -> bt_elems t <> [] -> forall l, In l (bt_leaves t) -> leaf_entries l <> [].
Proof.
  induction 1 as [lo hi l Hl Hb|lo hi id ver keys ch Hn Hlen Hs Hw Hsb Hc IH Hne]; intros Hnn l' Hin.
  - cbn in Hin. destruct Hin as [<-|[]]. exact Hnn.
  - cbn [bt_leaves] in Hin. apply (in_flat_map_nth bt_leaves dbt) in Hin.
    destruct Hin as (i & Hi & Hin). apply (IH i Hi); [apply Hne; exact Hi|exact Hin].
Qed.

(** every leaf is non-empty, except possibly a root leaf *)
Lemma bt_leaves_nonempty_root lo hi t :
  WF_bt lo hi t -> forall l, In l (bt_leaves t) -> leaf_entries l <> [] \/ t = BLeaf l.
Proof.
  intros H l Hin. destruct t as [l0|id ver keys ch].
  - right. cbn in Hin. destruct Hin as [->|[]]. reflexivity.
  - left. apply WF_int_iff in H. destruct H as (_ & _ & _ & _ & _ & Hc & Hne).
    cbn [bt_leaves] in Hin. apply (in_flat_map_nth bt_leaves dbt) in Hin.
    destruct Hin as (i & Hi & Hin).
    eapply bt_leaves_nonempty; [apply Hc; exact Hi|apply Hne; exact Hi|exact Hin].
Qed.

Lemma bt_leaves_not_nil t lo hi : WF_bt lo hi t -> bt_leaves t <> [].
Proof.
  induction 1 as [lo hi l Hl Hb|lo hi id ver keys ch Hn Hlen Hs Hw Hsb Hc IH Hne].
  - discriminate.
  - cbn [bt_leaves]. destruct ch as [|c ch]; [cbn in Hlen; lia|]. cbn [flat_map].
    specialize (IH 0%nat ltac:(cbn; lia)). cbn [nth] in IH.
    destruct (bt_leaves c); [contradiction|discriminate].
Qed.
(** ** routing: the first separator greater than the key *)
Definition is_pos (keys : list ktuple) (k : ktuple) (i : nat) : Prop :=
  (i <= length keys)%nat /\
  (forall j, (j < i)%nat -> canon_lt k (nth j keys dk) = false) /\
  ((i < length keys)%nat -> canon_lt k (nth i keys dk) = true).

Lemma is_pos_unique keys k i p : is_pos keys k i -> is_pos keys k p -> i = p.
Proof.
  intros (A1 & A2 & A3) (B1 & B2 & B3).
  destruct (Nat.lt_trichotomy i p) as [H|[H|H]]; [|exact H|].
  - specialize (B2 i H). rewrite A3 in B2 by lia. discriminate.
  - specialize (A2 p H). rewrite B3 in A2 by lia. discriminate.
Qed.

Lemma is_pos_cons_true s keys k : canon_lt k s = true -> is_pos (s :: keys) k 0.
Proof.
  intros H. split; [lia|]. split; [intros j Hj; lia|]. intros _. exact H.
Qed.

Lemma is_pos_cons_false s keys k p :
  canon_lt k s = false -> is_pos keys k p -> is_pos (s :: keys) k (S p).
Proof.
  intros H (A1 & A2 & A3). split; [cbn [length]; lia|]. split.
  - intros [|j] Hj; cbn [nth]; [exact H|apply A2; lia].
  - cbn [length nth]. intros Hp. apply A3. lia.
Qed.

Lemma route_S keys k : forall n, route keys k (S n) = S (route keys k n).
Proof.
  induction keys as [|s keys IH]; intros n; cbn [route]; [reflexivity|].
  destruct (route_probe k s); [reflexivity|apply IH].
Qed.
Lemma iins_pos_S keys k : forall n, iins_pos keys k (S n) = S (iins_pos keys k n).
Proof.
  induction keys as [|s keys IH]; intros n; cbn [iins_pos]; [reflexivity|].
  destruct (iins_probe k s); [reflexivity|apply IH].
Qed.

Lemma route_is_pos keys k :
  Forall (fun s => kt_wf s = true) keys -> kt_wf k = true -> is_pos keys k (route keys k 0).
Proof.
  intros Hw Hk. induction Hw as [|s keys Hs Hw IH].
  - split; [cbn; lia|]. split; [intros j Hj; cbn in Hj; lia|cbn; intros Hj; lia].
  - cbn [route]. rewrite (route_probe_site k s Hk Hs).
    destruct (canon_lt k s) eqn:E.
    + apply is_pos_cons_true. exact E.
    + rewrite route_S. apply is_pos_cons_false; assumption.
Qed.

Lemma iins_pos_is_pos keys k :
  Forall (fun s => kt_wf s = true) keys -> kt_wf k = true -> is_pos keys k (iins_pos keys k 0).
Proof.
  intros Hw Hk. induction Hw as [|s keys Hs Hw IH].
  - split; [cbn; lia|]. split; [intros j Hj; cbn in Hj; lia|cbn; intros Hj; lia].
  - cbn [iins_pos]. rewrite (iins_probe_site k s Hk Hs).
    destruct (canon_lt k s) eqn:E.
    + apply is_pos_cons_true. exact E.
    + rewrite iins_pos_S. apply is_pos_cons_false; assumption.
Qed.

Lemma is_pos_firstn keys k i n : is_pos keys k i -> (i <= n)%nat -> is_pos (firstn n keys) k i.
Proof.
  intros (A1 & A2 & A3) Hn. unfold is_pos. rewrite firstn_length. split; [lia|]. split.
  - intros j Hj. rewrite nth_firstn. destruct (Nat.ltb_spec j n); [|lia]. apply A2. exact Hj.
  - intros Hi. rewrite nth_firstn. destruct (Nat.ltb_spec i n); [|lia]. apply A3. lia.
Qed.

Lemma is_pos_skipn keys k i n : is_pos keys k i -> (n <= i)%nat -> is_pos (skipn n keys) k (i - n).
Proof.
  intros (A1 & A2 & A3) Hn. unfold is_pos. rewrite skipn_length. split; [lia|]. split.
  - intros j Hj. rewrite nth_skipn. apply A2. lia.
  - intros Hi. rewrite nth_skipn. replace (n + (i - n))%nat with i by lia. apply A3. lia.
Qed.

(** a key within the bounds of child [i] is routed to child [i] *)
Lemma is_pos_of_bounds lo hi keys k i :
  sorted_keys keys -> (i <= length keys)%nat ->
  lo_ok (lo_at lo keys i) k -> hi_ok (hi_at hi keys i) k -> is_pos keys k i.
Proof.
  intros Hs Hi Hlo Hhi. split; [exact Hi|]. split.
  - intros j Hj. destruct i as [|i]; [lia|]. cbn [lo_at lo_ok] in Hlo.
    eapply canon_le_trans; [|exact Hlo]. apply sorted_nth_le; [exact Hs|lia|lia].
  - intros Hlt. unfold hi_at in Hhi. destruct (Nat.ltb_spec i (length keys)); [|lia]. exact Hhi.
Qed.

Lemma is_pos_bounds lo hi keys k i :
  is_pos keys k i -> in_bnd lo hi k -> in_bnd (lo_at lo keys i) (hi_at hi keys i) k.
Proof.
  intros (A1 & A2 & A3) [B1 B2]. split.
  - destruct i as [|i]; cbn [lo_at]; [exact B1|]. cbn. apply A2. lia.
  - unfold hi_at. destruct (Nat.ltb_spec i (length keys)); [|exact B2]. cbn. apply A3. assumption.
Qed.

(** separators strictly inside child [i]'s bounds are inserted at position [i] *)
Lemma sep_is_pos lo hi keys k i :
  sorted_keys keys -> (i <= length keys)%nat ->
  sep_bnd (lo_at lo keys i) (hi_at hi keys i) k -> is_pos keys k i.
Proof.
  intros Hs Hi [H1 H2]. eapply is_pos_of_bounds; try eassumption. apply lo_lt_ok. exact H1.
Qed.

(** an element of an interior node with key [k] lives in the child [k] is routed to *)
Lemma kids_route lo hi keys ch k :
  kids_ok lo hi keys ch -> kt_wf k = true ->
  (route keys k 0 < length ch)%nat /\
  (in_bnd lo hi k ->
   in_bnd (lo_at lo keys (route keys k 0)) (hi_at hi keys (route keys k 0)) k) /\
  forall s, In s (flat_map bt_elems ch) -> sl_key s = k ->
            In s (bt_elems (nth (route keys k 0) ch dbt)).
Proof.
  intros (Hlen & Hs & Hw & Hsb & Hc & Hne) Hk.
  pose proof (route_is_pos keys k Hw Hk) as Hp.
  split; [destruct Hp as (P1 & _); lia|]. split; [apply is_pos_bounds; exact Hp|].
  intros s Hin Hsk. apply (in_flat_map_nth bt_elems dbt) in Hin. destruct Hin as (j & Hj & Hin).
  assert (is_pos keys k j) as Hpj.
  { pose proof (WF_bt_keys_bnd _ _ _ (Hc j Hj)) as B. rewrite Forall_forall in B.
    destruct (B k) as [B1 B2]; [rewrite <- Hsk; apply in_elems_in_keys; exact Hin|].
    eapply is_pos_of_bounds; try eassumption. lia. }
  rewrite (is_pos_unique keys k _ _ Hp Hpj). exact Hin.
Qed.

(** ** 2. find_leaf and lookup *)
Lemma bt_find_leaf_spec fuel : forall t lo hi k,
  WF_bt lo hi t -> kt_wf k = true -> (bt_height t < fuel)%nat ->
  exists l, bt_find_leaf fuel t k = Some l /\ WF_leaf l /\ In l (bt_leaves t) /\
            (forall s, In s (bt_elems t) -> sl_key s = k -> In s (leaf_entries l)) /\
            (forall s, In s (leaf_entries l) -> In s (bt_elems t)).
Proof.
  induction fuel as [|f IH]; intros t lo hi k Hwf Hk Hh; [lia|].
  destruct t as [l|id ver keys ch]; cbn [bt_find_leaf].
  - apply WF_leaf_iff in Hwf. exists l. split; [reflexivity|]. split; [apply Hwf|].
    split; [left; reflexivity|]. split; auto.
  - apply WF_int_iff in Hwf. destruct Hwf as [Hn Hkids].
    destruct (kids_route lo hi keys ch k Hkids Hk) as (Hi & _ & Hroute).
    set (i := route keys k 0) in *.
    destruct Hkids as (Hlen & Hs & Hw & Hsb & Hc & Hne).
    rewrite (nth_error_child ch i Hi).
    destruct (IH (nth i ch dbt) _ _ k (Hc i Hi) Hk) as (l & E & Hl & Hin & H1 & H2).
    { pose proof (height_child id ver keys ch i Hi). lia. }
    exists l. split; [exact E|]. split; [exact Hl|]. split; [|split].
    + cbn [bt_leaves]. apply (in_flat_map_nth bt_leaves dbt). exists i. split; assumption.
    + intros s Hs1 Hs2. apply H1; [|exact Hs2]. apply Hroute; assumption.
    + intros s Hs1. cbn [bt_elems]. apply (in_flat_map_nth bt_elems dbt). exists i.
      split; [exact Hi|apply H2; exact Hs1].
Qed.

Theorem find_leaf_spec root k :
  WF_bt None None root -> kt_wf k = true ->
  exists l, find_leaf root k = Some l /\ WF_leaf l /\ In l (bt_leaves root) /\
            (forall s, In s (bt_elems root) -> sl_key s = k -> In s (leaf_entries l)) /\
            (forall s, In s (leaf_entries l) -> In s (bt_elems root)).
Proof. intros H Hk. unfold find_leaf. eapply bt_find_leaf_spec; try eassumption. lia. Qed.

(** the fuel does not matter *)
Lemma bt_find_leaf_fuel fuel fuel' t lo hi k :
  WF_bt lo hi t -> kt_wf k = true -> (bt_height t < fuel)%nat -> (bt_height t < fuel')%nat ->
  bt_find_leaf fuel t k = bt_find_leaf fuel' t k.
Proof.
  revert fuel' t lo hi. induction fuel as [|f IH]; intros fuel' t lo hi Hwf Hk H1 H2; [lia|].
  destruct fuel' as [|f']; [lia|].
  destruct t as [l|id ver keys ch]; cbn [bt_find_leaf]; [reflexivity|].
  apply WF_int_iff in Hwf. destruct Hwf as [Hn Hkids].
  destruct (kids_route lo hi keys ch k Hkids Hk) as (Hi & _).
  destruct Hkids as (_ & _ & _ & _ & Hc & _).
  rewrite (nth_error_child ch _ Hi).
  pose proof (height_child id ver keys ch _ Hi).
  eapply IH; [apply Hc; exact Hi|exact Hk|lia|lia].
Qed.

Definition layer_lookup (root : bt) (k : ktuple) : option slot_t :=
  match find_leaf root k with
  | Some l => option_map (fun x => snd x) (leaf_lookup l k)
  | None => None
  end.

Lemma leaf_lookup_entry l k r slot s :
  WF_leaf l -> kt_wf k = true -> leaf_lookup l k = Some (r, slot, s) ->
  In s (leaf_entries l) /\ sl_key s = k /\ nth_error (leaf_entries l) r = Some s.
Proof.
  intros Hl Hk E. destruct (leaf_lookup_some l k r slot s Hl Hk E) as [H1 H2].
  pose proof (leaf_ranked_entries l r slot s H1) as H3.
  split; [eapply nth_error_In; exact H3|]. split; assumption.
Qed.

Theorem layer_lookup_some root k s :
  WF_bt None None root -> kt_wf k = true ->
  (layer_lookup root k = Some s <-> In s (bt_elems root) /\ sl_key s = k).
Proof.
  intros Hwf Hk. unfold layer_lookup.
  destruct (find_leaf_spec root k Hwf Hk) as (l & -> & Hl & _ & H1 & H2). split.
  - destruct (leaf_lookup l k) as [[[r slot] s']|] eqn:E; [|discriminate].
    cbn. intros H. injection H as ->.
    destruct (leaf_lookup_entry l k r slot s Hl Hk E) as (A & B & _).
    split; [apply H2; exact A|exact B].
  - intros [Hin Hs]. pose proof (H1 s Hin Hs) as Hin'.
    destruct (leaf_lookup_in l k Hl Hk) as (r & slot & s' & E & _ & Hs' & _).
    { rewrite <- Hs. unfold leaf_keys. apply in_map. exact Hin'. }
    rewrite E. cbn. f_equal.
    destruct (leaf_lookup_entry l k r slot s' Hl Hk E) as (A & _).
    eapply (WF_bt_key_inj None None root); [exact Hwf|apply H2; exact A|exact Hin|congruence].
Qed.

Theorem layer_lookup_none root k :
  WF_bt None None root -> kt_wf k = true ->
  (layer_lookup root k = None <-> ~ In k (bt_keys root)).
Proof.
  intros Hwf Hk. split.
  - intros E Hin. apply in_keys_in_elems in Hin. destruct Hin as (s & Hin & Hs).
    assert (layer_lookup root k = Some s) as E' by (apply layer_lookup_some; auto).
    congruence.
  - intros Hn. destruct (layer_lookup root k) as [s|] eqn:E; [|reflexivity].
    apply layer_lookup_some in E; [|exact Hwf|exact Hk]. destruct E as [Hin Hs].
    exfalso. apply Hn. rewrite <- Hs. apply in_elems_in_keys. exact Hin.
Qed.

(** the leaf found holds the key iff the layer does *)
Lemma find_leaf_lookup root k l :
  WF_bt None None root -> kt_wf k = true -> find_leaf root k = Some l ->
  (leaf_lookup l k = None <-> ~ In k (bt_keys root)) /\
  (forall r slot s, leaf_lookup l k = Some (r, slot, s) ->
     In s (bt_elems root) /\ sl_key s = k /\ nth_error (leaf_entries l) r = Some s).
Proof.
  intros Hwf Hk E. pose proof (layer_lookup_none root k Hwf Hk) as HN.
  destruct (find_leaf_spec root k Hwf Hk) as (l' & E' & Hl & _ & H1 & H2).
  rewrite E in E'. injection E' as <-. unfold layer_lookup in HN. rewrite E in HN. split.
  - rewrite <- HN. destruct (leaf_lookup l k); cbn; split; congruence.
  - intros r slot s Hs. destruct (leaf_lookup_entry l k r slot s Hl Hk Hs) as (A & B & C).
    split; [apply H2; exact A|]. split; assumption.
Qed.
(** ** children of an interior node: replace / insert / split / remove *)
Ltac dnat :=
  repeat match goal with
  | |- context [Nat.ltb ?a ?b] => destruct (Nat.ltb_spec a b); try lia
  | |- context [Nat.leb ?a ?b] => destruct (Nat.leb_spec a b); try lia
  | |- context [Nat.eqb ?a ?b] => destruct (Nat.eqb_spec a b); try lia
  end.

Lemma kids_nonempty lo hi keys ch : kids_ok lo hi keys ch -> flat_map bt_elems ch <> [].
Proof.
  intros (Hlen & _ & _ & _ & _ & Hne). destruct ch as [|c ch]; [cbn in Hlen; lia|].
  cbn [flat_map]. specialize (Hne 0%nat ltac:(cbn; lia)). cbn [nth] in Hne.
  destruct (bt_elems c); [contradiction|discriminate].
Qed.

Lemma kids_set lo hi keys ch i c' :
  kids_ok lo hi keys ch -> (i < length ch)%nat ->
  WF_bt (lo_at lo keys i) (hi_at hi keys i) c' -> bt_elems c' <> [] ->
  kids_ok lo hi keys (set_nth i c' ch).
Proof.
  intros (Hlen & Hs & Hw & Hsb & Hc & Hne) Hi Hc' Hne'.
  split; [rewrite set_nth_length; exact Hlen|]. split; [exact Hs|]. split; [exact Hw|].
  split; [exact Hsb|]. rewrite set_nth_length. split; intros j Hj; rewrite nth_set_nth.
  - destruct (Nat.eqb_spec j i) as [->|_]; destruct (Nat.ltb_spec i (length ch)); try lia;
      cbn [andb]; [exact Hc'|apply Hc; exact Hj].
  - destruct (Nat.eqb_spec j i) as [->|_]; destruct (Nat.ltb_spec i (length ch)); try lia;
      cbn [andb]; [exact Hne'|apply Hne; exact Hj].
Qed.

Lemma lo_at_insert lo keys i s j : (i <= length keys)%nat ->
  lo_at lo (insert_at i s keys) j =
    if (j <=? i)%nat then lo_at lo keys j
    else if (j =? S i)%nat then Some s else lo_at lo keys (j - 1).
Proof.
  intros Hi. destruct j as [|j]; [reflexivity|]. cbn [lo_at]. rewrite nth_insert_at by exact Hi.
  replace (S j - 1)%nat with j by lia.
  destruct (Nat.leb_spec (S j) i); destruct (Nat.ltb_spec j i); try lia; [reflexivity|].
  destruct (Nat.eqb_spec j i); destruct (Nat.eqb_spec (S j) (S i)); try lia; [reflexivity|].
  destruct j as [|j']; [lia|]. cbn [lo_at]. replace (S j' - 1)%nat with j' by lia. reflexivity.
Qed.

Lemma hi_at_insert hi keys i s j : (i <= length keys)%nat ->
  hi_at hi (insert_at i s keys) j =
    if (j <? i)%nat then hi_at hi keys j
    else if (j =? i)%nat then Some s else hi_at hi keys (j - 1).
Proof.
  intros Hi. unfold hi_at. rewrite insert_at_length by exact Hi.
  rewrite nth_insert_at by exact Hi.
  destruct (Nat.ltb_spec j i).
  - destruct (Nat.ltb_spec j (S (length keys))); destruct (Nat.ltb_spec j (length keys));
      try lia. reflexivity.
  - destruct (Nat.eqb_spec j i).
    + destruct (Nat.ltb_spec j (S (length keys))); try lia. reflexivity.
    + destruct (Nat.ltb_spec j (S (length keys)));
        destruct (Nat.ltb_spec (j - 1) (length keys)); try lia; reflexivity.
Qed.

Lemma sep_bnd_at lo hi keys i sep :
  Forall (sep_bnd lo hi) keys -> (i <= length keys)%nat ->
  sep_bnd (lo_at lo keys i) (hi_at hi keys i) sep -> sep_bnd lo hi sep.
Proof.
  intros Hsb Hi [H1 H2]. rewrite Forall_forall in Hsb. split.
  - destruct i as [|i]; cbn [lo_at] in H1; [exact H1|]. cbn in H1.
    destruct (Hsb (nth i keys dk)) as [A _]; [apply nth_In; lia|].
    eapply lo_lt_trans; eassumption.
  - unfold hi_at in H2. destruct (Nat.ltb_spec i (length keys)); [|exact H2]. cbn in H2.
    destruct (Hsb (nth i keys dk)) as [_ A]; [apply nth_In; lia|].
    eapply hi_ok_trans; eassumption.
Qed.

Lemma kids_insert lo hi keys ch i l sep r :
  kids_ok lo hi keys ch -> (i < length ch)%nat ->
  WF_bt (lo_at lo keys i) (Some sep) l -> WF_bt (Some sep) (hi_at hi keys i) r ->
  kt_wf sep = true -> sep_bnd (lo_at lo keys i) (hi_at hi keys i) sep ->
  bt_elems l <> [] -> bt_elems r <> [] ->
  kids_ok lo hi (insert_at i sep keys) (insert_at (S i) r (set_nth i l ch)).
Proof.
  intros (Hlen & Hs & Hw & Hsb & Hc & Hne) Hi Hl Hr Hwsep Hb Hnl Hnr.
  assert (i <= length keys)%nat as Hi' by lia.
  pose proof (sep_bnd_at lo hi keys i sep Hsb Hi' Hb) as Hb'. destruct Hb as [Hb1 Hb2].
  assert (length (insert_at (S i) r (set_nth i l ch)) = S (length ch)) as Hlen'
    by (rewrite insert_at_length; rewrite set_nth_length; lia).
  split. { rewrite Hlen', insert_at_length by exact Hi'. lia. }
  split.
  { apply sorted_insert; [exact Hs| |].
    - apply Forall_forall. intros t Ht. destruct (In_nth _ _ dk Ht) as (j & Hj & <-).
      rewrite firstn_length in Hj. rewrite nth_firstn. destruct (Nat.ltb_spec j i); [|lia].
      destruct i as [|i']; [lia|]. cbn [lo_at lo_lt] in Hb1.
      eapply canon_le_lt_trans; [|exact Hb1]. apply sorted_nth_le; [exact Hs|lia|lia].
    - apply Forall_forall. intros t Ht. destruct (In_nth _ _ dk Ht) as (j & Hj & <-).
      rewrite skipn_length in Hj. rewrite nth_skipn.
      unfold hi_at in Hb2. destruct (Nat.ltb_spec i (length keys)); [|lia]. cbn in Hb2.
      eapply canon_lt_le_trans; [exact Hb2|]. apply sorted_nth_le; [exact Hs|lia|lia]. }
  split; [apply Forall_insert_at; assumption|].
  split; [apply Forall_insert_at; assumption|].
  rewrite Hlen'. split; intros j Hj.
  - rewrite lo_at_insert, hi_at_insert by exact Hi'.
    rewrite nth_insert_at by (rewrite set_nth_length; lia). rewrite !nth_set_nth.
    destruct (Nat.lt_trichotomy j i) as [C|[C|C]].
    + dnat. cbn [andb]. apply Hc. lia.
    + subst j. dnat. cbn [andb]. exact Hl.
    + destruct (Nat.eq_dec j (S i)) as [->|C2].
      * dnat. replace (S i - 1)%nat with i by lia. exact Hr.
      * dnat. cbn [andb]. apply Hc. lia.
  - rewrite nth_insert_at by (rewrite set_nth_length; lia). rewrite !nth_set_nth.
    destruct (Nat.lt_trichotomy j i) as [C|[C|C]].
    + dnat. cbn [andb]. apply Hne. lia.
    + subst j. dnat. cbn [andb]. exact Hnl.
    + destruct (Nat.eq_dec j (S i)) as [->|C2].
      * dnat. exact Hnr.
      * dnat. cbn [andb]. apply Hne. lia.
Qed.

Lemma kids_split lo hi keys ch m :
  kids_ok lo hi keys ch -> (m < length keys)%nat ->
  kids_ok lo (Some (nth m keys dk)) (firstn m keys) (firstn (S m) ch) /\
  kids_ok (Some (nth m keys dk)) hi (skipn (S m) keys) (skipn (S m) ch).
Proof.
  intros (Hlen & Hs & Hw & Hsb & Hc & Hne) Hm. rewrite Forall_forall in Hsb. split.
  - split; [rewrite !firstn_length; lia|]. split; [apply sorted_firstn; exact Hs|].
    split; [apply Forall_firstn; exact Hw|]. split.
    { apply Forall_forall. intros t Ht. destruct (In_nth _ _ dk Ht) as (j & Hj & <-).
      rewrite firstn_length in Hj. rewrite nth_firstn. destruct (Nat.ltb_spec j m); [|lia].
      split; [apply Hsb; apply nth_In; lia|]. cbn. apply sorted_nth_lt; [exact Hs|lia|lia]. }
    rewrite firstn_length. split; intros j Hj; rewrite nth_firstn; dnat.
    + replace (lo_at lo (firstn m keys) j) with (lo_at lo keys j).
      2:{ destruct j as [|j]; [reflexivity|]. cbn [lo_at]. rewrite nth_firstn. dnat. reflexivity. }
      replace (hi_at (Some (nth m keys dk)) (firstn m keys) j) with (hi_at hi keys j).
      2:{ unfold hi_at. rewrite firstn_length, nth_firstn. dnat; [reflexivity|].
          f_equal. f_equal. lia. }
      apply Hc. lia.
    + apply Hne. lia.
  - split; [rewrite !skipn_length; lia|]. split; [apply sorted_skipn; exact Hs|].
    split; [apply Forall_skipn; exact Hw|]. split.
    { apply Forall_forall. intros t Ht. destruct (In_nth _ _ dk Ht) as (j & Hj & <-).
      rewrite skipn_length in Hj. rewrite nth_skipn.
      split; [|apply Hsb; apply nth_In; lia]. cbn. apply sorted_nth_lt; [exact Hs|lia|lia]. }
    rewrite skipn_length. split; intros j Hj; rewrite nth_skipn.
    + replace (lo_at (Some (nth m keys dk)) (skipn (S m) keys) j) with (lo_at lo keys (S m + j)).
      2:{ destruct j as [|j]; cbn [lo_at].
          - replace (S m + 0)%nat with (S m) by lia. reflexivity.
          - rewrite nth_skipn. replace (S m + S j)%nat with (S (S m + j)) by lia. reflexivity. }
      replace (hi_at hi (skipn (S m) keys) j) with (hi_at hi keys (S m + j)).
      2:{ unfold hi_at. rewrite skipn_length, nth_skipn. dnat; reflexivity. }
      apply Hc. lia.
    + apply Hne. lia.
Qed.

Lemma insert_at_cons {A} i (x a : A) l : insert_at (S i) x (a :: l) = a :: insert_at i x l.
Proof. reflexivity. Qed.

Lemma firstn_insert_at_le {A} (x : A) : forall i n l,
  (i <= n)%nat -> firstn (S n) (insert_at i x l) = insert_at i x (firstn n l).
Proof.
  induction i as [|i IH]; intros n l H.
  - reflexivity.
  - destruct n as [|n]; [lia|]. destruct l as [|a l].
    + unfold insert_at. cbn. destruct i; reflexivity.
    + rewrite insert_at_cons. cbn [firstn]. rewrite insert_at_cons. f_equal.
      apply (IH n l). lia.
Qed.

Lemma skipn_insert_at_le {A} (x : A) : forall i n l,
  (i <= n)%nat -> skipn (S n) (insert_at i x l) = skipn n l.
Proof.
  induction i as [|i IH]; intros n l H.
  - reflexivity.
  - destruct n as [|n]; [lia|]. destruct l as [|a l].
    + unfold insert_at. cbn. destruct n; reflexivity.
    + rewrite insert_at_cons. cbn [skipn]. apply (IH n l). lia.
Qed.

Lemma firstn_insert_at_ge {A} (x : A) : forall n i l,
  (n <= i)%nat -> (i <= length l)%nat -> firstn n (insert_at i x l) = firstn n l.
Proof.
  induction n as [|n IH]; intros i l H1 H2; [reflexivity|].
  destruct i as [|i]; [lia|]. destruct l as [|a l]; [cbn in H2; lia|].
  rewrite insert_at_cons. cbn [firstn]. f_equal. apply IH; [lia|cbn [length] in H2; lia].
Qed.

Lemma skipn_insert_at_ge {A} (x : A) : forall n i l,
  (n <= i)%nat -> (i <= length l)%nat -> skipn n (insert_at i x l) = insert_at (i - n) x (skipn n l).
Proof.
  induction n as [|n IH]; intros i l H1 H2.
  - cbn [skipn]. rewrite Nat.sub_0_r. reflexivity.
  - destruct i as [|i]; [lia|]. destruct l as [|a l]; [cbn in H2; lia|].
    rewrite insert_at_cons. cbn [skipn Nat.sub]. apply IH; [lia|cbn [length] in H2; lia].
Qed.

(** ** 3. put *)
Definition ires_ids (r : insres) : list N :=
  match r with IOne t => bt_ids t | ISplit l _ r => bt_ids l ++ bt_ids r end.
Definition ires_elems (r : insres) : list slot_t :=
  match r with IOne t => bt_elems t | ISplit l _ r => bt_elems l ++ bt_elems r end.
Definition ires_ok lo hi (r : insres) : Prop :=
  match r with
  | IOne t => WF_bt lo hi t
  | ISplit l sep r =>
    WF_bt lo (Some sep) l /\ WF_bt (Some sep) hi r /\ kt_wf sep = true /\ sep_bnd lo hi sep /\
    bt_elems l <> [] /\ bt_elems r <> []
  end.

Lemma int_absorb_spec lo hi id ver keys ch i l sep r nid :
  (1 <= length keys <= 15)%nat -> kids_ok lo hi keys ch -> (i < length ch)%nat ->
  WF_bt (lo_at lo keys i) (Some sep) l -> WF_bt (Some sep) (hi_at hi keys i) r ->
  kt_wf sep = true -> sep_bnd (lo_at lo keys i) (hi_at hi keys i) sep ->
  bt_elems l <> [] -> bt_elems r <> [] ->
  ires_ok lo hi (int_absorb id ver keys ch i l sep r nid) /\
  ires_elems (int_absorb id ver keys ch i l sep r nid) =
    flat_map bt_elems (insert_at (S i) r (set_nth i l ch)) /\
  exists nw,
    Permutation (ires_ids (int_absorb id ver keys ch i l sep r nid))
                (nw ++ id :: flat_map bt_ids (insert_at (S i) r (set_nth i l ch))) /\
    (nw = [] \/ nw = [nid]).
Proof.
  intros Hn Hkids Hi Hl Hr Hwsep Hb Hnl Hnr.
  pose proof (kids_insert lo hi keys ch i l sep r Hkids Hi Hl Hr Hwsep Hb Hnl Hnr) as K.
  destruct Hkids as (Hlen & Hs & Hw & Hsb & Hc & Hne).
  assert (i <= length keys)%nat as Hi' by lia.
  pose proof (sep_is_pos lo hi keys sep i Hs Hi' Hb) as Hpi.
  assert (iins_pos keys sep 0 = i) as Hpos.
  { eapply is_pos_unique; [|exact Hpi]. apply iins_pos_is_pos; assumption. }
  set (keys' := insert_at i sep keys) in *.
  set (ch1 := set_nth i l ch) in *.
  set (ch' := insert_at (S i) r ch1) in *.
  assert (length ch1 = length ch) as Hlen1 by apply set_nth_length.
  assert (length keys' = S (length keys)) as Hlk' by (apply insert_at_length; exact Hi').
  assert (length ch' = S (length ch)) as Hlc' by (unfold ch'; rewrite insert_at_length; lia).
  unfold int_absorb. fold ch1. fold dk.
  destruct (Nat.eqb_spec (length keys) 15) as [E15|N15].
  - (* interior split *)
    set (pivot := nth 7 keys dk).
    assert (kt_wf pivot = true) as Hwp.
    { rewrite Forall_forall in Hw. apply Hw. apply nth_In. lia. }
    assert (sep_bnd lo hi pivot) as Hbp.
    { rewrite Forall_forall in Hsb. apply Hsb. apply nth_In. lia. }
    rewrite (iins_probe_site sep pivot Hwsep Hwp).
    destruct Hb as [Hb1 Hb2].
    destruct (canon_lt sep pivot) eqn:Ep.
    + (* (sep, r) goes left *)
      assert (i <= 7)%nat as Hi7.
      { destruct (Nat.le_gt_cases i 7) as [G|G]; [exact G|exfalso].
        destruct i as [|i0]; [lia|]. cbn [lo_at lo_lt] in Hb1.
        assert (canon_lt (nth i0 keys dk) pivot = false) as X
          by (apply sorted_nth_le; [exact Hs|lia|lia]).
        pose proof (canon_lt_le_trans _ _ _ Ep X) as Y.
        apply canon_lt_asym in Y. congruence. }
      assert (iins_pos (firstn 7 keys) sep 0 = i) as Hposl.
      { eapply is_pos_unique; [|apply is_pos_firstn; [exact Hpi|exact Hi7]].
        apply iins_pos_is_pos; [apply Forall_firstn; exact Hw|exact Hwsep]. }
      unfold int_insert. rewrite Hposl. cbv beta iota zeta.
      rewrite <- (firstn_insert_at_le sep i 7 keys Hi7).
      rewrite <- (firstn_insert_at_le r (S i) 8 ch1) by lia.
      rewrite <- (skipn_insert_at_le sep i 8 keys) by lia.
      rewrite <- (skipn_insert_at_le r (S i) 8 ch1) by lia.
      fold keys'. fold ch'.
      assert (pivot = nth 8 keys' dk) as Epv.
      { unfold keys'. rewrite nth_insert_at by exact Hi'. dnat. reflexivity. }
      destruct (kids_split lo hi keys' ch' 8 K ltac:(lia)) as [KL KR]. rewrite <- Epv in KL, KR.
      split.
      { cbn [ires_ok]. split.
        { apply WF_int_iff. split; [rewrite firstn_length; lia|exact KL]. }
        split.
        { apply WF_int_iff. split; [rewrite skipn_length; lia|exact KR]. }
        split; [exact Hwp|]. split; [exact Hbp|]. cbn [bt_elems].
        split; eapply kids_nonempty; eassumption. }
      split.
      { cbn [ires_elems bt_elems]. rewrite <- flat_map_app, firstn_skipn. reflexivity. }
      exists [nid]. split; [|right; reflexivity].
      cbn [ires_ids bt_ids].
      rewrite <- (firstn_skipn 9 ch') at 3. rewrite flat_map_app.
      apply Permutation_sym.
      apply (Permutation_middle (id :: flat_map bt_ids (firstn 9 ch')) (flat_map bt_ids (skipn 9 ch')) nid).
    + (* (sep, r) goes right *)
      assert (8 <= i)%nat as Hi8.
      { destruct (Nat.le_gt_cases 8 i) as [G|G]; [exact G|exfalso].
        unfold hi_at in Hb2. destruct (Nat.ltb_spec i (length keys)); [|lia]. cbn in Hb2.
        assert (canon_lt pivot (nth i keys dk) = false) as X
          by (apply sorted_nth_le; [exact Hs|lia|lia]).
        pose proof (canon_lt_le_trans _ _ _ Hb2 X) as Y. congruence. }
      assert (iins_pos (skipn 8 keys) sep 0 = i - 8)%nat as Hposr.
      { eapply is_pos_unique; [|apply is_pos_skipn; [exact Hpi|exact Hi8]].
        apply iins_pos_is_pos; [apply Forall_skipn; exact Hw|exact Hwsep]. }
      unfold int_insert. rewrite Hposr. cbv beta iota zeta.
      replace (S (i - 8)) with (S i - 8)%nat by lia.
      rewrite <- (skipn_insert_at_ge sep 8 i keys Hi8 Hi').
      rewrite <- (skipn_insert_at_ge r 8 (S i) ch1) by lia.
      rewrite <- (firstn_insert_at_ge sep 7 i keys) by lia.
      rewrite <- (firstn_insert_at_ge r 8 (S i) ch1) by lia.
      fold keys'. fold ch'.
      assert (pivot = nth 7 keys' dk) as Epv.
      { unfold keys'. rewrite nth_insert_at by exact Hi'. dnat. reflexivity. }
      destruct (kids_split lo hi keys' ch' 7 K ltac:(lia)) as [KL KR]. rewrite <- Epv in KL, KR.
      split.
      { cbn [ires_ok]. split.
        { apply WF_int_iff. split; [rewrite firstn_length; lia|exact KL]. }
        split.
        { apply WF_int_iff. split; [rewrite skipn_length; lia|exact KR]. }
        split; [exact Hwp|]. split; [exact Hbp|]. cbn [bt_elems].
        split; eapply kids_nonempty; eassumption. }
      split.
      { cbn [ires_elems bt_elems]. rewrite <- flat_map_app, firstn_skipn. reflexivity. }
      exists [nid]. split; [|right; reflexivity].
      cbn [ires_ids bt_ids].
      rewrite <- (firstn_skipn 8 ch') at 3. rewrite flat_map_app.
      apply Permutation_sym.
      apply (Permutation_middle (id :: flat_map bt_ids (firstn 8 ch')) (flat_map bt_ids (skipn 8 ch')) nid).
  - unfold int_insert. rewrite Hpos. cbv beta iota zeta. fold keys'. fold ch'.
    split; [|split].
    + cbn [ires_ok]. apply WF_int_iff. split; [lia|exact K].
    + reflexivity.
    + exists []. split; [apply Permutation_refl|left; reflexivity].
Qed.
Lemma perm_ctx {A} (a : A) P Q X Y N0 :
  Permutation X (N0 ++ Y) -> Permutation (a :: P ++ X ++ Q) (N0 ++ a :: P ++ Y ++ Q).
Proof.
  intros H.
  apply Permutation_trans with ((a :: P) ++ N0 ++ (Y ++ Q)).
  - cbn [app]. apply perm_skip. apply Permutation_app_head.
    rewrite (app_assoc N0 Y Q). apply Permutation_app_tail. exact H.
  - apply (Permutation_app_swap_app (a :: P) N0 (Y ++ Q)).
Qed.

Lemma NoDup_app_intro {A} (a b : list A) :
  NoDup a -> NoDup b -> (forall x, In x a -> In x b -> False) -> NoDup (a ++ b).
Proof.
  induction a as [|x a IH]; intros Ha Hb Hd; [exact Hb|].
  apply NoDup_cons_iff in Ha. destruct Ha as [Hx Ha]. cbn [app]. constructor.
  - intros X. apply in_app_or in X. destruct X as [X|X]; [exact (Hx X)|].
    apply (Hd x); [left; reflexivity|exact X].
  - apply IH; [exact Ha|exact Hb|]. intros y Hy1 Hy2. apply (Hd y); [right; exact Hy1|exact Hy2].
Qed.

Lemma bt_ids_split id ver keys ch i :
  (i < length ch)%nat ->
  bt_ids (BInt id ver keys ch) =
    id :: flat_map bt_ids (firstn i ch) ++ bt_ids (nth i ch dbt) ++ flat_map bt_ids (skipn (S i) ch).
Proof. intros H. cbn [bt_ids]. f_equal. apply flat_map_split. exact H. Qed.

Lemma bt_elems_split id ver keys ch i :
  (i < length ch)%nat ->
  bt_elems (BInt id ver keys ch) =
    flat_map bt_elems (firstn i ch) ++ bt_elems (nth i ch dbt) ++ flat_map bt_elems (skipn (S i) ch).
Proof. intros H. cbn [bt_elems]. apply flat_map_split. exact H. Qed.

Lemma child_ids_incl id ver keys ch i x :
  (i < length ch)%nat -> In x (bt_ids (nth i ch dbt)) -> In x (bt_ids (BInt id ver keys ch)).
Proof.
  intros Hi H. cbn [bt_ids]. right. apply (in_flat_map_nth bt_ids dbt). exists i. split; assumption.
Qed.

Lemma child_keys_incl id ver keys ch i x :
  (i < length ch)%nat -> In x (bt_keys (nth i ch dbt)) -> In x (bt_keys (BInt id ver keys ch)).
Proof.
  intros Hi H. apply in_keys_in_elems in H. destruct H as (s & H & <-).
  apply in_elems_in_keys. cbn [bt_elems]. apply (in_flat_map_nth bt_elems dbt).
  exists i. split; assumption.
Qed.

Lemma bt_put_spec k lv fuel : forall t lo hi ctr,
  WF_bt lo hi t -> kt_wf k = true -> in_bnd lo hi k -> ~ In k (bt_keys t) ->
  entry_ok {| sl_key := k; sl_lv := lv |} ->
  (bt_height t < fuel)%nat ->
  exists res info ctr' nw,
    bt_put fuel t k lv ctr = Some (res, info, ctr') /\
    ires_ok lo hi res /\
    (exists A B, bt_elems t = A ++ B /\
                 ires_elems res = A ++ {| sl_key := k; sl_lv := lv |} :: B) /\
    Permutation (ires_ids res) (nw ++ bt_ids t) /\ NoDup nw /\
    (forall i, In i nw -> (ctr <= i < ctr')%N) /\ (ctr < ctr')%N /\
    In (pi_modified info) (bt_ids t) /\
    match pi_created info with
    | Some c => c = ctr /\ In c nw
    | None => nw = [] /\ exists t', res = IOne t'
    end.
Proof.
  induction fuel as [|f IH]; intros t lo hi ctr Hwf Hk Hbk Hnin Hok Hh; [lia|].
  destruct t as [l|id ver keys ch]; cbn [bt_put].
  - (* leaf *)
    apply WF_leaf_iff in Hwf. destruct Hwf as [Hl Hbl].
    change (bt_keys (BLeaf l)) with (leaf_keys l) in Hnin.
    destruct (N.eq_dec (leaf_cnk l) 15) as [E15|N15].
    + destruct (leaf_put_split l k lv ctr Hl E15 Hk Hnin Hok) as (L & sep & R & info & E & Hpost).
      rewrite E. pose proof (split_post_keys _ _ _ _ _ _ _ _ Hpost) as Hkeys.
      destruct Hpost as (He & HwL & HwR & HiL & HiR & H8 & H7 & H16 & Hhd & FL & FR & Hm & Hcr).
      exists (ISplit (BLeaf L) sep (BLeaf R)), info, (ctr + 1)%N, [ctr].
      split; [reflexivity|].
      assert (Forall (in_bnd lo hi) (leaf_keys L ++ leaf_keys R)) as Hb2.
      { rewrite Hkeys. apply Forall_insert_at; assumption. }
      apply Forall_app in Hb2. destruct Hb2 as [HbL HbR].
      assert (In sep (leaf_keys R)) as HsepR.
      { destruct (leaf_keys R); [discriminate|]. injection Hhd as ->. left. reflexivity. }
      rewrite Forall_forall in HbL, HbR, FL, FR.
      split.
      { cbn [ires_ok]. split.
        { apply WF_leaf_iff. split; [exact HwL|]. apply Forall_forall. intros t Ht.
          split; [apply HbL; exact Ht|cbn; apply FL; exact Ht]. }
        split.
        { apply WF_leaf_iff. split; [exact HwR|]. apply Forall_forall. intros t Ht.
          split; [cbn; apply FR; exact Ht|apply HbR; exact Ht]. }
        split.
        { pose proof (WF_leaf_keys_wf R HwR) as W. rewrite Forall_forall in W. apply W. exact HsepR. }
        split.
        { split; [|apply HbR; exact HsepR].
          destruct (leaf_keys L) as [|t0 kl0] eqn:EL.
          - exfalso. unfold leaf_keys in EL. apply map_eq_nil in EL. rewrite EL in H8. cbn in H8. lia.
          - apply lo_ok_lt_trans with t0; [apply HbL; left; reflexivity|apply FL; left; reflexivity]. }
        cbn [bt_elems]. split; intros X; rewrite X in *; cbn in *; lia. }
      split.
      { exists (firstn (leaf_rank l k) (leaf_entries l)), (skipn (leaf_rank l k) (leaf_entries l)).
        split; [cbn [bt_elems]; symmetry; apply firstn_skipn|]. cbn [ires_elems bt_elems]. exact He. }
      split.
      { cbn [ires_ids bt_ids app]. rewrite HiL, HiR. apply perm_swap. }
      split; [constructor; [intros []|constructor]|].
      split; [intros i [<-|[]]; lia|]. split; [lia|].
      split; [rewrite Hm; left; reflexivity|]. rewrite Hcr. split; [reflexivity|left; reflexivity].
    + destruct (leaf_put_nosplit l k lv ctr Hl N15 Hk Hnin Hok) as (l' & info & E & He & Hl' & Hid & Hm & Hcr).
      rewrite E. exists (IOne (BLeaf l')), info, (ctr + 1)%N, [].
      split; [reflexivity|]. split.
      { cbn [ires_ok]. apply WF_leaf_iff. split; [exact Hl'|].
        rewrite (leaf_keys_insert _ _ _ _ He). apply Forall_insert_at; assumption. }
      split.
      { exists (firstn (leaf_rank l k) (leaf_entries l)), (skipn (leaf_rank l k) (leaf_entries l)).
        split; [cbn [bt_elems]; symmetry; apply firstn_skipn|]. cbn [ires_elems bt_elems]. exact He. }
      split; [cbn [ires_ids bt_ids app]; rewrite Hid; apply Permutation_refl|].
      split; [constructor|]. split; [intros i []|]. split; [lia|].
      split; [rewrite Hm; left; reflexivity|]. rewrite Hcr. split; [reflexivity|eexists; reflexivity].
  - (* interior *)
    pose proof Hwf as Hwf0.
    apply WF_int_iff in Hwf. destruct Hwf as [Hn Hkids].
    destruct (kids_route lo hi keys ch k Hkids Hk) as (Hi & Hbi & _).
    specialize (Hbi Hbk). set (i := route keys k 0) in *.
    pose proof Hkids as (Hlen & Hs & Hw & Hsb & Hc & Hne).
    rewrite (nth_error_child ch i Hi).
    set (c := nth i ch dbt) in *.
    destruct (IH c _ _ ctr (Hc i Hi) Hk Hbi) as
        (res & info & ctr' & nw & E & Hres & (A & B & HAB & Hel) & Hperm & Hnd & Hrange & Hctr & Hmod & Hcre).
    { intros X. apply Hnin. eapply child_keys_incl; eassumption. }
    { exact Hok. }
    { pose proof (height_child id ver keys ch i Hi). fold c in H. lia. }
    rewrite E.
    set (P := flat_map bt_ids (firstn i ch)) in *. set (Q := flat_map bt_ids (skipn (S i) ch)) in *.
    assert (bt_ids (BInt id ver keys ch) = id :: P ++ bt_ids c ++ Q) as Hids
      by (apply bt_ids_split; exact Hi).
    assert (bt_elems (BInt id ver keys ch) =
            (flat_map bt_elems (firstn i ch) ++ A) ++ B ++ flat_map bt_elems (skipn (S i) ch)) as Hels.
    { rewrite (bt_elems_split id ver keys ch i Hi). fold c. rewrite HAB, <- !app_assoc. reflexivity. }
    assert (In (pi_modified info) (bt_ids (BInt id ver keys ch))) as Hmod'
      by (eapply child_ids_incl; eassumption).
    destruct res as [c'|l sep r].
    + (* child absorbed the insert *)
      exists (IOne (BInt id ver keys (set_nth i c' ch))), info, ctr', nw.
      split; [reflexivity|]. cbn [ires_ok ires_elems ires_ids] in *.
      assert (bt_elems c' <> []) as Hne' by (rewrite Hel; destruct A; discriminate).
      split.
      { apply WF_int_iff. split; [exact Hn|]. apply kids_set; assumption. }
      split.
      { eexists. eexists. split; [exact Hels|]. cbn [bt_elems].
        rewrite flat_map_set_nth by exact Hi. rewrite Hel, <- !app_assoc. reflexivity. }
      split.
      { rewrite Hids.
        change (bt_ids (BInt id ver keys (set_nth i c' ch)))
          with (id :: flat_map bt_ids (set_nth i c' ch)).
        rewrite flat_map_set_nth by exact Hi. apply perm_ctx. exact Hperm. }
      split; [exact Hnd|]. split; [exact Hrange|]. split; [exact Hctr|]. split; [exact Hmod'|].
      destruct (pi_created info); [exact Hcre|]. split; [apply Hcre|eexists; reflexivity].
    + (* child split *)
      cbn [ires_ok ires_elems ires_ids] in *.
      destruct Hres as (Hwl & Hwr & Hwsep & Hbsep & Hnl & Hnr).
      destruct (int_absorb_spec lo hi id ver keys ch i l sep r ctr' Hn Hkids Hi Hwl Hwr Hwsep Hbsep Hnl Hnr)
        as (R1 & R2 & nwa & R3 & R4).
      exists (int_absorb id ver keys ch i l sep r ctr'), info, (ctr' + 1)%N, (nwa ++ nw).
      split; [reflexivity|]. split; [exact R1|]. split.
      { eexists. eexists. split; [exact Hels|]. rewrite R2.
        rewrite flat_map_insert_after_set by exact Hi. rewrite Hel, <- !app_assoc. reflexivity. }
      split.
      { eapply Permutation_trans; [exact R3|]. rewrite <- app_assoc. apply Permutation_app_head.
        rewrite flat_map_insert_after_set by exact Hi. rewrite Hids. apply perm_ctx. exact Hperm. }
      split.
      { destruct R4 as [->| ->]; [exact Hnd|]. cbn [app]. constructor; [|exact Hnd].
        intros X. apply Hrange in X. lia. }
      split.
      { intros j Hj. apply in_app_or in Hj. destruct Hj as [Hj|Hj].
        - destruct R4 as [->| ->]; [destruct Hj|]. destruct Hj as [<-|[]]. lia.
        - apply Hrange in Hj. lia. }
      split; [lia|]. split; [exact Hmod'|].
      destruct (pi_created info).
      * destruct Hcre as [-> Hin]. split; [reflexivity|]. apply in_or_app. right. exact Hin.
      * destruct Hcre as (_ & t' & Ht'). discriminate.
Qed.

Theorem layer_put_spec root k lv ctr :
  WF_layer root -> kt_wf k = true -> ~ In k (bt_keys root) ->
  entry_ok {| sl_key := k; sl_lv := lv |} ->
  (forall i, In i (bt_ids root) -> (i < ctr)%N) ->
  exists root' info ctr',
    layer_put root k lv ctr = Some (root', info, ctr') /\
    WF_layer root' /\ sorted_keys (bt_keys root') /\
    (exists A B, bt_elems root = A ++ B /\
                 bt_elems root' = A ++ {| sl_key := k; sl_lv := lv |} :: B) /\
    Permutation (bt_elems root') ({| sl_key := k; sl_lv := lv |} :: bt_elems root) /\
    (ctr <= ctr')%N /\
    (forall i, In i (bt_ids root') -> (i < ctr')%N) /\
    (forall i, In i (bt_ids root) -> In i (bt_ids root')) /\
    (forall i, In i (bt_ids root') -> In i (bt_ids root) \/ (ctr <= i < ctr')%N) /\
    In (pi_modified info) (bt_ids root) /\
    match pi_created info with
    | Some c => c = ctr /\ In c (bt_ids root') /\ ~ In c (bt_ids root)
    | None => True
    end.
Proof.
  intros [Hwf Hnd] Hk Hnin Hok Hctr.
  destruct (bt_put_spec k lv (S (bt_height root)) root None None ctr Hwf Hk) as
      (res & info & ctr' & nw & E & Hres & (A & B & HAB & Hel) & Hperm & Hndn & Hrange & Hc & Hmod & Hcre);
    [split; exact I|exact Hnin|exact Hok|lia|].
  unfold layer_put. rewrite E.
  assert (exists root' ctr2 nw2,
            match res with
            | IOne t => Some (t, info, ctr')
            | ISplit l sep r => Some (BInt ctr' v_new_interior_parent [sep] [l; r], info, (ctr' + 1)%N)
            end = Some (root', info, ctr2) /\
            WF_bt None None root' /\ bt_elems root' = ires_elems res /\
            Permutation (bt_ids root') (nw2 ++ bt_ids root) /\ NoDup nw2 /\
            (forall i, In i nw2 -> (ctr <= i < ctr2)%N) /\ (ctr < ctr2)%N /\
            (forall i, In i nw -> In i nw2)) as (root' & ctr2 & nw2 & E2 & Hwf' & Hel' & Hp' & Hnd2 & Hr2 & Hc2 & Hsub).
  { destruct res as [t|l sep r]; cbn [ires_ok ires_elems ires_ids] in *.
    - exists t, ctr', nw. repeat split; try assumption; try apply Hrange; auto.
    - destruct Hres as (Hwl & Hwr & Hwsep & Hbsep & Hnl & Hnr).
      exists (BInt ctr' v_new_interior_parent [sep] [l; r]), (ctr' + 1)%N, (ctr' :: nw).
      split; [reflexivity|]. split.
      { apply WF_int_iff. split; [cbn; lia|]. split; [reflexivity|].
        split; [constructor; constructor|]. split; [constructor; [exact Hwsep|constructor]|].
        split; [constructor; [exact Hbsep|constructor]|].
        split; intros [|[|j]] Hj; cbn in Hj; try lia; cbn; assumption. }
      split; [cbn; rewrite app_nil_r; reflexivity|]. split.
      { cbn [bt_ids flat_map app]. rewrite app_nil_r. apply perm_skip. exact Hperm. }
      split; [constructor; [intros X; apply Hrange in X; lia|exact Hndn]|].
      split.
      { intros j [<-|Hj]; [lia|]. apply Hrange in Hj. lia. }
      split; [lia|]. intros j Hj. right. exact Hj. }
  exists root', info, ctr2. split; [exact E2|].
  assert (forall i, In i (bt_ids root') -> In i nw2 \/ In i (bt_ids root)) as Hin'.
  { intros j Hj. apply in_app_or. eapply Permutation_in; [exact Hp'|exact Hj]. }
  assert (Permutation (bt_elems root') ({| sl_key := k; sl_lv := lv |} :: bt_elems root)) as HP.
  { rewrite Hel', Hel, HAB. apply Permutation_sym. apply Permutation_middle. }
  split.
  { split; [exact Hwf'|]. eapply Permutation_NoDup; [apply Permutation_sym; exact Hp'|].
    apply NoDup_app_intro; [exact Hnd2|exact Hnd|].
    intros j Hj1 Hj2. apply Hr2 in Hj1. apply Hctr in Hj2. lia. }
  split; [apply (WF_bt_sorted None None); exact Hwf'|].
  split; [exists A, B; split; [exact HAB|rewrite Hel'; exact Hel]|].
  split; [exact HP|]. split; [lia|]. split.
  { intros j Hj. destruct (Hin' j Hj) as [X|X]; [apply Hr2 in X; lia|apply Hctr in X; lia]. }
  split.
  { intros j Hj. eapply Permutation_in; [apply Permutation_sym; exact Hp'|].
    apply in_or_app. right. exact Hj. }
  split.
  { intros j Hj. destruct (Hin' j Hj) as [X|X]; [right; apply Hr2; exact X|left; exact X]. }
  split; [exact Hmod|].
  destruct (pi_created info); [|exact I]. destruct Hcre as [-> Hin]. split; [reflexivity|]. split.
  - eapply Permutation_in; [apply Permutation_sym; exact Hp'|]. apply in_or_app. left. apply Hsub. exact Hin.
  - intros X. apply Hctr in X. lia.
Qed.
(** ** 4. update of the leaf reached by a key *)
Lemma bt_update_leaf_spec k fuel : forall t lo hi,
  WF_bt lo hi t -> kt_wf k = true -> (bt_height t < fuel)%nat ->
  exists l, bt_find_leaf fuel t k = Some l /\
    forall f, WF_leaf (f l) -> lf_id (f l) = lf_id l -> leaf_keys (f l) = leaf_keys l ->
      WF_bt lo hi (bt_update_leaf fuel t k f) /\
      bt_ids (bt_update_leaf fuel t k f) = bt_ids t /\
      bt_id (bt_update_leaf fuel t k f) = bt_id t /\
      exists A B, bt_elems t = A ++ leaf_entries l ++ B /\
                  bt_elems (bt_update_leaf fuel t k f) = A ++ leaf_entries (f l) ++ B.
Proof.
  induction fuel as [|fu IH]; intros t lo hi Hwf Hk Hh; [lia|].
  destruct t as [l|id ver keys ch]; cbn [bt_find_leaf bt_update_leaf].
  - apply WF_leaf_iff in Hwf. destruct Hwf as [Hl Hb]. exists l. split; [reflexivity|].
    intros f Hfl Hfid Hfk. split.
    { apply WF_leaf_iff. split; [exact Hfl|]. rewrite Hfk. exact Hb. }
    split; [cbn [bt_ids]; rewrite Hfid; reflexivity|]. split; [exact Hfid|].
    exists [], []. cbn [bt_elems app]. rewrite !app_nil_r. split; reflexivity.
  - apply WF_int_iff in Hwf. destruct Hwf as [Hn Hkids].
    destruct (kids_route lo hi keys ch k Hkids Hk) as (Hi & _ & _).
    set (i := route keys k 0) in *.
    pose proof Hkids as (Hlen & Hs & Hw & Hsb & Hc & Hne).
    rewrite (nth_error_child ch i Hi).
    destruct (IH (nth i ch dbt) _ _ (Hc i Hi) Hk) as (l & E & Hupd).
    { pose proof (height_child id ver keys ch i Hi). lia. }
    exists l. split; [exact E|]. intros f Hfl Hfid Hfk.
    destruct (Hupd f Hfl Hfid Hfk) as (U1 & U2 & _ & A & B & U3 & U4).
    set (c' := bt_update_leaf fu (nth i ch dbt) k f) in *.
    assert (bt_elems c' <> []) as Hne'.
    { intros X. apply (Hne i Hi). rewrite U4 in X. rewrite U3.
      apply app_eq_nil in X. destruct X as [-> X]. apply app_eq_nil in X. destruct X as [X ->].
      assert (leaf_entries l = []) as ->; [|reflexivity].
      apply (f_equal (map sl_key)) in X. fold (leaf_keys (f l)) in X. rewrite Hfk in X.
      unfold leaf_keys in X. apply map_eq_nil in X. exact X. }
    split.
    { apply WF_int_iff. split; [exact Hn|]. apply kids_set; assumption. }
    split.
    { cbn [bt_ids]. f_equal. rewrite flat_map_set_nth by exact Hi. rewrite U2.
      symmetry. apply flat_map_split. exact Hi. }
    split; [reflexivity|].
    exists (flat_map bt_elems (firstn i ch) ++ A), (B ++ flat_map bt_elems (skipn (S i) ch)).
    split.
    + rewrite (bt_elems_split id ver keys ch i Hi), U3, <- !app_assoc. reflexivity.
    + cbn [bt_elems]. rewrite flat_map_set_nth by exact Hi. rewrite U4, <- !app_assoc. reflexivity.
Qed.

Lemma map_replace_key (k : ktuple) (x s : slot_t) A B :
  NoDup (map sl_key (A ++ s :: B)) -> sl_key s = k ->
  map (fun e => if kt_eq (sl_key e) k then x else e) (A ++ s :: B) = A ++ x :: B.
Proof.
  intros Hnd Hs. subst k.
  assert (forall e, In e A \/ In e B -> (if kt_eq (sl_key e) (sl_key s) then x else e) = e) as Hid.
  { intros e He. destruct (kt_eq (sl_key e) (sl_key s)) eqn:E; [|reflexivity]. exfalso.
    apply (proj1 (kt_eq_canon _ _)) in E.
    rewrite map_app in Hnd. cbn [map] in Hnd. apply NoDup_remove_2 in Hnd. apply Hnd.
    rewrite <- E. apply in_or_app. destruct He as [He|He]; [left|right]; apply in_map; exact He. }
  rewrite map_app. cbn [map].
  assert (kt_eq (sl_key s) (sl_key s) = true) as -> by (apply (proj1 (kt_eq_canon _ _)); reflexivity).
  f_equal; [|f_equal].
  - rewrite <- (map_id A) at 2. apply map_ext_in. intros e He. apply Hid. left. exact He.
  - rewrite <- (map_id B) at 2. apply map_ext_in. intros e He. apply Hid. right. exact He.
Qed.

(** overwrite of the value of an existing key, as done by [put_walk] *)
Theorem layer_update_spec root k l rank slot s v :
  WF_layer root -> kt_wf k = true ->
  find_leaf root k = Some l -> leaf_lookup l k = Some (rank, slot, s) -> (kl k <= 8)%N ->
  let x := {| sl_key := sl_key s; sl_lv := LValue v |} in
  let root' := update_leaf root k (fun l0 =>
                 leaf_with l0 (lf_ver l0) (lf_perm l0)
                           (set_nth (N.to_nat slot) x (lf_slots l0))) in
  sl_key s = k /\ In s (bt_elems root) /\
  WF_layer root' /\ bt_ids root' = bt_ids root /\ bt_id root' = bt_id root /\
  (exists A B, bt_elems root = A ++ s :: B /\ bt_elems root' = A ++ x :: B) /\
  bt_elems root' = map (fun e => if kt_eq (sl_key e) k then x else e) (bt_elems root) /\
  bt_keys root' = bt_keys root.
Proof.
  intros [Hwf Hnd] Hk Hfind Hlook Hkl x root'.
  destruct (bt_update_leaf_spec k (S (bt_height root)) root None None Hwf Hk ltac:(lia))
    as (l' & E & Hupd).
  unfold find_leaf in Hfind. rewrite Hfind in E. injection E as <-.
  destruct (bt_find_leaf_spec (S (bt_height root)) root None None k Hwf Hk ltac:(lia))
    as (l' & E & Hl & _ & _ & Hsub).
  rewrite Hfind in E. injection E as <-.
  destruct (leaf_lookup_some l k rank slot s Hl Hk Hlook) as [Hr Hsk].
  pose proof (leaf_ranked_entries l rank slot s Hr) as Hre.
  assert (entry_ok x) as Hokx.
  { split; cbn [sl_key sl_lv x]; rewrite Hsk; assumption. }
  destruct (leaf_overwrite_spec l (lf_ver l) rank slot s x Hl Hr eq_refl Hokx) as (O1 & O2 & O3).
  set (f := fun l0 => leaf_with l0 (lf_ver l0) (lf_perm l0) (set_nth (N.to_nat slot) x (lf_slots l0))) in *.
  destruct (Hupd f O3 eq_refl O2) as (U1 & U2 & U3 & A & B & U4 & U5).
  change (bt_update_leaf (S (bt_height root)) root k f) with root' in *.
  assert (rank < length (leaf_entries l))%nat as Hrl by (apply nth_error_Some; congruence).
  assert (leaf_entries l = firstn rank (leaf_entries l) ++ s :: skipn (S rank) (leaf_entries l)) as HE.
  { rewrite (split_at_nth empty_slot _ rank Hrl) at 1. f_equal. f_equal.
    apply nth_error_nth. exact Hre. }
  assert (exists A' B', bt_elems root = A' ++ s :: B' /\ bt_elems root' = A' ++ x :: B')
    as (A' & B' & H1 & H2).
  { exists (A ++ firstn rank (leaf_entries l)), (skipn (S rank) (leaf_entries l) ++ B). split.
    - rewrite U4. rewrite HE at 1. rewrite <- !app_assoc. reflexivity.
    - rewrite U5. change (leaf_entries (f l)) with
        (leaf_entries (leaf_with l (lf_ver l) (lf_perm l) (set_nth (N.to_nat slot) x (lf_slots l)))).
      rewrite O1, set_nth_split by exact Hrl. rewrite <- !app_assoc. reflexivity. }
  split; [exact Hsk|]. split; [apply Hsub; eapply nth_error_In; exact Hre|].
  split; [split; [exact U1|rewrite U2; exact Hnd]|]. split; [exact U2|]. split; [exact U3|].
  split; [exists A', B'; split; assumption|]. split.
  - rewrite H2, H1. symmetry. apply map_replace_key; [|exact Hsk].
    rewrite <- H1. apply (WF_bt_keys_NoDup None None root Hwf).
  - unfold bt_keys. rewrite H2, H1, !map_app. reflexivity.
Qed.
(** ** 5. delete *)
Lemma kids_remove lo hi keys ch i :
  kids_ok lo hi keys ch -> (2 <= length keys)%nat -> (i < length ch)%nat ->
  kids_ok lo hi (remove_at (i - 1) keys) (remove_at i ch).
Proof.
  intros (Hlen & Hs & Hw & Hsb & Hc & Hne) H2 Hi.
  assert (i - 1 < length keys)%nat as Hr by lia.
  assert (length (remove_at i ch) = (length ch - 1)%nat) as Hlc by (apply remove_at_length; exact Hi).
  assert (length (remove_at (i - 1) keys) = (length keys - 1)%nat) as Hlk
    by (apply remove_at_length; exact Hr).
  split; [lia|]. split; [apply sorted_remove_at; exact Hs|].
  split; [apply Forall_remove_at; exact Hw|]. split; [apply Forall_remove_at; exact Hsb|].
  rewrite Forall_forall in Hsb.
  rewrite Hlc. split; intros j Hj; rewrite (nth_remove_at dbt ch i j Hi).
  - destruct (Nat.ltb_spec j i) as [C|C].
    + (* children before the removed one *)
      eapply WF_bt_widen; [apply Hc; lia| |].
      * destruct j as [|j0]; cbn [lo_at]; [apply lo_le_refl|].
        rewrite (nth_remove_at dk keys (i - 1) j0 Hr). dnat. apply lo_le_refl.
      * unfold hi_at. rewrite Hlk, (nth_remove_at dk keys (i - 1) j Hr). dnat.
        -- apply hi_le_refl.
        -- cbn. apply sorted_nth_le; [exact Hs|lia|lia].
        -- apply hi_ok_le. apply Hsb. apply nth_In. lia.
    + (* children after it *)
      eapply WF_bt_widen; [apply Hc; lia| |].
      * destruct j as [|j0]; cbn [lo_at].
        -- apply lo_lt_le. apply Hsb. apply nth_In. lia.
        -- rewrite (nth_remove_at dk keys (i - 1) j0 Hr). dnat. apply lo_le_refl.
      * unfold hi_at. rewrite Hlk, (nth_remove_at dk keys (i - 1) j Hr). dnat; apply hi_le_refl.
  - destruct (Nat.ltb_spec j i); apply Hne; lia.
Qed.

Definition dres_ids (r : delres) : list N := match r with DKept t => bt_ids t | DGone => [] end.

Lemma bt_delete_spec k fuel : forall t lo hi,
  WF_bt lo hi t -> kt_wf k = true -> In k (bt_keys t) -> (bt_height t < fuel)%nat ->
  exists res ret,
    bt_delete fuel t k = Some (res, ret) /\
    Permutation (bt_ids t) (ret ++ dres_ids res) /\
    match res with
    | DGone => exists l s, t = BLeaf l /\ leaf_entries l = [s] /\ sl_key s = k /\ ret = [lf_id l]
    | DKept t' =>
      WF_bt lo hi t' /\ bt_elems t' <> [] /\
      exists A s B, bt_elems t = A ++ s :: B /\ sl_key s = k /\ bt_elems t' = A ++ B
    end.
Proof.
  induction fuel as [|f IH]; intros t lo hi Hwf Hk Hin Hh; [lia|].
  destruct t as [l|id ver keys ch]; cbn [bt_delete].
  - (* leaf *)
    apply WF_leaf_iff in Hwf. destruct Hwf as [Hl Hb].
    change (bt_keys (BLeaf l)) with (leaf_keys l) in Hin.
    destruct (leaf_lookup_in l k Hl Hk Hin) as (r & slot & s & E & Hr & Hsk & _).
    rewrite E. pose proof (leaf_ranked_entries l r slot s Hr) as Hre.
    pose proof (leaf_entries_length l) as Hlen.
    assert (r < length (leaf_entries l))%nat as Hrl by (apply nth_error_Some; congruence).
    destruct (N.eqb_spec (leaf_cnk l) 1) as [E1|N1].
    + exists DGone, [lf_id l]. split; [reflexivity|]. split; [apply Permutation_refl|].
      exists l, s. split; [reflexivity|]. split; [|split; [exact Hsk|reflexivity]].
      rewrite E1 in Hlen. change (N.to_nat 1) with 1%nat in Hlen.
      destruct (leaf_entries l) as [|a [|b e]]; cbn in Hlen; try lia.
      destruct r as [|r]; [|cbn in Hrl; lia]. cbn in Hre. congruence.
    + destruct (leaf_delete_spec l r slot s Hl Hr) as (D1 & D2 & D3).
      exists (DKept (BLeaf (leaf_delete l r slot))), []. split; [reflexivity|].
      split; [cbn [app dres_ids bt_ids]; rewrite D3; apply Permutation_refl|].
      split.
      { apply WF_leaf_iff. split; [exact D2|].
        rewrite (leaf_delete_keys l r slot s Hl Hr). apply Forall_remove_at. exact Hb. }
      cbn [bt_elems]. rewrite D1. split.
      { intros X. apply (f_equal (@length _)) in X. rewrite remove_at_length in X by exact Hrl.
        cbn in X. lia. }
      exists (firstn r (leaf_entries l)), s, (skipn (S r) (leaf_entries l)).
      split; [|split; [exact Hsk|reflexivity]].
      rewrite (split_at_nth empty_slot _ r Hrl) at 1. f_equal. f_equal.
      apply nth_error_nth. exact Hre.
  - (* interior *)
    apply WF_int_iff in Hwf. destruct Hwf as [Hn Hkids].
    destruct (kids_route lo hi keys ch k Hkids Hk) as (Hi & _ & Hroute).
    set (i := route keys k 0) in *.
    pose proof Hkids as (Hlen & Hs & Hw & Hsb & Hc & Hne).
    rewrite (nth_error_child ch i Hi).
    set (c := nth i ch dbt) in *.
    assert (In k (bt_keys c)) as Hinc.
    { apply in_keys_in_elems in Hin. destruct Hin as (s & Hs1 & Hs2).
      rewrite <- Hs2. apply in_elems_in_keys. apply Hroute; assumption. }
    destruct (IH c _ _ (Hc i Hi) Hk Hinc) as (res & ret & E & Hperm & Hres).
    { pose proof (height_child id ver keys ch i Hi). fold c in H. lia. }
    rewrite E.
    set (P := flat_map bt_ids (firstn i ch)) in *. set (Q := flat_map bt_ids (skipn (S i) ch)) in *.
    assert (bt_ids (BInt id ver keys ch) = id :: P ++ bt_ids c ++ Q) as Hids
      by (apply bt_ids_split; exact Hi).
    pose proof (bt_elems_split id ver keys ch i Hi) as Hels. fold c in Hels.
    destruct res as [c'|].
    + (* the child survives *)
      destruct Hres as (Hwc' & Hnc' & A & s & B & HA & Hsk & HB).
      exists (DKept (BInt id ver keys (set_nth i c' ch))), ret. split; [reflexivity|].
      split.
      { rewrite Hids. cbn [dres_ids bt_ids]. rewrite flat_map_set_nth by exact Hi.
        apply perm_ctx. exact Hperm. }
      pose proof (kids_set lo hi keys ch i c' Hkids Hi Hwc' Hnc') as K.
      split; [apply WF_int_iff; split; [exact Hn|exact K]|].
      split; [cbn [bt_elems]; eapply kids_nonempty; exact K|].
      exists (flat_map bt_elems (firstn i ch) ++ A), s, (B ++ flat_map bt_elems (skipn (S i) ch)).
      split; [rewrite Hels, HA, <- !app_assoc; reflexivity|]. split; [exact Hsk|].
      cbn [bt_elems]. rewrite flat_map_set_nth by exact Hi. rewrite HB, <- !app_assoc. reflexivity.
    + (* the child (a leaf) is gone *)
      destruct Hres as (l & s & Hcl & Hentries & Hsk & ->).
      assert (bt_elems c = [s]) as Hec by (rewrite Hcl; exact Hentries).
      assert (bt_ids c = [lf_id l]) as Hic by (rewrite Hcl; reflexivity).
      destruct (Nat.eqb_spec (length keys) 1) as [E1|N1].
      * (* promotion of the sibling *)
        destruct ch as [|c0 [|c1 [|c2 ch]]]; cbn [length] in Hlen; try lia.
        assert (sep_bnd lo hi (nth 0 keys dk)) as [Hb1 Hb2].
        { rewrite Forall_forall in Hsb. apply Hsb. apply nth_In. lia. }
        assert (i = 0 \/ i = 1)%nat as Hi01 by (cbn [length] in Hi; lia).
        unfold P, Q in Hids. unfold c in *.
        destruct Hi01 as [Ei|Ei]; rewrite Ei in *; cbn [Nat.sub nth_error nth firstn skipn flat_map app] in *.
        -- exists (DKept c1), ([lf_id l] ++ [id]). split; [reflexivity|]. split.
           { rewrite Hids, Hic, !app_nil_r. cbn [app dres_ids]. apply perm_swap. }
           split.
           { eapply WF_bt_widen; [apply (Hc 1%nat); cbn; lia| |].
             - cbn [lo_at]. apply lo_lt_le. exact Hb1.
             - unfold hi_at. rewrite E1. cbn. apply hi_le_refl. }
           split; [apply (Hne 1%nat); cbn; lia|].
           exists [], s, (bt_elems c1). rewrite Hels, Hec, app_nil_r. cbn [app].
           split; [reflexivity|]. split; [exact Hsk|reflexivity].
        -- exists (DKept c0), ([lf_id l] ++ [id]). split; [reflexivity|]. split.
           { rewrite Hids, Hic, !app_nil_r. cbn [app dres_ids].
             apply Permutation_trans with (id :: lf_id l :: bt_ids c0).
             - apply perm_skip. apply Permutation_sym. apply Permutation_cons_append.
             - apply perm_swap. }
           split.
           { eapply WF_bt_widen; [apply (Hc 0%nat); cbn; lia| |].
             - cbn [lo_at]. apply lo_le_refl.
             - unfold hi_at. rewrite E1. cbn. apply hi_ok_le. exact Hb2. }
           split; [apply (Hne 0%nat); cbn; lia|].
           exists (bt_elems c0), s, []. rewrite Hels, Hec, !app_nil_r.
           split; [reflexivity|]. split; [exact Hsk|reflexivity].
      * assert ((if Nat.eqb i 0 then remove_nth 0 keys else remove_nth (i - 1) keys)
                = remove_at (i - 1) keys) as ->.
        { unfold remove_nth. destruct (Nat.eqb_spec i 0) as [->|_]; reflexivity. }
        unfold remove_nth.
        pose proof (kids_remove lo hi keys ch i Hkids ltac:(lia) Hi) as K.
        eexists. eexists. split; [reflexivity|]. split.
        { rewrite Hids, Hic. cbn [dres_ids bt_ids]. rewrite flat_map_remove_at. fold P Q.
          change (P ++ Q) with (P ++ [] ++ Q). apply perm_ctx. apply Permutation_refl. }
        split.
        { apply WF_int_iff. split; [|exact K]. rewrite remove_at_length by lia. lia. }
        split; [cbn [bt_elems]; eapply kids_nonempty; exact K|].
        exists (flat_map bt_elems (firstn i ch)), s, (flat_map bt_elems (skipn (S i) ch)).
        split; [rewrite Hels, Hec; reflexivity|]. split; [exact Hsk|].
        cbn [bt_elems]. apply flat_map_remove_at.
Qed.

Lemma NoDup_app_inv {A} (a b : list A) :
  NoDup (a ++ b) -> NoDup a /\ NoDup b /\ (forall x, In x a -> In x b -> False).
Proof.
  induction a as [|y a IH]; intros H.
  - split; [constructor|]. split; [exact H|]. intros x [].
  - cbn [app] in H. apply NoDup_cons_iff in H. destruct H as [Hy H].
    destruct (IH H) as (H1 & H2 & H3). split.
    + constructor; [|exact H1]. intros X. apply Hy. apply in_or_app. left. exact X.
    + split; [exact H2|]. intros x [->|Hx] Hb.
      * apply Hy. apply in_or_app. right. exact Hb.
      * exact (H3 x Hx Hb).
Qed.

Corollary bt_delete_ids k fuel t lo hi res ret :
  WF_bt lo hi t -> NoDup (bt_ids t) -> kt_wf k = true -> In k (bt_keys t) -> (bt_height t < fuel)%nat ->
  bt_delete fuel t k = Some (res, ret) ->
  NoDup (dres_ids res) /\ NoDup ret /\ incl (dres_ids res) (bt_ids t) /\ incl ret (bt_ids t) /\
  (forall x, In x ret -> ~ In x (dres_ids res)) /\
  (forall x, In x (bt_ids t) -> In x ret \/ In x (dres_ids res)).
Proof.
  intros Hwf Hnd Hk Hin Hh E.
  destruct (bt_delete_spec k fuel t lo hi Hwf Hk Hin Hh) as (res' & ret' & E' & Hperm & _).
  rewrite E in E'. injection E' as <- <-.
  pose proof (Permutation_NoDup Hperm Hnd) as Hnd'.
  assert (forall x, In x (ret ++ dres_ids res) -> In x (bt_ids t)) as Hsub
    by (intros x Hx; eapply Permutation_in; [apply Permutation_sym; exact Hperm|exact Hx]).
  destruct (NoDup_app_inv _ _ Hnd') as (N1 & N2 & N3).
  split; [exact N2|]. split; [exact N1|].
  split; [intros x Hx; apply Hsub; apply in_or_app; right; exact Hx|].
  split; [intros x Hx; apply Hsub; apply in_or_app; left; exact Hx|]. split.
  - intros x Hx1 Hx2. exact (N3 x Hx1 Hx2).
  - intros x Hx. apply in_app_or. eapply Permutation_in; [exact Hperm|exact Hx].
Qed.
(** ** 6. the layer map *)
Lemma prefix_eqb_eq a b : prefix_eqb a b = true <-> a = b.
Proof.
  revert b. induction a as [|x a IH]; intros [|y b]; cbn [prefix_eqb].
  - split; reflexivity.
  - split; discriminate.
  - split; discriminate.
  - rewrite andb_true_iff, N.eqb_eq, IH. split.
    + intros [-> ->]. reflexivity.
    + intros H. injection H as -> ->. split; reflexivity.
Qed.

Lemma prefix_eqb_refl a : prefix_eqb a a = true.
Proof. apply prefix_eqb_eq. reflexivity. Qed.

Lemma prefix_eqb_neq a b : a <> b -> prefix_eqb a b = false.
Proof.
  intros H. destruct (prefix_eqb a b) eqn:E; [|reflexivity]. apply prefix_eqb_eq in E. contradiction.
Qed.

Lemma prefix_eqb_spec a b : reflect (a = b) (prefix_eqb a b).
Proof.
  destruct (prefix_eqb a b) eqn:E; constructor.
  - apply prefix_eqb_eq. exact E.
  - intros H. apply prefix_eqb_eq in H. congruence.
Qed.

Lemma layer_get_set_same ls p t : layer_get (layer_set ls p t) p = Some t.
Proof.
  induction ls as [|[q u] ls IH]; cbn [layer_set layer_get].
  - rewrite prefix_eqb_refl. reflexivity.
  - destruct (prefix_eqb q p) eqn:E; cbn [layer_get]; rewrite E; [reflexivity|exact IH].
Qed.

Lemma layer_get_set_other ls p q t : p <> q -> layer_get (layer_set ls p t) q = layer_get ls q.
Proof.
  intros Hne. induction ls as [|[r u] ls IH]; cbn [layer_set layer_get].
  - rewrite (prefix_eqb_neq p q Hne). reflexivity.
  - destruct (prefix_eqb_spec r p) as [->|Hrp]; cbn [layer_get].
    + rewrite (prefix_eqb_neq p q Hne). reflexivity.
    + destruct (prefix_eqb r q); [reflexivity|exact IH].
Qed.

Lemma layer_get_del_other ls p q : p <> q -> layer_get (layer_del ls p) q = layer_get ls q.
Proof.
  intros Hne. induction ls as [|[r u] ls IH]; cbn [layer_del layer_get]; [reflexivity|].
  destruct (prefix_eqb_spec r p) as [->|Hrp]; cbn [layer_get].
  - rewrite (prefix_eqb_neq p q Hne). reflexivity.
  - destruct (prefix_eqb r q); [reflexivity|exact IH].
Qed.

Lemma layer_get_none ls p : layer_get ls p = None <-> ~ In p (map fst ls).
Proof.
  induction ls as [|[q u] ls IH]; cbn [layer_get map fst In].
  - split; [intros _ []|reflexivity].
  - destruct (prefix_eqb_spec q p) as [->|Hne].
    + split; [discriminate|]. intros H. exfalso. apply H. left. reflexivity.
    + rewrite IH. split.
      * intros H [X|X]; [contradiction|exact (H X)].
      * intros H X. apply H. right. exact X.
Qed.

Lemma layer_get_in ls p t : layer_get ls p = Some t -> In (p, t) ls.
Proof.
  induction ls as [|[q u] ls IH]; cbn [layer_get]; [discriminate|].
  destruct (prefix_eqb_spec q p) as [->|Hne].
  - intros H. injection H as ->. left. reflexivity.
  - intros H. right. apply IH. exact H.
Qed.

Lemma layer_get_del_same ls p : NoDup (map fst ls) -> layer_get (layer_del ls p) p = None.
Proof.
  induction ls as [|[q u] ls IH]; intros Hnd; cbn [layer_del]; [reflexivity|].
  cbn [map fst] in Hnd. apply NoDup_cons_iff in Hnd. destruct Hnd as [Hq Hnd].
  destruct (prefix_eqb_spec q p) as [->|Hne].
  - apply layer_get_none. exact Hq.
  - cbn [layer_get]. rewrite (prefix_eqb_neq q p Hne). apply IH. exact Hnd.
Qed.

Lemma layer_set_keys ls p t :
  map fst (layer_set ls p t) =
    match layer_get ls p with Some _ => map fst ls | None => map fst ls ++ [p] end.
Proof.
  induction ls as [|[q u] ls IH]; cbn [layer_set layer_get map fst app]; [reflexivity|].
  destruct (prefix_eqb q p); cbn [map fst]; [reflexivity|]. rewrite IH.
  destruct (layer_get ls p); reflexivity.
Qed.

Lemma layer_set_NoDup ls p t : NoDup (map fst ls) -> NoDup (map fst (layer_set ls p t)).
Proof.
  intros H. rewrite layer_set_keys. destruct (layer_get ls p) eqn:E; [exact H|].
  apply layer_get_none in E. apply NoDup_app_intro; [exact H|constructor; [intros []|constructor]|].
  intros x Hx [<-|[]]. exact (E Hx).
Qed.

Lemma layer_del_keys_incl ls p x : In x (map fst (layer_del ls p)) -> In x (map fst ls).
Proof.
  induction ls as [|[q u] ls IH]; cbn [layer_del map fst]; [auto|].
  destruct (prefix_eqb q p); cbn [map fst In]; [intros H; right; exact H|].
  intros [H|H]; [left; exact H|right; apply IH; exact H].
Qed.

Lemma layer_del_NoDup ls p : NoDup (map fst ls) -> NoDup (map fst (layer_del ls p)).
Proof.
  induction ls as [|[q u] ls IH]; intros Hnd; cbn [layer_del]; [exact Hnd|].
  cbn [map fst] in Hnd. apply NoDup_cons_iff in Hnd. destruct Hnd as [Hq Hnd].
  destruct (prefix_eqb q p); [exact Hnd|]. cbn [map fst]. constructor; [|apply IH; exact Hnd].
  intros X. apply Hq. eapply layer_del_keys_incl. exact X.
Qed.

(** ** 6. layer_remove *)
Theorem layer_remove_spec ls p k root :
  layer_get ls p = Some root -> WF_layer root -> kt_wf k = true -> In k (bt_keys root) ->
  exists ls' gone ret,
    layer_remove ls p k = Some (ls', gone, ret) /\
    ((* the layer keeps a non-empty tree *)
     (gone = false /\
      exists root' root'',
        bt_delete (S (bt_height root)) root k = Some (DKept root', ret) /\
        root'' = (if N.eqb (bt_id root') (bt_id root) then root' else set_root_flag root' true) /\
        ls' = layer_set ls p root'' /\ WF_layer root'' /\ bt_elems root'' <> [] /\
        (exists A s B, bt_elems root = A ++ s :: B /\ sl_key s = k /\ bt_elems root'' = A ++ B) /\
        Permutation (bt_ids root) (ret ++ bt_ids root''))
     \/
     (* a lower layer vanishes with its only entry *)
     (gone = true /\ p <> [] /\ ls' = layer_del ls p /\
      exists l s, root = BLeaf l /\ leaf_entries l = [s] /\ sl_key s = k /\ ret = [lf_id l])
     \/
     (* the top layer's root leaf stays, now empty *)
     (gone = false /\ p = [] /\ ret = [] /\
      exists l s l'', root = BLeaf l /\ leaf_entries l = [s] /\ sl_key s = k /\
                      ls' = layer_set ls p (BLeaf l'') /\ WF_layer (BLeaf l'') /\
                      leaf_entries l'' = [] /\ lf_id l'' = lf_id l)).
Proof.
  intros Hget [Hwf Hnd] Hk Hin. unfold layer_remove. rewrite Hget.
  destruct (bt_delete_spec k (S (bt_height root)) root None None Hwf Hk Hin ltac:(lia))
    as (res & ret & E & Hperm & Hres).
  rewrite E. destruct res as [root'|].
  - destruct Hres as (Hwf' & Hne' & Hel).
    eexists. exists false, ret. split; [reflexivity|]. left. split; [reflexivity|].
    exists root'. eexists. split; [reflexivity|]. split; [reflexivity|]. split; [reflexivity|].
    cbn [dres_ids] in Hperm.
    pose proof (Permutation_NoDup Hperm Hnd) as Hnd'. apply NoDup_app_inv in Hnd'.
    destruct Hnd' as (_ & Hnd' & _).
    destruct (N.eqb (bt_id root') (bt_id root)).
    + split; [split; assumption|]. split; [exact Hne'|]. split; [exact Hel|exact Hperm].
    + rewrite set_root_flag_elems, set_root_flag_ids.
      split; [apply set_root_flag_WF_layer; split; assumption|].
      split; [exact Hne'|]. split; [exact Hel|exact Hperm].
  - destruct Hres as (l & s & -> & Hentries & Hsk & ->).
    destruct p as [|x p].
    + apply WF_leaf_iff in Hwf. destruct Hwf as [Hl _].
      change (bt_keys (BLeaf l)) with (leaf_keys l) in Hin.
      destruct (leaf_lookup_in l k Hl Hk Hin) as (r & slot & s' & El & Hr & _).
      rewrite El. destruct (leaf_delete_spec l r slot s' Hl Hr) as (D1 & D2 & D3).
      set (l' := leaf_delete l r slot) in *.
      set (l'' := leaf_with l' (set_deleted (lf_ver l') true) (lf_perm l') (lf_slots l')).
      eexists. exists false, []. split; [reflexivity|]. right. right.
      split; [reflexivity|]. split; [reflexivity|]. split; [reflexivity|].
      exists l, s, l''. split; [reflexivity|]. split; [exact Hentries|]. split; [exact Hsk|].
      split; [reflexivity|].
      assert (leaf_entries l'' = []) as He''.
      { unfold l''. rewrite leaf_entries_with_ver, D1, Hentries.
        pose proof (leaf_ranked_entries l r slot s' Hr) as X. rewrite Hentries in X.
        destruct r as [|r]; [reflexivity|]. destruct r; discriminate. }
      split; [|split; [exact He''|exact D3]].
      split; [|constructor; [intros []|constructor]].
      apply WF_leaf_iff. split; [apply WF_leaf_with_ver; exact D2|].
      unfold leaf_keys. rewrite He''. constructor.
    + eexists. exists true, [lf_id l]. split; [reflexivity|]. right. left.
      split; [reflexivity|]. split; [discriminate|]. split; [reflexivity|].
      exists l, s. repeat split; assumption.
Qed.

(** ** repeated insertion (to build well-formed layers) *)
Fixpoint put_all (t : bt) (ctr : N) (kvs : list (ktuple * lvw)) : option (bt * N) :=
  match kvs with
  | [] => Some (t, ctr)
  | (k, lv) :: r =>
    match layer_put t k lv ctr with
    | Some (t', _, c') => put_all t' c' r
    | None => None
    end
  end.

Lemma put_all_spec kvs : forall t ctr,
  WF_layer t -> (forall i, In i (bt_ids t) -> (i < ctr)%N) ->
  Forall (fun kv => kt_wf (fst kv) = true /\ entry_ok {| sl_key := fst kv; sl_lv := snd kv |}) kvs ->
  NoDup (map fst kvs) -> (forall k, In k (map fst kvs) -> ~ In k (bt_keys t)) ->
  exists t' ctr',
    put_all t ctr kvs = Some (t', ctr') /\ WF_layer t' /\
    (forall i, In i (bt_ids t') -> (i < ctr')%N) /\
    Permutation (bt_elems t')
                (map (fun kv => {| sl_key := fst kv; sl_lv := snd kv |}) kvs ++ bt_elems t).
Proof.
  induction kvs as [|[k lv] kvs IH]; intros t ctr Hwf Hctr Hall Hnd Hfresh.
  - exists t, ctr. split; [reflexivity|]. split; [exact Hwf|]. split; [exact Hctr|apply Permutation_refl].
  - apply Forall_cons_iff in Hall. destruct Hall as [[Hk Hok] Hall]. cbn [fst snd] in Hk, Hok.
    cbn [map fst] in Hnd, Hfresh. apply NoDup_cons_iff in Hnd. destruct Hnd as [Hkn Hnd].
    destruct (layer_put_spec t k lv ctr Hwf Hk (Hfresh k (or_introl eq_refl)) Hok Hctr)
      as (t1 & info & c1 & E & Hwf1 & _ & _ & Hperm & _ & Hctr1 & _).
    destruct (IH t1 c1 Hwf1 Hctr1 Hall Hnd) as (t' & c' & E' & Hwf' & Hctr' & Hperm').
    { intros k' Hk' X. unfold bt_keys in X.
      apply (Permutation_in _ (Permutation_map sl_key Hperm)) in X. cbn [map sl_key] in X.
      destruct X as [<-|X]; [exact (Hkn Hk')|]. exact (Hfresh k' (or_intror Hk') X). }
    exists t', c'. cbn [put_all]. rewrite E. split; [exact E'|]. split; [exact Hwf'|].
    split; [exact Hctr'|]. cbn [map fst snd app].
    eapply Permutation_trans; [exact Hperm'|].
    eapply Permutation_trans; [apply Permutation_app_head; exact Hperm|].
    apply Permutation_sym. apply Permutation_middle.
Qed.

Lemma single_leaf_WF_layer id k lv :
  entry_ok {| sl_key := k; sl_lv := lv |} ->
  WF_layer (BLeaf (single_leaf id k lv)) /\
  bt_elems (BLeaf (single_leaf id k lv)) = [{| sl_key := k; sl_lv := lv |}] /\
  bt_ids (BLeaf (single_leaf id k lv)) = [id].
Proof.
  intros Hok. destruct (single_leaf_spec id k lv Hok) as (H1 & H2 & H3).
  split; [|split; [exact H2|cbn [bt_ids]; rewrite H3; reflexivity]].
  split.
  - apply WF_leaf_iff. split; [exact H1|]. unfold leaf_keys. rewrite H2.
    constructor; [split; exact I|constructor].
  - cbn [bt_ids]. constructor; [intros []|constructor].
Qed.

Lemma empty_leaf_WF_layer id v :
  WF_layer (BLeaf {| lf_id := id; lf_ver := v; lf_perm := 0; lf_slots := fresh_slots |}) /\
  bt_elems (BLeaf {| lf_id := id; lf_ver := v; lf_perm := 0; lf_slots := fresh_slots |}) = [].
Proof.
  destruct (empty_leaf_WF id v) as [H1 H2]. split; [|exact H2]. split.
  - apply WF_leaf_iff. split; [exact H1|]. unfold leaf_keys. rewrite H2. constructor.
  - cbn [bt_ids]. constructor; [intros []|constructor].
Qed.

(** ** sanity: the hypotheses are satisfiable on a two-level layer, and the
    conclusions are what the executable model computes *)
Module LayerExample.
  Local Open Scope N_scope.
  Definition kk (i : N) : ktuple := {| ks := (i * 37 mod 101) * 256; kl := 7 |}.
  Definition vv (i : N) : lvw := LValue {| v_id := i; v_bytes := []; v_align := 8; v_inline := false |}.
  Definition kvs : list (ktuple * lvw) := map (fun i => (kk (N.of_nat i), vv (N.of_nat i))) (seq 1 40).
  Definition root0 : bt := BLeaf (single_leaf 1 (kk 0) (vv 0)).
  Definition t40 : bt := match put_all root0 2 kvs with Some (t, _) => t | None => root0 end.

  Example t40_shape : bt_height t40 = 1%nat /\ length (bt_elems t40) = 41%nat /\
                      length (bt_leaves t40) = 4%nat.
  Proof. vm_compute. repeat split. Qed.

  Fixpoint nodupb (l : list ktuple) : bool :=
    match l with [] => true | a :: r => negb (existsb (kt_eq a) r) && nodupb r end.
  Lemma existsb_kt_eq_false a l : existsb (kt_eq a) l = false -> ~ In a l.
  Proof.
    intros H X. assert (existsb (kt_eq a) l = true) as Y; [|congruence].
    apply existsb_exists. exists a. split; [exact X|]. apply (proj1 (kt_eq_canon a a)). reflexivity.
  Qed.
  Lemma nodupb_sound l : nodupb l = true -> NoDup l.
  Proof.
    induction l as [|a l IH]; cbn [nodupb]; intros H; [constructor|].
    apply andb_true_iff in H. destruct H as [H1 H2]. apply negb_true_iff in H1.
    constructor; [apply existsb_kt_eq_false; exact H1|apply IH; exact H2].
  Qed.

  Example t40_WF : WF_layer t40.
  Proof.
    assert (entry_ok {| sl_key := kk 0; sl_lv := vv 0 |}) as Hok0
      by (split; [vm_compute; reflexivity|cbn; lia]).
    destruct (single_leaf_WF_layer 1 (kk 0) (vv 0) Hok0) as (H1 & H2 & H3). fold root0 in H1, H2, H3.
    destruct (put_all_spec kvs root0 2 H1) as (t' & c' & E & Hwf & _).
    - rewrite H3. intros i [<-|[]]. lia.
    - let e := eval vm_compute in kvs in change kvs with e.
      repeat (apply Forall_cons; [split; [vm_compute; reflexivity|split; [vm_compute; reflexivity|cbn; lia]]|]).
      apply Forall_nil.
    - apply nodupb_sound. vm_compute. reflexivity.
    - intros k Hk X. unfold bt_keys in X. rewrite H2 in X. cbn [map sl_key In] in X.
      destruct X as [<-|[]]. revert Hk. apply existsb_kt_eq_false. vm_compute. reflexivity.
    - unfold t40. rewrite E. exact Hwf.
  Qed.

  Example t40_lookup : layer_lookup t40 (kk 5) = Some {| sl_key := kk 5; sl_lv := vv 5 |}.
  Proof. vm_compute. reflexivity. Qed.

  Example t40_has_5 : In (kk 5) (bt_keys t40).
  Proof.
    pose proof t40_WF as [Hwf _].
    pose proof t40_lookup as L.
    apply (layer_lookup_some t40 (kk 5) _ Hwf) in L; [|vm_compute; reflexivity].
    destruct L as [H _]. apply in_elems_in_keys in H. exact H.
  Qed.

  (* the delete and layer_remove theorems apply, and describe what the model computes *)
  Example t40_remove_applies :
    exists ls' gone ret, layer_remove [([], t40)] [] (kk 5) = Some (ls', gone, ret) /\ gone = false.
  Proof.
    destruct (layer_remove_spec [([], t40)] [] (kk 5) t40 eq_refl t40_WF ltac:(vm_compute; reflexivity) t40_has_5)
      as (ls' & gone & ret & E & [(G & _)|[(G & Hp & _)|(G & _)]]).
    - exists ls', gone, ret. split; assumption.
    - exfalso. apply Hp. reflexivity.
    - exists ls', gone, ret. split; assumption.
  Qed.

  Example t40_remove_computed :
    match layer_remove [([], t40)] [] (kk 5) with
    | Some ([(_, t)], gone, ret) => (length (bt_elems t), gone, ret, existsb (kt_eq (kk 5)) (bt_keys t))
    | _ => (0%nat, true, [], true)
    end = (40%nat, false, [], false).
  Proof. vm_compute. reflexivity. Qed.
End LayerExample.

(** ** axiom audit *)
Print Assumptions bt_elems_sorted.
Print Assumptions sorted_perm_eq.
Print Assumptions WF_bt_widen.
Print Assumptions bt_set_ver_WF.
Print Assumptions find_leaf_spec.
Print Assumptions bt_find_leaf_fuel.
Print Assumptions layer_lookup_some.
Print Assumptions layer_lookup_none.
Print Assumptions find_leaf_lookup.
Print Assumptions bt_put_spec.
Print Assumptions layer_put_spec.
Print Assumptions put_all_spec.
Print Assumptions bt_update_leaf_spec.
Print Assumptions layer_update_spec.
Print Assumptions bt_delete_spec.
Print Assumptions bt_delete_ids.
Print Assumptions layer_remove_spec.
Print Assumptions layer_get_set_same.
Print Assumptions layer_get_set_other.
Print Assumptions layer_get_del_same.
Print Assumptions layer_get_del_other.
Print Assumptions bt_leaves_elems.
Print Assumptions bt_leaves_WF.
Print Assumptions bt_leaves_nonempty_root.
Print Assumptions LayerExample.t40_WF.
