(** * LayerProofs: the layer-level (one B+-tree) interface for the tree proofs.

    Elements of a layer in key order, well-formedness [WF_bt] / [WF_layer], and
    the exact effect of find / lookup / put / update / delete / layer_remove on
    the element list and on the set of node ids. *)
From Coq Require Import NArith PeanoNat Lia ZifyBool ZifyN Bool List Sorted Permutation.
From Yk Require Import ListAux Word64 PermDefs PermProofs VersionDefs KeyDefs KeyProofs
     TreeDefs ScanDefs LeafProofs.
Import ListNotations.

(** ** Interface definitions *)
Fixpoint bt_elems (t : bt) : list slot_t :=
  match t with
  | BLeaf l => leaf_entries l
  | BInt _ _ _ ch => flat_map bt_elems ch
  end.
Definition bt_keys (t : bt) : list ktuple := map sl_key (bt_elems t).
Fixpoint bt_ids (t : bt) : list N :=
  match t with
  | BLeaf l => [lf_id l]
  | BInt id _ _ ch => id :: flat_map bt_ids ch
  end.

Definition dk : ktuple := {| ks := 0; kl := 0 |}.
Definition dleaf : leaf := {| lf_id := 0; lf_ver := 0; lf_perm := 0; lf_slots := [] |}.
Definition dbt : bt := BLeaf dleaf.

(** optional bounds: [None] is infinite *)
Definition lo_ok (lo : option ktuple) (k : ktuple) : Prop :=
  match lo with None => True | Some b => canon_lt k b = false end.     (* lo <= k *)
Definition lo_lt (lo : option ktuple) (k : ktuple) : Prop :=
  match lo with None => True | Some b => canon_lt b k = true end.      (* lo < k *)
Definition hi_ok (hi : option ktuple) (k : ktuple) : Prop :=
  match hi with None => True | Some b => canon_lt k b = true end.      (* k < hi *)
Definition in_bnd lo hi k : Prop := lo_ok lo k /\ hi_ok hi k.          (* element keys *)
Definition sep_bnd lo hi k : Prop := lo_lt lo k /\ hi_ok hi k.         (* separators *)

(** bounds of child [i] of an interior node with separators [keys] *)
Definition lo_at (lo : option ktuple) (keys : list ktuple) (i : nat) : option ktuple :=
  match i with O => lo | S j => Some (nth j keys dk) end.
Definition hi_at (hi : option ktuple) (keys : list ktuple) (i : nat) : option ktuple :=
  if (i <? length keys)%nat then Some (nth i keys dk) else hi.

Inductive WF_bt : option ktuple -> option ktuple -> bt -> Prop :=
| WF_leaf_node lo hi l :
    WF_leaf l -> Forall (in_bnd lo hi) (leaf_keys l) -> WF_bt lo hi (BLeaf l)
| WF_int_node lo hi id ver keys ch :
    (1 <= length keys <= 15)%nat -> length ch = S (length keys) ->
    sorted_keys keys -> Forall (fun s => kt_wf s = true) keys ->
    Forall (sep_bnd lo hi) keys ->
    (forall i, (i < length ch)%nat -> WF_bt (lo_at lo keys i) (hi_at hi keys i) (nth i ch dbt)) ->
    (forall i, (i < length ch)%nat -> bt_elems (nth i ch dbt) <> []) ->
    WF_bt lo hi (BInt id ver keys ch).

Definition WF_layer (root : bt) : Prop := WF_bt None None root /\ NoDup (bt_ids root).

(** the children part of [WF_bt] for an interior node (no bound on the number of keys) *)
Definition kids_ok lo hi (keys : list ktuple) (ch : list bt) : Prop :=
  length ch = S (length keys) /\
  sorted_keys keys /\ Forall (fun s => kt_wf s = true) keys /\
  Forall (sep_bnd lo hi) keys /\
  (forall i, (i < length ch)%nat -> WF_bt (lo_at lo keys i) (hi_at hi keys i) (nth i ch dbt)) /\
  (forall i, (i < length ch)%nat -> bt_elems (nth i ch dbt) <> []).

Lemma WF_int_iff lo hi id ver keys ch :
  WF_bt lo hi (BInt id ver keys ch) <-> (1 <= length keys <= 15)%nat /\ kids_ok lo hi keys ch.
Proof.
  split.
  - intros H. inversion H; subst. split; [assumption|]. repeat split; assumption.
  - intros (H1 & H2 & H3 & H4 & H5 & H6 & H7). constructor; assumption.
Qed.

Lemma WF_leaf_iff lo hi l :
  WF_bt lo hi (BLeaf l) <-> WF_leaf l /\ Forall (in_bnd lo hi) (leaf_keys l).
Proof.
  split.
  - intros H. inversion H; subst. split; assumption.
  - intros [H1 H2]. constructor; assumption.
Qed.

(** ** induction principle for [bt] *)
Lemma bt_ind' (P : bt -> Prop) :
  (forall l, P (BLeaf l)) ->
  (forall id ver keys ch, Forall P ch -> P (BInt id ver keys ch)) ->
  forall t, P t.
Proof.
  intros Hl Hi. fix IH 1. intros [l|id ver keys ch].
  - apply Hl.
  - apply Hi. revert ch. fix IHch 1. intros [|c ch].
    + constructor.
    + constructor; [apply IH|apply IHch].
Qed.

(** ** order facts *)
Lemma canon_le_lt_trans a b c : canon_lt b a = false -> canon_lt b c = true -> canon_lt a c = true.
Proof. unfold canon_lt. lia. Qed.
Lemma canon_lt_le_trans a b c : canon_lt a b = true -> canon_lt c b = false -> canon_lt a c = true.
Proof. unfold canon_lt. lia. Qed.
Lemma canon_le_trans a b c : canon_lt b a = false -> canon_lt c b = false -> canon_lt c a = false.
Proof. unfold canon_lt. lia. Qed.
Lemma canon_lt_le a b : canon_lt a b = true -> canon_lt b a = false.
Proof. apply canon_lt_asym. Qed.

Definition lo_le (lo' lo : option ktuple) : Prop :=
  match lo' with
  | None => True
  | Some a => match lo with None => False | Some b => canon_lt b a = false end
  end.
Definition hi_le (hi hi' : option ktuple) : Prop :=
  match hi' with
  | None => True
  | Some b' => match hi with None => False | Some b => canon_lt b' b = false end
  end.

Lemma lo_le_refl lo : lo_le lo lo.
Proof. destruct lo; cbn; [apply canon_lt_irrefl|exact I]. Qed.
Lemma hi_le_refl hi : hi_le hi hi.
Proof. destruct hi; cbn; [apply canon_lt_irrefl|exact I]. Qed.

Lemma lo_ok_widen lo' lo k : lo_le lo' lo -> lo_ok lo k -> lo_ok lo' k.
Proof.
  destruct lo' as [a|]; [|intros; exact I]. destruct lo as [b|]; cbn; [|intros []].
  intros H1 H2. eapply canon_le_trans; eassumption.
Qed.
Lemma lo_lt_widen lo' lo k : lo_le lo' lo -> lo_lt lo k -> lo_lt lo' k.
Proof.
  destruct lo' as [a|]; [|intros; exact I]. destruct lo as [b|]; cbn; [|intros []].
  intros H1 H2. eapply canon_le_lt_trans; eassumption.
Qed.
Lemma hi_ok_widen hi hi' k : hi_le hi hi' -> hi_ok hi k -> hi_ok hi' k.
Proof.
  destruct hi' as [a|]; [|intros; exact I]. destruct hi as [b|]; cbn; [|intros []].
  intros H1 H2. eapply canon_lt_le_trans; eassumption.
Qed.
Lemma lo_lt_ok lo k : lo_lt lo k -> lo_ok lo k.
Proof. destruct lo; cbn; [apply canon_lt_asym|auto]. Qed.
Lemma lo_lt_le lo k : lo_lt lo k -> lo_le lo (Some k).
Proof. destruct lo; cbn; [apply canon_lt_asym|auto]. Qed.
Lemma hi_ok_le hi k : hi_ok hi k -> hi_le (Some k) hi.
Proof. destruct hi; cbn; [apply canon_lt_asym|auto]. Qed.
Lemma lo_ok_lt_trans lo a b : lo_ok lo a -> canon_lt a b = true -> lo_lt lo b.
Proof. destruct lo; cbn; [|auto]. intros. eapply canon_le_lt_trans; eassumption. Qed.
Lemma lo_lt_trans lo a b : lo_lt lo a -> canon_lt a b = true -> lo_lt lo b.
Proof. destruct lo; cbn; [|auto]. intros. eapply canon_lt_trans; eassumption. Qed.
Lemma hi_ok_trans hi a b : canon_lt a b = true -> hi_ok hi b -> hi_ok hi a.
Proof. destruct hi; cbn; [|auto]. intros. eapply canon_lt_trans; eassumption. Qed.
Lemma hi_ok_le_trans hi a b : canon_lt b a = false -> hi_ok hi b -> hi_ok hi a.
Proof. destruct hi; cbn; [|auto]. intros. eapply canon_le_lt_trans; eassumption. Qed.

Lemma sorted_nth_lt keys : sorted_keys keys -> forall i j,
  (i < j)%nat -> (j < length keys)%nat -> canon_lt (nth i keys dk) (nth j keys dk) = true.
Proof.
  induction keys as [|a keys IH]; intros Hs i j Hij Hj; [cbn in Hj; lia|].
  apply sorted_cons_iff in Hs. destruct Hs as [Hs Hf].
  destruct j as [|j]; [lia|]. cbn [length] in Hj. destruct i as [|i]; cbn [nth].
  - rewrite Forall_forall in Hf. apply Hf. apply nth_In. lia.
  - apply IH; [exact Hs|lia|lia].
Qed.

Lemma sorted_nth_le keys : sorted_keys keys -> forall i j,
  (i <= j)%nat -> (j < length keys)%nat -> canon_lt (nth j keys dk) (nth i keys dk) = false.
Proof.
  intros Hs i j Hij Hj. destruct (Nat.eq_dec i j) as [->|Hne]; [apply canon_lt_irrefl|].
  apply canon_lt_asym. apply sorted_nth_lt; [exact Hs|lia|exact Hj].
Qed.

(** ** list helpers *)
Lemma set_nth_split {A} i (x : A) l :
  (i < length l)%nat -> set_nth i x l = firstn i l ++ x :: skipn (S i) l.
Proof.
  revert i. induction l as [|a l IH]; intros i H; [cbn in H; lia|].
  destruct i as [|i]; [reflexivity|]. cbn [set_nth firstn skipn app]. f_equal. apply IH.
  cbn [length] in H. lia.
Qed.

Lemma insert_after_set {A} i (x r : A) l :
  (i < length l)%nat -> insert_at (S i) r (set_nth i x l) = firstn i l ++ x :: r :: skipn (S i) l.
Proof.
  revert i. induction l as [|a l IH]; intros i H; [cbn in H; lia|].
  destruct i as [|i]; [reflexivity|]. cbn [length] in H.
  specialize (IH i ltac:(lia)). unfold insert_at in *.
  cbn [set_nth firstn skipn app]. f_equal. exact IH.
Qed.

Lemma flat_map_split {A B} (f : A -> list B) (d : A) l i :
  (i < length l)%nat ->
  flat_map f l = flat_map f (firstn i l) ++ f (nth i l d) ++ flat_map f (skipn (S i) l).
Proof.
  intros H. rewrite (split_at_nth d l i H) at 1. rewrite flat_map_app. cbn [flat_map]. reflexivity.
Qed.

Lemma flat_map_set_nth {A B} (f : A -> list B) l i x :
  (i < length l)%nat ->
  flat_map f (set_nth i x l) = flat_map f (firstn i l) ++ f x ++ flat_map f (skipn (S i) l).
Proof.
  intros H. rewrite set_nth_split by exact H. rewrite flat_map_app. cbn [flat_map]. reflexivity.
Qed.

Lemma flat_map_insert_after_set {A B} (f : A -> list B) l i x r :
  (i < length l)%nat ->
  flat_map f (insert_at (S i) r (set_nth i x l)) =
    flat_map f (firstn i l) ++ (f x ++ f r) ++ flat_map f (skipn (S i) l).
Proof.
  intros H. rewrite insert_after_set by exact H. rewrite flat_map_app. cbn [flat_map].
  rewrite <- app_assoc. reflexivity.
Qed.

Lemma flat_map_remove_at {A B} (f : A -> list B) l i :
  flat_map f (remove_at i l) = flat_map f (firstn i l) ++ flat_map f (skipn (S i) l).
Proof. unfold remove_at. apply flat_map_app. Qed.

Lemma in_flat_map_nth {A B} (f : A -> list B) (d : A) l y :
  In y (flat_map f l) <-> exists i, (i < length l)%nat /\ In y (f (nth i l d)).
Proof.
  rewrite in_flat_map. split.
  - intros (x & Hx & Hy). destruct (In_nth l x d Hx) as (i & Hi & E).
    exists i. split; [exact Hi|]. rewrite E. exact Hy.
  - intros (i & Hi & Hy). exists (nth i l d). split; [apply nth_In; exact Hi|exact Hy].
Qed.

Lemma height_child id ver keys ch i :
  (i < length ch)%nat -> (bt_height (nth i ch dbt) < bt_height (BInt id ver keys ch))%nat.
Proof.
  intros H. cbn [bt_height]. apply Nat.lt_succ_r.
  assert (forall c, In c ch ->
            (bt_height c <= fold_right (fun c m => Nat.max (bt_height c) m) 0 ch)%nat) as G.
  { clear. induction ch as [|a ch IH]; intros c []; cbn [fold_right].
    - subst. lia.
    - specialize (IH c H). lia. }
  apply G. apply nth_In. exact H.
Qed.

Lemma nth_error_child (ch : list bt) i :
  (i < length ch)%nat -> nth_error ch i = Some (nth i ch dbt).
Proof. apply nth_error_nth'. Qed.

(** ** [bt_set_ver] changes nothing of interest *)
Lemma bt_set_ver_elems t v : bt_elems (bt_set_ver t v) = bt_elems t.
Proof. destruct t; reflexivity. Qed.
Lemma bt_set_ver_ids t v : bt_ids (bt_set_ver t v) = bt_ids t.
Proof. destruct t; reflexivity. Qed.
Lemma bt_set_ver_id t v : bt_id (bt_set_ver t v) = bt_id t.
Proof. destruct t; reflexivity. Qed.
Lemma bt_set_ver_leaves_entries t v :
  map leaf_entries (bt_leaves (bt_set_ver t v)) = map leaf_entries (bt_leaves t).
Proof. destruct t; reflexivity. Qed.
Lemma bt_set_ver_WF lo hi t v : WF_bt lo hi t -> WF_bt lo hi (bt_set_ver t v).
Proof.
  intros H. destruct t as [l|id ver keys ch]; cbn [bt_set_ver].
  - apply WF_leaf_iff in H. destruct H as [H1 H2]. apply WF_leaf_iff. split.
    + revert H1. apply WF_leaf_cong; reflexivity.
    + exact H2.
  - apply WF_int_iff in H. apply WF_int_iff. exact H.
Qed.
Lemma set_root_flag_elems t b : bt_elems (set_root_flag t b) = bt_elems t.
Proof. apply bt_set_ver_elems. Qed.
Lemma set_root_flag_ids t b : bt_ids (set_root_flag t b) = bt_ids t.
Proof. apply bt_set_ver_ids. Qed.
Lemma set_root_flag_WF lo hi t b : WF_bt lo hi t -> WF_bt lo hi (set_root_flag t b).
Proof. apply bt_set_ver_WF. Qed.
Lemma set_root_flag_WF_layer t b : WF_layer t -> WF_layer (set_root_flag t b).
Proof.
  intros [H1 H2]. split; [apply set_root_flag_WF; exact H1|].
  rewrite set_root_flag_ids. exact H2.
Qed.

(** ** bounds widening *)
Lemma WF_bt_widen lo hi t :
  WF_bt lo hi t -> forall lo' hi', lo_le lo' lo -> hi_le hi hi' -> WF_bt lo' hi' t.
Proof.
  induction 1 as [lo hi l Hl Hb|lo hi id ver keys ch Hn Hlen Hs Hw Hsb Hc IH Hne];
    intros lo' hi' Hlo Hhi.
  - constructor; [exact Hl|]. eapply Forall_impl; [|exact Hb].
    intros k [H1 H2]. split; [eapply lo_ok_widen|eapply hi_ok_widen]; eassumption.
  - constructor; try assumption.
    + eapply Forall_impl; [|exact Hsb].
      intros k [H1 H2]. split; [eapply lo_lt_widen|eapply hi_ok_widen]; eassumption.
    + intros i Hi. apply IH; [exact Hi| |].
      * destruct i; cbn [lo_at]; [exact Hlo|apply lo_le_refl].
      * unfold hi_at. destruct (i <? length keys)%nat; [apply hi_le_refl|exact Hhi].
Qed.

(** ** 1. the elements are sorted, well-formed and within the bounds *)
Lemma lo_at_cons lo s keys i : lo_at lo (s :: keys) (S i) = lo_at (Some s) keys i.
Proof. destruct i; reflexivity. Qed.
Lemma hi_at_cons hi s keys i : hi_at hi (s :: keys) (S i) = hi_at hi keys i.
Proof. reflexivity. Qed.

Lemma flat_keys_sorted (f : bt -> list ktuple) ch : forall lo hi keys,
  length ch = S (length keys) -> sorted_keys keys -> Forall (sep_bnd lo hi) keys ->
  (forall i, (i < length ch)%nat ->
     sorted_keys (f (nth i ch dbt)) /\
     Forall (in_bnd (lo_at lo keys i) (hi_at hi keys i)) (f (nth i ch dbt))) ->
  sorted_keys (flat_map f ch) /\ Forall (in_bnd lo hi) (flat_map f ch).
Proof.
  induction ch as [|c ch IH]; intros lo hi keys Hlen Hsk Hsb Hc; [cbn in Hlen; lia|].
  cbn [flat_map]. destruct keys as [|s keys].
  - destruct ch; [|cbn in Hlen; lia]. cbn [flat_map]. rewrite app_nil_r.
    destruct (Hc 0%nat ltac:(cbn; lia)) as [H1 H2]. cbn in H1, H2. split; assumption.
  - apply Forall_cons_iff in Hsb. destruct Hsb as [[Hs1 Hs2] Hsb].
    apply sorted_cons_iff in Hsk. destruct Hsk as [Hsk Hsf].
    destruct (Hc 0%nat ltac:(cbn; lia)) as [H1 H2]. cbn [nth lo_at] in H1, H2.
    change (hi_at hi (s :: keys) 0) with (Some s) in H2.
    destruct (IH (Some s) hi keys) as [I1 I2].
    + cbn [length] in Hlen. lia.
    + exact Hsk.
    + rewrite Forall_forall in Hsb, Hsf |- *. intros k Hk. split; [|apply Hsb; exact Hk].
      cbn. apply Hsf. exact Hk.
    + intros i Hi. specialize (Hc (S i) ltac:(cbn [length]; lia)).
      rewrite lo_at_cons, hi_at_cons in Hc. exact Hc.
    + split.
      * apply sorted_app_iff. split; [exact H1|]. split; [exact I1|].
        intros a b Ha Hb. rewrite Forall_forall in H2, I2.
        destruct (H2 a Ha) as [_ Ha2]. destruct (I2 b Hb) as [Hb1 _]. cbn in Ha2, Hb1.
        eapply canon_lt_le_trans; eassumption.
      * apply Forall_app. split.
        -- eapply Forall_impl; [|exact H2]. intros k [K1 K2]. split; [exact K1|].
           cbn in K2. eapply hi_ok_trans; eassumption.
        -- eapply Forall_impl; [|exact I2]. intros k [K1 K2]. split; [|exact K2].
           apply (lo_ok_widen lo (Some s)); [apply lo_lt_le; exact Hs1|exact K1].
Qed.
