(** * PutInfoProofs: C12 at store level (all layers) -- [put] reports exactly the border
    nodes whose version word its insert changed.

    [VersionReportProofs.c12_exact] is the statement for one layer ([layer_put]).  Here the
    statement is lifted to [put] on a whole store ([tree] = all layers):

    - [store_put_shape]        the layer list after the insert of a new key: the layer [q] in
                               which the key lands is replaced in place by the result of
                               [layer_put]; every other old layer is untouched; the fresh next
                               layers for the remaining tuples of the key are appended at the
                               end ([chain_layers]), one single-entry root border each, with the
                               last [n] ids handed out;
    - [store_put_info_exact]   (1) among the old borders exactly [pi_modified] changed its version
                               word, (2) no border disappears, (3) the new borders are exactly
                               [pi_created] (present iff the landing border split; its id is the
                               first id handed out) and the [n] root borders of the fresh next
                               layers, (4) which are exactly the borders of the layers that did
                               not exist before, (5) id ranges, (6) [n] = number of tuples of the
                               key below the landing layer;
    - [store_put_null_root]    the CAS path (null root pointer): every border is new;
    - [store_overwrite_silent] a non-unique put of an existing key changes no version word and
                               creates no border;
    - [store_failed_unique_silent]  a unique put of an existing key returns the store unchanged;
    - [store_remove_versions], [store_remove_leaf_ver]  what [remove] does to version words:
                               no border is created, every surviving border keeps its id and its
                               word up to the root / deleted flags (both counters stay); one
                               [layer_remove] makes at most one [vstep] per border
                               ([layer_remove_vrel]).  Not characterised here: the exact set of
                               borders that disappear (they are in [ro_retired_nodes], see
                               AccountingProofs).
    - [PutInfoExample]         (a) insert without split, (b) insert splitting a full border,
                               (c) insert creating two next layers, (c') both, (d) overwrite and
                               failed unique put, removes; [ex_theorem_applies].

    Reading of (3).  [pi_created] is a single optional id, and it is set by a border split
    only (C++: [created_nvp] is written in [border_split], border_helper.h; [interface_put.h]
    resets it to nullptr on entry).  The root borders of fresh next layers are NOT reported:
    they are created by [insert_lv_at]'s recursion through [init_border] below the landing
    border, before the link is published by the permutation update of the landing border.
    Until then no other transaction can reach them, so no reader can hold a version of such
    a border; the event a reader can observe is the version change of the landing border,
    which is the reported [pi_modified].  So the report is exact w.r.t. the borders that
    existed before, and complete w.r.t. new borders only up to those unreachable roots. *)
From Coq Require Import ZArith NArith PeanoNat Lia ZifyBool ZifyN Bool List Sorted Permutation.
From Yk Require Import ListAux Word64 PermDefs PermProofs VersionDefs VersionProofs KeyDefs KeyProofs TreeDefs
     ScanDefs SysDefs SpecDefs LeafProofs LayerProofs VersionReportProofs StoreProofs ScanProofs PhantomProofs.
Import ListNotations.
Local Open Scope N_scope.

(** ** 0. definitions *)

(** all border ids of a store *)
Definition store_ids (tr : tree) : list N := map lf_id (store_leaves (t_layers tr)).

Definition idv (l : leaf) : N * N := (lf_id l, lf_ver l).

(** the layers [new_chain] creates: one single-entry root border per remaining tuple *)
Fixpoint chain_layers (p : prefix) (ts : list ktuple) (v : value) (ctr : N) : layers_t :=
  match ts with
  | [] => []
  | t :: r =>
    (p, BLeaf (single_leaf ctr t (match r with [] => LValue v | _ :: _ => LLink end)))
      :: chain_layers (p ++ [ks t]) r v (ctr + 1)
  end.

(** ** 1. lists of layers *)

Lemma store_leaves_app a b : store_leaves (a ++ b) = store_leaves a ++ store_leaves b.
Proof. unfold store_leaves. apply flat_map_app. Qed.

Lemma store_leaves_cons q r b : store_leaves ((q, r) :: b) = bt_leaves r ++ store_leaves b.
Proof. reflexivity. Qed.

Lemma layer_set_some ls p root t : layer_get ls p = Some root ->
  exists L1 L2, ls = L1 ++ (p, root) :: L2 /\ layer_set ls p t = L1 ++ (p, t) :: L2.
Proof.
  induction ls as [|[q u] ls IH]; cbn [layer_get layer_set]; [discriminate|].
  destruct (prefix_eqb_spec q p) as [->|Hn].
  - intros H. injection H as ->. exists [], ls. split; reflexivity.
  - intros H. destruct (IH H) as (L1 & L2 & E1 & E2). exists ((q, u) :: L1), L2.
    cbn [app]. rewrite <- E1, E2. split; reflexivity.
Qed.

Lemma layer_set_none ls p t : layer_get ls p = None -> layer_set ls p t = ls ++ [(p, t)].
Proof.
  induction ls as [|[q u] ls IH]; cbn [layer_get layer_set]; [reflexivity|].
  destruct (prefix_eqb q p); [discriminate|]. intros H. rewrite (IH H). reflexivity.
Qed.

Lemma single_leaf_id id t lv : lf_id (single_leaf id t lv) = id.
Proof. reflexivity. Qed.

(** [new_chain] appends [chain_layers] when nothing exists below [p] *)
Lemma new_chain_app v : forall ts p ctr ls,
  (forall r, layer_get ls (p ++ r) = None) ->
  new_chain p ts v ctr ls = (ls ++ chain_layers p ts v ctr, ctr + N.of_nat (length ts)).
Proof.
  induction ts as [|t rest IH]; intros p ctr ls Hn.
  - cbn [new_chain chain_layers length]. rewrite app_nil_r. f_equal. lia.
  - assert (layer_set ls p (BLeaf (single_leaf ctr t (match rest with [] => LValue v | _ :: _ => LLink end)))
            = ls ++ [(p, BLeaf (single_leaf ctr t (match rest with [] => LValue v | _ :: _ => LLink end)))]) as Es.
    { apply layer_set_none. specialize (Hn []). rewrite app_nil_r in Hn. exact Hn. }
    destruct rest as [|t2 r].
    + cbn [new_chain chain_layers length]. rewrite Es. f_equal.
    + change (new_chain p (t :: t2 :: r) v ctr ls)
        with (new_chain (p ++ [ks t]) (t2 :: r) v (ctr + 1) (layer_set ls p (BLeaf (single_leaf ctr t LLink)))).
      change (chain_layers p (t :: t2 :: r) v ctr)
        with ((p, BLeaf (single_leaf ctr t LLink)) :: chain_layers (p ++ [ks t]) (t2 :: r) v (ctr + 1)).
      rewrite IH.
      * rewrite Es, <- app_assoc. cbn [app]. f_equal. cbn [length]. lia.
      * intros r0. rewrite layer_get_set_other.
        -- rewrite <- app_assoc. apply Hn.
        -- rewrite <- app_assoc. intros X. rewrite <- (app_nil_r p) in X at 1.
           apply app_inv_head in X. discriminate X.
Qed.

Lemma chain_in v : forall ts p c q r,
  In (q, r) (chain_layers p ts v c) ->
  exists l, r = BLeaf l /\ c <= lf_id l < c + N.of_nat (length ts).
Proof.
  induction ts as [|t rest IH]; intros p c q r H; [destruct H|]. cbn [chain_layers] in H.
  destruct H as [H|H].
  - injection H as _ <-. eexists. split; [reflexivity|]. rewrite single_leaf_id. cbn [length]. lia.
  - destruct (IH _ _ _ _ H) as (l & -> & Hr). exists l. split; [reflexivity|]. cbn [length]. lia.
Qed.

Lemma chain_ex v : forall ts p c id, c <= id < c + N.of_nat (length ts) ->
  exists q l, In (q, BLeaf l) (chain_layers p ts v c) /\ lf_id l = id.
Proof.
  induction ts as [|t rest IH]; intros p c id H; [cbn [length] in H; lia|]. cbn [chain_layers].
  destruct (N.eq_dec id c) as [->|Hn].
  - eexists. eexists. split; [left; reflexivity|]. apply single_leaf_id.
  - destruct (IH (p ++ [ks t]) (c + 1) id) as (q & l & Hin & Hid); [cbn [length] in H; lia|].
    exists q, l. split; [right; exact Hin|exact Hid].
Qed.

Lemma chain_length v : forall ts p c, length (chain_layers p ts v c) = length ts.
Proof. induction ts as [|t rest IH]; intros p c; [reflexivity|]. cbn [chain_layers length]. rewrite IH. reflexivity. Qed.

Lemma chain_leaves v ts p c l :
  In l (store_leaves (chain_layers p ts v c)) <-> exists q, In (q, BLeaf l) (chain_layers p ts v c).
Proof.
  unfold store_leaves. rewrite in_flat_map. split.
  - intros ([q r] & Hin & Hl). cbn [snd] in Hl. destruct (chain_in v _ _ _ _ _ Hin) as (l0 & -> & _).
    destruct Hl as [<-|[]]. exists q. exact Hin.
  - intros (q & Hin). exists (q, BLeaf l). split; [exact Hin|left; reflexivity].
Qed.

(** ** 2. border ids are unique in a well-formed store *)

Lemma NoDup_flat_map_disj {A B} (f : A -> list B) : forall l,
  NoDup l -> (forall x, In x l -> NoDup (f x)) ->
  (forall x y b, In x l -> In y l -> In b (f x) -> In b (f y) -> x = y) ->
  NoDup (flat_map f l).
Proof.
  induction l as [|a l IH]; intros Hnd Hf Hd; [constructor|]. cbn [flat_map].
  apply NoDup_cons_iff in Hnd. destruct Hnd as [Ha Hnd].
  apply NoDup_app_intro.
  - apply Hf. left. reflexivity.
  - apply IH; [exact Hnd|intros x Hx; apply Hf; right; exact Hx|].
    intros x y b Hx Hy. apply Hd; right; assumption.
  - intros b Hb1 Hb2. apply in_flat_map in Hb2. destruct Hb2 as (y & Hy & Hb2).
    assert (a = y) as -> by (apply (Hd a y b); [left; reflexivity|right; exact Hy|exact Hb1|exact Hb2]).
    exact (Ha Hy).
Qed.

Lemma store_leaves_in ls l :
  In l (store_leaves ls) <-> exists q r, In (q, r) ls /\ In l (bt_leaves r).
Proof.
  unfold store_leaves. rewrite in_flat_map. split.
  - intros ([q r] & H1 & H2). exists q, r. split; assumption.
  - intros (q & r & H1 & H2). exists (q, r). split; assumption.
Qed.

Lemma store_ids_NoDup ctr ls d : WFL ctr ls d -> NoDup (map lf_id (store_leaves ls)).
Proof.
  intros W. unfold store_leaves. rewrite flat_map_concat_map, concat_map, map_map, <- flat_map_concat_map.
  pose proof (wl_nodup _ _ _ W) as Hnd.
  apply NoDup_flat_map_disj.
  - apply (NoDup_map_inv fst). exact Hnd.
  - intros [q r] Hin. cbn [snd]. apply leaves_ids_NoDup.
    apply (wl_layer _ _ _ W q r). apply in_layer_get; assumption.
  - intros [q1 r1] [q2 r2] b H1 H2 Hb1 Hb2. cbn [snd] in Hb1, Hb2.
    pose proof (in_layer_get _ _ _ Hnd H1) as E1. pose proof (in_layer_get _ _ _ Hnd H2) as E2.
    apply in_map_iff in Hb1. destruct Hb1 as (l1 & <- & Hl1).
    apply in_map_iff in Hb2. destruct Hb2 as (l2 & Eid & Hl2).
    assert (q1 = q2) as ->.
    { apply (wl_disj _ _ _ W q1 q2 r1 r2 (lf_id l1) E1 E2).
      - apply bt_leaves_ids_incl. exact Hl1.
      - rewrite <- Eid. apply bt_leaves_ids_incl. exact Hl2. }
    rewrite E1 in E2. injection E2 as ->. reflexivity.
Qed.

Lemma store_ids_lt ctr ls d l : WFL ctr ls d -> In l (store_leaves ls) -> lf_id l < ctr.
Proof.
  intros W H. apply store_leaves_in in H. destruct H as (q & r & H1 & H2).
  apply (wl_ids _ _ _ W q r).
  - apply in_layer_get; [exact (wl_nodup _ _ _ W)|exact H1].
  - apply bt_leaves_ids_incl. exact H2.
Qed.

(** the version lookup of a border that is in the store *)
Lemma store_leaf_ver_in tr l :
  NoDup (store_ids tr) -> In l (store_leaves (t_layers tr)) -> store_leaf_ver tr (lf_id l) = Some (lf_ver l).
Proof.
  intros Hnd Hin. unfold store_leaf_ver. apply (find_ver_spec _ _ _ Hnd).
  apply (in_map (fun l => (lf_id l, lf_ver l))). exact Hin.
Qed.

Lemma store_leaf_ver_none tr id : ~ In id (store_ids tr) -> store_leaf_ver tr id = None.
Proof.
  intros Hn. unfold store_leaf_ver.
  destruct (find (fun l => lf_id l =? id) (store_leaves (t_layers tr))) as [x|] eqn:E; [|reflexivity].
  exfalso. apply find_some in E. destruct E as [Hx Eid]. apply N.eqb_eq in Eid. apply Hn.
  unfold store_ids. rewrite <- Eid. apply in_map. exact Hx.
Qed.

Lemma store_leaf_ver_some tr id : In id (store_ids tr) -> store_leaf_ver tr id <> None.
Proof.
  intros Hin. unfold store_ids in Hin. apply in_map_iff in Hin. destruct Hin as (l & <- & Hl).
  unfold store_leaf_ver.
  destruct (find (fun l0 => lf_id l0 =? lf_id l) (store_leaves (t_layers tr))) as [x|] eqn:E; [discriminate|].
  pose proof (find_none _ _ E l Hl) as X. cbn beta in X. rewrite N.eqb_refl in X. discriminate.
Qed.

(** ** 3. the layer list after the insert of a new key *)

Lemma put_walk_shape v unique : forall ts p ctr ls ls' o ctr' info,
  WFL ctr ls None -> vp ts -> layer_get ls p <> None ->
  LP (ent ls) p ts = None ->
  put_walk ts p ls v unique ctr = Some (ls', o, ctr') -> po_info o = Some info ->
  exists q root root' t rest c1 L1 L2 lm,
    mk9s p ++ ts = mk9s q ++ t :: rest /\
    ls = L1 ++ (q, root) :: L2 /\
    ls' = L1 ++ (q, root') :: L2 ++ chain_layers (q ++ [ks t]) rest v c1 /\
    layer_get ls q = Some root /\ kt_wf t = true /\ ~ In t (bt_keys root) /\
    entry_ok (mk t (match rest with [] => LValue v | _ :: _ => LLink end)) /\
    layer_put root t (match rest with [] => LValue v | _ :: _ => LLink end) ctr = Some (root', info, c1) /\
    ctr' = c1 + N.of_nat (length rest) /\
    land ts p ls = Some lm /\ find_leaf root t = Some lm /\
    po_status o = St_OK /\ po_retired o = [].
Proof.
  induction ts as [|t rest IH]; intros p ctr ls ls' o ctr' info W V Hp HLP E Hinfo; [contradiction|].
  cbn [vp] in V. destruct V as [Hw V].
  pose proof (wl_layer _ _ _ W) as Hwf.
  destruct (layer_get ls p) as [root|] eqn:Eg; [|contradiction]. clear Hp.
  destruct (walk_step ctr ls None p root t W Eg Hw) as (l & Ef & Hl).
  cbn [put_walk] in E. rewrite Eg, Ef in E. cbn [LP] in HLP.
  destruct (leaf_lookup l t) as [[[rk slot] s]|] eqn:El.
  - destruct Hl as (Hin & Hst & He & Hoks). rewrite He in HLP.
    pose proof Hoks as [_ Hok]. rewrite Hst in Hok. destruct rest as [|t2 r].
    + destruct (sl_lv s) as [|ov|] eqn:Elv; [contradiction|discriminate HLP|lia].
    + destruct V as [H9 V]. destruct (sl_lv s) as [|ov|] eqn:Elv; [contradiction|lia|].
      assert (layer_get ls (p ++ [ks t]) <> None) as Hsub.
      { apply (wl_link _ _ _ W p root (ks t) Eg); [|discriminate].
        rewrite (mk9_ks t H9), <- Hst, <- Elv, mk_eta. exact Hin. }
      destruct (IH (p ++ [ks t]) ctr ls ls' o ctr' info W V Hsub HLP E Hinfo)
        as (q & root0 & root' & t0 & rest0 & c1 & L1 & L2 & lm & Hpath & R).
      exists q, root0, root', t0, rest0, c1, L1, L2, lm.
      split; [rewrite <- (mk9s_snoc p t H9); exact Hpath|].
      destruct R as (R1 & R2 & R3 & R4 & R5 & R6 & R7 & R8 & R9 & R).
      repeat (split; [assumption|]). split; [|exact R].
      cbn [land]. rewrite Eg, Ef, El. exact R9.
  - destruct Hl as [He Hnin].
    set (lv := match rest with [] => LValue v | _ :: _ => LLink end) in *.
    assert (entry_ok {| sl_key := t; sl_lv := lv |}) as Hokn.
    { split; [exact Hw|]. unfold lv. cbn [sl_lv sl_key]. destruct rest; [exact V|apply V]. }
    destruct (layer_put root t lv ctr) as [[[root' info0] ctr1]|] eqn:Eput; [|discriminate].
    destruct (new_chain (p ++ [ks t]) rest v ctr1 (layer_set ls p root')) as [ls2 ctr2] eqn:Enc.
    injection E as <- <- <-. cbn [po_info] in Hinfo. injection Hinfo as <-.
    destruct (layer_set_some ls p root root' Eg) as (L1 & L2 & EL & ES).
    assert (ls2 = (L1 ++ (p, root') :: L2) ++ chain_layers (p ++ [ks t]) rest v ctr1 /\
            ctr2 = ctr1 + N.of_nat (length rest)) as [-> ->].
    { destruct rest as [|t2 r].
      - cbn [new_chain] in Enc. injection Enc as <- <-. cbn [chain_layers length].
        rewrite app_nil_r, ES. split; [reflexivity|lia].
      - destruct V as [H9 V].
        assert (layer_get ls (p ++ [ks t]) = None) as Hnone.
        { destruct (layer_get ls (p ++ [ks t])) as [ry|] eqn:Ey; [|reflexivity]. exfalso.
          destruct (wl_parent _ _ _ W p (ks t) ry Ey) as (_ & r0 & E0 & Hin0).
          rewrite Eg in E0. injection E0 as <-. rewrite (mk9_ks t H9) in Hin0.
          apply Hnin. change t with (sl_key (mk t LLink)). apply in_map. exact Hin0. }
        rewrite new_chain_app in Enc.
        + injection Enc as <- <-. rewrite ES. split; reflexivity.
        + intros r0. rewrite layer_get_set_other.
          * destruct (layer_get ls ((p ++ [ks t]) ++ r0)) eqn:Ex; [|reflexivity]. exfalso.
            apply (layer_prefix_closed ctr ls None (p ++ [ks t]) W r0); [rewrite Ex; discriminate|exact Hnone].
          * rewrite <- app_assoc. intros X. rewrite <- (app_nil_r p) in X at 1.
            apply app_inv_head in X. discriminate X. }
    exists p, root, root', t, rest, ctr1, L1, L2, l.
    split; [reflexivity|]. split; [exact EL|]. split; [rewrite <- app_assoc; reflexivity|].
    split; [exact Eg|]. split; [exact Hw|]. split; [exact Hnin|]. split; [exact Hokn|].
    split; [exact Eput|]. split; [reflexivity|].
    split; [cbn [land]; rewrite Eg, Ef, El; reflexivity|]. split; [exact Ef|].
    split; reflexivity.
Qed.

(** the shape at the level of [put] (any [unique]: the key is new, so the insert happens) *)
Theorem store_put_shape : forall ctr tr k v unique tr' po ctr' info,
  WF_store ctr tr -> t_null tr = false -> bytes k ->
  smap_get (abs_tree tr) k = None ->
  put tr k v unique ctr = Some (tr', po, ctr') -> po_info po = Some info ->
  exists q root root' t rest c1 L1 L2 lm,
    (* the key: [q] = slices of the tuples consumed by existing links, [t] = the tuple
       inserted, [rest] = the tuples that need fresh next layers *)
    path_of_key k = mk9s q ++ t :: rest /\
    t_layers tr = L1 ++ (q, root) :: L2 /\
    t_layers tr' = L1 ++ (q, root') :: L2 ++ chain_layers (q ++ [ks t]) rest v c1 /\
    t_null tr' = false /\
    layer_get (t_layers tr) q = Some root /\ WF_layer root /\ kt_wf t = true /\
    ~ In t (bt_keys root) /\
    entry_ok (mk t (match rest with [] => LValue v | _ :: _ => LLink end)) /\
    (forall i, In i (bt_ids root) -> i < ctr) /\
    layer_put root t (match rest with [] => LValue v | _ :: _ => LLink end) ctr = Some (root', info, c1) /\
    ctr' = c1 + N.of_nat (length rest) /\
    land (path_of_key k) [] (t_layers tr) = Some lm /\ find_leaf root t = Some lm /\
    po_status po = St_OK /\ po_retired po = [].
Proof.
  intros ctr tr k v unique tr' po ctr' info W Hn Hb Habs Hput Hinfo.
  rewrite (abs_tree_get ctr tr k W Hb) in Habs. unfold lookup in Habs. rewrite Hn in Habs.
  assert (LP (ent (t_layers tr)) [] (path_of_key k) = None) as HLP.
  { destruct (LP (ent (t_layers tr)) [] (path_of_key k)); [discriminate Habs|reflexivity]. }
  unfold put in Hput. rewrite Hn in Hput.
  destruct (put_walk (path_of_key k) [] (t_layers tr) v unique ctr) as [[[ls' o] c]|] eqn:Ew; [|discriminate].
  injection Hput as <- <- <-.
  unfold WF_store in W. rewrite Hn in W.
  destruct (put_walk_shape v unique _ [] ctr _ ls' o c info W (proj1 (path_vp k Hb)) (wl_exc _ _ _ W) HLP Ew Hinfo)
    as (q & root & root' & t & rest & c1 & L1 & L2 & lm & R1 & R2 & R3 & R4 & R5 & R6 & R7 & R8 & R9 & R10 & R11 & R12).
  exists q, root, root', t, rest, c1, L1, L2, lm. cbn [t_layers t_null].
  split; [exact R1|]. split; [exact R2|]. split; [exact R3|]. split; [reflexivity|]. split; [exact R4|].
  split; [exact (wl_layer _ _ _ W q root R4)|]. split; [exact R5|]. split; [exact R6|]. split; [exact R7|].
  split; [intros i Hi; exact (wl_ids _ _ _ W q root i R4 Hi)|].
  split; [exact R8|]. split; [exact R9|]. split; [exact R10|]. split; [exact R11|exact R12].
Qed.

(** ** 4. the store-level exactness of the report *)

Lemma in_mid {A} (x : A) X a Y : In x (X ++ a :: Y) <-> x = a \/ In x X \/ In x Y.
Proof. rewrite in_app_iff. cbn [In]. split; intros H; [destruct H as [H|[H|H]]|destruct H as [H|[H|H]]]; auto. Qed.

Theorem store_put_info_exact : forall ctr tr k v unique tr' po ctr' info,
  WF_store ctr tr -> t_null tr = false -> bytes k ->
  smap_get (abs_tree tr) k = None ->                         (* a new key *)
  put tr k v unique ctr = Some (tr', po, ctr') -> po_info po = Some info ->
  (* (1) among the borders that existed before, exactly the reported one changed its version word *)
  (forall id, In id (store_ids tr) ->
      (store_leaf_ver tr' id <> store_leaf_ver tr id <-> id = pi_modified info)) /\
  (* (2) every border that existed before still exists *)
  (forall id, In id (store_ids tr) -> In id (store_ids tr')) /\
  (* the reported border existed before, and it is the border in which the key lands *)
  (exists lm, land (path_of_key k) [] (t_layers tr) = Some lm /\ pi_modified info = lf_id lm /\
              In lm (store_leaves (t_layers tr))) /\
  exists (c1 : N) (n : nat),
    (* [n] fresh next layers, appended; [c1] = the id counter after the B+-tree insert *)
    length (t_layers tr') = (length (t_layers tr) + n)%nat /\
    ctr <= c1 /\ ctr' = c1 + N.of_nat n /\
    (* (3) the new borders: the reported created one, and the [n] last ids handed out *)
    (forall id, In id (store_ids tr') /\ ~ In id (store_ids tr) <->
        pi_created info = Some id \/ c1 <= id < ctr') /\
    (* (4) the latter are exactly the (single) borders of the layers that did not exist before *)
    (forall id, c1 <= id < ctr' <->
        exists q l, layer_get (t_layers tr) q = None /\
                    layer_get (t_layers tr') q = Some (BLeaf l) /\ lf_id l = id) /\
    (* (5) a created border is reported iff the landing border was full; it has the first id *)
    (forall c, pi_created info = Some c -> c = ctr /\ c < c1) /\
    ((exists c, pi_created info = Some c) <->
     exists lm, land (path_of_key k) [] (t_layers tr) = Some lm /\ leaf_cnk lm = 15) /\
    (* (6) [n] = the number of tuples of the key below the layer [q] in which it lands *)
    (exists q root lm, land (path_of_key k) [] (t_layers tr) = Some lm /\
        layer_get (t_layers tr) q = Some root /\ In lm (bt_leaves root) /\
        n = (length (path_of_key k) - S (length q))%nat) /\
    NoDup (store_ids tr) /\ NoDup (store_ids tr').
Proof.
  intros ctr tr k v unique tr' po ctr' info W Hn Hb Habs Hput Hinfo.
  destruct (put_refines ctr tr k v unique W Hb) as (tr2 & po2 & ctr2 & E2 & W2 & _).
  rewrite Hput in E2. injection E2 as <- <- <-.
  destruct (store_put_shape ctr tr k v unique tr' po ctr' info W Hn Hb Habs Hput Hinfo)
    as (q & root & root' & t & rest & c1 & L1 & L2 & lm & Hpath & EL & EL' & Hn' & Eg & Hwfl & Hw & Hnin & Hok
        & Hids & Eput & Ec & Hland & Ef & _).
  unfold WF_store in W, W2. rewrite Hn in W. rewrite Hn' in W2.
  set (lv := match rest with [] => LValue v | _ :: _ => LLink end) in *.
  destruct (c12_created_iff_split root t lv ctr root' info c1 Hwfl Hw Hnin Hok Hids Eput)
    as (lm0 & lm' & A & B & F & HL & Hm & Hid & Hv & Hiff & Hc).
  rewrite Ef in F. injection F as <-.
  destruct (layer_put_spec root t lv ctr Hwfl Hw Hnin Hok Hids)
    as (root2 & info2 & c2 & Eput2 & _ & _ & _ & _ & Hc1 & Hids' & _).
  rewrite Eput in Eput2. injection Eput2 as <- <- <-.
  pose proof (store_ids_NoDup _ _ _ W) as Hnd. pose proof (store_ids_NoDup _ _ _ W2) as Hnd'.
  fold (store_ids tr) in Hnd. fold (store_ids tr') in Hnd'.
  set (CH := chain_layers (q ++ [ks t]) rest v c1) in *.
  (* the borders before and after *)
  assert (store_leaves (t_layers tr) = store_leaves L1 ++ (A ++ lm :: B) ++ store_leaves L2) as SL.
  { rewrite EL, store_leaves_app, store_leaves_cons, HL. reflexivity. }
  assert (exists mid, bt_leaves root' = A ++ lm' :: mid ++ B /\
            match pi_created info with
            | None => mid = []
            | Some c => exists cnew, mid = [cnew] /\ lf_id cnew = c /\ c = ctr
            end) as (mid & HL' & Hmid).
  { destruct (pi_created info) as [c|].
    - destruct Hc as (_ & Ecc & _ & _ & _ & cnew & Hidc & _ & HL'). exists [cnew]. split; [exact HL'|].
      exists cnew. repeat split; assumption.
    - destruct Hc as (_ & HL' & _). exists []. split; [exact HL'|reflexivity]. }
  assert (store_leaves (t_layers tr') =
          store_leaves L1 ++ (A ++ lm' :: mid ++ B) ++ store_leaves L2 ++ store_leaves CH) as SL'.
  { rewrite EL', store_leaves_app, store_leaves_cons, store_leaves_app, HL'. reflexivity. }
  assert (forall l, In l (store_leaves (t_layers tr)) <->
            l = lm \/ In l (store_leaves L1) \/ In l A \/ In l B \/ In l (store_leaves L2)) as IN.
  { intros l. rewrite SL, !in_app_iff. cbn [In]. split; intros H.
    - destruct H as [H|[[H|[H|H]]|H]]; auto.
    - destruct H as [H|[H|[H|[H|H]]]]; auto. }
  assert (forall l, In l (store_leaves (t_layers tr')) <->
            l = lm' \/ In l mid \/ In l (store_leaves CH) \/
            In l (store_leaves L1) \/ In l A \/ In l B \/ In l (store_leaves L2)) as IN'.
  { intros l. rewrite SL', !in_app_iff. cbn [In]. rewrite in_app_iff. split; intros H.
    - destruct H as [H|[[H|[H|[H|H]]]|[H|H]]]; auto 10.
    - destruct H as [H|[H|[H|[H|[H|[H|H]]]]]]; auto 10. }
  assert (In lm (store_leaves (t_layers tr))) as Hlm by (apply IN; left; reflexivity).
  assert (In lm' (store_leaves (t_layers tr'))) as Hlm' by (apply IN'; left; reflexivity).
  assert (forall l, In l (store_leaves (t_layers tr)) -> lf_id l <> lf_id lm -> In l (store_leaves (t_layers tr'))) as Hkeep.
  { intros l Hl Hne. apply IN in Hl. apply IN'. destruct Hl as [->|Hl]; [contradiction|]. auto 10. }
  assert (forall l, In l (store_leaves (t_layers tr)) -> lf_id l < ctr) as Hold
    by (intros l Hl; exact (store_ids_lt _ _ _ l W Hl)).
  assert (forall l, In l (store_leaves CH) <-> exists q', In (q', BLeaf l) CH) as HCH
    by (intros l; apply chain_leaves).
  assert (forall l, In l (store_leaves CH) -> c1 <= lf_id l < ctr') as HCHr.
  { intros l Hl. apply HCH in Hl. destruct Hl as (q' & Hl). destruct (chain_in v _ _ _ _ _ Hl) as (l0 & X & Hr).
    injection X as <-. rewrite Ec. exact Hr. }
  assert (ctr <= c1) as Hcc by exact Hc1.
  (* (1) *)
  split.
  { intros id Hin. unfold store_ids in Hin. apply in_map_iff in Hin. destruct Hin as (l & <- & Hl).
    rewrite (store_leaf_ver_in tr l Hnd Hl).
    destruct (N.eq_dec (lf_id l) (lf_id lm)) as [Ei|Ni].
    - assert (l = lm) as -> by (apply (map_NoDup_inj lf_id (store_leaves (t_layers tr))); assumption).
      rewrite <- Hm. split; [reflexivity|intros _].
      rewrite <- Hid, (store_leaf_ver_in tr' lm' Hnd' Hlm'). intros X. injection X as X.
      apply Hv. rewrite X. reflexivity.
    - rewrite (store_leaf_ver_in tr' l Hnd' (Hkeep l Hl Ni)). rewrite <- Hm.
      split; [intros X; exfalso; apply X; reflexivity|intros X; contradiction]. }
  (* (2) *)
  split.
  { intros id Hin. unfold store_ids in *. apply in_map_iff in Hin. destruct Hin as (l & <- & Hl).
    destruct (N.eq_dec (lf_id l) (lf_id lm)) as [Ei|Ni].
    - rewrite Ei, <- Hid. apply in_map. exact Hlm'.
    - apply in_map. exact (Hkeep l Hl Ni). }
  split.
  { exists lm. split; [exact Hland|]. split; [symmetry; exact Hm|exact Hlm]. }
  exists c1, (length rest).
  split.
  { rewrite EL', EL, !app_length. cbn [length]. rewrite app_length. unfold CH. rewrite chain_length. lia. }
  split; [exact Hcc|]. split; [exact Ec|].
  (* (3) *)
  split.
  { intros id. unfold store_ids. split.
    - intros [H1 H2]. apply in_map_iff in H1. destruct H1 as (l & <- & Hl).
      apply IN' in Hl.
      assert (forall l0, In l0 (store_leaves (t_layers tr)) -> lf_id l0 = lf_id l -> False) as Hno.
      { intros l0 Hl0 E. apply H2. rewrite <- E. apply in_map. exact Hl0. }
      destruct Hl as [->|[Hl|[Hl|Hl]]].
      + exfalso. exact (Hno lm Hlm (eq_sym Hid)).
      + left. destruct (pi_created info) as [c|].
        * destruct Hmid as (cnew & -> & Hidc & _). destruct Hl as [<-|[]]. rewrite Hidc. reflexivity.
        * subst mid. destruct Hl.
      + right. apply HCHr. exact Hl.
      + exfalso. apply (Hno l); [|reflexivity]. apply IN. right. exact Hl.
    - intros [H|H].
      + rewrite H in Hmid. destruct Hmid as (cnew & Emid & Hidc & Ecc). split.
        * rewrite <- Hidc. apply in_map. apply IN'. right. left. rewrite Emid. left. reflexivity.
        * intros X. apply in_map_iff in X. destruct X as (l & El & Hl). apply Hold in Hl. lia.
      + split.
        * destruct (chain_ex v rest (q ++ [ks t]) c1 id) as (q' & l & Hin & El); [lia|].
          rewrite <- El. apply in_map. apply IN'. right. right. left. apply HCH. exists q'. exact Hin.
        * intros X. apply in_map_iff in X. destruct X as (l & El & Hl). apply Hold in Hl. lia. }
  (* (4) *)
  pose proof (wl_nodup _ _ _ W) as NDk. pose proof (wl_nodup _ _ _ W2) as NDk'.
  split.
  { intros id. split.
    - intros Hr. destruct (chain_ex v rest (q ++ [ks t]) c1 id) as (q' & l & Hin & El); [lia|]. fold CH in Hin.
      exists q', l. split; [|split; [|exact El]].
      + apply layer_get_none. intros X.
        rewrite EL' in NDk'. rewrite !map_app in NDk'. cbn [map fst] in NDk'. rewrite map_app in NDk'.
        assert (In q' (map fst CH)) as Hq' by (change q' with (fst (q', BLeaf l)); apply in_map; exact Hin).
        rewrite EL, map_app in X. cbn [map fst] in X.
        apply NoDup_app_inv in NDk'. destruct NDk' as (_ & N2 & N3).
        apply in_app_or in X. destruct X as [X|X].
        * apply (N3 q' X). right. apply in_or_app. right. exact Hq'.
        * change (q :: map fst L2 ++ map fst CH) with ((q :: map fst L2) ++ map fst CH) in N2.
          apply NoDup_app_inv in N2. destruct N2 as (_ & _ & N4). exact (N4 q' X Hq').
      + apply in_layer_get; [exact NDk'|]. rewrite EL'. apply in_or_app. right. right.
        apply in_or_app. right. exact Hin.
    - intros (q' & l & G1 & G2 & <-). apply layer_get_in in G2. rewrite EL' in G2.
      apply layer_get_none in G1. rewrite EL, map_app in G1. cbn [map fst] in G1.
      apply in_app_or in G2. destruct G2 as [G2|[G2|G2]].
      + exfalso. apply G1. apply in_or_app. left. change q' with (fst (q', BLeaf l)). apply in_map. exact G2.
      + exfalso. injection G2 as -> _. apply G1. apply in_or_app. right. left. reflexivity.
      + apply in_app_or in G2. destruct G2 as [G2|G2].
        * exfalso. apply G1. apply in_or_app. right. right. change q' with (fst (q', BLeaf l)). apply in_map. exact G2.
        * apply HCHr. apply HCH. exists q'. exact G2. }
  (* (5) *)
  split.
  { intros c Ecr. rewrite Ecr in Hc. destruct Hc as (_ & -> & _ & Hic & _). split; [reflexivity|].
    apply Hids'. apply leaf_ids_incl. exact Hic. }
  split.
  { rewrite Hiff. split.
    - intros H. exists lm. split; assumption.
    - intros (lm2 & H1 & H2). rewrite Hland in H1. injection H1 as <-. exact H2. }
  (* (6) *)
  split.
  { exists q, root, lm. split; [exact Hland|]. split; [exact Eg|]. split.
    - rewrite HL. apply in_or_app. right. left. reflexivity.
    - rewrite Hpath, app_length. unfold mk9s. rewrite map_length. cbn [length]. lia. }
  split; assumption.
Qed.

(** ** 5. the CAS path: a put into a store with a null root pointer creates every border *)
Theorem store_put_null_root : forall tr k v unique ctr tr' po ctr',
  t_null tr = true -> put tr k v unique ctr = Some (tr', po, ctr') ->
  t_layers tr' = chain_layers [] (path_of_key k) v ctr /\ t_null tr' = false /\
  po_info po = Some {| pi_modified := ctr; pi_created := None |} /\
  ctr' = ctr + N.of_nat (length (path_of_key k)) /\
  (forall id, In id (store_ids tr') <-> ctr <= id < ctr') /\
  (* the reported border is the new root border of layer 0 *)
  exists l, layer_get (t_layers tr') [] = Some (BLeaf l) /\ lf_id l = ctr.
Proof.
  intros tr k v unique ctr tr' po ctr' Hn Hput. unfold put in Hput. rewrite Hn in Hput.
  rewrite (new_chain_app v (path_of_key k) [] ctr []) in Hput by (intros r; reflexivity).
  injection Hput as <- <- <-. cbn [app t_layers t_null po_info].
  split; [reflexivity|]. split; [reflexivity|]. split; [reflexivity|]. split; [reflexivity|]. split.
  - intros id. unfold store_ids. cbn [t_layers]. split.
    + intros H. apply in_map_iff in H. destruct H as (l & <- & Hl). apply chain_leaves in Hl.
      destruct Hl as (q & Hl). destruct (chain_in v _ _ _ _ _ Hl) as (l0 & X & Hr). injection X as <-. exact Hr.
    + intros H. destruct (chain_ex v (path_of_key k) [] ctr id H) as (q & l & Hin & <-).
      apply in_map. apply chain_leaves. exists q. exact Hin.
  - destruct (path_hd k) as (r & ->). cbn [chain_layers layer_get prefix_eqb].
    eexists. split; [reflexivity|]. apply single_leaf_id.
Qed.

(** ** 6. a put of an existing key *)

Lemma find_ver_map id : forall (L L' : list leaf), map idv L = map idv L' ->
  option_map lf_ver (find (fun l => lf_id l =? id) L) = option_map lf_ver (find (fun l => lf_id l =? id) L').
Proof.
  induction L as [|a L IH]; intros [|a' L'] H; try discriminate H; [reflexivity|].
  cbn [map] in H. injection H as H1 H2 H. cbn [find]. rewrite H1.
  destruct (lf_id a' =? id); [cbn [option_map]; rewrite H2; reflexivity|]. apply IH. exact H.
Qed.

Lemma put_walk_existing v unique : forall ts p ctr ls ls' o ctr',
  WFL ctr ls None -> vp ts -> layer_get ls p <> None ->
  LP (ent ls) p ts <> None ->
  put_walk ts p ls v unique ctr = Some (ls', o, ctr') ->
  ctr' = ctr /\ po_info o = None /\
  if unique then ls' = ls /\ po_status o = St_WARN_UNIQUE_RESTRICTION /\ po_retired o = []
  else map idv (store_leaves ls') = map idv (store_leaves ls) /\ po_status o = St_OK /\
       length ls' = length ls.
Proof.
  induction ts as [|t rest IH]; intros p ctr ls ls' o ctr' W V Hp HLP E; [contradiction|].
  cbn [vp] in V. destruct V as [Hw V].
  destruct (layer_get ls p) as [root|] eqn:Eg; [|contradiction]. clear Hp.
  destruct (walk_step ctr ls None p root t W Eg Hw) as (l & Ef & Hl).
  cbn [put_walk] in E. rewrite Eg, Ef in E. cbn [LP] in HLP.
  destruct (leaf_lookup l t) as [[[rk slot] s]|] eqn:El.
  - destruct Hl as (Hin & Hst & He & Hoks). rewrite He in HLP.
    pose proof Hoks as [_ Hok]. rewrite Hst in Hok. destruct rest as [|t2 r].
    + destruct unique.
      * injection E as <- <- <-. cbn [po_info po_status po_retired]. repeat split; reflexivity.
      * injection E as <- <- <-. cbn [po_info po_status]. split; [reflexivity|]. split; [reflexivity|].
        match goal with |- context [layer_set ls p ?r] => set (root' := r) end.
        destruct (layer_set_some ls p root root' Eg) as (L1 & L2 & EL & ES).
        rewrite ES, EL. rewrite !store_leaves_app, !store_leaves_cons, !map_app.
        split; [|split; [reflexivity|rewrite !app_length; reflexivity]].
        f_equal. f_equal. exact (c12_overwrite_silent root t slot _).
    + destruct V as [H9 V]. destruct (sl_lv s) as [|ov|] eqn:Elv; [contradiction|lia|].
      assert (layer_get ls (p ++ [ks t]) <> None) as Hsub.
      { apply (wl_link _ _ _ W p root (ks t) Eg); [|discriminate].
        rewrite (mk9_ks t H9), <- Hst, <- Elv, mk_eta. exact Hin. }
      exact (IH (p ++ [ks t]) ctr ls ls' o ctr' W V Hsub HLP E).
  - destruct Hl as [He _]. rewrite He in HLP. exfalso. apply HLP. reflexivity.
Qed.

Lemma existing_not_null ctr tr k : WF_store ctr tr -> bytes k -> smap_get (abs_tree tr) k <> None ->
  t_null tr = false /\ LP (ent (t_layers tr)) [] (path_of_key k) <> None.
Proof.
  intros W Hb Habs. rewrite (abs_tree_get ctr tr k W Hb) in Habs. unfold lookup in Habs.
  destruct (t_null tr); [exfalso; apply Habs; reflexivity|]. split; [reflexivity|].
  intros X. rewrite X in Habs. apply Habs. reflexivity.
Qed.

(** an overwrite (non-unique put of an existing key): no border version changes, no border
    appears or disappears, nothing is reported, no id is taken *)
Theorem store_overwrite_silent : forall ctr tr k v tr' po ctr',
  WF_store ctr tr -> bytes k -> smap_get (abs_tree tr) k <> None ->
  put tr k v false ctr = Some (tr', po, ctr') ->
  (forall id, store_leaf_ver tr' id = store_leaf_ver tr id) /\
  store_ids tr' = store_ids tr /\ length (t_layers tr') = length (t_layers tr) /\
  po_info po = None /\ po_status po = St_OK /\ ctr' = ctr.
Proof.
  intros ctr tr k v tr' po ctr' W Hb Habs Hput.
  destruct (existing_not_null ctr tr k W Hb Habs) as [Hn HLP].
  unfold put in Hput. rewrite Hn in Hput.
  destruct (put_walk (path_of_key k) [] (t_layers tr) v false ctr) as [[[ls' o] c]|] eqn:Ew; [|discriminate].
  injection Hput as <- <- <-.
  unfold WF_store in W. rewrite Hn in W.
  destruct (put_walk_existing v false _ [] ctr _ ls' o c W (proj1 (path_vp k Hb)) (wl_exc _ _ _ W) HLP Ew)
    as (-> & Hi & Hm & Hs & Hlen).
  split.
  { intros id. unfold store_leaf_ver. cbn [t_layers]. apply find_ver_map. exact Hm. }
  split.
  { unfold store_ids. cbn [t_layers]. apply (f_equal (map fst)) in Hm. rewrite !map_map in Hm. exact Hm. }
  split; [exact Hlen|]. split; [exact Hi|]. split; [exact Hs|reflexivity].
Qed.

(** a unique put of an existing key fails with WARN_UNIQUE_RESTRICTION and returns the store
    as it was: in particular no version word changes *)
Theorem store_failed_unique_silent : forall ctr tr k v tr' po ctr',
  WF_store ctr tr -> bytes k -> smap_get (abs_tree tr) k <> None ->
  put tr k v true ctr = Some (tr', po, ctr') ->
  tr' = tr /\ po_status po = St_WARN_UNIQUE_RESTRICTION /\ po_info po = None /\ po_retired po = [] /\
  ctr' = ctr /\ (forall id, store_leaf_ver tr' id = store_leaf_ver tr id).
Proof.
  intros ctr tr k v tr' po ctr' W Hb Habs Hput.
  destruct (existing_not_null ctr tr k W Hb Habs) as [Hn HLP].
  unfold put in Hput. rewrite Hn in Hput.
  destruct (put_walk (path_of_key k) [] (t_layers tr) v true ctr) as [[[ls' o] c]|] eqn:Ew; [|discriminate].
  injection Hput as <- <- <-.
  unfold WF_store in W. rewrite Hn in W.
  destruct (put_walk_existing v true _ [] ctr _ ls' o c W (proj1 (path_vp k Hb)) (wl_exc _ _ _ W) HLP Ew)
    as (-> & Hi & -> & Hs & Hr).
  assert ({| t_layers := t_layers tr; t_null := false |} = tr) as ->.
  { destruct tr as [ls nl]. cbn [t_null t_layers] in *. subst nl. reflexivity. }
  repeat (split; [first [reflexivity|assumption]|]). reflexivity.
Qed.

(** ** 7. remove: what happens to the version words (the C++ remove reports nothing)

    In the model (and in the code: [border_node::delete_of] does not set inserting_deleting,
    the line is commented out) the deletion of an entry leaves the version word of its border
    as it is ([c12_delete_keeps_versions]).  A remove changes a border's word in two places
    only: a border that becomes the root of its layer because the interior root above it is
    unlinked gets the root flag, and the root border of layer 0, when it loses its last entry,
    gets the deleted flag.  The counters never move, no border is created; borders of emptied
    layers (and emptied borders inside a layer) disappear. *)

(** one writer step of remove on a word *)
Definition vstep (w w' : N) : Prop := w' = w \/ w' = set_root w true \/ w' = set_deleted w true.

(** equal up to the root and deleted flags *)
Definition vsame (w w' : N) : Prop :=
  get_vinsert_delete w' = get_vinsert_delete w /\ get_vsplit w' = get_vsplit w /\
  get_locked w' = get_locked w /\ get_inserting_deleting w' = get_inserting_deleting w /\
  get_splitting w' = get_splitting w /\ get_border w' = get_border w.

Lemma vsame_refl w : vsame w w.
Proof. repeat split. Qed.

Lemma vsame_trans a b c : vsame a b -> vsame b c -> vsame a c.
Proof.
  intros (A1 & A2 & A3 & A4 & A5 & A6) (B1 & B2 & B3 & B4 & B5 & B6).
  repeat split; congruence.
Qed.

Lemma vstep_vsame w w' : vstep w w' -> vsame w w'.
Proof.
  intros [-> | [-> | ->]]; [apply vsame_refl| |]; repeat split; vframe.
Qed.

(** every border of [ls'] is a border of [ls] (same id) whose word is related by [R] *)
Definition vrel (R : N -> N -> Prop) (ls ls' : layers_t) : Prop :=
  forall l', In l' (store_leaves ls') ->
  exists l, In l (store_leaves ls) /\ lf_id l = lf_id l' /\ R (lf_ver l) (lf_ver l').

Lemma vrel_refl ls : vrel vsame ls ls.
Proof. intros l' H. exists l'. split; [exact H|]. split; [reflexivity|apply vsame_refl]. Qed.

Lemma vrel_trans a b c : vrel vsame a b -> vrel vsame b c -> vrel vsame a c.
Proof.
  intros H1 H2 l'' H. destruct (H2 l'' H) as (l' & Hl' & E' & V').
  destruct (H1 l' Hl') as (l & Hl & E & V). exists l. split; [exact Hl|]. split; [congruence|].
  eapply vsame_trans; eassumption.
Qed.

Lemma vrel_weaken ls ls' : vrel vstep ls ls' -> vrel vsame ls ls'.
Proof.
  intros H l' Hl'. destruct (H l' Hl') as (l & Hl & E & V). exists l. split; [exact Hl|].
  split; [exact E|apply vstep_vsame; exact V].
Qed.

Lemma layer_set_leaves_in ls p r l :
  In l (store_leaves (layer_set ls p r)) -> In l (bt_leaves r) \/ In l (store_leaves ls).
Proof.
  induction ls as [|[q u] ls IH]; cbn [layer_set].
  - rewrite store_leaves_cons. cbn [store_leaves flat_map]. rewrite app_nil_r. intros H. left. exact H.
  - destruct (prefix_eqb q p); rewrite !store_leaves_cons, !in_app_iff.
    + intros [H|H]; [left; exact H|right; right; exact H].
    + intros [H|H]; [right; left; exact H|]. destruct (IH H) as [X|X]; [left; exact X|right; right; exact X].
Qed.

Lemma layer_del_leaves_in ls p l : In l (store_leaves (layer_del ls p)) -> In l (store_leaves ls).
Proof.
  induction ls as [|[q u] ls IH]; cbn [layer_del]; [intros H; exact H|].
  destruct (prefix_eqb q p); rewrite !store_leaves_cons, ?in_app_iff.
  - intros H. right. exact H.
  - intros [H|H]; [left; exact H|right; apply IH; exact H].
Qed.

Lemma layer_get_leaves ls p root l :
  layer_get ls p = Some root -> In l (bt_leaves root) -> In l (store_leaves ls).
Proof.
  intros Eg Hl. apply store_leaves_in. exists p, root. split; [apply layer_get_in; exact Eg|exact Hl].
Qed.

(** one [layer_remove]: each surviving border keeps its id and makes at most one [vstep] *)
Lemma layer_remove_vrel ls p t ls' gone ret :
  layer_remove ls p t = Some (ls', gone, ret) -> vrel vstep ls ls'.
Proof.
  unfold layer_remove. destruct (layer_get ls p) as [root|] eqn:Eg; [|discriminate].
  destruct (bt_delete (S (bt_height root)) root t) as [[[root'|] ret0]|] eqn:Ed; [| |discriminate].
  - intros E. injection E as <- _ _. intros l' Hl'.
    apply layer_set_leaves_in in Hl'. destruct Hl' as [Hl'|Hl'].
    2:{ exists l'. split; [exact Hl'|]. split; [reflexivity|left; reflexivity]. }
    pose proof (c12_delete_keeps_versions t _ root root' ret0 Ed) as Hincl.
    assert (forall l0, In l0 (bt_leaves root') ->
              exists l, In l (store_leaves ls) /\ lf_id l = lf_id l0 /\ lf_ver l = lf_ver l0) as Hkept.
    { intros l0 Hl0. assert (In (lf_id l0, lf_ver l0) (leaf_versions root)) as X.
      { apply Hincl. unfold leaf_versions. apply (in_map (fun l => (lf_id l, lf_ver l))). exact Hl0. }
      unfold leaf_versions in X. apply in_map_iff in X. destruct X as (l & X & Hl). injection X as X1 X2.
      exists l. split; [eapply layer_get_leaves; eassumption|]. split; assumption. }
    destruct (bt_id root' =? bt_id root).
    + destruct (Hkept l' Hl') as (l & H1 & H2 & H3). exists l. split; [exact H1|]. split; [exact H2|].
      left. symmetry. exact H3.
    + destruct root' as [l0|id ver keys ch].
      * cbn in Hl'. destruct Hl' as [<-|[]]. cbn [lf_id lf_ver].
        destruct (Hkept l0 (or_introl eq_refl)) as (l & H1 & H2 & H3). exists l. split; [exact H1|].
        split; [exact H2|]. right. left. rewrite H3. reflexivity.
      * change (bt_leaves (set_root_flag (BInt id ver keys ch) true)) with (bt_leaves (BInt id ver keys ch)) in Hl'.
        destruct (Hkept l' Hl') as (l & H1 & H2 & H3). exists l. split; [exact H1|]. split; [exact H2|].
        left. symmetry. exact H3.
  - destruct p as [|x p].
    + destruct root as [l0|]; [|discriminate]. destruct (leaf_lookup l0 t) as [[[rk slot] s]|]; [|discriminate].
      intros E. injection E as <- _ _. intros l' Hl'.
      apply layer_set_leaves_in in Hl'. destruct Hl' as [Hl'|Hl'].
      2:{ exists l'. split; [exact Hl'|]. split; [reflexivity|left; reflexivity]. }
      cbn in Hl'. destruct Hl' as [<-|[]]. exists l0.
      split; [eapply layer_get_leaves; [exact Eg|left; reflexivity]|].
      cbn [leaf_with lf_id lf_ver]. rewrite ?leaf_delete_id, ?leaf_delete_ver.
      split; [reflexivity|]. right. right. reflexivity.
    + intros E. injection E as <- _ _. intros l' Hl'. apply layer_del_leaves_in in Hl'.
      exists l'. split; [exact Hl'|]. split; [reflexivity|left; reflexivity].
Qed.

Lemma cascade_vrel : forall fuel ls p ret ls' ret',
  cascade fuel ls p ret = Some (ls', ret') -> vrel vsame ls ls'.
Proof.
  induction fuel as [|f IH]; intros ls p ret ls' ret' E; [discriminate|]. cbn [cascade] in E.
  destruct (rev p) as [|s r]; [injection E as <- _; apply vrel_refl|].
  destruct (layer_remove ls (remove_last p) {| ks := s; kl := 9 |}) as [[[ls1 gone] ret1]|] eqn:El; [|discriminate].
  pose proof (vrel_weaken _ _ (layer_remove_vrel _ _ _ _ _ _ El)) as H1.
  destruct gone.
  - eapply vrel_trans; [exact H1|]. eapply IH. exact E.
  - injection E as <- _. exact H1.
Qed.

Lemma remove_walk_vrel : forall ts p ls ls' o,
  remove_walk ts p ls = Some (ls', o) -> vrel vsame ls ls'.
Proof.
  induction ts as [|t rest IH]; intros p ls ls' o E; [discriminate|]. cbn [remove_walk] in E.
  destruct (layer_get ls p) as [root|]; [|discriminate].
  destruct (find_leaf root t) as [l|]; [|discriminate].
  destruct (leaf_lookup l t) as [[[rk slot] s]|].
  2:{ injection E as <- _. apply vrel_refl. }
  destruct rest as [|t2 r].
  - destruct (layer_remove ls p t) as [[[ls1 gone] ret1]|] eqn:El; [|discriminate].
    pose proof (vrel_weaken _ _ (layer_remove_vrel _ _ _ _ _ _ El)) as H1.
    destruct gone.
    + destruct (cascade (S (length p)) ls1 p ret1) as [[ls2 ret2]|] eqn:Ec; [|discriminate].
      injection E as <- _. eapply vrel_trans; [exact H1|]. eapply cascade_vrel. exact Ec.
    + injection E as <- _. exact H1.
  - eapply IH. exact E.
Qed.

(** [remove]: no border is created; every border that is still there has its id and its word
    up to the root / deleted flags -- in particular both counters are as before *)
Theorem store_remove_versions : forall tr k tr' o,
  remove tr k = Some (tr', o) ->
  forall l', In l' (store_leaves (t_layers tr')) ->
  exists l, In l (store_leaves (t_layers tr)) /\ lf_id l = lf_id l' /\ vsame (lf_ver l) (lf_ver l').
Proof.
  intros tr k tr' o E. unfold remove in E. destruct (t_null tr).
  - injection E as <- _. apply vrel_refl.
  - destruct (remove_walk (path_of_key k) [] (t_layers tr)) as [[ls' o']|] eqn:Ew; [|discriminate].
    injection E as <- _. cbn [t_layers]. eapply remove_walk_vrel. exact Ew.
Qed.

(** the same through the version lookup of a well-formed store *)
Corollary store_remove_leaf_ver : forall ctr tr k tr' o,
  WF_store ctr tr -> remove tr k = Some (tr', o) ->
  (forall id, In id (store_ids tr') -> In id (store_ids tr)) /\
  (forall id v', store_leaf_ver tr' id = Some v' ->
     exists v, store_leaf_ver tr id = Some v /\ vsame v v' /\
               get_vinsert_delete v' = get_vinsert_delete v /\ get_vsplit v' = get_vsplit v).
Proof.
  intros ctr tr k tr' o W E. destruct (t_null tr) eqn:Hn.
  { unfold remove in E. rewrite Hn in E. injection E as <- _. split; [intros id H; exact H|].
    intros id v' Hv. exists v'. split; [exact Hv|]. split; [apply vsame_refl|split; reflexivity]. }
  pose proof (store_remove_versions tr k tr' o E) as H. split.
  - intros id Hid. unfold store_ids in *. apply in_map_iff in Hid. destruct Hid as (l' & <- & Hl').
    destruct (H l' Hl') as (l & Hl & Eid & _). rewrite <- Eid. apply in_map. exact Hl.
  - intros id v' Hv. unfold store_leaf_ver in Hv.
    destruct (find (fun l => lf_id l =? id) (store_leaves (t_layers tr'))) as [l'|] eqn:Ef; [|discriminate].
    cbn [option_map] in Hv. injection Hv as <-. apply find_some in Ef. destruct Ef as [Hl' Eid].
    apply N.eqb_eq in Eid. destruct (H l' Hl') as (l & Hl & Eid' & V).
    exists (lf_ver l). split; [|split; [exact V|split; apply V]].
    rewrite <- Eid, <- Eid'. unfold WF_store in W. rewrite Hn in W.
    apply store_leaf_ver_in; [|exact Hl]. exact (store_ids_NoDup _ _ _ W).
Qed.

(** ** sanity: a concrete three-layer store whose root border is full *)
Module PutInfoExample.
  Import StoreExample.
  (* k17 = 8 + 8 + 1 bytes: layers [], [s1], [s1; s1'] with the borders 1, 3, 4; fourteen one-byte keys
     fill the root border 1.  Every B+-tree insert takes one id for a possible new sibling, whether or
     not the border splits, hence the next free id 19 *)
  Definition keys0 : list key := k17 :: map (fun i => [N.of_nat i]) (seq 1 14).
  Definition ex_pair := puts (empty_tree 1) 2 keys0.
  Definition ex : tree := match ex_pair with Some (t, _) => t | None => null_tree end.
  Definition ctr0 : N := match ex_pair with Some (_, c) => c | None => 0 end.

  Example ex_shape :
    ctr0 = 19 /\ map (fun pr => length (fst pr)) (t_layers ex) = [0; 1; 2]%nat /\
    map (fun l => (lf_id l, leaf_cnk l)) (store_leaves (t_layers ex)) = [(1, 15); (3, 1); (4, 1)].
  Proof. vm_compute. repeat split; reflexivity. Qed.

  Lemma ex_wf : WF_store ctr0 ex.
  Proof.
    destruct (puts_wf keys0 (empty_tree 1) 2) as (tr' & c' & E & W).
    - apply empty_tree_wf. lia.
    - apply Forall_forall. intros k Hk. apply bytesb_sound.
      assert (forallb (fun k => forallb (fun b => b <? 256) k) keys0 = true) as X by (vm_compute; reflexivity).
      rewrite forallb_forall in X. exact (X k Hk).
    - unfold ex, ctr0, ex_pair. rewrite E. exact W.
  Qed.

  Definition opt_eqb (a b : option N) : bool :=
    match a, b with Some x, Some y => x =? y | None, None => true | _, _ => false end.
  (* old borders whose version word differs afterwards / borders that are new *)
  Definition ver_diff (tr tr' : tree) : list N :=
    filter (fun i => negb (opt_eqb (store_leaf_ver tr i) (store_leaf_ver tr' i))) (store_ids tr).
  Definition new_ids (tr tr' : tree) : list N :=
    filter (fun c => negb (existsb (N.eqb c) (store_ids tr))) (store_ids tr').
  (* (report, changed old borders, new borders, layers before, layers after, counter after) *)
  Definition run (k : key) (unique : bool) :=
    match put ex k (val 77) unique ctr0 with
    | Some (tr', po, c') =>
      Some (po_status po, po_info po, ver_diff ex tr', new_ids ex tr',
            length (t_layers ex), length (t_layers tr'), c')
    | None => None
    end.

  (* (a) an insert without split: the key lands in the (non-full) root border of layer 1 *)
  Definition ka : key := [1;2;3;4;5;6;7;8;42].
  Example run_a :
    run ka false = Some (St_OK, Some {| pi_modified := 3; pi_created := None |}, [3], [], 3%nat, 3%nat, 20).
  Proof. vm_compute. reflexivity. Qed.

  (* (b) an insert that splits the full root border of layer 0: the new border 19 is reported;
     id 20 is the new interior root (not a border) *)
  Definition kb : key := [200].
  Example run_b :
    run kb false = Some (St_OK, Some {| pi_modified := 1; pi_created := Some 19 |}, [1], [19], 3%nat, 3%nat, 21).
  Proof. vm_compute. reflexivity. Qed.

  (* (c) an insert that creates two new next layers below the border of layer 1: the borders
     20 and 21 (roots of the fresh layers) are new and are NOT in the report (id 19 was reserved
     for a sibling that was not needed) *)
  Definition kc : key := [1;2;3;4;5;6;7;8; 7;7;7;7;7;7;7;7; 5;5;5;5;5;5;5;5; 3].
  Example run_c :
    run kc false = Some (St_OK, Some {| pi_modified := 3; pi_created := None |}, [3], [20; 21], 3%nat, 5%nat, 22).
  Proof. vm_compute. reflexivity. Qed.

  (* (c') split of the full root border and two new next layers at once:
     19 = created border (reported), 20 = new interior root, 21 and 22 = fresh layer roots *)
  Definition kc' : key := [9;9;9;9;9;9;9;9; 1;2;3;4;5;6;7;8; 1;2;3;4].
  Example run_c' :
    run kc' false = Some (St_OK, Some {| pi_modified := 1; pi_created := Some 19 |}, [1], [19; 21; 22], 3%nat, 5%nat, 23).
  Proof. vm_compute. reflexivity. Qed.

  (* (d) an overwrite, and a failed unique put: nothing changes, nothing is reported *)
  Example run_d :
    run k17 false = Some (St_OK, None, [], [], 3%nat, 3%nat, 19) /\
    run [3] false = Some (St_OK, None, [], [], 3%nat, 3%nat, 19) /\
    run k17 true = Some (St_WARN_UNIQUE_RESTRICTION, None, [], [], 3%nat, 3%nat, 19).
  Proof. vm_compute. repeat split; reflexivity. Qed.

  (* a remove that empties two layers, and a remove inside the root border: no word changes *)
  Example run_remove :
    match remove ex k17 with
    | Some (tr', _) => (ver_diff ex tr', new_ids ex tr', store_ids tr')
    | None => ([], [], [])
    end = ([3; 4], [], [1]) /\       (* 3 and 4 disappear (lookup None), 1 keeps its word *)
    match remove ex [3] with
    | Some (tr', _) => (ver_diff ex tr', new_ids ex tr', store_ids tr')
    | None => ([], [], [])
    end = ([], [], [1; 3; 4]).
  Proof. vm_compute. split; reflexivity. Qed.

  (* the hypotheses of [store_put_info_exact] hold for (c'), and its conclusion is the computed one *)
  Example ex_theorem_applies :
    exists tr' po ctr' info,
      put ex kc' (val 77) false ctr0 = Some (tr', po, ctr') /\ po_info po = Some info /\
      pi_modified info = 1 /\ pi_created info = Some 19 /\
      (forall id, In id (store_ids ex) -> (store_leaf_ver tr' id <> store_leaf_ver ex id <-> id = 1)) /\
      (forall id, In id (store_ids tr') /\ ~ In id (store_ids ex) <-> id = 19 \/ 21 <= id < 23).
  Proof.
    assert (bytes kc') as Hb by (apply bytesb_sound; vm_compute; reflexivity).
    destruct (put_refines ctr0 ex kc' (val 77) false ex_wf Hb) as (tr' & po & ctr' & E & _).
    assert (option_map (fun x => (po_info (snd (fst x)), snd x)) (put ex kc' (val 77) false ctr0)
            = Some (Some {| pi_modified := 1; pi_created := Some 19 |}, 23)) as X by (vm_compute; reflexivity).
    rewrite E in X. cbn [option_map fst snd] in X. injection X as Hi ->.
    exists tr', po, 23, {| pi_modified := 1; pi_created := Some 19 |}.
    split; [exact E|]. split; [exact Hi|]. split; [reflexivity|]. split; [reflexivity|].
    destruct (store_put_info_exact ctr0 ex kc' (val 77) false tr' po 23 {| pi_modified := 1; pi_created := Some 19 |} ex_wf) as (P1 & _ & _ & c1 & n & Hlen & _ & Hc & P3 & _);
      [vm_compute; reflexivity|exact Hb|vm_compute; reflexivity|exact E|exact Hi|].
    split; [exact P1|].
    assert (n = 2%nat) as ->.
    { assert (option_map (fun x => length (t_layers (fst (fst x)))) (put ex kc' (val 77) false ctr0) = Some 5%nat) as Y
        by (vm_compute; reflexivity).
      rewrite E in Y. cbn [option_map fst] in Y. injection Y as Y. rewrite Y in Hlen.
      change (length (t_layers ex)) with 3%nat in Hlen. lia. }
    assert (c1 = 21) as -> by lia.
    intros id. rewrite (P3 id). cbn [pi_created]. split.
    - intros [H|H]; [left; injection H as <-; reflexivity|right; exact H].
    - intros [->|H]; [left; reflexivity|right; exact H].
  Qed.
End PutInfoExample.

(** ** axiom audit *)
Print Assumptions store_put_shape.
Print Assumptions store_put_info_exact.
Print Assumptions store_put_null_root.
Print Assumptions store_overwrite_silent.
Print Assumptions store_failed_unique_silent.
Print Assumptions store_remove_versions.
Print Assumptions store_remove_leaf_ver.
Print Assumptions PutInfoExample.ex_theorem_applies.
