(** * PermDefs: the permutation word of a border node (include/permutation.h),
    operation by operation, exactly as written (incl. the special cases for
    [rank == cnk-1] and [rank == key_slice_length-1]).  No proofs here. *)
From Yk Require Export Word64.
Local Open Scope N_scope.

(** [key_slice_length] (scheme.h) -- re-checked against the source by Consts.v *)
Definition key_slice_length : N := 15.
Definition pkey_bit_size : N := 4.
Definition cnk_mask : N := 15.

Definition get_cnk (w : N) : N := N.land w cnk_mask.

Definition get_index_of_rank (w rank : N) : N :=
  let per := shr w 4 in
  let per := if rank =? 0 then per else shr per (pkey_bit_size * rank) in
  N.land per cnk_mask.

Definition get_lowest_key_pos (w : N) : N := N.land (shr w 4) cnk_mask.

Definition insert_rank (w rank pos : N) : N :=
  let cnk := add64 (get_cnk w) 1 in
  let target := shl pos (pkey_bit_size * (rank + 1)) in
  let left := if rank =? sub64 cnk 1 then 0
              else shl (shr w (pkey_bit_size * (rank + 1))) (pkey_bit_size * (rank + 2)) in
  let right := if rank =? 0 then 0
               else shr (shl w (pkey_bit_size * (key_slice_length - rank)))
                        (pkey_bit_size * (key_slice_length - rank)) in
  let final := N.lor (N.lor left target) right in
  let final := N.land final (not64 cnk_mask) in
  N.lor final cnk.

Definition delete_rank (w rank : N) : N :=
  let cnk := get_cnk w in
  let left := if (rank =? sub64 cnk 1) || (rank =? key_slice_length - 1) then 0
              else shl (shr w (pkey_bit_size * (rank + 2))) (pkey_bit_size * (rank + 1)) in
  let right := if rank =? 0 then 0
               else shr (shl w (pkey_bit_size * (key_slice_length - rank)))
                        (pkey_bit_size * (key_slice_length - rank)) in
  let final := N.lor left right in
  let final := N.land final (not64 cnk_mask) in
  N.lor final (sub64 cnk 1).

(** shift amounts (in bits) the two functions above perform, for the
    no-undefined-shift theorem *)
Definition insert_rank_shifts (w rank : N) : list N :=
  let cnk := add64 (get_cnk w) 1 in
  [pkey_bit_size * (rank + 1)] ++
  (if rank =? sub64 cnk 1 then [] else [pkey_bit_size * (rank + 1); pkey_bit_size * (rank + 2)]) ++
  (if rank =? 0 then [] else [pkey_bit_size * (key_slice_length - rank)]).
Definition delete_rank_shifts (w rank : N) : list N :=
  let cnk := get_cnk w in
  (if (rank =? sub64 cnk 1) || (rank =? key_slice_length - 1) then []
   else [pkey_bit_size * (rank + 2); pkey_bit_size * (rank + 1)]) ++
  (if rank =? 0 then [] else [pkey_bit_size * (key_slice_length - rank)]).

(** the bitset loop of [get_empty_slot]: which slots occur among the first
    [cnk] nibbles *)
Fixpoint used_slots (per : N) (cnk : nat) : list N :=
  match cnk with
  | O => []
  | S k => let per' := shr per 4 in N.land per' cnk_mask :: used_slots per' k
  end.

Fixpoint first_free (used : list N) (i : N) (fuel : nat) : option N :=
  match fuel with
  | O => None
  | S f => if existsb (N.eqb i) used then first_free used (i + 1) f else Some i
  end.

Definition get_empty_slot (w : N) : N :=
  let cnk := get_cnk w in
  if cnk =? 0 then 0
  else match first_free (used_slots w (N.to_nat cnk)) 0 15 with
       | Some i => i
       | None => 0 (* "programming error" path *)
       end.

(** [split_dest num]: body |= i << 4(i+1) for i in 1..num-1; body |= num *)
Fixpoint split_dest_loop (i : N) (n : nat) (body : N) : N :=
  match n with
  | O => body
  | S k => split_dest_loop (i + 1) k (N.lor body (shl i (pkey_bit_size * (i + 1))))
  end.
Definition split_dest (num : N) : N :=
  N.lor (split_dest_loop 1 (N.to_nat (num - 1)) 0) num.

Definition set_cnk (w cnk : N) : N :=
  N.lor (N.land w (not64 cnk_mask)) cnk.

(** ** Abstract reading of a permutation word *)
Definition perm_list (w : N) : list N :=
  map (fun i => nib w (N.of_nat i + 1)) (seq 0 (N.to_nat (get_cnk w))).

Definition perm_validb (w : N) : bool :=
  (w <? w64) && (get_cnk w <=? 15) &&
  forallb (fun x => x <? 15) (perm_list w) &&
  (fix nodup (l : list N) := match l with
     | [] => true
     | x :: r => negb (existsb (N.eqb x) r) && nodup r end) (perm_list w).
