(** * ValueDefs: out-of-line value blocks and tagged slot words
    (include/value.h, include/link_or_value.h). *)
From Yk Require Export Word64.
Local Open Scope N_scope.

Definition kValPtrFlag : N := 4611686018427387904.  (* 0b01 << 62 *)
Definition kChildFlag  : N := 9223372036854775808.  (* 0b10 << 62 *)
Definition kMinAlignment : N := 8.

(** what value::create_value<false>(in, v_len, v_align) asks of the allocator
    and writes into the header *)
Record vblock := {
  vb_alloc_size : N;   (* first argument of ::operator new *)
  vb_alloc_align : N;  (* second argument *)
  vb_hdr_len : N;      (* value::len_  (uint32) *)
  vb_hdr_align : N;    (* value::align_ (uint16) *)
}.

Definition create_value_block (v_len v_align : N) : vblock :=
  let a := if v_align <? kMinAlignment then kMinAlignment else v_align in
  {| vb_alloc_size := add64 v_len a;
     vb_alloc_align := a;
     vb_hdr_len := v_len mod 2 ^ 32;
     vb_hdr_align := a mod 2 ^ 16 |}.

(** accessors on a block header *)
Definition vb_body_offset (b : vblock) : N := vb_hdr_align b.         (* get_body *)
Definition vb_get_len (b : vblock) : N := vb_hdr_len b.               (* get_len *)
(* get_gc_info / delete_value: uint32 + uint16 is computed in 32-bit unsigned int *)
Definition vb_gc_size (b : vblock) : N := (vb_hdr_len b + vb_hdr_align b) mod 2 ^ 32.
Definition vb_gc_align (b : vblock) : N := vb_hdr_align b.

(** pointer tagging *)
Definition tag_value_ptr (p : N) : N := N.lor p kValPtrFlag.
Definition remove_ptr_flag (w : N) : N := N.land w (not64 kValPtrFlag).
Definition is_value_ptr (w : N) : bool := 0 <? N.land w kValPtrFlag.
Definition tag_child_ptr (p : N) : N := N.lor p kChildFlag.

(** link_or_value::get_next_layer / get_value on a slot word: None = nullptr *)
Definition lv_get_next_layer (w : N) : option N :=
  if N.land w kChildFlag =? 0 then None else Some (N.land w (not64 kChildFlag)).
Definition lv_get_value (w : N) : option N :=
  if (0 <? N.land w kChildFlag) || (w =? kValPtrFlag) || (w =? 0) then None else Some w.
Definition lv_init : N := kValPtrFlag.

(** value::get_body / get_len on a slot word holding a value: for an inline
    word the word itself and sizeof(uintptr_t) *)
Definition value_is_inline (w : N) : bool := remove_ptr_flag w =? w.
