(** * LinDefs: an executable per-key linearizability checker.

    Linearizability is local: a history over a map is linearizable iff its
    projection on every key is.  A per-key history is a list of completed
    operations on one register-like object (absent / bound to a value) with
    their invocation and response times (unique sequence numbers of a totally
    ordered run).  [lin_check] searches for a linearization; LinProofs.v proves
    it sound and complete w.r.t. the declarative definition. *)
From Coq Require Export NArith List Bool PeanoNat.
Export ListNotations.
Local Open Scope N_scope.

Inductive okind :=
| KPut (v : N)        (* upsert *)
| KUput (v : N)       (* unique insert *)
| KGet
| KRem
| KRead (v : N)       (* a scan returned the key with value v *)
| KAbsent.            (* a scan covering the key did not return it *)

Inductive ores :=
| RsOK                (* put / uput / remove succeeded *)
| RsVal (v : N)       (* get returned OK with value v *)
| RsNotExist          (* get: WARN_NOT_EXIST *)
| RsNotFound          (* remove: OK_NOT_FOUND *)
| RsUnique            (* uput: WARN_UNIQUE_RESTRICTION *)
| RsNone.             (* scan reads carry no status *)

Record hop := { h_inv : N; h_res : N; h_kind : okind; h_out : ores }.

Definition ores_eqb (a b : ores) : bool :=
  match a, b with
  | RsOK, RsOK | RsNotExist, RsNotExist | RsNotFound, RsNotFound | RsUnique, RsUnique | RsNone, RsNone => true
  | RsVal x, RsVal y => x =? y
  | _, _ => false
  end.

(** sequential semantics of one key: [Some st'] if the operation with this
    outcome is allowed in state [st] *)
Definition apply_op (st : option N) (o : hop) : option (option N) :=
  match h_kind o, st with
  | KPut v, _ => if ores_eqb (h_out o) RsOK then Some (Some v) else None
  | KUput v, None => if ores_eqb (h_out o) RsOK then Some (Some v) else None
  | KUput _, Some _ => if ores_eqb (h_out o) RsUnique then Some st else None
  | KGet, None => if ores_eqb (h_out o) RsNotExist then Some st else None
  | KGet, Some x => if ores_eqb (h_out o) (RsVal x) then Some st else None
  | KRem, None => if ores_eqb (h_out o) RsNotFound then Some st else None
  | KRem, Some _ => if ores_eqb (h_out o) RsOK then Some None else None
  | KRead v, Some x => if x =? v then Some st else None
  | KRead _, None => None
  | KAbsent, None => Some st
  | KAbsent, Some _ => None
  end.

(** [a] precedes [b] in real time *)
Definition precedes (a b : hop) : bool := h_res a <? h_inv b.

(** [o] may be linearized next among [pending]: nothing pending completed before it was invoked *)
Definition minimal (o : hop) (pending : list hop) : bool :=
  forallb (fun p => negb (precedes p o)) pending.

Fixpoint remove_nth_hop (n : nat) (l : list hop) : list hop :=
  match l, n with
  | [], _ => []
  | _ :: r, O => r
  | a :: r, S m => a :: remove_nth_hop m r
  end.

(** search: try every minimal pending operation as the next linearization point *)
Fixpoint lin_search (fuel : nat) (st : option N) (pending : list hop) : bool :=
  match pending with
  | [] => true
  | _ =>
    match fuel with
    | O => false
    | S f =>
      existsb (fun i =>
                 match nth_error pending i with
                 | None => false
                 | Some o =>
                   minimal o pending &&
                   match apply_op st o with
                   | Some st' => lin_search f st' (remove_nth_hop i pending)
                   | None => false
                   end
                 end) (seq 0 (length pending))
    end
  end.

Definition lin_check (init : option N) (h : list hop) : bool := lin_search (length h) init h.

(** ** Declarative definition *)
Fixpoint run_seq (st : option N) (l : list hop) : bool :=
  match l with
  | [] => true
  | o :: r => match apply_op st o with Some st' => run_seq st' r | None => false end
  end.

(** no later element of the sequence precedes an earlier one *)
Fixpoint respects_rt (l : list hop) : bool :=
  match l with
  | [] => true
  | o :: r => forallb (fun p => negb (precedes p o)) r && respects_rt r
  end.
