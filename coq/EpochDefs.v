(** * EpochDefs: the epoch / session / garbage-collection protocol
    (thread_info_table.h assign/leave, manager_thread.h epoch_thread and
    gc_thread, garbage_collection.h gc_node/gc_value), one shared-memory access
    per step, arbitrary interleaving.

    Sessions are identified with the slot they own plus an instance counter;
    the state machine of a session lives in its slot.  [repaired] selects the
    enter protocol: [true] = publish the begin epoch, re-read the epoch, repeat
    until equal (the "fix:" commit); [false] = the original read-then-publish.

    Executable definitions only (they are extracted and replay real event
    logs); proofs are in EpochProofs.v. *)
From Coq Require Export NArith List Bool PeanoNat.
Export ListNotations.
Local Open Scope N_scope.

Inductive sstate :=
| SFree                (* running_ = false *)
| SClaimed             (* gain_the_right succeeded; about to read the epoch *)
| SRead (e : N)        (* epoch read, not yet published *)
| SPub (e : N)         (* begin epoch published, about to re-check (repaired only) *)
| SActive              (* enter returned: the session may hold references *)
| SLeft1.              (* begin epoch cleared, running_ still true *)

Record slot := { ss : sstate; sbegin : N; sinst : nat }.

Inductive ostatus := Linked | Retired | Freed | DoubleFreed.

(** epoch thread *)
Inductive epc :=
| ESleep
| EVerify (cur : N) (j : nat)       (* slots < j passed the check *)
| EInc
| EMin (j : nat) (m : option N)     (* slots < j folded into m *)
| EPub (v : N).

(** gc thread, per container (container c = 2*slot + kind) *)
Inductive gpc :=
| GIdle (c : nat)                   (* about to read the gc epoch for container c *)
| GCache (c : nat) (g : N)
| GLoop (c : nat) (g : N).

Definition sess := (nat * nat)%type.  (* slot, instance *)

Record st := {
  gE : N;                            (* epoch_management::epoch_ *)
  gG : N;                            (* garbage_collection::gc_epoch_ *)
  slots : nat -> slot;
  queue : nat -> list (N * nat);     (* container -> FIFO of (tag, object), head first *)
  cache : nat -> option (N * nat);
  ost : nat -> ostatus;
  prot : nat -> list sess;           (* ghost: sessions active when the object was retired *)
  ept : epc;
  gct : gpc;
}.

Definition upd {A} (f : nat -> A) (i : nat) (v : A) : nat -> A :=
  fun j => if Nat.eqb j i then v else f j.

Definition init_slot : slot := {| ss := SFree; sbegin := 0; sinst := 0 |}.
Definition init_st : st :=
  {| gE := 1; gG := 0; slots := fun _ => init_slot; queue := fun _ => [];
     cache := fun _ => None; ost := fun _ => Linked; prot := fun _ => [];
     ept := ESleep; gct := GIdle 0 |}.

Definition set_slots s f := {| gE := gE s; gG := gG s; slots := f; queue := queue s; cache := cache s;
                               ost := ost s; prot := prot s; ept := ept s; gct := gct s |}.
Definition set_ept s e := {| gE := gE s; gG := gG s; slots := slots s; queue := queue s; cache := cache s;
                             ost := ost s; prot := prot s; ept := e; gct := gct s |}.
Definition set_gct s g := {| gE := gE s; gG := gG s; slots := slots s; queue := queue s; cache := cache s;
                             ost := ost s; prot := prot s; ept := ept s; gct := g |}.

Definition set_ss (sl : slot) (x : sstate) : slot := {| ss := x; sbegin := sbegin sl; sinst := sinst sl |}.

(** sessions currently confirmed-active *)
Fixpoint active_sessions (n : nat) (f : nat -> slot) : list sess :=
  match n with
  | O => []
  | S k => (match ss (f k) with SActive => [(k, sinst (f k))] | _ => [] end) ++ active_sessions k f
  end.

(** a session instance has executed leave's first store (or is gone altogether) *)
Definition has_left (s : st) (x : sess) : bool :=
  let sl := slots s (fst x) in
  negb (Nat.eqb (sinst sl) (snd x)) ||
  match ss sl with SLeft1 | SFree => true | _ => false end.

Definition free_obj (s : st) (o : nat) : nat -> ostatus :=
  upd (ost s) o (match ost s o with Retired => Freed | _ => DoubleFreed end).

Definition next_container (n c : nat) : nat := if Nat.ltb (S c) (2 * n) then S c else 0%nat.

(** events: the labels of the transition system = what a hooked run reports *)
Inductive ev :=
| Claim (i : nat)                    (* CAS running_ false -> true on slot i *)
| RdE (i : nat)                      (* load of the epoch inside enter *)
| PubB (i : nat)                     (* store of the begin epoch *)
| Recheck (i : nat)                  (* repaired: second load of the epoch *)
| Confirm (i : nat)                  (* original: enter returns right after the store *)
| Retire (i k o : nat)               (* session of slot i pushes object o on its container of kind k *)
| Leave1 (i : nat) | Leave2 (i : nat)
| EStart | EVer | EIncr | EMinStep | EPublish
| GStart | GCacheStep | GLoopStep.

Definition step (repaired : bool) (n : nat) (s : st) (e : ev) : option st :=
  match e with
  | Claim i =>
    if negb (Nat.ltb i n) then None else
    match ss (slots s i) with
    | SFree => Some (set_slots s (upd (slots s) i
                 {| ss := SClaimed; sbegin := sbegin (slots s i); sinst := S (sinst (slots s i)) |}))
    | _ => None
    end
  | RdE i =>
    match ss (slots s i) with
    | SClaimed => Some (set_slots s (upd (slots s) i (set_ss (slots s i) (SRead (gE s)))))
    | _ => None
    end
  | PubB i =>
    match ss (slots s i) with
    | SRead e => Some (set_slots s (upd (slots s) i
                   {| ss := SPub e; sbegin := e; sinst := sinst (slots s i) |}))
    | _ => None
    end
  | Recheck i =>
    if negb repaired then None else
    match ss (slots s i) with
    | SPub e => Some (set_slots s (upd (slots s) i
                  (set_ss (slots s i) (if gE s =? e then SActive else SClaimed))))
    | _ => None
    end
  | Confirm i =>
    if repaired then None else
    match ss (slots s i) with
    | SPub e => Some (set_slots s (upd (slots s) i (set_ss (slots s i) SActive)))
    | _ => None
    end
  | Retire i k o =>
    match ss (slots s i), ost s o with
    | SActive, Linked =>
      if negb (Nat.ltb k 2) then None else
      let c := (2 * i + k)%nat in
      Some {| gE := gE s; gG := gG s; slots := slots s;
              queue := upd (queue s) c (queue s c ++ [(sbegin (slots s i), o)]);
              cache := cache s; ost := upd (ost s) o Retired;
              prot := upd (prot s) o (active_sessions n (slots s));
              ept := ept s; gct := gct s |}
    | _, _ => None
    end
  | Leave1 i =>
    match ss (slots s i) with
    | SActive => Some (set_slots s (upd (slots s) i
                   {| ss := SLeft1; sbegin := 0; sinst := sinst (slots s i) |}))
    | _ => None
    end
  | Leave2 i =>
    match ss (slots s i) with
    | SLeft1 => Some (set_slots s (upd (slots s) i (set_ss (slots s i) SFree)))
    | _ => None
    end
  | EStart =>
    match ept s with
    | ESleep => Some (set_ept s (EVerify (gE s) 0))
    | _ => None
    end
  | EVer =>
    match ept s with
    | EVerify cur j =>
      if Nat.eqb j n then Some (set_ept s EInc)
      else let b := sbegin (slots s j) in
           if negb (b =? 0) && negb (b =? cur) then Some (set_ept s ESleep)
           else Some (set_ept s (EVerify cur (S j)))
    | _ => None
    end
  | EIncr =>
    match ept s with
    | EInc => Some {| gE := gE s + 1; gG := gG s; slots := slots s; queue := queue s;
                      cache := cache s; ost := ost s; prot := prot s;
                      ept := EMin 0 None; gct := gct s |}
    | _ => None
    end
  | EMinStep =>
    match ept s with
    | EMin j m =>
      if Nat.eqb j n
      then Some (set_ept s (EPub (match m with Some x => x - 1 | None => gE s - 1 end)))
      else let b := sbegin (slots s j) in
           let m' := if b =? 0 then m
                     else Some (match m with Some x => N.min x b | None => b end) in
           Some (set_ept s (EMin (S j) m'))
    | _ => None
    end
  | EPublish =>
    match ept s with
    | EPub v => Some {| gE := gE s; gG := v; slots := slots s; queue := queue s;
                        cache := cache s; ost := ost s; prot := prot s;
                        ept := ESleep; gct := gct s |}
    | _ => None
    end
  | GStart =>
    match gct s with
    | GIdle c => Some (set_gct s (GCache c (gG s)))
    | _ => None
    end
  | GCacheStep =>
    match gct s with
    | GCache c g =>
      match cache s c with
      | None => Some (set_gct s (GLoop c g))
      | Some (tag, o) =>
        if g <=? tag then Some (set_gct s (GIdle (next_container n c)))
        else Some {| gE := gE s; gG := gG s; slots := slots s; queue := queue s;
                     cache := upd (cache s) c None; ost := free_obj s o; prot := prot s;
                     ept := ept s; gct := GLoop c g |}
      end
    | _ => None
    end
  | GLoopStep =>
    match gct s with
    | GLoop c g =>
      match queue s c with
      | [] => Some (set_gct s (GIdle (next_container n c)))
      | (tag, o) :: rest =>
        if g <=? tag
        then Some {| gE := gE s; gG := gG s; slots := slots s; queue := upd (queue s) c rest;
                     cache := upd (cache s) c (Some (tag, o)); ost := ost s; prot := prot s;
                     ept := ept s; gct := GIdle (next_container n c) |}
        else Some {| gE := gE s; gG := gG s; slots := slots s; queue := upd (queue s) c rest;
                     cache := cache s; ost := free_obj s o; prot := prot s;
                     ept := ept s; gct := GLoop c g |}
      end
    | _ => None
    end
  end.

Fixpoint run (repaired : bool) (n : nat) (s : st) (tr : list ev) : option st :=
  match tr with
  | [] => Some s
  | e :: r => match step repaired n s e with Some s' => run repaired n s' r | None => None end
  end.

(** the property: an object that has been freed is protected by no session
    that is still active *)
Definition safe_obj (s : st) (o : nat) : bool :=
  match ost s o with
  | Freed => forallb (has_left s) (prot s o)
  | DoubleFreed => false
  | _ => true
  end.
