(** * LinProofs: the executable checker [lin_check] of LinDefs.v is sound and
    complete w.r.t. the declarative definition of per-key linearizability.

    Soundness is unconditional.  Completeness needs the well-formedness
    hypothesis that every operation is invoked no later than it responds
    ([h_inv o <= h_res o]): [minimal o pending] quantifies over all of
    [pending] including [o] itself, so the search can only pick [o] when
    [precedes o o = false], and neither [respects_rt] nor [run_seq] forces
    that (see [wf_needed] below for the counterexample). *)
From Coq Require Import NArith List Bool PeanoNat Lia ZifyBool ZifyN Permutation.
From Yk Require Import LinDefs.
Import ListNotations.
Local Open Scope N_scope.

Definition linearizable (init : option N) (h : list hop) : Prop :=
  exists l, Permutation l h /\ respects_rt l = true /\ run_seq init l = true.

(** well-formed operation: invoked no later than it responded *)
Definition hop_wf (o : hop) : Prop := h_inv o <= h_res o.

(** ** Auxiliary facts *)

Lemma remove_nth_perm : forall i l o,
  nth_error l i = Some o -> Permutation (o :: remove_nth_hop i l) l.
Proof.
  induction i as [|i IH]; intros [|a r] o H; cbn in H; try discriminate.
  - injection H as ->. cbn. apply Permutation_refl.
  - cbn [remove_nth_hop].
    eapply perm_trans; [apply perm_swap|].
    apply perm_skip. apply IH. exact H.
Qed.

Lemma lin_search_nil : forall fuel st, lin_search fuel st [] = true.
Proof. intros [|f] st; reflexivity. Qed.

Lemma lin_search_S : forall f st pending,
  pending <> [] ->
  lin_search (S f) st pending =
  existsb (fun i =>
             match nth_error pending i with
             | None => false
             | Some o =>
               minimal o pending &&
               match apply_op st o with
               | Some st' => lin_search f st' (remove_nth_hop i pending)
               | None => false
               end
             end) (seq 0 (length pending)).
Proof. intros f st [|p ps] H; [congruence|reflexivity]. Qed.

Lemma lin_search_O : forall st pending,
  pending <> [] -> lin_search O st pending = false.
Proof. intros st [|p ps] H; [congruence|reflexivity]. Qed.

Lemma precedes_refl_false : forall o, hop_wf o -> precedes o o = false.
Proof. unfold hop_wf, precedes. intros o H. lia. Qed.

(** ** Soundness *)

Lemma lin_search_sound : forall fuel st pending,
  lin_search fuel st pending = true ->
  exists l, Permutation l pending /\ respects_rt l = true /\ run_seq st l = true.
Proof.
  induction fuel as [|f IH]; intros st pending H.
  - destruct pending as [|p ps].
    + exists []. repeat split; constructor.
    + rewrite lin_search_O in H by discriminate. discriminate.
  - destruct pending as [|p ps].
    + exists []. repeat split; constructor.
    + rewrite lin_search_S in H by discriminate.
      remember (p :: ps) as pending eqn:Epend. clear Epend p ps.
      apply existsb_exists in H. destruct H as [i [_ H]].
      destruct (nth_error pending i) as [o|] eqn:Hnth; [|discriminate].
      apply andb_true_iff in H. destruct H as [Hmin H].
      destruct (apply_op st o) as [st'|] eqn:Happ; [|discriminate].
      apply IH in H. destruct H as [l' [Hperm [Hrt Hrun]]].
      pose proof (remove_nth_perm _ _ _ Hnth) as Hrem.
      exists (o :: l'). split; [|split].
      * eapply perm_trans; [apply perm_skip; exact Hperm | exact Hrem].
      * cbn [respects_rt]. apply andb_true_iff. split; [|exact Hrt].
        apply forallb_forall. intros x Hx.
        unfold minimal in Hmin. rewrite forallb_forall in Hmin. apply Hmin.
        eapply Permutation_in; [exact Hrem|]. right.
        eapply Permutation_in; [exact Hperm|exact Hx].
      * cbn [run_seq]. rewrite Happ. exact Hrun.
Qed.

Theorem lin_check_sound : forall init h, lin_check init h = true -> linearizable init h.
Proof. intros init h H. apply lin_search_sound in H. exact H. Qed.

(** ** Completeness *)

Lemma lin_search_complete : forall l pending st fuel,
  Permutation l pending ->
  Forall hop_wf l ->
  respects_rt l = true ->
  run_seq st l = true ->
  (length pending <= fuel)%nat ->
  lin_search fuel st pending = true.
Proof.
  induction l as [|o r IH]; intros pending st fuel Hperm Hwf Hrt Hrun Hfuel.
  - apply Permutation_nil in Hperm. subst pending. apply lin_search_nil.
  - assert (Hin : In o pending).
    { eapply Permutation_in; [exact Hperm|]. left. reflexivity. }
    apply In_nth_error in Hin. destruct Hin as [i Hnth].
    pose proof (remove_nth_perm _ _ _ Hnth) as Hrem.
    assert (Hne : pending <> []).
    { intros ->. destruct i; discriminate. }
    assert (Hlen : length pending = S (length (remove_nth_hop i pending))).
    { apply Permutation_length in Hrem. cbn [length] in Hrem. symmetry. exact Hrem. }
    destruct fuel as [|f]; [rewrite Hlen in Hfuel; inversion Hfuel|].
    rewrite lin_search_S by exact Hne.
    apply existsb_exists. exists i. split.
    + apply in_seq. split; [apply Nat.le_0_l|].
      cbn [plus]. apply nth_error_Some. rewrite Hnth. discriminate.
    + rewrite Hnth.
      cbn [respects_rt] in Hrt. apply andb_true_iff in Hrt. destruct Hrt as [Hhd Hrt].
      cbn [run_seq] in Hrun.
      destruct (apply_op st o) as [st'|] eqn:Happ; [|discriminate].
      inversion Hwf as [|? ? Hwo Hwr]; subst.
      apply andb_true_iff. split.
      * unfold minimal. apply forallb_forall. intros x Hx.
        assert (Hx' : In x (o :: r)).
        { eapply Permutation_in; [apply Permutation_sym; exact Hperm|exact Hx]. }
        destruct Hx' as [<-|Hx'].
        -- rewrite precedes_refl_false by exact Hwo. reflexivity.
        -- rewrite forallb_forall in Hhd. apply Hhd. exact Hx'.
      * apply IH; try assumption.
        -- eapply Permutation_cons_inv with (a := o).
           eapply perm_trans; [exact Hperm|apply Permutation_sym; exact Hrem].
        -- rewrite Hlen in Hfuel. apply le_S_n. exact Hfuel.
Qed.

Theorem lin_check_complete : forall init h,
  Forall (fun o => h_inv o <= h_res o) h ->
  linearizable init h -> lin_check init h = true.
Proof.
  intros init h Hwf [l [Hperm [Hrt Hrun]]].
  unfold lin_check.
  apply lin_search_complete with (l := l); try assumption.
  - rewrite Forall_forall in *. intros x Hx. apply Hwf.
    eapply Permutation_in; [exact Hperm|exact Hx].
  - apply le_n.
Qed.

Corollary lin_check_iff : forall init h,
  Forall (fun o => h_inv o <= h_res o) h ->
  (lin_check init h = true <-> linearizable init h).
Proof.
  intros init h Hwf. split.
  - apply lin_check_sound.
  - apply lin_check_complete. exact Hwf.
Qed.

(** ** The well-formedness hypothesis is necessary *)

(** an ill-formed operation (response before invocation) is declaratively
    linearizable but never chosen by the search, since it precedes itself *)
Example wf_needed :
  let o := {| h_inv := 2; h_res := 1; h_kind := KPut 7; h_out := RsOK |} in
  linearizable None [o] /\ lin_check None [o] = false.
Proof.
  cbn zeta. split.
  - eexists. split; [apply Permutation_refl|]. split; vm_compute; reflexivity.
  - vm_compute. reflexivity.
Qed.

(** ** Non-vacuity *)

(** put(1) over [1,4] overlaps a get over [2,3] that already sees 1; then a
    remove over [5,6] and a get over [7,8] that sees nothing.  Listed in an
    order that is not itself a linearization. *)
Definition ex_good : list hop :=
  [ {| h_inv := 7; h_res := 8; h_kind := KGet;   h_out := RsNotExist |};
    {| h_inv := 2; h_res := 3; h_kind := KGet;   h_out := RsVal 1 |};
    {| h_inv := 5; h_res := 6; h_kind := KRem;   h_out := RsOK |};
    {| h_inv := 1; h_res := 4; h_kind := KPut 1; h_out := RsOK |} ].

(** put(1) over [1,2], remove over [3,4], and then a get invoked at 5 (strictly
    after the remove responded) that still returns 1. *)
Definition ex_bad : list hop :=
  [ {| h_inv := 1; h_res := 2; h_kind := KPut 1; h_out := RsOK |};
    {| h_inv := 3; h_res := 4; h_kind := KRem;   h_out := RsOK |};
    {| h_inv := 5; h_res := 6; h_kind := KGet;   h_out := RsVal 1 |};
    {| h_inv := 7; h_res := 8; h_kind := KGet;   h_out := RsNotExist |} ].

Lemma ex_good_wf : Forall (fun o => h_inv o <= h_res o) ex_good.
Proof. repeat constructor; cbn; lia. Qed.

Lemma ex_bad_wf : Forall (fun o => h_inv o <= h_res o) ex_bad.
Proof. repeat constructor; cbn; lia. Qed.

Example ex_good_check : lin_check None ex_good = true.
Proof. vm_compute. reflexivity. Qed.

Example ex_bad_check : lin_check None ex_bad = false.
Proof. vm_compute. reflexivity. Qed.

Example ex_good_linearizable : linearizable None ex_good.
Proof. apply lin_check_sound. exact ex_good_check. Qed.

Example ex_bad_not_linearizable : ~ linearizable None ex_bad.
Proof.
  intros H. apply (lin_check_complete _ _ ex_bad_wf) in H.
  rewrite ex_bad_check in H. discriminate.
Qed.

Print Assumptions lin_check_sound.
Print Assumptions lin_check_complete.
Print Assumptions lin_check_iff.
