(** * BorderUniqueProofs: "exactly one winner" for racing unique inserts, resp.
    racing removes, of ONE key on the border node of BorderDefs.v (what
    property C13 needs for concurrent create_storage / delete_storage of one
    name: they are a unique insert, resp. a remove, of the name in the
    directory tree).

    The trace is replayed ([bhist]) to collect the completed operations
    (thread, operation, result) in return order -- no ghost state involved.

    - (U) from a state where [k] is unbound and no operation on [k] is in
      flight (e.g. [binit]), if only unique inserts and gets of [k] are invoked:
      at most one unique insert of [k] ever returns [ROk]; [k] is bound iff
      exactly one unique insert of [k] has returned [ROk] or is between its
      linearization step and its return (never both, never two); as soon as one
      unique insert of [k] has completed -- with whatever result -- [k] is
      bound; the binding is the winner's value; a unique insert that reports
      [RUnique] does so while another one is the winner.
    - (R) the mirror image for removes from a state where [k] is bound.

    All interleavings, any number of threads, any number of operations per
    thread.  Built on the invariant [Inv] of BorderProofs.v. *)
From Coq Require Import NArith List Bool PeanoNat Lia ZifyBool ZifyN.
From Yk Require Import ListAux BorderDefs BorderProofs.
Import ListNotations.
Local Open Scope N_scope.

(** ** The history of a trace: completed operations in return order *)

Definition hist_entry : Type := (nat * bop * bres)%type.

Definition ret_of (s : bstate) (e : bev) : list hist_entry :=
  match e with
  | BReturn t => match t_op (b_thr s t), t_pc (b_thr s t) with
                 | Some o, PDone r => [(t, o, r)]
                 | _, _ => []
                 end
  | _ => []
  end.

Fixpoint bhist (s : bstate) (tr : list bev) : list hist_entry :=
  match tr with
  | [] => []
  | e :: tr' => match bstep true s e with
                | Some s' => ret_of s e ++ bhist s' tr'
                | None => []
                end
  end.

Definition count_if {A} (f : A -> bool) (l : list A) : nat := length (filter f l).

Lemma count_if_app {A} (f : A -> bool) l1 l2 :
  count_if f (l1 ++ l2) = (count_if f l1 + count_if f l2)%nat.
Proof. unfold count_if. rewrite filter_app, app_length. reflexivity. Qed.

Definition uput_ok (k : N) (x : hist_entry) : bool :=
  match x with (_, OpUput k' _, ROk) => k' =? k | _ => false end.
Definition rem_ok (k : N) (x : hist_entry) : bool :=
  match x with (_, OpRem k', ROk) => k' =? k | _ => false end.

(** number of unique inserts / removes of [k] that returned [ROk] in [tr] run from [s0] *)
Definition uput_ok_returns (k : N) (s0 : bstate) (tr : list bev) : nat := count_if (uput_ok k) (bhist s0 tr).
Definition rem_ok_returns (k : N) (s0 : bstate) (tr : list bev) : nat := count_if (rem_ok k) (bhist s0 tr).

(** a predicate on (state, history so far) that every event preserves holds at the end of a run *)
Lemma run_inv (J : bstate -> list hist_entry -> Prop) (okev : bev -> Prop) :
  (forall s h e s', Inv s -> J s h -> okev e -> bstep true s e = Some s' -> J s' (h ++ ret_of s e)) ->
  forall tr s h s', Inv s -> J s h -> (forall e, In e tr -> okev e) -> brun true s tr = Some s' ->
                    J s' (h ++ bhist s tr).
Proof.
  intros Hstep. induction tr as [|e tr IH]; intros s h s' HI HJ Hev; cbn [brun bhist].
  - intros H; injection H as <-. rewrite app_nil_r. exact HJ.
  - destruct (bstep true s e) as [s1|] eqn:E; [|discriminate].
    intros Hrun. rewrite app_assoc. apply IH; auto.
    + eapply inv_step; eauto.
    + apply (Hstep s h e s1); auto. apply Hev. cbn; auto.
    + intros e' He'. apply Hev. cbn; auto.
Qed.

(** ** Facts from [Inv] *)

Lemma inv_op_of_pc s t : Inv s -> t_pc (b_thr s t) <> PIdle -> exists o, t_op (b_thr s t) = Some o.
Proof.
  intros HI Hne. pose proof (I_thr s HI t) as H. unfold TIs, TI in H.
  destruct (t_op (b_thr s t)) as [o|]; [eauto|congruence].
Qed.

Lemma inv_storeperm_unbound s t o sl r :
  Inv s -> t_op (b_thr s t) = Some o -> t_pc (b_thr s t) = PStorePerm sl r -> bm s (op_key o) = None.
Proof.
  intros HI Ho Hpc. destruct (inv_thr_facts s t o HI Ho) as (_ & _ & HP). rewrite Hpc in HP. cbn [TP] in HP.
  destruct HP as (_ & Hpos & _). destruct (I_rep s HI (op_key o)) as [_ R2]. apply R2.
  eapply insert_pos_absent; eauto.
Qed.

Lemma inv_clear_bound s t o sl rk :
  Inv s -> t_op (b_thr s t) = Some o -> t_pc (b_thr s t) = PClear sl rk ->
  is_rem o /\ bm s (op_key o) <> None.
Proof.
  intros HI Ho Hpc. destruct (inv_thr_facts s t o HI Ho) as (_ & _ & HP). rewrite Hpc in HP. cbn [TP] in HP.
  destruct HP as (Hrem & Hrk & Hn & Hk). split; [exact Hrem|].
  destruct (holder_view s t _ HI Hpc eq_refl) as (_ & _ & V3 & _).
  assert (Hsl : In sl (b_perm s)) by (rewrite <- Hn; apply nth_In; exact Hrk).
  assert (Hz : b_lvs s sl <> 0) by (intros Hz; apply (V3 sl Hsl Hz)).
  destruct (I_rep s HI (op_key o)) as [R1 _]. rewrite (R1 sl Hsl Hk).
  destruct (N.eqb_spec (b_lvs s sl) 0); [contradiction|discriminate].
Qed.

Lemma inv_shrink_rem s t o rk :
  Inv s -> t_op (b_thr s t) = Some o -> t_pc (b_thr s t) = PShrink rk -> is_rem o.
Proof.
  intros HI Ho Hpc. destruct (inv_thr_facts s t o HI Ho) as (_ & _ & HP). rewrite Hpc in HP. cbn [TP] in HP.
  apply HP.
Qed.

Lemma inv_done_res s t o r :
  Inv s -> t_op (b_thr s t) = Some o -> t_pc (b_thr s t) = PDone r -> res_ok o (t_seen (b_thr s t)) r.
Proof.
  intros HI Ho Hpc. destruct (inv_thr_facts s t o HI Ho) as (_ & _ & HP). rewrite Hpc in HP. exact HP.
Qed.

(** ** What one event does to the threads, the map and the ghost lists *)

Definition ev_thread (e : bev) : nat := match e with BInvoke t _ | BStep t | BReturn t => t end.

Lemma step_other s e s' t' :
  bstep true s e = Some s' -> t' <> ev_thread e ->
  t_op (b_thr s' t') = t_op (b_thr s t') /\ t_pc (b_thr s' t') = t_pc (b_thr s t').
Proof.
  intros H Hne. destruct e as [t o|t|t]; cbn [ev_thread] in Hne; cbn [bstep] in H.
  - destruct (t_pc (b_thr s t)); try discriminate H.
    destruct (match o with OpPut _ v | OpUput _ v => negb (v =? 0) | _ => true end); try discriminate H.
    injection H as <-. cbn [b_thr]. rewrite updf_other by exact Hne. auto.
  - repeat match type of H with
           | context [match ?x with _ => _ end] => destruct x; try discriminate H
           end;
      injection H as <-; cbn [set_pc b_thr]; rewrite ?updf_other by exact Hne;
      rewrite ?nb_op, ?nb_pc; auto.
  - destruct (t_pc (b_thr s t)); try discriminate H.
    injection H as <-. cbn [b_thr]. rewrite updf_other by exact Hne. auto.
Qed.

Lemma invoke_inv s t o s' :
  bstep true s (BInvoke t o) = Some s' ->
  t_pc (b_thr s t) = PIdle /\ bm s' = bm s /\
  b_thr s' t = {| t_op := Some o; t_pc := PStable0; t_seen := [bm s (op_key o)] |}.
Proof.
  cbn [bstep]. destruct (t_pc (b_thr s t)); try discriminate.
  destruct (match o with OpPut _ v | OpUput _ v => negb (v =? 0) | _ => true end); try discriminate.
  intros H; injection H as <-. cbn [b_thr bm]. rewrite updf_same. auto.
Qed.

Lemma return_inv s t s' :
  bstep true s (BReturn t) = Some s' ->
  (exists r, t_pc (b_thr s t) = PDone r) /\ bm s' = bm s /\ b_thr s' t = idle_thread.
Proof.
  cbn [bstep]. destruct (t_pc (b_thr s t)); try discriminate.
  intros H; injection H as <-. cbn [b_thr bm]. rewrite updf_same. eauto.
Qed.

(** the binding change made by the next step of a thread at [p] running [o] *)
Definition lin_of (o : bop) (p : bpc) : option (option N) :=
  match p with
  | PStorePerm _ _ => match o with OpPut _ v | OpUput _ v => Some (Some v) | _ => None end
  | POverwrite _ => match o with OpPut _ v => Some (Some v) | _ => None end
  | PClear _ _ => Some None
  | _ => None
  end.

Definition is_ins_op (o : bop) : bool := match o with OpPut _ _ | OpUput _ _ => true | _ => false end.
Definition is_put_op (o : bop) : bool := match o with OpPut _ _ => true | _ => false end.
Definition bres_eqb (a b : bres) : bool :=
  match a, b with
  | ROk, ROk | RNotExist, RNotExist | RNotFound, RNotFound | RUnique, RUnique => true
  | ROkVal v, ROkVal w => v =? w
  | _, _ => false
  end.

Lemma bres_eqb_refl r : bres_eqb r r = true.
Proof. destruct r; cbn; auto. apply N.eqb_refl. Qed.

Lemma bres_eqb_eq a b : bres_eqb a b = true -> a = b.
Proof. destruct a, b; cbn; try discriminate; auto. intros H. apply N.eqb_eq in H. congruence. Qed.

(** the control-flow facts used below: how the "decided" program counters are entered and left *)
Definition pc_ok (o : bop) (p p' : bpc) : bool :=
  match p with
  | PIdle | PDone _ => false
  | PStorePerm _ _ => match p' with PUnlockIns => is_ins_op o | _ => false end
  | PUnlockIns => match p' with PDone ROk => true | _ => false end
  | PUnlockPlain r => match p' with PDone r' => bres_eqb r r' | _ => false end
  | PClear _ _ => match p' with PShrink _ => true | _ => false end
  | PShrink _ => match p' with PUnlockPlain ROk => true | _ => false end
  | POverwrite _ => match p' with PUnlockPlain ROk => is_put_op o | _ => false end
  | _ => match p' with PUnlockIns | PDone ROk | PUnlockPlain ROk | PShrink _ => false | _ => true end
  end.

Lemma set_pc_op s t' p t : t_op (b_thr (set_pc s t' p) t) = t_op (b_thr s t).
Proof. cbn [set_pc b_thr]. unfold updf. destruct (Nat.eqb_spec t t') as [->|]; reflexivity. Qed.

Lemma step_self s t s' o :
  bstep true s (BStep t) = Some s' -> t_op (b_thr s t) = Some o ->
  t_op (b_thr s' t) = Some o /\
  pc_ok o (t_pc (b_thr s t)) (t_pc (b_thr s' t)) = true /\
  bm s' = match lin_of o (t_pc (b_thr s t)) with
          | Some x => updm (bm s) (op_key o) x
          | None => bm s
          end.
Proof.
  intros H Ho. cbn [bstep] in H. rewrite Ho in H.
  destruct (t_pc (b_thr s t)) eqn:Hpc; try discriminate H;
    repeat match type of H with
           | context [match ?x with _ => _ end] => destruct x; try discriminate H
           end;
    injection H as <-; rewrite ?set_pc_op; cbn [set_pc b_thr bm t_op]; rewrite ?nb_op, ?updf_same;
    cbn [t_pc]; rewrite ?Hpc; cbn [pc_ok lin_of is_ins_op is_put_op op_key]; rewrite ?bres_eqb_refl; auto.
Qed.

Lemma nb_seen_cases thr m k x t o y :
  t_op (thr t) = Some o -> In y (t_seen (note_binding thr k x t)) ->
  y = updm m k x (op_key o) \/ In y (t_seen (thr t)).
Proof.
  intros Ho. unfold note_binding, updm. rewrite Ho.
  destruct (op_key o =? k); cbn [t_seen In]; intuition congruence.
Qed.

(** an entry of a ghost list is the current binding or was there before the event *)
Lemma step_seen s e s' t' o' y :
  bstep true s e = Some s' -> t_op (b_thr s' t') = Some o' -> In y (t_seen (b_thr s' t')) ->
  y = bm s' (op_key o') \/ (t_op (b_thr s t') = Some o' /\ In y (t_seen (b_thr s t'))).
Proof.
  intros H. destruct e as [t o|t|t].
  - destruct (invoke_inv _ _ _ _ H) as (_ & Em & Et).
    destruct (Nat.eq_dec t' t) as [->|Hne].
    + rewrite Et. cbn [t_op t_seen In]. rewrite Em. intros E [<-|[]]. left. congruence.
    + destruct (step_other _ _ _ t' H Hne) as [Eo _]. revert Eo.
      cbn [bstep] in H. destruct (t_pc (b_thr s t)); try discriminate H.
      destruct (match o with OpPut _ v | OpUput _ v => negb (v =? 0) | _ => true end); try discriminate H.
      injection H as <-. cbn [b_thr]. rewrite updf_other by exact Hne. auto.
  - cbn [bstep] in H.
    repeat match type of H with
           | context [match ?x with _ => _ end] => destruct x; try discriminate H
           end;
      injection H as <-; rewrite ?set_pc_op, ?set_pc_seen; cbn [b_thr bm set_pc op_key]; auto;
      rewrite nb_op; intros Ho' Hin;
      destruct (nb_seen_cases _ (bm s) _ _ _ _ _ Ho' Hin); auto.
  - destruct (return_inv _ _ _ H) as (_ & Em & Et).
    destruct (Nat.eq_dec t' t) as [->|Hne].
    + rewrite Et. cbn. discriminate.
    + cbn [bstep] in H. destruct (t_pc (b_thr s t)); try discriminate H.
      injection H as <-. cbn [b_thr]. rewrite updf_other by exact Hne. auto.
Qed.

(** consequences of [pc_ok] *)
Definition uwon (p : bpc) : bool := match p with PUnlockIns | PDone ROk => true | _ => false end.
Definition rwon (p : bpc) : bool :=
  match p with PShrink _ | PUnlockPlain ROk | PDone ROk => true | _ => false end.

Lemma pc_ok_uwon o p p' :
  pc_ok o p p' = true -> uwon p' = true ->
  uwon p = true \/ (exists sl r, p = PStorePerm sl r) \/ p = PUnlockPlain ROk.
Proof.
  destruct p' as [| | | | | | | | | | | | | | | | | | | | |r']; cbn [uwon]; try discriminate.
  - destruct p; cbn [pc_ok]; try discriminate; eauto.
  - destruct r'; try discriminate. destruct p; cbn [pc_ok uwon]; try discriminate; auto.
    destruct r; cbn; try discriminate; auto.
Qed.

Lemma pc_ok_uwon_keep o p p' : pc_ok o p p' = true -> uwon p = true -> uwon p' = true.
Proof.
  destruct p; cbn [uwon pc_ok]; try discriminate.
  destruct p'; try discriminate. destruct r; try discriminate. auto.
Qed.

Lemma pc_ok_storeperm o sl r p' : pc_ok o (PStorePerm sl r) p' = true -> p' = PUnlockIns.
Proof. destruct p'; cbn [pc_ok]; try discriminate; auto. Qed.

Lemma pc_ok_plain_ok o p p' :
  pc_ok o p p' = true -> p' = PUnlockPlain ROk -> is_put_op o = true \/ exists rk, p = PShrink rk.
Proof. intros H ->. destruct p; cbn [pc_ok] in H; try discriminate; eauto. Qed.

Lemma pc_ok_unlockins o p p' : pc_ok o p p' = true -> p' = PUnlockIns -> is_ins_op o = true.
Proof. intros H ->. destruct p; cbn [pc_ok] in H; try discriminate; auto. Qed.

Lemma pc_ok_rwon o p p' :
  pc_ok o p p' = true -> rwon p' = true ->
  rwon p = true \/ (exists sl rk, p = PClear sl rk) \/ p = PUnlockIns \/ is_put_op o = true.
Proof.
  destruct p' as [| | | | | | | | | | | | | | | | | | |rk'|r'|r']; cbn [rwon]; try discriminate.
  - destruct p; cbn [pc_ok]; try discriminate; eauto.
  - destruct r'; try discriminate. destruct p; cbn [pc_ok rwon]; try discriminate; auto.
  - destruct r'; try discriminate. destruct p; cbn [pc_ok rwon]; try discriminate; auto.
Qed.

Lemma pc_ok_rwon_keep o p p' : pc_ok o p p' = true -> rwon p = true -> rwon p' = true.
Proof.
  destruct p; cbn [rwon pc_ok]; try discriminate.
  - destruct p' as [| | | | | | | | | | | | | | | | | | | |r'|]; try discriminate.
    destruct r'; try discriminate. auto.
  - destruct r; try discriminate. destruct p' as [| | | | | | | | | | | | | | | | | | | | |r'];
      try discriminate. destruct r'; try discriminate. auto.
Qed.

Lemma pc_ok_clear o sl rk p' : pc_ok o (PClear sl rk) p' = true -> exists rk', p' = PShrink rk'.
Proof. destruct p'; cbn [pc_ok]; try discriminate; eauto. Qed.

(** ** The counting core: a flag, a counter of past winners, a set of current winners *)

Definition Core (b : bool) (n : nat) (W : nat -> Prop) : Prop :=
  (b = false -> n = 0%nat /\ forall t, ~ W t) /\
  (b = true -> (n = 1%nat /\ forall t, ~ W t) \/
               (n = 0%nat /\ exists t, W t /\ forall t', W t' -> t' = t)).

Lemma core_same b n W W' : Core b n W -> (forall t, W' t <-> W t) -> Core b n W'.
Proof.
  intros [C1 C2] E. split.
  - intros Hb. destruct (C1 Hb) as [Hn Hw]. split; [exact Hn|]. intros t Ht. apply (Hw t), E, Ht.
  - intros Hb. destruct (C2 Hb) as [[Hn Hw]|[Hn (t & Ht & Hu)]].
    + left. split; [exact Hn|]. intros t Ht. apply (Hw t), E, Ht.
    + right. split; [exact Hn|]. exists t. split; [apply E, Ht|]. intros t' Ht'. apply Hu, E, Ht'.
Qed.

Lemma core_lin n W W' t : Core false n W -> (forall t', W' t' <-> W t' \/ t' = t) -> Core true n W'.
Proof.
  intros [C1 _] E. destruct (C1 eq_refl) as [Hn Hw]. split; [discriminate|]. intros _. right.
  split; [exact Hn|]. exists t. split; [apply E; auto|].
  intros t' Ht'. apply E in Ht' as [Ht'|Ht']; [exfalso; apply (Hw t' Ht')|exact Ht'].
Qed.

Lemma core_ret b n W W' t :
  Core b n W -> W t -> (forall t', W' t' <-> W t' /\ t' <> t) -> Core b (S n) W'.
Proof.
  intros [C1 C2] Ht E. destruct b.
  - split; [discriminate|]. intros _.
    destruct (C2 eq_refl) as [[Hn Hw]|[Hn (t0 & Ht0 & Hu)]]; [exfalso; apply (Hw t Ht)|].
    left. split; [lia|]. intros t' Ht'. apply E in Ht' as [Ht' Hne]. apply Hne.
    rewrite (Hu t Ht). apply Hu. exact Ht'.
  - exfalso. destruct (C1 eq_refl) as [_ Hw]. apply (Hw t Ht).
Qed.

Lemma core_le1 b n W : Core b n W -> (n <= 1)%nat.
Proof. intros [C1 C2]. destruct b; [destruct (C2 eq_refl) as [[? _]|[? _]]|destruct (C1 eq_refl)]; lia. Qed.

Lemma core_unique b n W t1 t2 : Core b n W -> W t1 -> W t2 -> t1 = t2.
Proof.
  intros [C1 C2] H1 H2. destruct b.
  - destruct (C2 eq_refl) as [[_ Hw]|[_ (t & _ & Hu)]]; [exfalso; apply (Hw t1 H1)|].
    rewrite (Hu t1 H1), (Hu t2 H2). reflexivity.
  - destruct (C1 eq_refl) as [_ Hw]. exfalso. apply (Hw t1 H1).
Qed.

Lemma core_winner_zero b n W t : Core b n W -> W t -> n = 0%nat /\ b = true.
Proof.
  intros [C1 C2] H. destruct b.
  - destruct (C2 eq_refl) as [[_ Hw]|[Hn _]]; [exfalso; apply (Hw t H)|auto].
  - destruct (C1 eq_refl) as [_ Hw]. exfalso. apply (Hw t H).
Qed.

Lemma core_flag b n W : Core b n W -> (b = true <-> n = 1%nat \/ exists t, W t).
Proof.
  intros [C1 C2]. split.
  - intros Hb. destruct (C2 Hb) as [[Hn _]|[_ (t & Ht & _)]]; eauto.
  - intros H. destruct b; [reflexivity|]. destruct (C1 eq_refl) as [Hn Hw].
    destruct H as [H|[t Ht]]; [lia|exfalso; apply (Hw t Ht)].
Qed.

(** ** (U) racing unique inserts of one key *)

Definition ug (o : bop) : Prop := match o with OpUput _ _ | OpGet _ => True | _ => False end.
Definition rg (o : bop) : Prop := match o with OpRem _ | OpGet _ => True | _ => False end.

Definition bound (s : bstate) (k : N) : bool := match bm s k with Some _ => true | None => false end.

Lemma bound_eq s s' k : bm s' k = bm s k -> bound s' k = bound s k.
Proof. unfold bound. intros ->. reflexivity. Qed.

Lemma bound_true s k : bound s k = true <-> bm s k <> None.
Proof. unfold bound. destruct (bm s k); split; congruence. Qed.

Lemma bound_false s k : bound s k = false <-> bm s k = None.
Proof. unfold bound. destruct (bm s k); split; congruence. Qed.

(** a unique insert of [k] between its linearization step and its return *)
Definition uwinner (k : N) (s : bstate) (t : nat) : Prop :=
  exists v, t_op (b_thr s t) = Some (OpUput k v) /\ uwon (t_pc (b_thr s t)) = true.

Record JU (k : N) (s : bstate) (h : list hist_entry) : Prop := {
  U_only : forall t o, t_op (b_thr s t) = Some o -> op_key o = k -> ug o;
  U_noplain : forall t v, t_op (b_thr s t) = Some (OpUput k v) -> t_pc (b_thr s t) <> PUnlockPlain ROk;
  U_seen : forall t o w, t_op (b_thr s t) = Some o -> op_key o = k ->
                         In (Some w) (t_seen (b_thr s t)) -> bound s k = true;
  U_hist : forall t v r, In (t, OpUput k v, r) h -> bound s k = true /\ (r = ROk \/ r = RUnique);
  U_val_h : forall t v, In (t, OpUput k v, ROk) h -> bm s k = Some v;
  U_val_w : forall t v, t_op (b_thr s t) = Some (OpUput k v) -> uwon (t_pc (b_thr s t)) = true ->
                        bm s k = Some v;
  U_core : Core (bound s k) (count_if (uput_ok k) h) (uwinner k s)
}.

(** the step of thread at [p] running [o] is the linearization step of a unique insert of [k] *)
Definition ulin (k : N) (o : bop) (p : bpc) : bool :=
  match o, p with OpUput k' _, PStorePerm _ _ => k' =? k | _, _ => false end.

Lemma ulin_true k o p : ulin k o p = true -> exists v sl r, o = OpUput k v /\ p = PStorePerm sl r.
Proof.
  destruct o as [|? ?|k0 v0|]; cbn [ulin]; try discriminate.
  destruct p; try discriminate. intros E. apply N.eqb_eq in E. subst. eauto.
Qed.

Lemma ulin_false_bm k s t o :
  Inv s -> t_op (b_thr s t) = Some o -> (op_key o = k -> ug o) ->
  ulin k o (t_pc (b_thr s t)) = false ->
  match lin_of o (t_pc (b_thr s t)) with
  | Some x => updm (bm s) (op_key o) x
  | None => bm s
  end k = bm s k.
Proof.
  intros HI Ho Hug Hl. destruct (N.eq_dec (op_key o) k) as [E|E].
  - specialize (Hug E). destruct (t_pc (b_thr s t)) eqn:Hpc; cbn [lin_of]; try reflexivity.
    + destruct o as [|? ?|k0 v0|]; cbn [ug] in Hug; try contradiction; try reflexivity.
      cbn [ulin op_key] in *. apply N.eqb_neq in Hl. contradiction.
    + destruct o; cbn [ug] in Hug; try contradiction; reflexivity.
    + destruct (inv_clear_bound s t o _ _ HI Ho Hpc) as [Hr _].
      destruct o; cbn [ug is_rem] in *; contradiction.
  - destruct (lin_of o (t_pc (b_thr s t))); [apply updm_other; congruence|reflexivity].
Qed.

(** ghost lists: once bound stays bound is all that is needed *)
Lemma seen_step_bound k s e s' :
  bstep true s e = Some s' ->
  (bound s k = true -> bound s' k = true) ->
  (forall t o w, t_op (b_thr s t) = Some o -> op_key o = k ->
                 In (Some w) (t_seen (b_thr s t)) -> bound s k = true) ->
  forall t o w, t_op (b_thr s' t) = Some o -> op_key o = k ->
                In (Some w) (t_seen (b_thr s' t)) -> bound s' k = true.
Proof.
  intros H Hmono Hold t o w Ho Hk Hin.
  destruct (step_seen _ _ _ _ _ _ H Ho Hin) as [E|[Ho1 Hin1]].
  - rewrite Hk in E. unfold bound. rewrite <- E. reflexivity.
  - apply Hmono. eapply Hold; eauto.
Qed.

Lemma JU_step k s h e s' :
  Inv s -> JU k s h -> (forall t o, e = BInvoke t o -> op_key o = k -> ug o) ->
  bstep true s e = Some s' -> JU k s' (h ++ ret_of s e).
Proof.
  intros HI HJ Hev H.
  assert (Eo : forall t', t' <> ev_thread e ->
            t_op (b_thr s' t') = t_op (b_thr s t') /\ t_pc (b_thr s' t') = t_pc (b_thr s t')).
  { intros t' Hne. apply (step_other _ _ _ t' H Hne). }
  destruct e as [t o|t|t]; cbn [ev_thread] in Eo.
  - (* invoke *)
    destruct (invoke_inv _ _ _ _ H) as (Hidle & Em & Et).
    assert (Eb : bound s' k = bound s k) by (apply bound_eq; rewrite Em; reflexivity).
    cbn [ret_of]. rewrite app_nil_r. constructor.
    + intros t' o'. destruct (Nat.eq_dec t' t) as [->|Hne].
      * rewrite Et. cbn [t_op]. intros E; injection E as <-. apply (Hev t o eq_refl).
      * destruct (Eo t' Hne) as [-> _]. apply (U_only k s h HJ).
    + intros t' v. destruct (Nat.eq_dec t' t) as [->|Hne].
      * rewrite Et. cbn. discriminate.
      * destruct (Eo t' Hne) as [-> ->]. apply (U_noplain k s h HJ).
    + apply (seen_step_bound k s _ s' H); [rewrite Eb; auto|apply (U_seen k s h HJ)].
    + intros t' v r Hin. rewrite Eb. apply (U_hist k s h HJ _ _ _ Hin).
    + intros t' v Hin. rewrite Em. apply (U_val_h k s h HJ _ _ Hin).
    + intros t' v. destruct (Nat.eq_dec t' t) as [->|Hne].
      * rewrite Et. cbn. discriminate.
      * destruct (Eo t' Hne) as [-> ->]. rewrite Em. apply (U_val_w k s h HJ).
    + rewrite Eb. eapply core_same; [apply (U_core k s h HJ)|].
      intros t'. unfold uwinner. destruct (Nat.eq_dec t' t) as [->|Hne].
      * rewrite Et, Hidle. cbn. split; intros (v & _ & E); discriminate.
      * destruct (Eo t' Hne) as [-> ->]. reflexivity.
  - (* step *)
    destruct (t_op (b_thr s t)) as [o|] eqn:Ho; [|cbn [bstep] in H; rewrite Ho in H; discriminate].
    destruct (step_self _ _ _ _ H Ho) as (Ho' & Hok & Hbm).
    assert (Eop : forall t', t_op (b_thr s' t') = t_op (b_thr s t')).
    { intros t'. destruct (Nat.eq_dec t' t) as [->|Hne]; [congruence|apply (Eo t' Hne)]. }
    cbn [ret_of]. rewrite app_nil_r.
    destruct (ulin k o (t_pc (b_thr s t))) eqn:Hl.
    + (* the linearization step of a unique insert of k *)
      apply ulin_true in Hl as (v & sl & r & -> & Hpc).
      pose proof (inv_storeperm_unbound s t _ sl r HI Ho Hpc) as Hnone. cbn [op_key] in Hnone.
      rewrite Hpc in Hok, Hbm. apply pc_ok_storeperm in Hok. cbn [lin_of op_key] in Hbm.
      assert (Hsome : bm s' k = Some v) by (rewrite Hbm; apply updm_same).
      assert (Hb : bound s k = false) by (apply bound_false; exact Hnone).
      assert (Hb' : bound s' k = true) by (apply bound_true; congruence).
      pose proof (U_core k s h HJ) as HC. rewrite Hb in HC.
      destruct HC as [HC _]. destruct (HC eq_refl) as [Hn Hnow].
      assert (Hw : forall t', uwinner k s' t' <-> uwinner k s t' \/ t' = t).
      { intros t'. destruct (Nat.eq_dec t' t) as [->|Hne].
        - split; [auto|]. intros _. exists v. rewrite Ho', Hok. auto.
        - unfold uwinner. destruct (Eo t' Hne) as [-> ->]. intuition. }
      constructor.
      * intros t' o'. rewrite Eop. apply (U_only k s h HJ).
      * intros t' v'. destruct (Nat.eq_dec t' t) as [->|Hne].
        -- rewrite Hok. discriminate.
        -- destruct (Eo t' Hne) as [-> ->]. apply (U_noplain k s h HJ).
      * intros; exact Hb'.
      * intros t' v' r' Hin. split; [exact Hb'|]. apply (U_hist k s h HJ _ _ _ Hin).
      * intros t' v' Hin. pose proof (U_val_h k s h HJ _ _ Hin). congruence.
      * intros t' v' Ho1 Hw1. assert (Hx : uwinner k s' t') by (exists v'; auto).
        apply Hw in Hx as [Hx| ->]; [exfalso; apply (Hnow t' Hx)|]. congruence.
      * rewrite Hb'. eapply core_lin; [|exact Hw]. rewrite <- Hb. apply (U_core k s h HJ).
    + (* any other step: the binding of k and the winners stay *)
      assert (Ebm : bm s' k = bm s k).
      { rewrite Hbm. apply ulin_false_bm; auto. apply (U_only k s h HJ t o Ho). }
      assert (Eb : bound s' k = bound s k) by (apply bound_eq; exact Ebm).
      assert (Hw : forall t', uwinner k s' t' <-> uwinner k s t').
      { intros t'. destruct (Nat.eq_dec t' t) as [->|Hne].
        - split; intros (v & Ho1 & Hw1); exists v.
          + assert (o = OpUput k v) by congruence. subst o. split; [exact Ho|].
            destruct (pc_ok_uwon _ _ _ Hok Hw1) as [Hp|[(sl & r & Hp)|Hp]]; [exact Hp| |].
            * rewrite Hp in Hl. cbn [ulin] in Hl. rewrite N.eqb_refl in Hl. discriminate.
            * exfalso. apply (U_noplain k s h HJ t v Ho Hp).
          + assert (o = OpUput k v) by congruence. subst o. split; [exact Ho'|].
            eapply pc_ok_uwon_keep; eauto.
        - unfold uwinner. destruct (Eo t' Hne) as [-> ->]. reflexivity. }
      constructor.
      * intros t' o'. rewrite Eop. apply (U_only k s h HJ).
      * intros t' v'. destruct (Nat.eq_dec t' t) as [->|Hne].
        -- intros Ho1 Hp. assert (o = OpUput k v') by congruence. subst o.
           destruct (pc_ok_plain_ok _ _ _ Hok Hp) as [E|[rk E]]; [discriminate E|].
           apply (inv_shrink_rem s t _ rk HI Ho E).
        -- destruct (Eo t' Hne) as [-> ->]. apply (U_noplain k s h HJ).
      * apply (seen_step_bound k s _ s' H); [rewrite Eb; auto|apply (U_seen k s h HJ)].
      * intros t' v' r' Hin. rewrite Eb. apply (U_hist k s h HJ _ _ _ Hin).
      * intros t' v' Hin. rewrite Ebm. apply (U_val_h k s h HJ _ _ Hin).
      * intros t' v' Ho1 Hw1. assert (Hx : uwinner k s' t') by (exists v'; auto).
        apply Hw in Hx as (v2 & Ho2 & Hw2). rewrite Ebm.
        rewrite Eop in Ho1. assert (v2 = v') by congruence. subst v2.
        apply (U_val_w k s h HJ t' v' Ho2 Hw2).
      * rewrite Eb. eapply core_same; [apply (U_core k s h HJ)|exact Hw].
  - (* return *)
    destruct (return_inv _ _ _ H) as ((r & Hpc) & Em & Et).
    destruct (inv_op_of_pc s t HI) as [o Ho]; [rewrite Hpc; discriminate|].
    pose proof (inv_done_res s t o r HI Ho Hpc) as Hres.
    assert (Eb : bound s' k = bound s k) by (apply bound_eq; rewrite Em; reflexivity).
    cbn [ret_of]. rewrite Ho, Hpc.
    constructor.
    + intros t' o'. destruct (Nat.eq_dec t' t) as [->|Hne].
      * rewrite Et. cbn. discriminate.
      * destruct (Eo t' Hne) as [-> _]. apply (U_only k s h HJ).
    + intros t' v. destruct (Nat.eq_dec t' t) as [->|Hne].
      * rewrite Et. cbn. discriminate.
      * destruct (Eo t' Hne) as [-> ->]. apply (U_noplain k s h HJ).
    + apply (seen_step_bound k s _ s' H); [rewrite Eb; auto|apply (U_seen k s h HJ)].
    + intros t' v r' Hin. rewrite Eb. apply in_app_or in Hin as [Hin|[E|[]]].
      * apply (U_hist k s h HJ _ _ _ Hin).
      * injection E as -> -> ->. destruct r'; cbn [res_ok] in Hres; try contradiction.
        -- split; [|auto]. eapply (U_seen k s h HJ t' _ v Ho); [reflexivity|exact Hres].
        -- split; [|auto]. destruct Hres as [w Hw]. eapply (U_seen k s h HJ t' _ w Ho); [reflexivity|exact Hw].
    + intros t' v Hin. rewrite Em. apply in_app_or in Hin as [Hin|[E|[]]].
      * apply (U_val_h k s h HJ _ _ Hin).
      * injection E as -> -> ->. apply (U_val_w k s h HJ t' v Ho). rewrite Hpc. reflexivity.
    + intros t' v. destruct (Nat.eq_dec t' t) as [->|Hne].
      * rewrite Et. cbn. discriminate.
      * destruct (Eo t' Hne) as [-> ->]. rewrite Em. apply (U_val_w k s h HJ).
    + rewrite Eb, count_if_app. unfold count_if at 2. cbn [filter].
      assert (Hnot : ~ uwinner k s' t).
      { intros (v & E & _). rewrite Et in E. discriminate E. }
      destruct (uput_ok k (t, o, r)) eqn:Hu; cbn [length].
      * rewrite Nat.add_1_r. apply (core_ret _ _ (uwinner k s) _ t); [apply (U_core k s h HJ)| |].
        -- destruct o as [|? ?|k0 v0|]; cbn [uput_ok] in Hu; try discriminate.
           destruct r; try discriminate. apply N.eqb_eq in Hu. subst k0.
           exists v0. rewrite Hpc. auto.
        -- intros t'. destruct (Nat.eq_dec t' t) as [->|Hne].
           ++ split; [intros Hx; contradiction|intros [_ Hx]; contradiction].
           ++ unfold uwinner. destruct (Eo t' Hne) as [-> ->]. intuition.
      * rewrite Nat.add_0_r. eapply core_same; [apply (U_core k s h HJ)|].
        intros t'. destruct (Nat.eq_dec t' t) as [->|Hne].
        -- split; [intros Hx; contradiction|]. intros (v & Ho1 & Hw1). exfalso.
           assert (o = OpUput k v) by congruence. subst o. rewrite Hpc in Hw1.
           destruct r; cbn [uwon] in Hw1; try discriminate.
           cbn [uput_ok] in Hu. rewrite N.eqb_refl in Hu. discriminate.
        -- unfold uwinner. destruct (Eo t' Hne) as [-> ->]. reflexivity.
Qed.

(** ** (R) racing removes of one key *)

(** a remove of [k] between its linearization step and its return *)
Definition rwinner (k : N) (s : bstate) (t : nat) : Prop :=
  t_op (b_thr s t) = Some (OpRem k) /\ rwon (t_pc (b_thr s t)) = true.

Record JR (k : N) (s : bstate) (h : list hist_entry) : Prop := {
  R_only : forall t o, t_op (b_thr s t) = Some o -> op_key o = k -> rg o;
  R_noins : forall t, t_op (b_thr s t) = Some (OpRem k) -> t_pc (b_thr s t) <> PUnlockIns;
  R_seen : forall t o, t_op (b_thr s t) = Some o -> op_key o = k ->
                       In None (t_seen (b_thr s t)) -> bound s k = false;
  R_hist : forall t r, In (t, OpRem k, r) h -> bound s k = false /\ (r = ROk \/ r = RNotFound);
  R_core : Core (negb (bound s k)) (count_if (rem_ok k) h) (rwinner k s)
}.

Definition rlin (k : N) (o : bop) (p : bpc) : bool :=
  match o, p with OpRem k', PClear _ _ => k' =? k | _, _ => false end.

Lemma rlin_true k o p : rlin k o p = true -> exists sl rk, o = OpRem k /\ p = PClear sl rk.
Proof.
  destruct o as [|? ?|? ?|k0]; cbn [rlin]; try discriminate.
  destruct p; try discriminate. intros E. apply N.eqb_eq in E. subst. eauto.
Qed.

Lemma rlin_false_bm k s t o :
  Inv s -> t_op (b_thr s t) = Some o -> (op_key o = k -> rg o) ->
  rlin k o (t_pc (b_thr s t)) = false ->
  match lin_of o (t_pc (b_thr s t)) with
  | Some x => updm (bm s) (op_key o) x
  | None => bm s
  end k = bm s k.
Proof.
  intros HI Ho Hrg Hl. destruct (N.eq_dec (op_key o) k) as [E|E].
  - specialize (Hrg E). destruct (t_pc (b_thr s t)) eqn:Hpc; cbn [lin_of]; try reflexivity.
    + destruct o; cbn [rg] in Hrg; try contradiction; reflexivity.
    + destruct o; cbn [rg] in Hrg; try contradiction; reflexivity.
    + destruct (inv_clear_bound s t o _ _ HI Ho Hpc) as [Hr _].
      destruct o as [|? ?|? ?|k0]; cbn [is_rem] in Hr; try contradiction.
      cbn [rlin op_key] in *. apply N.eqb_neq in Hl. contradiction.
  - destruct (lin_of o (t_pc (b_thr s t))); [apply updm_other; congruence|reflexivity].
Qed.

Lemma seen_step_unbound k s e s' :
  bstep true s e = Some s' ->
  (bound s k = false -> bound s' k = false) ->
  (forall t o, t_op (b_thr s t) = Some o -> op_key o = k ->
               In None (t_seen (b_thr s t)) -> bound s k = false) ->
  forall t o, t_op (b_thr s' t) = Some o -> op_key o = k ->
              In None (t_seen (b_thr s' t)) -> bound s' k = false.
Proof.
  intros H Hmono Hold t o Ho Hk Hin.
  destruct (step_seen _ _ _ _ _ _ H Ho Hin) as [E|[Ho1 Hin1]].
  - rewrite Hk in E. unfold bound. rewrite <- E. reflexivity.
  - apply Hmono. eapply Hold; eauto.
Qed.

Lemma JR_step k s h e s' :
  Inv s -> JR k s h -> (forall t o, e = BInvoke t o -> op_key o = k -> rg o) ->
  bstep true s e = Some s' -> JR k s' (h ++ ret_of s e).
Proof.
  intros HI HJ Hev H.
  assert (Eo : forall t', t' <> ev_thread e ->
            t_op (b_thr s' t') = t_op (b_thr s t') /\ t_pc (b_thr s' t') = t_pc (b_thr s t')).
  { intros t' Hne. apply (step_other _ _ _ t' H Hne). }
  destruct e as [t o|t|t]; cbn [ev_thread] in Eo.
  - (* invoke *)
    destruct (invoke_inv _ _ _ _ H) as (Hidle & Em & Et).
    assert (Eb : bound s' k = bound s k) by (apply bound_eq; rewrite Em; reflexivity).
    cbn [ret_of]. rewrite app_nil_r. constructor.
    + intros t' o'. destruct (Nat.eq_dec t' t) as [->|Hne].
      * rewrite Et. cbn [t_op]. intros E; injection E as <-. apply (Hev t o eq_refl).
      * destruct (Eo t' Hne) as [-> _]. apply (R_only k s h HJ).
    + intros t'. destruct (Nat.eq_dec t' t) as [->|Hne].
      * rewrite Et. cbn. discriminate.
      * destruct (Eo t' Hne) as [-> ->]. apply (R_noins k s h HJ).
    + apply (seen_step_unbound k s _ s' H); [rewrite Eb; auto|apply (R_seen k s h HJ)].
    + intros t' r Hin. rewrite Eb. apply (R_hist k s h HJ _ _ Hin).
    + rewrite Eb. eapply core_same; [apply (R_core k s h HJ)|].
      intros t'. unfold rwinner. destruct (Nat.eq_dec t' t) as [->|Hne].
      * rewrite Et, Hidle. cbn. split; intros (_ & E); discriminate.
      * destruct (Eo t' Hne) as [-> ->]. reflexivity.
  - (* step *)
    destruct (t_op (b_thr s t)) as [o|] eqn:Ho; [|cbn [bstep] in H; rewrite Ho in H; discriminate].
    destruct (step_self _ _ _ _ H Ho) as (Ho' & Hok & Hbm).
    assert (Eop : forall t', t_op (b_thr s' t') = t_op (b_thr s t')).
    { intros t'. destruct (Nat.eq_dec t' t) as [->|Hne]; [congruence|apply (Eo t' Hne)]. }
    cbn [ret_of]. rewrite app_nil_r.
    destruct (rlin k o (t_pc (b_thr s t))) eqn:Hl.
    + (* the linearization step of a remove of k *)
      apply rlin_true in Hl as (sl & rk & -> & Hpc).
      destruct (inv_clear_bound s t _ sl rk HI Ho Hpc) as [_ Hsome]. cbn [op_key] in Hsome.
      rewrite Hpc in Hok, Hbm. apply pc_ok_clear in Hok as [rk' Hok]. cbn [lin_of op_key] in Hbm.
      assert (Hnone : bm s' k = None) by (rewrite Hbm; apply updm_same).
      assert (Hb : bound s k = true) by (apply bound_true; exact Hsome).
      assert (Hb' : bound s' k = false) by (apply bound_false; exact Hnone).
      assert (Hw : forall t', rwinner k s' t' <-> rwinner k s t' \/ t' = t).
      { intros t'. destruct (Nat.eq_dec t' t) as [->|Hne].
        - split; [auto|]. intros _. split; [exact Ho'|]. rewrite Hok. reflexivity.
        - unfold rwinner. destruct (Eo t' Hne) as [-> ->]. intuition. }
      constructor.
      * intros t' o'. rewrite Eop. apply (R_only k s h HJ).
      * intros t'. destruct (Nat.eq_dec t' t) as [->|Hne].
        -- rewrite Hok. discriminate.
        -- destruct (Eo t' Hne) as [-> ->]. apply (R_noins k s h HJ).
      * intros; exact Hb'.
      * intros t' r' Hin. split; [exact Hb'|]. apply (R_hist k s h HJ _ _ Hin).
      * rewrite Hb'. cbn [negb]. eapply core_lin; [|exact Hw].
        pose proof (R_core k s h HJ) as HC. rewrite Hb in HC. exact HC.
    + (* any other step *)
      assert (Ebm : bm s' k = bm s k).
      { rewrite Hbm. apply rlin_false_bm; auto. apply (R_only k s h HJ t o Ho). }
      assert (Eb : bound s' k = bound s k) by (apply bound_eq; exact Ebm).
      assert (Hw : forall t', rwinner k s' t' <-> rwinner k s t').
      { intros t'. destruct (Nat.eq_dec t' t) as [->|Hne].
        - split; intros (Ho1 & Hw1).
          + assert (o = OpRem k) by congruence. subst o. split; [exact Ho|].
            destruct (pc_ok_rwon _ _ _ Hok Hw1) as [Hp|[(sl & rk & Hp)|[Hp|Hp]]]; [exact Hp| | |].
            * rewrite Hp in Hl. cbn [rlin] in Hl. rewrite N.eqb_refl in Hl. discriminate.
            * exfalso. apply (R_noins k s h HJ t Ho Hp).
            * discriminate Hp.
          + assert (o = OpRem k) by congruence. subst o. split; [exact Ho'|].
            eapply pc_ok_rwon_keep; eauto.
        - unfold rwinner. destruct (Eo t' Hne) as [-> ->]. reflexivity. }
      constructor.
      * intros t' o'. rewrite Eop. apply (R_only k s h HJ).
      * intros t'. destruct (Nat.eq_dec t' t) as [->|Hne].
        -- intros Ho1 Hp. assert (o = OpRem k) by congruence. subst o.
           pose proof (pc_ok_unlockins _ _ _ Hok Hp) as E. discriminate E.
        -- destruct (Eo t' Hne) as [-> ->]. apply (R_noins k s h HJ).
      * apply (seen_step_unbound k s _ s' H); [rewrite Eb; auto|apply (R_seen k s h HJ)].
      * intros t' r' Hin. rewrite Eb. apply (R_hist k s h HJ _ _ Hin).
      * rewrite Eb. eapply core_same; [apply (R_core k s h HJ)|exact Hw].
  - (* return *)
    destruct (return_inv _ _ _ H) as ((r & Hpc) & Em & Et).
    destruct (inv_op_of_pc s t HI) as [o Ho]; [rewrite Hpc; discriminate|].
    pose proof (inv_done_res s t o r HI Ho Hpc) as Hres.
    assert (Eb : bound s' k = bound s k) by (apply bound_eq; rewrite Em; reflexivity).
    cbn [ret_of]. rewrite Ho, Hpc.
    constructor.
    + intros t' o'. destruct (Nat.eq_dec t' t) as [->|Hne].
      * rewrite Et. cbn. discriminate.
      * destruct (Eo t' Hne) as [-> _]. apply (R_only k s h HJ).
    + intros t'. destruct (Nat.eq_dec t' t) as [->|Hne].
      * rewrite Et. cbn. discriminate.
      * destruct (Eo t' Hne) as [-> ->]. apply (R_noins k s h HJ).
    + apply (seen_step_unbound k s _ s' H); [rewrite Eb; auto|apply (R_seen k s h HJ)].
    + intros t' r' Hin. rewrite Eb. apply in_app_or in Hin as [Hin|[E|[]]].
      * apply (R_hist k s h HJ _ _ Hin).
      * injection E as -> -> ->. destruct r'; cbn [res_ok] in Hres; try contradiction.
        -- split; [|auto]. eapply (R_seen k s h HJ t' _ Ho); [reflexivity|exact Hres].
        -- split; [|auto]. eapply (R_seen k s h HJ t' _ Ho); [reflexivity|exact Hres].
    + rewrite Eb, count_if_app. unfold count_if at 2. cbn [filter].
      assert (Hnot : ~ rwinner k s' t).
      { intros (E & _). rewrite Et in E. discriminate E. }
      destruct (rem_ok k (t, o, r)) eqn:Hu; cbn [length].
      * rewrite Nat.add_1_r. apply (core_ret _ _ (rwinner k s) _ t); [apply (R_core k s h HJ)| |].
        -- destruct o as [|? ?|? ?|k0]; cbn [rem_ok] in Hu; try discriminate.
           destruct r; try discriminate. apply N.eqb_eq in Hu. subst k0.
           split; [exact Ho|]. rewrite Hpc. reflexivity.
        -- intros t'. destruct (Nat.eq_dec t' t) as [->|Hne].
           ++ split; [intros Hx; contradiction|intros [_ Hx]; contradiction].
           ++ unfold rwinner. destruct (Eo t' Hne) as [-> ->]. intuition.
      * rewrite Nat.add_0_r. eapply core_same; [apply (R_core k s h HJ)|].
        intros t'. destruct (Nat.eq_dec t' t) as [->|Hne].
        -- split; [intros Hx; contradiction|]. intros (Ho1 & Hw1). exfalso.
           assert (o = OpRem k) by congruence. subst o. rewrite Hpc in Hw1.
           destruct r; cbn [rwon] in Hw1; try discriminate.
           cbn [rem_ok] in Hu. rewrite N.eqb_refl in Hu. discriminate.
        -- unfold rwinner. destruct (Eo t' Hne) as [-> ->]. reflexivity.
Qed.

(** ** Runs *)

(** no operation on [k] is in flight *)
Definition quiet (k : N) (s : bstate) : Prop :=
  forall t o, t_op (b_thr s t) = Some o -> op_key o <> k.

Lemma quiet_binit k : quiet k binit.
Proof. intros t o. cbn. discriminate. Qed.

Lemma brun_app s tr1 tr2 s' :
  brun true s (tr1 ++ tr2) = Some s' ->
  exists s1, brun true s tr1 = Some s1 /\ brun true s1 tr2 = Some s'.
Proof.
  revert s. induction tr1 as [|e tr1 IH]; intros s; cbn [app brun].
  - eauto.
  - destruct (bstep true s e); [apply IH|discriminate].
Qed.

Lemma JU_start k s0 : bm s0 k = None -> quiet k s0 -> JU k s0 [].
Proof.
  intros Hn Hq. constructor.
  - intros t o Ho Hk. exfalso. apply (Hq t o Ho Hk).
  - intros t v Ho. exfalso. apply (Hq t _ Ho). reflexivity.
  - intros t o w Ho Hk. exfalso. apply (Hq t o Ho Hk).
  - intros t v r [].
  - intros t v [].
  - intros t v Ho. exfalso. apply (Hq t _ Ho). reflexivity.
  - assert (Hb : bound s0 k = false) by (apply bound_false; exact Hn). rewrite Hb.
    split; [|discriminate]. intros _. split; [reflexivity|].
    intros t (v & Ho & _). apply (Hq t _ Ho). reflexivity.
Qed.

Lemma JR_start k s0 : bm s0 k <> None -> quiet k s0 -> JR k s0 [].
Proof.
  intros Hn Hq. constructor.
  - intros t o Ho Hk. exfalso. apply (Hq t o Ho Hk).
  - intros t Ho. exfalso. apply (Hq t _ Ho). reflexivity.
  - intros t o Ho Hk. exfalso. apply (Hq t o Ho Hk).
  - intros t r [].
  - assert (Hb : bound s0 k = true) by (apply bound_true; exact Hn). rewrite Hb. cbn [negb].
    split; [|discriminate]. intros _. split; [reflexivity|].
    intros t (Ho & _). apply (Hq t _ Ho). reflexivity.
Qed.

Lemma JU_run k s0 tr s :
  Inv s0 -> bm s0 k = None -> quiet k s0 ->
  (forall t o, In (BInvoke t o) tr -> op_key o = k -> ug o) ->
  brun true s0 tr = Some s -> JU k s (bhist s0 tr).
Proof.
  intros HI Hn Hq Honly Hrun.
  apply (run_inv (JU k) (fun e => forall t o, e = BInvoke t o -> op_key o = k -> ug o))
    with (tr := tr) (s := s0) (h := []) (s' := s); auto.
  - intros s1 h e s2 HI1 HJ Hev Hst. eapply JU_step; eauto.
  - apply JU_start; auto.
  - intros e He t o ->. apply (Honly t). exact He.
Qed.

Lemma JR_run k s0 tr s :
  Inv s0 -> bm s0 k <> None -> quiet k s0 ->
  (forall t o, In (BInvoke t o) tr -> op_key o = k -> rg o) ->
  brun true s0 tr = Some s -> JR k s (bhist s0 tr).
Proof.
  intros HI Hn Hq Honly Hrun.
  apply (run_inv (JR k) (fun e => forall t o, e = BInvoke t o -> op_key o = k -> rg o))
    with (tr := tr) (s := s0) (h := []) (s' := s); auto.
  - intros s1 h e s2 HI1 HJ Hev Hst. eapply JR_step; eauto.
  - apply JR_start; auto.
  - intros e He t o ->. apply (Honly t). exact He.
Qed.

(** two entries of a list satisfy [f]: the count is at least two *)
Lemma count_if_two {A} (f : A -> bool) l1 x l2 y l3 :
  f x = true -> f y = true -> (2 <= count_if f (l1 ++ x :: l2 ++ y :: l3))%nat.
Proof.
  intros Hx Hy. rewrite count_if_app. change (x :: l2 ++ y :: l3) with ([x] ++ l2 ++ [y] ++ l3).
  rewrite !count_if_app. unfold count_if at 2 4. cbn [filter]. rewrite Hx, Hy. cbn [length]. lia.
Qed.

(** ** (U): the theorems *)

Definition only_uput_get (k : N) (tr : list bev) : Prop :=
  forall t o, In (BInvoke t o) tr -> op_key o = k -> exists v, o = OpUput k v \/ o = OpGet k.

Lemma only_uput_get_ug k tr : only_uput_get k tr -> forall t o, In (BInvoke t o) tr -> op_key o = k -> ug o.
Proof. intros H t o Hin Hk. destruct (H t o Hin Hk) as [v [-> | ->]]; exact I. Qed.

(** From a state where [k] is unbound and no operation on [k] is in flight,
    with only unique inserts and gets of [k] invoked afterwards. [n] = number of
    unique inserts of [k] that have returned [ROk]. *)
Theorem uput_one_winner_from s0 tr s k :
  Inv s0 -> bm s0 k = None -> quiet k s0 ->
  brun true s0 tr = Some s -> only_uput_get k tr ->
  let h := bhist s0 tr in
  let n := uput_ok_returns k s0 tr in
  (* (a) at most one success, ever; no two successful returns in the history *)
  (n <= 1)%nat /\
  (forall l1 x l2 y l3, h = l1 ++ x :: l2 ++ y :: l3 -> uput_ok k x = true -> uput_ok k y = true -> False) /\
  (* at most one insert is between its linearization step and its return, and then none has succeeded before *)
  (forall t1 t2, uwinner k s t1 -> uwinner k s t2 -> t1 = t2) /\
  (forall t, uwinner k s t -> n = 0%nat) /\
  (* the key is bound iff there is a (past or in-flight) winner *)
  (bm s k <> None <-> n = 1%nat \/ exists t, uwinner k s t) /\
  (* (b) once one unique insert has completed, the key is bound and there is exactly one winner *)
  (forall t v r, In (t, OpUput k v, r) h ->
     (r = ROk \/ r = RUnique) /\ bm s k <> None /\
     ((n = 1%nat /\ forall t', ~ uwinner k s t') \/
      (n = 0%nat /\ exists t', uwinner k s t' /\ forall t'', uwinner k s t'' -> t'' = t'))) /\
  (* the binding is the winner's value *)
  (forall t v, In (t, OpUput k v, ROk) h \/
               (t_op (b_thr s t) = Some (OpUput k v) /\ uwon (t_pc (b_thr s t)) = true) ->
               bm s k = Some v) /\
  (* a unique insert about to report RUnique: the key is bound, another insert is the winner *)
  (forall t v, t_op (b_thr s t) = Some (OpUput k v) -> t_pc (b_thr s t) = PDone RUnique ->
     bm s k <> None /\ (n = 1%nat \/ exists t', t' <> t /\ uwinner k s t')).
Proof.
  intros HI0 Hn Hq Hrun Honly h n.
  pose proof (JU_run k s0 tr s HI0 Hn Hq (only_uput_get_ug k tr Honly) Hrun) as HJ.
  pose proof (inv_run tr s0 s HI0 Hrun) as HI.
  pose proof (U_core k s _ HJ) as HC. fold h in HJ, HC.
  change (count_if (uput_ok k) h) with n in HC.
  split; [eapply core_le1; eauto|].
  split.
  { intros l1 x l2 y l3 E Hx Hy. pose proof (count_if_two (uput_ok k) l1 x l2 y l3 Hx Hy) as H2.
    rewrite <- E in H2. pose proof (core_le1 _ _ _ HC). unfold n, uput_ok_returns in *. fold h in H. lia. }
  split; [intros t1 t2; eapply core_unique; eauto|].
  split; [intros t Ht; apply (core_winner_zero _ _ _ t HC Ht)|].
  split; [rewrite <- bound_true; apply (core_flag _ _ _ HC)|].
  split.
  { intros t v r Hin. destruct (U_hist k s h HJ _ _ _ Hin) as [Hb Hr].
    split; [exact Hr|]. split; [apply bound_true; exact Hb|]. destruct HC as [_ HC]. apply HC. exact Hb. }
  split.
  { intros t v [Hin|[Ho Hw]]; [apply (U_val_h k s h HJ _ _ Hin)|apply (U_val_w k s h HJ _ _ Ho Hw)]. }
  intros t v Ho Hpc. pose proof (inv_done_res s t _ _ HI Ho Hpc) as Hres. cbn [res_ok] in Hres.
  destruct Hres as [w Hw].
  assert (Hb : bound s k = true) by (eapply (U_seen k s h HJ t _ w Ho); [reflexivity|exact Hw]).
  split; [apply bound_true; exact Hb|].
  apply (core_flag _ _ _ HC) in Hb as [Hb|[t' Ht']]; [left; exact Hb|right].
  exists t'. split; [|exact Ht']. intros ->. destruct Ht' as (v' & _ & E). rewrite Hpc in E. discriminate E.
Qed.

(** the same from the empty node *)
Theorem uput_exactly_one_winner tr s k :
  brun true binit tr = Some s -> only_uput_get k tr ->
  let h := bhist binit tr in
  let n := uput_ok_returns k binit tr in
  (n <= 1)%nat /\
  (forall l1 x l2 y l3, h = l1 ++ x :: l2 ++ y :: l3 -> uput_ok k x = true -> uput_ok k y = true -> False) /\
  (forall t1 t2, uwinner k s t1 -> uwinner k s t2 -> t1 = t2) /\
  (forall t, uwinner k s t -> n = 0%nat) /\
  (bm s k <> None <-> n = 1%nat \/ exists t, uwinner k s t) /\
  (forall t v r, In (t, OpUput k v, r) h ->
     (r = ROk \/ r = RUnique) /\ bm s k <> None /\
     ((n = 1%nat /\ forall t', ~ uwinner k s t') \/
      (n = 0%nat /\ exists t', uwinner k s t' /\ forall t'', uwinner k s t'' -> t'' = t'))) /\
  (forall t v, In (t, OpUput k v, ROk) h \/
               (t_op (b_thr s t) = Some (OpUput k v) /\ uwon (t_pc (b_thr s t)) = true) ->
               bm s k = Some v) /\
  (forall t v, t_op (b_thr s t) = Some (OpUput k v) -> t_pc (b_thr s t) = PDone RUnique ->
     bm s k <> None /\ (n = 1%nat \/ exists t', t' <> t /\ uwinner k s t')).
Proof.
  intros Hrun Honly. apply uput_one_winner_from; auto.
  - exact inv_init.
  - apply quiet_binit.
Qed.

(** U1 as asked: two unique inserts of [k] both about to report success are the same thread *)
Theorem uput_at_most_one_ok : forall tr s k,
  brun true binit tr = Some s ->
  (forall t o, In (BInvoke t o) tr -> op_key o = k -> exists v, o = OpUput k v \/ o = OpGet k) ->
  forall t1 t2 v1 v2,
    t_op (b_thr s t1) = Some (OpUput k v1) -> t_pc (b_thr s t1) = PDone ROk ->
    t_op (b_thr s t2) = Some (OpUput k v2) -> t_pc (b_thr s t2) = PDone ROk -> t1 = t2.
Proof.
  intros tr s k Hrun Honly t1 t2 v1 v2 Ho1 Hp1 Ho2 Hp2.
  destruct (uput_exactly_one_winner tr s k Hrun Honly) as (_ & _ & Hu & _).
  apply Hu; [exists v1|exists v2]; split; auto; [rewrite Hp1|rewrite Hp2]; reflexivity.
Qed.

(** over the whole trace: when a unique insert of [k] returns RUnique, the key is
    bound and a different unique insert has won (returned ROk earlier, or is
    past its linearization step) *)
Theorem uput_unique_after_winner s0 tr1 t tr2 s k v :
  Inv s0 -> bm s0 k = None -> quiet k s0 ->
  brun true s0 (tr1 ++ BReturn t :: tr2) = Some s -> only_uput_get k (tr1 ++ BReturn t :: tr2) ->
  exists s1, brun true s0 tr1 = Some s1 /\
    (t_op (b_thr s1 t) = Some (OpUput k v) -> t_pc (b_thr s1 t) = PDone RUnique ->
     bm s1 k <> None /\
     (uput_ok_returns k s0 tr1 = 1%nat \/ exists t', t' <> t /\ uwinner k s1 t')).
Proof.
  intros HI0 Hn Hq Hrun Honly. apply brun_app in Hrun as (s1 & H1 & _). exists s1. split; [exact H1|].
  assert (Honly1 : only_uput_get k tr1).
  { intros t' o Hin. apply (Honly t'). apply in_or_app. auto. }
  destruct (uput_one_winner_from s0 tr1 s1 k HI0 Hn Hq H1 Honly1) as (_ & _ & _ & _ & _ & _ & _ & Hu).
  apply Hu.
Qed.

(** ** (R): the theorems *)

Definition only_rem_get (k : N) (tr : list bev) : Prop :=
  forall t o, In (BInvoke t o) tr -> op_key o = k -> o = OpRem k \/ o = OpGet k.

Lemma only_rem_get_rg k tr : only_rem_get k tr -> forall t o, In (BInvoke t o) tr -> op_key o = k -> rg o.
Proof. intros H t o Hin Hk. destruct (H t o Hin Hk) as [-> | ->]; exact I. Qed.

(** From a state where [k] is bound and no operation on [k] is in flight, with
    only removes and gets of [k] invoked afterwards. [n] = number of removes of
    [k] that have returned [ROk]. *)
Theorem rem_one_winner_from s0 tr s k :
  Inv s0 -> bm s0 k <> None -> quiet k s0 ->
  brun true s0 tr = Some s -> only_rem_get k tr ->
  let h := bhist s0 tr in
  let n := rem_ok_returns k s0 tr in
  (n <= 1)%nat /\
  (forall l1 x l2 y l3, h = l1 ++ x :: l2 ++ y :: l3 -> rem_ok k x = true -> rem_ok k y = true -> False) /\
  (forall t1 t2, rwinner k s t1 -> rwinner k s t2 -> t1 = t2) /\
  (forall t, rwinner k s t -> n = 0%nat) /\
  (* the key is unbound iff there is a (past or in-flight) winner *)
  (bm s k = None <-> n = 1%nat \/ exists t, rwinner k s t) /\
  (* once one remove has completed, the key is unbound and there is exactly one winner *)
  (forall t r, In (t, OpRem k, r) h ->
     (r = ROk \/ r = RNotFound) /\ bm s k = None /\
     ((n = 1%nat /\ forall t', ~ rwinner k s t') \/
      (n = 0%nat /\ exists t', rwinner k s t' /\ forall t'', rwinner k s t'' -> t'' = t'))) /\
  (* a remove about to report RNotFound: the key is unbound, another remove is the winner *)
  (forall t, t_op (b_thr s t) = Some (OpRem k) -> t_pc (b_thr s t) = PDone RNotFound ->
     bm s k = None /\ (n = 1%nat \/ exists t', t' <> t /\ rwinner k s t')).
Proof.
  intros HI0 Hn Hq Hrun Honly h n.
  pose proof (JR_run k s0 tr s HI0 Hn Hq (only_rem_get_rg k tr Honly) Hrun) as HJ.
  pose proof (inv_run tr s0 s HI0 Hrun) as HI.
  pose proof (R_core k s _ HJ) as HC. fold h in HJ, HC.
  change (count_if (rem_ok k) h) with n in HC.
  assert (Hnb : forall b, negb b = true <-> b = false) by (intros []; cbn; split; congruence).
  split; [eapply core_le1; eauto|].
  split.
  { intros l1 x l2 y l3 E Hx Hy. pose proof (count_if_two (rem_ok k) l1 x l2 y l3 Hx Hy) as H2.
    rewrite <- E in H2. pose proof (core_le1 _ _ _ HC). unfold n, rem_ok_returns in *. fold h in H. lia. }
  split; [intros t1 t2; eapply core_unique; eauto|].
  split; [intros t Ht; apply (core_winner_zero _ _ _ t HC Ht)|].
  split; [rewrite <- bound_false, <- Hnb; apply (core_flag _ _ _ HC)|].
  split.
  { intros t r Hin. destruct (R_hist k s h HJ _ _ Hin) as [Hb Hr].
    split; [exact Hr|]. split; [apply bound_false; exact Hb|]. destruct HC as [_ HC]. apply HC.
    apply Hnb. exact Hb. }
  intros t Ho Hpc. pose proof (inv_done_res s t _ _ HI Ho Hpc) as Hres. cbn [res_ok] in Hres.
  assert (Hb : bound s k = false) by (eapply (R_seen k s h HJ t _ Ho); [reflexivity|exact Hres]).
  split; [apply bound_false; exact Hb|].
  apply Hnb in Hb. apply (core_flag _ _ _ HC) in Hb as [Hb|[t' Ht']]; [left; exact Hb|right].
  exists t'. split; [|exact Ht']. intros ->. destruct Ht' as (_ & E). rewrite Hpc in E. discriminate E.
Qed.

(** U2: any run [tr0] from the empty node that ends with [k] bound and no
    operation on [k] in flight (e.g. one put of [k] that has returned), followed
    by a run [tr1] in which only removes and gets of [k] are invoked *)
Theorem rem_exactly_one_winner tr0 s0 tr1 s k :
  brun true binit tr0 = Some s0 -> bm s0 k <> None -> quiet k s0 ->
  brun true s0 tr1 = Some s -> only_rem_get k tr1 ->
  let h := bhist s0 tr1 in
  let n := rem_ok_returns k s0 tr1 in
  (n <= 1)%nat /\
  (forall l1 x l2 y l3, h = l1 ++ x :: l2 ++ y :: l3 -> rem_ok k x = true -> rem_ok k y = true -> False) /\
  (forall t1 t2, rwinner k s t1 -> rwinner k s t2 -> t1 = t2) /\
  (forall t, rwinner k s t -> n = 0%nat) /\
  (bm s k = None <-> n = 1%nat \/ exists t, rwinner k s t) /\
  (forall t r, In (t, OpRem k, r) h ->
     (r = ROk \/ r = RNotFound) /\ bm s k = None /\
     ((n = 1%nat /\ forall t', ~ rwinner k s t') \/
      (n = 0%nat /\ exists t', rwinner k s t' /\ forall t'', rwinner k s t'' -> t'' = t'))) /\
  (forall t, t_op (b_thr s t) = Some (OpRem k) -> t_pc (b_thr s t) = PDone RNotFound ->
     bm s k = None /\ (n = 1%nat \/ exists t', t' <> t /\ rwinner k s t')).
Proof.
  intros Hrun0. apply rem_one_winner_from. eapply inv_reachable; eauto.
Qed.

(** two removes of [k] both about to report success are the same thread *)
Theorem rem_at_most_one_ok tr0 s0 tr1 s k :
  brun true binit tr0 = Some s0 -> bm s0 k <> None -> quiet k s0 ->
  brun true s0 tr1 = Some s -> only_rem_get k tr1 ->
  forall t1 t2,
    t_op (b_thr s t1) = Some (OpRem k) -> t_pc (b_thr s t1) = PDone ROk ->
    t_op (b_thr s t2) = Some (OpRem k) -> t_pc (b_thr s t2) = PDone ROk -> t1 = t2.
Proof.
  intros H0 Hb Hq H1 Honly t1 t2 Ho1 Hp1 Ho2 Hp2.
  destruct (rem_exactly_one_winner tr0 s0 tr1 s k H0 Hb Hq H1 Honly) as (_ & _ & Hu & _).
  apply Hu; split; auto; [rewrite Hp1|rewrite Hp2]; reflexivity.
Qed.

(** over the whole trace: when a remove of [k] returns RNotFound, the key is
    unbound and a different remove has won *)
Theorem rem_notfound_after_winner s0 tr1 t tr2 s k :
  Inv s0 -> bm s0 k <> None -> quiet k s0 ->
  brun true s0 (tr1 ++ BReturn t :: tr2) = Some s -> only_rem_get k (tr1 ++ BReturn t :: tr2) ->
  exists s1, brun true s0 tr1 = Some s1 /\
    (t_op (b_thr s1 t) = Some (OpRem k) -> t_pc (b_thr s1 t) = PDone RNotFound ->
     bm s1 k = None /\
     (rem_ok_returns k s0 tr1 = 1%nat \/ exists t', t' <> t /\ rwinner k s1 t')).
Proof.
  intros HI0 Hn Hq Hrun Honly. apply brun_app in Hrun as (s1 & H1 & _). exists s1. split; [exact H1|].
  assert (Honly1 : only_rem_get k tr1).
  { intros t' o Hin. apply (Honly t'). apply in_or_app. auto. }
  destruct (rem_one_winner_from s0 tr1 s1 k HI0 Hn Hq H1 Honly1) as (_ & _ & _ & _ & _ & _ & Hu).
  apply Hu.
Qed.

(** ** At quiescence: exactly one [ROk], all the others [RUnique] / [RNotFound] *)

Corollary uput_quiescent_exactly_one s0 tr s k :
  Inv s0 -> bm s0 k = None -> quiet k s0 ->
  brun true s0 tr = Some s -> only_uput_get k tr ->
  quiet k s ->
  (exists t v r, In (t, OpUput k v, r) (bhist s0 tr)) ->
  uput_ok_returns k s0 tr = 1%nat /\ bm s k <> None /\
  forall t v r, In (t, OpUput k v, r) (bhist s0 tr) -> r = ROk \/ r = RUnique.
Proof.
  intros HI0 Hn Hq Hrun Honly Hqs (t & v & r & Hin).
  destruct (uput_one_winner_from s0 tr s k HI0 Hn Hq Hrun Honly) as (_ & _ & _ & _ & _ & Hb & _).
  destruct (Hb t v r Hin) as (_ & Hbd & [[H1 _]|[_ (t' & (v' & Ho & _) & _)]]).
  - split; [exact H1|]. split; [exact Hbd|]. intros t1 v1 r1 Hin1. apply (Hb t1 v1 r1 Hin1).
  - exfalso. apply (Hqs t' _ Ho). reflexivity.
Qed.

Corollary rem_quiescent_exactly_one s0 tr s k :
  Inv s0 -> bm s0 k <> None -> quiet k s0 ->
  brun true s0 tr = Some s -> only_rem_get k tr ->
  quiet k s ->
  (exists t r, In (t, OpRem k, r) (bhist s0 tr)) ->
  rem_ok_returns k s0 tr = 1%nat /\ bm s k = None /\
  forall t r, In (t, OpRem k, r) (bhist s0 tr) -> r = ROk \/ r = RNotFound.
Proof.
  intros HI0 Hn Hq Hrun Honly Hqs (t & r & Hin).
  destruct (rem_one_winner_from s0 tr s k HI0 Hn Hq Hrun Honly) as (_ & _ & _ & _ & _ & Hb & _).
  destruct (Hb t r Hin) as (_ & Hbd & [[H1 _]|[_ (t' & (Ho & _) & _)]]).
  - split; [exact H1|]. split; [exact Hbd|]. intros t1 r1 Hin1. apply (Hb t1 r1 Hin1).
  - exfalso. apply (Hqs t' _ Ho). reflexivity.
Qed.

(** ** Example: three threads race unique inserts of key 5, then two threads race removes of it *)

Definition only_uput_get_b (k : N) (tr : list bev) : bool :=
  forallb (fun e => match e with
                    | BInvoke _ o => negb (op_key o =? k) ||
                                     match o with OpUput _ _ | OpGet _ => true | _ => false end
                    | _ => true
                    end) tr.
Definition only_rem_get_b (k : N) (tr : list bev) : bool :=
  forallb (fun e => match e with
                    | BInvoke _ o => negb (op_key o =? k) ||
                                     match o with OpRem _ | OpGet _ => true | _ => false end
                    | _ => true
                    end) tr.

Lemma only_uput_get_check k tr : only_uput_get_b k tr = true -> only_uput_get k tr.
Proof.
  unfold only_uput_get_b. rewrite forallb_forall. intros H t o Hin Hk. specialize (H _ Hin). cbn in H.
  rewrite Hk, N.eqb_refl in H. cbn [negb orb] in H.
  destruct o as [k0|k0 v|k0 v|k0]; try discriminate H; cbn [op_key] in Hk; subst k0;
    [exists 0|exists v]; auto.
Qed.

Lemma only_rem_get_check k tr : only_rem_get_b k tr = true -> only_rem_get k tr.
Proof.
  unfold only_rem_get_b. rewrite forallb_forall. intros H t o Hin Hk. specialize (H _ Hin). cbn in H.
  rewrite Hk, N.eqb_refl in H. cbn [negb orb] in H.
  destruct o as [k0|k0 v|k0 v|k0]; try discriminate H; cbn [op_key] in Hk; subst k0; auto.
Qed.

(** threads 0 and 1 both miss the key and queue for the lock; 0 wins it and
    inserts (1 and 2 spin meanwhile); 1 then gets the lock, fails the version
    check, searches again and finds the key; 2 finds it on its first search.
    Thread 1 returns before the winner does. *)
Definition race_uput : list bev :=
  [BInvoke 0 (OpUput 5 7); BInvoke 1 (OpUput 5 8); BInvoke 2 (OpUput 5 9)] ++
  repeat (BStep 0) 4 ++ repeat (BStep 1) 4 ++
  [BStep 0; BStep 1; BStep 2] ++ repeat (BStep 0) 3 ++ [BStep 2; BStep 1] ++ repeat (BStep 0) 3 ++
  repeat (BStep 1) 7 ++ [BReturn 1] ++ repeat (BStep 2) 4 ++ [BReturn 0; BReturn 2].

(** threads 3 and 4 both find the key and queue for the lock; 3 removes it;
    4 then gets the lock and does not find the key any more *)
Definition race_rem : list bev :=
  [BInvoke 3 (OpRem 5); BInvoke 4 (OpRem 5)] ++
  repeat (BStep 3) 4 ++ repeat (BStep 4) 4 ++
  [BStep 3; BStep 4] ++ repeat (BStep 3) 5 ++ repeat (BStep 4) 4 ++ [BReturn 4; BReturn 3].

Example race_history :
  bhist binit (race_uput ++ race_rem) =
  [(1%nat, OpUput 5 8, RUnique); (0%nat, OpUput 5 7, ROk); (2%nat, OpUput 5 9, RUnique);
   (4%nat, OpRem 5, RNotFound); (3%nat, OpRem 5, ROk)].
Proof. vm_compute. reflexivity. Qed.

Definition run_or_init (s : bstate) (tr : list bev) : bstate :=
  match brun true s tr with Some s' => s' | None => binit end.

Definition race_s0 : bstate := run_or_init binit race_uput.
Definition race_s1 : bstate := run_or_init race_s0 race_rem.

(** the hypotheses of the theorems hold on the example *)
Example race_uput_runs : brun true binit race_uput = Some race_s0.
Proof. vm_compute. reflexivity. Qed.

Example race_uput_only : only_uput_get 5 race_uput.
Proof. apply only_uput_get_check. vm_compute. reflexivity. Qed.

Example race_uput_one_ok : uput_ok_returns 5 binit race_uput = 1%nat /\ bm race_s0 5 = Some 7.
Proof. vm_compute. auto. Qed.

Example race_s0_bound : bm race_s0 5 <> None.
Proof. vm_compute. discriminate. Qed.

Example race_s0_quiet : quiet 5 race_s0.
Proof.
  intros t o. do 5 (destruct t as [|t]; [vm_compute; discriminate|]). vm_compute. discriminate.
Qed.

Example race_rem_runs : brun true race_s0 race_rem = Some race_s1.
Proof. vm_compute. reflexivity. Qed.

Example race_rem_only : only_rem_get 5 race_rem.
Proof. apply only_rem_get_check. vm_compute. reflexivity. Qed.

Example race_rem_one_ok :
  rem_ok_returns 5 race_s0 race_rem = 1%nat /\ bm race_s1 5 = None /\
  bhist race_s0 race_rem = [(4%nat, OpRem 5, RNotFound); (3%nat, OpRem 5, ROk)].
Proof. vm_compute. auto. Qed.

(** the two theorems instantiated on the example *)
Definition race_uput_instance :=
  uput_exactly_one_winner race_uput race_s0 5 race_uput_runs race_uput_only.
Definition race_rem_instance :=
  rem_exactly_one_winner race_uput race_s0 race_rem race_s1 5
    race_uput_runs race_s0_bound race_s0_quiet race_rem_runs race_rem_only.

(** in the middle of the race: thread 1 is about to return RUnique while the
    winner, thread 0, has not returned yet (no ROk in the history so far) *)
Example race_middle :
  let tr := firstn 29 race_uput in
  let s := run_or_init binit tr in
  brun true binit tr <> None /\
  t_pc (b_thr s 1%nat) = PDone RUnique /\ t_pc (b_thr s 0%nat) = PDone ROk /\
  t_pc (b_thr s 2%nat) = PStable0 /\
  uput_ok_returns 5 binit tr = 0%nat /\ bm s 5 = Some 7 /\ nth 29 race_uput (BStep 0) = BReturn 1.
Proof. vm_compute. repeat split; auto. discriminate. Qed.

(** ** Assumptions *)
Print Assumptions uput_one_winner_from.
Print Assumptions uput_exactly_one_winner.
Print Assumptions uput_at_most_one_ok.
Print Assumptions uput_unique_after_winner.
Print Assumptions rem_one_winner_from.
Print Assumptions rem_exactly_one_winner.
Print Assumptions rem_at_most_one_ok.
Print Assumptions rem_notfound_after_winner.
Print Assumptions uput_quiescent_exactly_one.
Print Assumptions rem_quiescent_exactly_one.
Print Assumptions race_history.
Print Assumptions race_uput_instance.
Print Assumptions race_rem_instance.
