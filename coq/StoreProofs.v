(** * StoreProofs: the trie of B+-trees refines a sorted map (get / put / remove).

    A. keys and paths ([path_of_key] / [kop] are inverse bijections between byte
       strings and valid paths).
    B. the abstraction [abs_tree] and the store invariant [WF_store] (= [WFL] with
       no dangling link); lookups along a path over the entry function [ent].
    C. [abs_tree_sorted], [get_refines], [put_refines], [remove_refines],
       [empty_tree_wf], [null_tree_wf]; membership [abs_tree_in]; [WF_store_facts]. *)
From Coq Require Import ZArith NArith PeanoNat Lia ZifyBool ZifyN Bool List Sorted Permutation.
From Yk Require Import ListAux Word64 PermDefs VersionDefs KeyDefs KeyProofs TreeDefs ScanDefs
     SpecDefs LeafProofs LayerProofs.
Import ListNotations.
Local Open Scope N_scope.
(** ** A. keys and paths *)
Definition tbytes (t : ktuple) : key := bytes_of_slice (ks t) (kl t).
Definition kop (ts : list ktuple) : key := concat (map tbytes ts).
Definition mk9 (x : N) : ktuple := {| ks := x; kl := 9 |}.

Lemma pow256_nz m : 256 ^ m <> 0.
Proof. apply N.pow_nonzero. discriminate. Qed.

Lemma aux_length s : forall n i, length (bytes_of_slice_aux s n i) = n.
Proof. induction n as [|n IH]; intros i; cbn [bytes_of_slice_aux length]; [reflexivity|]. rewrite IH. reflexivity. Qed.

Lemma aux_bytes s : forall n i, bytes (bytes_of_slice_aux s n i).
Proof.
  induction n as [|n IH]; intros i; cbn [bytes_of_slice_aux]; [constructor|].
  constructor; [|apply IH]. apply N.mod_lt. discriminate.
Qed.

Lemma bos_length s n : length (bytes_of_slice s n) = N.to_nat (N.min n 8).
Proof. apply aux_length. Qed.

Lemma bos_bytes s n : bytes (bytes_of_slice s n).
Proof. apply aux_bytes. Qed.

Lemma aux_slice s more : forall n i, (i + n <= 8)%nat ->
  slice_of_bytes (bytes_of_slice_aux s n i ++ more) (8 - i) =
  (s mod 256 ^ N.of_nat (8 - i)) / 256 ^ N.of_nat (8 - i - n) * 256 ^ N.of_nat (8 - i - n)
  + slice_of_bytes more (8 - i - n).
Proof.
  induction n as [|n IH]; intros i Hi.
  - cbn [bytes_of_slice_aux app]. rewrite Nat.sub_0_r.
    rewrite N.div_small by (apply N.mod_lt; apply pow256_nz). reflexivity.
  - cbn [bytes_of_slice_aux app].
    destruct (8 - i)%nat as [|m'] eqn:Em; [lia|].
    assert (m' = 8 - S i)%nat as Hm' by lia.
    cbn [slice_of_bytes]. rewrite Hm'. rewrite IH by lia.
    replace (8 - S i - n)%nat with (S m' - S n)%nat by lia.
    set (d := (S m' - S n)%nat). rewrite <- Hm'.
    assert (8 * (7 - N.of_nat i) = 8 * N.of_nat m') as -> by lia.
    rewrite N.shiftr_div_pow2, N.pow_mul_r. change (2 ^ 8) with 256.
    rewrite Nat2N.inj_succ, N.pow_succ_r', (N.mul_comm 256).
    rewrite (N.mod_mul_r s (256 ^ N.of_nat m') 256) by (try apply pow256_nz; discriminate).
    set (b := (s / 256 ^ N.of_nat m') mod 256).
    set (x := s mod 256 ^ N.of_nat m').
    assert (256 ^ N.of_nat m' = 256 ^ N.of_nat (m' - d) * 256 ^ N.of_nat d) as E.
    { rewrite <- N.pow_add_r. f_equal. lia. }
    rewrite E. set (D := 256 ^ N.of_nat d). set (K := 256 ^ N.of_nat (m' - d)).
    replace (x + K * D * b) with (x + (K * b) * D) by ring.
    rewrite N.div_add by (apply pow256_nz).
    change (S m' - S n)%nat with d. fold D. ring.
Qed.

Lemma slice_nil n : slice_of_bytes [] n = 0.
Proof. destruct n; reflexivity. Qed.

Lemma slice_bos8 s more : s < 2 ^ 64 -> slice_of_bytes (bytes_of_slice s 8 ++ more) 8 = s.
Proof.
  intros H. unfold bytes_of_slice. change (N.to_nat (N.min 8 8)) with 8%nat.
  pose proof (aux_slice s more 8 0 ltac:(lia)) as E.
  change (8 - 0)%nat with 8%nat in E. rewrite E.
  change (8 - 8)%nat with 0%nat. rewrite slice_0.
  change (256 ^ N.of_nat 0) with 1. change (256 ^ N.of_nat 8) with (2 ^ 64).
  rewrite N.div_1_r, N.mul_1_r, N.add_0_r. apply N.mod_small. exact H.
Qed.

Lemma slice_tbytes t : kt_wf t = true -> kl t <= 8 -> slice_of_bytes (tbytes t) 8 = ks t.
Proof.
  intros Hw Hl. apply kt_wf_spec in Hw. destruct Hw as (_ & Hs & Hp).
  unfold tbytes, bytes_of_slice. replace (N.min (kl t) 8) with (kl t) by lia.
  set (n := N.to_nat (kl t)).
  pose proof (aux_slice (ks t) [] n 0 ltac:(lia)) as E. rewrite app_nil_r in E.
  change (8 - 0)%nat with 8%nat in E. rewrite E. rewrite slice_nil, N.add_0_r.
  change (256 ^ N.of_nat 8) with (2 ^ 64). rewrite (N.mod_small _ _ Hs).
  destruct (N.eq_dec (kl t) 8) as [E8|N8].
  - assert (8 - n = 0)%nat as -> by lia. change (256 ^ N.of_nat 0) with 1.
    rewrite N.div_1_r, N.mul_1_r. reflexivity.
  - specialize (Hp ltac:(lia)). rewrite N.pow_mul_r in Hp. change (2 ^ 8) with 256 in Hp.
    replace (N.of_nat (8 - n)) with (8 - kl t) by lia.
    pose proof (N.div_mod (ks t) (256 ^ (8 - kl t)) (pow256_nz _)) as D.
    rewrite Hp, N.add_0_r in D. rewrite N.mul_comm. symmetry. exact D.
Qed.

Lemma tbytes_length t : kl t <= 8 -> N.of_nat (length (tbytes t)) = kl t.
Proof. intros H. unfold tbytes. rewrite bos_length. lia. Qed.

Lemma tuple_of_tbytes t : kt_wf t = true -> kl t <= 8 -> tuple_of_key (tbytes t) = t.
Proof.
  intros Hw Hl. unfold tuple_of_key. rewrite (tbytes_length t Hl), (slice_tbytes t Hw Hl).
  destruct (N.ltb_spec 8 (kl t)); [lia|]. destruct t; reflexivity.
Qed.

Lemma tbytes9 t : kl t = 9 -> tbytes t = bytes_of_slice (ks t) 8.
Proof. intros H. unfold tbytes. rewrite H. reflexivity. Qed.

Lemma tuple_of_link t more :
  kt_wf t = true -> kl t = 9 -> more <> [] -> tuple_of_key (bytes_of_slice (ks t) 8 ++ more) = t.
Proof.
  intros Hw Hl Hm. apply kt_wf_spec in Hw. destruct Hw as (_ & Hs & _).
  unfold tuple_of_key. rewrite app_length, bos_length, (slice_bos8 _ _ Hs).
  destruct more as [|b more]; [contradiction|]. cbn [length].
  destruct (N.ltb_spec 8 (N.of_nat (N.to_nat (N.min 8 8) + S (length more)))); [|lia].
  destruct t as [s l]. cbn [ks kl] in *. subst l. reflexivity.
Qed.

Lemma skipn_bos8 s more : skipn 8 (bytes_of_slice s 8 ++ more) = more.
Proof.
  rewrite skipn_app, bos_length. change (N.to_nat (N.min 8 8)) with 8%nat.
  rewrite Nat.sub_diag. change (skipn 0 more) with more. rewrite skipn_all2 by (rewrite bos_length; cbn; lia). reflexivity.
Qed.

(** slices determine short byte strings *)
Lemma slice_inj n : forall a b, bytes a -> bytes b -> length a = length b -> (length a <= n)%nat ->
  slice_of_bytes a n = slice_of_bytes b n -> a = b.
Proof.
  induction n as [|m IH]; intros a b Ha Hb Hl Hn E.
  - destruct a; [|cbn in Hn; lia]. destruct b; [reflexivity|discriminate].
  - destruct a as [|x a'], b as [|y b']; try discriminate; [reflexivity|].
    cbn [slice_of_bytes] in E. cbn [length] in Hl, Hn.
    inversion Ha as [|? ? Ha1 Ha2]; subst. inversion Hb as [|? ? Hb1 Hb2]; subst.
    pose proof (slice_lt m a' Ha2) as Sa. pose proof (slice_lt m b' Hb2) as Sb.
    set (P := 256 ^ N.of_nat m) in *.
    set (sa := slice_of_bytes a' m) in *. set (sb := slice_of_bytes b' m) in *.
    assert (x = y /\ sa = sb) as [-> E2].
    { clearbody P sa sb. destruct (N.lt_trichotomy x y) as [H|[H|H]].
      - assert ((x + 1) * P <= y * P) by (apply N.mul_le_mono_r; lia). lia.
      - subst y. lia.
      - assert ((y + 1) * P <= x * P) by (apply N.mul_le_mono_r; lia). lia. }
    f_equal. apply IH; try assumption; lia.
Qed.

Lemma slice_firstn n : forall k, slice_of_bytes (firstn n k) n = slice_of_bytes k n.
Proof.
  induction n as [|m IH]; intros k; [rewrite !slice_0; reflexivity|].
  destruct k as [|b r]; [reflexivity|]. cbn [firstn slice_of_bytes]. rewrite IH. reflexivity.
Qed.

Lemma Forall_firstn' {A} (P : A -> Prop) n l : Forall P l -> Forall P (firstn n l).
Proof. apply Forall_firstn. Qed.

Lemma tbytes_tuple_short k : bytes k -> (length k <= 8)%nat -> tbytes (tuple_of_key k) = k.
Proof.
  intros Hb Hl. pose proof (tuple_of_key_wf k Hb) as Hw.
  assert (kl (tuple_of_key k) = N.of_nat (length k)) as Ek.
  { unfold tuple_of_key. destruct (N.ltb_spec 8 (N.of_nat (length k))); [lia|reflexivity]. }
  assert (ks (tuple_of_key k) = slice_of_bytes k 8) as Es.
  { unfold tuple_of_key. destruct (8 <? N.of_nat (length k)); reflexivity. }
  apply (slice_inj 8); [apply bos_bytes|exact Hb| | |].
  - pose proof (tbytes_length (tuple_of_key k) ltac:(lia)). lia.
  - pose proof (tbytes_length (tuple_of_key k) ltac:(lia)). lia.
  - rewrite slice_tbytes by (try assumption; lia). exact Es.
Qed.

Lemma bos8_tuple_long k : bytes k -> (8 < length k)%nat ->
  bytes_of_slice (ks (tuple_of_key k)) 8 = firstn 8 k.
Proof.
  intros Hb Hl. pose proof (tuple_of_key_wf k Hb) as Hw.
  apply kt_wf_spec in Hw. destruct Hw as (_ & Hs & _).
  assert (ks (tuple_of_key k) = slice_of_bytes k 8) as Es.
  { unfold tuple_of_key. destruct (8 <? N.of_nat (length k)); reflexivity. }
  apply (slice_inj 8); [apply bos_bytes|apply Forall_firstn; exact Hb| | |].
  - rewrite bos_length, firstn_length. change (N.to_nat (N.min 8 8)) with 8%nat. lia.
  - rewrite bos_length. change (N.to_nat (N.min 8 8)) with 8%nat. lia.
  - pose proof (slice_bos8 _ [] Hs) as E. rewrite app_nil_r in E. rewrite E, slice_firstn. exact Es.
Qed.

(** *** the path of a key *)
Lemma key_path_fuel : forall f f' k, (length k < f)%nat -> (length k < f')%nat ->
  key_path f k = key_path f' k.
Proof.
  induction f as [|f IH]; intros f' k H1 H2; [lia|]. destruct f' as [|f']; [lia|].
  cbn [key_path]. destruct (N.ltb_spec 8 (N.of_nat (length k))) as [H|H]; [|reflexivity].
  f_equal. apply IH; rewrite skipn_length; lia.
Qed.

Lemma path_short k : (length k <= 8)%nat -> path_of_key k = [tuple_of_key k].
Proof.
  intros H. unfold path_of_key, tuple_of_key. cbn [key_path].
  destruct (N.ltb_spec 8 (N.of_nat (length k))); [lia|reflexivity].
Qed.

Lemma path_long k : (8 < length k)%nat ->
  path_of_key k = tuple_of_key k :: path_of_key (skipn 8 k).
Proof.
  intros H. unfold path_of_key at 1. unfold tuple_of_key. cbn [key_path].
  destruct (N.ltb_spec 8 (N.of_nat (length k))); [|lia].
  f_equal. unfold path_of_key. apply key_path_fuel; rewrite skipn_length; lia.
Qed.

Lemma path_hd k : exists r, path_of_key k = tuple_of_key k :: r.
Proof.
  destruct (Nat.le_gt_cases (length k) 8) as [H|H].
  - exists []. apply path_short. exact H.
  - eexists. apply path_long. exact H.
Qed.

Lemma path_not_nil k : path_of_key k <> [].
Proof. destruct (path_hd k) as [r ->]. discriminate. Qed.

Lemma tuple_kl_short k : (length k <= 8)%nat -> kl (tuple_of_key k) = N.of_nat (length k).
Proof. intros H. unfold tuple_of_key. destruct (N.ltb_spec 8 (N.of_nat (length k))); [lia|reflexivity]. Qed.

Lemma tuple_kl_long k : (8 < length k)%nat -> kl (tuple_of_key k) = 9.
Proof. intros H. unfold tuple_of_key. destruct (N.ltb_spec 8 (N.of_nat (length k))); [reflexivity|lia]. Qed.

(** valid paths: well-formed tuples, length 9 except for the last one *)
Fixpoint vp (ts : list ktuple) : Prop :=
  match ts with
  | [] => False
  | t :: r => kt_wf t = true /\ match r with [] => kl t <= 8 | _ :: _ => kl t = 9 /\ vp r end
  end.
Definition nz (ts : list ktuple) : Prop := Forall (fun t => kl t <> 0) ts.

Lemma bytes_skipn n k : bytes k -> bytes (skipn n k).
Proof. apply Forall_skipn. Qed.

Lemma path_vp_aux : forall n k, (length k <= n)%nat -> bytes k ->
  vp (path_of_key k) /\ nz (tl (path_of_key k)) /\ (k <> [] -> nz (path_of_key k)).
Proof.
  induction n as [|n IH]; intros k Hn Hb.
  - destruct k; [|cbn in Hn; lia]. rewrite path_short by (cbn; lia).
    cbn [vp tl]. split; [split; [apply tuple_of_key_wf; constructor|cbn; lia]|].
    split; [constructor|]. intros X. contradiction.
  - destruct (Nat.le_gt_cases (length k) 8) as [H|H].
    + rewrite path_short by exact H. cbn [vp tl].
      split; [split; [apply tuple_of_key_wf; exact Hb|rewrite tuple_kl_short by exact H; lia]|].
      split; [constructor|]. intros X. constructor; [|constructor].
      rewrite tuple_kl_short by exact H. destruct k; [contradiction|cbn; lia].
    + rewrite path_long by exact H.
      destruct (IH (skipn 8 k)) as (V & Z1 & Z2); [rewrite skipn_length; lia|apply bytes_skipn; exact Hb|].
      assert (skipn 8 k <> []) as Hne.
      { intros X. apply (f_equal (@length N)) in X. rewrite skipn_length in X. cbn in X. lia. }
      specialize (Z2 Hne).
      assert (kl (tuple_of_key k) <> 0) as Hk0 by (rewrite tuple_kl_long by exact H; lia).
      split.
      { cbn [vp]. split; [apply tuple_of_key_wf; exact Hb|].
        destruct (path_of_key (skipn 8 k)) eqn:E; [exact (False_ind _ V)|].
        split; [apply tuple_kl_long; exact H|exact V]. }
      split; [exact Z2|]. intros _. constructor; assumption.
Qed.

Lemma path_vp k : bytes k -> vp (path_of_key k) /\ nz (tl (path_of_key k)).
Proof. intros H. destruct (path_vp_aux (length k) k (le_n _) H) as (A & B & _). split; assumption. Qed.

Lemma kop_path_aux : forall n k, (length k <= n)%nat -> bytes k -> kop (path_of_key k) = k.
Proof.
  induction n as [|n IH]; intros k Hn Hb.
  - destruct k; [reflexivity|cbn in Hn; lia].
  - destruct (Nat.le_gt_cases (length k) 8) as [H|H].
    + rewrite path_short by exact H. unfold kop. cbn [map concat]. rewrite app_nil_r.
      apply tbytes_tuple_short; assumption.
    + rewrite path_long by exact H. unfold kop. cbn [map concat]. fold (kop (path_of_key (skipn 8 k))).
      rewrite IH by (try apply bytes_skipn; try assumption; rewrite skipn_length; lia).
      rewrite tbytes9 by (apply tuple_kl_long; exact H).
      rewrite bos8_tuple_long by assumption. apply firstn_skipn.
Qed.

Theorem kop_path k : bytes k -> kop (path_of_key k) = k.
Proof. intros H. exact (kop_path_aux (length k) k (le_n _) H). Qed.

Theorem path_inj a b : bytes a -> bytes b -> path_of_key a = path_of_key b -> a = b.
Proof. intros Ha Hb E. rewrite <- (kop_path a Ha), <- (kop_path b Hb), E. reflexivity. Qed.

Lemma kop_bytes ts : bytes (kop ts).
Proof.
  induction ts as [|t ts IH]; [constructor|]. unfold kop. cbn [map concat].
  apply Forall_app. split; [apply bos_bytes|exact IH].
Qed.

Lemma kop_cons t ts : kop (t :: ts) = tbytes t ++ kop ts.
Proof. reflexivity. Qed.

Lemma tbytes_not_nil t : kl t <> 0 -> tbytes t <> [].
Proof.
  intros H X. apply (f_equal (@length N)) in X. unfold tbytes in X. rewrite bos_length in X. cbn in X. lia.
Qed.

Lemma kop_not_nil t ts : kl t <> 0 -> kop (t :: ts) <> [].
Proof.
  intros H X. rewrite kop_cons in X. apply app_eq_nil in X. destruct X as [X _].
  exact (tbytes_not_nil t H X).
Qed.

(** every valid path is the path of its key *)
Theorem path_kop ts : vp ts -> nz (tl ts) -> path_of_key (kop ts) = ts.
Proof.
  induction ts as [|t ts IH]; intros V Z; [contradiction|].
  cbn [vp] in V. destruct V as [Hw V]. destruct ts as [|t2 ts].
  - unfold kop. cbn [map concat]. rewrite app_nil_r.
    rewrite path_short by (pose proof (tbytes_length t V); lia).
    rewrite tuple_of_tbytes by assumption. reflexivity.
  - destruct V as [H9 V]. cbn [tl] in Z.
    assert (kl t2 <> 0) as Hz by (inversion Z; assumption).
    rewrite kop_cons, (tbytes9 t H9).
    assert (8 < length (bytes_of_slice (ks t) 8 ++ kop (t2 :: ts)))%nat as Hlen.
    { rewrite app_length, bos_length. change (N.to_nat (N.min 8 8)) with 8%nat.
      pose proof (kop_not_nil t2 ts Hz). destruct (kop (t2 :: ts)); [contradiction|cbn [length]; lia]. }
    rewrite path_long by exact Hlen. rewrite skipn_bos8.
    rewrite tuple_of_link by (try assumption; apply kop_not_nil; exact Hz).
    f_equal. apply IH; [exact V|]. cbn [tl]. inversion Z; assumption.
Qed.

Theorem path_tail k : (8 < length k)%nat ->
  path_of_key k = tuple_of_key k :: path_of_key (skipn 8 k) /\ kl (tuple_of_key k) = 9.
Proof. intros H. split; [apply path_long; exact H|apply tuple_kl_long; exact H]. Qed.

Theorem path_of_key_facts k : bytes k ->
  path_of_key k <> [] /\ Forall (fun t => kt_wf t = true) (path_of_key k) /\
  Forall (fun t => kl t = 9) (removelast (path_of_key k)) /\
  kl (last (path_of_key k) dk) <= 8 /\
  k = concat (map (fun t => bytes_of_slice (ks t) (kl t)) (path_of_key k)) /\
  hd dk (path_of_key k) = tuple_of_key k.
Proof.
  intros Hb. destruct (path_vp k Hb) as [V _]. pose proof (kop_path k Hb) as K.
  split; [apply path_not_nil|].
  assert (forall ts, vp ts -> Forall (fun t => kt_wf t = true) ts /\
            Forall (fun t => kl t = 9) (removelast ts) /\ kl (last ts dk) <= 8) as G.
  { induction ts as [|t ts IH]; intros W; [contradiction|]. cbn [vp] in W. destruct W as [Hw W].
    destruct ts as [|t2 ts].
    - split; [constructor; [exact Hw|constructor]|]. split; [constructor|exact W].
    - destruct W as [H9 W]. destruct (IH W) as (A & B & C).
      split; [constructor; assumption|]. split; [|exact C].
      change (removelast (t :: t2 :: ts)) with (t :: removelast (t2 :: ts)). constructor; assumption. }
  destruct (G _ V) as (A & B & C). split; [exact A|]. split; [exact B|]. split; [exact C|].
  split; [symmetry; exact K|]. destruct (path_hd k) as [r ->]. reflexivity.
Qed.

(** ** the lexicographic order and sorted association lists *)
Lemma lex_lt_irrefl a : lex_lt a a = false.
Proof. induction a as [|x a IH]; [reflexivity|]. cbn [lex_lt]. rewrite IH. lia. Qed.

Lemma lex_lt_trans : forall a b c, lex_lt a b = true -> lex_lt b c = true -> lex_lt a c = true.
Proof.
  induction a as [|x a IH]; intros [|y b] [|z c]; cbn [lex_lt]; try discriminate; try reflexivity.
  intros H1 H2.
  destruct (lex_lt a b) eqn:E1; destruct (lex_lt b c) eqn:E2.
  - rewrite (IH b c E1 E2). lia.
  - lia.
  - lia.
  - lia.
Qed.

Lemma lex_lt_trich : forall a b, lex_lt a b = false -> lex_lt b a = false -> a = b.
Proof.
  induction a as [|x a IH]; intros [|y b]; cbn [lex_lt]; try discriminate; try reflexivity.
  intros H1 H2.
  destruct (lex_lt a b) eqn:E1; destruct (lex_lt b a) eqn:E2; try lia.
  assert (x = y) as -> by lia. f_equal. apply IH; assumption.
Qed.

Lemma lex_lt_neq a b : lex_lt a b = true -> a <> b.
Proof. intros H ->. rewrite lex_lt_irrefl in H. discriminate. Qed.

Lemma lex_lt_asym a b : lex_lt a b = true -> lex_lt b a = false.
Proof.
  intros H. destruct (lex_lt b a) eqn:E; [|reflexivity].
  pose proof (lex_lt_trans _ _ _ H E) as X. rewrite lex_lt_irrefl in X. discriminate.
Qed.

Lemma lex_lt_app p a b : lex_lt (p ++ a) (p ++ b) = lex_lt a b.
Proof.
  induction p as [|x p IH]; [reflexivity|]. cbn [app lex_lt]. rewrite IH.
  destruct (lex_lt a b); lia.
Qed.

Lemma key_eqb_eq : forall a b, key_eqb a b = true <-> a = b.
Proof.
  induction a as [|x a IH]; intros [|y b]; cbn [key_eqb]; try (split; [discriminate|discriminate]).
  - split; reflexivity.
  - rewrite andb_true_iff, N.eqb_eq, IH. split.
    + intros [-> ->]. reflexivity.
    + intros H. injection H as -> ->. split; reflexivity.
Qed.

Lemma key_eqb_refl a : key_eqb a a = true.
Proof. apply key_eqb_eq. reflexivity. Qed.

Lemma key_eqb_neq a b : a <> b -> key_eqb a b = false.
Proof. intros H. destruct (key_eqb a b) eqn:E; [|reflexivity]. apply key_eqb_eq in E. contradiction. Qed.

Definition lex_sorted (m : smap) : Prop :=
  StronglySorted (fun x y => lex_lt (fst x) (fst y) = true) m.

Lemma lex_sorted_cons x m :
  lex_sorted (x :: m) <-> lex_sorted m /\ forall y, In y m -> lex_lt (fst x) (fst y) = true.
Proof.
  unfold lex_sorted. split.
  - intros H. apply StronglySorted_inv in H. destruct H as [H1 H2]. split; [exact H1|].
    rewrite Forall_forall in H2. exact H2.
  - intros [H1 H2]. constructor; [exact H1|]. apply Forall_forall. exact H2.
Qed.

Theorem lex_sorted_ext : forall m1 m2,
  lex_sorted m1 -> lex_sorted m2 -> (forall x, In x m1 <-> In x m2) -> m1 = m2.
Proof.
  induction m1 as [|a m1 IH]; intros m2 S1 S2 H.
  - destruct m2 as [|b m2]; [reflexivity|]. exfalso. apply (H b). left. reflexivity.
  - destruct m2 as [|b m2]; [exfalso; apply (H a); left; reflexivity|].
    apply lex_sorted_cons in S1, S2. destruct S1 as [S1 L1], S2 as [S2 L2].
    assert (a = b) as ->.
    { assert (In a (b :: m2)) as Ha by (apply H; left; reflexivity).
      assert (In b (a :: m1)) as Hb by (apply H; left; reflexivity).
      destruct Ha as [->|Ha]; [reflexivity|]. destruct Hb as [->|Hb]; [reflexivity|].
      pose proof (L2 _ Ha) as X. pose proof (L1 _ Hb) as Y.
      apply lex_lt_asym in X. congruence. }
    f_equal. apply IH; [exact S1|exact S2|]. intros x. split; intros Hx.
    + assert (In x (b :: m2)) as X by (apply H; right; exact Hx).
      destruct X as [<-|X]; [|exact X]. specialize (L1 _ Hx). rewrite lex_lt_irrefl in L1. discriminate.
    + assert (In x (b :: m1)) as X by (apply H; right; exact Hx).
      destruct X as [<-|X]; [|exact X]. specialize (L2 _ Hx). rewrite lex_lt_irrefl in L2. discriminate.
Qed.

Lemma lex_sorted_key_unique m k a b : lex_sorted m -> In (k, a) m -> In (k, b) m -> a = b.
Proof.
  induction m as [|x m IH]; intros S Ha Hb; [destruct Ha|].
  apply lex_sorted_cons in S. destruct S as [S L].
  destruct Ha as [->|Ha], Hb as [E|Hb].
  - congruence.
  - specialize (L _ Hb). cbn [fst] in L. rewrite lex_lt_irrefl in L. discriminate.
  - subst x. specialize (L _ Ha). cbn [fst] in L. rewrite lex_lt_irrefl in L. discriminate.
  - apply IH; assumption.
Qed.

Lemma smap_get_in m k a : lex_sorted m -> (smap_get m k = Some a <-> In (k, a) m).
Proof.
  intros S. split.
  - clear S. induction m as [|[k1 v1] m IH]; cbn [smap_get]; [discriminate|].
    destruct (key_eqb k1 k) eqn:E.
    + apply key_eqb_eq in E. subst k1. intros H. injection H as ->. left. reflexivity.
    + intros H. right. apply IH. exact H.
  - induction m as [|[k1 v1] m IH]; intros H; [destruct H|]. cbn [smap_get].
    destruct (key_eqb k1 k) eqn:E.
    + apply key_eqb_eq in E. subst k1. f_equal.
      eapply lex_sorted_key_unique; [exact S|left; reflexivity|exact H].
    + destruct H as [H|H]; [injection H as -> ->; rewrite key_eqb_refl in E; discriminate|].
      apply lex_sorted_cons in S. apply IH; [apply S|exact H].
Qed.

Lemma smap_get_none m k : lex_sorted m -> (smap_get m k = None <-> forall a, ~ In (k, a) m).
Proof.
  intros S. split.
  - intros E a H. apply (smap_get_in m k a S) in H. congruence.
  - intros H. destruct (smap_get m k) as [a|] eqn:E; [|reflexivity].
    apply (smap_get_in m k a S) in E. exfalso. exact (H a E).
Qed.

Lemma smap_put_in m k a : lex_sorted m -> forall k' a',
  In (k', a') (smap_put m k a) <-> (k' = k /\ a' = a) \/ (k' <> k /\ In (k', a') m).
Proof.
  induction m as [|[k1 v1] m IH]; intros S k' a'; cbn [smap_put].
  - split.
    + intros [H|[]]. injection H as <- <-. left. split; reflexivity.
    + intros [[-> ->]|[_ []]]. left. reflexivity.
  - apply lex_sorted_cons in S. destruct S as [S L]. cbn [fst] in L.
    destruct (key_eqb k1 k) eqn:E.
    + apply key_eqb_eq in E. subst k1. split.
      * intros [H|H]; [injection H as <- <-; left; split; reflexivity|].
        right. split; [|right; exact H]. specialize (L _ H). cbn [fst] in L.
        apply lex_lt_neq in L. congruence.
      * intros [[-> ->]|[Hne [H|H]]]; [left; reflexivity| |right; exact H].
        injection H as -> ->. contradiction.
    + destruct (lex_lt k k1) eqn:Lk.
      * split.
        -- intros [H|H]; [injection H as <- <-; left; split; reflexivity|].
           right. split; [|exact H]. destruct H as [H|H].
           ++ injection H as -> ->. apply lex_lt_neq in Lk. congruence.
           ++ specialize (L _ H). cbn [fst] in L. pose proof (lex_lt_trans _ _ _ Lk L) as X.
              apply lex_lt_neq in X. congruence.
        -- intros [[-> ->]|[_ H]]; [left; reflexivity|right; exact H].
      * split.
        -- intros [H|H].
           ++ injection H as -> ->. right. split; [|left; reflexivity].
              intros ->. rewrite key_eqb_refl in E. discriminate.
           ++ apply (IH S) in H. destruct H as [H|[H1 H2]]; [left; exact H|right; split; [exact H1|right; exact H2]].
        -- intros [H|[H1 [H2|H2]]].
           ++ right. apply (IH S). left. exact H.
           ++ left. exact H2.
           ++ right. apply (IH S). right. split; assumption.
Qed.

Lemma smap_put_sorted m k a : lex_sorted m -> lex_sorted (smap_put m k a).
Proof.
  induction m as [|[k1 v1] m IH]; intros S; cbn [smap_put].
  - constructor; constructor.
  - pose proof S as S0. apply lex_sorted_cons in S. destruct S as [S L]. cbn [fst] in L.
    destruct (key_eqb k1 k) eqn:E.
    + apply key_eqb_eq in E. subst k1. apply lex_sorted_cons. split; [exact S|exact L].
    + destruct (lex_lt k k1) eqn:Lk.
      * apply lex_sorted_cons. split; [exact S0|]. intros y [<-|Hy]; [exact Lk|].
        eapply lex_lt_trans; [exact Lk|apply L; exact Hy].
      * apply lex_sorted_cons. split; [apply IH; exact S|].
        intros [k' a'] Hy. apply (smap_put_in m k a S) in Hy. cbn [fst].
        destruct Hy as [[-> ->]|[_ Hy]]; [|apply (L _ Hy)].
        destruct (lex_lt k1 k) eqn:X; [reflexivity|]. exfalso.
        assert (k = k1) as -> by (apply lex_lt_trich; assumption).
        rewrite key_eqb_refl in E. discriminate.
Qed.

Lemma smap_del_in m k : lex_sorted m -> forall k' a',
  In (k', a') (smap_del m k) <-> k' <> k /\ In (k', a') m.
Proof.
  induction m as [|[k1 v1] m IH]; intros S k' a'; cbn [smap_del].
  - split; [intros []|intros [_ []]].
  - apply lex_sorted_cons in S. destruct S as [S L]. cbn [fst] in L.
    destruct (key_eqb k1 k) eqn:E.
    + apply key_eqb_eq in E. subst k1. split.
      * intros H. split; [|right; exact H]. specialize (L _ H). cbn [fst] in L.
        apply lex_lt_neq in L. congruence.
      * intros [Hne [H|H]]; [injection H as -> ->; contradiction|exact H].
    + split.
      * intros [H|H].
        -- injection H as -> ->. split; [|left; reflexivity].
           intros ->. rewrite key_eqb_refl in E. discriminate.
        -- apply (IH S) in H. destruct H as [H1 H2]. split; [exact H1|right; exact H2].
      * intros [H1 [H2|H2]]; [left; exact H2|right; apply (IH S); split; assumption].
Qed.

Lemma smap_del_sorted m k : lex_sorted m -> lex_sorted (smap_del m k).
Proof.
  induction m as [|[k1 v1] m IH]; intros S; cbn [smap_del]; [exact S|].
  apply lex_sorted_cons in S. destruct S as [S L].
  destruct (key_eqb k1 k); [exact S|]. apply lex_sorted_cons. split; [apply IH; exact S|].
  intros [k' a'] Hy. apply (smap_del_in m k S) in Hy. apply L. apply Hy.
Qed.

(** ** B. entries, lookups along a path, the abstraction *)
Definition mk (t : ktuple) (lv : lvw) : slot_t := {| sl_key := t; sl_lv := lv |}.

Definition lkp (l : list slot_t) (t : ktuple) : option lvw :=
  option_map sl_lv (find (fun s => kt_eq (sl_key s) t) l).

Lemma kt_eq_iff a b : kt_eq a b = true <-> a = b.
Proof. apply (proj1 (kt_eq_canon a b)). Qed.

Lemma kt_eq_refl a : kt_eq a a = true.
Proof. apply kt_eq_iff. reflexivity. Qed.

Lemma mk_eta s : mk (sl_key s) (sl_lv s) = s.
Proof. destruct s. reflexivity. Qed.

Lemma lkp_in l t lv : NoDup (map sl_key l) -> (lkp l t = Some lv <-> In (mk t lv) l).
Proof.
  unfold lkp. induction l as [|s l IH]; intros Hnd; cbn [find map].
  - split; [discriminate|intros []].
  - cbn [map] in Hnd. apply NoDup_cons_iff in Hnd. destruct Hnd as [Hs Hnd].
    destruct (kt_eq (sl_key s) t) eqn:E.
    + apply kt_eq_iff in E. subst t. cbn [option_map]. split.
      * intros H. injection H as <-. left. symmetry. apply mk_eta.
      * intros [H|H]; [rewrite H; reflexivity|].
        exfalso. apply Hs. change (sl_key s) with (sl_key (mk (sl_key s) lv)). apply in_map. exact H.
    + rewrite (IH Hnd). split.
      * intros H. right. exact H.
      * intros [H|H]; [|exact H]. subst s. cbn [mk sl_key] in E. rewrite kt_eq_refl in E. discriminate.
Qed.

Lemma lkp_none l t : lkp l t = None <-> ~ In t (map sl_key l).
Proof.
  unfold lkp. induction l as [|s l IH]; cbn [find map].
  - split; [intros _ []|reflexivity].
  - destruct (kt_eq (sl_key s) t) eqn:E.
    + apply kt_eq_iff in E. cbn [option_map]. split; [discriminate|].
      intros H. exfalso. apply H. left. exact E.
    + rewrite IH. split.
      * intros H [X|X]; [|exact (H X)]. rewrite X, kt_eq_refl in E. discriminate.
      * intros H X. apply H. right. exact X.
Qed.

Definition ent (ls : layers_t) (p : prefix) (t : ktuple) : option lvw :=
  match layer_get ls p with None => None | Some root => lkp (bt_elems root) t end.

(** lookup along a path, over an abstract entry function *)
Fixpoint LP (E : prefix -> ktuple -> option lvw) (p : prefix) (ts : list ktuple) : option value :=
  match ts with
  | [] => None
  | t :: rest =>
    match E p t with
    | None => None
    | Some lv =>
      match rest with
      | [] => match lv with LValue v => Some v | _ => None end
      | _ :: _ => match lv with LLink => LP E (p ++ [ks t]) rest | _ => None end
      end
    end
  end.

Definition mk9s (q : prefix) : list ktuple := map mk9 q.

Lemma mk9s_inj a b : mk9s a = mk9s b -> a = b.
Proof.
  revert b. induction a as [|x a IH]; intros [|y b] H; try discriminate; [reflexivity|].
  cbn in H. injection H as -> H. f_equal. apply IH. exact H.
Qed.

Lemma mk9_ks t : kl t = 9 -> mk9 (ks t) = t.
Proof. destruct t as [s l]. cbn. intros ->. reflexivity. Qed.

Lemma mk9s_snoc q t : kl t = 9 -> forall r, mk9s (q ++ [ks t]) ++ r = mk9s q ++ t :: r.
Proof.
  intros H r. unfold mk9s. rewrite map_app. cbn [map]. rewrite (mk9_ks t H), <- app_assoc. reflexivity.
Qed.

Lemma LP_ext E E' : (forall p t, E p t = E' p t) -> forall ts p, LP E p ts = LP E' p ts.
Proof.
  intros H. induction ts as [|t rest IH]; intros p; [reflexivity|]. cbn [LP]. rewrite H.
  destruct (E' p t) as [lv|]; [|reflexivity]. destruct rest; [reflexivity|].
  destruct lv; try reflexivity. apply IH.
Qed.

Lemma spot_dec (q0 q : prefix) (t' t : ktuple) : (q0 = q /\ t' = t) \/ (q0 <> q \/ t' <> t).
Proof.
  destruct (prefix_eqb_spec q0 q) as [->|H]; [|right; left; exact H].
  destruct (kt_eq t' t) eqn:E.
  - apply kt_eq_iff in E. left. split; [reflexivity|exact E].
  - right. right. intros ->. rewrite kt_eq_refl in E. discriminate.
Qed.

(** changing one terminal entry changes one lookup *)
Lemma LP_spot E E' q t :
  kl t <= 8 ->
  (forall q' t', q' <> q \/ t' <> t -> E' q' t' = E q' t') ->
  forall ts' q0, vp ts' -> mk9s q0 ++ ts' <> mk9s q ++ [t] -> LP E' q0 ts' = LP E q0 ts'.
Proof.
  intros Hl Hfr. induction ts' as [|t' rest IH]; intros q0 V Hne; [contradiction|].
  cbn [vp] in V. destruct V as [Hw V]. cbn [LP]. destruct rest as [|t2 r].
  - destruct (spot_dec q0 q t' t) as [[-> ->]|Hd]; [contradiction|].
    rewrite (Hfr _ _ Hd). reflexivity.
  - destruct V as [H9 V].
    assert (q0 <> q \/ t' <> t) as Hd by (right; intros ->; lia).
    rewrite (Hfr _ _ Hd). destruct (E q0 t') as [lv|]; [|reflexivity].
    destruct lv; try reflexivity. apply IH; [exact V|]. rewrite (mk9s_snoc q0 t' H9). exact Hne.
Qed.

Lemma LP_spot_none E' q t :
  E' q t = None ->
  forall ts' q0, vp ts' -> mk9s q0 ++ ts' = mk9s q ++ [t] -> LP E' q0 ts' = None.
Proof.
  intros HN. induction ts' as [|t' rest IH]; intros q0 V He; [contradiction|].
  cbn [vp] in V. destruct V as [Hw V]. cbn [LP]. destruct rest as [|t2 r].
  - apply app_inj_tail in He. destruct He as [He ->]. apply mk9s_inj in He. subst q0.
    rewrite HN. reflexivity.
  - destruct V as [H9 V]. destruct (E' q0 t') as [lv|]; [|reflexivity].
    destruct lv; try reflexivity. apply IH; [exact V|]. rewrite (mk9s_snoc q0 t' H9). exact He.
Qed.

(** a link whose target layer has no entries is invisible *)
Lemma LP_dangling E E' q t :
  kl t = 9 ->
  (forall t', E (q ++ [ks t]) t' = None) ->
  E' q t = None ->
  (forall q' t', q' <> q \/ t' <> t -> E' q' t' = E q' t') ->
  forall ts' q0, vp ts' -> LP E' q0 ts' = LP E q0 ts'.
Proof.
  intros H9 Hsub HN Hfr. induction ts' as [|t' rest IH]; intros q0 V; [contradiction|].
  cbn [vp] in V. destruct V as [Hw V]. cbn [LP].
  destruct (spot_dec q0 q t' t) as [[-> ->]|Hd].
  - rewrite HN. destruct rest as [|t2 r]; [lia|].
    destruct (E q t) as [lv|]; [|reflexivity]. destruct lv; try reflexivity.
    cbn [LP]. rewrite Hsub. reflexivity.
  - rewrite (Hfr _ _ Hd). destruct (E q0 t') as [lv|]; [|reflexivity].
    destruct rest as [|t2 r]; [reflexivity|]. destruct lv; try reflexivity.
    apply IH. apply V.
Qed.

Lemma LP_nz E :
  (forall p t lv, p <> [] -> E p t = Some lv -> kl t <> 0) ->
  forall ts p v, LP E p ts = Some v -> nz (tl ts) /\ (p <> [] -> nz ts).
Proof.
  intros HE. induction ts as [|t rest IH]; intros p v H; [discriminate|].
  cbn [LP] in H. destruct (E p t) as [lv|] eqn:El; [|discriminate].
  assert (nz rest) as Hr.
  { destruct rest as [|t2 r]; [constructor|]. destruct lv; try discriminate.
    apply (IH _ _ H). destruct p; discriminate. }
  split; [exact Hr|]. intros Hp. constructor; [|exact Hr]. exact (HE p t lv Hp El).
Qed.

(** *** the abstraction *)
Fixpoint abs_layer (fuel : nat) (ls : layers_t) (p : prefix) (pb : key) : list (key * aval) :=
  match fuel with
  | O => []
  | S f =>
    match layer_get ls p with
    | None => []
    | Some root =>
      flat_map (fun s => match sl_lv s with
                         | LValue v => [(pb ++ bytes_of_slice (ks (sl_key s)) (kl (sl_key s)), abs_value v)]
                         | LLink => abs_layer f ls (p ++ [ks (sl_key s)])
                                              (pb ++ bytes_of_slice (ks (sl_key s)) 8)
                         | LEmpty => []
                         end) (bt_elems root)
    end
  end.

Definition abs_tree (tr : tree) : smap :=
  if t_null tr then [] else abs_layer (S (length (t_layers tr))) (t_layers tr) [] [].

(** *** the store invariant; [d] = the one sub-layer whose link may dangle *)
Record WFL (ctr : N) (ls : layers_t) (d : option prefix) : Prop := {
  wl_nodup : NoDup (map fst ls);
  wl_layer : forall p root, layer_get ls p = Some root -> WF_layer root;
  wl_ids : forall p root i, layer_get ls p = Some root -> In i (bt_ids root) -> i < ctr;
  wl_disj : forall p q rp rq i, layer_get ls p = Some rp -> layer_get ls q = Some rq ->
            In i (bt_ids rp) -> In i (bt_ids rq) -> p = q;
  wl_link : forall p root x, layer_get ls p = Some root -> In (mk (mk9 x) LLink) (bt_elems root) ->
            Some (p ++ [x]) <> d -> layer_get ls (p ++ [x]) <> None;
  wl_parent : forall p x root, layer_get ls (p ++ [x]) = Some root ->
            bt_elems root <> [] /\
            exists r0, layer_get ls p = Some r0 /\ In (mk (mk9 x) LLink) (bt_elems r0);
  wl_nz : forall p x root s, layer_get ls (p ++ [x]) = Some root -> In s (bt_elems root) ->
            kl (sl_key s) <> 0;
  wl_exc : match d with
           | None => layer_get ls [] <> None
           | Some q => layer_get ls q = None /\
                       forall up x, q = up ++ [x] ->
                         exists r0, layer_get ls up = Some r0 /\ In (mk (mk9 x) LLink) (bt_elems r0)
           end
}.

Definition WF_store (ctr : N) (tr : tree) : Prop :=
  if t_null tr then True else WFL ctr (t_layers tr) None.

(** entries of well-formed layers *)
Section Layers.
  Variable ls : layers_t.
  Hypothesis Hwf : forall p root, layer_get ls p = Some root -> WF_layer root.

  Lemma layer_keys_NoDup p root : layer_get ls p = Some root -> NoDup (map sl_key (bt_elems root)).
  Proof. intros H. destruct (Hwf p root H) as [W _]. exact (WF_bt_keys_NoDup None None root W). Qed.

  Lemma layer_entry_ok p root s : layer_get ls p = Some root -> In s (bt_elems root) -> entry_ok s.
  Proof.
    intros H Hin. destruct (Hwf p root H) as [W _].
    pose proof (WF_bt_entries_ok None None root W) as F. rewrite Forall_forall in F. exact (F s Hin).
  Qed.

  Lemma ent_some p t lv :
    ent ls p t = Some lv <-> exists root, layer_get ls p = Some root /\ In (mk t lv) (bt_elems root).
  Proof.
    unfold ent. destruct (layer_get ls p) as [root|] eqn:E.
    - rewrite (lkp_in _ t lv (layer_keys_NoDup p root E)). split.
      + intros H. exists root. split; [reflexivity|exact H].
      + intros (r & Hr & H). injection Hr as <-. exact H.
    - split; [discriminate|]. intros (r & Hr & _). discriminate.
  Qed.

  Lemma ent_ok p t lv : ent ls p t = Some lv -> entry_ok (mk t lv).
  Proof. intros H. apply ent_some in H. destruct H as (root & E & Hin). exact (layer_entry_ok p root _ E Hin). Qed.

  Lemma abs_layer_in : forall f p pb k a,
    In (k, a) (abs_layer f ls p pb) <->
    exists ts v, vp ts /\ (length ts <= f)%nat /\ k = pb ++ kop ts /\
                 LP (ent ls) p ts = Some v /\ a = abs_value v.
  Proof.
    induction f as [|f IH]; intros p pb k a; cbn [abs_layer].
    - split; [intros []|]. intros (ts & v & V & Hl & _). destruct ts; [contradiction|cbn in Hl; lia].
    - destruct (layer_get ls p) as [root|] eqn:Eg.
      + rewrite in_flat_map. split.
        * intros (s & Hin & Hk). pose proof (layer_entry_ok p root s Eg Hin) as [Hw Hok].
          assert (ent ls p (sl_key s) = Some (sl_lv s)) as He.
          { apply ent_some. exists root. split; [exact Eg|]. rewrite mk_eta. exact Hin. }
          destruct (sl_lv s) as [|v|] eqn:Elv.
          -- destruct Hk.
          -- destruct Hk as [Hk|[]]. injection Hk as <- <-.
             exists [sl_key s], v. split; [split; assumption|]. split; [cbn; lia|].
             split; [unfold kop; cbn [map concat]; rewrite app_nil_r; reflexivity|].
             split; [|reflexivity]. cbn [LP]. rewrite He. reflexivity.
          -- apply IH in Hk. destruct Hk as (ts & v & V & Hl & -> & HLP & ->).
             exists (sl_key s :: ts), v. split.
             { cbn [vp]. split; [exact Hw|]. destruct ts; [contradiction|]. split; assumption. }
             split; [cbn [length]; lia|]. split.
             { rewrite kop_cons, (tbytes9 _ Hok), app_assoc. reflexivity. }
             split; [|reflexivity]. cbn [LP]. rewrite He. destruct ts; [contradiction|exact HLP].
        * intros (ts & v & V & Hl & -> & HLP & ->). destruct ts as [|t rest]; [contradiction|].
          cbn [LP] in HLP. destruct (ent ls p t) as [lv|] eqn:He; [|discriminate].
          pose proof He as He'. apply ent_some in He'. destruct He' as (r' & Er & Hin).
          rewrite Eg in Er. injection Er as <-.
          exists (mk t lv). split; [exact Hin|]. cbn [mk sl_key sl_lv].
          destruct rest as [|t2 r].
          -- destruct lv; try discriminate. injection HLP as ->. left.
             unfold kop. cbn [map concat]. rewrite app_nil_r. reflexivity.
          -- destruct lv; try discriminate. apply IH. exists (t2 :: r), v.
             cbn [vp] in V. destruct V as (Hw & H9 & V).
             split; [exact V|]. split; [cbn [length] in *; lia|].
             split; [rewrite kop_cons, (tbytes9 _ H9), app_assoc; reflexivity|].
             split; [exact HLP|reflexivity].
      + split; [intros []|]. intros (ts & v & V & _ & _ & HLP & _).
        destruct ts; [contradiction|]. cbn [LP] in HLP. unfold ent in HLP. rewrite Eg in HLP. discriminate.
  Qed.
End Layers.

(** ** C1. the abstraction is strictly sorted *)
Lemma lex_sorted_app a b :
  lex_sorted a -> lex_sorted b ->
  (forall u w, In u a -> In w b -> lex_lt (fst u) (fst w) = true) -> lex_sorted (a ++ b).
Proof.
  induction a as [|x a IH]; intros Sa Sb H; [exact Sb|]. cbn [app].
  apply lex_sorted_cons in Sa. destruct Sa as [Sa La]. apply lex_sorted_cons. split.
  - apply IH; [exact Sa|exact Sb|]. intros u w Hu Hw. apply H; [right; exact Hu|exact Hw].
  - intros y Hy. apply in_app_or in Hy. destruct Hy as [Hy|Hy]; [apply La; exact Hy|].
    apply H; [left; reflexivity|exact Hy].
Qed.

Lemma flat_map_sorted {A} (Q : A -> A -> Prop) (g : A -> smap) l :
  StronglySorted Q l ->
  (forall x, In x l -> lex_sorted (g x)) ->
  (forall x y, In x l -> In y l -> Q x y ->
     forall u w, In u (g x) -> In w (g y) -> lex_lt (fst u) (fst w) = true) ->
  lex_sorted (flat_map g l).
Proof.
  induction l as [|x l IH]; intros S Hs Hc; [constructor|]. cbn [flat_map].
  apply StronglySorted_inv in S. destruct S as [S F]. rewrite Forall_forall in F.
  apply lex_sorted_app.
  - apply Hs. left. reflexivity.
  - apply IH; [exact S| |].
    + intros y Hy. apply Hs. right. exact Hy.
    + intros a b Ha Hb. apply Hc; right; assumption.
  - intros u w Hu Hw. apply in_flat_map in Hw. destruct Hw as (y & Hy & Hw).
    apply (Hc x y); [left; reflexivity|right; exact Hy|apply F; exact Hy|exact Hu|exact Hw].
Qed.

Lemma StronglySorted_map_inv {A B} (f : A -> B) (R : B -> B -> Prop) l :
  StronglySorted R (map f l) -> StronglySorted (fun a b => R (f a) (f b)) l.
Proof.
  induction l as [|x l IH]; intros S; [constructor|]. cbn [map] in S.
  apply StronglySorted_inv in S. destruct S as [S F]. constructor; [apply IH; exact S|].
  rewrite Forall_forall in *. intros y Hy. apply F. apply in_map. exact Hy.
Qed.

Section Sorted.
  Variable ls : layers_t.
  Hypothesis Hwf : forall p root, layer_get ls p = Some root -> WF_layer root.
  Hypothesis Hnz : forall p x root s, layer_get ls (p ++ [x]) = Some root -> In s (bt_elems root) ->
                     kl (sl_key s) <> 0.

  Lemma ent_nz p t lv : p <> [] -> ent ls p t = Some lv -> kl t <> 0.
  Proof.
    intros Hp He. apply (ent_some ls Hwf) in He. destruct He as (root & Eg & Hin).
    destruct (exists_last Hp) as (q & x & ->). exact (Hnz q x root _ Eg Hin).
  Qed.

  Lemma abs_layer_shape f p pb k a :
    In (k, a) (abs_layer f ls p pb) -> exists r, k = pb ++ r /\ bytes r /\ (p <> [] -> r <> []).
  Proof.
    intros H. apply (abs_layer_in ls Hwf) in H. destruct H as (ts & v & V & _ & -> & HLP & _).
    exists (kop ts). split; [reflexivity|]. split; [apply kop_bytes|]. intros Hp.
    destruct (LP_nz (ent ls) ent_nz ts p v HLP) as [_ Z]. specialize (Z Hp).
    destruct ts as [|t r]; [contradiction|]. apply kop_not_nil. inversion Z; assumption.
  Qed.

  Lemma abs_layer_sorted : forall f p pb, lex_sorted (abs_layer f ls p pb).
  Proof.
    induction f as [|f IH]; intros p pb; cbn [abs_layer]; [constructor|].
    destruct (layer_get ls p) as [root|] eqn:Eg; [|constructor].
    destruct (Hwf p root Eg) as [W _].
    pose proof (WF_bt_sorted None None root W) as Hs. unfold bt_keys, sorted_keys in Hs.
    apply StronglySorted_map_inv in Hs.
    set (g := fun s : slot_t => match sl_lv s with
                | LValue v => [(pb ++ bytes_of_slice (ks (sl_key s)) (kl (sl_key s)), abs_value v)]
                | LLink => abs_layer f ls (p ++ [ks (sl_key s)]) (pb ++ bytes_of_slice (ks (sl_key s)) 8)
                | LEmpty => [] end).
    assert (forall s u, In s (bt_elems root) -> In u (g s) ->
              exists r, fst u = pb ++ r /\ bytes r /\ tuple_of_key r = sl_key s) as Hshape.
    { intros s [k a] Hin Hu. pose proof (layer_entry_ok ls Hwf p root s Eg Hin) as [Hw Hok].
      unfold g in Hu. destruct (sl_lv s) as [|v|] eqn:Elv.
      - destruct Hu.
      - destruct Hu as [Hu|[]]. injection Hu as <- <-. exists (tbytes (sl_key s)).
        split; [reflexivity|]. split; [apply bos_bytes|]. apply tuple_of_tbytes; assumption.
      - apply abs_layer_shape in Hu. destruct Hu as (r & -> & Hb & Hne).
        exists (bytes_of_slice (ks (sl_key s)) 8 ++ r). cbn [fst].
        split; [rewrite app_assoc; reflexivity|]. split; [apply Forall_app; split; [apply bos_bytes|exact Hb]|].
        apply tuple_of_link; try assumption. apply Hne. destruct p; discriminate. }
    apply (flat_map_sorted (fun a b => canon_lt (sl_key a) (sl_key b) = true) g _ Hs).
    - intros s Hin. unfold g. destruct (sl_lv s); [constructor|constructor; constructor|apply IH].
    - intros s1 s2 H1 H2 Hlt u w Hu Hw.
      destruct (Hshape s1 u H1 Hu) as (r1 & E1 & B1 & T1).
      destruct (Hshape s2 w H2 Hw) as (r2 & E2 & B2 & T2).
      unfold key in *. rewrite E1, E2, lex_lt_app, (lex_tuple r1 r2 B1 B2), T1, T2, Hlt. reflexivity.
  Qed.
End Sorted.

(** *** depth of the layers *)
Lemma layer_prefix_closed ctr ls d p : WFL ctr ls d ->
  forall r, layer_get ls (p ++ r) <> None -> layer_get ls p <> None.
Proof.
  intros W. induction r as [|x r IH] using rev_ind; intros H; [rewrite app_nil_r in H; exact H|].
  apply IH. rewrite app_assoc in H. destruct (layer_get ls ((p ++ r) ++ [x])) as [root|] eqn:E; [|contradiction].
  destruct (wl_parent _ _ _ W _ _ _ E) as (_ & r0 & E0 & _). rewrite E0. discriminate.
Qed.

Lemma layer_depth ctr ls d p : WFL ctr ls d -> layer_get ls p <> None -> (length p < length ls)%nat.
Proof.
  intros W H.
  assert (incl (seq 0 (S (length p))) (map (fun x => length (fst x)) ls)) as Hi.
  { intros i Hi. apply in_seq in Hi.
    assert (layer_get ls (firstn i p) <> None) as Hf.
    { apply (layer_prefix_closed ctr ls d _ W (skipn i p)). rewrite firstn_skipn. exact H. }
    destruct (layer_get ls (firstn i p)) as [root|] eqn:E; [|contradiction].
    apply layer_get_in in E. apply in_map_iff. exists (firstn i p, root). split; [|exact E].
    cbn [fst]. rewrite firstn_length. lia. }
  pose proof (NoDup_incl_length (seq_NoDup _ _) Hi) as L. rewrite seq_length, map_length in L. exact L.
Qed.

Lemma LP_layer ls : forall ts p v,
  LP (ent ls) p ts = Some v -> layer_get ls (p ++ map ks (removelast ts)) <> None.
Proof.
  induction ts as [|t rest IH]; intros p v H; [discriminate|]. cbn [LP] in H.
  destruct (ent ls p t) as [lv|] eqn:E; [|discriminate]. destruct rest as [|t2 r].
  - cbn [removelast map]. rewrite app_nil_r. unfold ent in E. destruct (layer_get ls p); discriminate.
  - destruct lv; try discriminate. apply IH in H.
    change (removelast (t :: t2 :: r)) with (t :: removelast (t2 :: r)). cbn [map].
    rewrite <- app_assoc in H. exact H.
Qed.

Lemma removelast_length {A} (l : list A) : length (removelast l) = (length l - 1)%nat.
Proof.
  induction l as [|a l IH]; [reflexivity|]. destruct l as [|b l]; [reflexivity|].
  change (removelast (a :: b :: l)) with (a :: removelast (b :: l)). cbn [length] in *. lia.
Qed.

(** *** membership in the abstraction = successful lookup *)
Theorem abs_layers_in ctr ls k a : WFL ctr ls None ->
  (In (k, a) (abs_layer (S (length ls)) ls [] []) <->
   bytes k /\ exists v, LP (ent ls) [] (path_of_key k) = Some v /\ a = abs_value v).
Proof.
  intros W. pose proof (wl_layer _ _ _ W) as Hwf.
  rewrite (abs_layer_in ls Hwf). split.
  - intros (ts & v & V & _ & -> & HLP & ->). cbn [app]. split; [apply kop_bytes|].
    exists v. split; [|reflexivity].
    destruct (LP_nz (ent ls) (ent_nz ls Hwf (wl_nz _ _ _ W)) ts [] v HLP) as [Z _].
    rewrite (path_kop ts V Z). exact HLP.
  - intros (Hb & v & HLP & ->). exists (path_of_key k), v. destruct (path_vp k Hb) as [V _].
    split; [exact V|]. split.
    + pose proof (LP_layer ls _ _ _ HLP) as HL. apply (layer_depth ctr ls None _ W) in HL.
      cbn [app] in HL. rewrite map_length, removelast_length in HL. lia.
    + split; [cbn [app]; symmetry; apply kop_path; exact Hb|]. split; [exact HLP|reflexivity].
Qed.

Definition lookup (tr : tree) (k : key) : option value :=
  if t_null tr then None else LP (ent (t_layers tr)) [] (path_of_key k).

Theorem abs_tree_in ctr tr k a : WF_store ctr tr ->
  (In (k, a) (abs_tree tr) <-> bytes k /\ exists v, lookup tr k = Some v /\ a = abs_value v).
Proof.
  unfold WF_store, abs_tree, lookup. destruct (t_null tr).
  - intros _. split; [intros []|]. intros (_ & v & H & _). discriminate.
  - apply abs_layers_in.
Qed.

Theorem abs_tree_sorted ctr tr : WF_store ctr tr -> lex_sorted (abs_tree tr).
Proof.
  unfold WF_store, abs_tree. destruct (t_null tr); intros W; [constructor|].
  apply abs_layer_sorted; [exact (wl_layer _ _ _ W)|exact (wl_nz _ _ _ W)].
Qed.

Theorem abs_tree_get ctr tr k : WF_store ctr tr -> bytes k ->
  smap_get (abs_tree tr) k = option_map abs_value (lookup tr k).
Proof.
  intros W Hb. pose proof (abs_tree_sorted ctr tr W) as S.
  destruct (lookup tr k) as [v|] eqn:E; cbn [option_map].
  - apply (smap_get_in _ _ _ S). apply (abs_tree_in ctr tr k _ W). split; [exact Hb|].
    exists v. split; [exact E|reflexivity].
  - apply (smap_get_none _ _ S). intros a H. apply (abs_tree_in ctr tr k a W) in H.
    destruct H as (_ & v & H & _). congruence.
Qed.

(** ** entries after [layer_set] / [layer_del] *)
Lemma ent_set_same ls p r t : ent (layer_set ls p r) p t = lkp (bt_elems r) t.
Proof. unfold ent. rewrite layer_get_set_same. reflexivity. Qed.

Lemma ent_set_other ls p q r t : p <> q -> ent (layer_set ls p r) q t = ent ls q t.
Proof. intros H. unfold ent. rewrite layer_get_set_other by exact H. reflexivity. Qed.

Lemma ent_del_same ls p t : NoDup (map fst ls) -> ent (layer_del ls p) p t = None.
Proof. intros H. unfold ent. rewrite layer_get_del_same by exact H. reflexivity. Qed.

Lemma ent_del_other ls p q t : p <> q -> ent (layer_del ls p) q t = ent ls q t.
Proof. intros H. unfold ent. rewrite layer_get_del_other by exact H. reflexivity. Qed.

Lemma ent_absent ls p t : layer_get ls p = None -> ent ls p t = None.
Proof. intros H. unfold ent. rewrite H. reflexivity. Qed.

Lemma lkp_ext l l' t :
  NoDup (map sl_key l) -> NoDup (map sl_key l') ->
  (forall lv, In (mk t lv) l <-> In (mk t lv) l') -> lkp l t = lkp l' t.
Proof.
  intros N1 N2 H. destruct (lkp l t) as [lv|] eqn:E.
  - apply (lkp_in l t lv N1) in E. apply H in E. apply (lkp_in l' t lv N2) in E. symmetry. exact E.
  - destruct (lkp l' t) as [lv|] eqn:E'; [|reflexivity].
    apply (lkp_in l' t lv N2) in E'. apply H in E'. apply (lkp_in l t lv N1) in E'. congruence.
Qed.

Lemma lkp_single_same t lv : lkp [mk t lv] t = Some lv.
Proof. unfold lkp. cbn [find mk sl_key]. rewrite kt_eq_refl. reflexivity. Qed.

Lemma lkp_single_other s t : sl_key s <> t -> lkp [s] t = None.
Proof. intros H. apply lkp_none. cbn [map]. intros [X|[]]. contradiction. Qed.

Lemma snoc_neq {A} (p : list A) x : p ++ [x] <> p.
Proof. intros H. apply (f_equal (@length A)) in H. rewrite app_length in H. cbn in H. lia. Qed.

Lemma snoc_neq' {A} (p : list A) x : p <> p ++ [x].
Proof. intros H. symmetry in H. exact (snoc_neq p x H). Qed.

Lemma link_entry s : entry_ok s -> sl_lv s = LLink -> s = mk (mk9 (ks (sl_key s))) LLink.
Proof.
  intros [_ Hok] E. rewrite E in Hok. destruct s as [t lv]. cbn [sl_key sl_lv] in *. subst lv.
  unfold mk. rewrite (mk9_ks t Hok). reflexivity.
Qed.

Lemma mk_inj t lv t' lv' : mk t lv = mk t' lv' -> t = t' /\ lv = lv'.
Proof. intros H. injection H as -> ->. split; reflexivity. Qed.

Lemma mk9_inj x y : mk9 x = mk9 y -> x = y.
Proof. intros H. injection H as ->. reflexivity. Qed.

(** ** one step of a walk *)
Lemma walk_step ctr ls d p root t :
  WFL ctr ls d -> layer_get ls p = Some root -> kt_wf t = true ->
  exists l, find_leaf root t = Some l /\
    match leaf_lookup l t with
    | None => ent ls p t = None /\ ~ In t (bt_keys root)
    | Some (_, _, s) => In s (bt_elems root) /\ sl_key s = t /\ ent ls p t = Some (sl_lv s) /\ entry_ok s
    end.
Proof.
  intros W Eg Hk. pose proof (wl_layer _ _ _ W) as Hwf. destruct (Hwf p root Eg) as [Wb _].
  destruct (find_leaf_spec root t Wb Hk) as (l & Ef & _). exists l. split; [exact Ef|].
  destruct (find_leaf_lookup root t l Wb Hk Ef) as [A B].
  destruct (leaf_lookup l t) as [[[r slot] s]|] eqn:El.
  - destruct (B r slot s eq_refl) as (Hin & Hs & _). split; [exact Hin|]. split; [exact Hs|]. split.
    + apply (ent_some ls Hwf). exists root. split; [exact Eg|]. rewrite <- Hs, mk_eta. exact Hin.
    + exact (layer_entry_ok ls Hwf p root s Eg Hin).
  - assert (~ In t (bt_keys root)) as Hn by (apply A; reflexivity). split; [|exact Hn].
    unfold ent. rewrite Eg. apply lkp_none. exact Hn.
Qed.

(** ** C2. get *)
Lemma get_walk_spec ctr ls : WFL ctr ls None ->
  forall ts p, vp ts -> layer_get ls p <> None ->
  exists o, get_walk ts p ls = Some o /\
    match LP (ent ls) p ts with
    | Some v => go_status o = St_OK /\ go_value o = Some v
    | None => go_status o = St_WARN_NOT_EXIST /\ go_value o = None
    end.
Proof.
  intros W. induction ts as [|t rest IH]; intros p V Hp; [contradiction|].
  cbn [vp] in V. destruct V as [Hw V].
  destruct (layer_get ls p) as [root|] eqn:Eg; [|contradiction].
  destruct (walk_step ctr ls None p root t W Eg Hw) as (l & Ef & Hl).
  cbn [get_walk LP]. rewrite Eg, Ef.
  destruct (leaf_lookup l t) as [[[r slot] s]|].
  - destruct Hl as (Hin & Hs & He & [_ Hok]). rewrite Hs in Hok. rewrite He. destruct rest as [|t2 r2].
    + destruct (sl_lv s) as [|ov|]; [contradiction| |lia].
      eexists. split; [reflexivity|]. cbn. split; reflexivity.
    + destruct V as [H9 V]. destruct (sl_lv s) as [|ov|] eqn:Elv; [contradiction|lia|].
      apply IH; [exact V|].
      apply (wl_link _ _ _ W p root (ks t) Eg); [|discriminate].
      rewrite (mk9_ks t H9). rewrite <- Hs, <- Elv, mk_eta. exact Hin.
  - destruct Hl as [He _]. rewrite He. eexists. split; [reflexivity|]. cbn. split; reflexivity.
Qed.

Theorem get_refines ctr tr k : WF_store ctr tr -> bytes k ->
  exists o, get tr k = Some o /\
    match smap_get (abs_tree tr) k with
    | Some a => go_status o = St_OK /\ option_map abs_value (go_value o) = Some a
    | None => go_status o = St_WARN_NOT_EXIST /\ go_value o = None
    end.
Proof.
  intros W Hb. rewrite (abs_tree_get ctr tr k W Hb). unfold get, lookup. unfold WF_store in W.
  destruct (t_null tr).
  - eexists. split; [reflexivity|]. cbn. split; reflexivity.
  - destruct (path_vp k Hb) as [V _].
    destruct (get_walk_spec ctr _ W (path_of_key k) [] V (wl_exc _ _ _ W)) as (o & E & H).
    exists o. split; [exact E|]. destruct (LP (ent (t_layers tr)) [] (path_of_key k)); cbn [option_map].
    + destruct H as [H1 H2]. rewrite H2. split; [exact H1|reflexivity].
    + exact H.
Qed.

(** ** preservation of the invariant by [layer_set] and [layer_del] *)
Lemma no_below ctr ls q : WFL ctr ls (Some q) -> forall r, layer_get ls (q ++ r) = None.
Proof.
  intros W r. destruct (layer_get ls (q ++ r)) eqn:E; [|reflexivity]. exfalso.
  apply (layer_prefix_closed ctr ls (Some q) q W r); [rewrite E; discriminate|].
  apply (wl_exc _ _ _ W).
Qed.

Lemma root_exists ctr ls d p : WFL ctr ls d -> (layer_get ls p <> None \/ d = Some p) -> p <> [] ->
  layer_get ls [] <> None.
Proof.
  intros W [H|H] Hp.
  - apply (layer_prefix_closed ctr ls d [] W p). exact H.
  - subst d. destruct (exists_last Hp) as (up & x & ->).
    destruct (proj2 (wl_exc _ _ _ W) up x eq_refl) as (r0 & E & _).
    apply (layer_prefix_closed ctr ls _ [] W up). cbn [app]. rewrite E. discriminate.
Qed.

Lemma WFL_set ctr ctr' ls d d' p root' :
  WFL ctr ls d -> ctr <= ctr' ->
  WF_layer root' ->
  (forall i, In i (bt_ids root') -> i < ctr') ->
  (forall i, In i (bt_ids root') ->
     (exists root, layer_get ls p = Some root /\ In i (bt_ids root)) \/ ctr <= i) ->
  (forall x, layer_get ls (p ++ [x]) <> None -> In (mk (mk9 x) LLink) (bt_elems root')) ->
  (forall x, In (mk (mk9 x) LLink) (bt_elems root') ->
     layer_get ls (p ++ [x]) <> None \/ d' = Some (p ++ [x])) ->
  (layer_get ls p <> None \/ d = Some p) ->
  (p <> [] -> bt_elems root' <> [] /\ forall s, In s (bt_elems root') -> kl (sl_key s) <> 0) ->
  (d = None \/ d = Some p \/ exists x, d = Some (p ++ [x]) /\ ~ In (mk (mk9 x) LLink) (bt_elems root')) ->
  (d' = None \/ exists x, d' = Some (p ++ [x]) /\ layer_get ls (p ++ [x]) = None /\
                          In (mk (mk9 x) LLink) (bt_elems root')) ->
  WFL ctr' (layer_set ls p root') d'.
Proof.
  intros W Hc Hwf' Hids Hfresh Hkids Hlinks Hatt Hne Hold Hnew.
  assert (forall q, layer_get (layer_set ls p root') q =
                    if prefix_eqb p q then Some root' else layer_get ls q) as G.
  { intros q. destruct (prefix_eqb_spec p q) as [<-|Hn].
    - apply layer_get_set_same.
    - apply layer_get_set_other. exact Hn. }
  constructor.
  - apply layer_set_NoDup. apply (wl_nodup _ _ _ W).
  - intros q r. rewrite G. destruct (prefix_eqb_spec p q) as [<-|Hn].
    + intros H. injection H as <-. exact Hwf'.
    + apply (wl_layer _ _ _ W).
  - intros q r i. rewrite G. destruct (prefix_eqb_spec p q) as [<-|Hn].
    + intros H. injection H as <-. apply Hids.
    + intros H Hi. pose proof (wl_ids _ _ _ W q r i H Hi). lia.
  - assert (forall q rq i, p <> q -> layer_get ls q = Some rq -> In i (bt_ids root') ->
              In i (bt_ids rq) -> False) as X.
    { intros q rq i Hn Hq Hi Hi'. destruct (Hfresh i Hi) as [(r0 & E0 & Hi0)|Hge].
      - apply Hn. exact (wl_disj _ _ _ W p q r0 rq i E0 Hq Hi0 Hi').
      - pose proof (wl_ids _ _ _ W q rq i Hq Hi'). lia. }
    intros q1 q2 r1 r2 i. rewrite !G.
    destruct (prefix_eqb_spec p q1) as [<-|Hn1]; destruct (prefix_eqb_spec p q2) as [<-|Hn2].
    + reflexivity.
    + intros H1 H2 Hi1 Hi2. injection H1 as <-. exfalso. exact (X q2 r2 i Hn2 H2 Hi1 Hi2).
    + intros H1 H2 Hi1 Hi2. injection H2 as <-. exfalso. exact (X q1 r1 i Hn1 H1 Hi2 Hi1).
    + apply (wl_disj _ _ _ W).
  - intros q r x. rewrite !G. destruct (prefix_eqb_spec p q) as [<-|Hn].
    + intros H Hin Hd. injection H as <-. rewrite (prefix_eqb_neq _ _ (snoc_neq' p x)).
      destruct (Hlinks x Hin) as [H|H]; [exact H|]. exfalso. apply Hd. symmetry. exact H.
    + intros H Hin Hd. destruct (prefix_eqb_spec p (q ++ [x])) as [E|Hn2]; [discriminate|].
      apply (wl_link _ _ _ W q r x H Hin).
      destruct Hold as [->|[->|(y & -> & _)]]; [discriminate| |].
      * intros X. injection X as X. apply Hn2. symmetry. exact X.
      * intros X. injection X as X. apply app_inj_tail in X. destruct X as [X _]. apply Hn. symmetry. exact X.
  - intros q x r. rewrite !G. destruct (prefix_eqb_spec p (q ++ [x])) as [E|Hn].
    + intros H. injection H as <-.
      assert (p <> []) as Hp by (rewrite E; destruct q; discriminate).
      split; [apply (Hne Hp)|]. rewrite (prefix_eqb_neq p q) by (rewrite E; apply snoc_neq).
      destruct Hatt as [H|H].
      * destruct (layer_get ls p) as [rp|] eqn:Ep; [|contradiction]. rewrite E in Ep.
        apply (wl_parent _ _ _ W q x rp Ep).
      * subst d. exact (proj2 (wl_exc _ _ _ W) q x E).
    + intros H. destruct (wl_parent _ _ _ W q x r H) as (Hnn & r0 & E0 & Hin0).
      split; [exact Hnn|]. destruct (prefix_eqb_spec p q) as [<-|Hn2].
      * exists root'. split; [reflexivity|]. apply Hkids. rewrite H. discriminate.
      * exists r0. split; assumption.
  - intros q x r s. rewrite G. destruct (prefix_eqb_spec p (q ++ [x])) as [E|Hn].
    + intros H Hin. injection H as <-.
      assert (p <> []) as Hp by (rewrite E; destruct q; discriminate).
      apply (proj2 (Hne Hp)). exact Hin.
    + apply (wl_nz _ _ _ W).
  - destruct Hnew as [->|(x & -> & Hx & Hin)].
    + rewrite G. destruct (prefix_eqb_spec p []) as [E|Hn]; [discriminate|].
      apply (root_exists ctr ls d p W Hatt). intros X. apply Hn. exact X.
    + split.
      * rewrite G, (prefix_eqb_neq _ _ (snoc_neq' p x)). exact Hx.
      * intros up y E. apply app_inj_tail in E. destruct E as [<- <-].
        exists root'. split; [apply layer_get_set_same|exact Hin].
Qed.

Lemma WFL_del ctr ls d p root :
  WFL ctr ls d -> p <> [] -> layer_get ls p = Some root ->
  (forall x, In (mk (mk9 x) LLink) (bt_elems root) -> d = Some (p ++ [x])) ->
  (d = None \/ exists x, d = Some (p ++ [x])) ->
  WFL ctr (layer_del ls p) (Some p).
Proof.
  intros W Hp Eg Hlinks Hd. pose proof (wl_nodup _ _ _ W) as Hnd.
  assert (forall q, layer_get (layer_del ls p) q =
                    if prefix_eqb p q then None else layer_get ls q) as G.
  { intros q. destruct (prefix_eqb_spec p q) as [<-|Hn].
    - apply layer_get_del_same. exact Hnd.
    - apply layer_get_del_other. exact Hn. }
  constructor.
  - apply layer_del_NoDup. exact Hnd.
  - intros q r. rewrite G. destruct (prefix_eqb p q); [discriminate|]. apply (wl_layer _ _ _ W).
  - intros q r i. rewrite G. destruct (prefix_eqb p q); [discriminate|]. apply (wl_ids _ _ _ W).
  - intros q1 q2 r1 r2 i. rewrite !G. destruct (prefix_eqb p q1); [discriminate|].
    destruct (prefix_eqb p q2); [discriminate|]. apply (wl_disj _ _ _ W).
  - intros q r x. rewrite !G. destruct (prefix_eqb_spec p q) as [<-|Hn]; [discriminate|].
    intros H Hin Hne. destruct (prefix_eqb_spec p (q ++ [x])) as [E|Hn2]; [congruence|].
    apply (wl_link _ _ _ W q r x H Hin). destruct Hd as [->|(y & ->)]; [discriminate|].
    intros X. injection X as X. apply app_inj_tail in X. destruct X as [X _]. apply Hn. symmetry. exact X.
  - intros q x r. rewrite !G. destruct (prefix_eqb_spec p (q ++ [x])) as [E|Hn]; [discriminate|].
    intros H. destruct (wl_parent _ _ _ W q x r H) as (Hnn & r0 & E0 & Hin0).
    split; [exact Hnn|]. destruct (prefix_eqb_spec p q) as [<-|Hn2].
    + exfalso. rewrite Eg in E0. injection E0 as <-. pose proof (Hlinks x Hin0) as X. subst d.
      pose proof (proj1 (wl_exc _ _ _ W)) as Y. congruence.
    + exists r0. split; assumption.
  - intros q x r s. rewrite G. destruct (prefix_eqb p (q ++ [x])); [discriminate|]. apply (wl_nz _ _ _ W).
  - split.
    + rewrite G, prefix_eqb_refl. reflexivity.
    + intros up x E. subst p. destruct (wl_parent _ _ _ W up x root Eg) as (_ & r0 & E0 & Hin0).
      exists r0. split; [|exact Hin0]. rewrite G, (prefix_eqb_neq _ _ (snoc_neq up x)). exact E0.
Qed.

Lemma WFL_nil ctr : WFL ctr [] (Some []).
Proof.
  constructor; try (intros; discriminate).
  - constructor.
  - split; [reflexivity|]. intros up x E. destruct up; discriminate.
Qed.

(** ** C3. put *)
Definition is_prefix (p q : prefix) : Prop := exists r, q = p ++ r.

Lemma not_prefix_neq p q : ~ is_prefix p q -> p <> q.
Proof. intros H ->. apply H. exists []. rewrite app_nil_r. reflexivity. Qed.

Lemma not_prefix_snoc p x q : ~ is_prefix p q -> ~ is_prefix (p ++ [x]) q.
Proof. intros H (r & ->). apply H. exists (x :: r). rewrite <- app_assoc. reflexivity. Qed.

Lemma snoc_not_prefix (p : prefix) x : ~ is_prefix (p ++ [x]) p.
Proof.
  intros (r & E). apply (f_equal (@length N)) in E. rewrite !app_length in E. cbn in E. lia.
Qed.

Lemma ent_frame ls p t root root' :
  layer_get ls p = Some root ->
  NoDup (map sl_key (bt_elems root)) -> NoDup (map sl_key (bt_elems root')) ->
  (forall t' lv, t' <> t -> (In (mk t' lv) (bt_elems root') <-> In (mk t' lv) (bt_elems root))) ->
  forall q' t', q' <> p \/ t' <> t -> ent (layer_set ls p root') q' t' = ent ls q' t'.
Proof.
  intros Eg N1 N2 H q' t' Hd. destruct (prefix_eqb_spec p q') as [<-|Hn].
  - destruct Hd as [Hd|Hd]; [contradiction|]. unfold ent. rewrite layer_get_set_same, Eg.
    apply lkp_ext; [exact N2|exact N1|]. intros lv. apply H. exact Hd.
  - apply ent_set_other. exact Hn.
Qed.

Lemma in_mid_other (A B : list slot_t) s t' lv :
  sl_key s <> t' -> (In (mk t' lv) (A ++ s :: B) <-> In (mk t' lv) (A ++ B)).
Proof.
  intros Hn. rewrite !in_app_iff. cbn [In]. split.
  - intros [H|[H|H]]; [left; exact H| |right; exact H]. subst s. cbn in Hn. contradiction.
  - intros [H|H]; [left; exact H|right; right; exact H].
Qed.

Lemma nz_hd t r : nz (t :: r) -> kl t <> 0.
Proof. intros H. inversion H; assumption. Qed.
Lemma nz_tl t r : nz (t :: r) -> nz r.
Proof. intros H. inversion H; assumption. Qed.

Lemma new_chain_spec v : forall ts q ctr ls ls1 ctr1,
  WFL ctr ls (Some q) -> vp ts -> nz (tl ts) -> (q <> [] -> nz ts) ->
  new_chain q ts v ctr ls = (ls1, ctr1) ->
  ctr <= ctr1 /\ WFL ctr1 ls1 None /\
  (forall q', ~ is_prefix q q' -> layer_get ls1 q' = layer_get ls q') /\
  LP (ent ls1) q ts = Some v /\
  (forall ts' q0, vp ts' -> mk9s q0 ++ ts' <> mk9s q ++ ts ->
     LP (ent ls1) q0 ts' = LP (ent ls) q0 ts').
Proof.
  induction ts as [|t rest IH]; intros q ctr ls ls1 ctr1 W V Z1 Z2 E; [contradiction|].
  cbn [vp] in V. destruct V as [Hw V]. cbn [tl] in Z1.
  pose proof (proj1 (wl_exc _ _ _ W)) as Hq.
  destruct rest as [|t2 r].
  - cbn [new_chain] in E. injection E as <- <-.
    destruct (single_leaf_WF_layer ctr t (LValue v)) as (Hwf' & Hel & Hid); [split; [exact Hw|exact V]|].
    set (root' := BLeaf (single_leaf ctr t (LValue v))) in *.
    split; [lia|]. split.
    { apply (WFL_set ctr (ctr + 1) ls (Some q) None q root' W).
      - lia.
      - exact Hwf'.
      - rewrite Hid. intros i [<-|[]]. lia.
      - rewrite Hid. intros i [<-|[]]. right. lia.
      - intros x H. exfalso. apply H. apply (no_below ctr ls q W [x]).
      - rewrite Hel. intros x [H|[]]. discriminate H.
      - right. reflexivity.
      - intros Hqn. rewrite Hel. split; [discriminate|]. intros s [<-|[]]. cbn [sl_key].
        exact (nz_hd _ _ (Z2 Hqn)).
      - right. left. reflexivity.
      - left. reflexivity. }
    split; [intros q' Hq'; apply layer_get_set_other; apply not_prefix_neq; exact Hq'|].
    split.
    { cbn [LP]. rewrite ent_set_same, Hel. pose proof (lkp_single_same t (LValue v)) as X. unfold mk in X.
      rewrite X. reflexivity. }
    intros ts' q0 V' Hne'. apply (LP_spot (ent ls) _ q t V); [|exact V'|exact Hne'].
    intros q' t' Hd. destruct (prefix_eqb_spec q q') as [<-|Hn].
    + destruct Hd as [Hd|Hd]; [contradiction|]. rewrite ent_set_same, Hel, (ent_absent ls q t' Hq).
      apply lkp_single_other. cbn [sl_key]. congruence.
    + apply ent_set_other. exact Hn.
  - destruct V as [H9 V]. cbn [new_chain] in E.
    destruct (single_leaf_WF_layer ctr t LLink) as (Hwf' & Hel & Hid); [split; [exact Hw|exact H9]|].
    set (root' := BLeaf (single_leaf ctr t LLink)) in *.
    set (ls_a := layer_set ls q root') in *.
    assert (WFL (ctr + 1) ls_a (Some (q ++ [ks t]))) as W'.
    { apply (WFL_set ctr (ctr + 1) ls (Some q) (Some (q ++ [ks t])) q root' W).
      - lia.
      - exact Hwf'.
      - rewrite Hid. intros i [<-|[]]. lia.
      - rewrite Hid. intros i [<-|[]]. right. lia.
      - intros x H. exfalso. apply H. apply (no_below ctr ls q W [x]).
      - rewrite Hel. intros x [H|[]]. right. injection H as H. subst t. reflexivity.
      - right. reflexivity.
      - intros Hqn. rewrite Hel. split; [discriminate|]. intros s [<-|[]]. cbn [sl_key].
        exact (nz_hd _ _ (Z2 Hqn)).
      - right. left. reflexivity.
      - right. exists (ks t). split; [reflexivity|]. split; [apply (no_below ctr ls q W [ks t])|].
        rewrite Hel. left. unfold mk. rewrite (mk9_ks t H9). reflexivity. }
    destruct (IH (q ++ [ks t]) (ctr + 1) ls_a ls1 ctr1 W' V) as (C1 & W1 & F1 & L1 & X1).
    { cbn [tl]. exact (nz_tl _ _ Z1). }
    { intros _. exact Z1. }
    { exact E. }
    split; [lia|]. split; [exact W1|]. split.
    { intros q' Hq'. rewrite F1 by (apply not_prefix_snoc; exact Hq').
      apply layer_get_set_other. apply not_prefix_neq. exact Hq'. }
    split.
    { cbn [LP]. assert (ent ls1 q t = Some LLink) as ->.
      { unfold ent. rewrite F1 by apply snoc_not_prefix. unfold ls_a. rewrite layer_get_set_same, Hel.
        apply (lkp_single_same t LLink). }
      exact L1. }
    intros ts' q0 V' Hne'. rewrite X1; [|exact V'|rewrite (mk9s_snoc q t H9); exact Hne'].
    symmetry. apply (LP_dangling (ent ls_a) (ent ls) q t H9); [| | |exact V'].
    + intros t'. unfold ls_a. rewrite ent_set_other by apply snoc_neq'.
      apply ent_absent. apply (no_below ctr ls q W [ks t]).
    + apply ent_absent. exact Hq.
    + intros q' t' Hd. symmetry. destruct (prefix_eqb_spec q q') as [<-|Hn].
      * destruct Hd as [Hd|Hd]; [contradiction|]. unfold ls_a.
        rewrite ent_set_same, Hel, (ent_absent ls q t' Hq).
        apply lkp_single_other. cbn [sl_key]. congruence.
      * apply ent_set_other. exact Hn.
Qed.

Definition put_post (v : value) (p : prefix) (ts : list ktuple) (ls ls' : layers_t) : Prop :=
  LP (ent ls') p ts = Some v /\
  forall ts' q0, vp ts' -> mk9s q0 ++ ts' <> mk9s p ++ ts -> LP (ent ls') q0 ts' = LP (ent ls) q0 ts'.

Lemma put_walk_spec v unique : forall ts p ctr ls,
  WFL ctr ls None -> vp ts -> nz (tl ts) -> (p <> [] -> nz ts) -> layer_get ls p <> None ->
  exists ls' o ctr',
    put_walk ts p ls v unique ctr = Some (ls', o, ctr') /\ ctr <= ctr' /\ WFL ctr' ls' None /\
    (forall q', ~ is_prefix p q' -> layer_get ls' q' = layer_get ls q') /\
    match LP (ent ls) p ts with
    | Some _ => if unique then po_status o = St_WARN_UNIQUE_RESTRICTION /\ ls' = ls
                else po_status o = St_OK /\ put_post v p ts ls ls'
    | None => po_status o = St_OK /\ put_post v p ts ls ls'
    end.
Proof.
  induction ts as [|t rest IH]; intros p ctr ls W V Z1 Z2 Hp; [contradiction|].
  cbn [vp] in V. destruct V as [Hw V]. cbn [tl] in Z1.
  pose proof (wl_layer _ _ _ W) as Hwf.
  destruct (layer_get ls p) as [root|] eqn:Eg; [|contradiction]. clear Hp.
  destruct (walk_step ctr ls None p root t W Eg Hw) as (l & Ef & Hl).
  pose proof (Hwf p root Eg) as Hwr. pose proof (layer_keys_NoDup ls Hwf p root Eg) as Nr.
  cbn [put_walk LP]. rewrite Eg, Ef.
  destruct (leaf_lookup l t) as [[[rk slot] s]|] eqn:El.
  - (* the tuple is present *)
    destruct Hl as (Hin & Hs & He & Hoks). pose proof Hoks as [_ Hok]. rewrite Hs in Hok. rewrite He.
    destruct rest as [|t2 r].
    + destruct (sl_lv s) as [|ov|] eqn:Elv; [contradiction| |lia].
      destruct unique.
      * exists ls. eexists. exists ctr. split; [reflexivity|]. split; [lia|]. split; [exact W|].
        split; [reflexivity|]. cbn. split; reflexivity.
      * destruct (layer_update_spec root t l rk slot s v Hwr Hw Ef El V)
          as (_ & _ & Hwf' & Hids & _ & (A & B & HA & HB) & _ & Hkeys).
        set (x := {| sl_key := sl_key s; sl_lv := LValue v |}) in *.
        set (root' := update_leaf root t _) in *.
        assert (NoDup (map sl_key (bt_elems root'))) as Nr' by (fold (bt_keys root'); rewrite Hkeys; exact Nr).
        assert (forall y, In (mk (mk9 y) LLink) (bt_elems root') <-> In (mk (mk9 y) LLink) (bt_elems root)) as Hlk.
        { intros y. rewrite HA, HB, !in_app_iff. cbn [In]. split; intros [H|[H|H]]; auto.
          - discriminate H.
          - rewrite H in Elv. discriminate Elv. }
        exists (layer_set ls p root'). eexists. exists ctr. split; [reflexivity|]. split; [lia|]. split.
        { apply (WFL_set ctr ctr ls None None p root' W).
          - lia.
          - exact Hwf'.
          - rewrite Hids. intros i Hi. exact (wl_ids _ _ _ W p root i Eg Hi).
          - rewrite Hids. intros i Hi. left. exists root. split; [exact Eg|exact Hi].
          - intros y Hy. apply Hlk. destruct (layer_get ls (p ++ [y])) as [ry|] eqn:Ey; [|contradiction].
            destruct (wl_parent _ _ _ W p y ry Ey) as (_ & r0 & E0 & Hin0). congruence.
          - intros y Hy. left. apply Hlk in Hy. apply (wl_link _ _ _ W p root y Eg Hy). discriminate.
          - left. rewrite Eg. discriminate.
          - intros Hpn. split; [rewrite HB; destruct A; discriminate|].
            destruct (exists_last Hpn) as (up & y & ->). intros s' Hs'.
            assert (In (sl_key s') (bt_keys root)) as Hk'.
            { rewrite <- Hkeys. apply in_map. exact Hs'. }
            apply in_keys_in_elems in Hk'. destruct Hk' as (s0 & Hin0 & <-).
            apply (wl_nz _ _ _ W up y root s0 Eg Hin0).
          - left. reflexivity.
          - left. reflexivity. }
        split; [intros q' Hq'; apply layer_get_set_other; apply not_prefix_neq; exact Hq'|].
        cbn [po_status]. split; [reflexivity|]. split.
        { cbn [LP]. rewrite ent_set_same.
          assert (lkp (bt_elems root') t = Some (LValue v)) as ->; [|reflexivity].
          apply (lkp_in _ _ _ Nr'). rewrite HB. apply in_or_app. right. left.
          unfold x, mk. rewrite Hs. reflexivity. }
        intros ts' q0 V' Hne'. apply (LP_spot (ent ls) _ p t V); [|exact V'|exact Hne'].
        apply (ent_frame ls p t root root' Eg Nr Nr').
        intros t' lv Hn. rewrite HA, HB. rewrite !in_mid_other; [reflexivity| |].
        -- rewrite Hs. congruence.
        -- cbn [x sl_key]. rewrite Hs. congruence.
    + destruct V as [H9 V]. destruct (sl_lv s) as [|ov|] eqn:Elv; [contradiction|lia|].
      assert (layer_get ls (p ++ [ks t]) <> None) as Hsub.
      { apply (wl_link _ _ _ W p root (ks t) Eg); [|discriminate].
        rewrite (mk9_ks t H9), <- Hs, <- Elv, mk_eta. exact Hin. }
      destruct (IH (p ++ [ks t]) ctr ls W V) as (ls' & o & ctr' & E & Hc & W' & F & Hres);
        [cbn [tl]; exact (nz_tl _ _ Z1)|intros _; exact Z1|exact Hsub|].
      exists ls', o, ctr'. split; [exact E|]. split; [exact Hc|]. split; [exact W'|]. split.
      { intros q' Hq'. apply F. apply not_prefix_snoc. exact Hq'. }
      assert (put_post v (p ++ [ks t]) (t2 :: r) ls ls' -> put_post v p (t :: t2 :: r) ls ls') as Hpost.
      { intros [P1 P2]. split.
        - cbn [LP]. assert (ent ls' p t = Some LLink) as ->; [|exact P1].
          unfold ent. rewrite (F p (snoc_not_prefix p (ks t))). fold (ent ls p t). rewrite He. reflexivity.
        - intros ts' q0 V' Hne'. apply P2; [exact V'|]. rewrite (mk9s_snoc p t H9). exact Hne'. }
      destruct (LP (ent ls) (p ++ [ks t]) (t2 :: r)).
      * destruct unique; [exact Hres|]. destruct Hres as [R1 R2]. split; [exact R1|apply Hpost; exact R2].
      * destruct Hres as [R1 R2]. split; [exact R1|apply Hpost; exact R2].
  - (* insert here *)
    destruct Hl as [He Hnin]. rewrite He.
    set (lv := match rest with [] => LValue v | _ :: _ => LLink end).
    assert (entry_ok {| sl_key := t; sl_lv := lv |}) as Hokn.
    { split; [exact Hw|]. unfold lv. cbn [sl_lv sl_key]. destruct rest; [exact V|apply V]. }
    destruct (layer_put_spec root t lv ctr Hwr Hw Hnin Hokn (fun i => wl_ids _ _ _ W p root i Eg))
      as (root' & info & ctr1 & Eput & Hwf' & _ & _ & Hperm & Hc1 & Hids' & _ & Hfresh & _).
    rewrite Eput.
    pose proof (WF_bt_keys_NoDup None None root' (proj1 Hwf')) as Nr'.
    assert (forall s', In s' (bt_elems root') <-> s' = mk t lv \/ In s' (bt_elems root)) as Hmem.
    { intros s'. split; intros H.
      - apply (Permutation_in _ Hperm) in H. destruct H as [H|H]; [left; symmetry; exact H|right; exact H].
      - apply (Permutation_in _ (Permutation_sym Hperm)). destruct H as [H|H]; [left; symmetry; exact H|right; exact H]. }
    assert (forall q' t', q' <> p \/ t' <> t -> ent (layer_set ls p root') q' t' = ent ls q' t') as Hframe.
    { apply (ent_frame ls p t root root' Eg Nr Nr'). intros t' lv' Hn. rewrite Hmem. split.
      - intros [H|H]; [|exact H]. apply mk_inj in H. destruct H as [H _]. contradiction.
      - intros H. right. exact H. }
    assert (ent (layer_set ls p root') p t = Some lv) as Hnew.
    { rewrite ent_set_same. apply (lkp_in _ _ _ Nr'). apply Hmem. left. reflexivity. }
    assert (forall i, In i (bt_ids root') ->
              (exists root0, layer_get ls p = Some root0 /\ In i (bt_ids root0)) \/ ctr <= i) as Hfr2.
    { intros i Hi. destruct (Hfresh i Hi) as [H|H]; [left; exists root; split; assumption|right; lia]. }
    assert (forall y, layer_get ls (p ++ [y]) <> None -> In (mk (mk9 y) LLink) (bt_elems root')) as Hkids.
    { intros y Hy. apply Hmem. right. destruct (layer_get ls (p ++ [y])) as [ry|] eqn:Ey; [|contradiction].
      destruct (wl_parent _ _ _ W p y ry Ey) as (_ & r0 & E0 & Hin0). congruence. }
    assert (p <> [] -> bt_elems root' <> [] /\ forall s', In s' (bt_elems root') -> kl (sl_key s') <> 0) as Hnz.
    { intros Hpn. split.
      - intros X. assert (In (mk t lv) (bt_elems root')) as Y by (apply Hmem; left; reflexivity).
        rewrite X in Y. destruct Y.
      - destruct (exists_last Hpn) as (up & y & ->). intros s' Hs'. apply Hmem in Hs'.
        destruct Hs' as [->|Hs']; [cbn [mk sl_key]; exact (nz_hd _ _ (Z2 Hpn))|].
        apply (wl_nz _ _ _ W up y root s' Eg Hs'). }
    destruct rest as [|t2 r].
    + cbn [new_chain]. exists (layer_set ls p root'). eexists. exists ctr1.
      split; [reflexivity|]. split; [exact Hc1|]. split.
      { apply (WFL_set ctr ctr1 ls None None p root' W); try assumption.
        - intros y Hy. left. apply Hmem in Hy. destruct Hy as [Hy|Hy]; [discriminate Hy|].
          apply (wl_link _ _ _ W p root y Eg Hy). discriminate.
        - left. rewrite Eg. discriminate.
        - left. reflexivity.
        - left. reflexivity. }
      split; [intros q' Hq'; apply layer_get_set_other; apply not_prefix_neq; exact Hq'|].
      cbn [po_status]. split; [reflexivity|]. split.
      { cbn [LP]. rewrite Hnew. reflexivity. }
      intros ts' q0 V' Hne'. apply (LP_spot (ent ls) _ p t V); [exact Hframe|exact V'|exact Hne'].
    + destruct V as [H9 V]. set (ls_a := layer_set ls p root') in *.
      assert (layer_get ls (p ++ [ks t]) = None) as Hnone.
      { destruct (layer_get ls (p ++ [ks t])) as [ry|] eqn:Ey; [|reflexivity]. exfalso.
        destruct (wl_parent _ _ _ W p (ks t) ry Ey) as (_ & r0 & E0 & Hin0).
        rewrite Eg in E0. injection E0 as <-. rewrite (mk9_ks t H9) in Hin0.
        apply Hnin. change t with (sl_key (mk t LLink)). apply in_map. exact Hin0. }
      assert (WFL ctr1 ls_a (Some (p ++ [ks t]))) as Wa.
      { apply (WFL_set ctr ctr1 ls None (Some (p ++ [ks t])) p root' W); try assumption.
        - intros y Hy. apply Hmem in Hy. destruct Hy as [Hy|Hy].
          + right. apply mk_inj in Hy. destruct Hy as [Hy _]. subst t. reflexivity.
          + left. apply (wl_link _ _ _ W p root y Eg Hy). discriminate.
        - left. rewrite Eg. discriminate.
        - left. reflexivity.
        - right. exists (ks t). split; [reflexivity|]. split; [exact Hnone|].
          apply Hmem. left. rewrite (mk9_ks t H9). reflexivity. }
      destruct (new_chain (p ++ [ks t]) (t2 :: r) v ctr1 ls_a) as [ls2 ctr2] eqn:Enc.
      destruct (new_chain_spec v (t2 :: r) (p ++ [ks t]) ctr1 ls_a ls2 ctr2 Wa V) as (C2 & W2 & F2 & L2 & X2);
        [cbn [tl]; exact (nz_tl _ _ Z1)|intros _; exact Z1|exact Enc|].
      exists ls2. eexists. exists ctr2. split; [reflexivity|]. split; [lia|]. split; [exact W2|]. split.
      { intros q' Hq'. rewrite F2 by (apply not_prefix_snoc; exact Hq').
        apply layer_get_set_other. apply not_prefix_neq. exact Hq'. }
      cbn [po_status]. split; [reflexivity|]. split.
      { cbn [LP]. assert (ent ls2 p t = Some LLink) as ->; [|exact L2].
        unfold ent. rewrite (F2 p (snoc_not_prefix p (ks t))). fold (ent ls_a p t). exact Hnew. }
      intros ts' q0 V' Hne'. rewrite X2; [|exact V'|rewrite (mk9s_snoc p t H9); exact Hne'].
      symmetry. apply (LP_dangling (ent ls_a) (ent ls) p t H9); [| | |exact V'].
      * intros t'. unfold ls_a. rewrite ent_set_other by apply snoc_neq'. apply ent_absent. exact Hnone.
      * exact He.
      * intros q' t' Hd. symmetry. apply Hframe. exact Hd.
Qed.

(** ** from lookups to equalities of sorted maps *)
Lemma abs_put_eq ctr ctr' tr tr' k v :
  WF_store ctr tr -> WF_store ctr' tr' -> bytes k ->
  lookup tr' k = Some v ->
  (forall k', bytes k' -> k' <> k -> lookup tr' k' = lookup tr k') ->
  abs_tree tr' = smap_put (abs_tree tr) k (abs_value v).
Proof.
  intros W W' Hb Hk Hoth. pose proof (abs_tree_sorted _ _ W) as S. pose proof (abs_tree_sorted _ _ W') as S'.
  apply lex_sorted_ext; [exact S'|apply smap_put_sorted; exact S|].
  intros [k' a']. rewrite (smap_put_in _ k (abs_value v) S), (abs_tree_in _ _ k' a' W), (abs_tree_in _ _ k' a' W').
  split.
  - intros (Hb' & v' & L & ->). destruct (list_eq_dec N.eq_dec k' k) as [->|Hn].
    + left. split; [reflexivity|]. congruence.
    + right. split; [exact Hn|]. split; [exact Hb'|]. exists v'. split; [|reflexivity].
      rewrite <- (Hoth k' Hb' Hn). exact L.
  - intros [[-> ->]|(Hn & Hb' & v' & L & ->)].
    + split; [exact Hb|]. exists v. split; [exact Hk|reflexivity].
    + split; [exact Hb'|]. exists v'. split; [|reflexivity]. rewrite (Hoth k' Hb' Hn). exact L.
Qed.

Lemma abs_del_eq ctr ctr' tr tr' k :
  WF_store ctr tr -> WF_store ctr' tr' -> bytes k ->
  lookup tr' k = None ->
  (forall k', bytes k' -> k' <> k -> lookup tr' k' = lookup tr k') ->
  abs_tree tr' = smap_del (abs_tree tr) k.
Proof.
  intros W W' Hb Hk Hoth. pose proof (abs_tree_sorted _ _ W) as S. pose proof (abs_tree_sorted _ _ W') as S'.
  apply lex_sorted_ext; [exact S'|apply smap_del_sorted; exact S|].
  intros [k' a']. rewrite (smap_del_in _ k S), (abs_tree_in _ _ k' a' W), (abs_tree_in _ _ k' a' W').
  split.
  - intros (Hb' & v' & L & ->). assert (k' <> k) as Hn by (intros ->; congruence).
    split; [exact Hn|]. split; [exact Hb'|]. exists v'. split; [|reflexivity].
    rewrite <- (Hoth k' Hb' Hn). exact L.
  - intros (Hn & Hb' & v' & L & ->). split; [exact Hb'|]. exists v'. split; [|reflexivity].
    rewrite (Hoth k' Hb' Hn). exact L.
Qed.

Lemma LP_nil ts p : LP (ent []) p ts = None.
Proof. destruct ts; reflexivity. Qed.

Theorem put_refines ctr tr k v unique : WF_store ctr tr -> bytes k ->
  exists tr' po ctr',
    put tr k v unique ctr = Some (tr', po, ctr') /\ WF_store ctr' tr' /\ ctr <= ctr' /\
    match smap_get (abs_tree tr) k with
    | None => po_status po = St_OK /\ abs_tree tr' = smap_put (abs_tree tr) k (abs_value v)
    | Some _ =>
      if unique then po_status po = St_WARN_UNIQUE_RESTRICTION /\ abs_tree tr' = abs_tree tr
      else po_status po = St_OK /\ abs_tree tr' = smap_put (abs_tree tr) k (abs_value v)
    end.
Proof.
  intros W Hb. rewrite (abs_tree_get ctr tr k W Hb). destruct (path_vp k Hb) as [V Z].
  unfold put. destruct tr as [ls nl]. destruct nl; cbn [t_null t_layers].
  - destruct (new_chain [] (path_of_key k) v ctr []) as [ls1 ctr1] eqn:Enc.
    destruct (new_chain_spec v _ [] ctr [] ls1 ctr1 (WFL_nil ctr) V Z) as (C & W1 & _ & L & X);
      [intros H; contradiction|exact Enc|].
    eexists. eexists. exists ctr1. split; [reflexivity|].
    assert (WF_store ctr1 {| t_layers := ls1; t_null := false |}) as W' by exact W1.
    split; [exact W'|]. split; [exact C|]. cbn [lookup t_null option_map po_status]. split; [reflexivity|].
    apply (abs_put_eq ctr ctr1 _ _ k v W W' Hb).
    + exact L.
    + intros k' Hb' Hn. unfold lookup. cbn [t_null t_layers].
      destruct (path_vp k' Hb') as [V' _]. rewrite (X _ [] V'); [apply LP_nil|].
      cbn [mk9s map app]. intros E. apply Hn. apply path_inj; assumption.
  - pose proof W as W0. unfold WF_store in W. cbn [t_null t_layers] in W.
    destruct (put_walk_spec v unique (path_of_key k) [] ctr ls W V Z) as (ls' & o & ctr' & E & C & W1 & _ & Hres);
      [intros H; contradiction|exact (wl_exc _ _ _ W)|].
    rewrite E. eexists. exists o, ctr'. split; [reflexivity|].
    assert (WF_store ctr' {| t_layers := ls'; t_null := false |}) as W' by exact W1.
    split; [exact W'|]. split; [exact C|].
    assert (put_post v [] (path_of_key k) ls ls' ->
            abs_tree {| t_layers := ls'; t_null := false |} =
            smap_put (abs_tree {| t_layers := ls; t_null := false |}) k (abs_value v)) as Hput.
    { intros [P1 P2]. apply (abs_put_eq ctr ctr' _ _ k v W0 W' Hb); [exact P1|].
      intros k' Hb' Hn. unfold lookup. cbn [t_null t_layers].
      destruct (path_vp k' Hb') as [V' _]. apply (P2 _ [] V').
      cbn [mk9s map app]. intros X. apply Hn. apply path_inj; assumption. }
    unfold lookup. cbn [t_null t_layers].
    destruct (LP (ent ls) [] (path_of_key k)); cbn [option_map].
    + destruct unique.
      * destruct Hres as [R1 ->]. split; [exact R1|reflexivity].
      * destruct Hres as [R1 R2]. split; [exact R1|apply Hput; exact R2].
    + destruct Hres as [R1 R2]. split; [exact R1|apply Hput; exact R2].
Qed.

(** ** C4. remove *)
Lemma layer_remove_cases ls p k root :
  layer_get ls p = Some root -> WF_layer root -> kt_wf k = true -> In k (bt_keys root) ->
  exists ls' gone ret, layer_remove ls p k = Some (ls', gone, ret) /\
    ((gone = false /\ exists root'', ls' = layer_set ls p root'' /\ WF_layer root'' /\
        (p <> [] -> bt_elems root'' <> []) /\
        (exists A s B, bt_elems root = A ++ s :: B /\ sl_key s = k /\ bt_elems root'' = A ++ B) /\
        (forall i, In i (bt_ids root'') -> In i (bt_ids root)))
     \/ (gone = true /\ p <> [] /\ ls' = layer_del ls p /\
         exists s, bt_elems root = [s] /\ sl_key s = k)).
Proof.
  intros Eg Hwf Hk Hin.
  destruct (layer_remove_spec ls p k root Eg Hwf Hk Hin) as (ls' & gone & ret & E & [C|[C|C]]);
    exists ls', gone, ret; (split; [exact E|]).
  - destruct C as (-> & root' & root'' & _ & _ & -> & Hwf'' & Hne & Hel & Hperm). left.
    split; [reflexivity|]. exists root''. split; [reflexivity|]. split; [exact Hwf''|].
    split; [intros _; exact Hne|]. split; [exact Hel|].
    intros i Hi. apply (Permutation_in _ (Permutation_sym Hperm)). apply in_or_app. right. exact Hi.
  - destruct C as (-> & Hp & -> & l & s & -> & Hent & Hs & _). right.
    split; [reflexivity|]. split; [exact Hp|]. split; [reflexivity|]. exists s. split; [exact Hent|exact Hs].
  - destruct C as (-> & -> & _ & l & s & l'' & -> & Hent & Hs & -> & Hwf'' & He'' & Hid). left.
    split; [reflexivity|]. exists (BLeaf l''). split; [reflexivity|]. split; [exact Hwf''|].
    split; [intros H; contradiction|]. split.
    + exists [], s, []. cbn [bt_elems app]. split; [exact Hent|]. split; [exact Hs|exact He''].
    + cbn [bt_ids]. rewrite Hid. intros i Hi. exact Hi.
Qed.

Lemma remove_last_snoc {A} (l : list A) x : remove_last (l ++ [x]) = l.
Proof.
  induction l as [|a l IH]; [reflexivity|]. destruct l as [|b l]; [reflexivity|].
  change (remove_last ((a :: b :: l) ++ [x])) with (a :: remove_last ((b :: l) ++ [x])).
  rewrite IH. reflexivity.
Qed.

Lemma mid_keys_notin (A B : list slot_t) s :
  NoDup (map sl_key (A ++ s :: B)) -> ~ In (sl_key s) (map sl_key (A ++ B)).
Proof.
  rewrite !map_app. cbn [map]. intros H. apply NoDup_remove_2 in H. exact H.
Qed.

Lemma cascade_spec ctr : forall n p ls ret, length p = n -> p <> [] -> WFL ctr ls (Some p) ->
  forall f, (n < f)%nat ->
  exists ls' ret', cascade f ls p ret = Some (ls', ret') /\ WFL ctr ls' None /\
    forall ts' q0, vp ts' -> LP (ent ls') q0 ts' = LP (ent ls) q0 ts'.
Proof.
  induction n as [|n IH]; intros p ls ret Hlen Hp W f Hf.
  { destruct p; [contradiction|discriminate]. }
  destruct (exists_last Hp) as (up & x & ->). destruct f as [|f]; [lia|].
  cbn [cascade]. rewrite rev_unit, remove_last_snoc.
  pose proof (wl_layer _ _ _ W) as Hwf. pose proof (wl_nodup _ _ _ W) as Hnd.
  destruct (wl_exc _ _ _ W) as [Hnone Hpar]. destruct (Hpar up x eq_refl) as (r0 & E0 & Hin0).
  pose proof (Hwf up r0 E0) as Hwr. pose proof (layer_keys_NoDup ls Hwf up r0 E0) as Nr0.
  pose proof (layer_entry_ok ls Hwf up r0 _ E0 Hin0) as [Hwx _]. cbn [mk sl_key] in Hwx.
  assert (In (mk9 x) (bt_keys r0)) as Hink.
  { change (mk9 x) with (sl_key (mk (mk9 x) LLink)). apply in_map. exact Hin0. }
  change {| ks := x; kl := 9 |} with (mk9 x).
  destruct (layer_remove_cases ls up (mk9 x) r0 E0 Hwr Hwx Hink) as (ls' & gone & ret' & E & [C|C]); rewrite E.
  - destruct C as (-> & root'' & -> & Hwf'' & Hne & (A & s & B & HA & Hs & HB) & Hids).
    assert (s = mk (mk9 x) LLink) as Es.
    { apply (WF_bt_key_inj None None r0 _ _ (proj1 Hwr)); [rewrite HA; apply in_or_app; right; left; reflexivity|exact Hin0|exact Hs]. }
    pose proof (WF_bt_keys_NoDup None None root'' (proj1 Hwf'')) as Nr''.
    assert (~ In (mk9 x) (map sl_key (A ++ B))) as Hnot.
    { rewrite <- Hs. apply mid_keys_notin. rewrite <- HA. exact Nr0. }
    eexists. eexists. split; [reflexivity|]. split.
    { apply (WFL_set ctr ctr ls (Some (up ++ [x])) None up root'' W).
      - lia.
      - exact Hwf''.
      - intros i Hi. exact (wl_ids _ _ _ W up r0 i E0 (Hids i Hi)).
      - intros i Hi. left. exists r0. split; [exact E0|exact (Hids i Hi)].
      - intros y Hy. destruct (layer_get ls (up ++ [y])) as [ry|] eqn:Ey; [|contradiction].
        destruct (wl_parent _ _ _ W up y ry Ey) as (_ & r1 & E1 & Hin1).
        rewrite E0 in E1. injection E1 as <-. rewrite HA in Hin1. rewrite HB.
        apply in_app_or in Hin1. apply in_or_app. destruct Hin1 as [H|[H|H]]; [left; exact H| |right; exact H].
        exfalso. rewrite Es in H. apply mk_inj in H. destruct H as [H _]. apply mk9_inj in H. subst y. congruence.
      - intros y Hy. left. apply (wl_link _ _ _ W up r0 y E0).
        + rewrite HA. rewrite HB in Hy. apply in_app_or in Hy. apply in_or_app.
          destruct Hy as [H|H]; [left; exact H|right; right; exact H].
        + intros X. injection X as X. apply app_inj_tail in X. destruct X as [_ ->].
          apply Hnot. rewrite <- HB. change (mk9 x) with (sl_key (mk (mk9 x) LLink)). apply in_map. exact Hy.
      - left. rewrite E0. discriminate.
      - intros Hup. split; [apply Hne; exact Hup|]. destruct (exists_last Hup) as (u2 & z & ->).
        intros s' Hs'. apply (wl_nz _ _ _ W u2 z r0 s' E0). rewrite HA. rewrite HB in Hs'.
        apply in_app_or in Hs'. apply in_or_app. destruct Hs' as [H|H]; [left; exact H|right; right; exact H].
      - right. right. exists x. split; [reflexivity|]. rewrite HB. intros H. apply Hnot.
        change (mk9 x) with (sl_key (mk (mk9 x) LLink)). apply in_map. exact H.
      - left. reflexivity. }
    intros ts' q0 V'. apply (LP_dangling (ent ls) _ up (mk9 x)); [reflexivity| | | |exact V'].
    + intros t'. cbn [mk9 ks]. apply ent_absent. exact Hnone.
    + rewrite ent_set_same. apply lkp_none. rewrite HB. exact Hnot.
    + apply (ent_frame ls up (mk9 x) r0 root'' E0 Nr0 Nr''). intros t' lv Hn. rewrite HA, HB.
      symmetry. apply in_mid_other. rewrite Hs. congruence.
  - destruct C as (-> & Hup & -> & s & Hel & Hs).
    assert (s = mk (mk9 x) LLink) as Es.
    { rewrite Hel in Hin0. destruct Hin0 as [H|[]]. exact H. }
    assert (WFL ctr (layer_del ls up) (Some up)) as W1.
    { apply (WFL_del ctr ls (Some (up ++ [x])) up r0 W Hup E0).
      - intros y Hy. rewrite Hel in Hy. destruct Hy as [H|[]]. rewrite Es in H.
        apply mk_inj in H. destruct H as [H _]. apply mk9_inj in H. subst y. reflexivity.
      - right. exists x. reflexivity. }
    rewrite app_length in Hlen. cbn [length] in Hlen.
    destruct (IH up (layer_del ls up) (ret ++ ret') ltac:(lia) Hup W1 f ltac:(lia)) as (ls2 & ret2 & E2 & W2 & X2).
    exists ls2, ret2. split; [exact E2|]. split; [exact W2|].
    intros ts' q0 V'. rewrite (X2 ts' q0 V').
    apply (LP_dangling (ent ls) _ up (mk9 x)); [reflexivity| | | |exact V'].
    + intros t'. cbn [mk9 ks]. apply ent_absent. exact Hnone.
    + apply ent_del_same. exact Hnd.
    + intros q' t' Hd. destruct (prefix_eqb_spec up q') as [<-|Hn].
      * destruct Hd as [Hd|Hd]; [contradiction|]. rewrite (ent_del_same ls up t' Hnd).
        unfold ent. rewrite E0, Hel. symmetry. apply lkp_single_other. rewrite Hs. congruence.
      * apply ent_del_other. exact Hn.
Qed.

Definition rem_post (p : prefix) (ts : list ktuple) (ls ls' : layers_t) : Prop :=
  forall ts' q0, vp ts' ->
    (mk9s q0 ++ ts' = mk9s p ++ ts -> LP (ent ls') q0 ts' = None) /\
    (mk9s q0 ++ ts' <> mk9s p ++ ts -> LP (ent ls') q0 ts' = LP (ent ls) q0 ts').

Lemma remove_walk_spec ctr ls : WFL ctr ls None ->
  forall ts p, vp ts -> layer_get ls p <> None ->
  exists ls' o, remove_walk ts p ls = Some (ls', o) /\ WFL ctr ls' None /\
    match LP (ent ls) p ts with
    | Some _ => ro_status o = St_OK /\ rem_post p ts ls ls'
    | None => ro_status o = St_OK_NOT_FOUND /\ ls' = ls
    end.
Proof.
  intros W. pose proof (wl_layer _ _ _ W) as Hwf. pose proof (wl_nodup _ _ _ W) as Hnd.
  induction ts as [|t rest IH]; intros p V Hp; [contradiction|].
  cbn [vp] in V. destruct V as [Hw V].
  destruct (layer_get ls p) as [root|] eqn:Eg; [|contradiction]. clear Hp.
  destruct (walk_step ctr ls None p root t W Eg Hw) as (l & Ef & Hl).
  pose proof (Hwf p root Eg) as Hwr. pose proof (layer_keys_NoDup ls Hwf p root Eg) as Nr.
  cbn [remove_walk LP]. rewrite Eg, Ef.
  destruct (leaf_lookup l t) as [[[rk slot] s]|] eqn:El.
  - destruct Hl as (Hin & Hs & He & Hoks). pose proof Hoks as [_ Hok]. rewrite Hs in Hok. rewrite He.
    destruct rest as [|t2 r].
    + destruct (sl_lv s) as [|ov|] eqn:Elv; [contradiction| |lia].
      assert (In t (bt_keys root)) as Hink by (rewrite <- Hs; apply in_elems_in_keys; exact Hin).
      destruct (layer_remove_cases ls p t root Eg Hwr Hw Hink) as (ls1 & gone & ret & E & [C|C]); rewrite E.
      * destruct C as (-> & root'' & -> & Hwf'' & Hne & (A & s' & B & HA & Hs' & HB) & Hids).
        assert (s' = s) as ->.
        { apply (WF_bt_key_inj None None root _ _ (proj1 Hwr)); [rewrite HA; apply in_or_app; right; left; reflexivity|exact Hin|congruence]. }
        pose proof (WF_bt_keys_NoDup None None root'' (proj1 Hwf'')) as Nr''.
        assert (~ In t (map sl_key (A ++ B))) as Hnot.
        { rewrite <- Hs. apply mid_keys_notin. rewrite <- HA. exact Nr. }
        assert (forall s0, In s0 (bt_elems root'') -> In s0 (bt_elems root)) as Hsub.
        { intros s0 H0. rewrite HA. rewrite HB in H0. apply in_app_or in H0. apply in_or_app.
          destruct H0 as [H|H]; [left; exact H|right; right; exact H]. }
        eexists. eexists. split; [reflexivity|]. split.
        { apply (WFL_set ctr ctr ls None None p root'' W).
          - lia.
          - exact Hwf''.
          - intros i Hi. exact (wl_ids _ _ _ W p root i Eg (Hids i Hi)).
          - intros i Hi. left. exists root. split; [exact Eg|exact (Hids i Hi)].
          - intros y Hy. destruct (layer_get ls (p ++ [y])) as [ry|] eqn:Ey; [|contradiction].
            destruct (wl_parent _ _ _ W p y ry Ey) as (_ & r1 & E1 & Hin1).
            rewrite Eg in E1. injection E1 as <-. rewrite HA in Hin1. rewrite HB.
            apply in_app_or in Hin1. apply in_or_app. destruct Hin1 as [H|[H|H]]; [left; exact H| |right; exact H].
            rewrite H in Elv. discriminate Elv.
          - intros y Hy. left. apply (wl_link _ _ _ W p root y Eg (Hsub _ Hy)). discriminate.
          - left. rewrite Eg. discriminate.
          - intros Hpn. split; [apply Hne; exact Hpn|]. destruct (exists_last Hpn) as (u2 & z & ->).
            intros s0 H0. exact (wl_nz _ _ _ W u2 z root s0 Eg (Hsub _ H0)).
          - left. reflexivity.
          - left. reflexivity. }
        cbn [ro_status]. split; [reflexivity|]. intros ts' q0 V'. split.
        -- apply LP_spot_none; [|exact V']. rewrite ent_set_same. apply lkp_none. rewrite HB. exact Hnot.
        -- apply (LP_spot (ent ls) _ p t V); [|exact V'].
           apply (ent_frame ls p t root root'' Eg Nr Nr''). intros t' lv Hn. rewrite HA, HB.
           symmetry. apply in_mid_other. rewrite Hs. congruence.
      * destruct C as (-> & Hpn & -> & s' & Hel & Hs').
        assert (s' = s) as -> by (rewrite Hel in Hin; destruct Hin as [H|[]]; exact H).
        assert (WFL ctr (layer_del ls p) (Some p)) as W1.
        { apply (WFL_del ctr ls None p root W Hpn Eg).
          - intros y Hy. rewrite Hel in Hy. destruct Hy as [H|[]]. rewrite H in Elv. discriminate Elv.
          - left. reflexivity. }
        destruct (cascade_spec ctr (length p) p (layer_del ls p) ret eq_refl Hpn W1 (S (length p)) ltac:(lia))
          as (ls2 & ret2 & E2 & W2 & X2).
        rewrite E2. eexists. eexists. split; [reflexivity|]. split; [exact W2|].
        cbn [ro_status]. split; [reflexivity|]. intros ts' q0 V'. rewrite (X2 ts' q0 V'). split.
        -- apply LP_spot_none; [|exact V']. apply ent_del_same. exact Hnd.
        -- apply (LP_spot (ent ls) _ p t V); [|exact V'].
           intros q' t' Hd. destruct (prefix_eqb_spec p q') as [<-|Hn].
           ++ destruct Hd as [Hd|Hd]; [contradiction|]. rewrite (ent_del_same ls p t' Hnd).
              unfold ent. rewrite Eg, Hel. symmetry. apply lkp_single_other. rewrite Hs. congruence.
           ++ apply ent_del_other. exact Hn.
    + destruct V as [H9 V]. destruct (sl_lv s) as [|ov|] eqn:Elv; [contradiction|lia|].
      assert (layer_get ls (p ++ [ks t]) <> None) as Hsub.
      { apply (wl_link _ _ _ W p root (ks t) Eg); [|discriminate].
        rewrite (mk9_ks t H9), <- Hs, <- Elv, mk_eta. exact Hin. }
      destruct (IH (p ++ [ks t]) V Hsub) as (ls' & o & E & W' & Hres).
      exists ls', o. split; [exact E|]. split; [exact W'|].
      destruct (LP (ent ls) (p ++ [ks t]) (t2 :: r)); [|exact Hres].
      destruct Hres as [R1 R2]. split; [exact R1|]. intros ts' q0 V'.
      rewrite <- (mk9s_snoc p t H9). apply R2. exact V'.
  - destruct Hl as [He _]. rewrite He. eexists. eexists. split; [reflexivity|]. split; [exact W|].
    cbn. split; reflexivity.
Qed.

Theorem remove_refines ctr tr k : WF_store ctr tr -> bytes k ->
  exists tr' ro,
    remove tr k = Some (tr', ro) /\ WF_store ctr tr' /\
    if t_null tr then ro_status ro = St_OK_ROOT_IS_NULL /\ tr' = tr
    else match smap_get (abs_tree tr) k with
         | Some _ => ro_status ro = St_OK /\ abs_tree tr' = smap_del (abs_tree tr) k
         | None => ro_status ro = St_OK_NOT_FOUND /\ abs_tree tr' = abs_tree tr
         end.
Proof.
  intros W Hb. rewrite (abs_tree_get ctr tr k W Hb). destruct (path_vp k Hb) as [V Z].
  unfold remove. destruct tr as [ls nl]. destruct nl; cbn [t_null t_layers].
  - eexists. eexists. split; [reflexivity|]. split; [exact W|]. cbn. split; reflexivity.
  - pose proof W as W0. unfold WF_store in W. cbn [t_null t_layers] in W.
    destruct (remove_walk_spec ctr ls W (path_of_key k) [] V (wl_exc _ _ _ W)) as (ls' & o & E & W1 & Hres).
    rewrite E. eexists. exists o. split; [reflexivity|].
    assert (WF_store ctr {| t_layers := ls'; t_null := false |}) as W' by exact W1.
    split; [exact W'|]. unfold lookup. cbn [t_null t_layers].
    destruct (LP (ent ls) [] (path_of_key k)); cbn [option_map].
    + destruct Hres as [R1 R2]. split; [exact R1|].
      apply (abs_del_eq ctr ctr _ _ k W0 W' Hb).
      * unfold lookup. cbn [t_null t_layers]. apply (R2 _ [] V). reflexivity.
      * intros k' Hb' Hn. unfold lookup. cbn [t_null t_layers].
        destruct (path_vp k' Hb') as [V' _]. apply (R2 _ [] V').
        cbn [mk9s map app]. intros X. apply Hn. apply path_inj; assumption.
    + destruct Hres as [R1 ->]. split; [exact R1|reflexivity].
Qed.

(** ** C5. the initial trees *)
Theorem empty_tree_wf ctr id : id < ctr -> WF_store ctr (empty_tree id) /\ abs_tree (empty_tree id) = [].
Proof.
  intros Hid. destruct (empty_leaf_WF_layer id (v_fresh_border true)) as [Hwf Hel].
  set (root := BLeaf {| lf_id := id; lf_ver := v_fresh_border true; lf_perm := 0; lf_slots := fresh_slots |}) in *.
  assert (forall p r, layer_get [([], root)] p = Some r -> p = [] /\ r = root) as G.
  { intros p r. cbn [layer_get]. destruct p; cbn [prefix_eqb]; [|discriminate].
    intros H. injection H as <-. split; reflexivity. }
  split.
  - unfold WF_store, empty_tree. cbn [t_null t_layers]. fold root. constructor.
    + cbn. constructor; [intros []|constructor].
    + intros p r H. apply G in H. destruct H as [_ ->]. exact Hwf.
    + intros p r i H Hi. apply G in H. destruct H as [_ ->]. cbn [root bt_ids lf_id] in Hi.
      destruct Hi as [<-|[]]. exact Hid.
    + intros p q rp rq i H1 H2 _ _. apply G in H1, H2. destruct H1 as [-> _], H2 as [-> _]. reflexivity.
    + intros p r x H Hin. apply G in H. destruct H as [_ ->]. rewrite Hel in Hin. destruct Hin.
    + intros p x r H. apply G in H. destruct H as [H _]. destruct p; discriminate.
    + intros p x r s H. apply G in H. destruct H as [H _]. destruct p; discriminate.
    + cbn. discriminate.
  - unfold abs_tree, empty_tree. cbn [t_null t_layers length abs_layer layer_get prefix_eqb].
    fold root. rewrite Hel. reflexivity.
Qed.

Theorem null_tree_wf ctr : WF_store ctr null_tree /\ abs_tree null_tree = [].
Proof. split; [exact I|reflexivity]. Qed.

(** ** what the invariant says, in plain terms *)
Theorem WF_store_facts ctr tr : WF_store ctr tr -> t_null tr = false ->
  let ls := t_layers tr in
  NoDup (map fst ls) /\ layer_get ls [] <> None /\
  (forall p root, layer_get ls p = Some root ->
     WF_layer root /\ (forall i, In i (bt_ids root) -> i < ctr) /\ (length p < length ls)%nat) /\
  (forall p root s, layer_get ls p = Some root -> In s (bt_elems root) ->
     sl_lv s <> LEmpty /\
     (sl_lv s = LLink <-> kl (sl_key s) = 9 /\ layer_get ls (p ++ [ks (sl_key s)]) <> None)) /\
  (forall p x root, layer_get ls (p ++ [x]) = Some root ->
     bt_elems root <> [] /\ (forall s, In s (bt_elems root) -> kl (sl_key s) <> 0) /\
     exists r0, layer_get ls p = Some r0 /\ In {| sl_key := {| ks := x; kl := 9 |}; sl_lv := LLink |} (bt_elems r0)) /\
  (forall p q rp rq i, layer_get ls p = Some rp -> layer_get ls q = Some rq ->
     In i (bt_ids rp) -> In i (bt_ids rq) -> p = q).
Proof.
  unfold WF_store. intros W Hn. rewrite Hn in W. cbn zeta. pose proof (wl_layer _ _ _ W) as Hwf.
  split; [exact (wl_nodup _ _ _ W)|]. split; [exact (wl_exc _ _ _ W)|]. split.
  { intros p root E. split; [exact (Hwf p root E)|]. split; [intros i; exact (wl_ids _ _ _ W p root i E)|].
    apply (layer_depth ctr _ None p W). rewrite E. discriminate. }
  split.
  { intros p root s E Hin. pose proof (layer_entry_ok _ Hwf p root s E Hin) as Hok. split.
    - intros X. destruct Hok as [_ Hok]. rewrite X in Hok. exact Hok.
    - split.
      + intros Hl. split; [destruct Hok as [_ Hok]; rewrite Hl in Hok; exact Hok|].
        apply (wl_link _ _ _ W p root _ E); [|discriminate]. rewrite <- (link_entry s Hok Hl). exact Hin.
      + intros [H9 Hsub]. destruct (layer_get (t_layers tr) (p ++ [ks (sl_key s)])) as [r|] eqn:Er; [|contradiction].
        destruct (wl_parent _ _ _ W p _ r Er) as (_ & r0 & E0 & Hin0). rewrite E in E0. injection E0 as <-.
        assert (s = mk (mk9 (ks (sl_key s))) LLink) as ->; [|reflexivity].
        apply (WF_bt_key_inj None None root _ _ (proj1 (Hwf p root E)) Hin Hin0).
        cbn [mk sl_key]. symmetry. apply mk9_ks. exact H9. }
  split.
  { intros p x root E. destruct (wl_parent _ _ _ W p x root E) as (Hne & r0 & E0 & Hin0).
    split; [exact Hne|]. split; [intros s; exact (wl_nz _ _ _ W p x root s E)|].
    exists r0. split; [exact E0|exact Hin0]. }
  exact (wl_disj _ _ _ W).
Qed.

Corollary abs_tree_keys_NoDup ctr tr : WF_store ctr tr -> NoDup (map fst (abs_tree tr)).
Proof.
  intros W. pose proof (abs_tree_sorted ctr tr W) as S. induction S as [|x m S IH F]; [constructor|].
  cbn [map]. constructor; [|exact IH]. rewrite Forall_forall in F. intros H.
  apply in_map_iff in H. destruct H as (y & E & Hy). specialize (F y Hy). rewrite E, lex_lt_irrefl in F.
  discriminate.
Qed.

Theorem lex_lt_strict_total :
  (forall a, lex_lt a a = false) /\
  (forall a b c, lex_lt a b = true -> lex_lt b c = true -> lex_lt a c = true) /\
  (forall a b, lex_lt a b = false -> lex_lt b a = false -> a = b).
Proof. split; [exact lex_lt_irrefl|]. split; [exact lex_lt_trans|exact lex_lt_trich]. Qed.

(** ** sanity: the hypotheses are satisfiable on a three-layer store, and the
    conclusions are what the executable model computes *)
Module StoreExample.
  Definition val (i : N) : value := {| v_id := 100 + i; v_bytes := [i]; v_align := 8; v_inline := false |}.
  Definition k17 : key := [1;2;3;4;5;6;7;8;1;2;3;4;5;6;7;8;9].
  Definition k9 : key := [1;2;3;4;5;6;7;8;9].
  Definition k8 : key := [1;2;3;4;5;6;7;8].
  Definition k0 : key := [].
  Fixpoint puts (tr : tree) (ctr : N) (ks : list key) : option (tree * N) :=
    match ks with
    | [] => Some (tr, ctr)
    | k :: r => match put tr k (val (N.of_nat (length k))) false ctr with
                | Some (tr', _, c') => puts tr' c' r
                | None => None
                end
    end.
  Lemma bytesb_sound k : forallb (fun b => b <? 256) k = true -> bytes k.
  Proof. intros H. apply Forall_forall. intros b Hb. rewrite forallb_forall in H. specialize (H b Hb). lia. Qed.

  Lemma puts_wf : forall ks tr ctr, WF_store ctr tr -> Forall bytes ks ->
    exists tr' ctr', puts tr ctr ks = Some (tr', ctr') /\ WF_store ctr' tr'.
  Proof.
    induction ks as [|k r IH]; intros tr ctr W Hb; [exists tr, ctr; split; [reflexivity|exact W]|].
    apply Forall_cons_iff in Hb. destruct Hb as [Hk Hr].
    destruct (put_refines ctr tr k (val (N.of_nat (length k))) false W Hk) as (tr' & po & c' & E & W' & _).
    cbn [puts]. rewrite E. apply IH; assumption.
  Qed.

  Definition ex_tree : tree :=
    match puts (empty_tree 1) 2 [k17; k9; k8; k0] with Some (t, _) => t | None => null_tree end.

  Example ex_shape : length (t_layers ex_tree) = 3%nat /\
    map fst (abs_tree ex_tree) = [k0; k8; k17; k9].
  Proof. vm_compute. split; reflexivity. Qed.

  Example ex_wf : exists ctr, WF_store ctr ex_tree.
  Proof.
    destruct (puts_wf [k17; k9; k8; k0] (empty_tree 1) 2) as (tr' & c' & E & W).
    - apply empty_tree_wf. lia.
    - repeat (apply Forall_cons; [apply bytesb_sound; vm_compute; reflexivity|]). apply Forall_nil.
    - exists c'. unfold ex_tree. rewrite E. exact W.
  Qed.

  (* removing the long key cascades: two layers vanish *)
  Example ex_remove :
    match remove ex_tree k17 with
    | Some (t, ro) => (length (t_layers t), ro_status ro, map fst (abs_tree t))
    | None => (0%nat, St_ERR_FATAL, [])
    end = (2%nat, St_OK, [k0; k8; k9]).
  Proof. vm_compute. reflexivity. Qed.
End StoreExample.

(** ** axiom audit *)
Print Assumptions path_of_key_facts.
Print Assumptions path_inj.
Print Assumptions abs_tree_in.
Print Assumptions abs_tree_sorted.
Print Assumptions get_refines.
Print Assumptions put_refines.
Print Assumptions remove_refines.
Print Assumptions empty_tree_wf.
Print Assumptions null_tree_wf.
Print Assumptions WF_store_facts.

