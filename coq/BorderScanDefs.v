(** * BorderScanDefs: scanner threads on top of the border-node model.

    A scanner (scan_helper.h scan_border on ONE border node, full range, no
    size limit) only reads shared memory, so it is added as a separate component
    next to [bstate]: writers and point readers step as in BorderDefs (with the
    repaired reader), scanners step here.  Accesses of one scan of the node:
      validated version v (find_border's stable version)
      retry: load the permutation; for every rank: load the slot's key, load
      the slot's value word, then scan_check_retry = a stable version that must
      equal v (otherwise: adopt the new version and start the node again,
      dropping what was collected); [fixed] a cleared word also restarts the
      node; after the last rank a final stable version that must equal v.
    The result is the list of (key, value word) pairs and the recorded node
    version v (the (version, node) pair of C05/C06).

    Ghost: per scanner and key, every binding the key had since the scan's
    invocation ([sc_seen]).  Executable; proofs in BorderScanProofs.v. *)
From Coq Require Export NArith List Bool PeanoNat.
From Yk Require Export BorderDefs.
Export ListNotations.
Local Open Scope N_scope.

Inductive spc :=
| SIdle
| SStable0                                               (* the stable version the scan starts from *)
| SPerm (v : N)                                          (* load the permutation *)
| SKey (v : N) (rest : list nat) (acc : list (N * N))    (* load the key of the next slot *)
| SLv (v : N) (sl : nat) (k : N) (rest : list nat) (acc : list (N * N))   (* load its value word *)
| SCheck (v : N) (k w : N) (rest : list nat) (acc : list (N * N))         (* scan_check_retry *)
| SFinal (v : N) (acc : list (N * N))                    (* final check of the node *)
| SDone (v : N) (res : list (N * N)).                    (* about to return (res, recorded version v) *)

Record scanner := {
  sc_pc : spc;
  sc_seen : N -> list (option N);     (* ghost *)
  sc_active : bool;                   (* between invocation and return *)
}.

Record sstate := {
  base : bstate;
  scn : nat -> scanner;
}.

Definition idle_scanner : scanner := {| sc_pc := SIdle; sc_seen := fun _ => []; sc_active := false |}.
Definition sinit2 : sstate := {| base := binit; scn := fun _ => idle_scanner |}.

Definition opt_eqb (a b : option N) : bool :=
  match a, b with
  | None, None => true
  | Some x, Some y => x =? y
  | _, _ => false
  end.

(** after a base step: every active scanner records the bindings that changed *)
Definition note_changes (old new : bstate) (sc : scanner) : scanner :=
  if sc_active sc
  then {| sc_pc := sc_pc sc;
          sc_seen := fun k => if opt_eqb (bm new k) (bm old k) then sc_seen sc k else bm new k :: sc_seen sc k;
          sc_active := true |}
  else sc.

Inductive sev2 :=
| EBase (e : bev)              (* an event of the underlying point-operation model *)
| EScanInvoke (t : nat)
| EScanStep (t : nat)
| EScanReturn (t : nat).

Definition set_spc (s : sstate) (t : nat) (p : spc) : sstate :=
  let sc := scn s t in
  {| base := base s;
     scn := updf (scn s) t {| sc_pc := p; sc_seen := sc_seen sc; sc_active := sc_active sc |} |}.

Definition sstep2 (s : sstate) (e : sev2) : option sstate :=
  match e with
  | EBase be =>
    match bstep true (base s) be with
    | None => None
    | Some b' => Some {| base := b'; scn := fun t => note_changes (base s) b' (scn s t) |}
    end
  | EScanInvoke t =>
    match sc_pc (scn s t) with
    | SIdle => Some {| base := base s;
                       scn := updf (scn s) t {| sc_pc := SStable0;
                                                sc_seen := fun k => [bm (base s) k];
                                                sc_active := true |} |}
    | _ => None
    end
  | EScanReturn t =>
    match sc_pc (scn s t) with
    | SDone _ _ => Some {| base := base s; scn := updf (scn s) t idle_scanner |}
    | _ => None
    end
  | EScanStep t =>
    let b := base s in
    match sc_pc (scn s t) with
    | SIdle | SDone _ _ => None
    | SStable0 => if stable b then Some (set_spc s t (SPerm (b_vins b))) else Some s
    | SPerm v => Some (set_spc s t (SKey v (b_perm b) []))
    | SKey v [] acc => Some (set_spc s t (SFinal v acc))
    | SKey v (sl :: rest) acc => Some (set_spc s t (SLv v sl (b_keys b sl) rest acc))
    | SLv v sl k rest acc => Some (set_spc s t (SCheck v k (b_lvs b sl) rest acc))
    | SCheck v k w rest acc =>
      if negb (stable b) then Some s
      else if negb (b_vins b =? v) then Some (set_spc s t (SPerm (b_vins b)))
      else if w =? 0 then Some (set_spc s t (SPerm v))        (* cleared word: read the node again *)
      else Some (set_spc s t (SKey v rest (acc ++ [(k, w)])))
    | SFinal v acc =>
      if negb (stable b) then Some s
      else if negb (b_vins b =? v) then Some (set_spc s t (SPerm (b_vins b)))
      else Some (set_spc s t (SDone v acc))
    end
  end.

Fixpoint srun2 (s : sstate) (tr : list sev2) : option sstate :=
  match tr with
  | [] => Some s
  | e :: r => match sstep2 s e with Some s' => srun2 s' r | None => None end
  end.
