(** * BorderDefs: concurrent point operations on ONE border node, one
    shared-memory access per step, any number of threads, any interleaving.

    Models the accesses of get (interface_get.h), put -- insert without split,
    overwrite, unique (interface_put.h, border_helper.h insert_lv), remove
    (interface_remove.h, border_node.h delete_of/delete_at) and
    border_node::get_lv_of on a root border that never splits (fewer than 15
    keys, keys of at most 8 bytes).  Keys and values are numbers; value 0 is the
    cleared slot word (null pointer).  The version word is represented by the
    three fields the protocol uses (locked, inserting_deleting, vinsert_delete);
    the insert counter is unbounded here: the 29-bit wrap is the explicit
    assumption "fewer than 2^29 inserts complete during one read".

    [fixed] selects the reader code: [true] = a reader that fetched a cleared
    slot word retries (the "fix:" commit for finding F3), [false] = the pinned
    source, which returned OK with that null pointer.

    Ghost state: the abstract map [bm] (changed at the writers' linearization
    steps) and, per in-flight operation, [t_seen]: every binding its key had
    since the invocation.  Executable; proofs in BorderProofs.v. *)
From Coq Require Export NArith List Bool PeanoNat.
From Yk Require Import ListAux.
Export ListNotations.
Local Open Scope N_scope.

Inductive bop :=
| OpGet (k : N)
| OpPut (k v : N)         (* upsert; v <> 0 *)
| OpUput (k v : N)        (* unique insert *)
| OpRem (k : N).

Inductive bres :=
| ROk | ROkVal (v : N) | RNotExist | RNotFound | RUnique.

(** program counters; [v] = insert counter of the validated version *)
Inductive bpc :=
| PIdle
| PStable0                                   (* get_lv_of: first stable version *)
| PPerm (v : N)                              (* load the permutation *)
| PSearch (v : N) (rest : list nat)          (* load the key of the next slot of the snapshot *)
| PCheck1 (v : N) (found : option nat)       (* second stable version *)
(* get *)
| PLoadLv (v : N) (s : nat)
| PFinal (v : N) (s : nat) (w : N)
(* remove, key not found: final stable version *)
| PRemFinal (v : N)
(* writers *)
| PLock (v : N) (found : option nat)         (* CAS on the lock bit *)
| PValidate (v : N) (found : option nat)     (* version re-check under the lock *)
| PUnlockRetry                               (* validation failed: unlock, then start over *)
| PRelook (v : N)                            (* get_lv_of_without_lock *)
| PInsDel                                    (* set inserting_deleting *)
| PStoreKey (slot rank : nat)
| PStoreLv (slot rank : nat)
| PStorePerm (slot rank : nat)
| PUnlockIns                                 (* unlock: counter + 1 *)
| POverwrite (slot : nat)                    (* store the new value word *)
| PClear (slot rank : nat)                   (* remove: reset the slot word *)
| PShrink (rank : nat)                       (* remove: store the shrunk permutation *)
| PUnlockPlain (r : bres)                    (* unlock without counter change, then return r *)
| PDone (r : bres).                          (* about to return r *)

Record bthread := {
  t_op : option bop;
  t_pc : bpc;
  t_seen : list (option N);    (* ghost *)
}.

Record bstate := {
  b_locked : bool;
  b_insdel : bool;
  b_vins : N;
  b_perm : list nat;           (* slots in key order *)
  b_keys : nat -> N;
  b_lvs : nat -> N;
  bm : N -> option N;          (* ghost: the abstract map *)
  b_thr : nat -> bthread;
}.

Definition updf {A} (f : nat -> A) (i : nat) (x : A) : nat -> A := fun j => if Nat.eqb j i then x else f j.
Definition updm (m : N -> option N) (k : N) (x : option N) : N -> option N := fun j => if N.eqb j k then x else m j.

Definition idle_thread : bthread := {| t_op := None; t_pc := PIdle; t_seen := [] |}.

Definition op_key (o : bop) : N :=
  match o with OpGet k | OpPut k _ | OpUput k _ | OpRem k => k end.

(** search of the sorted node (border_node::get_lv_of loop), one key load per step *)
Definition search_step (k : N) (key_at_s : N) : option bool :=
  (* Some true = hit, Some false = stop (searched key is smaller), None = next *)
  if key_at_s =? k then Some true else if k <? key_at_s then Some false else None.

(** under the lock: position and slot of [k] in the current permutation *)
Fixpoint find_rank (keys : nat -> N) (perm : list nat) (k : N) (r : nat) : option (nat * nat) :=
  match perm with
  | [] => None
  | s :: rest => if keys s =? k then Some (r, s) else find_rank keys rest k (S r)
  end.
Fixpoint rank_of (keys : nat -> N) (perm : list nat) (k : N) (r : nat) : nat :=
  match perm with
  | [] => r
  | s :: rest => if k <? keys s then r else rank_of keys rest k (S r)
  end.
Fixpoint free_slot (perm : list nat) (i : nat) (fuel : nat) : nat :=
  match fuel with
  | O => i
  | S f => if existsb (Nat.eqb i) perm then free_slot perm (S i) f else i
  end.

(** every in-flight operation on key [k] records the new binding *)
Definition note_binding (thr : nat -> bthread) (k : N) (x : option N) : nat -> bthread :=
  fun t => let th := thr t in
           match t_op th with
           | Some o => if op_key o =? k
                       then {| t_op := t_op th; t_pc := t_pc th; t_seen := x :: t_seen th |}
                       else th
           | None => th
           end.

Definition set_pc (s : bstate) (t : nat) (p : bpc) : bstate :=
  let th := b_thr s t in
  {| b_locked := b_locked s; b_insdel := b_insdel s; b_vins := b_vins s; b_perm := b_perm s;
     b_keys := b_keys s; b_lvs := b_lvs s; bm := bm s;
     b_thr := updf (b_thr s) t {| t_op := t_op th; t_pc := p; t_seen := t_seen th |} |}.

Definition stable (s : bstate) : bool := negb (b_locked s) && negb (b_insdel s).

Inductive bev :=
| BInvoke (t : nat) (o : bop)
| BStep (t : nat)             (* the next shared-memory access of thread t *)
| BReturn (t : nat).          (* thread t returns its result (PDone) *)

Definition bstep (fixed : bool) (s : bstate) (e : bev) : option bstate :=
  match e with
  | BInvoke t o =>
    match t_pc (b_thr s t) with
    | PIdle =>
      let ok := match o with OpPut _ v | OpUput _ v => negb (v =? 0) | _ => true end in
      if ok then
        Some {| b_locked := b_locked s; b_insdel := b_insdel s; b_vins := b_vins s; b_perm := b_perm s;
                b_keys := b_keys s; b_lvs := b_lvs s; bm := bm s;
                b_thr := updf (b_thr s) t {| t_op := Some o; t_pc := PStable0; t_seen := [bm s (op_key o)] |} |}
      else None
    | _ => None
    end
  | BReturn t =>
    match t_pc (b_thr s t) with
    | PDone _ => Some {| b_locked := b_locked s; b_insdel := b_insdel s; b_vins := b_vins s; b_perm := b_perm s;
                         b_keys := b_keys s; b_lvs := b_lvs s; bm := bm s;
                         b_thr := updf (b_thr s) t idle_thread |}
    | _ => None
    end
  | BStep t =>
    let th := b_thr s t in
    match t_op th with
    | None => None
    | Some o =>
      let k := op_key o in
      match t_pc th with
      | PIdle | PDone _ => None
      | PStable0 =>
        if stable s then Some (set_pc s t (PPerm (b_vins s))) else Some s (* spin *)
      | PPerm v => Some (set_pc s t (PSearch v (b_perm s)))
      | PSearch v [] => Some (set_pc s t (PCheck1 v None))
      | PSearch v (sl :: rest) =>
        match search_step k (b_keys s sl) with
        | Some true => Some (set_pc s t (PCheck1 v (Some sl)))
        | Some false => Some (set_pc s t (PCheck1 v None))
        | None => Some (set_pc s t (PSearch v rest))
        end
      | PCheck1 v found =>
        if negb (stable s) then Some s
        else if negb (b_vins s =? v) then Some (set_pc s t (PPerm (b_vins s)))
        else match o, found with
             | OpGet _, None => Some (set_pc s t (PDone RNotExist))
             | OpGet _, Some sl => Some (set_pc s t (PLoadLv v sl))
             | OpRem _, None => Some (set_pc s t (PRemFinal v))
             | OpUput _ _, Some _ => Some (set_pc s t (PDone RUnique))
             | _, _ => Some (set_pc s t (PLock v found))
             end
      | PLoadLv v sl => Some (set_pc s t (PFinal v sl (b_lvs s sl)))
      | PFinal v sl w =>
        if negb (stable s) then Some s
        else if negb (b_vins s =? v) then Some (set_pc s t PStable0)
        else if fixed && (w =? 0) then Some (set_pc s t PStable0)
        else Some (set_pc s t (PDone (ROkVal w)))
      | PRemFinal v =>
        if negb (stable s) then Some s
        else if negb (b_vins s =? v) then Some (set_pc s t PStable0)
        else Some (set_pc s t (PDone RNotFound))
      | PLock v found =>
        if b_locked s then Some s (* spin *)
        else Some (set_pc {| b_locked := true; b_insdel := b_insdel s; b_vins := b_vins s; b_perm := b_perm s;
                             b_keys := b_keys s; b_lvs := b_lvs s; bm := bm s; b_thr := b_thr s |}
                          t (PValidate v found))
      | PValidate v found =>
        if negb (b_vins s =? v) then Some (set_pc s t PUnlockRetry)
        else match found with
             | None => Some (set_pc s t PInsDel)
             | Some _ => Some (set_pc s t (PRelook v))
             end
      | PUnlockRetry =>
        Some (set_pc {| b_locked := false; b_insdel := b_insdel s; b_vins := b_vins s; b_perm := b_perm s;
                        b_keys := b_keys s; b_lvs := b_lvs s; bm := bm s; b_thr := b_thr s |} t PStable0)
      | PRelook v =>
        match find_rank (b_keys s) (b_perm s) k 0 with
        | None => match o with
                  | OpRem _ => Some (set_pc s t (PUnlockPlain RNotFound))
                  | _ => Some (set_pc s t PUnlockRetry)
                  end
        | Some (r, sl) => match o with
                          | OpRem _ => Some (set_pc s t (PClear sl r))
                          | _ => Some (set_pc s t (POverwrite sl))
                          end
        end
      | PInsDel =>
        (* a full node splits: outside this model *)
        if Nat.leb 15 (length (b_perm s)) then None else
        Some (set_pc {| b_locked := b_locked s; b_insdel := true; b_vins := b_vins s; b_perm := b_perm s;
                        b_keys := b_keys s; b_lvs := b_lvs s; bm := bm s; b_thr := b_thr s |}
                     t (PStoreKey (free_slot (b_perm s) 0 15) (rank_of (b_keys s) (b_perm s) k 0)))
      | PStoreKey sl r =>
        Some (set_pc {| b_locked := b_locked s; b_insdel := b_insdel s; b_vins := b_vins s; b_perm := b_perm s;
                        b_keys := updf (b_keys s) sl k; b_lvs := b_lvs s; bm := bm s; b_thr := b_thr s |}
                     t (PStoreLv sl r))
      | PStoreLv sl r =>
        match o with
        | OpPut _ v | OpUput _ v =>
          Some (set_pc {| b_locked := b_locked s; b_insdel := b_insdel s; b_vins := b_vins s; b_perm := b_perm s;
                          b_keys := b_keys s; b_lvs := updf (b_lvs s) sl v; bm := bm s; b_thr := b_thr s |}
                       t (PStorePerm sl r))
        | _ => None
        end
      | PStorePerm sl r =>
        match o with
        | OpPut _ v | OpUput _ v =>
          (* linearization point of an insert *)
          Some (set_pc {| b_locked := b_locked s; b_insdel := b_insdel s; b_vins := b_vins s;
                          b_perm := insert_at r sl (b_perm s);
                          b_keys := b_keys s; b_lvs := b_lvs s; bm := updm (bm s) k (Some v);
                          b_thr := note_binding (b_thr s) k (Some v) |}
                       t PUnlockIns)
        | _ => None
        end
      | PUnlockIns =>
        Some (set_pc {| b_locked := false; b_insdel := false; b_vins := b_vins s + 1; b_perm := b_perm s;
                        b_keys := b_keys s; b_lvs := b_lvs s; bm := bm s; b_thr := b_thr s |}
                     t (PDone ROk))
      | POverwrite sl =>
        match o with
        | OpPut _ v =>
          (* linearization point of an overwrite *)
          Some (set_pc {| b_locked := b_locked s; b_insdel := b_insdel s; b_vins := b_vins s; b_perm := b_perm s;
                          b_keys := b_keys s; b_lvs := updf (b_lvs s) sl v; bm := updm (bm s) k (Some v);
                          b_thr := note_binding (b_thr s) k (Some v) |}
                       t (PUnlockPlain ROk))
        | _ => None
        end
      | PClear sl r =>
        (* linearization point of a remove *)
        Some (set_pc {| b_locked := b_locked s; b_insdel := b_insdel s; b_vins := b_vins s; b_perm := b_perm s;
                        b_keys := b_keys s; b_lvs := updf (b_lvs s) sl 0; bm := updm (bm s) k None;
                        b_thr := note_binding (b_thr s) k None |}
                     t (PShrink r))
      | PShrink r =>
        Some (set_pc {| b_locked := b_locked s; b_insdel := b_insdel s; b_vins := b_vins s;
                        b_perm := remove_at r (b_perm s);
                        b_keys := b_keys s; b_lvs := b_lvs s; bm := bm s; b_thr := b_thr s |}
                     t (PUnlockPlain ROk))
      | PUnlockPlain r =>
        Some (set_pc {| b_locked := false; b_insdel := b_insdel s; b_vins := b_vins s; b_perm := b_perm s;
                        b_keys := b_keys s; b_lvs := b_lvs s; bm := bm s; b_thr := b_thr s |} t (PDone r))
      end
    end
  end.

Definition binit : bstate :=
  {| b_locked := false; b_insdel := false; b_vins := 0; b_perm := []; b_keys := fun _ => 0; b_lvs := fun _ => 0;
     bm := fun _ => None; b_thr := fun _ => idle_thread |}.

Fixpoint brun (fixed : bool) (s : bstate) (tr : list bev) : option bstate :=
  match tr with
  | [] => Some s
  | e :: r => match bstep fixed s e with Some s' => brun fixed s' r | None => None end
  end.

(** the result a thread is about to return *)
Definition pending_result (s : bstate) (t : nat) : option bres :=
  match t_pc (b_thr s t) with PDone r => Some r | _ => None end.
