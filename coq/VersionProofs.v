(** * VersionProofs: getter/setter algebra of the 64-bit node version word,
    exact reading of [unlock], [try_lock], [is_stable]; [decode_version] is
    injective on 64-bit words. *)
From Coq Require Import NArith Lia Bool.
From Yk Require Import Word64 Nibble VersionDefs.
Local Open Scope N_scope.

(** ** Generic bit / field lemmas *)

Lemma testbit_b2n b n : N.testbit (b2n b) n = b && (n =? 0).
Proof.
  destruct b; cbn [b2n andb].
  - destruct (N.eqb_spec n 0) as [->|H]; [reflexivity|].
    apply (testbit_small 1 1); [reflexivity|lia].
  - apply N.bits_0.
Qed.

Lemma testbit_set_bit w pos b n :
  N.testbit (set_bit w pos b) n = if n =? pos then b else N.testbit w n.
Proof.
  unfold set_bit. rewrite testbit_set_field.
  destruct (N.eqb_spec n pos) as [->|Hne].
  - destruct (N.leb_spec pos pos); [|lia].
    destruct (N.ltb_spec pos (pos + 1)); [|lia].
    cbn [andb]. rewrite N.sub_diag, testbit_b2n, N.eqb_refl. apply andb_true_r.
  - destruct (N.leb_spec pos n); destruct (N.ltb_spec n (pos + 1)); try lia; reflexivity.
Qed.

Lemma testbit_mod_pow2 v len n : N.testbit (v mod 2 ^ len) n = N.testbit v n && (n <? len).
Proof. rewrite <- N.land_ones, N.land_spec, testbit_ones. reflexivity. Qed.

Lemma field_div_mod w lo len : field w lo len = (w / 2 ^ lo) mod 2 ^ len.
Proof. unfold field. rewrite N.land_ones, N.shiftr_div_pow2. reflexivity. Qed.

Lemma field_lt w lo len : field w lo len < 2 ^ len.
Proof.
  apply lt_pow2_bits. intros n Hn. rewrite testbit_field.
  destruct (N.ltb_spec n len); [lia|]. apply andb_false_r.
Qed.

Lemma get_set_bit_same w p b : get_bit (set_bit w p b) p = b.
Proof. unfold get_bit. rewrite testbit_set_bit, N.eqb_refl. reflexivity. Qed.

Lemma get_set_bit_other w p q b : p <> q -> get_bit (set_bit w p b) q = get_bit w q.
Proof.
  intros H. unfold get_bit. rewrite testbit_set_bit.
  destruct (N.eqb_spec q p); [congruence|reflexivity].
Qed.

Lemma field_set_bit_out w p b lo len :
  p < lo \/ lo + len <= p -> field (set_bit w p b) lo len = field w lo len.
Proof.
  intros H. apply N.bits_inj. intros n. rewrite !testbit_field, testbit_set_bit.
  destruct (N.ltb_spec n len) as [Hn|Hn]; [|rewrite !andb_false_r; reflexivity].
  destruct (N.eqb_spec (n + lo) p); [lia|reflexivity].
Qed.

Lemma get_bit_set_field_out w lo len v p :
  p < lo \/ lo + len <= p -> get_bit (set_field w lo len v) p = get_bit w p.
Proof.
  intros H. unfold get_bit. rewrite testbit_set_field.
  destruct (N.leb_spec lo p); destruct (N.ltb_spec p (lo + len)); try lia; reflexivity.
Qed.

Lemma field_set_field_same w lo len v : field (set_field w lo len v) lo len = v mod 2 ^ len.
Proof.
  apply N.bits_inj. intros n. rewrite testbit_field, testbit_set_field, testbit_mod_pow2.
  destruct (N.ltb_spec n len); [|rewrite !andb_false_r; reflexivity].
  rewrite !andb_true_r.
  destruct (N.leb_spec lo (n + lo)); [|lia].
  destruct (N.ltb_spec (n + lo) (lo + len)); [|lia].
  cbn [andb]. f_equal. lia.
Qed.

Lemma field_set_field_disj w lo len v lo' len' :
  lo' + len' <= lo \/ lo + len <= lo' ->
  field (set_field w lo len v) lo' len' = field w lo' len'.
Proof.
  intros H. apply N.bits_inj. intros n. rewrite !testbit_field, testbit_set_field.
  destruct (N.ltb_spec n len'); [|rewrite !andb_false_r; reflexivity].
  destruct (N.leb_spec lo (n + lo')); destruct (N.ltb_spec (n + lo') (lo + len));
    try lia; reflexivity.
Qed.

Lemma set_field_lt64 w lo len v : w < w64 -> lo + len <= 64 -> set_field w lo len v < w64.
Proof.
  intros Hw H. change w64 with (2 ^ 64). apply lt_pow2_bits. intros n Hn.
  rewrite testbit_set_field.
  destruct (N.leb_spec lo n); destruct (N.ltb_spec n (lo + len)); try lia; cbn [andb];
    apply (testbit_small w 64); assumption.
Qed.

Lemma set_bit_lt64 w p b : w < w64 -> p < 64 -> set_bit w p b < w64.
Proof. intros Hw H. unfold set_bit. apply set_field_lt64; [exact Hw|lia]. Qed.

(** two words that agree on a field agree on every bit inside it *)
Lemma field_bit_eq w w' lo len n :
  field w lo len = field w' lo len -> lo <= n -> n < lo + len ->
  N.testbit w n = N.testbit w' n.
Proof.
  intros E H1 H2.
  assert (N.testbit (field w lo len) (n - lo) = N.testbit (field w' lo len) (n - lo)) as Eb
    by (rewrite E; reflexivity).
  rewrite !testbit_field in Eb.
  replace (n - lo + lo) with n in Eb by lia.
  destruct (N.ltb_spec (n - lo) len); [|lia].
  rewrite !andb_true_r in Eb. exact Eb.
Qed.

Lemma succ_mod_neq x k : 1 <= k -> x < 2 ^ k -> (x + 1) mod 2 ^ k <> x.
Proof.
  intros Hk Hx.
  assert (2 <= 2 ^ k) as H2.
  { change 2 with (2 ^ 1) at 1. apply N.pow_le_mono_r; lia. }
  destruct (N.lt_ge_cases (x + 1) (2 ^ k)) as [Hlt|Hge].
  - rewrite N.mod_small by exact Hlt. lia.
  - assert (x + 1 = 2 ^ k) as -> by lia.
    rewrite N.mod_same by lia. lia.
Qed.

(** ** Tactics: reduce every named accessor to [get_bit]/[set_bit]/[field]/[set_field] *)

Ltac vunfold :=
  unfold get_locked, get_inserting_deleting, get_splitting, get_deleted, get_root, get_border,
         set_locked, set_inserting_deleting, set_splitting, set_deleted, set_root, set_border,
         inc_vinsert_delete, inc_vsplit, get_vinsert_delete, get_vsplit in *.

Ltac vside :=
  unfold locked_bit, insdel_bit, splitting_bit, deleted_bit, root_bit, border_bit,
         vins_lo, vins_len, vsplit_lo, vsplit_len; lia.

Ltac vrw :=
  repeat first
    [ rewrite get_set_bit_same
    | rewrite get_set_bit_other by vside
    | rewrite field_set_bit_out by vside
    | rewrite get_bit_set_field_out by vside
    | rewrite field_set_field_same
    | rewrite field_set_field_disj by vside ].

Ltac vlt :=
  repeat first [ apply set_bit_lt64; [|vside] | apply set_field_lt64; [|vside] ]; assumption.

Ltac vframe := intros; vunfold; vrw; reflexivity.

(** ** Flag setters: get-after-set, frame, range *)

Lemma set_locked_frame w b :
  get_locked (set_locked w b) = b /\
  get_inserting_deleting (set_locked w b) = get_inserting_deleting w /\
  get_splitting (set_locked w b) = get_splitting w /\
  get_deleted (set_locked w b) = get_deleted w /\
  get_root (set_locked w b) = get_root w /\
  get_border (set_locked w b) = get_border w /\
  get_vinsert_delete (set_locked w b) = get_vinsert_delete w /\
  get_vsplit (set_locked w b) = get_vsplit w.
Proof. repeat split; vframe. Qed.

Lemma set_inserting_deleting_frame w b :
  get_inserting_deleting (set_inserting_deleting w b) = b /\
  get_locked (set_inserting_deleting w b) = get_locked w /\
  get_splitting (set_inserting_deleting w b) = get_splitting w /\
  get_deleted (set_inserting_deleting w b) = get_deleted w /\
  get_root (set_inserting_deleting w b) = get_root w /\
  get_border (set_inserting_deleting w b) = get_border w /\
  get_vinsert_delete (set_inserting_deleting w b) = get_vinsert_delete w /\
  get_vsplit (set_inserting_deleting w b) = get_vsplit w.
Proof. repeat split; vframe. Qed.

Lemma set_splitting_frame w b :
  get_splitting (set_splitting w b) = b /\
  get_locked (set_splitting w b) = get_locked w /\
  get_inserting_deleting (set_splitting w b) = get_inserting_deleting w /\
  get_deleted (set_splitting w b) = get_deleted w /\
  get_root (set_splitting w b) = get_root w /\
  get_border (set_splitting w b) = get_border w /\
  get_vinsert_delete (set_splitting w b) = get_vinsert_delete w /\
  get_vsplit (set_splitting w b) = get_vsplit w.
Proof. repeat split; vframe. Qed.

Lemma set_deleted_frame w b :
  get_deleted (set_deleted w b) = b /\
  get_locked (set_deleted w b) = get_locked w /\
  get_inserting_deleting (set_deleted w b) = get_inserting_deleting w /\
  get_splitting (set_deleted w b) = get_splitting w /\
  get_root (set_deleted w b) = get_root w /\
  get_border (set_deleted w b) = get_border w /\
  get_vinsert_delete (set_deleted w b) = get_vinsert_delete w /\
  get_vsplit (set_deleted w b) = get_vsplit w.
Proof. repeat split; vframe. Qed.

Lemma set_root_frame w b :
  get_root (set_root w b) = b /\
  get_locked (set_root w b) = get_locked w /\
  get_inserting_deleting (set_root w b) = get_inserting_deleting w /\
  get_splitting (set_root w b) = get_splitting w /\
  get_deleted (set_root w b) = get_deleted w /\
  get_border (set_root w b) = get_border w /\
  get_vinsert_delete (set_root w b) = get_vinsert_delete w /\
  get_vsplit (set_root w b) = get_vsplit w.
Proof. repeat split; vframe. Qed.

Lemma set_border_frame w b :
  get_border (set_border w b) = b /\
  get_locked (set_border w b) = get_locked w /\
  get_inserting_deleting (set_border w b) = get_inserting_deleting w /\
  get_splitting (set_border w b) = get_splitting w /\
  get_deleted (set_border w b) = get_deleted w /\
  get_root (set_border w b) = get_root w /\
  get_vinsert_delete (set_border w b) = get_vinsert_delete w /\
  get_vsplit (set_border w b) = get_vsplit w.
Proof. repeat split; vframe. Qed.

Lemma get_locked_set_locked w b : get_locked (set_locked w b) = b.
Proof. vframe. Qed.
Lemma get_inserting_deleting_set_inserting_deleting w b :
  get_inserting_deleting (set_inserting_deleting w b) = b.
Proof. vframe. Qed.
Lemma get_splitting_set_splitting w b : get_splitting (set_splitting w b) = b.
Proof. vframe. Qed.
Lemma get_deleted_set_deleted w b : get_deleted (set_deleted w b) = b.
Proof. vframe. Qed.
Lemma get_root_set_root w b : get_root (set_root w b) = b.
Proof. vframe. Qed.
Lemma get_border_set_border w b : get_border (set_border w b) = b.
Proof. vframe. Qed.

Lemma set_locked_lt w b : w < w64 -> set_locked w b < w64.
Proof. intros; vunfold; vlt. Qed.
Lemma set_inserting_deleting_lt w b : w < w64 -> set_inserting_deleting w b < w64.
Proof. intros; vunfold; vlt. Qed.
Lemma set_splitting_lt w b : w < w64 -> set_splitting w b < w64.
Proof. intros; vunfold; vlt. Qed.
Lemma set_deleted_lt w b : w < w64 -> set_deleted w b < w64.
Proof. intros; vunfold; vlt. Qed.
Lemma set_root_lt w b : w < w64 -> set_root w b < w64.
Proof. intros; vunfold; vlt. Qed.
Lemma set_border_lt w b : w < w64 -> set_border w b < w64.
Proof. intros; vunfold; vlt. Qed.

(** the same facts in record form: each setter changes exactly its own field *)
Lemma decode_set_locked w b :
  decode_version (set_locked w b) =
  {| f_vins := get_vinsert_delete w; f_locked := b;
     f_insdel := get_inserting_deleting w; f_splitting := get_splitting w;
     f_vsplit := get_vsplit w; f_deleted := get_deleted w; f_root := get_root w;
     f_border := get_border w |}.
Proof. unfold decode_version. f_equal; vframe. Qed.

Lemma decode_set_inserting_deleting w b :
  decode_version (set_inserting_deleting w b) =
  {| f_vins := get_vinsert_delete w; f_locked := get_locked w;
     f_insdel := b; f_splitting := get_splitting w;
     f_vsplit := get_vsplit w; f_deleted := get_deleted w; f_root := get_root w;
     f_border := get_border w |}.
Proof. unfold decode_version. f_equal; vframe. Qed.

Lemma decode_set_splitting w b :
  decode_version (set_splitting w b) =
  {| f_vins := get_vinsert_delete w; f_locked := get_locked w;
     f_insdel := get_inserting_deleting w; f_splitting := b;
     f_vsplit := get_vsplit w; f_deleted := get_deleted w; f_root := get_root w;
     f_border := get_border w |}.
Proof. unfold decode_version. f_equal; vframe. Qed.

Lemma decode_set_deleted w b :
  decode_version (set_deleted w b) =
  {| f_vins := get_vinsert_delete w; f_locked := get_locked w;
     f_insdel := get_inserting_deleting w; f_splitting := get_splitting w;
     f_vsplit := get_vsplit w; f_deleted := b; f_root := get_root w;
     f_border := get_border w |}.
Proof. unfold decode_version. f_equal; vframe. Qed.

Lemma decode_set_root w b :
  decode_version (set_root w b) =
  {| f_vins := get_vinsert_delete w; f_locked := get_locked w;
     f_insdel := get_inserting_deleting w; f_splitting := get_splitting w;
     f_vsplit := get_vsplit w; f_deleted := get_deleted w; f_root := b;
     f_border := get_border w |}.
Proof. unfold decode_version. f_equal; vframe. Qed.

Lemma decode_set_border w b :
  decode_version (set_border w b) =
  {| f_vins := get_vinsert_delete w; f_locked := get_locked w;
     f_insdel := get_inserting_deleting w; f_splitting := get_splitting w;
     f_vsplit := get_vsplit w; f_deleted := get_deleted w; f_root := get_root w;
     f_border := b |}.
Proof. unfold decode_version. f_equal; vframe. Qed.

Lemma setters_frame w b : w < w64 ->
  (decode_version (set_locked w b) =
     {| f_vins := get_vinsert_delete w; f_locked := b;
        f_insdel := get_inserting_deleting w; f_splitting := get_splitting w;
        f_vsplit := get_vsplit w; f_deleted := get_deleted w; f_root := get_root w;
        f_border := get_border w |} /\ set_locked w b < w64) /\
  (decode_version (set_inserting_deleting w b) =
     {| f_vins := get_vinsert_delete w; f_locked := get_locked w;
        f_insdel := b; f_splitting := get_splitting w;
        f_vsplit := get_vsplit w; f_deleted := get_deleted w; f_root := get_root w;
        f_border := get_border w |} /\ set_inserting_deleting w b < w64) /\
  (decode_version (set_splitting w b) =
     {| f_vins := get_vinsert_delete w; f_locked := get_locked w;
        f_insdel := get_inserting_deleting w; f_splitting := b;
        f_vsplit := get_vsplit w; f_deleted := get_deleted w; f_root := get_root w;
        f_border := get_border w |} /\ set_splitting w b < w64) /\
  (decode_version (set_deleted w b) =
     {| f_vins := get_vinsert_delete w; f_locked := get_locked w;
        f_insdel := get_inserting_deleting w; f_splitting := get_splitting w;
        f_vsplit := get_vsplit w; f_deleted := b; f_root := get_root w;
        f_border := get_border w |} /\ set_deleted w b < w64) /\
  (decode_version (set_root w b) =
     {| f_vins := get_vinsert_delete w; f_locked := get_locked w;
        f_insdel := get_inserting_deleting w; f_splitting := get_splitting w;
        f_vsplit := get_vsplit w; f_deleted := get_deleted w; f_root := b;
        f_border := get_border w |} /\ set_root w b < w64) /\
  (decode_version (set_border w b) =
     {| f_vins := get_vinsert_delete w; f_locked := get_locked w;
        f_insdel := get_inserting_deleting w; f_splitting := get_splitting w;
        f_vsplit := get_vsplit w; f_deleted := get_deleted w; f_root := get_root w;
        f_border := b |} /\ set_border w b < w64).
Proof.
  intros Hw.
  split; [split; [apply decode_set_locked|apply set_locked_lt; exact Hw]|].
  split; [split; [apply decode_set_inserting_deleting|apply set_inserting_deleting_lt; exact Hw]|].
  split; [split; [apply decode_set_splitting|apply set_splitting_lt; exact Hw]|].
  split; [split; [apply decode_set_deleted|apply set_deleted_lt; exact Hw]|].
  split; [split; [apply decode_set_root|apply set_root_lt; exact Hw]|].
  split; [apply decode_set_border|apply set_border_lt; exact Hw].
Qed.

(** ** Counters *)

Lemma get_vinsert_delete_lt w : get_vinsert_delete w < 2 ^ 29.
Proof. apply field_lt. Qed.

Lemma get_vsplit_lt w : get_vsplit w < 2 ^ 29.
Proof. apply field_lt. Qed.

Lemma get_vinsert_delete_div_mod w : get_vinsert_delete w = w mod 2 ^ 29.
Proof.
  unfold get_vinsert_delete, vins_lo, vins_len. rewrite field_div_mod.
  rewrite N.pow_0_r, N.div_1_r. reflexivity.
Qed.

Lemma get_vsplit_div_mod w : get_vsplit w = (w / 2 ^ 32) mod 2 ^ 29.
Proof. apply field_div_mod. Qed.

Lemma inc_vinsert_delete_frame w :
  get_vinsert_delete (inc_vinsert_delete w) = (get_vinsert_delete w + 1) mod 2 ^ 29 /\
  get_locked (inc_vinsert_delete w) = get_locked w /\
  get_inserting_deleting (inc_vinsert_delete w) = get_inserting_deleting w /\
  get_splitting (inc_vinsert_delete w) = get_splitting w /\
  get_deleted (inc_vinsert_delete w) = get_deleted w /\
  get_root (inc_vinsert_delete w) = get_root w /\
  get_border (inc_vinsert_delete w) = get_border w /\
  get_vsplit (inc_vinsert_delete w) = get_vsplit w.
Proof. repeat split; vframe. Qed.

Lemma inc_vsplit_frame w :
  get_vsplit (inc_vsplit w) = (get_vsplit w + 1) mod 2 ^ 29 /\
  get_locked (inc_vsplit w) = get_locked w /\
  get_inserting_deleting (inc_vsplit w) = get_inserting_deleting w /\
  get_splitting (inc_vsplit w) = get_splitting w /\
  get_deleted (inc_vsplit w) = get_deleted w /\
  get_root (inc_vsplit w) = get_root w /\
  get_border (inc_vsplit w) = get_border w /\
  get_vinsert_delete (inc_vsplit w) = get_vinsert_delete w.
Proof. repeat split; vframe. Qed.

Lemma inc_vinsert_delete_lt w : w < w64 -> inc_vinsert_delete w < w64.
Proof. intros; vunfold; vlt. Qed.

Lemma inc_vsplit_lt w : w < w64 -> inc_vsplit w < w64.
Proof. intros; vunfold; vlt. Qed.

Lemma decode_inc_vinsert_delete w :
  decode_version (inc_vinsert_delete w) =
  {| f_vins := (get_vinsert_delete w + 1) mod 2 ^ 29; f_locked := get_locked w;
     f_insdel := get_inserting_deleting w; f_splitting := get_splitting w;
     f_vsplit := get_vsplit w; f_deleted := get_deleted w; f_root := get_root w;
     f_border := get_border w |}.
Proof. unfold decode_version. f_equal; vframe. Qed.

Lemma decode_inc_vsplit w :
  decode_version (inc_vsplit w) =
  {| f_vins := get_vinsert_delete w; f_locked := get_locked w;
     f_insdel := get_inserting_deleting w; f_splitting := get_splitting w;
     f_vsplit := (get_vsplit w + 1) mod 2 ^ 29; f_deleted := get_deleted w;
     f_root := get_root w; f_border := get_border w |}.
Proof. unfold decode_version. f_equal; vframe. Qed.

Lemma counters_wrap w : w < w64 ->
  (decode_version (inc_vinsert_delete w) =
     {| f_vins := (get_vinsert_delete w + 1) mod 2 ^ 29; f_locked := get_locked w;
        f_insdel := get_inserting_deleting w; f_splitting := get_splitting w;
        f_vsplit := get_vsplit w; f_deleted := get_deleted w; f_root := get_root w;
        f_border := get_border w |} /\ inc_vinsert_delete w < w64) /\
  (decode_version (inc_vsplit w) =
     {| f_vins := get_vinsert_delete w; f_locked := get_locked w;
        f_insdel := get_inserting_deleting w; f_splitting := get_splitting w;
        f_vsplit := (get_vsplit w + 1) mod 2 ^ 29; f_deleted := get_deleted w;
        f_root := get_root w; f_border := get_border w |} /\ inc_vsplit w < w64) /\
  get_vinsert_delete w < 2 ^ 29 /\ get_vsplit w < 2 ^ 29.
Proof.
  intros Hw.
  split; [split; [apply decode_inc_vinsert_delete|apply inc_vinsert_delete_lt; exact Hw]|].
  split; [split; [apply decode_inc_vsplit|apply inc_vsplit_lt; exact Hw]|].
  split; [apply get_vinsert_delete_lt|apply get_vsplit_lt].
Qed.

(** ** [decode_version] loses nothing on 64-bit words *)

Lemma decode_version_inj w w' :
  w < w64 -> w' < w64 -> decode_version w = decode_version w' -> w = w'.
Proof.
  intros Hw Hw' E. unfold decode_version in E.
  injection E as Evi El Ei Es Evs Ed Er Eb.
  vunfold. unfold get_bit in *.
  unfold vins_lo, vins_len, vsplit_lo, vsplit_len,
         locked_bit, insdel_bit, splitting_bit, deleted_bit, root_bit, border_bit in *.
  apply N.bits_inj. intros n.
  destruct (N.lt_ge_cases n 29) as [H29|H29].
  { apply (field_bit_eq w w' 0 29 n Evi); lia. }
  destruct (N.eq_dec n 29) as [->|N29]; [exact El|].
  destruct (N.eq_dec n 30) as [->|N30]; [exact Ei|].
  destruct (N.eq_dec n 31) as [->|N31]; [exact Es|].
  destruct (N.lt_ge_cases n 61) as [H61|H61].
  { apply (field_bit_eq w w' 32 29 n Evs); lia. }
  destruct (N.eq_dec n 61) as [->|N61]; [exact Ed|].
  destruct (N.eq_dec n 62) as [->|N62]; [exact Er|].
  destruct (N.eq_dec n 63) as [->|N63]; [exact Eb|].
  rewrite (testbit_small w 64), (testbit_small w' 64); [reflexivity|..]; try assumption; lia.
Qed.

(** ** unlock *)

Lemma unlock_getters w :
  get_locked (unlock w) = false /\
  get_inserting_deleting (unlock w) = false /\
  get_splitting (unlock w) = false /\
  get_vinsert_delete (unlock w) =
    (if get_inserting_deleting w then (get_vinsert_delete w + 1) mod 2 ^ 29
     else get_vinsert_delete w) /\
  get_vsplit (unlock w) =
    (if get_splitting w then (get_vsplit w + 1) mod 2 ^ 29 else get_vsplit w) /\
  get_deleted (unlock w) = get_deleted w /\
  get_root (unlock w) = get_root w /\
  get_border (unlock w) = get_border w.
Proof.
  unfold unlock. cbv zeta.
  destruct (get_inserting_deleting w) eqn:Ei.
  - assert (get_splitting (set_inserting_deleting (inc_vinsert_delete w) false) = get_splitting w)
      as Es' by vframe.
    rewrite Es'.
    destruct (get_splitting w) eqn:Es.
    + repeat split; vframe.
    + repeat split; vunfold; vrw; rewrite ?Ei, ?Es; reflexivity.
  - destruct (get_splitting w) eqn:Es.
    + repeat split; vunfold; vrw; rewrite ?Ei, ?Es; reflexivity.
    + repeat split; vunfold; vrw; rewrite ?Ei, ?Es; reflexivity.
Qed.

Lemma unlock_lt w : w < w64 -> unlock w < w64.
Proof.
  intros Hw. unfold unlock. cbv zeta.
  assert (forall x, x < w64 ->
            (if get_splitting x then set_splitting (inc_vsplit x) false else x) < w64) as H2.
  { intros x Hx. destruct (get_splitting x); [|exact Hx]. vunfold. vlt. }
  apply set_locked_lt. apply H2.
  destruct (get_inserting_deleting w); [|exact Hw]. vunfold. vlt.
Qed.

Lemma unlock_exact w : w < w64 ->
  let f := decode_version w in
  let g := decode_version (unlock w) in
  f_locked g = false /\ f_insdel g = false /\ f_splitting g = false /\
  f_vins g = (if f_insdel f then (f_vins f + 1) mod 2 ^ 29 else f_vins f) /\
  f_vsplit g = (if f_splitting f then (f_vsplit f + 1) mod 2 ^ 29 else f_vsplit f) /\
  f_deleted g = f_deleted f /\ f_root g = f_root f /\ f_border g = f_border f /\
  unlock w < w64.
Proof.
  intros Hw. cbv zeta.
  cbv beta iota delta [decode_version f_vins f_locked f_insdel f_splitting f_vsplit
                       f_deleted f_root f_border].
  destruct (unlock_getters w) as (H1 & H2 & H3 & H4 & H5 & H6 & H7 & H8).
  repeat split; try assumption. apply unlock_lt; exact Hw.
Qed.

(** ** try_lock *)

Lemma try_lock_some w w' : w < w64 -> try_lock w = Some w' ->
  get_locked w = false /\ get_locked w' = true /\
  get_vinsert_delete w' = get_vinsert_delete w /\
  get_inserting_deleting w' = get_inserting_deleting w /\
  get_splitting w' = get_splitting w /\
  get_vsplit w' = get_vsplit w /\
  get_deleted w' = get_deleted w /\
  get_root w' = get_root w /\
  get_border w' = get_border w /\
  w' < w64.
Proof.
  intros Hw H. unfold try_lock in H.
  destruct (get_locked w) eqn:El; [discriminate|].
  injection H as <-.
  split; [reflexivity|].
  repeat split; try (vframe). apply set_locked_lt; exact Hw.
Qed.

Lemma try_lock_none w : try_lock w = None <-> get_locked w = true.
Proof.
  unfold try_lock. destruct (get_locked w); split; intros H; try reflexivity; discriminate.
Qed.

Lemma try_lock_spec w : w < w64 ->
  (forall w', try_lock w = Some w' ->
     get_locked w = false /\ get_locked w' = true /\
     get_vinsert_delete w' = get_vinsert_delete w /\
     get_inserting_deleting w' = get_inserting_deleting w /\
     get_splitting w' = get_splitting w /\
     get_vsplit w' = get_vsplit w /\
     get_deleted w' = get_deleted w /\
     get_root w' = get_root w /\
     get_border w' = get_border w /\
     w' < w64) /\
  (try_lock w = None <-> get_locked w = true).
Proof.
  intros Hw. split; [intros w'; apply try_lock_some; exact Hw|apply try_lock_none].
Qed.

(** ** stable *)

Lemma stable_clean w :
  is_stable w = true <->
  get_locked w = false /\ get_inserting_deleting w = false /\ get_splitting w = false.
Proof.
  unfold is_stable.
  destruct (get_inserting_deleting w), (get_locked w), (get_splitting w); cbn [negb andb];
    split; try (intros H; discriminate H); try (intros (H1 & H2 & H3); discriminate);
    intros _; repeat split.
Qed.

(** ** an unlock always changes the word *)

Lemma unlock_changes_word w : get_locked w = true -> unlock w <> w.
Proof.
  intros Hl E. pose proof (proj1 (unlock_getters w)) as H.
  rewrite E, Hl in H. discriminate.
Qed.

Lemma unlock_moves_vinsert_delete w :
  get_inserting_deleting w = true -> get_vinsert_delete (unlock w) <> get_vinsert_delete w.
Proof.
  intros Hi. destruct (unlock_getters w) as (_ & _ & _ & H4 & _).
  rewrite H4, Hi. apply succ_mod_neq; [lia|apply get_vinsert_delete_lt].
Qed.

Lemma unlock_moves_vsplit w :
  get_splitting w = true -> get_vsplit (unlock w) <> get_vsplit w.
Proof.
  intros Hs. destruct (unlock_getters w) as (_ & _ & _ & _ & H5 & _).
  rewrite H5, Hs. apply succ_mod_neq; [lia|apply get_vsplit_lt].
Qed.

Lemma unlock_changes w : w < w64 ->
  (get_locked w = true -> unlock w <> w) /\
  (get_inserting_deleting w = true ->
     get_vinsert_delete (unlock w) <> get_vinsert_delete w /\ unlock w <> w) /\
  (get_splitting w = true ->
     get_vsplit (unlock w) <> get_vsplit w /\ unlock w <> w).
Proof.
  intros _. split; [apply unlock_changes_word|]. split.
  - intros Hi. pose proof (unlock_moves_vinsert_delete w Hi) as H.
    split; [exact H|]. intros E. apply H. rewrite E. reflexivity.
  - intros Hs. pose proof (unlock_moves_vsplit w Hs) as H.
    split; [exact H|]. intros E. apply H. rewrite E. reflexivity.
Qed.

(** ** init *)

Lemma version_init_decode :
  decode_version version_init =
  {| f_vins := 0; f_locked := false; f_insdel := false; f_splitting := false;
     f_vsplit := 0; f_deleted := false; f_root := false; f_border := false |}.
Proof. vm_compute. reflexivity. Qed.

Lemma version_init_lt : version_init < w64.
Proof. reflexivity. Qed.
