(** * SpecDefs: what a user has in mind -- storages are a map from names to
    ordered maps from byte strings to values; scan = validate, filter, truncate.
    Independent of the tree model (it only shares the op/out vocabulary). *)
From Yk Require Export SysDefs.
Local Open Scope N_scope.

(** the observable part of a value *)
Record aval := { av_bytes : list N; av_inline : bool }.
Definition abs_value (v : value) : aval := {| av_bytes := v_bytes v; av_inline := v_inline v |}.

Definition smap := list (key * aval).       (* strictly ascending in lex_lt *)

Fixpoint key_eqb (a b : key) : bool :=
  match a, b with
  | [], [] => true
  | x :: a', y :: b' => (x =? y) && key_eqb a' b'
  | _, _ => false
  end.

Fixpoint smap_get (m : smap) (k : key) : option aval :=
  match m with
  | [] => None
  | (k', v) :: r => if key_eqb k' k then Some v else smap_get r k
  end.

Fixpoint smap_put (m : smap) (k : key) (v : aval) : smap :=
  match m with
  | [] => [(k, v)]
  | (k', v') :: r =>
    if key_eqb k' k then (k, v) :: r
    else if lex_lt k k' then (k, v) :: m
    else (k', v') :: smap_put r k v
  end.

Fixpoint smap_del (m : smap) (k : key) : smap :=
  match m with
  | [] => []
  | (k', v') :: r => if key_eqb k' k then r else (k', v') :: smap_del r k
  end.

(** membership of a key in the requested interval *)
Definition in_left (l : key) (le : endpoint) (k : key) : bool :=
  match le with
  | EP_INF => true
  | EP_INCL => negb (lex_lt k l)
  | EP_EXCL => lex_lt l k
  end.
Definition in_right (r : key) (re : endpoint) (k : key) : bool :=
  match re with
  | EP_INF => true
  | EP_INCL => negb (lex_lt r k)
  | EP_EXCL => lex_lt k r
  end.

(** the documented argument errors of scan *)
Definition spec_scan_args_ok (a : scan_args) : bool :=
  negb ((sa_lnull a && negb (Nat.eqb (length (sa_l a)) 0)) || (sa_rnull a && negb (Nat.eqb (length (sa_r a)) 0))) &&
  (* non-empty range *)
  match sa_re a, sa_le a with
  | EP_INF, _ => true
  | re, EP_INF => negb (ep_eqb re EP_EXCL && Nat.eqb (length (sa_r a)) 0)
  | re, le => lex_lt (sa_l a) (sa_r a) ||
              (key_eqb (sa_l a) (sa_r a) && ep_eqb le EP_INCL && ep_eqb re EP_INCL)
  end &&
  (* right-to-left only for "the greatest one" *)
  negb (sa_rtl a && (negb (ep_eqb (sa_re a) EP_INF) || negb (Nat.eqb (sa_max a) 1))).

Definition spec_scan_list (m : smap) (a : scan_args) : list (key * aval) :=
  let sel := filter (fun kv => in_left (sa_l a) (sa_le a) (fst kv) && in_right (sa_r a) (sa_re a) (fst kv)) m in
  if sa_rtl a then match rev sel with [] => [] | x :: _ => [x] end
  else if Nat.eqb (sa_max a) 0 then sel else firstn (sa_max a) sel.

(** ** the whole system *)
Definition spec_sys := list (key * smap).     (* storage name -> map; ascending by name *)

Fixpoint ssys_get (s : spec_sys) (n : key) : option smap :=
  match s with [] => None | (n', m) :: r => if key_eqb n' n then Some m else ssys_get r n end.
Fixpoint ssys_put (s : spec_sys) (n : key) (m : smap) : spec_sys :=
  match s with
  | [] => [(n, m)]
  | (n', m') :: r => if key_eqb n' n then (n, m) :: r
                     else if lex_lt n n' then (n, m) :: s else (n', m') :: ssys_put r n m
  end.
Fixpoint ssys_del (s : spec_sys) (n : key) : spec_sys :=
  match s with [] => [] | (n', m') :: r => if key_eqb n' n then r else (n', m') :: ssys_del r n end.

(** observable results *)
Inductive aout :=
| AStatus (s : status)
| APut (s : status)
| AGet (s : status) (v : option aval)
| ARemove (s : status)
| AScan (s : status) (ts : list (key * aval))
| AList (s : status) (names : list key)
| AStuck.

Definition abs_out (o : out) : aout :=
  match o with
  | RStatus s => AStatus s
  | RPut po => APut (po_status po)
  | RGet g => AGet (go_status g) (option_map abs_value (go_value g))
  | RRemove r => ARemove (ro_status r)
  | RScan so => AScan (so_status so) (map (fun kv => (fst kv, abs_value (snd kv))) (so_tuples so))
  | RList s ns => AList s ns
  | RStuck => AStuck
  end.

(** The spec state carries one extra bit: whether any storage was ever created
    since init/destroy (the status of destroy() exposes whether the outer root
    pointer is still null). *)
Record spec_state := { sp_null : bool; sp_map : spec_sys }.
Definition spec_init : spec_state := {| sp_null := true; sp_map := [] |}.

Definition spec_exec (st : spec_state) (o : op) : spec_state * aout :=
  let s := sp_map st in
  let keep (m : spec_sys) := {| sp_null := sp_null st; sp_map := m |} in
  match o with
  | OCreate n =>
    match ssys_get s n with
    | Some _ => (st, AStatus St_WARN_UNIQUE_RESTRICTION)
    | None => ({| sp_null := false; sp_map := ssys_put s n [] |}, AStatus St_OK)
    end
  | ODropStorage n =>
    match ssys_get s n with
    | None => (st, AStatus St_WARN_NOT_EXIST)
    | Some _ => (keep (ssys_del s n), AStatus St_OK)
    end
  | OFind n => (st, AStatus (match ssys_get s n with Some _ => St_OK | None => St_WARN_NOT_EXIST end))
  | OList => (st, match s with [] => AList St_WARN_NOT_EXIST [] | _ => AList St_OK (map fst s) end)
  | OPut n k bytes align unique inline =>
    match ssys_get s n with
    | None => (st, AStatus St_WARN_STORAGE_NOT_EXIST)
    | Some m =>
      match smap_get m k with
      | Some _ => if unique then (st, APut St_WARN_UNIQUE_RESTRICTION)
                  else (keep (ssys_put s n (smap_put m k {| av_bytes := bytes; av_inline := inline |})), APut St_OK)
      | None => (keep (ssys_put s n (smap_put m k {| av_bytes := bytes; av_inline := inline |})), APut St_OK)
      end
    end
  | OGet n k =>
    match ssys_get s n with
    | None => (st, AStatus St_WARN_STORAGE_NOT_EXIST)
    | Some m => (st, match smap_get m k with
                     | Some v => AGet St_OK (Some v)
                     | None => AGet St_WARN_NOT_EXIST None end)
    end
  | ORemove n k =>
    match ssys_get s n with
    | None => (st, AStatus St_WARN_STORAGE_NOT_EXIST)
    | Some m => match smap_get m k with
                | Some _ => (keep (ssys_put s n (smap_del m k)), ARemove St_OK)
                | None => (st, ARemove St_OK_NOT_FOUND)
                end
    end
  | OScan n a =>
    match ssys_get s n with
    | None => (st, AStatus St_WARN_STORAGE_NOT_EXIST)
    | Some m => if spec_scan_args_ok a then (st, AScan St_OK (spec_scan_list m a))
                else (st, AScan St_ERR_BAD_USAGE [])
    end
  | ODestroy => (spec_init, AStatus (if sp_null st then St_OK_ROOT_IS_NULL else St_OK_DESTROY_ALL))
  end.

Fixpoint spec_exec_all (s : spec_state) (ops : list op) : spec_state * list aout :=
  match ops with
  | [] => (s, [])
  | o :: r => let '(s1, x) := spec_exec s o in let '(s2, xs) := spec_exec_all s1 r in (s2, x :: xs)
  end.
