(** * KeyProofs: every hand-written key comparison site agrees with the
    canonical (slice, length) order on well-formed tuples, and that order is
    the bytewise lexicographic order of the keys. *)
From Coq Require Import NArith PeanoNat Lia ZifyBool ZifyN Bool List.
From Yk Require Import KeyDefs.
Local Open Scope N_scope.

(** ** a. [canon_lt] is a strict total order (no well-formedness needed) *)

Lemma canon_lt_irrefl a : canon_lt a a = false.
Proof. unfold canon_lt. lia. Qed.

Lemma canon_lt_trans a b c :
  canon_lt a b = true -> canon_lt b c = true -> canon_lt a c = true.
Proof. unfold canon_lt. lia. Qed.

Lemma canon_lt_asym a b : canon_lt a b = true -> canon_lt b a = false.
Proof. unfold canon_lt. lia. Qed.

Lemma canon_lt_trich a b : canon_lt a b = false -> canon_lt b a = false -> a = b.
Proof.
  destruct a as [sa la], b as [sb lb]. unfold canon_lt. cbn [ks kl].
  intros H1 H2. f_equal; lia.
Qed.

Lemma canon_strict_total :
  (forall a, canon_lt a a = false) /\
  (forall a b c, canon_lt a b = true -> canon_lt b c = true -> canon_lt a c = true) /\
  (forall a b, canon_lt a b = false -> canon_lt b a = false -> a = b).
Proof.
  split; [exact canon_lt_irrefl|]. split; [exact canon_lt_trans|exact canon_lt_trich].
Qed.

Lemma ktuple_eq a b : a = b <-> ks a = ks b /\ kl a = kl b.
Proof.
  split; [intros ->; split; reflexivity|].
  destruct a as [sa la], b as [sb lb]. cbn [ks kl]. intros [-> ->]. reflexivity.
Qed.

(** ** well-formedness unpacked *)

Lemma kt_wf_spec t :
  kt_wf t = true <->
  kl t <= 9 /\ ks t < 2 ^ 64 /\ (kl t < 8 -> ks t mod 2 ^ (8 * (8 - kl t)) = 0).
Proof.
  unfold kt_wf. rewrite !andb_true_iff, orb_true_iff, !N.leb_le, N.ltb_lt, N.eqb_eq.
  split.
  - intros [[H1 H2] H3]. repeat split; auto. intros H. destruct H3 as [H3|H3]; [lia|exact H3].
  - intros (H1 & H2 & H3). split; [split; assumption|].
    destruct (N.le_gt_cases 8 (kl t)) as [H|H]; [left; exact H|right; apply H3; exact H].
Qed.

Lemma wf_len0 t : kt_wf t = true -> kl t = 0 -> ks t = 0.
Proof.
  intros Hw H0. apply kt_wf_spec in Hw. destruct Hw as (_ & Hs & Hp).
  specialize (Hp ltac:(lia)). rewrite H0 in Hp.
  change (2 ^ (8 * (8 - 0))) with (2 ^ 64) in Hp.
  rewrite N.mod_small in Hp by exact Hs. exact Hp.
Qed.

(** the slice of a wf tuple is zero below its first [min (kl t) 8] bytes *)
Lemma wf_pad t : kt_wf t = true -> ks t mod 2 ^ (8 * (8 - N.min (kl t) 8)) = 0.
Proof.
  intros Hw. apply kt_wf_spec in Hw. destruct Hw as (_ & _ & Hp).
  destruct (N.lt_ge_cases (kl t) 8) as [H|H].
  - replace (N.min (kl t) 8) with (kl t) by lia. apply Hp. exact H.
  - replace (N.min (kl t) 8) with 8 by lia. change (2 ^ (8 * (8 - 8))) with 1. apply N.mod_1_r.
Qed.

(** ** memcmp over a prefix of a slice *)

Lemma shiftr_lt_inv a b n : N.shiftr a n < N.shiftr b n -> a < b.
Proof.
  rewrite !N.shiftr_div_pow2. intros H. apply N.nle_gt. intros Hle.
  apply N.nle_gt in H. apply H. apply N.div_le_mono; [|exact Hle].
  apply N.pow_nonzero. discriminate.
Qed.

Lemma shiftr_eq_le a b n : a mod 2 ^ n = 0 -> N.shiftr a n = N.shiftr b n -> a <= b.
Proof.
  rewrite !N.shiftr_div_pow2. intros Hm He.
  assert (P : 2 ^ n <> 0) by (apply N.pow_nonzero; discriminate).
  pose proof (N.div_mod a (2 ^ n) P) as E.
  rewrite Hm, N.add_0_r, He in E. rewrite E. apply N.mul_div_le. exact P.
Qed.

Lemma memcmp_slice_spec a b n :
  match memcmp_slice a b n with
  | Lt3 => a < b
  | Gt3 => b < a
  | Eq3 => (a mod 2 ^ (8 * (8 - n)) = 0 -> a <= b) /\ (b mod 2 ^ (8 * (8 - n)) = 0 -> b <= a)
  end.
Proof.
  unfold memcmp_slice, cmpN. cbv zeta.
  destruct (N.compare_spec (N.shiftr a (8 * (8 - n))) (N.shiftr b (8 * (8 - n)))) as [H|H|H].
  - split; intros Hm; eapply shiftr_eq_le; eauto.
  - eapply shiftr_lt_inv; eauto.
  - eapply shiftr_lt_inv; eauto.
Qed.

Lemma memcmp8 a b : memcmp_slice a b 8 = cmpN a b.
Proof.
  unfold memcmp_slice. cbv zeta. change (8 * (8 - 8)) with 0.
  rewrite !N.shiftr_0_r. reflexivity.
Qed.

(** the core fact: memcmp over the common prefix, then the lengths, is the
    canonical order -- because the shorter tuple is zero padded *)
Lemma min_probe_canon a b m :
  kt_wf a = true -> kt_wf b = true -> m = N.min (N.min (kl a) (kl b)) 8 ->
  match memcmp_slice (ks a) (ks b) m with
  | Lt3 => true
  | Eq3 => kl a <? kl b
  | Gt3 => false
  end = canon_lt a b.
Proof.
  intros Ha Hb Hm.
  assert (kl a <= kl b -> m = N.min (kl a) 8) as Ma by lia.
  assert (kl b <= kl a -> m = N.min (kl b) 8) as Mb by lia.
  pose proof (wf_pad a Ha) as Pa. pose proof (wf_pad b Hb) as Pb.
  pose proof (memcmp_slice_spec (ks a) (ks b) m) as H. unfold canon_lt.
  destruct (memcmp_slice (ks a) (ks b) m).
  - clear Pa Pb. lia.
  - destruct H as [H1 H2].
    assert (kl a <= kl b -> ks a <= ks b) as L1.
    { intros Hl. apply H1. rewrite (Ma Hl). exact Pa. }
    assert (kl b <= kl a -> ks b <= ks a) as L2.
    { intros Hl. apply H2. rewrite (Mb Hl). exact Pb. }
    clear H1 H2 Pa Pb. lia.
  - clear Pa Pb. lia.
Qed.

(** ** b. key_tuple::operator< and friends *)

Theorem kt_lt_canon a b : kt_wf a = true -> kt_wf b = true -> kt_lt a b = canon_lt a b.
Proof.
  intros Ha Hb. unfold kt_lt.
  pose proof (proj1 (kt_wf_spec a) Ha) as (La & _ & _).
  pose proof (proj1 (kt_wf_spec b) Hb) as (Lb & _ & _).
  destruct (N.eqb_spec (kl b) 0) as [Eb|Eb].
  - pose proof (wf_len0 b Hb Eb). unfold canon_lt. lia.
  - destruct (N.eqb_spec (kl a) 0) as [Ea|Ea].
    + pose proof (wf_len0 a Ha Ea). unfold canon_lt. lia.
    + unfold memcmp_tuple. destruct (N.leb_spec (N.min (kl a) (kl b)) 8) as [H|H].
      * rewrite <- (min_probe_canon a b _ Ha Hb eq_refl).
        replace (N.min (N.min (kl a) (kl b)) 8) with (N.min (kl a) (kl b)) by lia.
        reflexivity.
      * assert (kl a = 9) as E1 by lia. assert (kl b = 9) as E2 by lia.
        rewrite <- (min_probe_canon a b 8 Ha Hb) by lia.
        destruct (memcmp_slice (ks a) (ks b) 8); try reflexivity.
        rewrite E1, E2. reflexivity.
Qed.

Theorem kt_gt_canon a b : kt_wf a = true -> kt_wf b = true -> kt_gt a b = canon_lt b a.
Proof. intros. unfold kt_gt. apply kt_lt_canon; assumption. Qed.

Theorem kt_ge_canon a b : kt_wf a = true -> kt_wf b = true -> kt_ge a b = negb (canon_lt a b).
Proof. intros. unfold kt_ge. rewrite kt_lt_canon by assumption. reflexivity. Qed.

Theorem kt_le_canon a b : kt_wf a = true -> kt_wf b = true -> kt_le a b = negb (canon_lt b a).
Proof. intros. unfold kt_le. rewrite kt_gt_canon by assumption. reflexivity. Qed.

Theorem kt_eq_canon a b :
  (kt_eq a b = true <-> a = b) /\
  kt_eq a b = negb (canon_lt a b) && negb (canon_lt b a).
Proof.
  split.
  - rewrite ktuple_eq. unfold kt_eq. lia.
  - unfold kt_eq, canon_lt. lia.
Qed.

Theorem operator_lt_is_canon a b :
  kt_wf a = true -> kt_wf b = true ->
  kt_lt a b = canon_lt a b /\ kt_gt a b = canon_lt b a /\
  kt_le a b = negb (canon_lt b a) /\ kt_ge a b = negb (canon_lt a b) /\
  (kt_eq a b = true <-> a = b) /\
  kt_eq a b = negb (canon_lt a b) && negb (canon_lt b a).
Proof.
  intros Ha Hb.
  split; [apply kt_lt_canon; assumption|].
  split; [apply kt_gt_canon; assumption|].
  split; [apply kt_le_canon; assumption|].
  split; [apply kt_ge_canon; assumption|].
  apply kt_eq_canon.
Qed.

(** ** c. the other comparison sites *)

Lemma wf_len_le t : kt_wf t = true -> kl t <= 9.
Proof. intros H. apply kt_wf_spec in H. apply H. Qed.

(** site 2: lookup *)
Lemma lookup_probe_char k t :
  kt_wf k = true -> kt_wf t = true ->
  lookup_probe k t = if kt_eq k t then Hit else if canon_lt k t then Stop else Next.
Proof.
  intros Hk Ht. pose proof (wf_len_le k Hk) as Lk. pose proof (wf_len_le t Ht) as Lt.
  pose proof (wf_len0 k Hk) as Zk. pose proof (wf_len0 t Ht) as Zt.
  unfold lookup_probe, kt_eq, canon_lt. rewrite memcmp8. unfold cmpN.
  destruct ((kl k =? 0) && (kl t =? 0)) eqn:E0.
  - assert ((ks k =? ks t) && (kl k =? kl t) = true) as -> by lia. reflexivity.
  - destruct (N.compare_spec (ks k) (ks t)) as [H|H|H].
    + destruct ((8 <? kl k) && (8 <? kl t) || (kl k =? kl t)) eqn:E1.
      * assert ((ks k =? ks t) && (kl k =? kl t) = true) as -> by lia. reflexivity.
      * assert ((ks k =? ks t) && (kl k =? kl t) = false) as -> by lia.
        destruct (N.ltb_spec (kl k) (kl t)) as [H1|H1].
        -- assert ((ks k <? ks t) || (ks k =? ks t) && true = true) as -> by lia. reflexivity.
        -- assert ((ks k <? ks t) || (ks k =? ks t) && false = false) as -> by lia. reflexivity.
    + assert ((ks k =? ks t) && (kl k =? kl t) = false) as -> by lia.
      assert ((ks k <? ks t) || (ks k =? ks t) && (kl k <? kl t) = true) as -> by lia.
      reflexivity.
    + assert ((ks k =? ks t) && (kl k =? kl t) = false) as -> by lia.
      assert ((ks k <? ks t) || (ks k =? ks t) && (kl k <? kl t) = false) as -> by lia.
      reflexivity.
Qed.

Lemma kt_eq_true k t : kt_eq k t = true <-> ks k = ks t /\ kl k = kl t.
Proof. unfold kt_eq. lia. Qed.

Theorem lookup_probe_site k t :
  kt_wf k = true -> kt_wf t = true ->
  (lookup_probe k t = Hit <-> k = t \/ (8 < kl k /\ 8 < kl t /\ ks k = ks t)) /\
  (lookup_probe k t = Hit <-> ks k = ks t /\ kl k = kl t) /\
  (lookup_probe k t = Stop <-> canon_lt k t = true) /\
  (lookup_probe k t = Next <-> canon_lt t k = true).
Proof.
  intros Hk Ht. rewrite (lookup_probe_char k t Hk Ht).
  pose proof (wf_len_le k Hk) as Lk. pose proof (wf_len_le t Ht) as Lt.
  pose proof (kt_eq_true k t) as E. rewrite ktuple_eq.
  pose proof (canon_lt_asym k t) as A1. pose proof (canon_lt_asym t k) as A2.
  pose proof (canon_lt_trich k t) as T. rewrite ktuple_eq in T.
  destruct (kt_eq k t).
  - destruct E as [E _]. specialize (E eq_refl). destruct E as [E1 E2].
    assert (canon_lt k t = false) as C1 by (unfold canon_lt; lia).
    assert (canon_lt t k = false) as C2 by (unfold canon_lt; lia).
    rewrite C1, C2.
    repeat split; try discriminate; try tauto.
  - assert (~ (ks k = ks t /\ kl k = kl t)) as NE by (intros X; apply E in X; discriminate).
    destruct (canon_lt k t) eqn:C1.
    + rewrite (A1 eq_refl).
      repeat split; try discriminate; try tauto; try (intros; exfalso; lia).
    + destruct (canon_lt t k) eqn:C2.
      * repeat split; try discriminate; try tauto; try (intros; exfalso; lia).
      * exfalso. apply NE. apply T; reflexivity.
Qed.

(** site 3: rank for insert (holds for all tuples) *)
Theorem rank_probe_site k t : rank_probe k t = canon_lt k t.
Proof.
  unfold rank_probe, canon_lt. rewrite memcmp8. unfold cmpN.
  destruct (N.compare_spec (ks k) (ks t)); lia.
Qed.

(** site 4: interior routing *)
Theorem route_probe_site k sep :
  kt_wf k = true -> kt_wf sep = true -> route_probe k sep = canon_lt k sep.
Proof.
  intros Hk Hs. unfold route_probe. cbv zeta. apply min_probe_canon; auto.
Qed.

(** sites 5, 6: interior insert position / interior split side *)
Theorem iins_probe_site k sep :
  kt_wf k = true -> kt_wf sep = true -> iins_probe k sep = canon_lt k sep.
Proof.
  intros Hk Hs. unfold iins_probe. cbv zeta. apply min_probe_canon; auto.
  pose proof (wf_len_le k Hk). pose proof (wf_len_le sep Hs).
  destruct ((8 <? kl k) && (8 <? kl sep)) eqn:E; lia.
Qed.

(** site 8: delete match *)
Theorem delete_match_site k t :
  kt_wf k = true -> kt_wf t = true ->
  (delete_match k t = true <-> ks k = ks t /\ kl k = kl t).
Proof.
  intros Hk Ht. pose proof (wf_len0 k Hk) as Zk. pose proof (wf_len0 t Ht) as Zt.
  unfold delete_match. rewrite memcmp8. unfold cmpN.
  destruct (N.compare_spec (ks k) (ks t)); lia.
Qed.

(** site 7: border split side.  [rank] is the position of [k] among the old
    entries and [first] is the entry at position [remaining]; the caller's
    invariant is that a smaller rank means a smaller key. *)
Theorem bsplit_left_site k first rank remaining :
  kt_wf k = true -> kt_wf first = true ->
  (ks k <> ks first \/ kl k <> kl first) ->
  ((rank <? remaining) = true -> canon_lt k first = true) ->
  bsplit_left k first rank remaining = canon_lt k first.
Proof.
  intros Hk Hf Hne Hinv. pose proof (wf_len0 k Hk) as Zk.
  unfold bsplit_left. cbv zeta.
  pose proof (min_probe_canon k first _ Hk Hf eq_refl) as H.
  destruct (memcmp_slice (ks k) (ks first) (N.min (N.min (kl k) (kl first)) 8));
    unfold canon_lt in *; lia.
Qed.

(** ** d. the tuple order is the bytewise lexicographic order of the keys *)

Definition bytes (k : key) : Prop := Forall (fun b => b < 256) k.

(** length field of the tuple cut at [n] bytes: [n+1] marks "continues" *)
Definition klen (n : nat) (a : key) : N :=
  if N.of_nat n <? N.of_nat (length a) then N.of_nat n + 1 else N.of_nat (length a).

Lemma tuple_of_key_klen k :
  tuple_of_key k = {| ks := slice_of_bytes k 8; kl := klen 8 k |}.
Proof.
  unfold tuple_of_key, klen. change (N.of_nat 8) with 8. change (8 + 1) with 9.
  destruct (8 <? N.of_nat (length k)); reflexivity.
Qed.

Lemma klen_nil n : klen n [] = 0.
Proof. unfold klen. cbn [length]. destruct (N.ltb_spec (N.of_nat n) (N.of_nat 0)); lia. Qed.

Lemma klen0_cons x r : klen 0 (x :: r) = 1.
Proof.
  unfold klen. cbn [length]. rewrite Nat2N.inj_succ.
  destruct (N.ltb_spec (N.of_nat 0) (N.succ (N.of_nat (length r)))); lia.
Qed.

Lemma klen_cons m x r : klen (S m) (x :: r) = klen m r + 1.
Proof.
  unfold klen. cbn [length]. rewrite !Nat2N.inj_succ.
  destruct (N.ltb_spec (N.succ (N.of_nat m)) (N.succ (N.of_nat (length r))));
    destruct (N.ltb_spec (N.of_nat m) (N.of_nat (length r))); lia.
Qed.

Lemma pow256_pos m : 0 < 256 ^ m.
Proof. apply N.neq_0_lt_0. apply N.pow_nonzero. discriminate. Qed.

Lemma slice_0 bs : slice_of_bytes bs 0 = 0.
Proof. destruct bs; reflexivity. Qed.

Lemma slice_lt n : forall bs, bytes bs -> slice_of_bytes bs n < 256 ^ N.of_nat n.
Proof.
  induction n as [|m IH]; intros bs Hb.
  - rewrite slice_0. apply pow256_pos.
  - rewrite Nat2N.inj_succ, N.pow_succ_r'. pose proof (pow256_pos (N.of_nat m)) as HP.
    destruct bs as [|b r]; cbn [slice_of_bytes].
    + lia.
    + inversion Hb as [|? ? Hb1 Hb2]; subst. specialize (IH r Hb2).
      set (P := 256 ^ N.of_nat m) in *.
      assert (b * P <= 255 * P) by (apply N.mul_le_mono_r; lia). lia.
Qed.

Lemma lex_slice n : forall a b, bytes a -> bytes b ->
  lex_lt a b =
    ((slice_of_bytes a n <? slice_of_bytes b n) ||
     ((slice_of_bytes a n =? slice_of_bytes b n) && (klen n a <? klen n b))) ||
    ((slice_of_bytes a n =? slice_of_bytes b n) && (klen n a =? klen n b) &&
     (klen n a =? N.of_nat n + 1) && lex_lt (skipn n a) (skipn n b)).
Proof.
  induction n as [|m IH]; intros a b Ha Hb.
  - rewrite !slice_0. cbn [skipn]. change (N.of_nat 0 + 1) with 1.
    destruct a as [|x a'], b as [|y b']; rewrite ?klen_nil, ?klen0_cons.
    + reflexivity.
    + reflexivity.
    + reflexivity.
    + destruct (lex_lt (x :: a') (y :: b')); reflexivity.
  - destruct a as [|x a'], b as [|y b']; cbn [lex_lt slice_of_bytes skipn];
      rewrite ?klen_nil, ?klen_cons.
    + lia.
    + lia.
    + lia.
    + inversion Ha as [|? ? Ha1 Ha2]; subst. inversion Hb as [|? ? Hb1 Hb2]; subst.
      rewrite (IH a' b' Ha2 Hb2). rewrite Nat2N.inj_succ.
      pose proof (slice_lt m a' Ha2) as Sa. pose proof (slice_lt m b' Hb2) as Sb.
      set (P := 256 ^ N.of_nat m) in *.
      set (sa := slice_of_bytes a' m) in *. set (sb := slice_of_bytes b' m) in *.
      set (la := klen m a'). set (lb := klen m b').
      set (rest := lex_lt (skipn m a') (skipn m b')).
      set (M := N.of_nat m). clearbody P sa sb la lb rest M.
      destruct (N.lt_trichotomy x y) as [H|[H|H]].
      * assert ((x + 1) * P <= y * P) by (apply N.mul_le_mono_r; lia).
        assert (x * P + sa < y * P + sb) by lia. lia.
      * subst y. lia.
      * assert ((y + 1) * P <= x * P) by (apply N.mul_le_mono_r; lia).
        assert (y * P + sb < x * P + sa) by lia. lia.
Qed.

(** the order is independent of where the 8-byte slice boundary falls *)
Theorem lex_tuple a b :
  bytes a -> bytes b ->
  lex_lt a b =
    canon_lt (tuple_of_key a) (tuple_of_key b) ||
    (kt_eq (tuple_of_key a) (tuple_of_key b) && (kl (tuple_of_key a) =? 9) &&
     lex_lt (skipn 8 a) (skipn 8 b)).
Proof.
  intros Ha Hb. rewrite (lex_slice 8 a b Ha Hb), !tuple_of_key_klen. reflexivity.
Qed.

Theorem lex_tuple_short a b :
  bytes a -> bytes b -> (length a <= 8 \/ length b <= 8)%nat ->
  lex_lt a b = canon_lt (tuple_of_key a) (tuple_of_key b).
Proof.
  intros Ha Hb Hl. rewrite (lex_tuple a b Ha Hb).
  set (r := lex_lt (skipn 8 a) (skipn 8 b)). clearbody r.
  rewrite !tuple_of_key_klen. unfold kt_eq, canon_lt, klen. cbn [ks kl].
  change (N.of_nat 8) with 8. change (8 + 1) with 9.
  destruct (N.ltb_spec 8 (N.of_nat (length a))); destruct (N.ltb_spec 8 (N.of_nat (length b))); lia.
Qed.

Lemma slice_pad n : forall bs, (length bs <= n)%nat ->
  slice_of_bytes bs n mod 256 ^ N.of_nat (n - length bs) = 0.
Proof.
  induction n as [|m IH]; intros bs Hl.
  - rewrite slice_0. apply N.mod_0_l. apply N.pow_nonzero. discriminate.
  - destruct bs as [|b r]; cbn [slice_of_bytes].
    + apply N.mod_0_l. apply N.pow_nonzero. discriminate.
    + cbn [length] in Hl. cbn [length Nat.sub].
      assert (NZ : 256 ^ N.of_nat (m - length r) <> 0) by (apply N.pow_nonzero; discriminate).
      apply N.mod_divide; [exact NZ|]. apply N.divide_add_r.
      * apply N.divide_mul_r. exists (256 ^ N.of_nat (length r)).
        rewrite <- N.pow_add_r. f_equal. lia.
      * apply N.mod_divide; [exact NZ|]. apply IH. lia.
Qed.

Theorem tuple_of_key_wf k : bytes k -> kt_wf (tuple_of_key k) = true.
Proof.
  intros Hb. apply kt_wf_spec. rewrite tuple_of_key_klen. cbn [ks kl].
  split; [|split].
  - unfold klen. change (N.of_nat 8) with 8.
    destruct (N.ltb_spec 8 (N.of_nat (length k))); lia.
  - change (2 ^ 64) with (256 ^ N.of_nat 8). apply slice_lt. exact Hb.
  - intros H.
    assert (klen 8 k = N.of_nat (length k) /\ (length k <= 8)%nat) as [E L].
    { revert H. unfold klen. change (N.of_nat 8) with 8.
      destruct (N.ltb_spec 8 (N.of_nat (length k))); lia. }
    rewrite E. clear H E.
    rewrite N.pow_mul_r. change (2 ^ 8) with 256.
    replace (8 - N.of_nat (length k)) with (N.of_nat (8 - length k)) by lia.
    apply slice_pad. exact L.
Qed.

Theorem tuple_order_is_lex :
  (forall k, bytes k -> kt_wf (tuple_of_key k) = true) /\
  (forall a b, bytes a -> bytes b -> (length a <= 8 \/ length b <= 8)%nat ->
     lex_lt a b = canon_lt (tuple_of_key a) (tuple_of_key b)) /\
  (forall a b, bytes a -> bytes b ->
     lex_lt a b =
       canon_lt (tuple_of_key a) (tuple_of_key b) ||
       (kt_eq (tuple_of_key a) (tuple_of_key b) && (kl (tuple_of_key a) =? 9) &&
        lex_lt (skipn 8 a) (skipn 8 b))).
Proof.
  split; [exact tuple_of_key_wf|]. split; [exact lex_tuple_short|exact lex_tuple].
Qed.
