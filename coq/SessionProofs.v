(** * SessionProofs: safety of the session-slot table model of SessionDefs.v.

    An inductive invariant over [sstep], lifted to every reachable state of
    every interleaving, for every capacity [n] (0 included), and the
    consequences: distinct tokens, capacity, counted, sound observations,
    WARN_MAX_SESSIONS only after every slot was seen occupied, the quiescent
    (solo) behaviour of enter, slot reuse. *)
From Coq Require Import NArith PeanoNat Lia Bool List.
From Yk Require Import SessionDefs.

Definition reachable (n : nat) (s : sst) : Prop := exists tr, srun n sinit tr = Some s.

(** ** pointwise update *)

Lemma upd_same {A} (f : nat -> A) i v : upd f i v i = v.
Proof. unfold upd. rewrite Nat.eqb_refl. reflexivity. Qed.

Lemma upd_other {A} (f : nat -> A) i j v : j <> i -> upd f i v j = f j.
Proof. unfold upd. intros H. destruct (Nat.eqb_spec j i); [contradiction|reflexivity]. Qed.

(** ** classification of program counters *)

(** the slot index a program counter mentions, if any *)
Definition idx (p : tpc) : option nat :=
  match p with
  | TProbe i | TCas i | TClaimed i _ | THold i | TLeaving i | TLeave1 i => Some i
  | TIdle | TFull => None
  end.

(** the slot whose begin epoch the thread has published and not yet cleared *)
Definition pubd (p : tpc) : option nat :=
  match p with
  | THold i | TLeaving i | TClaimed i true => Some i
  | _ => None
  end.

(** what the ghost observation list must contain at a program counter *)
Definition seen (n : nat) (p : tpc) (l : list nat) : Prop :=
  match p with
  | TProbe i | TCas i => forall j, j < i -> In j l
  | TFull => forall j, j < n -> In j l
  | _ => True
  end.

Lemma pubd_owns p i : pubd p = Some i -> owns p = Some i.
Proof. destruct p as [| | |j pub| | | |]; try destruct pub; simpl; congruence. Qed.

Lemma holds_owns p i : holds p = Some i -> owns p = Some i.
Proof. destruct p; simpl; congruence. Qed.

Lemma owns_idx p i : owns p = Some i -> idx p = Some i.
Proof. destruct p; simpl; congruence. Qed.

Lemma owns_next_probe n i : owns (next_probe n i) = None.
Proof. unfold next_probe. destruct (S i <? n); reflexivity. Qed.

Lemma pubd_next_probe n i : pubd (next_probe n i) = None.
Proof. unfold next_probe. destruct (S i <? n); reflexivity. Qed.

Lemma idx_next_probe n i k : idx (next_probe n i) = Some k -> k < n.
Proof.
  unfold next_probe. destruct (Nat.ltb_spec (S i) n) as [Hlt|Hge]; simpl; intros H.
  - injection H as <-. exact Hlt.
  - discriminate.
Qed.

Lemma seen_next n i l : (forall j, j < i -> In j l) -> seen n (next_probe n i) (i :: l).
Proof.
  intros H. unfold next_probe.
  destruct (Nat.ltb_spec (S i) n); simpl; intros j Hj;
    (destruct (Nat.eq_dec i j); [left; assumption | right; apply H; lia]).
Qed.

(** ** the invariant, component by component *)

Definition OwnInv (run : nat -> bool) (p : nat -> tpc) : Prop :=
  (forall i, run i = true <-> exists t, owns (p t) = Some i) /\
  (forall t1 t2 i, owns (p t1) = Some i -> owns (p t2) = Some i -> t1 = t2).

Definition BoundInv (n : nat) (p : nat -> tpc) : Prop :=
  forall t i, idx (p t) = Some i -> i < n.

Definition BeginInv (b : nat -> N) (p : nat -> tpc) : Prop :=
  forall t i, pubd (p t) = Some i -> b i <> 0%N.

Definition ObsInv (n : nat) (p : nat -> tpc) (o : nat -> list nat) : Prop :=
  forall t, seen n (p t) (o t).

Definition Inv (n : nat) (s : sst) : Prop :=
  OwnInv (running s) (pc s) /\ BoundInv n (pc s) /\
  BeginInv (begin_ s) (pc s) /\ ObsInv n (pc s) (obs s).

(** *** ownership *)

Lemma own_keep run p t q :
  OwnInv run p -> owns q = owns (p t) -> OwnInv run (upd p t q).
Proof.
  intros [A B] Hq.
  assert (E : forall u, owns (upd p t q u) = owns (p u)).
  { intros u. unfold upd. destruct (Nat.eqb_spec u t); [subst; assumption | reflexivity]. }
  split.
  - intros i. rewrite A. split; intros [u Hu]; exists u; [rewrite E | rewrite <- E]; exact Hu.
  - intros t1 t2 i. rewrite !E. apply B.
Qed.

Lemma own_acquire run p t q i :
  OwnInv run p -> owns (p t) = None -> run i = false -> owns q = Some i ->
  OwnInv (upd run i true) (upd p t q).
Proof.
  intros [A B] Hn Hr Hq.
  assert (Hfree : forall u, owns (p u) = Some i -> False).
  { intros u Hu. assert (run i = true) by (apply A; exists u; exact Hu). congruence. }
  split.
  - intros k. destruct (Nat.eq_dec k i) as [->|Hk].
    + rewrite upd_same. split; [|reflexivity]. intros _. exists t. rewrite upd_same. exact Hq.
    + rewrite (upd_other run i k) by assumption. rewrite A. split; intros [u Hu].
      * exists u. rewrite upd_other; [exact Hu|]. intros ->. congruence.
      * destruct (Nat.eq_dec u t) as [->|Hut].
        -- rewrite upd_same in Hu. congruence.
        -- rewrite upd_other in Hu by assumption. exists u. exact Hu.
  - intros t1 t2 k H1 H2.
    destruct (Nat.eq_dec t1 t) as [->|H1t]; destruct (Nat.eq_dec t2 t) as [->|H2t].
    + reflexivity.
    + rewrite upd_same in H1. rewrite upd_other in H2 by assumption.
      exfalso. apply (Hfree t2). congruence.
    + rewrite upd_same in H2. rewrite upd_other in H1 by assumption.
      exfalso. apply (Hfree t1). congruence.
    + rewrite upd_other in H1, H2 by assumption. exact (B _ _ _ H1 H2).
Qed.

Lemma own_release run p t q i :
  OwnInv run p -> owns (p t) = Some i -> owns q = None ->
  OwnInv (upd run i false) (upd p t q).
Proof.
  intros [A B] Ho Hq. split.
  - intros k. destruct (Nat.eq_dec k i) as [->|Hk].
    + rewrite upd_same. split; [discriminate|]. intros [u Hu].
      destruct (Nat.eq_dec u t) as [->|Hut].
      * rewrite upd_same in Hu. congruence.
      * rewrite upd_other in Hu by assumption. exfalso. apply Hut. exact (B _ _ _ Hu Ho).
    + rewrite (upd_other run i k) by assumption. rewrite A. split; intros [u Hu].
      * exists u. rewrite upd_other; [exact Hu|]. intros ->. congruence.
      * destruct (Nat.eq_dec u t) as [->|Hut].
        -- rewrite upd_same in Hu. congruence.
        -- rewrite upd_other in Hu by assumption. exists u. exact Hu.
  - intros t1 t2 k H1 H2.
    destruct (Nat.eq_dec t1 t) as [->|H1t]; [rewrite upd_same in H1; congruence|].
    destruct (Nat.eq_dec t2 t) as [->|H2t]; [rewrite upd_same in H2; congruence|].
    rewrite upd_other in H1, H2 by assumption. exact (B _ _ _ H1 H2).
Qed.

(** *** index bound *)

Lemma bound_upd n p t q :
  BoundInv n p -> (forall i, idx q = Some i -> i < n) -> BoundInv n (upd p t q).
Proof.
  intros H Hq u i. unfold upd. destruct (Nat.eqb_spec u t); [apply Hq | apply H].
Qed.

(** *** published begin epoch *)

Lemma begin_keep b p t q :
  BeginInv b p -> (forall i, pubd q = Some i -> b i <> 0%N) -> BeginInv b (upd p t q).
Proof.
  intros H Hq u i. unfold upd. destruct (Nat.eqb_spec u t); [apply Hq | apply H].
Qed.

Lemma begin_store b p t q i e :
  BeginInv b p -> e <> 0%N -> (forall k, pubd q = Some k -> k = i) ->
  BeginInv (upd b i e) (upd p t q).
Proof.
  intros H He Hq u k Hu.
  destruct (Nat.eq_dec k i) as [->|Hk]; [rewrite upd_same; exact He|].
  rewrite upd_other by assumption.
  destruct (Nat.eq_dec u t) as [->|Hut].
  - rewrite upd_same in Hu. apply Hq in Hu. contradiction.
  - rewrite upd_other in Hu by assumption. exact (H _ _ Hu).
Qed.

Lemma begin_clear run b p t q i :
  OwnInv run p -> BeginInv b p -> owns (p t) = Some i -> pubd q = None ->
  BeginInv (upd b i 0%N) (upd p t q).
Proof.
  intros [_ B] H Ho Hq u k Hu.
  destruct (Nat.eq_dec u t) as [->|Hut]; [rewrite upd_same in Hu; congruence|].
  rewrite upd_other in Hu by assumption.
  assert (k <> i) as Hk.
  { intros ->. apply Hut. apply (B u t i); [apply pubd_owns; exact Hu | exact Ho]. }
  rewrite upd_other by assumption. exact (H _ _ Hu).
Qed.

(** *** observations *)

Lemma obs_upd_both n p o t q l :
  ObsInv n p o -> seen n q l -> ObsInv n (upd p t q) (upd o t l).
Proof.
  intros H Hq u. unfold upd. destruct (Nat.eqb_spec u t); [exact Hq | apply H].
Qed.

Lemma obs_upd_pc n p o t q :
  ObsInv n p o -> seen n q (o t) -> ObsInv n (upd p t q) o.
Proof.
  intros H Hq u. unfold upd. destruct (Nat.eqb_spec u t); [subst; exact Hq | apply H].
Qed.

(** ** the invariant is inductive *)

Ltac split4 := split; [|split; [|split]].

Lemma inv_init n : Inv n sinit.
Proof.
  unfold Inv, sinit; cbn [running begin_ pc obs]. split4.
  - split; [intros i; split; [discriminate | intros [t Ht]; discriminate] | intros t1 t2 i H; discriminate].
  - intros t i H. discriminate.
  - intros t i H. discriminate.
  - intros t. exact I.
Qed.

Lemma inv_step n s e s' : Inv n s -> sstep n s e = Some s' -> Inv n s'.
Proof.
  intros (HO & HB & HG & HS) H.
  destruct e as [t|t i v|t i ok|t i e|t r|t i|t i|t i]; cbn [sstep] in H.
  - (* EnterCall *)
    destruct (pc s t) eqn:Hpc; try discriminate. injection H as <-.
    unfold Inv; cbn [running begin_ pc obs]. split4.
    + apply own_keep; [assumption|]. rewrite Hpc. destruct (0 <? n); reflexivity.
    + apply bound_upd; [assumption|]. intros k.
      destruct (Nat.ltb_spec 0 n); simpl; intros Hk; [injection Hk as <-; assumption | discriminate].
    + apply begin_keep; [assumption|]. intros k. destruct (0 <? n); simpl; discriminate.
    + apply obs_upd_both; [assumption|].
      destruct (Nat.ltb_spec 0 n); simpl; intros j Hj; lia.
  - (* LoadRunning *)
    destruct (pc s t) as [|j| | | | | |] eqn:Hpc; try discriminate.
    destruct (Nat.eqb_spec i j) as [->|]; cbn [negb orb] in H; [|discriminate].
    destruct (Bool.eqb v (running s j)) eqn:Hv; cbn [negb] in H; [|discriminate].
    pose proof (HS t) as Ht. rewrite Hpc in Ht. cbn [seen] in Ht.
    destruct v; injection H as <-; unfold Inv; cbn [running begin_ pc obs]; split4.
    + apply own_keep; [assumption|]. rewrite Hpc. apply owns_next_probe.
    + apply bound_upd; [assumption|]. apply idx_next_probe.
    + apply begin_keep; [assumption|]. intros k. rewrite pubd_next_probe. discriminate.
    + apply obs_upd_both; [assumption|]. apply seen_next. exact Ht.
    + apply own_keep; [assumption|]. rewrite Hpc. reflexivity.
    + apply bound_upd; [assumption|]. intros k Hk. apply (HB t). rewrite Hpc. exact Hk.
    + apply begin_keep; [assumption|]. intros k. simpl. discriminate.
    + apply obs_upd_pc; [assumption|]. exact Ht.
  - (* CasRunning *)
    destruct (pc s t) as [| |j| | | | |] eqn:Hpc; try discriminate.
    destruct (Nat.eqb_spec i j) as [->|]; cbn [negb] in H; [|discriminate].
    pose proof (HS t) as Ht. rewrite Hpc in Ht. cbn [seen] in Ht.
    destruct ok; destruct (running s j) eqn:Hr; try discriminate; injection H as <-.
    + (* success *)
      unfold Inv; cbn [running begin_ pc obs]. split4.
      * apply own_acquire; [assumption| rewrite Hpc; reflexivity | assumption | reflexivity].
      * apply bound_upd; [assumption|]. intros k Hk. apply (HB t). rewrite Hpc. exact Hk.
      * apply begin_keep; [assumption|]. intros k. simpl. discriminate.
      * apply obs_upd_pc; [assumption|]. exact I.
    + (* genuine failure *)
      unfold Inv; cbn [running begin_ pc obs]. split4.
      * apply own_keep; [assumption|]. rewrite Hpc. apply owns_next_probe.
      * apply bound_upd; [assumption|]. apply idx_next_probe.
      * apply begin_keep; [assumption|]. intros k. rewrite pubd_next_probe. discriminate.
      * apply obs_upd_both; [assumption|]. apply seen_next. exact Ht.
    + (* spurious failure *)
      unfold Inv. split4; assumption.
  - (* StoreBegin *)
    destruct (pc s t) as [| | |j pub| | | |] eqn:Hpc; try discriminate.
    destruct (Nat.eqb_spec i j) as [->|]; cbn [negb orb] in H; [|discriminate].
    destruct (N.eqb_spec e 0) as [|He]; [discriminate|]. injection H as <-.
    unfold Inv; cbn [running begin_ pc obs]. split4.
    + apply own_keep; [assumption|]. rewrite Hpc. reflexivity.
    + apply bound_upd; [assumption|]. intros k Hk. apply (HB t). rewrite Hpc. exact Hk.
    + apply begin_store; [assumption|assumption|]. intros k Hk. simpl in Hk. congruence.
    + apply obs_upd_pc; [assumption|]. exact I.
  - (* EnterRet *)
    destruct (pc s t) as [|a|a|j pub| |a|a|a] eqn:Hpc; try destruct pub; destruct r as [i|];
      try discriminate.
    + destruct (Nat.eqb_spec i j) as [->|]; [|discriminate]. injection H as <-.
      unfold Inv; cbn [running begin_ pc obs]. split4.
      * apply own_keep; [assumption|]. rewrite Hpc. reflexivity.
      * apply bound_upd; [assumption|]. intros k Hk. apply (HB t). rewrite Hpc. exact Hk.
      * apply begin_keep; [assumption|]. intros k Hk. apply (HG t). rewrite Hpc. exact Hk.
      * apply obs_upd_pc; [assumption|]. exact I.
    + injection H as <-.
      unfold Inv; cbn [running begin_ pc obs]. split4.
      * apply own_keep; [assumption|]. rewrite Hpc. reflexivity.
      * apply bound_upd; [assumption|]. intros k Hk. discriminate.
      * apply begin_keep; [assumption|]. intros k Hk. discriminate.
      * apply obs_upd_pc; [assumption|]. exact I.
  - (* LeaveCall *)
    destruct (pc s t) as [| | | | |j| |] eqn:Hpc; try discriminate.
    destruct (Nat.eqb_spec i j) as [->|]; [|discriminate]. injection H as <-.
    unfold Inv; cbn [running begin_ pc obs]. split4.
    + apply own_keep; [assumption|]. rewrite Hpc. reflexivity.
    + apply bound_upd; [assumption|]. intros k Hk. apply (HB t). rewrite Hpc. exact Hk.
    + apply begin_keep; [assumption|]. intros k Hk. apply (HG t). rewrite Hpc. exact Hk.
    + apply obs_upd_pc; [assumption|]. exact I.
  - (* ClearBegin *)
    destruct (pc s t) as [| | | | | |j|] eqn:Hpc; try discriminate.
    destruct (Nat.eqb_spec i j) as [->|]; [|discriminate]. injection H as <-.
    unfold Inv; cbn [running begin_ pc obs]. split4.
    + apply own_keep; [assumption|]. rewrite Hpc. reflexivity.
    + apply bound_upd; [assumption|]. intros k Hk. apply (HB t). rewrite Hpc. exact Hk.
    + apply (begin_clear (running s)); [assumption|assumption| rewrite Hpc; reflexivity | reflexivity].
    + apply obs_upd_pc; [assumption|]. exact I.
  - (* ClearRunning *)
    destruct (pc s t) as [| | | | | | |j] eqn:Hpc; try discriminate.
    destruct (Nat.eqb_spec i j) as [->|]; [|discriminate]. injection H as <-.
    unfold Inv; cbn [running begin_ pc obs]. split4.
    + apply own_release; [assumption| rewrite Hpc; reflexivity | reflexivity].
    + apply bound_upd; [assumption|]. intros k Hk. discriminate.
    + apply begin_keep; [assumption|]. intros k Hk. discriminate.
    + apply obs_upd_pc; [assumption|]. exact I.
Qed.

Lemma inv_srun n tr : forall s s', Inv n s -> srun n s tr = Some s' -> Inv n s'.
Proof.
  induction tr as [|e tr IH]; intros s s' HI H; cbn [srun] in H.
  - injection H as <-. exact HI.
  - destruct (sstep n s e) as [s1|] eqn:He; [|discriminate].
    exact (IH s1 s' (inv_step _ _ _ _ HI He) H).
Qed.

Theorem reachable_inv n s : reachable n s -> Inv n s.
Proof. intros [tr H]. exact (inv_srun n tr sinit s (inv_init n) H). Qed.

(** the invariant in the explicit shape (a)-(e) *)
Theorem reachable_core n s : reachable n s ->
  (forall i, running s i = true <-> exists t, owns (pc s t) = Some i) /\
  (forall t1 t2 i, owns (pc s t1) = Some i -> owns (pc s t2) = Some i -> t1 = t2) /\
  (forall t i, pc s t = TProbe i \/ pc s t = TCas i \/ owns (pc s t) = Some i -> i < n) /\
  (forall t i, pc s t = THold i \/ pc s t = TLeaving i \/ pc s t = TClaimed i true ->
               begin_ s i <> 0%N) /\
  (forall t i, pc s t = TProbe i \/ pc s t = TCas i -> forall j, j < i -> In j (obs s t)) /\
  (forall t, pc s t = TFull -> forall j, j < n -> In j (obs s t)).
Proof.
  intros HR. destruct (reachable_inv n s HR) as ([A B] & HB & HG & HS).
  repeat apply conj.
  - exact A.
  - exact B.
  - intros t i [H|[H|H]]; apply (HB t).
    + rewrite H. reflexivity.
    + rewrite H. reflexivity.
    + apply owns_idx. exact H.
  - intros t i [H|[H|H]]; apply (HG t); rewrite H; reflexivity.
  - intros t i [H|H]; specialize (HS t); rewrite H in HS; exact HS.
  - intros t H. specialize (HS t). rewrite H in HS. exact HS.
Qed.

(** ** consequences *)

Theorem distinct_tokens n s t1 t2 i : reachable n s ->
  holds (pc s t1) = Some i -> holds (pc s t2) = Some i -> t1 = t2.
Proof.
  intros HR H1 H2. destruct (reachable_inv n s HR) as ([_ B] & _).
  apply (B t1 t2 i); apply holds_owns; assumption.
Qed.

Lemma NoDup_map_inj_on {A B} (f : A -> B) (l : list A) :
  NoDup l -> (forall x y, In x l -> In y l -> f x = f y -> x = y) -> NoDup (map f l).
Proof.
  induction 1 as [|a l Ha Hl IH]; intros Hinj; cbn [map]; constructor.
  - intros Hin. apply in_map_iff in Hin. destruct Hin as (x & Hx & Hxl).
    assert (x = a) by (apply Hinj; [right; assumption | left; reflexivity | assumption]).
    subst. contradiction.
  - apply IH. intros x y Hx Hy. apply Hinj; right; assumption.
Qed.

(** at most [n] threads own a slot at any moment *)
Theorem capacity_owns n s ts : reachable n s ->
  NoDup ts -> (forall t, In t ts -> owns (pc s t) <> None) -> length ts <= n.
Proof.
  intros HR Hnd Hall. destruct (reachable_inv n s HR) as ([_ B] & HB & _).
  set (f := fun t => match owns (pc s t) with Some i => i | None => 0 end).
  assert (Hf : forall t, In t ts -> owns (pc s t) = Some (f t)).
  { intros t Ht. unfold f. specialize (Hall t Ht). destruct (owns (pc s t)); [reflexivity|contradiction]. }
  rewrite <- (map_length f ts), <- (seq_length n 0).
  apply NoDup_incl_length.
  - apply NoDup_map_inj_on; [assumption|]. intros x y Hx Hy Hxy.
    apply (B x y (f x)); [apply Hf; assumption | rewrite Hxy; apply Hf; assumption].
  - intros k Hk. apply in_map_iff in Hk. destruct Hk as (t & <- & Ht).
    apply in_seq. split; [lia|]. cbn. apply (HB t). apply owns_idx. apply Hf. exact Ht.
Qed.

(** at most [n] tokens are held at any moment *)
Theorem capacity n s ts : reachable n s ->
  NoDup ts -> (forall t, In t ts -> holds (pc s t) <> None) -> length ts <= n.
Proof.
  intros HR Hnd Hall. apply (capacity_owns n s ts HR Hnd).
  intros t Ht Ho. apply (Hall t Ht). destruct (pc s t); simpl in *; congruence.
Qed.

Theorem counted n s t i : reachable n s ->
  holds (pc s t) = Some i -> begin_ s i <> 0%N /\ running s i = true.
Proof.
  intros HR H. destruct (reachable_inv n s HR) as ([A _] & _ & HG & _). split.
  - apply (HG t). destruct (pc s t); simpl in *; congruence.
  - apply A. exists t. apply holds_owns. exact H.
Qed.

(** ** observations are sound *)

(** event [e] is thread [t] observing slot [i] occupied *)
Definition observes (e : sev) (t i : nat) : bool :=
  match e with
  | LoadRunning t' i' true | CasRunning t' i' false => Nat.eqb t t' && Nat.eqb i i'
  | _ => false
  end.

Theorem obs_sound n s e s' t i :
  sstep n s e = Some s' -> In i (obs s' t) ->
  In i (obs s t) \/ (observes e t i = true /\ running s i = true).
Proof.
  intros H Hin.
  destruct e as [u|u k v|u k ok|u k e|u r|u k|u k|u k]; cbn [sstep] in H.
  - destruct (pc s u); try discriminate. injection H as <-. cbn [obs] in Hin.
    unfold upd in Hin. destruct (Nat.eqb_spec t u); [destruct Hin | left; exact Hin].
  - destruct (pc s u) as [|j| | | | | |]; try discriminate.
    destruct (Nat.eqb_spec k j) as [->|]; cbn [negb orb] in H; [|discriminate].
    destruct (Bool.eqb v (running s j)) eqn:Hv; cbn [negb] in H; [|discriminate].
    apply eqb_prop in Hv.
    destruct v; injection H as <-; cbn [obs] in Hin; [|left; exact Hin].
    unfold upd in Hin. destruct (Nat.eqb_spec t u) as [->|]; [|left; exact Hin].
    destruct Hin as [<-|Hin]; [|left; exact Hin].
    right. cbn [observes]. rewrite !Nat.eqb_refl. split; [reflexivity | symmetry; exact Hv].
  - destruct (pc s u) as [| |j| | | | |]; try discriminate.
    destruct (Nat.eqb_spec k j) as [->|]; cbn [negb] in H; [|discriminate].
    destruct ok; destruct (running s j) eqn:Hr; try discriminate; injection H as <-;
      cbn [obs] in Hin; try (left; exact Hin).
    unfold upd in Hin. destruct (Nat.eqb_spec t u) as [->|]; [|left; exact Hin].
    destruct Hin as [<-|Hin]; [|left; exact Hin].
    right. cbn [observes]. rewrite !Nat.eqb_refl. split; [reflexivity | exact Hr].
  - destruct (pc s u) as [| | |j pub| | | |]; try discriminate.
    destruct (negb (k =? j) || (e =? 0)%N); [discriminate|]. injection H as <-. left; exact Hin.
  - destruct (pc s u) as [| | |j pub| | | |]; try destruct pub; destruct r as [k|];
      try discriminate.
    + destruct (k =? j); [|discriminate]. injection H as <-. left; exact Hin.
    + injection H as <-. left; exact Hin.
  - destruct (pc s u) as [| | | | |j| |]; try discriminate.
    destruct (k =? j); [|discriminate]. injection H as <-. left; exact Hin.
  - destruct (pc s u) as [| | | | | |j|]; try discriminate.
    destruct (k =? j); [|discriminate]. injection H as <-. left; exact Hin.
  - destruct (pc s u) as [| | | | | | |j]; try discriminate.
    destruct (k =? j); [|discriminate]. injection H as <-. left; exact Hin.
Qed.

Theorem enter_resets_obs n s t s' : sstep n s (EnterCall t) = Some s' -> obs s' t = [].
Proof.
  cbn [sstep]. destruct (pc s t); try discriminate. intros H. injection H as <-.
  cbn [obs]. apply upd_same.
Qed.

Theorem max_sessions_saw_all_full n s t : reachable n s ->
  pc s t = TFull -> forall j, j < n -> In j (obs s t).
Proof.
  intros HR H. destruct (reachable_inv n s HR) as (_ & _ & _ & HS).
  specialize (HS t). rewrite H in HS. exact HS.
Qed.

(** *** trace form: every element of [obs s t] was really seen occupied, by an
    event of [t] after which [t] did not start another enter *)

Lemma srun_app n tr1 tr2 : forall s,
  srun n s (tr1 ++ tr2) =
  match srun n s tr1 with Some s1 => srun n s1 tr2 | None => None end.
Proof.
  induction tr1 as [|e tr1 IH]; intros s; cbn [app srun]; [reflexivity|].
  destruct (sstep n s e); [apply IH | reflexivity].
Qed.

Definition Saw (n : nat) (tr : list sev) (t j : nat) : Prop :=
  exists tr1 e tr2 s1,
    tr = tr1 ++ e :: tr2 /\ srun n sinit tr1 = Some s1 /\
    running s1 j = true /\ observes e t j = true /\ ~ In (EnterCall t) tr2.

Theorem obs_saw n tr : forall s t j,
  srun n sinit tr = Some s -> In j (obs s t) -> Saw n tr t j.
Proof.
  induction tr as [|e tr IH] using rev_ind; intros s t j H Hin.
  - cbn [srun] in H. injection H as <-. destruct Hin.
  - rewrite srun_app in H. destruct (srun n sinit tr) as [s0|] eqn:H0; [|discriminate].
    cbn [srun] in H. destruct (sstep n s0 e) as [s1|] eqn:He; [|discriminate].
    injection H as <-.
    destruct (obs_sound n s0 e s1 t j He Hin) as [Hold|[Hobs Hrun]].
    + destruct (IH s0 t j eq_refl Hold) as (tr1 & e0 & tr2 & s2 & -> & Hr & Hj & Ho & Hn).
      exists tr1, e0, (tr2 ++ [e]), s2. repeat apply conj; try assumption.
      * rewrite <- app_assoc. reflexivity.
      * intros Hi. apply in_app_or in Hi. destruct Hi as [Hi|[Hi|[]]]; [exact (Hn Hi)|].
        subst e. rewrite (enter_resets_obs _ _ _ _ He) in Hin. destruct Hin.
    + exists tr, e, [], s0. repeat apply conj; try assumption; [reflexivity | intros []].
Qed.

(** WARN_MAX_SESSIONS is only ever about to be returned after the calling thread
    has, during this call, seen every slot occupied *)
Theorem full_saw_all n tr s t :
  srun n sinit tr = Some s -> pc s t = TFull -> forall j, j < n -> Saw n tr t j.
Proof.
  intros H Hpc j Hj. apply (obs_saw n tr s t j H).
  apply (max_sessions_saw_all_full n s t); [exists tr; exact H | exact Hpc | exact Hj].
Qed.

(** ** quiescent behaviour: enter run solo *)

(** probe [k] slots starting at [i]: the first free one *)
Fixpoint solo_from (run : nat -> bool) (k i : nat) : option nat :=
  match k with
  | 0 => None
  | S k' => if run i then solo_from run k' (S i) else Some i
  end.

(** result of thread [t]'s enter from [s] when no other thread moves *)
Definition solo_enter (n : nat) (s : sst) (t : nat) : option nat :=
  solo_from (running s) n 0.

Fixpoint solo_probe_tr (run : nat -> bool) (t k i : nat) : list sev :=
  match k with
  | 0 => [EnterRet t None]
  | S k' =>
    if run i then LoadRunning t i true :: solo_probe_tr run t k' (S i)
    else [LoadRunning t i false; CasRunning t i true; StoreBegin t i 1%N; EnterRet t (Some i)]
  end.

Definition solo_trace (n : nat) (s : sst) (t : nat) : list sev :=
  EnterCall t :: solo_probe_tr (running s) t n 0.

Definition ev_thread (e : sev) : nat :=
  match e with
  | EnterCall t | LoadRunning t _ _ | CasRunning t _ _ | StoreBegin t _ _
  | EnterRet t _ | LeaveCall t _ | ClearBegin t _ | ClearRunning t _ => t
  end.

Lemma solo_from_none run k : forall i,
  solo_from run k i = None <-> forall j, i <= j < i + k -> run j = true.
Proof.
  induction k as [|k IH]; intros i; cbn [solo_from].
  - split; [intros _ j Hj; lia | reflexivity].
  - destruct (run i) eqn:Hr.
    + rewrite IH. split; intros H j Hj.
      * destruct (Nat.eq_dec j i) as [->|]; [exact Hr | apply H; lia].
      * apply H; lia.
    + split; [discriminate|]. intros H. rewrite H in Hr by lia. discriminate.
Qed.

Lemma solo_from_some run k : forall i j,
  solo_from run k i = Some j ->
  i <= j < i + k /\ run j = false /\ forall m, i <= m < j -> run m = true.
Proof.
  induction k as [|k IH]; intros i j; cbn [solo_from]; [discriminate|].
  destruct (run i) eqn:Hr.
  - intros H. destruct (IH _ _ H) as (Hb & Hf & Hl). repeat apply conj; try lia; [exact Hf|].
    intros m Hm. destruct (Nat.eq_dec m i) as [->|]; [exact Hr | apply Hl; lia].
  - intros H. injection H as <-. repeat apply conj; try lia; exact Hr.
Qed.

Lemma solo_probe_thread run t k : forall i,
  Forall (fun e => ev_thread e = t) (solo_probe_tr run t k i).
Proof.
  induction k as [|k IH]; intros i; cbn [solo_probe_tr].
  - repeat constructor.
  - destruct (run i); [constructor; [reflexivity | apply IH] | repeat constructor].
Qed.

Lemma solo_probe_last run t k : forall i,
  exists tr0, solo_probe_tr run t k i = tr0 ++ [EnterRet t (solo_from run k i)].
Proof.
  induction k as [|k IH]; intros i; cbn [solo_probe_tr solo_from].
  - exists []. reflexivity.
  - destruct (run i).
    + destruct (IH (S i)) as [tr0 ->]. exists (LoadRunning t i true :: tr0). reflexivity.
    + exists [LoadRunning t i false; CasRunning t i true; StoreBegin t i 1%N]. reflexivity.
Qed.

Lemma solo_loop n t k : forall i s1,
  i + k = n -> pc s1 t = (if i <? n then TProbe i else TFull) ->
  exists s', srun n s1 (solo_probe_tr (running s1) t k i) = Some s' /\
    pc s' t = match solo_from (running s1) k i with Some j => THold j | None => TIdle end /\
    (forall u, u <> t -> pc s' u = pc s1 u) /\
    (forall j, running s' j =
       match solo_from (running s1) k i with
       | Some i0 => if j =? i0 then true else running s1 j
       | None => running s1 j
       end).
Proof.
  induction k as [|k IH]; intros i s1 Hik Hpc; cbn [solo_probe_tr solo_from].
  - assert (i = n) by lia. subst i. rewrite Nat.ltb_irrefl in Hpc.
    cbn [srun sstep]. rewrite Hpc. eexists. split; [reflexivity|].
    cbn [pc running]. repeat apply conj.
    + apply upd_same.
    + intros u Hu. apply upd_other. exact Hu.
    + reflexivity.
  - destruct (Nat.ltb_spec i n) as [Hin|]; [|lia].
    destruct (running s1 i) eqn:Hr.
    + cbn [srun sstep]. rewrite Hpc, Nat.eqb_refl, Hr. cbn [negb orb Bool.eqb].
      match goal with |- exists s', srun n ?s0 _ = _ /\ _ =>
        destruct (IH (S i) s0) as (s' & Hrun & Hp & Hoth & Hrn) end.
      * lia.
      * cbn [pc]. rewrite upd_same. reflexivity.
      * cbn [running pc] in *. exists s'. repeat apply conj.
        -- exact Hrun.
        -- exact Hp.
        -- intros u Hu. rewrite (Hoth u Hu). apply upd_other. exact Hu.
        -- exact Hrn.
    + cbn [srun sstep]. rewrite Hpc, Nat.eqb_refl, Hr. cbn [negb orb Bool.eqb].
      cbn [pc running]. rewrite upd_same, Nat.eqb_refl. cbn [negb]. rewrite Hr.
      cbn [pc running]. rewrite upd_same, Nat.eqb_refl. cbn [negb orb].
      change ((1 =? 0)%N) with false. cbn [pc]. rewrite upd_same, Nat.eqb_refl.
      eexists. split; [reflexivity|]. cbn [pc running]. repeat apply conj.
      * apply upd_same.
      * intros u Hu. rewrite !upd_other by exact Hu. reflexivity.
      * intros j. unfold upd. reflexivity.
Qed.

(** (i) the solo run exists, consists of [t]'s events only, ends with
    [EnterRet t (solo_enter n s t)], and leaves [t] holding that slot (resp. idle) *)
Theorem quiescent_enter n s t : pc s t = TIdle ->
  exists tr s',
    Forall (fun e => ev_thread e = t) tr /\
    (exists tr0, tr = tr0 ++ [EnterRet t (solo_enter n s t)]) /\
    srun n s tr = Some s' /\
    pc s' t = match solo_enter n s t with Some i => THold i | None => TIdle end /\
    (forall u, u <> t -> pc s' u = pc s u) /\
    (forall j, running s' j =
       match solo_enter n s t with
       | Some i => if j =? i then true else running s j
       | None => running s j
       end).
Proof.
  intros Hpc. unfold solo_enter.
  set (s0 := {| running := running s; begin_ := begin_ s;
                pc := upd (pc s) t (if 0 <? n then TProbe 0 else TFull);
                obs := upd (obs s) t [] |}).
  destruct (solo_loop n t n 0 s0) as (s' & Hrun & Hp & Hoth & Hrn).
  - reflexivity.
  - unfold s0; cbn [pc]. apply upd_same.
  - exists (solo_trace n s t), s'. unfold solo_trace. cbn [running] in *. repeat apply conj.
    + constructor; [reflexivity | apply solo_probe_thread].
    + destruct (solo_probe_last (running s) t n 0) as [tr0 ->].
      exists (EnterCall t :: tr0). reflexivity.
    + cbn [srun sstep]. rewrite Hpc. exact Hrun.
    + exact Hp.
    + intros u Hu. rewrite (Hoth u Hu). unfold s0; cbn [pc]. apply upd_other. exact Hu.
    + exact Hrn.
Qed.

(** (ii) solo enter fails iff every slot is occupied *)
Theorem solo_enter_none_iff n s t :
  solo_enter n s t = None <-> forall i, i < n -> running s i = true.
Proof.
  unfold solo_enter. rewrite solo_from_none. split; intros H i Hi; apply H; lia.
Qed.

(** solo enter returns the lowest free slot *)
Theorem solo_enter_some n s t i : solo_enter n s t = Some i ->
  i < n /\ running s i = false /\ forall j, j < i -> running s j = true.
Proof.
  unfold solo_enter. intros H. apply solo_from_some in H. destruct H as (Hb & Hf & Hl).
  repeat apply conj; [lia | exact Hf | intros j Hj; apply Hl; lia].
Qed.

(** number of occupied slots *)
Definition occupied (n : nat) (s : sst) : nat := length (filter (running s) (seq 0 n)).

Lemma filter_length_full {A} (f : A -> bool) (l : list A) :
  length (filter f l) <= length l /\
  (length (filter f l) = length l <-> forall x, In x l -> f x = true).
Proof.
  induction l as [|a l [IH1 IH2]]; cbn [filter length].
  - split; [lia|]. split; [intros _ x [] | reflexivity].
  - destruct (f a) eqn:Ha; cbn [length].
    + split; [lia|]. split.
      * intros H x [<-|Hx]; [exact Ha | apply IH2; [lia | exact Hx]].
      * intros H. f_equal. apply IH2. intros x Hx. apply H. right. exact Hx.
    + split; [lia|]. split; [lia|]. intros H. rewrite H in Ha by (left; reflexivity). discriminate.
Qed.

Lemma occupied_le n s : occupied n s <= n.
Proof.
  unfold occupied. rewrite <- (seq_length n 0) at 2. apply filter_length_full.
Qed.

(** with nothing else in progress, enter succeeds iff fewer than [n] slots are occupied *)
Theorem solo_enter_succeeds_iff n s t :
  (exists i, solo_enter n s t = Some i) <-> occupied n s < n.
Proof.
  assert (E : occupied n s = n <-> solo_enter n s t = None).
  { rewrite solo_enter_none_iff. unfold occupied. rewrite <- (seq_length n 0) at 2.
    rewrite (proj2 (filter_length_full (running s) (seq 0 n))).
    split; intros H i Hi; apply H; [apply in_seq; lia | apply in_seq in Hi; lia]. }
  pose proof (occupied_le n s). split.
  - intros [i Hi]. destruct (Nat.eq_dec (occupied n s) n) as [He|]; [|lia].
    apply E in He. congruence.
  - intros Hlt. destruct (solo_enter n s t) as [i|] eqn:Hs; [exists i; reflexivity|].
    assert (occupied n s = n) by (apply E; reflexivity). lia.
Qed.

(** ** reuse: leave frees the slot, and a subsequent solo enter gets a slot no
    higher than the freed one *)

Theorem clear_running_frees n s t i s' :
  sstep n s (ClearRunning t i) = Some s' -> running s' i = false /\ pc s' t = TIdle.
Proof.
  cbn [sstep]. destruct (pc s t) as [| | | | | | |j]; try discriminate.
  destruct (Nat.eqb_spec i j) as [->|]; [|discriminate]. intros H. injection H as <-.
  cbn [running pc]. split; apply upd_same.
Qed.

Theorem reuse n s t i s' : reachable n s ->
  sstep n s (ClearRunning t i) = Some s' ->
  running s' i = false /\ pc s' t = TIdle /\
  exists j, solo_enter n s' t = Some j /\ j <= i.
Proof.
  intros HR H. destruct (clear_running_frees n s t i s' H) as [Hf Hp].
  repeat apply conj; [exact Hf | exact Hp |].
  assert (i < n) as Hi.
  { destruct (reachable_inv n s HR) as (_ & HB & _). apply (HB t).
    cbn [sstep] in H. destruct (pc s t) as [| | | | | | |j]; try discriminate.
    destruct (Nat.eqb_spec i j) as [->|]; [reflexivity | discriminate]. }
  destruct (solo_enter n s' t) as [j|] eqn:Hs.
  - exists j. split; [reflexivity|]. apply solo_enter_some in Hs. destruct Hs as (_ & _ & Hl).
    destruct (Nat.le_gt_cases j i) as [|Hlt]; [assumption|].
    rewrite (Hl i Hlt) in Hf. discriminate.
  - rewrite solo_enter_none_iff in Hs. rewrite (Hs i Hi) in Hf. discriminate.
Qed.

(** ** the quiescent statement in one piece *)

Theorem quiescent_enter_iff_free n s t : pc s t = TIdle ->
  (exists tr s',
     Forall (fun e => ev_thread e = t) tr /\
     (exists tr0, tr = tr0 ++ [EnterRet t (solo_enter n s t)]) /\
     srun n s tr = Some s' /\
     pc s' t = match solo_enter n s t with Some i => THold i | None => TIdle end /\
     (forall u, u <> t -> pc s' u = pc s u)) /\
  (solo_enter n s t = None <-> forall i, i < n -> running s i = true) /\
  ((exists i, solo_enter n s t = Some i) <-> occupied n s < n) /\
  (forall i, solo_enter n s t = Some i ->
     i < n /\ running s i = false /\ forall j, j < i -> running s j = true).
Proof.
  intros Hpc. split; [|split; [|split]].
  - destruct (quiescent_enter n s t Hpc) as (tr & s' & H1 & H2 & H3 & H4 & H5 & _).
    exists tr, s'. repeat apply conj; assumption.
  - apply solo_enter_none_iff.
  - apply solo_enter_succeeds_iff.
  - apply solo_enter_some.
Qed.
