(** * C19 -- the leaf permutation word always encodes a valid ordering of
    occupied slots.  Property theorems only; each closed by [exact]. *)
From Coq Require Import NArith List.
From Yk Require Import ListAux Word64 PermDefs PermProofs.
Local Open Scope N_scope.

(** inserting slot [p] at rank [r] shifts exactly the later ranks by one and
    places [p] there; the result is a valid word *)
Theorem C19_insert_rank : forall w r p,
  Valid w -> get_cnk w < 15 -> r <= get_cnk w -> p < 15 -> ~ In p (perm_list w) ->
  perm_list (insert_rank w r p) = insert_at (N.to_nat r) p (perm_list w) /\
  get_cnk (insert_rank w r p) = get_cnk w + 1 /\
  Valid (insert_rank w r p).
Proof. exact c19_insert. Qed.
Print Assumptions C19_insert_rank.

(** deleting a rank closes the gap *)
Theorem C19_delete_rank : forall w r,
  Valid w -> r < get_cnk w ->
  perm_list (delete_rank w r) = remove_at (N.to_nat r) (perm_list w) /\
  get_cnk (delete_rank w r) = get_cnk w - 1 /\
  Valid (delete_rank w r).
Proof. exact c19_delete. Qed.
Print Assumptions C19_delete_rank.

(** the reported free slot is never one in use (and is the lowest free one) *)
Theorem C19_empty_slot_free : forall w,
  get_cnk w < 15 ->
  ~ In (get_empty_slot w) (perm_list w) /\ get_empty_slot w < 15 /\
  (forall k, k < get_empty_slot w -> In k (perm_list w)).
Proof. exact get_empty_slot_free. Qed.
Print Assumptions C19_empty_slot_free.

(** the split initialiser produces the identity on the moved entries *)
Theorem C19_split_dest_identity : forall num,
  1 <= num -> num <= 15 ->
  perm_list (split_dest num) = map N.of_nat (seq 0 (N.to_nat num)) /\ Valid (split_dest num).
Proof. exact c19_split. Qed.
Print Assumptions C19_split_dest_identity.

(** reading a rank returns that element of the ordering *)
Theorem C19_index_of_rank : forall w r d,
  r < get_cnk w -> get_index_of_rank w r = nth (N.to_nat r) (perm_list w) d.
Proof. exact c19_index. Qed.
Print Assumptions C19_index_of_rank.

(** no shift the two update functions perform is >= 64 (no undefined behaviour) *)
Theorem C19_no_ub_shift : forall w r,
  (get_cnk w < 15 -> r <= get_cnk w -> Forall (fun s => s < 64) (insert_rank_shifts w r)) /\
  (r < get_cnk w -> Forall (fun s => s < 64) (delete_rank_shifts w r)).
Proof. exact c19_no_ub. Qed.
Print Assumptions C19_no_ub_shift.

(** every update is one word: the functions are N -> N, the empty word is valid *)
Theorem C19_init_valid : Valid 0.
Proof. exact init_valid. Qed.
Print Assumptions C19_init_valid.

(** non-vacuity: a concrete 5-entry word meets every hypothesis above *)
Example C19_nonvacuous :
  let w := 0x0000000000a17305 in
  Valid w /\ get_cnk w = 5 /\ perm_list w = [0; 3; 7; 1; 10] /\
  get_empty_slot w = 2 /\
  perm_list (insert_rank w 2 2) = [0; 3; 2; 7; 1; 10] /\
  perm_list (delete_rank w 4) = [0; 3; 7; 1].
Proof.
  cbv zeta. split; [apply perm_validb_sound; vm_compute; reflexivity|].
  repeat split; vm_compute; reflexivity.
Qed.
