(** * C12 -- put reports exactly the border nodes whose versions its insert changed.

    Proved so far (_partial): the reported modified node is a node of the tree as it
    was before the call; a created node is reported iff the insert split a border,
    and it is a fresh node (not in the old tree, id = the first id handed out).  The
    statement about version words (exactly these borders change their version) is
    tied to the code on every run: put info and all version words of the model are
    compared with the real ones (categories info + dump), and the property is
    evaluated on the implementation alone by the putinfo oracle. *)
From Coq Require Import NArith List Permutation.
From Yk Require Import ListAux KeyDefs KeyProofs TreeDefs LeafProofs LayerProofs.
Import ListNotations.
Local Open Scope N_scope.

Theorem C12_info_nodes_partial : forall root k lv ctr,
  WF_layer root -> kt_wf k = true -> ~ In k (bt_keys root) ->
  entry_ok {| sl_key := k; sl_lv := lv |} -> (forall i, In i (bt_ids root) -> i < ctr) ->
  exists root' info ctr', layer_put root k lv ctr = Some (root', info, ctr') /\
    WF_layer root' /\ sorted_keys (bt_keys root') /\
    (exists A B, bt_elems root = A ++ B /\ bt_elems root' = A ++ {| sl_key := k; sl_lv := lv |} :: B) /\
    Permutation (bt_elems root') ({| sl_key := k; sl_lv := lv |} :: bt_elems root) /\
    ctr <= ctr' /\ (forall i, In i (bt_ids root') -> i < ctr') /\
    (forall i, In i (bt_ids root) -> In i (bt_ids root')) /\
    (forall i, In i (bt_ids root') -> In i (bt_ids root) \/ ctr <= i < ctr') /\
    In (pi_modified info) (bt_ids root) /\
    match pi_created info with
    | Some c => c = ctr /\ In c (bt_ids root') /\ ~ In c (bt_ids root)
    | None => True
    end.
Proof. exact layer_put_spec. Qed.
Print Assumptions C12_info_nodes_partial.

(** at the leaf: no split <=> no created node; split <=> created = the new right sibling *)
Theorem C12_leaf_nosplit_partial : forall l k lv nid,
  WF_leaf l -> leaf_cnk l <> 15 -> kt_wf k = true -> ~ In k (leaf_keys l) ->
  entry_ok {| sl_key := k; sl_lv := lv |} ->
  exists l' info, leaf_put l k lv nid = (IOne (BLeaf l'), info) /\
    leaf_entries l' = insert_at (leaf_rank l k) {| sl_key := k; sl_lv := lv |} (leaf_entries l) /\
    WF_leaf l' /\ lf_id l' = lf_id l /\ pi_modified info = lf_id l /\ pi_created info = None.
Proof. exact leaf_put_nosplit. Qed.
Print Assumptions C12_leaf_nosplit_partial.

(** ** Exactness on version words (VersionReportProofs) *)
From Yk Require Import VersionDefs ScanDefs VersionReportProofs.

(** the borders of the old tree whose version word differs after the insert are exactly the
    reported modified node; the borders that are new are exactly the reported created node *)
Theorem C12_info_exact : forall root k lv ctr root' info ctr',
  WF_layer root -> kt_wf k = true -> ~ In k (bt_keys root) ->
  entry_ok {| sl_key := k; sl_lv := lv |} -> (forall i, In i (bt_ids root) -> i < ctr) ->
  layer_put root k lv ctr = Some (root', info, ctr') ->
  NoDup (leaf_ids root) /\ NoDup (leaf_ids root') /\
  (forall i, In i (leaf_ids root) -> In i (leaf_ids root')) /\
  (forall i, In i (leaf_ids root) -> (leaf_ver_of root' i <> leaf_ver_of root i <-> i = pi_modified info)) /\
  (forall i v, In (i, v) (leaf_versions root) -> (In (i, v) (leaf_versions root') <-> i <> pi_modified info)) /\
  (forall c, In c (leaf_ids root') /\ ~ In c (leaf_ids root) <-> pi_created info = Some c).
Proof. exact c12_exact. Qed.
Print Assumptions C12_info_exact.

(** an overwrite changes no node version *)
Theorem C12_overwrite_silent : forall root k slot x,
  leaf_versions (update_leaf root k (fun l0 => leaf_with l0 (lf_ver l0) (lf_perm l0)
                                               (set_nth (N.to_nat slot) x (lf_slots l0)))) = leaf_versions root.
Proof. exact c12_overwrite_silent. Qed.
Print Assumptions C12_overwrite_silent.

(** ** Store level, all layers (PutInfoProofs): the report of an inserting put is exact across the whole store.
    (1) among the borders that existed before, exactly the reported one changes its version word; (2) no border
    disappears; (3) the new borders are the reported created one (iff the landing border was full) and the roots
    of next layers that did not exist before -- those are not reported, and need not be: they are unreachable to
    other transactions until the landing border's link is published, and that publication is the reported change. *)
From Yk Require Import KeyProofs SpecDefs StoreProofs PhantomProofs PutInfoProofs.

Theorem C12_store_info_exact : forall ctr tr k v unique tr' po ctr' info,
  WF_store ctr tr -> t_null tr = false -> bytes k ->
  smap_get (abs_tree tr) k = None ->
  put tr k v unique ctr = Some (tr', po, ctr') -> po_info po = Some info ->
  (forall id, In id (store_ids tr) ->
      (store_leaf_ver tr' id <> store_leaf_ver tr id <-> id = pi_modified info)) /\
  (forall id, In id (store_ids tr) -> In id (store_ids tr')).
Proof.
  intros ctr tr k v unique tr' po ctr' info W Hn Hb Ha Hp Hi.
  destruct (store_put_info_exact ctr tr k v unique tr' po ctr' info W Hn Hb Ha Hp Hi) as (H1 & H2 & _).
  split; assumption.
Qed.
Print Assumptions C12_store_info_exact.

(** an overwrite and a failed unique insert change no version word anywhere *)
Theorem C12_store_overwrite_silent : forall ctr tr k v tr' po ctr',
  WF_store ctr tr -> bytes k -> smap_get (abs_tree tr) k <> None ->
  put tr k v false ctr = Some (tr', po, ctr') ->
  (forall id, store_leaf_ver tr' id = store_leaf_ver tr id) /\
  store_ids tr' = store_ids tr /\ length (t_layers tr') = length (t_layers tr) /\
  po_info po = None /\ po_status po = St_OK /\ ctr' = ctr.
Proof. exact store_overwrite_silent. Qed.
Print Assumptions C12_store_overwrite_silent.

Theorem C12_store_failed_unique_silent : forall ctr tr k v tr' po ctr',
  WF_store ctr tr -> bytes k -> smap_get (abs_tree tr) k <> None ->
  put tr k v true ctr = Some (tr', po, ctr') ->
  tr' = tr /\ po_status po = St_WARN_UNIQUE_RESTRICTION /\ po_info po = None /\ po_retired po = [] /\
  ctr' = ctr /\ (forall id, store_leaf_ver tr' id = store_leaf_ver tr id).
Proof. exact store_failed_unique_silent. Qed.
Print Assumptions C12_store_failed_unique_silent.
