(** * C08 -- the tree stays coherent.

    Full statement (target): for every operation list, every layer of every storage
    of [exec_all sys_init ops] is well formed (entries of every node sorted and
    unique, separators bound their subtrees, valid permutation words, link <=>
    non-empty sub-layer), and point lookups, full scan and reverse cursor agree.
    Proved so far (_partial): well-formedness of ONE layer is preserved by every
    insert (incl. border / interior splits and new roots), every overwrite and
    every delete (incl. unlinking of emptied borders, absorption, promotion), for
    every reachable shape; fresh and empty leaves are well formed.  Parent / prev /
    next pointers are determined by the shape in the model and are compared with the
    real pointers on every dump (differential tie). *)
From Coq Require Import NArith List Permutation.
From Yk Require Import ListAux KeyDefs KeyProofs TreeDefs LeafProofs LayerProofs.
Import ListNotations.
Local Open Scope N_scope.

Theorem C08_layer_insert_preserves_wf_partial : forall root k lv ctr,
  WF_layer root -> kt_wf k = true -> ~ In k (bt_keys root) ->
  entry_ok {| sl_key := k; sl_lv := lv |} -> (forall i, In i (bt_ids root) -> i < ctr) ->
  exists root' info ctr', layer_put root k lv ctr = Some (root', info, ctr') /\
    WF_layer root' /\ sorted_keys (bt_keys root') /\
    (exists A B, bt_elems root = A ++ B /\ bt_elems root' = A ++ {| sl_key := k; sl_lv := lv |} :: B) /\
    Permutation (bt_elems root') ({| sl_key := k; sl_lv := lv |} :: bt_elems root) /\
    ctr <= ctr' /\ (forall i, In i (bt_ids root') -> i < ctr') /\
    (forall i, In i (bt_ids root) -> In i (bt_ids root')) /\
    (forall i, In i (bt_ids root') -> In i (bt_ids root) \/ ctr <= i < ctr') /\
    In (pi_modified info) (bt_ids root) /\
    match pi_created info with
    | Some c => c = ctr /\ In c (bt_ids root') /\ ~ In c (bt_ids root)
    | None => True
    end.
Proof. exact layer_put_spec. Qed.
Print Assumptions C08_layer_insert_preserves_wf_partial.

Theorem C08_layer_delete_preserves_wf_partial : forall ls p k root,
  layer_get ls p = Some root -> WF_layer root -> kt_wf k = true -> In k (bt_keys root) ->
  exists ls' gone ret,
    layer_remove ls p k = Some (ls', gone, ret) /\
    ((gone = false /\
      exists root' root'',
        bt_delete (S (bt_height root)) root k = Some (DKept root', ret) /\
        root'' = (if bt_id root' =? bt_id root then root' else set_root_flag root' true) /\
        ls' = layer_set ls p root'' /\ WF_layer root'' /\ bt_elems root'' <> [] /\
        (exists A s B, bt_elems root = A ++ s :: B /\ sl_key s = k /\ bt_elems root'' = A ++ B) /\
        Permutation (bt_ids root) (ret ++ bt_ids root'')) \/
     (gone = true /\ p <> [] /\ ls' = layer_del ls p /\
      exists l s, root = BLeaf l /\ leaf_entries l = [s] /\ sl_key s = k /\ ret = [lf_id l]) \/
     (gone = false /\ p = [] /\ ret = [] /\
      exists l s l'', root = BLeaf l /\ leaf_entries l = [s] /\ sl_key s = k /\
        ls' = layer_set ls p (BLeaf l'') /\ WF_layer (BLeaf l'') /\ leaf_entries l'' = [] /\
        lf_id l'' = lf_id l)).
Proof. exact layer_remove_spec. Qed.
Print Assumptions C08_layer_delete_preserves_wf_partial.

Theorem C08_wf_layer_sorted_partial : forall lo hi t,
  WF_bt lo hi t ->
  sorted_keys (bt_keys t) /\ Forall (fun k => kt_wf k = true) (bt_keys t) /\
  Forall entry_ok (bt_elems t) /\ Forall (in_bnd lo hi) (bt_keys t).
Proof. exact bt_elems_sorted. Qed.
Print Assumptions C08_wf_layer_sorted_partial.

(** descent (find_leaf + leaf lookup) and the in-order leaf chain see the same entries *)
Theorem C08_descent_and_chain_agree_partial : forall root k s,
  WF_bt None None root -> kt_wf k = true ->
  (layer_lookup root k = Some s <-> In s (bt_elems root) /\ sl_key s = k).
Proof. exact layer_lookup_some. Qed.
Print Assumptions C08_descent_and_chain_agree_partial.

Theorem C08_chain_is_inorder_partial : forall t,
  flat_map leaf_entries (ScanDefs.bt_leaves t) = bt_elems t.
Proof. exact bt_leaves_elems. Qed.
Print Assumptions C08_chain_is_inorder_partial.

(** ** Every reachable state of the whole system is well formed (scan-free histories) *)
From Yk Require Import SpecDefs StoreProofs SysDefs SysProofs.

Theorem C08_wf_reachable : forall ops,
  Forall (fun o => noscan o = true) ops -> Forall op_bytes ops ->
  SysInv (fst (exec_all sys_init ops)) (fst (spec_exec_all spec_init ops)).
Proof. exact reachable_inv. Qed.
Print Assumptions C08_wf_reachable.

(** what well-formedness of a storage means, in plain terms: prefixes unique, every layer a
    well-formed B+-tree (sorted unique entries, separators bounding subtrees, valid permutation
    words), ids distinct across all layers, link entries <=> existing non-empty sub-layers, every
    sub-layer hangs under its link *)
Theorem C08_wf_store_reading : forall ctr tr, WF_store ctr tr -> t_null tr = false ->
  WFL ctr (t_layers tr) None.
Proof. intros ctr tr H Hn. unfold WF_store in H. rewrite Hn in H. exact H. Qed.
Print Assumptions C08_wf_store_reading.

(** ** ... and after histories that contain scans and list_storages as well (SysScanProofs) *)
From Yk Require Import SysScanProofs.
Theorem C08_wf_reachable_all_ops : forall ops, Forall op_bytes ops ->
  SysInv (fst (exec_all sys_init ops)) (fst (spec_exec_all spec_init ops)).
Proof. intros ops Hb. exact (proj1 (reachable_inv2 ops Hb)). Qed.
Print Assumptions C08_wf_reachable_all_ops.
