(** * ScanProofs: the range scan returns exactly the entries of the interval (C03).

    Results (all closed under the global context):
    - [scan_validate_spec]   (stage 1) argument validation = [spec_scan_args_ok];
    - [scan_full_partial]    (stage 2) root layer, both ends infinite, unlimited: the whole store;
    - [scan_right_partial]   (stage 3) a right endpoint;
    - [scan_left_partial]    (stage 4) both endpoints, left keys of any length (the descent
                             length is truncated to 8 bits: [descent_equiv]);
    - [scan_layers_partial]  (stage 5 + max_size) any layer / accumulator / max_size, the
                             recursion through the links ([scan_layer_fwd]);
    - [scan_rtl_partial]     (stage 6) right to left with max_size 1: the greatest entry
                             ([scan_layer_rtl]), needs [rtl_ok];
    - [scan_refines]         the public [scan] against [spec_scan_list (abs_tree tr)], for every
                             argument record, under [WF_store] AND two further hypotheses
                             [root_live tr] and [sa_rtl a = true -> rtl_ok (t_layers tr)];
    - [scan_null]            the null storage;
    - [scan_inv]             = [seps_ok] (no separator (0xff..ff, 9)) /\ [live_ok] (a flagged border
                             of layer 0 only in the empty store): implies [root_live] and [rtl_ok]
                             ([scan_inv_sound]); holds on the null and on the empty store
                             ([scan_inv_null], [scan_inv_empty]) and is preserved by put and remove
                             ([put_scan_inv], [remove_scan_inv]);
    - [scan_refines_inv] / [scan_refines_all]  the refinement for every store with
                             [WF_store] and [scan_inv], i.e. every store reached by puts and removes;
    - [ScanCounterexamples]  both extra hypotheses are necessary: from [WF_store] alone the
                             refinement statement is false
                             ([scan_refines_false_from_WF_store_alone]);
    - [root_liveb] / [rtl_okb] decidable forms; [ScanExample] a 39-layer store on which the
                             hypotheses hold and 1830 argument records are evaluated. *)
From Coq Require Import ZArith NArith PeanoNat Lia ZifyBool ZifyN Bool List Sorted Permutation.
From Yk Require Import ListAux Word64 PermDefs PermProofs VersionDefs VersionProofs KeyDefs KeyProofs TreeDefs
     ScanDefs SysDefs SpecDefs LeafProofs LayerProofs VersionReportProofs StoreProofs.
Import ListNotations.
Local Open Scope N_scope.

(** ** 0. the lexicographic order *)
Lemma lex_total a b : lex_lt a b = true \/ a = b \/ lex_lt b a = true.
Proof.
  destruct (lex_lt a b) eqn:E1; [left; reflexivity|]. right.
  destruct (lex_lt b a) eqn:E2; [right; reflexivity|]. left. apply lex_lt_trich; assumption.
Qed.

Lemma lex_le_lt_trans a b c : lex_lt b a = false -> lex_lt b c = true -> lex_lt a c = true.
Proof.
  intros H1 H2. destruct (lex_total a b) as [H|[->|H]]; [|exact H2|congruence].
  eapply lex_lt_trans; eassumption.
Qed.

Lemma lex_lt_le_trans a b c : lex_lt a b = true -> lex_lt c b = false -> lex_lt a c = true.
Proof.
  intros H1 H2. destruct (lex_total b c) as [H|[<-|H]]; [|exact H1|congruence].
  eapply lex_lt_trans; eassumption.
Qed.

Lemma lex_lt_nil_r a : lex_lt a [] = false.
Proof. destruct a; reflexivity. Qed.

Lemma lex_lt_nil_l a : a <> [] -> lex_lt [] a = true.
Proof. destruct a; [contradiction|reflexivity]. Qed.

Lemma lex_lt_prefix a x : x <> [] -> lex_lt a (a ++ x) = true.
Proof.
  intros H. rewrite <- (app_nil_r a) at 1. rewrite lex_lt_app. apply lex_lt_nil_l. exact H.
Qed.

Lemma lex_lt_prefix_le a x : lex_lt (a ++ x) a = false.
Proof.
  rewrite <- (app_nil_r a) at 2. rewrite lex_lt_app. apply lex_lt_nil_r.
Qed.

(** ** Stage 1: validation *)
Lemma cmp_bytes_spec : forall a b,
  match cmp_bytes a b with
  | Lt3 => lex_lt a b = true
  | Eq3 => a = b
  | Gt3 => lex_lt b a = true
  end.
Proof.
  induction a as [|x a IH]; intros [|y b]; cbn [cmp_bytes lex_lt]; try reflexivity.
  unfold cmpN. destruct (N.compare_spec x y) as [E|L|G].
  - subst y. specialize (IH b). destruct (cmp_bytes a b).
    + rewrite IH. lia.
    + subst. reflexivity.
    + rewrite IH. lia.
  - lia.
  - lia.
Qed.

Lemma check_empty_spec l le r re :
  check_empty_scan_range l le r re =
  if (match re, le with
      | EP_INF, _ => true
      | re, EP_INF => negb (ep_eqb re EP_EXCL && Nat.eqb (length r) 0)
      | re, le => lex_lt l r || (key_eqb l r && ep_eqb le EP_INCL && ep_eqb re EP_INCL)
      end)
  then St_OK else St_ERR_BAD_USAGE.
Proof.
  pose proof (cmp_bytes_spec l r) as C.
  assert (cmp_bytes l r = Gt3 -> lex_lt l r = false /\ key_eqb l r = false) as G.
  { intros E. rewrite E in C. split; [apply lex_lt_asym; exact C|].
    apply key_eqb_neq. intros ->. rewrite lex_lt_irrefl in C. discriminate. }
  assert (cmp_bytes l r = Eq3 -> lex_lt l r = false /\ key_eqb l r = true) as Q.
  { intros E. rewrite E in C. subst r. split; [apply lex_lt_irrefl|apply key_eqb_refl]. }
  unfold check_empty_scan_range.
  destruct re, le; cbn [ep_eqb andb negb]; try reflexivity;
    try (destruct r; reflexivity);
    destruct (cmp_bytes l r);
    try (rewrite C; reflexivity);
    try (destruct (Q eq_refl) as [-> ->]; reflexivity);
    try (destruct (G eq_refl) as [-> ->]; reflexivity).
Qed.

Theorem scan_validate_spec a :
  (scan_validate a = None <-> spec_scan_args_ok a = true) /\
  (spec_scan_args_ok a = false -> scan_validate a = Some St_ERR_BAD_USAGE).
Proof.
  unfold scan_validate, spec_scan_args_ok. rewrite check_empty_spec.
  destruct ((sa_lnull a && negb (Nat.eqb (length (sa_l a)) 0)) ||
            (sa_rnull a && negb (Nat.eqb (length (sa_r a)) 0))).
  { cbn [negb andb]. split; [split; discriminate|reflexivity]. }
  destruct (sa_re a), (sa_le a); cbn [ep_eqb andb orb negb];
    destruct (sa_rtl a); destruct (Nat.eqb (sa_max a) 1);
    try destruct (lex_lt (sa_l a) (sa_r a)); try destruct (key_eqb (sa_l a) (sa_r a));
    try destruct (Nat.eqb (length (sa_r a)) 0);
    cbn [ep_eqb andb orb negb];
    (split; [split; intros; (reflexivity || discriminate)|intros; (reflexivity || discriminate)]).
Qed.

(** ** 2. the comparison sites of the scan *)

(** memcmp over the common length *)
Lemma cmp_pref_spec : forall r f,
  match memcmp_bytes r f (Nat.min (length r) (length f)) with
  | Lt3 => forall e, lex_lt r (f ++ e) = true
  | Gt3 => forall e, lex_lt (f ++ e) r = true
  | Eq3 => ((length r <= length f)%nat -> exists x, f = r ++ x) /\
           ((length f < length r)%nat -> exists y, y <> [] /\ r = f ++ y)
  end.
Proof.
  unfold memcmp_bytes.
  induction r as [|x r IH]; intros [|y f]; cbn [length Nat.min firstn cmp_bytes].
  - split; [intros _; exists []; reflexivity|intros H; inversion H].
  - split; [intros _; exists (y :: f); reflexivity|intros H; inversion H].
  - split; [intros H; inversion H|intros _; exists (x :: r); split; [discriminate|reflexivity]].
  - unfold cmpN. destruct (N.compare_spec x y) as [E|L|G].
    + subst y. specialize (IH f).
      destruct (cmp_bytes (firstn (Nat.min (length r) (length f)) r)
                          (firstn (Nat.min (length r) (length f)) f)).
      * intros e. cbn [app lex_lt]. rewrite IH. lia.
      * destruct IH as [I1 I2]. split; intros H.
        -- destruct I1 as [z ->]; [lia|]. exists z. reflexivity.
        -- destruct I2 as (z & Hz & ->); [lia|]. exists z. split; [exact Hz|reflexivity].
      * intros e. cbn [app lex_lt]. rewrite IH. lia.
    + intros e. cbn [app lex_lt]. lia.
    + intros e. cbn [app lex_lt]. lia.
Qed.

Lemma in_right_lt r re k : re <> EP_INF -> lex_lt r k = true -> in_right r re k = false.
Proof.
  intros Hre H. destruct re; cbn [in_right]; [apply lex_lt_asym; exact H|rewrite H; reflexivity|contradiction].
Qed.

Lemma in_right_gt r re k : lex_lt k r = true -> in_right r re k = true.
Proof.
  intros H. destruct re; cbn [in_right]; [exact H| |reflexivity].
  rewrite (lex_lt_asym _ _ H). reflexivity.
Qed.

(** "dead": nothing above [full] is in the right range *)
Lemma in_right_dead r re full k :
  re <> EP_INF -> lex_lt full r = false -> lex_lt full k = true -> in_right r re k = false.
Proof.
  intros Hre H1 H2. apply in_right_lt; [exact Hre|]. exact (lex_le_lt_trans r full k H1 H2).
Qed.

Lemma in_right_false_le r re full : in_right r re full = false -> re <> EP_INF /\ lex_lt full r = false.
Proof.
  destruct re; cbn [in_right]; intros H.
  - split; [discriminate|exact H].
  - split; [discriminate|]. apply lex_lt_asym. destruct (lex_lt r full); [reflexivity|discriminate].
  - discriminate.
Qed.

Lemma in_right_mono r re k k' : in_right r re k = false -> lex_lt k k' = true -> in_right r re k' = false.
Proof.
  intros H1 H2. apply in_right_false_le in H1. destruct H1 as [A B]. eapply in_right_dead; eassumption.
Qed.

Lemma in_left_mono l le k k' : in_left l le k = false -> lex_lt k' k = true -> in_left l le k' = false.
Proof.
  destruct le; cbn [in_left]; intros H1 H2; [| |discriminate].
  - destruct (lex_lt l k') eqn:E; [|reflexivity].
    rewrite (lex_lt_trans _ _ _ E H2) in H1. discriminate.
  - assert (lex_lt k l = true) as H3 by (destruct (lex_lt k l); [reflexivity|discriminate]).
    rewrite (lex_lt_trans _ _ _ H2 H3). reflexivity.
Qed.

Definition inr_f (r : key) (re : endpoint) (full : key) : bool :=
  match memcmp_bytes r full (Nat.min (length r) (length full)) with
  | Gt3 => true
  | Eq3 => Nat.ltb (length full) (length r) || (Nat.eqb (length r) (length full) && ep_eqb re EP_INCL)
  | Lt3 => false
  end.

Lemma inr_f_spec r re full : re <> EP_INF -> inr_f r re full = in_right r re full.
Proof.
  intros Hre. unfold inr_f. pose proof (cmp_pref_spec r full) as C.
  destruct (memcmp_bytes r full (Nat.min (length r) (length full))).
  - specialize (C []). rewrite app_nil_r in C. symmetry. apply in_right_lt; assumption.
  - destruct C as [C1 C2]. destruct (Nat.ltb_spec (length full) (length r)) as [H|H].
    + destruct (C2 H) as (y & Hy & ->). cbn [orb]. symmetry. apply in_right_gt. apply lex_lt_prefix. exact Hy.
    + destruct (C1 H) as [x ->]. cbn [orb]. destruct (Nat.eqb_spec (length r) (length (r ++ x))) as [e|n].
      * rewrite app_length in e. destruct x as [|b x]; [|cbn [length] in e; lia].
        rewrite app_nil_r. cbn [andb].
        destruct re; cbn [in_right ep_eqb]; rewrite ?lex_lt_irrefl; try reflexivity. contradiction.
      * cbn [andb]. symmetry. apply in_right_lt; [exact Hre|]. apply lex_lt_prefix.
        intros ->. rewrite app_nil_r in n. contradiction.
  - specialize (C []). rewrite app_nil_r in C. symmetry. apply in_right_gt. exact C.
Qed.

Definition rarg_f (r : key) (re : endpoint) (full : key) : option (option (key * endpoint)) :=
  match re with
  | EP_INF => Some (Some ([], EP_INF))
  | _ =>
    let n := Nat.min (length r) (length full) in
    match memcmp_bytes r full n with
    | Lt3 => None
    | Eq3 => if Nat.leb (length r) (length full) then None else Some (Some (r, re))
    | Gt3 => Some (Some ([], EP_INF))
    end
  end.

Lemma rarg_f_spec r re full :
  match rarg_f r re full with
  | None => re <> EP_INF /\ lex_lt full r = false
  | Some None => False
  | Some (Some (ar, are)) =>
      (re = EP_INF -> are = EP_INF) /\
      forall rest, in_right ar are (full ++ rest) = in_right r re (full ++ rest)
  end.
Proof.
  assert (re <> EP_INF ->
    match (let n := Nat.min (length r) (length full) in
           match memcmp_bytes r full n with
           | Lt3 => None
           | Eq3 => if Nat.leb (length r) (length full) then None else Some (Some (r, re))
           | Gt3 => Some (Some ([], EP_INF))
           end) with
    | None => re <> EP_INF /\ lex_lt full r = false
    | Some None => False
    | Some (Some (ar, are)) =>
        (re = EP_INF -> are = EP_INF) /\
        forall rest, in_right ar are (full ++ rest) = in_right r re (full ++ rest)
    end) as G.
  { intros Hre. cbv zeta. pose proof (cmp_pref_spec r full) as C.
    destruct (memcmp_bytes r full (Nat.min (length r) (length full))).
    - specialize (C []). rewrite app_nil_r in C. split; [exact Hre|apply lex_lt_asym; exact C].
    - destruct C as [C1 _]. destruct (Nat.leb_spec (length r) (length full)) as [H|H].
      + destruct (C1 H) as [x ->]. split; [exact Hre|apply lex_lt_prefix_le].
      + split; [exact (fun H => H)|]. intros rest. reflexivity.
    - split; [reflexivity|]. intros rest. cbn [in_right]. symmetry. apply in_right_gt. apply C. }
  unfold rarg_f. destruct re; [apply G; discriminate|apply G; discriminate|].
  split; [reflexivity|]. intros rest. reflexivity.
Qed.

Definition pass_left_f (l : key) (le : endpoint) (kt : ktuple) : bool :=
  match le with
  | EP_INF => true
  | _ =>
    let lsl := slice_of_bytes l 8 in
    match cmpN lsl (ks kt) with
    | Gt3 => false
    | Eq3 => negb ((kl kt <? N.of_nat (length l)) ||
                   ((N.of_nat (length l) =? kl kt) && ep_eqb le EP_EXCL))
    | Lt3 => true
    end
  end.

Lemma pass_left_f_spec l le kt :
  bytes l -> kt_wf kt = true -> kl kt <= 8 -> pass_left_f l le kt = in_left l le (tbytes kt).
Proof.
  intros Hb Hw Hk.
  assert (length (tbytes kt) <= 8)%nat as Hlen by (pose proof (tbytes_length kt Hk); lia).
  pose proof (lex_tuple_short (tbytes kt) l (bos_bytes _ _) Hb (or_introl Hlen)) as E1.
  pose proof (lex_tuple_short l (tbytes kt) Hb (bos_bytes _ _) (or_intror Hlen)) as E2.
  rewrite (tuple_of_tbytes kt Hw Hk) in E1, E2. rewrite tuple_of_key_klen in E1, E2.
  unfold canon_lt, klen in E1, E2. cbn [ks kl] in E1, E2. change (N.of_nat 8) with 8 in E1, E2.
  unfold pass_left_f, in_left. destruct le; [rewrite E2|rewrite E1|reflexivity];
    cbv zeta; unfold cmpN; destruct (N.compare_spec (slice_of_bytes l 8) (ks kt));
    destruct (N.ltb_spec 8 (N.of_nat (length l))); cbn [ep_eqb]; lia.
Qed.

Definition larg_f (l : key) (le : endpoint) (kt : ktuple) : option (key * endpoint) :=
  match le with
  | EP_INF => Some ([], EP_INF)
  | _ => match cmpN (slice_of_bytes l 8) (ks kt) with
         | Lt3 => Some ([], EP_INF)
         | Eq3 => Some (skipn 8 l, le)
         | Gt3 => None
         end
  end.

Lemma larg_f_spec l le kt :
  bytes l -> kt_wf kt = true -> kl kt = 9 ->
  match larg_f l le kt with
  | None => forall rest, bytes rest -> rest <> [] ->
              in_left l le (bytes_of_slice (ks kt) 8 ++ rest) = false
  | Some (al, ale) =>
      (bytes al /\ (ale = EP_INF -> al = [])) /\
      forall rest, bytes rest -> rest <> [] ->
        in_left al ale rest = in_left l le (bytes_of_slice (ks kt) 8 ++ rest)
  end.
Proof.
  intros Hb Hw H9.
  assert (forall rest, bytes rest -> rest <> [] ->
            let e := bytes_of_slice (ks kt) 8 ++ rest in
            let tl := {| ks := slice_of_bytes l 8; kl := klen 8 l |} in
            lex_lt e l = canon_lt kt tl || (kt_eq kt tl && true && lex_lt rest (skipn 8 l)) /\
            lex_lt l e = canon_lt tl kt || (kt_eq tl kt && (klen 8 l =? 9) && lex_lt (skipn 8 l) rest)) as G.
  { intros rest Hr Hne e tl.
    assert (bytes e) as He by (apply Forall_app; split; [apply bos_bytes|exact Hr]).
    pose proof (lex_tuple e l He Hb) as E1. pose proof (lex_tuple l e Hb He) as E2.
    unfold e in E1, E2. rewrite (tuple_of_link kt rest Hw H9 Hne), skipn_bos8 in E1, E2.
    rewrite tuple_of_key_klen in E1, E2. cbn [kl] in E2. rewrite H9 in E1.
    change (9 =? 9) with true in E1. split; assumption. }
  assert (forall rest, rest <> [] -> (length l <= 8)%nat ->
            lex_lt rest (skipn 8 l) = false /\ lex_lt (skipn 8 l) rest = true) as S8.
  { intros rest Hne Hl. rewrite skipn_all2 by exact Hl. split; [apply lex_lt_nil_r|apply lex_lt_nil_l; exact Hne]. }
  unfold larg_f. destruct le.
  - (* EXCL *)
    unfold cmpN. destruct (N.compare_spec (slice_of_bytes l 8) (ks kt)) as [E|L|Gt].
    + split; [split; [apply bytes_skipn; exact Hb|discriminate]|]. intros rest Hr Hne. destruct (G rest Hr Hne) as [_ G2].
      cbn [in_left]. rewrite G2. unfold canon_lt, kt_eq, klen. cbn [ks kl]. change (N.of_nat 8) with 8.
      destruct (N.ltb_spec 8 (N.of_nat (length l))) as [H|H].
      * set (b := lex_lt (skipn 8 l) rest). clearbody b. destruct b; lia.
      * destruct (S8 rest Hne ltac:(lia)) as [_ ->]. lia.
    + split; [split; [constructor|reflexivity]|]. intros rest Hr Hne. destruct (G rest Hr Hne) as [_ G2].
      cbn [in_left]. rewrite G2. unfold canon_lt. cbn [ks kl]. lia.
    + intros rest Hr Hne. destruct (G rest Hr Hne) as [_ G2].
      cbn [in_left]. rewrite G2. unfold canon_lt, kt_eq. cbn [ks kl]. lia.
  - (* INCL *)
    unfold cmpN. destruct (N.compare_spec (slice_of_bytes l 8) (ks kt)) as [E|L|Gt].
    + split; [split; [apply bytes_skipn; exact Hb|discriminate]|]. intros rest Hr Hne. destruct (G rest Hr Hne) as [G1 _].
      cbn [in_left]. rewrite G1. unfold canon_lt, kt_eq, klen. cbn [ks kl]. change (N.of_nat 8) with 8.
      destruct (N.ltb_spec 8 (N.of_nat (length l))) as [H|H].
      * set (b := lex_lt rest (skipn 8 l)). clearbody b. destruct b; lia.
      * destruct (S8 rest Hne ltac:(lia)) as [-> _]. lia.
    + split; [split; [constructor|reflexivity]|]. intros rest Hr Hne. destruct (G rest Hr Hne) as [G1 _].
      cbn [in_left]. rewrite G1. unfold canon_lt, kt_eq. cbn [ks kl]. lia.
    + intros rest Hr Hne. destruct (G rest Hr Hne) as [G1 _].
      cbn [in_left]. rewrite G1. unfold canon_lt. cbn [ks kl]. lia.
  - split; [split; [constructor|reflexivity]|]. intros rest _ _. reflexivity.
Qed.

(** ** 3. truncation at [max_size] *)
Definition trunc {A} (mx : nat) (l : list A) : list A := if Nat.eqb mx 0 then l else firstn mx l.
Definition mr {A} (mx : nat) (l : list A) : bool := negb (Nat.eqb mx 0) && Nat.leb mx (length l).

Lemma max_reached_mr mx a : max_reached mx a = mr mx (ac_tuples a).
Proof. reflexivity. Qed.

Lemma mr_trunc {A} mx (l : list A) : mr mx (trunc mx l) = mr mx l.
Proof.
  unfold mr, trunc. destruct (Nat.eqb_spec mx 0) as [E|E]; [reflexivity|]. cbn [negb andb].
  rewrite firstn_length. destruct (Nat.leb_spec mx (Nat.min mx (length l))); destruct (Nat.leb_spec mx (length l)); lia.
Qed.

Lemma trunc_id {A} mx (l : list A) : mr mx l = false -> trunc mx l = l.
Proof.
  unfold mr, trunc. destruct (Nat.eqb_spec mx 0) as [E|E]; [reflexivity|]. cbn [negb andb].
  intros H. apply firstn_all2. destruct (Nat.leb_spec mx (length l)); [discriminate|lia].
Qed.

Lemma trunc_reached {A} mx (l g : list A) : mr mx l = true -> trunc mx (l ++ g) = trunc mx l.
Proof.
  unfold mr, trunc. destruct (Nat.eqb_spec mx 0) as [E|E]; [discriminate|]. cbn [negb andb].
  intros H. apply Nat.leb_le in H. rewrite firstn_app.
  replace (mx - length l)%nat with 0%nat by lia. cbn [firstn]. apply app_nil_r.
Qed.

Lemma trunc_push {A} mx (l : list A) x : mr mx l = false -> trunc mx (l ++ [x]) = l ++ [x].
Proof.
  unfold mr, trunc. destruct (Nat.eqb_spec mx 0) as [E|E]; [reflexivity|]. cbn [negb andb].
  intros H. apply firstn_all2. rewrite app_length. cbn [length].
  destruct (Nat.leb_spec mx (length l)); [discriminate|lia].
Qed.

Lemma trunc_map {A B} (f : A -> B) mx l : map f (trunc mx l) = trunc mx (map f l).
Proof. unfold trunc. destruct (Nat.eqb mx 0); [reflexivity|]. symmetry. apply firstn_map. Qed.

(** ** 4. the concrete contents of a layer (as [abs_layer], with the values) *)
Fixpoint clayer (fuel : nat) (ls : layers_t) (p : prefix) (pb : key) : list (key * value) :=
  match fuel with
  | O => []
  | S f =>
    match layer_get ls p with
    | None => []
    | Some root =>
      flat_map (fun s => match sl_lv s with
                         | LValue v => [(pb ++ bytes_of_slice (ks (sl_key s)) (kl (sl_key s)), v)]
                         | LLink => clayer f ls (p ++ [ks (sl_key s)])
                                           (pb ++ bytes_of_slice (ks (sl_key s)) 8)
                         | LEmpty => []
                         end) (bt_elems root)
    end
  end.

(** the contribution of one entry *)
Definition cent (f : nat) (ls : layers_t) (p : prefix) (pb : key) (s : slot_t) : list (key * value) :=
  match sl_lv s with
  | LValue v => [(pb ++ bytes_of_slice (ks (sl_key s)) (kl (sl_key s)), v)]
  | LLink => clayer f ls (p ++ [ks (sl_key s)]) (pb ++ bytes_of_slice (ks (sl_key s)) 8)
  | LEmpty => []
  end.

Lemma clayer_S f ls p pb :
  clayer (S f) ls p pb =
  match layer_get ls p with None => [] | Some root => flat_map (cent f ls p pb) (bt_elems root) end.
Proof. reflexivity. Qed.

Definition abskv (kv : key * value) : key * aval := (fst kv, abs_value (snd kv)).

Lemma map_flat_map {A B C} (g : B -> C) (h : A -> list B) l :
  map g (flat_map h l) = flat_map (fun x => map g (h x)) l.
Proof. induction l as [|a l IH]; [reflexivity|]. cbn [flat_map]. rewrite map_app, IH. reflexivity. Qed.

Lemma abs_clayer : forall f ls p pb, abs_layer f ls p pb = map abskv (clayer f ls p pb).
Proof.
  induction f as [|f IH]; intros ls p pb; [reflexivity|]. cbn [abs_layer clayer].
  destruct (layer_get ls p) as [root|]; [|reflexivity].
  rewrite map_flat_map. apply flat_map_ext. intros s.
  destruct (sl_lv s); [reflexivity|reflexivity|apply IH].
Qed.

Lemma filter_map_abskv (P : key -> bool) l :
  filter (fun kv => P (fst kv)) (map abskv l) = map abskv (filter (fun kv => P (fst kv)) l).
Proof.
  induction l as [|x l IH]; [reflexivity|]. cbn [map filter]. cbn [abskv fst].
  destruct (P (fst x)); [cbn [map]; rewrite IH; reflexivity|exact IH].
Qed.

(** ** 5. one border: [scan_entries] *)
Definition Pabs (pb l : key) (le : endpoint) (r : key) (re : endpoint) (kv : key * value) : bool :=
  in_left (pb ++ l) le (fst kv) && in_right r re (fst kv).

Lemma in_left_app pb l le k : in_left (pb ++ l) le (pb ++ k) = in_left l le k.
Proof. destruct le; cbn [in_left]; rewrite ?lex_lt_app; reflexivity. Qed.

Lemma filter_nil_iff {A} (P : A -> bool) l : filter P l = [] <-> forall x, In x l -> P x = false.
Proof.
  induction l as [|a l IH]; cbn [filter]; [split; [intros _ x []|reflexivity]|].
  destruct (P a) eqn:E.
  - split; [discriminate|]. intros H. rewrite (H a (or_introl eq_refl)) in E. discriminate.
  - rewrite IH. split.
    + intros H x [<-|Hx]; [exact E|apply H; exact Hx].
    + intros H x Hx. apply H. right. exact Hx.
Qed.

Lemma wf8 t : kt_wf t = true -> kt_wf {| ks := ks t; kl := 8 |} = true.
Proof.
  intros H. apply kt_wf_spec in H. destruct H as (H1 & H2 & H3). apply kt_wf_spec. cbn [ks kl].
  split; [lia|]. split; [exact H2|]. intros X. lia.
Qed.

(** every key whose first tuple is above [kt] is above the bytes of [kt] *)
Lemma tbytes_lt kt kt' rest :
  kt_wf kt = true -> canon_lt kt kt' = true -> bytes rest -> tuple_of_key rest = kt' ->
  lex_lt (tbytes kt) rest = true.
Proof.
  intros Hw Hlt Hb Ht.
  assert (canon_lt (tuple_of_key (tbytes kt)) kt' = true) as H.
  { pose proof (wf_len_le kt Hw) as H9.
    destruct (N.le_gt_cases (kl kt) 8) as [H8|H8].
    - rewrite (tuple_of_tbytes kt Hw H8). exact Hlt.
    - assert (kl kt = 9) as E9 by lia. rewrite (tbytes9 kt E9).
      change (bytes_of_slice (ks kt) 8) with (tbytes {| ks := ks kt; kl := 8 |}).
      rewrite (tuple_of_tbytes _ (wf8 kt Hw)) by (cbn [kl]; lia).
      eapply canon_lt_trans; [|exact Hlt]. unfold canon_lt. cbn [ks kl]. lia. }
  rewrite (lex_tuple (tbytes kt) rest (bos_bytes _ _) Hb), Ht, H. reflexivity.
Qed.

(** the keys below a link *)
Lemma link_key_shape kt rest :
  kt_wf kt = true -> kl kt = 9 -> bytes rest -> tuple_of_key rest = kt ->
  exists rest', rest = bytes_of_slice (ks kt) 8 ++ rest' /\ bytes rest' /\ rest' <> [].
Proof.
  intros Hw H9 Hb Ht.
  assert (8 < length rest)%nat as Hlen.
  { destruct (Nat.le_gt_cases (length rest) 8) as [H|H]; [|exact H].
    pose proof (tuple_kl_short rest H) as X. rewrite Ht, H9 in X. lia. }
  exists (skipn 8 rest). split; [|split].
  - rewrite <- Ht, (bos8_tuple_long rest Hb Hlen). symmetry. apply firstn_skipn.
  - apply bytes_skipn. exact Hb.
  - intros X. apply (f_equal (@length N)) in X. rewrite skipn_length in X. cbn [length] in X. lia.
Qed.

Section Entries.
  Variable fix2 : bool.
  Variable sub : prefix -> key -> key -> endpoint -> key -> endpoint -> scan_acc -> option scan_acc.
  Variable mx : nat.
  Variable p : prefix. Variable pb : key.
  Variable l : key. Variable le : endpoint. Variable r : key. Variable re : endpoint.
  Variable bid bver : N.

  Local Notation SE := (scan_entries fix2 sub mx p pb l le r re bid bver).

  Lemma scan_entries_cons i s rest pushed acc :
    SE ((i, s) :: rest) pushed acc =
    (let kt := sl_key s in
     let full := pb ++ bytes_of_slice (ks kt) (kl kt) in
     if 8 <? kl kt then
       match larg_f l le kt with
       | None => SE rest pushed acc
       | Some (al, ale) =>
         match rarg_f r re full with
         | None => (SB_END, pushed, if fix2 && negb pushed then acc_push_nv acc bid bver else acc)
         | Some None => (SB_ERR, pushed, acc)
         | Some (Some (ar, are)) =>
           match sub (p ++ [ks kt]) full al ale ar are acc with
           | None => (SB_ERR, pushed, acc)
           | Some acc' =>
             if max_reached mx acc'
             then (SB_END, pushed, if fix2 && negb pushed then acc_push_nv acc' bid bver else acc')
             else SE rest pushed acc'
           end
         end
       end
     else
       match sl_lv s with
       | LValue v =>
         let in_range (_ : unit) :=
           let acc' := acc_push_t acc full v bid bver in
           if max_reached mx acc' then (SB_END, true, acc') else SE rest true acc' in
         if negb (pass_left_f l le kt) then SE rest pushed acc
         else
           match re with
           | EP_INF => in_range tt
           | _ => if inr_f r re full then in_range tt
                  else (SB_END, pushed, if pushed then acc else acc_push_nv acc bid bver)
           end
       | _ => (SB_ERR, pushed, acc)
       end).
  Proof. reflexivity. Qed.

  Lemma re_match {A} (full : key) (X Y : A) :
    match re with
    | EP_INF => X
    | _ => if inr_f r re full then X else Y
    end = if in_right r re full then X else Y.
  Proof. destruct re; rewrite ?inr_f_spec by discriminate; reflexivity. Qed.

  Variable ls : layers_t.
  (** [C s]: what entry [s] contributes, in the order of the scan; [Csub x]: the
      contents of the layer below the link with slice [x], in that order *)
  Variable C : slot_t -> list (key * value).
  Variable Csub : N -> list (key * value).
  Hypothesis HCv : forall s v, sl_lv s = LValue v -> C s = [(pb ++ tbytes (sl_key s), v)].
  Hypothesis HCl : forall s, sl_lv s = LLink -> C s = Csub (ks (sl_key s)).
  Hypothesis Hl : bytes l.
  Hypothesis Hsub : forall x al ale ar are acc,
    layer_get ls (p ++ [x]) <> None -> bytes al -> (ale = EP_INF -> al = []) ->
    (re = EP_INF -> are = EP_INF) -> mr mx (ac_tuples acc) = false ->
    exists acc', sub (p ++ [x]) (pb ++ bytes_of_slice x 8) al ale ar are acc = Some acc' /\
      ac_tuples acc' =
        trunc mx (ac_tuples acc ++
                  filter (Pabs (pb ++ bytes_of_slice x 8) al ale ar are)
                         (Csub x)).

  Local Notation P := (Pabs pb l le r re).
  Local Notation CE := C.

  Definition eok (s : slot_t) : Prop :=
    entry_ok s /\
    (sl_lv s = LLink -> layer_get ls (p ++ [ks (sl_key s)]) <> None) /\
    (forall kv, In kv (CE s) ->
       exists rest, fst kv = pb ++ rest /\ bytes rest /\ tuple_of_key rest = sl_key s).

  (** nothing at or after an entry whose lower bound is beyond [r] is in range *)
  Lemma dead_filter s more :
    re <> EP_INF -> lex_lt (pb ++ tbytes (sl_key s)) r = false ->
    (forall kv, In kv (CE s) -> in_right r re (fst kv) = false) ->
    Forall eok (s :: more) -> sorted_keys (map sl_key (s :: more)) ->
    filter P (flat_map CE (s :: more)) = [].
  Proof.
    intros Hre Hdead Hs Hok Hsorted. apply filter_nil_iff. intros kv Hin.
    unfold Pabs. apply andb_false_iff. right.
    apply in_flat_map in Hin. destruct Hin as (s' & [<-|Hs'] & Hkv); [apply Hs; exact Hkv|].
    cbn [map] in Hsorted. apply sorted_cons_iff in Hsorted. destruct Hsorted as [_ Hlt].
    rewrite Forall_forall in Hlt. specialize (Hlt (sl_key s') (in_map sl_key _ _ Hs')).
    rewrite Forall_forall in Hok. destruct (Hok s (or_introl eq_refl)) as ((Hw & _) & _).
    destruct (Hok s' (or_intror Hs')) as (_ & _ & Hsh). destruct (Hsh kv Hkv) as (rest & -> & Hb & Ht).
    eapply in_right_dead; [exact Hre|exact Hdead|]. rewrite lex_lt_app.
    eapply tbytes_lt; eassumption.
  Qed.

  Lemma F_cons s more : filter P (flat_map CE (s :: more)) = filter P (CE s) ++ filter P (flat_map CE more).
  Proof. cbn [flat_map]. apply filter_app. Qed.

  Definition se_post (acc : scan_acc) (es : list slot_t) (later : list slot_t)
             (res : sb_res * bool * scan_acc) : Prop :=
    match res with
    | (SB_ERR, _, _) => False
    | (SB_CONT, _, acc') =>
        mr mx (ac_tuples acc') = false /\
        ac_tuples acc' = ac_tuples acc ++ filter P (flat_map CE es)
    | (SB_END, _, acc') =>
        ac_tuples acc' = trunc mx (ac_tuples acc ++ filter P (flat_map CE (es ++ later)))
    end.

  (** an entry that contributes nothing *)
  Lemma se_post_skip acc s es later res :
    filter P (CE s) = [] -> se_post acc es later res -> se_post acc (s :: es) later res.
  Proof.
    intros H0. unfold se_post. destruct res as [[res pu] acc']. destruct res; [| |exact (fun x => x)].
    - rewrite <- app_comm_cons, F_cons, H0. exact (fun x => x).
    - rewrite F_cons, H0. exact (fun x => x).
  Qed.

  (** an entry that contributed [F] and the scan goes on with [acc1] *)
  Lemma se_post_step acc acc1 s es later res :
    ac_tuples acc1 = ac_tuples acc ++ filter P (CE s) ->
    se_post acc1 es later res -> se_post acc (s :: es) later res.
  Proof.
    intros H1. unfold se_post. destruct res as [[res pu] acc']. destruct res; [| |exact (fun x => x)].
    - rewrite <- app_comm_cons, F_cons, H1, <- app_assoc. exact (fun x => x).
    - rewrite F_cons, H1, <- app_assoc. exact (fun x => x).
  Qed.

  Lemma scan_entries_spec : forall es later pushed acc,
    Forall eok (map snd es ++ later) ->
    (re <> EP_INF -> sorted_keys (map sl_key (map snd es ++ later))) ->
    mr mx (ac_tuples acc) = false ->
    se_post acc (map snd es) later (SE es pushed acc).
  Proof.
    induction es as [|[i s] rest IH]; intros later pushed acc Hok Hsorted Hmr.
    - cbn [scan_entries map flat_map se_post filter]. split; [exact Hmr|]. rewrite app_nil_r. reflexivity.
    - cbn [map snd] in Hok, Hsorted |- *. rewrite <- app_comm_cons in Hok, Hsorted.
      pose proof Hok as Hok0. pose proof Hsorted as Hsorted0.
      apply Forall_cons_iff in Hok. destruct Hok as [Hs Hok].
      assert (re <> EP_INF -> sorted_keys (map sl_key (map snd rest ++ later))) as Hsorted1.
      { intros Hre. specialize (Hsorted Hre). cbn [map] in Hsorted. apply sorted_cons_iff in Hsorted.
        apply Hsorted. }
      clear Hsorted. rename Hsorted1 into Hsorted.
      destruct Hs as ((Hw & Hlv) & Hlink & Hshape).
      rewrite scan_entries_cons. cbv zeta.
      destruct (sl_lv s) as [|v|] eqn:Elv; [contradiction| |].
      + (* a value *)
        destruct (N.ltb_spec 8 (kl (sl_key s))) as [X|_]; [lia|].
        pose proof (HCv s v Elv) as ECE.
        assert (P (pb ++ tbytes (sl_key s), v) =
                in_left l le (tbytes (sl_key s)) && in_right r re (pb ++ tbytes (sl_key s))) as EP.
        { unfold Pabs. cbn [fst]. rewrite in_left_app. reflexivity. }
        rewrite (pass_left_f_spec l le (sl_key s) Hl Hw Hlv).
        fold (tbytes (sl_key s)).
        destruct (in_left l le (tbytes (sl_key s))) eqn:EL; cbn [negb].
        * rewrite re_match.
          destruct (in_right r re (pb ++ tbytes (sl_key s))) eqn:ER.
          -- (* pushed *)
             assert (filter P (CE s) = [(pb ++ tbytes (sl_key s), v)]) as EF.
             { rewrite ECE. cbn [filter]. rewrite EP. reflexivity. }
             rewrite max_reached_mr. cbn [acc_push_t ac_tuples].
             match goal with |- context [if ?c then _ else _] => destruct c eqn:EM end.
             ++ cbn [se_post ac_tuples]. rewrite <- app_comm_cons, F_cons, EF, app_assoc.
                rewrite (trunc_reached _ _ _ EM). symmetry. apply trunc_push. exact Hmr.
             ++ eapply se_post_step; [|apply IH; [exact Hok|exact Hsorted|exact EM]].
                rewrite EF. reflexivity.
          -- (* beyond the right end *)
             pose proof ER as ER0. apply in_right_false_le in ER. destruct ER as [Hre Hdead].
             assert (filter P (flat_map CE (s :: map snd rest ++ later)) = []) as D.
             { apply dead_filter; try assumption; [|apply Hsorted0; exact Hre].
               intros kv Hkv. rewrite ECE in Hkv.
               destruct Hkv as [<-|[]]. exact ER0. }
             cbn [se_post]. rewrite <- app_comm_cons, D, app_nil_r.
             destruct pushed; cbn [ac_tuples acc_push_nv]; symmetry; apply trunc_id; exact Hmr.
        * apply se_post_skip; [|apply IH; assumption].
          rewrite ECE. cbn [filter]. rewrite EP. reflexivity.
      + (* a link *)
        set (kt := sl_key s) in *.
        pose proof (HCl s Elv) as ECE. fold kt in ECE.
        rewrite Hlv. change (8 <? 9) with true. cbv iota.
        change (bytes_of_slice (ks kt) 9) with (bytes_of_slice (ks kt) 8).
        assert (forall kv, In kv (CE s) ->
                  exists rest', fst kv = (pb ++ bytes_of_slice (ks kt) 8) ++ rest' /\
                                bytes rest' /\ rest' <> []) as Hkeys.
        { intros kv Hkv. destruct (Hshape kv Hkv) as (rest0 & E & Hb & Ht).
          destruct (link_key_shape kt rest0 Hw Hlv Hb Ht) as (rest' & -> & Hb' & Hne).
          exists rest'. rewrite E, app_assoc. auto. }
        pose proof (larg_f_spec l le kt Hl Hw Hlv) as LA.
        destruct (larg_f l le kt) as [[al ale]|].
        * destruct LA as [[Hal Hinf] LA].
          pose proof (rarg_f_spec r re (pb ++ bytes_of_slice (ks kt) 8)) as RA.
          destruct (rarg_f r re (pb ++ bytes_of_slice (ks kt) 8)) as [[[ar are]|]|].
          -- destruct RA as [RAi RA].
             destruct (Hsub (ks kt) al ale ar are acc (Hlink eq_refl) Hal Hinf RAi Hmr) as (acc1 & Es & Ts).
             rewrite Es.
             assert (filter (Pabs (pb ++ bytes_of_slice (ks kt) 8) al ale ar are) (Csub (ks kt)) =
                     filter P (CE s)) as EF.
             { rewrite ECE. apply filter_ext_in. intros kv Hkv. rewrite <- ECE in Hkv.
               destruct (Hkeys kv Hkv) as (rest' & E & Hb' & Hne). unfold Pabs. rewrite E.
               rewrite in_left_app, RA, (LA rest' Hb' Hne), <- app_assoc, in_left_app. reflexivity. }
             rewrite EF in Ts. rewrite max_reached_mr.
             match goal with |- context [if ?c then _ else _] => destruct c eqn:EM end.
             ++ cbn [se_post]. rewrite <- app_comm_cons, F_cons, app_assoc.
                rewrite Ts in EM. rewrite mr_trunc in EM. rewrite (trunc_reached _ _ _ EM).
                destruct (fix2 && negb pushed); cbn [ac_tuples acc_push_nv]; exact Ts.
             ++ eapply se_post_step; [|apply IH; [exact Hok|exact Hsorted|exact EM]].
                rewrite Ts. apply trunc_id. rewrite Ts, mr_trunc in EM. exact EM.
          -- contradiction.
          -- destruct RA as [Hre Hdead].
             assert (filter P (flat_map CE (s :: map snd rest ++ later)) = []) as D.
             { apply dead_filter; try assumption.
               - fold kt. rewrite (tbytes9 kt Hlv). exact Hdead.
               - intros kv Hkv. destruct (Hkeys kv Hkv) as (rest' & -> & Hb' & Hne).
                 eapply in_right_dead; [exact Hre|exact Hdead|]. apply lex_lt_prefix. exact Hne.
               - apply Hsorted0. exact Hre. }
             cbn [se_post]. rewrite <- app_comm_cons, D, app_nil_r.
             destruct (fix2 && negb pushed); cbn [ac_tuples acc_push_nv]; symmetry; apply trunc_id; exact Hmr.
        * apply se_post_skip; [|apply IH; assumption].
          apply filter_nil_iff. intros kv Hkv. destruct (Hkeys kv Hkv) as (rest' & E & Hb' & Hne).
          unfold Pabs. rewrite E, <- app_assoc, in_left_app, (LA rest' Hb' Hne). reflexivity.
  Qed.
End Entries.

(** ** 6. the border chain: [scan_leaves] *)
Lemma flat_map_rev {A B} (g : A -> list B) l :
  flat_map (fun x => rev (g x)) (rev l) = rev (flat_map g l).
Proof.
  induction l as [|a l IH]; [reflexivity|]. cbn [rev flat_map].
  rewrite flat_map_app, IH, rev_app_distr. cbn [flat_map]. rewrite app_nil_r. reflexivity.
Qed.

Section Leaves.
  Variable fix2 : bool.
  Variable sub : prefix -> key -> key -> endpoint -> key -> endpoint -> scan_acc -> option scan_acc.
  Variable mx : nat.
  Variable p : prefix. Variable pb : key.
  Variable l : key. Variable le : endpoint. Variable r : key. Variable re : endpoint.
  Variable ls : layers_t.
  Variable f : nat.
  Hypothesis Hl : bytes l.

  Local Notation CE := (cent f ls p pb).
  Local Notation CS := (fun x => clayer f ls (p ++ [x]) (pb ++ bytes_of_slice x 8)).

  Lemma cent_value s v : sl_lv s = LValue v -> CE s = [(pb ++ tbytes (sl_key s), v)].
  Proof. intros E. unfold cent. rewrite E. reflexivity. Qed.
  Lemma cent_link s : sl_lv s = LLink -> CE s = CS (ks (sl_key s)).
  Proof. intros E. unfold cent. rewrite E. reflexivity. Qed.

  Section Fwd.
  Hypothesis Hsub : forall x al ale ar are acc,
    layer_get ls (p ++ [x]) <> None -> bytes al -> (ale = EP_INF -> al = []) ->
    (re = EP_INF -> are = EP_INF) -> mr mx (ac_tuples acc) = false ->
    exists acc', sub (p ++ [x]) (pb ++ bytes_of_slice x 8) al ale ar are acc = Some acc' /\
      ac_tuples acc' =
        trunc mx (ac_tuples acc ++ filter (Pabs (pb ++ bytes_of_slice x 8) al ale ar are) (CS x)).

  Lemma scan_leaves_spec : forall lvs acc,
    Forall (eok p pb ls CE) (flat_map leaf_entries lvs) ->
    sorted_keys (map sl_key (flat_map leaf_entries lvs)) ->
    mr mx (ac_tuples acc) = false ->
    exists acc', scan_leaves fix2 sub mx false p pb l le r re lvs acc = Some acc' /\
      ac_tuples acc' =
        trunc mx (ac_tuples acc ++
                  filter (Pabs pb l le r re) (flat_map CE (flat_map leaf_entries lvs))).
  Proof.
    induction lvs as [|lf rest IH]; intros acc Hok Hsorted Hmr.
    - exists acc. split; [reflexivity|]. cbn [flat_map filter]. rewrite app_nil_r.
      symmetry. apply trunc_id. exact Hmr.
    - cbn [scan_leaves flat_map] in *.
      pose proof (scan_entries_spec fix2 sub mx p pb l le r re (lf_id lf) (lf_ver lf) ls CE CS
                    cent_value cent_link Hl Hsub
                    (leaf_ranked lf) (flat_map leaf_entries rest) false acc Hok (fun _ => Hsorted) Hmr) as S.
      fold (leaf_entries lf) in S.
      destruct (scan_entries fix2 sub mx p pb l le r re (lf_id lf) (lf_ver lf) (leaf_ranked lf) false acc)
        as [[res pu] acc1].
      destruct res; cbn [se_post] in S.
      + exists acc1. split; [reflexivity|exact S].
      + destruct S as [M1 T1].
        set (acc2 := if pu then acc1 else acc_push_nv acc1 (lf_id lf) (lf_ver lf)).
        assert (ac_tuples acc2 = ac_tuples acc1) as E2 by (unfold acc2; destruct pu; reflexivity).
        destruct (IH acc2) as (acc' & E & T').
        { rewrite Forall_app in Hok. apply Hok. }
        { rewrite map_app in Hsorted. apply sorted_app_iff in Hsorted. apply Hsorted. }
        { rewrite E2. exact M1. }
        exists acc'. split; [destruct rest; exact E|].
        rewrite T', E2, T1, flat_map_app, filter_app, app_assoc. reflexivity.
      + contradiction.
  Qed.
  End Fwd.

  (** right to left: one border, its entries in reverse *)
  Section Rtl.
  Hypothesis Hre : re = EP_INF.
  Hypothesis Hsub : forall x al ale ar are acc,
    layer_get ls (p ++ [x]) <> None -> bytes al -> (ale = EP_INF -> al = []) ->
    (re = EP_INF -> are = EP_INF) -> mr mx (ac_tuples acc) = false ->
    exists acc', sub (p ++ [x]) (pb ++ bytes_of_slice x 8) al ale ar are acc = Some acc' /\
      ac_tuples acc' =
        trunc mx (ac_tuples acc ++ filter (Pabs (pb ++ bytes_of_slice x 8) al ale ar are) (rev (CS x))).

  Lemma scan_leaves_rtl_one lf acc :
    Forall (eok p pb ls CE) (leaf_entries lf) ->
    mr mx (ac_tuples acc) = false ->
    exists acc', scan_leaves fix2 sub mx true p pb l le r re [lf] acc = Some acc' /\
      ac_tuples acc' =
        trunc mx (ac_tuples acc ++ filter (Pabs pb l le r re) (rev (flat_map CE (leaf_entries lf)))).
  Proof.
    intros Hok Hmr. cbn [scan_leaves].
    assert (Forall (eok p pb ls (fun s => rev (CE s))) (map snd (rev (leaf_ranked lf)) ++ [])) as Hok'.
    { rewrite app_nil_r, map_rev. fold (leaf_entries lf). apply Forall_rev.
      eapply Forall_impl; [|exact Hok]. intros s (A & B & D). split; [exact A|]. split; [exact B|].
      intros kv Hkv. apply D. apply in_rev. exact Hkv. }
    pose proof (scan_entries_spec fix2 sub mx p pb l le r re (lf_id lf) (lf_ver lf) ls
                  (fun s => rev (CE s)) (fun x => rev (CS x))
                  (fun s v E => f_equal (@rev _) (cent_value s v E))
                  (fun s E => f_equal (@rev _) (cent_link s E)) Hl Hsub
                  (rev (leaf_ranked lf)) [] false acc Hok'
                  (fun H => False_ind _ (H Hre)) Hmr) as S.
    rewrite map_rev in S. fold (leaf_entries lf) in S.
    destruct (scan_entries fix2 sub mx p pb l le r re (lf_id lf) (lf_ver lf) (rev (leaf_ranked lf)) false acc)
      as [[res pu] acc1].
    destruct res; cbn [se_post] in S.
    - rewrite app_nil_r, (flat_map_rev CE) in S. exists acc1. split; [reflexivity|exact S].
    - destruct S as [M1 T1]. rewrite (flat_map_rev CE) in T1. eexists. split; [reflexivity|].
      assert (forall a : scan_acc, ac_tuples a = ac_tuples acc1 ->
                ac_tuples a = trunc mx (ac_tuples acc ++
                   filter (Pabs pb l le r re) (rev (flat_map CE (leaf_entries lf))))) as G.
      { intros a ->. rewrite <- T1. symmetry. apply trunc_id. exact M1. }
      destruct pu; apply G; reflexivity.
    - contradiction.
  Qed.
  End Rtl.
End Leaves.

(** ** 7. the descent *)
Lemma slice_app : forall n a b, (length a <= n)%nat ->
  slice_of_bytes (a ++ b) n = slice_of_bytes a n + slice_of_bytes b (n - length a).
Proof.
  induction n as [|n IH]; intros a b Hl.
  - rewrite !slice_0. reflexivity.
  - destruct a as [|x a]; cbn [app length].
    + rewrite slice_nil. reflexivity.
    + cbn [slice_of_bytes]. cbn [length] in Hl. rewrite IH by lia. cbn [Nat.sub]. lia.
Qed.

Lemma slice_firstn_ge n m : forall k, (m <= n)%nat -> slice_of_bytes (firstn n k) m = slice_of_bytes k m.
Proof.
  intros k H. rewrite <- (slice_firstn m (firstn n k)), firstn_firstn, Nat.min_l by exact H.
  apply slice_firstn.
Qed.

(** the top [m] bytes of the slice only depend on the first [m] bytes of the key *)
Lemma slice_shift l n m :
  bytes l -> (n <= length l)%nat -> (n <= 8)%nat -> (m <= n)%nat ->
  N.shiftr (slice_of_bytes l 8) (8 * (8 - N.of_nat m)) =
  N.shiftr (slice_of_bytes (firstn n l) 8) (8 * (8 - N.of_nat m)).
Proof.
  intros Hb Hn H8 Hm.
  rewrite <- (firstn_skipn n l) at 1.
  assert (length (firstn n l) = n) as Hlen by (apply firstn_length_le; exact Hn).
  rewrite slice_app by lia. rewrite Hlen.
  set (a := firstn n l) in *.
  assert (slice_of_bytes a 8 mod 256 ^ N.of_nat (8 - n) = 0) as Hpad.
  { rewrite <- Hlen. apply slice_pad. lia. }
  pose proof (slice_lt (8 - n) (skipn n l) (bytes_skipn n l Hb)) as He.
  set (A := slice_of_bytes a 8) in *. set (e := slice_of_bytes (skipn n l) (8 - n)) in *.
  set (d := 256 ^ N.of_nat (8 - n)) in *.
  assert (d <> 0) as Hd by (apply N.pow_nonzero; discriminate).
  rewrite !N.shiftr_div_pow2, N.pow_mul_r. change (2 ^ 8) with 256.
  assert (256 ^ (8 - N.of_nat m) = d * 256 ^ N.of_nat (n - m)) as ->.
  { unfold d. rewrite <- N.pow_add_r. f_equal. lia. }
  assert (256 ^ N.of_nat (n - m) <> 0) as Hc by (apply N.pow_nonzero; discriminate).
  rewrite <- !N.div_div by assumption. f_equal.
  pose proof (N.div_mod A d Hd) as DM. rewrite Hpad, N.add_0_r in DM.
  rewrite DM at 1. rewrite (N.mul_comm d), N.div_add_l by exact Hd.
  rewrite (N.div_small e d He). lia.
Qed.

Lemma descent_equiv l sep :
  bytes l -> kt_wf sep = true ->
  route_probe (scan_descent_tuple l false) sep =
  route_probe (tuple_of_key (firstn (N.to_nat (N.of_nat (length l) mod 256)) l)) sep.
Proof.
  intros Hb Hw. pose proof (wf_len_le sep Hw) as H9.
  set (nN := N.of_nat (length l) mod 256). set (n := N.to_nat nN).
  assert (nN <= N.of_nat (length l)) as HnN by (unfold nN; apply N.mod_le; discriminate).
  assert (n <= length l)%nat as Hn by lia.
  assert (length (firstn n l) = n) as Hlen by (apply firstn_length_le; exact Hn).
  unfold scan_descent_tuple. rewrite tuple_of_key_klen. unfold klen. rewrite Hlen.
  change (N.of_nat 8) with 8. fold nN.
  unfold route_probe. cbv zeta. cbn [ks kl].
  destruct (N.ltb_spec 8 (N.of_nat n)) as [H|H].
  - rewrite slice_firstn_ge by lia.
    replace (N.min (N.min nN (kl sep)) 8) with (N.min (N.min (8 + 1) (kl sep)) 8) by lia.
    replace (nN <? kl sep) with (8 + 1 <? kl sep) by lia. reflexivity.
  - replace (N.of_nat n) with nN by lia.
    set (m := N.min (N.min nN (kl sep)) 8).
    unfold memcmp_slice. cbv zeta.
    replace m with (N.of_nat (N.to_nat m)) by lia.
    rewrite (slice_shift l n (N.to_nat m) Hb Hn) by lia. reflexivity.
Qed.

Lemma route_ext keys d k :
  (forall s, In s keys -> route_probe d s = route_probe k s) -> forall i, route keys d i = route keys k i.
Proof.
  induction keys as [|s keys IH]; intros H i; [reflexivity|]. cbn [route].
  rewrite (H s (or_introl eq_refl)). destruct (route_probe k s); [reflexivity|].
  apply IH. intros s' Hs'. apply H. right. exact Hs'.
Qed.

Lemma bt_find_leaf_ext fuel : forall t lo hi d k,
  WF_bt lo hi t -> (forall s, kt_wf s = true -> route_probe d s = route_probe k s) ->
  bt_find_leaf fuel t d = bt_find_leaf fuel t k.
Proof.
  induction fuel as [|fu IH]; intros t lo hi d k Hwf Hext; [reflexivity|].
  destruct t as [lf|id ver keys ch]; [reflexivity|]. cbn [bt_find_leaf].
  apply WF_int_iff in Hwf. destruct Hwf as (_ & _ & _ & Hw & _ & Hc & _).
  rewrite (route_ext keys d k).
  2:{ intros s Hs. apply Hext. rewrite Forall_forall in Hw. apply Hw. exact Hs. }
  destruct (nth_error ch (route keys k 0)) as [c|] eqn:E; [|reflexivity].
  assert (route keys k 0 < length ch)%nat as Hi by (apply nth_error_Some; rewrite E; discriminate).
  apply (nth_error_nth _ _ dbt) in E. subst c. eapply IH; [apply Hc; exact Hi|exact Hext].
Qed.

(** the leaves to the left of the leaf found only hold smaller keys *)
Lemma bt_find_leaf_before fuel : forall t lo hi k,
  WF_bt lo hi t -> kt_wf k = true -> (bt_height t < fuel)%nat ->
  exists lf before after,
    bt_find_leaf fuel t k = Some lf /\ bt_leaves t = before ++ lf :: after /\
    (forall s, In s (flat_map leaf_entries before) -> canon_lt (sl_key s) k = true).
Proof.
  induction fuel as [|fu IH]; intros t lo hi k Hwf Hk Hh; [lia|].
  destruct t as [lf|id ver keys ch].
  - exists lf, [], []. split; [reflexivity|]. split; [reflexivity|intros s []].
  - apply WF_int_iff in Hwf. destruct Hwf as [Hn Hkids].
    destruct (kids_route lo hi keys ch k Hkids Hk) as (Hi & _ & _).
    destruct Hkids as (Hlen & Hs & Hw & Hsb & Hc & Hne).
    pose proof (route_is_pos keys k Hw Hk) as Hpos.
    set (i := route keys k 0) in *.
    cbn [bt_find_leaf]. fold i. rewrite (nth_error_child ch i Hi).
    destruct (IH (nth i ch dbt) _ _ k (Hc i Hi) Hk) as (lf & b' & a' & E & EL & Hb').
    { pose proof (height_child id ver keys ch i Hi). lia. }
    exists lf, (flat_map bt_leaves (firstn i ch) ++ b'), (a' ++ flat_map bt_leaves (skipn (S i) ch)).
    split; [exact E|]. split.
    + cbn [bt_leaves]. rewrite (flat_map_split bt_leaves dbt ch i Hi), EL, <- !app_assoc. reflexivity.
    + intros s Hin. rewrite flat_map_app in Hin. apply in_app_or in Hin.
      destruct Hin as [Hin|Hin]; [|apply Hb'; exact Hin].
      apply in_flat_map in Hin. destruct Hin as (lf0 & Hlf0 & Hs0).
      apply in_flat_map in Hlf0. destruct Hlf0 as (c & Hc0 & Hlf0).
      apply (In_nth _ _ dbt) in Hc0. destruct Hc0 as (j & Hj & Ej).
      rewrite firstn_length in Hj. rewrite nth_firstn in Ej.
      destruct (Nat.ltb_spec j i) as [Hji|Hji]; [|lia]. subst c.
      assert (In s (bt_elems (nth j ch dbt))) as Hel.
      { rewrite <- bt_leaves_elems. apply in_flat_map. exists lf0. split; assumption. }
      pose proof (WF_bt_keys_bnd _ _ _ (Hc j ltac:(lia))) as B. rewrite Forall_forall in B.
      destruct (B (sl_key s) (in_elems_in_keys _ _ Hel)) as [_ B2].
      destruct Hpos as (P1 & P2 & _). unfold hi_at in B2.
      destruct (Nat.ltb_spec j (length keys)) as [Hjk|Hjk]; [|lia]. cbn [hi_ok] in B2.
      eapply canon_lt_le_trans; [exact B2|apply P2; exact Hji].
Qed.

Lemma leaves_ids_NoDup t : NoDup (bt_ids t) -> NoDup (map lf_id (bt_leaves t)).
Proof.
  induction t as [lf|id ver keys ch IH] using bt_ind'; [exact (fun H => H)|].
  cbn [bt_ids bt_leaves]. intros H. apply NoDup_cons_iff in H. destruct H as [_ H].
  induction IH as [|c ch Hc _ IH2]; [constructor|].
  cbn [flat_map] in *. rewrite map_app. apply NoDup_app_inv in H. destruct H as (H1 & H2 & H3).
  apply NoDup_app_intro; [apply Hc; exact H1|apply IH2; exact H2|].
  intros x Hx1 Hx2. apply (H3 x).
  - apply in_map_iff in Hx1. destruct Hx1 as (lf & <- & Hlf). apply bt_leaves_ids_incl. exact Hlf.
  - apply in_map_iff in Hx2. destruct Hx2 as (lf & <- & Hlf).
    apply in_flat_map in Hlf. destruct Hlf as (c' & Hc' & Hlf). apply in_flat_map. exists c'.
    split; [exact Hc'|apply bt_leaves_ids_incl; exact Hlf].
Qed.

Lemma skip_to_split : forall before lf after,
  NoDup (map lf_id (before ++ lf :: after)) -> skip_to (lf_id lf) (before ++ lf :: after) = lf :: after.
Proof.
  induction before as [|b before IH]; intros lf after H; cbn [app skip_to].
  - rewrite N.eqb_refl. reflexivity.
  - cbn [app map] in H. apply NoDup_cons_iff in H. destruct H as [Hb H].
    destruct (N.eqb_spec (lf_id b) (lf_id lf)) as [E|E]; [|apply IH; exact H].
    exfalso. apply Hb. rewrite E. apply in_map. apply in_or_app. right. left. reflexivity.
Qed.

(** *** the descent of a right-to-left scan: (0xff..ff, 8) reaches the last border unless
    some separator is (0xff..ff, 9) *)
Definition dmax : ktuple := {| ks := 18446744073709551615; kl := 8 |}.
Definition maxsep : ktuple := {| ks := 18446744073709551615; kl := 9 |}.

Fixpoint bt_seps (t : bt) : list ktuple :=
  match t with
  | BLeaf _ => []
  | BInt _ _ keys ch => keys ++ flat_map bt_seps ch
  end.

Definition rtl_ok (ls : layers_t) : Prop :=
  forall p root, layer_get ls p = Some root -> ~ In maxsep (bt_seps root).

Lemma route_none keys k :
  (forall s, In s keys -> route_probe k s = false) -> forall i, route keys k i = (i + length keys)%nat.
Proof.
  induction keys as [|s keys IH]; intros H i; cbn [route length]; [lia|].
  rewrite (H s (or_introl eq_refl)). rewrite IH; [lia|]. intros s' Hs'. apply H. right. exact Hs'.
Qed.

Lemma dmax_probe s : kt_wf s = true -> s <> maxsep -> route_probe dmax s = false.
Proof.
  intros Hw Hne. rewrite (route_probe_site dmax s eq_refl Hw).
  apply kt_wf_spec in Hw. destruct Hw as (H9 & H64 & _).
  unfold canon_lt, dmax. cbn [ks kl].
  destruct (N.eq_dec (ks s) 18446744073709551615) as [E1|E1];
    destruct (N.eq_dec (kl s) 9) as [E2|E2]; try lia.
  exfalso. apply Hne. destruct s as [a b]. cbn [ks kl] in *. subst. reflexivity.
Qed.

Lemma bt_find_leaf_last fuel : forall t lo hi,
  WF_bt lo hi t -> ~ In maxsep (bt_seps t) -> (bt_height t < fuel)%nat ->
  exists lf before, bt_find_leaf fuel t dmax = Some lf /\ bt_leaves t = before ++ [lf].
Proof.
  induction fuel as [|fu IH]; intros t lo hi Hwf Hno Hh; [lia|].
  destruct t as [lf|id ver keys ch].
  - exists lf, []. split; reflexivity.
  - apply WF_int_iff in Hwf. destruct Hwf as (_ & Hlen & _ & Hw & _ & Hc & _).
    cbn [bt_seps] in Hno.
    assert (route keys dmax 0 = length keys) as Er.
    { rewrite route_none; [lia|]. intros s Hs. apply dmax_probe.
      - rewrite Forall_forall in Hw. apply Hw. exact Hs.
      - intros ->. apply Hno. apply in_or_app. left. exact Hs. }
    set (i := length keys) in *. assert (i < length ch)%nat as Hi by lia.
    cbn [bt_find_leaf]. rewrite Er, (nth_error_child ch i Hi).
    destruct (IH (nth i ch dbt) _ _ (Hc i Hi)) as (lf & b' & E & EL).
    { intros X. apply Hno. apply in_or_app. right. apply in_flat_map. exists (nth i ch dbt).
      split; [apply nth_In; exact Hi|exact X]. }
    { pose proof (height_child id ver keys ch i Hi). lia. }
    exists lf, (flat_map bt_leaves (firstn i ch) ++ b'). split; [exact E|].
    cbn [bt_leaves]. rewrite (flat_map_split bt_leaves dbt ch i Hi), EL.
    rewrite (skipn_all2 ch) by lia. cbn [flat_map]. rewrite app_nil_r, app_assoc. reflexivity.
Qed.

(** ** 8. one layer and the layers below it, left to right *)
Section Layer.
  Variable ctr : N.
  Variable ls : layers_t.
  Hypothesis W : WFL ctr ls None.

  Lemma eok_all p pb f root :
    layer_get ls p = Some root -> Forall (eok p pb ls (cent f ls p pb)) (bt_elems root).
  Proof.
    intros Eg. pose proof (wl_layer _ _ _ W) as Hwf. pose proof (wl_nz _ _ _ W) as Hnz.
    apply Forall_forall. intros s Hin.
    pose proof (layer_entry_ok ls Hwf p root s Eg Hin) as Hok. split; [exact Hok|]. split.
    - intros Hl. apply (wl_link _ _ _ W p root _ Eg); [|discriminate].
      rewrite <- (link_entry s Hok Hl). exact Hin.
    - intros kv Hkv. destruct Hok as [Hw Hlv]. unfold cent in Hkv.
      destruct (sl_lv s) as [|v|] eqn:Elv; [destruct Hkv| |].
      + destruct Hkv as [<-|[]]. exists (tbytes (sl_key s)). cbn [fst].
        split; [reflexivity|]. split; [apply bos_bytes|apply tuple_of_tbytes; assumption].
      + assert (In (abskv kv) (abs_layer f ls (p ++ [ks (sl_key s)]) (pb ++ bytes_of_slice (ks (sl_key s)) 8))) as Ha.
        { rewrite abs_clayer. apply in_map. exact Hkv. }
        destruct kv as [k v]. cbn [abskv fst snd] in Ha.
        apply (abs_layer_shape ls Hwf Hnz) in Ha. destruct Ha as (r0 & -> & Hb & Hne).
        exists (bytes_of_slice (ks (sl_key s)) 8 ++ r0). cbn [fst].
        split; [rewrite app_assoc; reflexivity|].
        split; [apply Forall_app; split; [apply bos_bytes|exact Hb]|].
        apply tuple_of_link; try assumption. apply Hne. destruct p; discriminate.
  Qed.

  Variable fix2 : bool.
  Variable mx : nat.

  Theorem scan_layer_fwd : forall fuel p pb l le r re acc,
    layer_get ls p <> None -> (length ls < fuel + length p)%nat ->
    bytes l -> (le = EP_INF -> l = []) -> mr mx (ac_tuples acc) = false ->
    exists acc',
      scan_layer fix2 fuel ls mx false p pb l le r re acc = Some acc' /\
      ac_tuples acc' =
        trunc mx (ac_tuples acc ++ filter (Pabs pb l le r re) (clayer fuel ls p pb)).
  Proof.
    induction fuel as [|f IH]; intros p pb l le r re acc Hex Hfuel Hl Hinf Hmr.
    { pose proof (layer_depth ctr ls None p W Hex). lia. }
    cbn [scan_layer]. rewrite clayer_S.
    destruct (layer_get ls p) as [root|] eqn:Eg; [|contradiction].
    destruct (wl_layer _ _ _ W p root Eg) as [Hwf Hnd].
    (* the descent *)
    set (l' := firstn (N.to_nat (N.of_nat (length l) mod 256)) l).
    assert (bytes l') as Hl' by (apply Forall_firstn; exact Hl).
    pose proof (tuple_of_key_wf l' Hl') as Hk'.
    assert (find_leaf root (scan_descent_tuple l false) = find_leaf root (tuple_of_key l')) as Efl.
    { unfold find_leaf. eapply bt_find_leaf_ext; [exact Hwf|]. intros s Hs. apply descent_equiv; assumption. }
    destruct (bt_find_leaf_before (S (bt_height root)) root None None (tuple_of_key l') Hwf Hk' ltac:(lia))
      as (lf & before & after & Ef & Elv & Hbefore).
    rewrite Efl. unfold find_leaf. rewrite Ef. rewrite Elv.
    rewrite skip_to_split by (rewrite <- Elv; apply leaves_ids_NoDup; exact Hnd).
    (* the elements *)
    pose proof (bt_leaves_elems root) as Eel. rewrite Elv, flat_map_app in Eel.
    pose proof (eok_all p pb f root Eg) as Hok. rewrite <- Eel in Hok.
    pose proof (WF_bt_sorted None None root Hwf) as Hsorted. unfold bt_keys in Hsorted.
    rewrite <- Eel, map_app in Hsorted.
    apply Forall_app in Hok. destruct Hok as [Hok1 Hok2].
    apply sorted_app_iff in Hsorted. destruct Hsorted as (_ & Hsorted2 & _).
    destruct (scan_leaves_spec fix2 (scan_layer fix2 f ls mx false) mx p pb l le r re ls f Hl) with
      (lvs := lf :: after) (acc := acc) as (acc' & Es & Ts); try assumption.
    { intros x al ale ar are acc0 Hex0 Hal Hinf0 _ Hmr0. apply IH; try assumption.
      rewrite app_length. cbn [length]. lia. }
    exists acc'. split; [exact Es|]. rewrite Ts, <- Eel, flat_map_app, filter_app.
    assert (filter (Pabs pb l le r re) (flat_map (cent f ls p pb) (flat_map leaf_entries before)) = []) as ->;
      [|reflexivity].
    apply filter_nil_iff. intros kv Hkv. apply in_flat_map in Hkv. destruct Hkv as (s & Hs & Hkv).
    rewrite Forall_forall in Hok1. destruct (Hok1 s Hs) as (_ & _ & Hsh).
    destruct (Hsh kv Hkv) as (rest & E & Hb & Ht).
    pose proof (Hbefore s Hs) as Hlt.
    assert (lex_lt rest l' = true) as H1.
    { rewrite (lex_tuple rest l' Hb Hl'), Ht, Hlt. reflexivity. }
    assert (lex_lt rest l = true) as H2.
    { eapply lex_lt_le_trans; [exact H1|]. unfold l'.
      rewrite <- (firstn_skipn (N.to_nat (N.of_nat (length l) mod 256)) l) at 1. apply lex_lt_prefix_le. }
    unfold Pabs. rewrite E, in_left_app. apply andb_false_iff. left.
    destruct le; cbn [in_left].
    - apply lex_lt_asym. exact H2.
    - rewrite H2. reflexivity.
    - rewrite (Hinf eq_refl), lex_lt_nil_r in H2. discriminate.
  Qed.

  (** *** right to left *)
  Lemma cent_nonempty f p pb root s :
    layer_get ls p = Some root -> In s (bt_elems root) -> (length ls < S f + length p)%nat ->
    (forall p' pb', layer_get ls p' <> None -> p' <> [] -> (length ls < f + length p')%nat ->
                    clayer f ls p' pb' <> []) ->
    cent f ls p pb s <> [].
  Proof.
    intros Eg Hin Hfuel IH. pose proof (eok_all p pb f root Eg) as Hok. rewrite Forall_forall in Hok.
    destruct (Hok s Hin) as ((_ & Hlv) & Hlink & _). unfold cent.
    destruct (sl_lv s); [contradiction|discriminate|].
    apply IH; [apply Hlink; reflexivity|destruct p; discriminate|]. rewrite app_length. cbn [length]. lia.
  Qed.

  Lemma clayer_nonempty : forall f p pb,
    layer_get ls p <> None -> p <> [] -> (length ls < f + length p)%nat -> clayer f ls p pb <> [].
  Proof.
    induction f as [|f IH]; intros p pb Hex Hp Hfuel.
    { pose proof (layer_depth ctr ls None p W Hex). lia. }
    rewrite clayer_S. destruct (layer_get ls p) as [root|] eqn:Eg; [|contradiction].
    destruct (exists_last Hp) as (q & x & ->).
    destruct (wl_parent _ _ _ W q x root Eg) as [Hne _].
    destruct (bt_elems root) as [|s rest] eqn:Eel; [contradiction|]. cbn [flat_map].
    intros X. apply app_eq_nil in X. destruct X as [X _]. revert X.
    apply (cent_nonempty f (q ++ [x]) pb root s Eg); [rewrite Eel; left; reflexivity|lia|exact IH].
  Qed.

  Theorem scan_layer_rtl : rtl_ok ls -> forall fuel p pb l le r acc,
    layer_get ls p <> None -> (length ls < fuel + length p)%nat ->
    bytes l -> (le = EP_INF -> l = []) -> mr 1 (ac_tuples acc) = false ->
    exists acc',
      scan_layer fix2 fuel ls 1 true p pb l le r EP_INF acc = Some acc' /\
      ac_tuples acc' =
        trunc 1 (ac_tuples acc ++ filter (Pabs pb l le r EP_INF) (rev (clayer fuel ls p pb))).
  Proof.
    intros Hrtl. induction fuel as [|f IH]; intros p pb l le r acc Hex Hfuel Hl Hinf Hmr.
    { pose proof (layer_depth ctr ls None p W Hex). lia. }
    cbn [scan_layer]. rewrite clayer_S.
    destruct (layer_get ls p) as [root|] eqn:Eg; [|contradiction].
    destruct (wl_layer _ _ _ W p root Eg) as [Hwf Hnd].
    change (scan_descent_tuple l true) with dmax.
    destruct (bt_find_leaf_last (S (bt_height root)) root None None Hwf (Hrtl p root Eg) ltac:(lia))
      as (lf & before & Ef & Elv).
    unfold find_leaf. rewrite Ef, Elv.
    rewrite skip_to_split by (rewrite <- Elv; apply leaves_ids_NoDup; exact Hnd).
    pose proof (bt_leaves_elems root) as Eel. rewrite Elv, flat_map_app in Eel.
    cbn [flat_map] in Eel. rewrite app_nil_r in Eel.
    pose proof (eok_all p pb f root Eg) as Hok. rewrite <- Eel in Hok.
    pose proof (WF_bt_sorted None None root Hwf) as Hsorted. unfold bt_keys in Hsorted.
    rewrite <- Eel, map_app in Hsorted.
    apply Forall_app in Hok. destruct Hok as [Hok1 Hok2].
    apply sorted_app_iff in Hsorted. destruct Hsorted as (_ & _ & Hcross).
    destruct (scan_leaves_rtl_one fix2 (scan_layer fix2 f ls 1 true) 1 p pb l le r EP_INF ls f Hl eq_refl)
      with (lf := lf) (acc := acc) as (acc' & Es & Ts); try assumption.
    { intros x al ale ar are acc0 Hex0 Hal Hinf0 Hare Hmr0.
      rewrite (Hare eq_refl).
      apply IH; try assumption.
      rewrite app_length. cbn [length]. lia. }
    exists acc'. split; [exact Es|]. rewrite Ts, <- Eel, flat_map_app, rev_app_distr, filter_app.
    set (Fl := filter (Pabs pb l le r EP_INF) (rev (flat_map (cent f ls p pb) (leaf_entries lf)))).
    set (Fb := filter (Pabs pb l le r EP_INF) (rev (flat_map (cent f ls p pb) (flat_map leaf_entries before)))).
    destruct Fl as [|x Fl'] eqn:EFl.
    - (* nothing in the last border: nothing before it either *)
      assert (Fb = []) as ->; [|reflexivity].
      unfold Fb. apply filter_nil_iff. intros kv Hkv. apply in_rev in Hkv.
      apply in_flat_map in Hkv. destruct Hkv as (sb & Hsb & Hkv).
      assert (In lf (bt_leaves root)) as Hlf by (rewrite Elv; apply in_or_app; right; left; reflexivity).
      destruct (bt_leaves_nonempty_root None None root Hwf lf Hlf) as [Hne|Hroot].
      2:{ exfalso. subst root. cbn [bt_leaves] in Elv. destruct before as [|b0 before]; [destruct Hsb|].
          apply (f_equal (@length leaf)) in Elv. rewrite app_length in Elv. cbn [length] in Elv. lia. }
      destruct (leaf_entries lf) as [|s0 more] eqn:Els; [contradiction|].
      assert (In s0 (bt_elems root)) as Hs0 by (rewrite <- Eel; apply in_or_app; right; left; reflexivity).
      pose proof (cent_nonempty f p pb root s0 Eg Hs0 Hfuel (clayer_nonempty f)) as Hc0.
      destruct (cent f ls p pb s0) as [|kv0 c0] eqn:Ec0; [contradiction|].
      assert (Pabs pb l le r EP_INF kv0 = false) as P0.
      { assert (filter (Pabs pb l le r EP_INF)
                       (rev (flat_map (cent f ls p pb) (s0 :: more))) = []) as X by exact EFl.
        rewrite filter_nil_iff in X. apply X. apply in_rev. rewrite rev_involutive.
        cbn [flat_map]. rewrite Ec0. left. reflexivity. }
      rewrite Forall_forall in Hok1, Hok2.
      destruct (Hok1 sb Hsb) as (_ & _ & Hshb). destruct (Hshb kv Hkv) as (restb & Eb & Bb & Tb).
      destruct (Hok2 s0 (or_introl eq_refl)) as (_ & _ & Hsh0).
      destruct (Hsh0 kv0) as (rest0 & E0 & B0 & T0); [rewrite Ec0; left; reflexivity|].
      assert (lex_lt restb rest0 = true) as Hlt.
      { rewrite (lex_tuple restb rest0 Bb B0), Tb, T0.
        rewrite (Hcross (sl_key sb) (sl_key s0)); [reflexivity|apply in_map; exact Hsb|left; reflexivity]. }
      unfold Pabs in P0 |- *. rewrite E0 in P0. rewrite Eb. cbn [in_right] in P0 |- *.
      rewrite andb_true_r in P0 |- *.
      eapply in_left_mono; [exact P0|]. rewrite lex_lt_app. exact Hlt.
    - rewrite app_assoc. symmetry. apply trunc_reached.
      unfold mr. cbn [Nat.eqb negb andb]. rewrite app_length. cbn [length].
      apply Nat.leb_le. lia.
  Qed.
End Layer.

(** ** 9. the public scan *)

(** Two facts about reachable stores that [WF_store] does not record (both are needed:
    see the counterexamples [scan_refines_needs_root_live] and [scan_refines_needs_rtl_ok]):
    - [root_live]: a border of layer 0 flagged deleted-and-root only occurs in the empty store
      (remove flags the emptied root border; the next insert into it clears the flag);
    - [rtl_ok]: no interior separator is (0xffffffffffffffff, 9) (a separator is the first key of
      the right half of a split border, which holds at least seven larger keys). *)
Definition root_live (tr : tree) : Prop :=
  forall root lf, layer_get (t_layers tr) [] = Some root -> In lf (bt_leaves root) ->
    get_deleted (lf_ver lf) && get_root (lf_ver lf) = true -> bt_elems root = [].

Lemma filter_rev {A} (P : A -> bool) l : filter P (rev l) = rev (filter P l).
Proof.
  induction l as [|a l IH]; [reflexivity|]. cbn [rev filter]. rewrite filter_app, IH. cbn [filter].
  destruct (P a); [reflexivity|apply app_nil_r].
Qed.

Lemma find_leaf_descent root l rtl :
  WF_bt None None root -> bytes l ->
  exists start, find_leaf root (scan_descent_tuple l rtl) = Some start /\ In start (bt_leaves root).
Proof.
  intros Hwf Hl. destruct rtl.
  - change (scan_descent_tuple l true) with dmax.
    destruct (find_leaf_spec root dmax Hwf eq_refl) as (lf & E & _ & Hin & _). exists lf. split; assumption.
  - set (l' := firstn (N.to_nat (N.of_nat (length l) mod 256)) l).
    assert (bytes l') as Hl' by (apply Forall_firstn; exact Hl).
    destruct (find_leaf_spec root (tuple_of_key l') Hwf (tuple_of_key_wf l' Hl')) as (lf & E & _ & Hin & _).
    exists lf. split; [|exact Hin]. rewrite <- E. unfold find_leaf.
    eapply bt_find_leaf_ext; [exact Hwf|]. intros s Hs. apply descent_equiv; assumption.
Qed.

Definition empty_acc : scan_acc := {| ac_tuples := []; ac_nv := [] |}.

Lemma spec_scan_list_nil a : spec_scan_list [] a = [].
Proof. unfold spec_scan_list. cbn [filter rev]. destruct (sa_rtl a); [reflexivity|]. destruct (Nat.eqb (sa_max a) 0); [reflexivity|apply firstn_nil]. Qed.

Theorem scan_refines ctr tr a :
  WF_store ctr tr -> t_null tr = false -> bytes (sa_l a) -> bytes (sa_r a) ->
  root_live tr -> (sa_rtl a = true -> rtl_ok (t_layers tr)) ->
  exists o, scan tr a = Some o /\
    if spec_scan_args_ok a
    then so_status o = St_OK /\
         map (fun kv => (fst kv, abs_value (snd kv))) (so_tuples o) = spec_scan_list (abs_tree tr) a
    else so_status o = St_ERR_BAD_USAGE /\ so_tuples o = [].
Proof.
  intros Wst Hnull Hbl _ Hlive Hrtl. unfold scan.
  destruct (scan_validate_spec a) as [V1 V2].
  destruct (spec_scan_args_ok a) eqn:Eok.
  2:{ rewrite (V2 eq_refl). exists (scan_fail St_ERR_BAD_USAGE). split; [reflexivity|split; reflexivity]. }
  rewrite (proj2 V1 eq_refl).
  unfold WF_store in Wst. rewrite Hnull in Wst. rename Wst into W.
  set (ls := t_layers tr) in *.
  set (a' := scan_normalise a).
  assert (sa_r a' = sa_r a /\ sa_re a' = sa_re a /\ sa_max a' = sa_max a /\ sa_rtl a' = sa_rtl a) as (Er & Ere & Emx & Ertl).
  { unfold a', scan_normalise. destruct (sa_le a); repeat split; reflexivity. }
  assert (bytes (sa_l a')) as Hbl'.
  { unfold a', scan_normalise. destruct (sa_le a); cbn [sa_l]; try exact Hbl. constructor. }
  assert (sa_le a' = EP_INF -> sa_l a' = []) as Hinf.
  { unfold a', scan_normalise. destruct (sa_le a) eqn:E; cbn [sa_l sa_le]; rewrite ?E; try discriminate.
    reflexivity. }
  assert (forall k, in_left (sa_l a') (sa_le a') k = in_left (sa_l a) (sa_le a) k) as Hleft.
  { intros k. unfold a', scan_normalise. destruct (sa_le a) eqn:E; cbn [sa_l sa_le]; rewrite ?E; reflexivity. }
  unfold scan_body. rewrite Hnull. fold ls.
  destruct (layer_get ls []) as [root|] eqn:Eg; [|exact (False_ind _ (wl_exc _ _ _ W Eg))].
  destruct (wl_layer _ _ _ W [] root Eg) as [Hwf Hnd].
  destruct (find_leaf_descent root (sa_l a') (sa_rtl a') Hwf Hbl') as (start & Efl & Hstart).
  rewrite Efl.
  assert (abs_tree tr = map abskv (clayer (S (length ls)) ls [] [])) as Eabs.
  { unfold abs_tree. rewrite Hnull. fold ls. apply abs_clayer. }
  destruct (get_deleted (lf_ver start) && get_root (lf_ver start)) eqn:Edel.
  { eexists. split; [reflexivity|]. cbn [so_status so_tuples map]. split; [reflexivity|].
    rewrite Eabs, clayer_S, Eg, (Hlive root start Eg Hstart Edel). cbn [flat_map map].
    symmetry. apply spec_scan_list_nil. }
  set (Q := fun k : key => in_left (sa_l a) (sa_le a) k && in_right (sa_r a) (sa_re a) k).
  assert (forall cl, filter (Pabs [] (sa_l a') (sa_le a') (sa_r a) (sa_re a)) cl =
                     filter (fun kv => Q (fst kv)) cl) as EQ.
  { intros cl. apply filter_ext. intros kv. unfold Pabs, Q. cbn [app]. rewrite Hleft. reflexivity. }
  assert (filter (fun kv : key * aval => in_left (sa_l a) (sa_le a) (fst kv) && in_right (sa_r a) (sa_re a) (fst kv))
                 (abs_tree tr) =
          map abskv (filter (fun kv => Q (fst kv)) (clayer (S (length ls)) ls [] []))) as Esel.
  { rewrite Eabs. apply (filter_map_abskv Q). }
  assert (mr (sa_max a) (ac_tuples empty_acc) = false) as Hmr0.
  { unfold mr. cbn [ac_tuples empty_acc length]. destruct (sa_max a); reflexivity. }
  rewrite Er, Ere, Emx, Ertl.
  destruct (sa_rtl a) eqn:Rtl.
  - (* right to left: the greatest entry *)
    assert (sa_re a = EP_INF /\ sa_max a = 1%nat) as [Ere1 Emx1].
    { unfold spec_scan_args_ok in Eok. rewrite Rtl in Eok.
      apply andb_true_iff in Eok. destruct Eok as [_ Eok]. cbn [andb] in Eok.
      apply negb_true_iff, orb_false_iff in Eok. destruct Eok as [E1 E2].
      apply negb_false_iff in E1, E2. split; [destruct (sa_re a); try discriminate; reflexivity|].
      apply Nat.eqb_eq. exact E2. }
    rewrite Ere1, Emx1 in *.
    destruct (scan_layer_rtl ctr ls W true (Hrtl eq_refl) (S (length ls)) [] [] (sa_l a') (sa_le a') (sa_r a)
                empty_acc) as (acc' & Es & Ts); try assumption.
    { rewrite Eg. discriminate. }
    { cbn [length]. lia. }
    fold empty_acc. rewrite Es. eexists. split; [reflexivity|]. cbn [so_status so_tuples].
    split; [reflexivity|]. change (fun kv : key * value => (fst kv, abs_value (snd kv))) with abskv.
    rewrite Ts. cbn [ac_tuples empty_acc app]. rewrite filter_rev, EQ.
    unfold spec_scan_list. rewrite Rtl, Ere1, Esel, <- map_rev.
    destruct (rev (filter (fun kv => Q (fst kv)) (clayer (S (length ls)) ls [] []))) as [|x xs]; reflexivity.
  - destruct (scan_layer_fwd ctr ls W true (sa_max a) (S (length ls)) [] [] (sa_l a') (sa_le a') (sa_r a) (sa_re a)
                empty_acc) as (acc' & Es & Ts); try assumption.
    { rewrite Eg. discriminate. }
    { cbn [length]. lia. }
    fold empty_acc. rewrite Es. eexists. split; [reflexivity|]. cbn [so_status so_tuples].
    split; [reflexivity|]. change (fun kv : key * value => (fst kv, abs_value (snd kv))) with abskv.
    rewrite Ts. cbn [ac_tuples empty_acc app]. rewrite EQ, trunc_map.
    unfold spec_scan_list. rewrite Rtl, Esel. reflexivity.
Qed.

(** the null storage *)
Theorem scan_null tr a :
  t_null tr = true ->
  exists o, scan tr a = Some o /\
    if spec_scan_args_ok a
    then so_status o = St_OK_ROOT_IS_NULL /\ so_tuples o = []
    else so_status o = St_ERR_BAD_USAGE /\ so_tuples o = [].
Proof.
  intros Hnull. unfold scan. destruct (scan_validate_spec a) as [V1 V2].
  destruct (spec_scan_args_ok a) eqn:Eok.
  - rewrite (proj2 V1 eq_refl). unfold scan_body. rewrite Hnull. eexists. split; [reflexivity|split; reflexivity].
  - rewrite (V2 eq_refl). eexists. split; [reflexivity|split; reflexivity].
Qed.

(** ** 10. the stages, as stated in the plan (all are instances of [scan_layer_fwd] / [scan_layer_rtl]) *)
Lemma scan_root_abs ctr ls fix2 mx l le r re :
  WFL ctr ls None -> bytes l -> (le = EP_INF -> l = []) ->
  exists acc', scan_layer fix2 (S (length ls)) ls mx false [] [] l le r re empty_acc = Some acc' /\
    map abskv (ac_tuples acc') =
      trunc mx (filter (fun kv => in_left l le (fst kv) && in_right r re (fst kv))
                       (abs_layer (S (length ls)) ls [] [])).
Proof.
  intros W Hl Hinf.
  destruct (scan_layer_fwd ctr ls W fix2 mx (S (length ls)) [] [] l le r re empty_acc) as (acc' & Es & Ts);
    try assumption.
  { exact (wl_exc _ _ _ W). }
  { cbn [length]. lia. }
  { unfold mr. cbn [ac_tuples empty_acc length]. destruct mx; reflexivity. }
  exists acc'. split; [exact Es|]. rewrite Ts. cbn [ac_tuples empty_acc app].
  rewrite trunc_map, abs_clayer. f_equal.
  rewrite (filter_map_abskv (fun k => in_left l le k && in_right r re k)). reflexivity.
Qed.

(** Stage 2: unlimited, both ends infinite: the whole store, in order *)
Theorem scan_full_partial ctr ls fix2 :
  WFL ctr ls None ->
  exists acc', scan_layer fix2 (S (length ls)) ls 0 false [] [] [] EP_INF [] EP_INF empty_acc = Some acc' /\
    map abskv (ac_tuples acc') = abs_layer (S (length ls)) ls [] [].
Proof.
  intros W. destruct (scan_root_abs ctr ls fix2 0 [] EP_INF [] EP_INF W) as (acc' & Es & Ts);
    [constructor|reflexivity|].
  exists acc'. split; [exact Es|]. rewrite Ts. unfold trunc. cbn [Nat.eqb in_left in_right andb].
  clear. induction (abs_layer (S (length ls)) ls [] []) as [|x m IH]; [reflexivity|].
  cbn [filter]. rewrite IH. reflexivity.
Qed.

(** Stage 3: a right endpoint *)
Theorem scan_right_partial ctr ls fix2 r re :
  WFL ctr ls None ->
  exists acc', scan_layer fix2 (S (length ls)) ls 0 false [] [] [] EP_INF r re empty_acc = Some acc' /\
    map abskv (ac_tuples acc') =
      filter (fun kv => in_right r re (fst kv)) (abs_layer (S (length ls)) ls [] []).
Proof.
  intros W. destruct (scan_root_abs ctr ls fix2 0 [] EP_INF r re W) as (acc' & Es & Ts);
    [constructor|reflexivity|].
  exists acc'. split; [exact Es|]. rewrite Ts. reflexivity.
Qed.

(** Stage 4: both endpoints; the left key may have any length (the descent truncates
    its length to 8 bits) *)
Theorem scan_left_partial ctr ls fix2 l le r re :
  WFL ctr ls None -> bytes l -> (le = EP_INF -> l = []) ->
  exists acc', scan_layer fix2 (S (length ls)) ls 0 false [] [] l le r re empty_acc = Some acc' /\
    map abskv (ac_tuples acc') =
      filter (fun kv => in_left l le (fst kv) && in_right r re (fst kv))
             (abs_layer (S (length ls)) ls [] []).
Proof.
  intros W Hl Hinf. destruct (scan_root_abs ctr ls fix2 0 l le r re W Hl Hinf) as (acc' & Es & Ts).
  exists acc'. split; [exact Es|]. rewrite Ts. reflexivity.
Qed.

(** Stage 5 (and the truncation of stage 6): any layer, any accumulator, any [max_size] *)
Theorem scan_layers_partial ctr ls fix2 mx fuel p pb l le r re acc :
  WFL ctr ls None -> layer_get ls p <> None -> (length ls < fuel + length p)%nat ->
  bytes l -> (le = EP_INF -> l = []) -> max_reached mx acc = false ->
  exists acc',
    scan_layer fix2 fuel ls mx false p pb l le r re acc = Some acc' /\
    ac_tuples acc' =
      trunc mx (ac_tuples acc ++
                filter (fun kv => in_left (pb ++ l) le (fst kv) && in_right r re (fst kv))
                       (clayer fuel ls p pb)) /\
    abs_layer fuel ls p pb = map abskv (clayer fuel ls p pb).
Proof.
  intros W Hex Hfuel Hl Hinf Hmr.
  destruct (scan_layer_fwd ctr ls W fix2 mx fuel p pb l le r re acc Hex Hfuel Hl Hinf Hmr) as (acc' & Es & Ts).
  exists acc'. split; [exact Es|]. split; [exact Ts|apply abs_clayer].
Qed.

(** Stage 6, right to left: the greatest entry of any layer *)
Theorem scan_rtl_partial ctr ls fix2 fuel p pb l le r acc :
  WFL ctr ls None -> rtl_ok ls -> layer_get ls p <> None -> (length ls < fuel + length p)%nat ->
  bytes l -> (le = EP_INF -> l = []) -> ac_tuples acc = [] ->
  exists acc',
    scan_layer fix2 fuel ls 1 true p pb l le r EP_INF acc = Some acc' /\
    ac_tuples acc' =
      match rev (filter (fun kv => in_left (pb ++ l) le (fst kv)) (clayer fuel ls p pb)) with
      | [] => []
      | x :: _ => [x]
      end.
Proof.
  intros W Hrtl Hex Hfuel Hl Hinf Hacc.
  destruct (scan_layer_rtl ctr ls W fix2 Hrtl fuel p pb l le r acc Hex Hfuel Hl Hinf) as (acc' & Es & Ts).
  { rewrite Hacc. reflexivity. }
  exists acc'. split; [exact Es|]. rewrite Ts, Hacc. cbn [app]. rewrite filter_rev.
  assert (filter (Pabs pb l le r EP_INF) (clayer fuel ls p pb) =
          filter (fun kv => in_left (pb ++ l) le (fst kv)) (clayer fuel ls p pb)) as ->.
  { apply filter_ext. intros kv. unfold Pabs. cbn [in_right]. apply andb_true_r. }
  destruct (rev (filter (fun kv => in_left (pb ++ l) le (fst kv)) (clayer fuel ls p pb))); reflexivity.
Qed.

(** ** 11. decidable forms of the two extra hypotheses *)
Definition rtl_okb (ls : layers_t) : bool :=
  forallb (fun pr => negb (existsb (kt_eq maxsep) (bt_seps (snd pr)))) ls.

Lemma rtl_okb_sound ls : rtl_okb ls = true -> rtl_ok ls.
Proof.
  intros H p root Eg Hin. apply layer_get_in in Eg. unfold rtl_okb in H. rewrite forallb_forall in H.
  specialize (H _ Eg). cbn [snd] in H. apply negb_true_iff in H.
  assert (existsb (kt_eq maxsep) (bt_seps root) = true) as X; [|congruence].
  apply existsb_exists. exists maxsep. split; [exact Hin|reflexivity].
Qed.

Definition root_liveb (tr : tree) : bool :=
  match layer_get (t_layers tr) [] with
  | None => true
  | Some root =>
    forallb (fun lf => negb (get_deleted (lf_ver lf) && get_root (lf_ver lf))) (bt_leaves root) ||
    match bt_elems root with [] => true | _ => false end
  end.

Lemma root_liveb_sound tr : root_liveb tr = true -> root_live tr.
Proof.
  unfold root_liveb, root_live. intros H root lf Eg Hin Hdel. rewrite Eg in H.
  apply orb_true_iff in H. destruct H as [H|H].
  - rewrite forallb_forall in H. specialize (H lf Hin). rewrite Hdel in H. discriminate.
  - destruct (bt_elems root); [reflexivity|discriminate].
Qed.

(** ** 12. [rtl_ok] and [root_live] are invariants: they hold on the null and the empty store and
    are preserved by put and remove ([scan_inv]); hence [scan_refines_inv] applies to every
    store reached by puts and removes *)

(** *** separators *)
Definition nmax (s : ktuple) : Prop := s <> maxsep.
Definition seps_good (t : bt) : Prop := Forall nmax (bt_seps t).
Definition seps_ok (ls : layers_t) : Prop := Forall (fun pr => seps_good (snd pr)) ls.

Lemma seps_ok_rtl ls : seps_ok ls -> rtl_ok ls.
Proof.
  intros H p root Eg Hin. apply layer_get_in in Eg. unfold seps_ok in H. rewrite Forall_forall in H.
  specialize (H _ Eg). cbn [snd] in H. unfold seps_good in H. rewrite Forall_forall in H.
  exact (H _ Hin eq_refl).
Qed.

Lemma seps_good_int id ver keys ch :
  seps_good (BInt id ver keys ch) <-> Forall nmax keys /\ Forall seps_good ch.
Proof. unfold seps_good. cbn [bt_seps]. rewrite Forall_app, Forall_flat_map. reflexivity. Qed.

Lemma seps_good_leaf l : seps_good (BLeaf l).
Proof. constructor. Qed.

Lemma maxsep_max k : kt_wf k = true -> canon_lt maxsep k = false.
Proof.
  intros H. apply kt_wf_spec in H. destruct H as (H1 & H2 & _). unfold canon_lt, maxsep. cbn [ks kl]. lia.
Qed.

Definition ires_good (r : insres) : Prop :=
  match r with
  | IOne t => seps_good t
  | ISplit l s r => nmax s /\ seps_good l /\ seps_good r
  end.

Lemma int_absorb_good id ver keys ch i l sep r nid :
  Forall nmax keys -> Forall seps_good ch -> nmax sep -> seps_good l -> seps_good r ->
  ires_good (int_absorb id ver keys ch i l sep r nid).
Proof.
  intros Hk Hc Hs Hl Hr. unfold int_absorb.
  assert (Forall seps_good (set_nth i l ch)) as Hc1 by (apply Forall_set_nth; assumption).
  set (ch1 := set_nth i l ch) in *.
  destruct (Nat.eqb_spec (length keys) 15) as [E|E].
  - assert (nmax (nth 7 keys {| ks := 0; kl := 0 |})) as Hp.
    { rewrite Forall_forall in Hk. apply Hk. apply nth_In. lia. }
    destruct (iins_probe sep (nth 7 keys {| ks := 0; kl := 0 |})); unfold int_insert; cbv beta iota zeta;
      cbn [ires_good]; (split; [exact Hp|]); split; apply seps_good_int; split;
      repeat first [assumption | apply Forall_insert_at | apply LeafProofs.Forall_firstn | apply LeafProofs.Forall_skipn].
  - unfold int_insert. cbv beta iota zeta. cbn [ires_good]. apply seps_good_int.
    split; apply Forall_insert_at; assumption.
Qed.

Lemma split_sep_nmax R sep :
  WF_leaf R -> (7 <= length (leaf_entries R))%nat -> hd_error (leaf_keys R) = Some sep -> nmax sep.
Proof.
  intros (_ & _ & Hok & Hsorted) H7 Hhd E. subst sep.
  unfold leaf_keys in *. destruct (leaf_entries R) as [|s0 [|s1 rest]]; cbn [length] in H7; try lia.
  cbn [map hd_error] in Hhd, Hsorted. injection Hhd as Hs0.
  apply sorted_cons_iff in Hsorted. destruct Hsorted as [_ Hlt]. rewrite Forall_forall in Hlt.
  specialize (Hlt (sl_key s1) (or_introl eq_refl)). rewrite Hs0 in Hlt.
  rewrite Forall_forall in Hok. destruct (Hok s1 (or_intror (or_introl eq_refl))) as [Hw _].
  rewrite (maxsep_max _ Hw) in Hlt. discriminate.
Qed.

Lemma bt_put_good k lv fuel : forall t lo hi ctr res info ctr',
  WF_bt lo hi t -> kt_wf k = true -> in_bnd lo hi k -> ~ In k (bt_keys t) ->
  entry_ok {| sl_key := k; sl_lv := lv |} -> (bt_height t < fuel)%nat ->
  bt_put fuel t k lv ctr = Some (res, info, ctr') -> seps_good t -> ires_good res.
Proof.
  induction fuel as [|f IH]; intros t lo hi ctr res info ctr' Hwf Hk Hbk Hnin Hok Hh E Hg; [lia|].
  destruct t as [l|id ver keys ch]; cbn [bt_put] in *.
  - apply WF_leaf_iff in Hwf. destruct Hwf as [Hl Hbl].
    change (bt_keys (BLeaf l)) with (leaf_keys l) in Hnin.
    destruct (N.eq_dec (leaf_cnk l) 15) as [E15|N15].
    + destruct (leaf_put_split l k lv ctr Hl E15 Hk Hnin Hok) as (L & sep & R & info0 & El & Hpost).
      rewrite El in E. injection E as <- <- <-.
      destruct Hpost as (_ & _ & HwR & _ & _ & _ & H7 & _ & Hhd & _).
      cbn [ires_good]. split; [eapply split_sep_nmax; eassumption|]. split; apply seps_good_leaf.
    + destruct (leaf_put_nosplit l k lv ctr Hl N15 Hk Hnin Hok) as (l' & info0 & El & _).
      rewrite El in E. injection E as <- <- <-. apply seps_good_leaf.
  - apply WF_int_iff in Hwf. destruct Hwf as [Hn Hkids].
    destruct (kids_route lo hi keys ch k Hkids Hk) as (Hi & Hbi & _).
    specialize (Hbi Hbk). set (i := route keys k 0) in *.
    pose proof Hkids as (Hlen & Hs & Hw & Hsb & Hc & Hne).
    rewrite (nth_error_child ch i Hi) in *.
    set (c := nth i ch dbt) in *.
    assert (~ In k (bt_keys c)) as Hninc.
    { intros X. apply Hnin. eapply child_keys_incl; eassumption. }
    assert (bt_height c < f)%nat as Hhc.
    { pose proof (height_child id ver keys ch i Hi) as H. fold c in H. lia. }
    apply seps_good_int in Hg. destruct Hg as [Hgk Hgc].
    assert (seps_good c) as Hgci.
    { rewrite Forall_forall in Hgc. apply Hgc. apply nth_In. exact Hi. }
    destruct (bt_put f c k lv ctr) as [[[resc infoc] ctrc]|] eqn:Ec; [|discriminate].
    pose proof (IH c _ _ ctr resc infoc ctrc (Hc i Hi) Hk Hbi Hninc Hok Hhc Ec Hgci) as Hr.
    destruct resc as [c'|l sep r].
    + injection E as <- <- <-. cbn [ires_good] in *. apply seps_good_int.
      split; [exact Hgk|apply Forall_set_nth; assumption].
    + injection E as <- <- <-. cbn [ires_good] in Hr. destruct Hr as (H1 & H2 & H3).
      apply int_absorb_good; assumption.
Qed.

Lemma layer_put_good root k lv ctr root' info ctr' :
  WF_layer root -> kt_wf k = true -> ~ In k (bt_keys root) ->
  entry_ok {| sl_key := k; sl_lv := lv |} ->
  layer_put root k lv ctr = Some (root', info, ctr') -> seps_good root -> seps_good root'.
Proof.
  intros [Hwf _] Hk Hnin Hok E Hg. unfold layer_put in E.
  destruct (bt_put (S (bt_height root)) root k lv ctr) as [[[res info0] c0]|] eqn:Eb; [|discriminate].
  pose proof (bt_put_good k lv (S (bt_height root)) root None None ctr res info0 c0 Hwf Hk
                (conj I I) Hnin Hok ltac:(lia) Eb Hg) as Hr.
  destruct res as [t|l sep r]; injection E as <- <- <-.
  - exact Hr.
  - cbn [ires_good] in Hr. destruct Hr as (H1 & H2 & H3). apply seps_good_int.
    split; [constructor; [exact H1|constructor]|]. constructor; [exact H2|]. constructor; [exact H3|constructor].
Qed.

Lemma bt_update_leaf_seps k f fuel : forall t, bt_seps (bt_update_leaf fuel t k f) = bt_seps t.
Proof.
  induction fuel as [|fu IH]; intros t; [reflexivity|].
  destruct t as [l|id ver keys ch]; cbn [bt_update_leaf]; [reflexivity|].
  cbv zeta. destruct (nth_error ch (route keys k 0)) as [c|] eqn:En; [|reflexivity].
  assert (route keys k 0 < length ch)%nat as Hi by (apply nth_error_Some; congruence).
  cbn [bt_seps]. f_equal. rewrite flat_map_set_nth by exact Hi.
  rewrite (flat_map_split bt_seps dbt ch _ Hi). rewrite (nth_error_nth ch _ dbt En), IH. reflexivity.
Qed.

Lemma bt_set_ver_seps t v : bt_seps (bt_set_ver t v) = bt_seps t.
Proof. destruct t; reflexivity. Qed.

Lemma bt_delete_good k fuel : forall t t' ret,
  bt_delete fuel t k = Some (DKept t', ret) -> seps_good t -> seps_good t'.
Proof.
  induction fuel as [|fu IH]; intros t t' ret E Hg; [discriminate|].
  destruct t as [l|id ver keys ch]; cbn [bt_delete] in E.
  - destruct (leaf_lookup l k) as [[[rank slot] s]|]; [|discriminate].
    cbv zeta in E. destruct (leaf_cnk l =? 1)%N; [discriminate|]. injection E as <- <-. apply seps_good_leaf.
  - cbv zeta in E. set (i := route keys k 0) in *.
    apply seps_good_int in Hg. destruct Hg as [Hgk Hgc].
    destruct (nth_error ch i) as [c|] eqn:En; [|discriminate].
    assert (seps_good c) as Hgci.
    { rewrite Forall_forall in Hgc. apply Hgc. eapply nth_error_In. exact En. }
    destruct (bt_delete fu c k) as [[[c'|] ret0]|] eqn:Ed; [| |discriminate].
    + injection E as <- <-. apply seps_good_int. split; [exact Hgk|].
      apply Forall_set_nth; [exact Hgc|]. eapply IH; eassumption.
    + destruct (Nat.eqb (length keys) 1).
      * destruct (nth_error ch (1 - i)) as [sib|] eqn:Es; [|discriminate]. injection E as <- <-.
        rewrite Forall_forall in Hgc. apply Hgc. eapply nth_error_In. exact Es.
      * injection E as <- <-. apply seps_good_int. unfold remove_nth. split.
        -- destruct (Nat.eqb i 0); apply Forall_remove_at; exact Hgk.
        -- apply Forall_remove_at. exact Hgc.
Qed.

(** layers *)
Lemma seps_ok_get ls p t : seps_ok ls -> layer_get ls p = Some t -> seps_good t.
Proof.
  intros H E. apply layer_get_in in E. unfold seps_ok in H. rewrite Forall_forall in H. exact (H _ E).
Qed.

Lemma seps_ok_set ls p t : seps_ok ls -> seps_good t -> seps_ok (layer_set ls p t).
Proof.
  intros H Ht. induction ls as [|[q u] ls IH]; cbn [layer_set].
  - constructor; [exact Ht|constructor].
  - apply Forall_cons_iff in H. destruct H as [H1 H2]. destruct (prefix_eqb q p).
    + constructor; [exact Ht|exact H2].
    + constructor; [exact H1|apply IH; exact H2].
Qed.

Lemma seps_ok_del ls p : seps_ok ls -> seps_ok (layer_del ls p).
Proof.
  intros H. induction ls as [|[q u] ls IH]; cbn [layer_del]; [constructor|].
  apply Forall_cons_iff in H. destruct H as [H1 H2]. destruct (prefix_eqb q p); [exact H2|].
  constructor; [exact H1|apply IH; exact H2].
Qed.

Lemma new_chain_seps v : forall ts p ctr ls, seps_ok ls -> seps_ok (fst (new_chain p ts v ctr ls)).
Proof.
  induction ts as [|t rest IH]; intros p ctr ls H; [exact H|]. cbn [new_chain].
  destruct rest as [|t2 r].
  - cbn [fst]. apply seps_ok_set; [exact H|apply seps_good_leaf].
  - apply IH. apply seps_ok_set; [exact H|apply seps_good_leaf].
Qed.

Lemma put_walk_seps v unique : forall ts p ctr ls ls' o ctr',
  WFL ctr ls None -> vp ts -> layer_get ls p <> None ->
  put_walk ts p ls v unique ctr = Some (ls', o, ctr') -> seps_ok ls -> seps_ok ls'.
Proof.
  induction ts as [|t rest IH]; intros p ctr ls ls' o ctr' W V Hp E Hs; [contradiction|].
  cbn [vp] in V. destruct V as [Hw V].
  pose proof (wl_layer _ _ _ W) as Hwf.
  destruct (layer_get ls p) as [root|] eqn:Eg; [|contradiction]. clear Hp.
  destruct (walk_step ctr ls None p root t W Eg Hw) as (l & Ef & Hl).
  pose proof (seps_ok_get ls p root Hs Eg) as Hgr.
  cbn [put_walk] in E. rewrite Eg, Ef in E.
  destruct (leaf_lookup l t) as [[[rk slot] s]|] eqn:El.
  - destruct Hl as (Hin & Hst & He & Hoks). destruct rest as [|t2 r].
    + destruct unique.
      * injection E as <- _ _. exact Hs.
      * injection E as <- _ _. apply seps_ok_set; [exact Hs|].
        unfold seps_good, update_leaf. rewrite bt_update_leaf_seps. exact Hgr.
    + destruct V as [H9 V]. pose proof Hoks as [_ Hok]. rewrite Hst in Hok.
      destruct (sl_lv s) as [|ov|] eqn:Elv; [contradiction|lia|].
      assert (layer_get ls (p ++ [ks t]) <> None) as Hsub.
      { apply (wl_link _ _ _ W p root (ks t) Eg); [|discriminate].
        rewrite (mk9_ks t H9), <- Hst, <- Elv, mk_eta. exact Hin. }
      exact (IH (p ++ [ks t]) ctr ls ls' o ctr' W V Hsub E Hs).
  - destruct Hl as [He Hnin].
    set (lv := match rest with [] => LValue v | _ :: _ => LLink end) in *.
    assert (entry_ok {| sl_key := t; sl_lv := lv |}) as Hokn.
    { split; [exact Hw|]. unfold lv. cbn [sl_lv sl_key]. destruct rest; [exact V|apply V]. }
    destruct (layer_put root t lv ctr) as [[[root' info] ctr1]|] eqn:Eput; [|discriminate].
    pose proof (layer_put_good root t lv ctr root' info ctr1 (Hwf p root Eg) Hw Hnin Hokn Eput Hgr) as Hg'.
    destruct (new_chain (p ++ [ks t]) rest v ctr1 (layer_set ls p root')) as [ls2 ctr2] eqn:Enc.
    injection E as <- _ _.
    change ls2 with (fst (ls2, ctr2)). rewrite <- Enc. apply new_chain_seps. apply seps_ok_set; assumption.
Qed.

Definition scan_seps (tr : tree) : Prop := seps_ok (t_layers tr).

Theorem put_seps ctr tr k v unique tr' po ctr' :
  WF_store ctr tr -> bytes k -> put tr k v unique ctr = Some (tr', po, ctr') ->
  scan_seps tr -> scan_seps tr'.
Proof.
  unfold WF_store, put, scan_seps. intros W Hb E Hs. destruct (t_null tr).
  - destruct (new_chain [] (path_of_key k) v ctr []) as [ls c] eqn:Enc. injection E as <- _ _.
    cbn [t_layers]. change ls with (fst (ls, c)). rewrite <- Enc. apply new_chain_seps. constructor.
  - destruct (put_walk (path_of_key k) [] (t_layers tr) v unique ctr) as [[[ls o] c]|] eqn:Ew; [|discriminate].
    injection E as <- _ _. cbn [t_layers].
    eapply put_walk_seps; [exact W|apply (path_vp k Hb)|exact (wl_exc _ _ _ W)|exact Ew|exact Hs].
Qed.

(** remove: purely structural *)
Lemma layer_remove_seps ls p k ls' gone ret :
  layer_remove ls p k = Some (ls', gone, ret) -> seps_ok ls -> seps_ok ls'.
Proof.
  unfold layer_remove. intros E Hs.
  destruct (layer_get ls p) as [root|] eqn:Eg; [|discriminate].
  pose proof (seps_ok_get ls p root Hs Eg) as Hgr.
  destruct (bt_delete (S (bt_height root)) root k) as [[[root'|] ret0]|] eqn:Ed; [| |discriminate].
  - injection E as <- _ _. apply seps_ok_set; [exact Hs|].
    pose proof (bt_delete_good k _ root root' ret0 Ed Hgr) as Hg'.
    destruct (N.eqb (bt_id root') (bt_id root)); [exact Hg'|].
    unfold seps_good, set_root_flag. rewrite bt_set_ver_seps. exact Hg'.
  - destruct p as [|x p].
    + destruct root as [l|]; [|discriminate].
      destruct (leaf_lookup l k) as [[[rank slot] s]|]; [|discriminate].
      injection E as <- _ _. apply seps_ok_set; [exact Hs|apply seps_good_leaf].
    + injection E as <- _ _. apply seps_ok_del. exact Hs.
Qed.

Lemma cascade_seps : forall fuel ls p ret ls' ret',
  cascade fuel ls p ret = Some (ls', ret') -> seps_ok ls -> seps_ok ls'.
Proof.
  induction fuel as [|f IH]; intros ls p ret ls' ret' E Hs; [discriminate|].
  cbn [cascade] in E. destruct (rev p) as [|s q]; [injection E as <- _; exact Hs|].
  destruct (layer_remove ls (remove_last p) {| ks := s; kl := 9 |}) as [[[ls1 gone] ret1]|] eqn:El; [|discriminate].
  pose proof (layer_remove_seps _ _ _ _ _ _ El Hs) as Hs1.
  destruct gone; [eapply IH; eassumption|]. injection E as <- _. exact Hs1.
Qed.

Lemma remove_walk_seps : forall ts p ls ls' o,
  remove_walk ts p ls = Some (ls', o) -> seps_ok ls -> seps_ok ls'.
Proof.
  induction ts as [|t rest IH]; intros p ls ls' o E Hs; [discriminate|].
  cbn [remove_walk] in E.
  destruct (layer_get ls p) as [root|]; [|discriminate].
  destruct (find_leaf root t) as [l|]; [|discriminate].
  destruct (leaf_lookup l t) as [[[rk slot] s]|]; [|injection E as <- _; exact Hs].
  destruct rest as [|t2 r]; [|eapply IH; eassumption].
  destruct (layer_remove ls p t) as [[[ls1 gone] ret1]|] eqn:El; [|discriminate].
  pose proof (layer_remove_seps _ _ _ _ _ _ El Hs) as Hs1.
  destruct gone.
  - destruct (cascade (S (length p)) ls1 p ret1) as [[ls2 ret2]|] eqn:Ec; [|discriminate].
    injection E as <- _. eapply cascade_seps; eassumption.
  - injection E as <- _. exact Hs1.
Qed.

Theorem remove_seps tr k tr' ro : remove tr k = Some (tr', ro) -> scan_seps tr -> scan_seps tr'.
Proof.
  unfold remove, scan_seps. intros E Hs. destruct (t_null tr); [injection E as <- _; exact Hs|].
  destruct (remove_walk (path_of_key k) [] (t_layers tr)) as [[ls o]|] eqn:Ew; [|discriminate].
  injection E as <- _. cbn [t_layers]. eapply remove_walk_seps; eassumption.
Qed.

(** *** the deleted flag *)
Definition live_ok (ls : layers_t) : Prop :=
  forall root lf, layer_get ls [] = Some root -> In lf (bt_leaves root) ->
    get_deleted (lf_ver lf) = true -> bt_elems root = [].

Lemma live_ok_root_live tr : live_ok (t_layers tr) -> root_live tr.
Proof.
  intros H root lf Eg Hin Hd. apply andb_true_iff in Hd. destruct Hd as [Hd _]. exact (H root lf Eg Hin Hd).
Qed.

Lemma live_ok_same ls ls' : layer_get ls' [] = layer_get ls [] -> live_ok ls -> live_ok ls'.
Proof. intros E H root lf Eg. rewrite E in Eg. exact (H root lf Eg). Qed.

Lemma gd_unlock w : get_deleted (unlock w) = get_deleted w.
Proof. apply (unlock_getters w). Qed.
Lemma gd_locked w b : get_deleted (set_locked w b) = get_deleted w.
Proof. apply (set_locked_frame w b). Qed.
Lemma gd_insdel w b : get_deleted (set_inserting_deleting w b) = get_deleted w.
Proof. vframe. Qed.
Lemma gd_splitting w b : get_deleted (set_splitting w b) = get_deleted w.
Proof. vframe. Qed.
Lemma gd_root w b : get_deleted (set_root w b) = get_deleted w.
Proof. vframe. Qed.

(** every border written by an insert has the flag of the old border, or [false] if that was empty *)
Lemma leaf_put_deleted l k lv nid r0 info :
  leaf_put l k lv nid = (r0, info) ->
  forall l', In l' (ires_leaves r0) ->
    get_deleted (lf_ver l') = if (leaf_cnk l =? 0)%N then false else get_deleted (lf_ver l).
Proof.
  unfold leaf_put.
  set (v1 := if (leaf_cnk l =? 0)%N
             then set_deleted (set_inserting_deleting (v_lock (lf_ver l)) true) false
             else set_inserting_deleting (v_lock (lf_ver l)) true).
  assert (get_deleted v1 = if (leaf_cnk l =? 0)%N then false else get_deleted (lf_ver l)) as D1.
  { unfold v1, v_lock. destruct (leaf_cnk l =? 0)%N.
    - apply get_deleted_set_deleted.
    - rewrite gd_insdel, gd_locked. reflexivity. }
  cbv zeta. fold v1.
  destruct (N.eqb_spec (leaf_cnk l) 15) as [E15|N15].
  - set (v2 := set_splitting v1 true) in *.
    assert (get_deleted (unlock (set_root v2 false)) =
            if (leaf_cnk l =? 0)%N then false else get_deleted (lf_ver l)) as D2.
    { rewrite gd_unlock, gd_root. unfold v2. rewrite gd_splitting. exact D1. }
    pose proof (split_moves_id_ver 7 0 (leaf_with l v2 (lf_perm l) (lf_slots l)) fresh_slots) as [M1 M2].
    destruct (split_moves 7 0 (leaf_with l v2 (lf_perm l) (lf_slots l)) fresh_slots) as [old ns].
    cbn [fst leaf_with lf_id lf_ver] in M1, M2.
    destruct (bsplit_left _ _ _ _); intros E; injection E as <- _;
      cbn [ires_leaves bt_leaves app]; intros l' [<-|[<-|[]]];
      cbn [leaf_with leaf_insert_at lf_id lf_ver]; rewrite ?M2; exact D2.
  - intros E. injection E as <- _. cbn [ires_leaves bt_leaves]. intros l' [<-|[]].
    cbn [leaf_with leaf_insert_at lf_id lf_ver]. rewrite gd_unlock. exact D1.
Qed.

(** an interior node has elements *)
Lemma empty_root_leaf lo hi root : WF_bt lo hi root -> bt_elems root = [] -> exists l, root = BLeaf l.
Proof.
  intros Hwf He. destruct root as [l|id ver keys ch]; [exists l; reflexivity|].
  apply WF_int_iff in Hwf. destruct Hwf as [_ Hkids].
  exfalso. exact (kids_nonempty _ _ _ _ Hkids He).
Qed.

Lemma leaf_versions_in t lf :
  In lf (bt_leaves t) -> In (lf_id lf, lf_ver lf) (leaf_versions t).
Proof. intros H. unfold leaf_versions. apply (in_map (fun l => (lf_id l, lf_ver l))). exact H. Qed.

Lemma leaf_versions_inv t i w :
  In (i, w) (leaf_versions t) -> exists lf, In lf (bt_leaves t) /\ lf_ver lf = w.
Proof.
  unfold leaf_versions. intros H. apply in_map_iff in H. destruct H as (lf & E & H).
  injection E as _ <-. exists lf. split; [exact H|reflexivity].
Qed.

Lemma new_chain_get0 v : forall ts p ctr ls, p <> [] ->
  layer_get (fst (new_chain p ts v ctr ls)) [] = layer_get ls [].
Proof.
  induction ts as [|t rest IH]; intros p ctr ls Hp; [reflexivity|]. cbn [new_chain].
  destruct rest as [|t2 r].
  - cbn [fst]. apply layer_get_set_other. exact Hp.
  - rewrite IH by (destruct p; discriminate). apply layer_get_set_other. exact Hp.
Qed.

Lemma put_walk_live v unique : forall ts p ctr ls ls' o ctr',
  WFL ctr ls None -> vp ts -> layer_get ls p <> None ->
  put_walk ts p ls v unique ctr = Some (ls', o, ctr') -> live_ok ls -> live_ok ls'.
Proof.
  induction ts as [|t rest IH]; intros p ctr ls ls' o ctr' W V Hp E Hs; [contradiction|].
  cbn [vp] in V. destruct V as [Hw V].
  pose proof (wl_layer _ _ _ W) as Hwf.
  destruct (layer_get ls p) as [root|] eqn:Eg; [|contradiction]. clear Hp.
  destruct (walk_step ctr ls None p root t W Eg Hw) as (l & Ef & Hl).
  cbn [put_walk] in E. rewrite Eg, Ef in E.
  destruct (leaf_lookup l t) as [[[rk slot] s]|] eqn:El.
  - destruct Hl as (Hin & Hst & He & Hoks). destruct rest as [|t2 r].
    + destruct unique.
      * injection E as <- _ _. exact Hs.
      * injection E as <- _ _. destruct p as [|x p].
        2:{ eapply live_ok_same; [|exact Hs]. apply layer_get_set_other. discriminate. }
        intros root' lf' Eg' Hin' Hd. rewrite layer_get_set_same in Eg'. injection Eg' as <-.
        apply leaf_versions_in in Hin'. rewrite c12_overwrite_silent in Hin'.
        apply leaf_versions_inv in Hin'. destruct Hin' as (lf & Hlf & Ev).
        rewrite <- Ev in Hd. pose proof (Hs root lf Eg Hlf Hd) as X. rewrite X in Hin. destruct Hin.
    + destruct V as [H9 V]. pose proof Hoks as [_ Hok]. rewrite Hst in Hok.
      destruct (sl_lv s) as [|ov|] eqn:Elv; [contradiction|lia|].
      assert (layer_get ls (p ++ [ks t]) <> None) as Hsub.
      { apply (wl_link _ _ _ W p root (ks t) Eg); [|discriminate].
        rewrite (mk9_ks t H9), <- Hst, <- Elv, mk_eta. exact Hin. }
      exact (IH (p ++ [ks t]) ctr ls ls' o ctr' W V Hsub E Hs).
  - destruct Hl as [He Hnin].
    set (lv := match rest with [] => LValue v | _ :: _ => LLink end) in *.
    assert (entry_ok {| sl_key := t; sl_lv := lv |}) as Hokn.
    { split; [exact Hw|]. unfold lv. cbn [sl_lv sl_key]. destruct rest; [exact V|apply V]. }
    destruct (layer_put root t lv ctr) as [[[root' info] ctr1]|] eqn:Eput; [|discriminate].
    destruct (new_chain (p ++ [ks t]) rest v ctr1 (layer_set ls p root')) as [ls2 ctr2] eqn:Enc.
    injection E as <- _ _.
    change ls2 with (fst (ls2, ctr2)). rewrite <- Enc.
    eapply live_ok_same; [apply new_chain_get0; destruct p; discriminate|].
    destruct p as [|x p].
    2:{ eapply live_ok_same; [|exact Hs]. apply layer_get_set_other. discriminate. }
    (* the insert is in layer 0: afterwards no border is flagged *)
    intros root1 lf' Eg' Hin' Hd. rewrite layer_get_set_same in Eg'. injection Eg' as <-. exfalso.
    destruct (layer_put_leaves root t lv ctr root' info ctr1 (Hwf [] root Eg) Hw Hnin Hokn Eput)
      as (lm & A & B & r0 & _ & HL & ELP & HR).
    assert (forall lf, In lf (bt_leaves root) -> get_deleted (lf_ver lf) = true ->
              root = BLeaf lf /\ leaf_cnk lf = 0) as Hdel.
    { intros lf Hlf Hdl. pose proof (Hs root lf Eg Hlf Hdl) as X.
      destruct (empty_root_leaf None None root (proj1 (Hwf [] root Eg)) X) as [l0 ->].
      cbn [bt_leaves] in Hlf. destruct Hlf as [->|[]]. split; [reflexivity|].
      cbn [bt_elems] in X. pose proof (leaf_entries_length lf) as Y. rewrite X in Y. cbn [length] in Y. lia. }
    rewrite HR in Hin'. apply in_app_or in Hin'. destruct Hin' as [Hin'|Hin'];
      [|apply in_app_or in Hin'; destruct Hin' as [Hin'|Hin']].
    + destruct (Hdel lf') as [-> _]; [rewrite HL; apply in_or_app; left; exact Hin'|exact Hd|].
      cbn [bt_leaves] in HL. destruct A as [|a A]; [destruct Hin'|].
      destruct A; discriminate HL.
    + rewrite (leaf_put_deleted lm t lv ctr r0 info ELP lf' Hin') in Hd.
      destruct (N.eqb_spec (leaf_cnk lm) 0) as [E0|N0]; [discriminate|].
      destruct (Hdel lm) as [_ X]; [rewrite HL; apply in_or_app; right; left; reflexivity|exact Hd|].
      contradiction.
    + destruct (Hdel lf') as [-> _]; [rewrite HL; apply in_or_app; right; right; exact Hin'|exact Hd|].
      cbn [bt_leaves] in HL. destruct A as [|a A].
      * cbn [app] in HL. injection HL as _ <-. destruct Hin'.
      * destruct A; discriminate HL.
Qed.

Lemma single_leaf_live id k lv ls :
  layer_get ls [] = Some (BLeaf (single_leaf id k lv)) -> live_ok ls.
Proof.
  intros Eg root lf Eg' Hin Hd. rewrite Eg in Eg'. injection Eg' as <-.
  cbn [bt_leaves] in Hin. destruct Hin as [<-|[]].
  unfold single_leaf in Hd. rewrite leaf_insert_at_ver in Hd. cbn [lf_ver] in Hd.
  vm_compute in Hd. discriminate Hd.
Qed.

Definition scan_live (tr : tree) : Prop := live_ok (t_layers tr).

Theorem put_live ctr tr k v unique tr' po ctr' :
  WF_store ctr tr -> bytes k -> put tr k v unique ctr = Some (tr', po, ctr') ->
  scan_live tr -> scan_live tr'.
Proof.
  unfold WF_store, put, scan_live. intros W Hb E Hs. destruct (t_null tr).
  - destruct (new_chain [] (path_of_key k) v ctr []) as [ls c] eqn:Enc. injection E as <- _ _.
    cbn [t_layers]. change ls with (fst (ls, c)). rewrite <- Enc.
    destruct (path_of_key k) as [|t rest]; [intros root lf Eg; discriminate Eg|].
    cbn [new_chain]. destruct rest as [|t2 r].
    + cbn [fst layer_set]. eapply single_leaf_live. reflexivity.
    + eapply live_ok_same; [apply new_chain_get0; discriminate|].
      cbn [layer_set]. eapply single_leaf_live. reflexivity.
  - destruct (put_walk (path_of_key k) [] (t_layers tr) v unique ctr) as [[[ls o] c]|] eqn:Ew; [|discriminate].
    injection E as <- _ _. cbn [t_layers].
    eapply put_walk_live; [exact W|apply (path_vp k Hb)|exact (wl_exc _ _ _ W)|exact Ew|exact Hs].
Qed.

(** remove *)
Lemma lookup_ranked_nonempty es k : forall n r, lookup_ranked es k n = Some r -> es <> [].
Proof. intros n r H ->. discriminate H. Qed.

Lemma bt_delete_nonempty k fuel : forall t r, bt_delete fuel t k = Some r -> bt_elems t <> [].
Proof.
  induction fuel as [|fu IH]; intros t r E; [discriminate|].
  destruct t as [l|id ver keys ch]; cbn [bt_delete] in E.
  - destruct (leaf_lookup l k) as [x|] eqn:El; [|discriminate].
    unfold leaf_lookup in El. apply lookup_ranked_nonempty in El.
    cbn [bt_elems]. unfold leaf_entries. intros X. apply El. destruct (leaf_ranked l); [reflexivity|discriminate X].
  - cbv zeta in E. destruct (nth_error ch (route keys k 0)) as [c|] eqn:En; [|discriminate].
    destruct (bt_delete fu c k) as [rc|] eqn:Ed; [|discriminate].
    pose proof (IH c rc Ed) as Hc. cbn [bt_elems]. intros X.
    destruct (bt_elems c) as [|x xs] eqn:Ec; [contradiction|].
    assert (In x (flat_map bt_elems ch)) as Hin.
    { apply in_flat_map. exists c. split; [eapply nth_error_In; exact En|rewrite Ec; left; reflexivity]. }
    rewrite X in Hin. destruct Hin.
Qed.

Lemma set_root_flag_deleted t b lf' :
  In lf' (bt_leaves (set_root_flag t b)) ->
  exists lf, In lf (bt_leaves t) /\ get_deleted (lf_ver lf') = get_deleted (lf_ver lf).
Proof.
  unfold set_root_flag. destruct t as [l|id ver keys ch]; cbn [bt_set_ver bt_leaves bt_ver].
  - intros [<-|[]]. exists l. split; [left; reflexivity|]. cbn [lf_ver]. apply gd_root.
  - intros H. exists lf'. split; [exact H|reflexivity].
Qed.

Lemma layer_remove_live ls p k ls' gone ret :
  layer_remove ls p k = Some (ls', gone, ret) -> live_ok ls -> live_ok ls'.
Proof.
  unfold layer_remove. intros E Hs.
  destruct (layer_get ls p) as [root|] eqn:Eg; [|discriminate].
  destruct (bt_delete (S (bt_height root)) root k) as [[[root'|] ret0]|] eqn:Ed; [| |discriminate].
  - injection E as <- _ _. destruct p as [|x p].
    2:{ eapply live_ok_same; [|exact Hs]. apply layer_get_set_other. discriminate. }
    intros root2 lf2 Eg2 Hin2 Hd. rewrite layer_get_set_same in Eg2. injection Eg2 as <-. exfalso.
    assert (exists lf1, In lf1 (bt_leaves root') /\ get_deleted (lf_ver lf1) = true) as (lf1 & Hin1 & Hd1).
    { destruct (N.eqb (bt_id root') (bt_id root)); [exists lf2; split; assumption|].
      destruct (set_root_flag_deleted root' true lf2 Hin2) as (lf & Hlf & Ev).
      exists lf. split; [exact Hlf|]. rewrite <- Ev. exact Hd. }
    apply leaf_versions_in in Hin1.
    apply (c12_delete_keeps_versions k _ root root' ret0 Ed) in Hin1.
    apply leaf_versions_inv in Hin1. destruct Hin1 as (lf0 & Hlf0 & Ev0).
    rewrite <- Ev0 in Hd1.
    exact (bt_delete_nonempty k _ root _ Ed (Hs root lf0 Eg Hlf0 Hd1)).
  - destruct p as [|x p].
    + destruct root as [l|]; [|discriminate].
      destruct (leaf_lookup l k) as [[[rank slot] s]|] eqn:El; [|discriminate].
      injection E as <- _ _.
      intros root2 lf2 Eg2 _ _. rewrite layer_get_set_same in Eg2. injection Eg2 as <-.
      cbn [bt_delete] in Ed. rewrite El in Ed. cbv zeta in Ed.
      destruct (N.eqb_spec (leaf_cnk l) 1) as [E1|N1]; [|discriminate].
      cbn [bt_elems].
      match goal with |- leaf_entries ?x = [] => pose proof (leaf_entries_length x) as Y; set (lx := x) in * end.
      assert (leaf_cnk lx = 0) as C0.
      { unfold lx, leaf_cnk, leaf_with, leaf_delete. cbn [lf_perm].
        unfold leaf_cnk in E1. rewrite delete_rank_cnk by lia. lia. }
      rewrite C0 in Y. destruct (leaf_entries lx); [reflexivity|discriminate Y].
    + injection E as <- _ _. eapply live_ok_same; [|exact Hs]. apply layer_get_del_other. discriminate.
Qed.

Lemma cascade_live : forall fuel ls p ret ls' ret',
  cascade fuel ls p ret = Some (ls', ret') -> live_ok ls -> live_ok ls'.
Proof.
  induction fuel as [|f IH]; intros ls p ret ls' ret' E Hs; [discriminate|].
  cbn [cascade] in E. destruct (rev p) as [|s q]; [injection E as <- _; exact Hs|].
  destruct (layer_remove ls (remove_last p) {| ks := s; kl := 9 |}) as [[[ls1 gone] ret1]|] eqn:El; [|discriminate].
  pose proof (layer_remove_live _ _ _ _ _ _ El Hs) as Hs1.
  destruct gone; [eapply IH; eassumption|]. injection E as <- _. exact Hs1.
Qed.

Lemma remove_walk_live : forall ts p ls ls' o,
  remove_walk ts p ls = Some (ls', o) -> live_ok ls -> live_ok ls'.
Proof.
  induction ts as [|t rest IH]; intros p ls ls' o E Hs; [discriminate|].
  cbn [remove_walk] in E.
  destruct (layer_get ls p) as [root|]; [|discriminate].
  destruct (find_leaf root t) as [l|]; [|discriminate].
  destruct (leaf_lookup l t) as [[[rk slot] s]|]; [|injection E as <- _; exact Hs].
  destruct rest as [|t2 r]; [|eapply IH; eassumption].
  destruct (layer_remove ls p t) as [[[ls1 gone] ret1]|] eqn:El; [|discriminate].
  pose proof (layer_remove_live _ _ _ _ _ _ El Hs) as Hs1.
  destruct gone.
  - destruct (cascade (S (length p)) ls1 p ret1) as [[ls2 ret2]|] eqn:Ec; [|discriminate].
    injection E as <- _. eapply cascade_live; eassumption.
  - injection E as <- _. exact Hs1.
Qed.

Theorem remove_live tr k tr' ro : remove tr k = Some (tr', ro) -> scan_live tr -> scan_live tr'.
Proof.
  unfold remove, scan_live. intros E Hs. destruct (t_null tr); [injection E as <- _; exact Hs|].
  destruct (remove_walk (path_of_key k) [] (t_layers tr)) as [[ls o]|] eqn:Ew; [|discriminate].
  injection E as <- _. cbn [t_layers]. eapply remove_walk_live; eassumption.
Qed.

(** *** the invariant of the scan *)
Definition scan_inv (tr : tree) : Prop := scan_seps tr /\ scan_live tr.

Theorem scan_inv_sound tr : scan_inv tr -> root_live tr /\ rtl_ok (t_layers tr).
Proof. intros [H1 H2]. split; [apply live_ok_root_live; exact H2|apply seps_ok_rtl; exact H1]. Qed.

Theorem scan_inv_null : scan_inv null_tree.
Proof. split; [constructor|intros root lf Eg; discriminate Eg]. Qed.

Theorem scan_inv_empty id : scan_inv (empty_tree id).
Proof.
  split.
  - unfold scan_seps, empty_tree. cbn [t_layers]. constructor; [apply seps_good_leaf|constructor].
  - intros root lf Eg Hin Hd. cbn in Eg. injection Eg as <-. cbn [bt_leaves] in Hin.
    destruct Hin as [<-|[]]. cbn [lf_ver] in Hd. vm_compute in Hd. discriminate Hd.
Qed.

Theorem put_scan_inv ctr tr k v unique tr' po ctr' :
  WF_store ctr tr -> bytes k -> put tr k v unique ctr = Some (tr', po, ctr') -> scan_inv tr -> scan_inv tr'.
Proof. intros W Hb E [H1 H2]. split; [eapply put_seps; eassumption|eapply put_live; eassumption]. Qed.

Theorem remove_scan_inv tr k tr' ro : remove tr k = Some (tr', ro) -> scan_inv tr -> scan_inv tr'.
Proof. intros E [H1 H2]. split; [eapply remove_seps; eassumption|eapply remove_live; eassumption]. Qed.

(** the refinement on every store that satisfies the invariant *)
Theorem scan_refines_inv ctr tr a :
  WF_store ctr tr -> scan_inv tr -> t_null tr = false -> bytes (sa_l a) -> bytes (sa_r a) ->
  exists o, scan tr a = Some o /\
    if spec_scan_args_ok a
    then so_status o = St_OK /\
         map (fun kv => (fst kv, abs_value (snd kv))) (so_tuples o) = spec_scan_list (abs_tree tr) a
    else so_status o = St_ERR_BAD_USAGE /\ so_tuples o = [].
Proof.
  intros W Hi Hn Hl Hr. destruct (scan_inv_sound tr Hi) as [H1 H2].
  exact (scan_refines ctr tr a W Hn Hl Hr H1 (fun _ => H2)).
Qed.

(** null or not: one statement *)
Theorem scan_refines_all ctr tr a :
  WF_store ctr tr -> scan_inv tr -> bytes (sa_l a) -> bytes (sa_r a) ->
  exists o, scan tr a = Some o /\
    if spec_scan_args_ok a
    then so_status o = (if t_null tr then St_OK_ROOT_IS_NULL else St_OK) /\
         map (fun kv => (fst kv, abs_value (snd kv))) (so_tuples o) = spec_scan_list (abs_tree tr) a
    else so_status o = St_ERR_BAD_USAGE /\ so_tuples o = [].
Proof.
  intros W Hi Hl Hr. destruct (t_null tr) eqn:Hn.
  - destruct (scan_null tr a Hn) as (o & E & H). exists o. split; [exact E|].
    destruct (spec_scan_args_ok a); [|exact H]. destruct H as [H1 H2]. split; [exact H1|].
    rewrite H2. unfold abs_tree. rewrite Hn. symmetry. apply spec_scan_list_nil.
  - exact (scan_refines_inv ctr tr a W Hi Hn Hl Hr).
Qed.

(** ** 13. the statement without the two extra hypotheses is false: two well-formed
    (but unreachable) stores on which the scan model and the interval specification differ *)
Module ScanCounterexamples.
  Definition val (i : N) : value := {| v_id := 100 + i; v_bytes := [i]; v_align := 8; v_inline := false |}.
  Definition kA : ktuple := {| ks := 1 * 2 ^ 56; kl := 1 |}.       (* the key [1] *)
  Definition kC : ktuple := {| ks := 3 * 2 ^ 56; kl := 1 |}.       (* the key [3] *)
  Definition eA : slot_t := mk kA (LValue (val 1)).
  Definition eB : slot_t := mk maxsep LLink.
  Definition eC : slot_t := mk kC (LValue (val 3)).

  Lemma okA : entry_ok eA. Proof. split; [reflexivity|cbn; lia]. Qed.
  Lemma okB : entry_ok eB. Proof. split; reflexivity. Qed.
  Lemma okC : entry_ok eC. Proof. split; [reflexivity|cbn; lia]. Qed.

  Definition all_fwd : scan_args :=
    {| sa_l := []; sa_le := EP_INF; sa_r := []; sa_re := EP_INF; sa_max := 0%nat; sa_rtl := false;
       sa_lnull := false; sa_rnull := false |}.
  Definition last_rtl : scan_args :=
    {| sa_l := []; sa_le := EP_INF; sa_r := []; sa_re := EP_INF; sa_max := 1%nat; sa_rtl := true;
       sa_lnull := false; sa_rnull := false |}.

  (** *** 1. a non-empty root border flagged deleted: the scan returns nothing *)
  Definition lf1 : leaf := single_leaf 1 kA (LValue (val 1)).
  Definition root1 : bt := bt_set_ver (BLeaf lf1) (set_deleted (lf_ver lf1) true).
  Definition cx1 : tree := {| t_layers := [([], root1)]; t_null := false |}.

  Lemma cx1_wf : WF_store 2 cx1.
  Proof.
    destruct (single_leaf_WF_layer 1 kA (LValue (val 1)) okA) as ([Hwf Hnd] & Hel & Hids).
    assert (WF_layer root1) as Hl1.
    { split; [apply bt_set_ver_WF; exact Hwf|]. unfold root1. rewrite bt_set_ver_ids. exact Hnd. }
    assert (bt_elems root1 = [eA]) as Hel1 by (unfold root1; rewrite bt_set_ver_elems; exact Hel).
    assert (bt_ids root1 = [1]) as Hid1 by (unfold root1; rewrite bt_set_ver_ids; exact Hids).
    assert (forall p r, layer_get [([], root1)] p = Some r -> p = [] /\ r = root1) as G.
    { intros p r. cbn [layer_get]. destruct p; cbn [prefix_eqb]; [|discriminate].
      intros H. injection H as <-. split; reflexivity. }
    unfold WF_store, cx1. cbn [t_null t_layers]. constructor.
    - cbn. constructor; [intros []|constructor].
    - intros p r H. apply G in H. destruct H as [_ ->]. exact Hl1.
    - intros p r i H Hi. apply G in H. destruct H as [_ ->]. rewrite Hid1 in Hi. destruct Hi as [<-|[]]. lia.
    - intros p q rp rq i H1 H2 _ _. apply G in H1, H2. destruct H1 as [-> _], H2 as [-> _]. reflexivity.
    - intros p r x H Hin. apply G in H. destruct H as [_ ->]. rewrite Hel1 in Hin.
      destruct Hin as [Hin|[]]. discriminate Hin.
    - intros p x r H. apply G in H. destruct H as [H _]. destruct p; discriminate.
    - intros p x r s H. apply G in H. destruct H as [H _]. destruct p; discriminate.
    - cbn. discriminate.
  Qed.

  Theorem scan_refines_needs_root_live :
    exists ctr tr a,
      WF_store ctr tr /\ t_null tr = false /\ bytes (sa_l a) /\ bytes (sa_r a) /\
      rtl_ok (t_layers tr) /\ spec_scan_args_ok a = true /\
      exists o, scan tr a = Some o /\ so_status o = St_OK /\ so_tuples o = [] /\
                spec_scan_list (abs_tree tr) a = [([1], abs_value (val 1))].
  Proof.
    exists 2, cx1, all_fwd. split; [exact cx1_wf|]. split; [reflexivity|].
    split; [constructor|]. split; [constructor|].
    split; [apply rtl_okb_sound; vm_compute; reflexivity|]. split; [reflexivity|].
    eexists. split; [vm_compute; reflexivity|]. split; [reflexivity|]. split; [reflexivity|].
    vm_compute. reflexivity.
  Qed.

  (** *** 2. a separator (0xff..ff, 9): the right-to-left descent stops one border early *)
  Definition lfA : leaf := single_leaf 10 kA (LValue (val 1)).
  Definition lfB : leaf := single_leaf 11 maxsep LLink.
  Definition lfC : leaf := single_leaf 12 kC (LValue (val 3)).
  Definition root2 : bt := BInt 13 v_new_interior_parent [maxsep] [BLeaf lfA; BLeaf lfB].
  Definition sub2 : bt := BLeaf lfC.
  Definition cx2 : tree :=
    {| t_layers := [([], root2); ([18446744073709551615], sub2)]; t_null := false |}.

  Lemma root2_wf : WF_layer root2 /\ bt_elems root2 = [eA; eB] /\ bt_ids root2 = [13; 10; 11].
  Proof.
    destruct (single_leaf_spec 10 kA (LValue (val 1)) okA) as (WA & EA & IA).
    destruct (single_leaf_spec 11 maxsep LLink okB) as (WB & EB & IB).
    fold lfA in WA, EA, IA. fold lfB in WB, EB, IB.
    assert (bt_elems root2 = [eA; eB]) as Hel.
    { unfold root2. cbn [bt_elems flat_map]. rewrite EA, EB. reflexivity. }
    assert (bt_ids root2 = [13; 10; 11]) as Hid.
    { unfold root2. cbn [bt_ids flat_map]. rewrite IA, IB. reflexivity. }
    split; [|split; assumption]. split.
    - unfold root2. apply WF_int_iff. split; [cbn; lia|].
      split; [reflexivity|]. split; [constructor; constructor|]. split; [constructor; [reflexivity|constructor]|].
      split; [constructor; [split; exact I|constructor]|]. split.
      + intros i Hi. cbn [length] in Hi. destruct i as [|[|i]]; [| |lia]; cbn [nth lo_at hi_at length Nat.ltb Nat.leb].
        * apply WF_leaf_iff. split; [exact WA|]. unfold leaf_keys. rewrite EA.
          constructor; [|constructor]. split; [exact I|reflexivity].
        * apply WF_leaf_iff. split; [exact WB|]. unfold leaf_keys. rewrite EB.
          constructor; [|constructor]. split; [reflexivity|exact I].
      + intros i Hi. cbn [length] in Hi. destruct i as [|[|i]]; [| |lia]; cbn [nth bt_elems].
        * rewrite EA. discriminate.
        * rewrite EB. discriminate.
    - rewrite Hid. constructor; [intros [H|[H|[]]]; discriminate|].
      constructor; [intros [H|[]]; discriminate|]. constructor; [intros []|constructor].
  Qed.

  Lemma cx2_wf : WF_store 20 cx2.
  Proof.
    destruct root2_wf as (Hw2 & Hel2 & Hid2).
    destruct (single_leaf_WF_layer 12 kC (LValue (val 3)) okC) as (HwC & HelC & HidC).
    fold lfC in HwC, HelC, HidC. fold sub2 in HwC, HelC, HidC.
    set (M := 18446744073709551615) in *.
    assert (forall p r, layer_get [([], root2); ([M], sub2)] p = Some r ->
              (p = [] /\ r = root2) \/ (p = [M] /\ r = sub2)) as G.
    { intros p r. cbn [layer_get].
      destruct (prefix_eqb_spec [] p) as [<-|N1].
      - intros H. injection H as <-. left. split; reflexivity.
      - destruct (prefix_eqb_spec [M] p) as [<-|N2]; [|discriminate].
        intros H. injection H as <-. right. split; reflexivity. }
    unfold WF_store, cx2. cbn [t_null t_layers]. fold M. constructor.
    - cbn [map fst]. constructor; [intros [H|[]]; discriminate|]. constructor; [intros []|constructor].
    - intros p r H. destruct (G p r H) as [[_ ->]|[_ ->]]; assumption.
    - intros p r i H Hi. destruct (G p r H) as [[_ ->]|[_ ->]].
      + rewrite Hid2 in Hi. destruct Hi as [<-|[<-|[<-|[]]]]; lia.
      + rewrite HidC in Hi. destruct Hi as [<-|[]]. lia.
    - intros p q rp rq i H1 H2 I1 I2.
      destruct (G p rp H1) as [[-> ->]|[-> ->]], (G q rq H2) as [[-> ->]|[-> ->]]; try reflexivity; exfalso.
      + rewrite Hid2 in I1. rewrite HidC in I2. destruct I2 as [<-|[]].
        destruct I1 as [H|[H|[H|[]]]]; discriminate.
      + rewrite Hid2 in I2. rewrite HidC in I1. destruct I1 as [<-|[]].
        destruct I2 as [H|[H|[H|[]]]]; discriminate.
    - intros p r x H Hin _. destruct (G p r H) as [[-> ->]|[-> ->]].
      + rewrite Hel2 in Hin. destruct Hin as [Hin|[Hin|[]]]; [discriminate Hin|].
        unfold eB, mk, mk9, maxsep in Hin. injection Hin as <-. vm_compute. discriminate.
      + rewrite HelC in Hin. destruct Hin as [Hin|[]]. discriminate Hin.
    - intros p x r H. destruct (G _ r H) as [[E _]|[E ->]].
      + destruct p; discriminate.
      + destruct p as [|y p]; [|destruct p; discriminate].
        cbn in E. injection E as ->. split; [rewrite HelC; discriminate|].
        exists root2. split; [reflexivity|]. rewrite Hel2. right. left. reflexivity.
    - intros p x r s H Hin. destruct (G _ r H) as [[E _]|[E ->]].
      + destruct p; discriminate.
      + rewrite HelC in Hin. destruct Hin as [<-|[]]. cbn. lia.
    - cbn. discriminate.
  Qed.

  Theorem scan_refines_needs_rtl_ok :
    exists ctr tr a,
      WF_store ctr tr /\ t_null tr = false /\ bytes (sa_l a) /\ bytes (sa_r a) /\
      root_live tr /\ spec_scan_args_ok a = true /\
      exists o, scan tr a = Some o /\ so_status o = St_OK /\
                map fst (so_tuples o) = [[1]] /\
                map fst (spec_scan_list (abs_tree tr) a) = [[255; 255; 255; 255; 255; 255; 255; 255; 3]].
  Proof.
    exists 20, cx2, last_rtl. split; [exact cx2_wf|]. split; [reflexivity|].
    split; [constructor|]. split; [constructor|].
    split; [apply root_liveb_sound; vm_compute; reflexivity|]. split; [reflexivity|].
    eexists. split; [vm_compute; reflexivity|]. split; [reflexivity|]. split; [reflexivity|].
    vm_compute. reflexivity.
  Qed.

  (** hence the refinement cannot be proved from [WF_store] alone *)
  Theorem scan_refines_false_from_WF_store_alone :
    ~ (forall ctr tr a, WF_store ctr tr -> t_null tr = false -> bytes (sa_l a) -> bytes (sa_r a) ->
         exists o, scan tr a = Some o /\
           if spec_scan_args_ok a
           then so_status o = St_OK /\
                map (fun kv => (fst kv, abs_value (snd kv))) (so_tuples o) = spec_scan_list (abs_tree tr) a
           else so_status o = St_ERR_BAD_USAGE /\ so_tuples o = []).
  Proof.
    intros H.
    destruct (H 2 cx1 all_fwd cx1_wf eq_refl ltac:(constructor) ltac:(constructor)) as (o & Es & Ho).
    change (spec_scan_args_ok all_fwd) with true in Ho. cbv iota in Ho. destruct Ho as [_ Ho].
    assert (scan cx1 all_fwd = Some {| so_status := St_OK; so_tuples := []; so_nv := [(1, lf_ver (match root1 with BLeaf l => l | _ => lf1 end))] |}) as E
      by (vm_compute; reflexivity).
    rewrite E in Es. injection Es as <-. cbn [so_tuples map] in Ho.
    assert (spec_scan_list (abs_tree cx1) all_fwd = [([1], abs_value (val 1))]) as E2 by (vm_compute; reflexivity).
    rewrite E2 in Ho. discriminate Ho.
  Qed.
End ScanCounterexamples.

(** ** 14. sanity: the hypotheses are satisfiable on a 39-layer store with interior nodes in
    two layers, and the theorem describes what the executable model computes *)
Module ScanExample.
  Definition p8 : key := [7;7;7;7;7;7;7;7].
  Definition f8 : key := repeat 255 8.
  Definition ex_keys : list key :=
    [[]; [0]; [7]; [7;0]; [7;7;7;7;7;7;7]; p8; p8 ++ [0]; p8 ++ [7]; p8 ++ p8; p8 ++ p8 ++ [1];
     f8 ++ [3]; repeat 7 300; repeat 7 256]
    ++ map (fun i => [N.of_nat i; 1]) (seq 1 20)
    ++ map (fun i => p8 ++ [N.of_nat i; 2]) (seq 1 18).
  Definition ex_tree : tree :=
    match StoreExample.puts (empty_tree 1) 2 ex_keys with Some (t, _) => t | None => null_tree end.

  Example ex_shape :
    (length (t_layers ex_tree), length (abs_tree ex_tree),
     map (fun x => length (bt_leaves (snd x))) (firstn 3 (t_layers ex_tree))) = (39%nat, 51%nat, [3; 2; 1]%nat).
  Proof. vm_compute. reflexivity. Qed.

  Example ex_wf : exists ctr, WF_store ctr ex_tree.
  Proof.
    destruct (StoreExample.puts_wf ex_keys (empty_tree 1) 2) as (tr' & c' & E & W).
    - apply empty_tree_wf. lia.
    - apply Forall_forall. intros k Hk. apply StoreExample.bytesb_sound.
      assert (forallb (fun k => forallb (fun b => b <? 256) k) ex_keys = true) as A by (vm_compute; reflexivity).
      rewrite forallb_forall in A. apply A. exact Hk.
    - exists c'. unfold ex_tree. rewrite E. exact W.
  Qed.

  Example ex_live : t_null ex_tree = false /\ root_live ex_tree /\ rtl_ok (t_layers ex_tree).
  Proof.
    split; [vm_compute; reflexivity|].
    split; [apply root_liveb_sound; vm_compute; reflexivity|apply rtl_okb_sound; vm_compute; reflexivity].
  Qed.

  (** the same, through the invariance theorems (no computation on the tree) *)
  Lemma puts_inv : forall ks tr ctr, WF_store ctr tr -> scan_inv tr -> Forall bytes ks ->
    exists tr' ctr', StoreExample.puts tr ctr ks = Some (tr', ctr') /\ WF_store ctr' tr' /\ scan_inv tr'.
  Proof.
    induction ks as [|k r IH]; intros tr ctr W Hi Hb; [exists tr, ctr; split; [reflexivity|split; assumption]|].
    apply Forall_cons_iff in Hb. destruct Hb as [Hk Hr].
    destruct (put_refines ctr tr k (StoreExample.val (N.of_nat (length k))) false W Hk) as (tr' & po & c' & E & W' & _).
    cbn [StoreExample.puts]. rewrite E. apply IH; [exact W'| |exact Hr].
    exact (put_scan_inv ctr tr k _ false tr' po c' W Hk E Hi).
  Qed.

  Example ex_inv : exists ctr, WF_store ctr ex_tree /\ scan_inv ex_tree.
  Proof.
    destruct (puts_inv ex_keys (empty_tree 1) 2) as (tr' & c' & E & W & Hi).
    - apply empty_tree_wf. lia.
    - apply scan_inv_empty.
    - apply Forall_forall. intros k Hk. apply StoreExample.bytesb_sound.
      assert (forallb (fun k => forallb (fun b => b <? 256) k) ex_keys = true) as A by (vm_compute; reflexivity).
      rewrite forallb_forall in A. apply A. exact Hk.
    - exists c'. unfold ex_tree. rewrite E. split; assumption.
  Qed.

  (** the theorem applies to every argument record *)
  Example ex_applies a : bytes (sa_l a) -> bytes (sa_r a) ->
    exists o, scan ex_tree a = Some o /\
      if spec_scan_args_ok a
      then so_status o = St_OK /\
           map (fun kv => (fst kv, abs_value (snd kv))) (so_tuples o) = spec_scan_list (abs_tree ex_tree) a
      else so_status o = St_ERR_BAD_USAGE /\ so_tuples o = [].
  Proof.
    intros Hl Hr. destruct ex_wf as (ctr & W). destruct ex_live as (Hn & Hlive & Hrtl).
    exact (scan_refines ctr ex_tree a W Hn Hl Hr Hlive (fun _ => Hrtl)).
  Qed.

  (** and the executable model agrees with the specification on a grid of arguments:
      endpoints that are stored keys, proper prefixes of stored keys, on 8-byte boundaries,
      longer than 255 bytes (descent length truncated to 8 bits), all endpoint kinds,
      max_size 0 / 2, and right-to-left *)
  Definition keyeq_list (a b : list key) : bool :=
    Nat.eqb (length a) (length b) && forallb (fun pr => key_eqb (fst pr) (snd pr)) (combine a b).
  Definition check (tr : tree) (a : scan_args) : bool :=
    match scan tr a with
    | None => false
    | Some o =>
      if spec_scan_args_ok a then
        match so_status o with
        | St_OK => keyeq_list (map fst (so_tuples o)) (map fst (spec_scan_list (abs_tree tr) a))
        | _ => false
        end
      else match so_status o, so_tuples o with St_ERR_BAD_USAGE, [] => true | _, _ => false end
    end.
  Definition eps := [EP_EXCL; EP_INCL; EP_INF].
  Definition endpoints : list key :=
    [[]; [7;0]; p8; p8 ++ [5]; p8 ++ p8; repeat 7 256; repeat 7 300; repeat 7 520; [10;1]; f8 ++ [3]].
  Definition ex_args : list scan_args :=
    flat_map (fun l => flat_map (fun le => flat_map (fun r => flat_map (fun re => flat_map (fun mx =>
      [{| sa_l := l; sa_le := le; sa_r := r; sa_re := re; sa_max := mx; sa_rtl := false;
          sa_lnull := false; sa_rnull := false |}]) [0;2]%nat) eps) endpoints) eps) endpoints
    ++ flat_map (fun l => flat_map (fun le =>
      [{| sa_l := l; sa_le := le; sa_r := []; sa_re := EP_INF; sa_max := 1; sa_rtl := true;
          sa_lnull := false; sa_rnull := false |}]) eps) endpoints.

  Example ex_args_length : length ex_args = 1830%nat.
  Proof. vm_compute. reflexivity. Qed.
  Example ex_checks : forallb (check ex_tree) ex_args = true.
  Proof. vm_cast_no_check (eq_refl true). Qed.
End ScanExample.

(** ** axiom audit *)
Print Assumptions scan_validate_spec.
Print Assumptions scan_full_partial.
Print Assumptions scan_right_partial.
Print Assumptions scan_left_partial.
Print Assumptions scan_layers_partial.
Print Assumptions scan_rtl_partial.
Print Assumptions scan_refines.
Print Assumptions scan_null.
Print Assumptions scan_inv_null.
Print Assumptions scan_inv_empty.
Print Assumptions put_scan_inv.
Print Assumptions remove_scan_inv.
Print Assumptions scan_refines_inv.
Print Assumptions scan_refines_all.
Print Assumptions ScanCounterexamples.scan_refines_needs_root_live.
Print Assumptions ScanCounterexamples.scan_refines_needs_rtl_ok.
Print Assumptions ScanCounterexamples.scan_refines_false_from_WF_store_alone.
Print Assumptions ScanExample.ex_inv.
Print Assumptions ScanExample.ex_applies.
Print Assumptions ScanExample.ex_checks.
