(** * ScanProofs: the range scan returns exactly the entries of the interval (C03).

    Stage 1  [scan_validate_spec]   argument validation = [spec_scan_args_ok]
    Stage 2-5 ...                   (see the end of the file for the list of results) *)
From Coq Require Import ZArith NArith PeanoNat Lia ZifyBool ZifyN Bool List Sorted Permutation.
From Yk Require Import ListAux Word64 PermDefs VersionDefs KeyDefs KeyProofs TreeDefs ScanDefs SysDefs
     SpecDefs LeafProofs LayerProofs StoreProofs.
Import ListNotations.
Local Open Scope N_scope.

(** ** 0. the lexicographic order *)
Lemma lex_total a b : lex_lt a b = true \/ a = b \/ lex_lt b a = true.
Proof.
  destruct (lex_lt a b) eqn:E1; [left; reflexivity|]. right.
  destruct (lex_lt b a) eqn:E2; [right; reflexivity|]. left. apply lex_lt_trich; assumption.
Qed.

Lemma lex_le_lt_trans a b c : lex_lt b a = false -> lex_lt b c = true -> lex_lt a c = true.
Proof.
  intros H1 H2. destruct (lex_total a b) as [H|[->|H]]; [|exact H2|congruence].
  eapply lex_lt_trans; eassumption.
Qed.

Lemma lex_lt_le_trans a b c : lex_lt a b = true -> lex_lt c b = false -> lex_lt a c = true.
Proof.
  intros H1 H2. destruct (lex_total b c) as [H|[<-|H]]; [|exact H1|congruence].
  eapply lex_lt_trans; eassumption.
Qed.

Lemma lex_lt_nil_r a : lex_lt a [] = false.
Proof. destruct a; reflexivity. Qed.

Lemma lex_lt_nil_l a : a <> [] -> lex_lt [] a = true.
Proof. destruct a; [contradiction|reflexivity]. Qed.

Lemma lex_lt_prefix a x : x <> [] -> lex_lt a (a ++ x) = true.
Proof.
  intros H. rewrite <- (app_nil_r a) at 1. rewrite lex_lt_app. apply lex_lt_nil_l. exact H.
Qed.

Lemma lex_lt_prefix_le a x : lex_lt (a ++ x) a = false.
Proof.
  rewrite <- (app_nil_r a) at 2. rewrite lex_lt_app. apply lex_lt_nil_r.
Qed.

(** ** Stage 1: validation *)
Lemma cmp_bytes_spec : forall a b,
  match cmp_bytes a b with
  | Lt3 => lex_lt a b = true
  | Eq3 => a = b
  | Gt3 => lex_lt b a = true
  end.
Proof.
  induction a as [|x a IH]; intros [|y b]; cbn [cmp_bytes lex_lt]; try reflexivity.
  unfold cmpN. destruct (N.compare_spec x y) as [E|L|G].
  - subst y. specialize (IH b). destruct (cmp_bytes a b).
    + rewrite IH. lia.
    + subst. reflexivity.
    + rewrite IH. lia.
  - lia.
  - lia.
Qed.

Lemma check_empty_spec l le r re :
  check_empty_scan_range l le r re =
  if (match re, le with
      | EP_INF, _ => true
      | re, EP_INF => negb (ep_eqb re EP_EXCL && Nat.eqb (length r) 0)
      | re, le => lex_lt l r || (key_eqb l r && ep_eqb le EP_INCL && ep_eqb re EP_INCL)
      end)
  then St_OK else St_ERR_BAD_USAGE.
Proof.
  pose proof (cmp_bytes_spec l r) as C.
  assert (cmp_bytes l r = Gt3 -> lex_lt l r = false /\ key_eqb l r = false) as G.
  { intros E. rewrite E in C. split; [apply lex_lt_asym; exact C|].
    apply key_eqb_neq. intros ->. rewrite lex_lt_irrefl in C. discriminate. }
  assert (cmp_bytes l r = Eq3 -> lex_lt l r = false /\ key_eqb l r = true) as Q.
  { intros E. rewrite E in C. subst r. split; [apply lex_lt_irrefl|apply key_eqb_refl]. }
  unfold check_empty_scan_range.
  destruct re, le; cbn [ep_eqb andb negb]; try reflexivity;
    try (destruct r; reflexivity);
    destruct (cmp_bytes l r);
    try (rewrite C; reflexivity);
    try (destruct (Q eq_refl) as [-> ->]; reflexivity);
    try (destruct (G eq_refl) as [-> ->]; reflexivity).
Qed.

Theorem scan_validate_spec a :
  (scan_validate a = None <-> spec_scan_args_ok a = true) /\
  (spec_scan_args_ok a = false -> scan_validate a = Some St_ERR_BAD_USAGE).
Proof.
  unfold scan_validate, spec_scan_args_ok. rewrite check_empty_spec.
  destruct ((sa_lnull a && negb (Nat.eqb (length (sa_l a)) 0)) ||
            (sa_rnull a && negb (Nat.eqb (length (sa_r a)) 0))).
  { cbn [negb andb]. split; [split; discriminate|reflexivity]. }
  destruct (sa_re a), (sa_le a); cbn [ep_eqb andb orb negb];
    destruct (sa_rtl a); destruct (Nat.eqb (sa_max a) 1);
    try destruct (lex_lt (sa_l a) (sa_r a)); try destruct (key_eqb (sa_l a) (sa_r a));
    try destruct (Nat.eqb (length (sa_r a)) 0);
    cbn [ep_eqb andb orb negb];
    (split; [split; intros; (reflexivity || discriminate)|intros; (reflexivity || discriminate)]).
Qed.

(** ** 2. the comparison sites of the scan *)

(** memcmp over the common length *)
Lemma cmp_pref_spec : forall r f,
  match memcmp_bytes r f (Nat.min (length r) (length f)) with
  | Lt3 => forall e, lex_lt r (f ++ e) = true
  | Gt3 => forall e, lex_lt (f ++ e) r = true
  | Eq3 => ((length r <= length f)%nat -> exists x, f = r ++ x) /\
           ((length f < length r)%nat -> exists y, y <> [] /\ r = f ++ y)
  end.
Proof.
  unfold memcmp_bytes.
  induction r as [|x r IH]; intros [|y f]; cbn [length Nat.min firstn cmp_bytes].
  - split; [intros _; exists []; reflexivity|intros H; inversion H].
  - split; [intros _; exists (y :: f); reflexivity|intros H; inversion H].
  - split; [intros H; inversion H|intros _; exists (x :: r); split; [discriminate|reflexivity]].
  - unfold cmpN. destruct (N.compare_spec x y) as [E|L|G].
    + subst y. specialize (IH f).
      destruct (cmp_bytes (firstn (Nat.min (length r) (length f)) r)
                          (firstn (Nat.min (length r) (length f)) f)).
      * intros e. cbn [app lex_lt]. rewrite IH. lia.
      * destruct IH as [I1 I2]. split; intros H.
        -- destruct I1 as [z ->]; [lia|]. exists z. reflexivity.
        -- destruct I2 as (z & Hz & ->); [lia|]. exists z. split; [exact Hz|reflexivity].
      * intros e. cbn [app lex_lt]. rewrite IH. lia.
    + intros e. cbn [app lex_lt]. lia.
    + intros e. cbn [app lex_lt]. lia.
Qed.

Lemma in_right_lt r re k : re <> EP_INF -> lex_lt r k = true -> in_right r re k = false.
Proof.
  intros Hre H. destruct re; cbn [in_right]; [apply lex_lt_asym; exact H|rewrite H; reflexivity|contradiction].
Qed.

Lemma in_right_gt r re k : lex_lt k r = true -> in_right r re k = true.
Proof.
  intros H. destruct re; cbn [in_right]; [exact H| |reflexivity].
  rewrite (lex_lt_asym _ _ H). reflexivity.
Qed.

(** "dead": nothing above [full] is in the right range *)
Lemma in_right_dead r re full k :
  re <> EP_INF -> lex_lt full r = false -> lex_lt full k = true -> in_right r re k = false.
Proof.
  intros Hre H1 H2. apply in_right_lt; [exact Hre|]. exact (lex_le_lt_trans r full k H1 H2).
Qed.

Lemma in_right_false_le r re full : in_right r re full = false -> re <> EP_INF /\ lex_lt full r = false.
Proof.
  destruct re; cbn [in_right]; intros H.
  - split; [discriminate|exact H].
  - split; [discriminate|]. apply lex_lt_asym. destruct (lex_lt r full); [reflexivity|discriminate].
  - discriminate.
Qed.

Lemma in_right_mono r re k k' : in_right r re k = false -> lex_lt k k' = true -> in_right r re k' = false.
Proof.
  intros H1 H2. apply in_right_false_le in H1. destruct H1 as [A B]. eapply in_right_dead; eassumption.
Qed.

Lemma in_left_mono l le k k' : in_left l le k = false -> lex_lt k' k = true -> in_left l le k' = false.
Proof.
  destruct le; cbn [in_left]; intros H1 H2; [| |discriminate].
  - destruct (lex_lt l k') eqn:E; [|reflexivity].
    rewrite (lex_lt_trans _ _ _ E H2) in H1. discriminate.
  - assert (lex_lt k l = true) as H3 by (destruct (lex_lt k l); [reflexivity|discriminate]).
    rewrite (lex_lt_trans _ _ _ H2 H3). reflexivity.
Qed.

Definition inr_f (r : key) (re : endpoint) (full : key) : bool :=
  match memcmp_bytes r full (Nat.min (length r) (length full)) with
  | Gt3 => true
  | Eq3 => Nat.ltb (length full) (length r) || (Nat.eqb (length r) (length full) && ep_eqb re EP_INCL)
  | Lt3 => false
  end.

Lemma inr_f_spec r re full : re <> EP_INF -> inr_f r re full = in_right r re full.
Proof.
  intros Hre. unfold inr_f. pose proof (cmp_pref_spec r full) as C.
  destruct (memcmp_bytes r full (Nat.min (length r) (length full))).
  - specialize (C []). rewrite app_nil_r in C. symmetry. apply in_right_lt; assumption.
  - destruct C as [C1 C2]. destruct (Nat.ltb_spec (length full) (length r)) as [H|H].
    + destruct (C2 H) as (y & Hy & ->). cbn [orb]. symmetry. apply in_right_gt. apply lex_lt_prefix. exact Hy.
    + destruct (C1 H) as [x ->]. cbn [orb]. destruct (Nat.eqb_spec (length r) (length (r ++ x))) as [e|n].
      * rewrite app_length in e. destruct x as [|b x]; [|cbn [length] in e; lia].
        rewrite app_nil_r. cbn [andb].
        destruct re; cbn [in_right ep_eqb]; rewrite ?lex_lt_irrefl; try reflexivity. contradiction.
      * cbn [andb]. symmetry. apply in_right_lt; [exact Hre|]. apply lex_lt_prefix.
        intros ->. rewrite app_nil_r in n. contradiction.
  - specialize (C []). rewrite app_nil_r in C. symmetry. apply in_right_gt. exact C.
Qed.

Definition rarg_f (r : key) (re : endpoint) (full : key) : option (option (key * endpoint)) :=
  match re with
  | EP_INF => Some (Some ([], EP_INF))
  | _ =>
    let n := Nat.min (length r) (length full) in
    match memcmp_bytes r full n with
    | Lt3 => None
    | Eq3 => if Nat.leb (length r) (length full) then None else Some (Some (r, re))
    | Gt3 => Some (Some ([], EP_INF))
    end
  end.

Lemma rarg_f_spec r re full :
  match rarg_f r re full with
  | None => re <> EP_INF /\ lex_lt full r = false
  | Some None => False
  | Some (Some (ar, are)) => forall rest, in_right ar are (full ++ rest) = in_right r re (full ++ rest)
  end.
Proof.
  assert (re <> EP_INF ->
    match (let n := Nat.min (length r) (length full) in
           match memcmp_bytes r full n with
           | Lt3 => None
           | Eq3 => if Nat.leb (length r) (length full) then None else Some (Some (r, re))
           | Gt3 => Some (Some ([], EP_INF))
           end) with
    | None => re <> EP_INF /\ lex_lt full r = false
    | Some None => False
    | Some (Some (ar, are)) => forall rest, in_right ar are (full ++ rest) = in_right r re (full ++ rest)
    end) as G.
  { intros Hre. cbv zeta. pose proof (cmp_pref_spec r full) as C.
    destruct (memcmp_bytes r full (Nat.min (length r) (length full))).
    - specialize (C []). rewrite app_nil_r in C. split; [exact Hre|apply lex_lt_asym; exact C].
    - destruct C as [C1 _]. destruct (Nat.leb_spec (length r) (length full)) as [H|H].
      + destruct (C1 H) as [x ->]. split; [exact Hre|apply lex_lt_prefix_le].
      + intros rest. reflexivity.
    - intros rest. cbn [in_right]. symmetry. apply in_right_gt. apply C. }
  unfold rarg_f. destruct re; [apply G; discriminate|apply G; discriminate|].
  intros rest. reflexivity.
Qed.

Definition pass_left_f (l : key) (le : endpoint) (kt : ktuple) : bool :=
  match le with
  | EP_INF => true
  | _ =>
    let lsl := slice_of_bytes l 8 in
    match cmpN lsl (ks kt) with
    | Gt3 => false
    | Eq3 => negb ((kl kt <? N.of_nat (length l)) ||
                   ((N.of_nat (length l) =? kl kt) && ep_eqb le EP_EXCL))
    | Lt3 => true
    end
  end.

Lemma pass_left_f_spec l le kt :
  bytes l -> kt_wf kt = true -> kl kt <= 8 -> pass_left_f l le kt = in_left l le (tbytes kt).
Proof.
  intros Hb Hw Hk.
  assert (length (tbytes kt) <= 8)%nat as Hlen by (pose proof (tbytes_length kt Hk); lia).
  pose proof (lex_tuple_short (tbytes kt) l (bos_bytes _ _) Hb (or_introl Hlen)) as E1.
  pose proof (lex_tuple_short l (tbytes kt) Hb (bos_bytes _ _) (or_intror Hlen)) as E2.
  rewrite (tuple_of_tbytes kt Hw Hk) in E1, E2. rewrite tuple_of_key_klen in E1, E2.
  unfold canon_lt, klen in E1, E2. cbn [ks kl] in E1, E2. change (N.of_nat 8) with 8 in E1, E2.
  unfold pass_left_f, in_left. destruct le; [rewrite E2|rewrite E1|reflexivity];
    cbv zeta; unfold cmpN; destruct (N.compare_spec (slice_of_bytes l 8) (ks kt));
    destruct (N.ltb_spec 8 (N.of_nat (length l))); cbn [ep_eqb]; lia.
Qed.

Definition larg_f (l : key) (le : endpoint) (kt : ktuple) : option (key * endpoint) :=
  match le with
  | EP_INF => Some ([], EP_INF)
  | _ => match cmpN (slice_of_bytes l 8) (ks kt) with
         | Lt3 => Some ([], EP_INF)
         | Eq3 => Some (skipn 8 l, le)
         | Gt3 => None
         end
  end.

Lemma larg_f_spec l le kt :
  bytes l -> kt_wf kt = true -> kl kt = 9 ->
  match larg_f l le kt with
  | None => forall rest, bytes rest -> rest <> [] ->
              in_left l le (bytes_of_slice (ks kt) 8 ++ rest) = false
  | Some (al, ale) =>
      (bytes al /\ (ale = EP_INF -> al = [])) /\
      forall rest, bytes rest -> rest <> [] ->
        in_left al ale rest = in_left l le (bytes_of_slice (ks kt) 8 ++ rest)
  end.
Proof.
  intros Hb Hw H9.
  assert (forall rest, bytes rest -> rest <> [] ->
            let e := bytes_of_slice (ks kt) 8 ++ rest in
            let tl := {| ks := slice_of_bytes l 8; kl := klen 8 l |} in
            lex_lt e l = canon_lt kt tl || (kt_eq kt tl && true && lex_lt rest (skipn 8 l)) /\
            lex_lt l e = canon_lt tl kt || (kt_eq tl kt && (klen 8 l =? 9) && lex_lt (skipn 8 l) rest)) as G.
  { intros rest Hr Hne e tl.
    assert (bytes e) as He by (apply Forall_app; split; [apply bos_bytes|exact Hr]).
    pose proof (lex_tuple e l He Hb) as E1. pose proof (lex_tuple l e Hb He) as E2.
    unfold e in E1, E2. rewrite (tuple_of_link kt rest Hw H9 Hne), skipn_bos8 in E1, E2.
    rewrite tuple_of_key_klen in E1, E2. cbn [kl] in E2. rewrite H9 in E1.
    change (9 =? 9) with true in E1. split; assumption. }
  assert (forall rest, rest <> [] -> (length l <= 8)%nat ->
            lex_lt rest (skipn 8 l) = false /\ lex_lt (skipn 8 l) rest = true) as S8.
  { intros rest Hne Hl. rewrite skipn_all2 by exact Hl. split; [apply lex_lt_nil_r|apply lex_lt_nil_l; exact Hne]. }
  unfold larg_f. destruct le.
  - (* EXCL *)
    unfold cmpN. destruct (N.compare_spec (slice_of_bytes l 8) (ks kt)) as [E|L|Gt].
    + split; [split; [apply bytes_skipn; exact Hb|discriminate]|]. intros rest Hr Hne. destruct (G rest Hr Hne) as [_ G2].
      cbn [in_left]. rewrite G2. unfold canon_lt, kt_eq, klen. cbn [ks kl]. change (N.of_nat 8) with 8.
      destruct (N.ltb_spec 8 (N.of_nat (length l))) as [H|H].
      * set (b := lex_lt (skipn 8 l) rest). clearbody b. destruct b; lia.
      * destruct (S8 rest Hne ltac:(lia)) as [_ ->]. lia.
    + split; [split; [constructor|reflexivity]|]. intros rest Hr Hne. destruct (G rest Hr Hne) as [_ G2].
      cbn [in_left]. rewrite G2. unfold canon_lt. cbn [ks kl]. lia.
    + intros rest Hr Hne. destruct (G rest Hr Hne) as [_ G2].
      cbn [in_left]. rewrite G2. unfold canon_lt, kt_eq. cbn [ks kl]. lia.
  - (* INCL *)
    unfold cmpN. destruct (N.compare_spec (slice_of_bytes l 8) (ks kt)) as [E|L|Gt].
    + split; [split; [apply bytes_skipn; exact Hb|discriminate]|]. intros rest Hr Hne. destruct (G rest Hr Hne) as [G1 _].
      cbn [in_left]. rewrite G1. unfold canon_lt, kt_eq, klen. cbn [ks kl]. change (N.of_nat 8) with 8.
      destruct (N.ltb_spec 8 (N.of_nat (length l))) as [H|H].
      * set (b := lex_lt rest (skipn 8 l)). clearbody b. destruct b; lia.
      * destruct (S8 rest Hne ltac:(lia)) as [-> _]. lia.
    + split; [split; [constructor|reflexivity]|]. intros rest Hr Hne. destruct (G rest Hr Hne) as [G1 _].
      cbn [in_left]. rewrite G1. unfold canon_lt, kt_eq. cbn [ks kl]. lia.
    + intros rest Hr Hne. destruct (G rest Hr Hne) as [G1 _].
      cbn [in_left]. rewrite G1. unfold canon_lt. cbn [ks kl]. lia.
  - split; [split; [constructor|reflexivity]|]. intros rest _ _. reflexivity.
Qed.

(** ** 3. truncation at [max_size] *)
Definition trunc {A} (mx : nat) (l : list A) : list A := if Nat.eqb mx 0 then l else firstn mx l.
Definition mr {A} (mx : nat) (l : list A) : bool := negb (Nat.eqb mx 0) && Nat.leb mx (length l).

Lemma max_reached_mr mx a : max_reached mx a = mr mx (ac_tuples a).
Proof. reflexivity. Qed.

Lemma mr_trunc {A} mx (l : list A) : mr mx (trunc mx l) = mr mx l.
Proof.
  unfold mr, trunc. destruct (Nat.eqb_spec mx 0) as [E|E]; [reflexivity|]. cbn [negb andb].
  rewrite firstn_length. destruct (Nat.leb_spec mx (Nat.min mx (length l))); destruct (Nat.leb_spec mx (length l)); lia.
Qed.

Lemma trunc_id {A} mx (l : list A) : mr mx l = false -> trunc mx l = l.
Proof.
  unfold mr, trunc. destruct (Nat.eqb_spec mx 0) as [E|E]; [reflexivity|]. cbn [negb andb].
  intros H. apply firstn_all2. destruct (Nat.leb_spec mx (length l)); [discriminate|lia].
Qed.

Lemma trunc_reached {A} mx (l g : list A) : mr mx l = true -> trunc mx (l ++ g) = trunc mx l.
Proof.
  unfold mr, trunc. destruct (Nat.eqb_spec mx 0) as [E|E]; [discriminate|]. cbn [negb andb].
  intros H. apply Nat.leb_le in H. rewrite firstn_app.
  replace (mx - length l)%nat with 0%nat by lia. cbn [firstn]. apply app_nil_r.
Qed.

Lemma trunc_push {A} mx (l : list A) x : mr mx l = false -> trunc mx (l ++ [x]) = l ++ [x].
Proof.
  unfold mr, trunc. destruct (Nat.eqb_spec mx 0) as [E|E]; [reflexivity|]. cbn [negb andb].
  intros H. apply firstn_all2. rewrite app_length. cbn [length].
  destruct (Nat.leb_spec mx (length l)); [discriminate|lia].
Qed.

Lemma trunc_map {A B} (f : A -> B) mx l : map f (trunc mx l) = trunc mx (map f l).
Proof. unfold trunc. destruct (Nat.eqb mx 0); [reflexivity|]. symmetry. apply firstn_map. Qed.

(** ** 4. the concrete contents of a layer (as [abs_layer], with the values) *)
Fixpoint clayer (fuel : nat) (ls : layers_t) (p : prefix) (pb : key) : list (key * value) :=
  match fuel with
  | O => []
  | S f =>
    match layer_get ls p with
    | None => []
    | Some root =>
      flat_map (fun s => match sl_lv s with
                         | LValue v => [(pb ++ bytes_of_slice (ks (sl_key s)) (kl (sl_key s)), v)]
                         | LLink => clayer f ls (p ++ [ks (sl_key s)])
                                           (pb ++ bytes_of_slice (ks (sl_key s)) 8)
                         | LEmpty => []
                         end) (bt_elems root)
    end
  end.

(** the contribution of one entry *)
Definition cent (f : nat) (ls : layers_t) (p : prefix) (pb : key) (s : slot_t) : list (key * value) :=
  match sl_lv s with
  | LValue v => [(pb ++ bytes_of_slice (ks (sl_key s)) (kl (sl_key s)), v)]
  | LLink => clayer f ls (p ++ [ks (sl_key s)]) (pb ++ bytes_of_slice (ks (sl_key s)) 8)
  | LEmpty => []
  end.

Lemma clayer_S f ls p pb :
  clayer (S f) ls p pb =
  match layer_get ls p with None => [] | Some root => flat_map (cent f ls p pb) (bt_elems root) end.
Proof. reflexivity. Qed.

Definition abskv (kv : key * value) : key * aval := (fst kv, abs_value (snd kv)).

Lemma map_flat_map {A B C} (g : B -> C) (h : A -> list B) l :
  map g (flat_map h l) = flat_map (fun x => map g (h x)) l.
Proof. induction l as [|a l IH]; [reflexivity|]. cbn [flat_map]. rewrite map_app, IH. reflexivity. Qed.

Lemma abs_clayer : forall f ls p pb, abs_layer f ls p pb = map abskv (clayer f ls p pb).
Proof.
  induction f as [|f IH]; intros ls p pb; [reflexivity|]. cbn [abs_layer clayer].
  destruct (layer_get ls p) as [root|]; [|reflexivity].
  rewrite map_flat_map. apply flat_map_ext. intros s.
  destruct (sl_lv s); [reflexivity|reflexivity|apply IH].
Qed.

Lemma filter_map_abskv (P : key -> bool) l :
  filter (fun kv => P (fst kv)) (map abskv l) = map abskv (filter (fun kv => P (fst kv)) l).
Proof.
  induction l as [|x l IH]; [reflexivity|]. cbn [map filter]. cbn [abskv fst].
  destruct (P (fst x)); [cbn [map]; rewrite IH; reflexivity|exact IH].
Qed.

(** ** 5. one border: [scan_entries] *)
Definition Pabs (pb l : key) (le : endpoint) (r : key) (re : endpoint) (kv : key * value) : bool :=
  in_left (pb ++ l) le (fst kv) && in_right r re (fst kv).

Lemma in_left_app pb l le k : in_left (pb ++ l) le (pb ++ k) = in_left l le k.
Proof. destruct le; cbn [in_left]; rewrite ?lex_lt_app; reflexivity. Qed.

Lemma filter_nil_iff {A} (P : A -> bool) l : filter P l = [] <-> forall x, In x l -> P x = false.
Proof.
  induction l as [|a l IH]; cbn [filter]; [split; [intros _ x []|reflexivity]|].
  destruct (P a) eqn:E.
  - split; [discriminate|]. intros H. rewrite (H a (or_introl eq_refl)) in E. discriminate.
  - rewrite IH. split.
    + intros H x [<-|Hx]; [exact E|apply H; exact Hx].
    + intros H x Hx. apply H. right. exact Hx.
Qed.

Lemma wf8 t : kt_wf t = true -> kt_wf {| ks := ks t; kl := 8 |} = true.
Proof.
  intros H. apply kt_wf_spec in H. destruct H as (H1 & H2 & H3). apply kt_wf_spec. cbn [ks kl].
  split; [lia|]. split; [exact H2|]. intros X. lia.
Qed.

(** every key whose first tuple is above [kt] is above the bytes of [kt] *)
Lemma tbytes_lt kt kt' rest :
  kt_wf kt = true -> canon_lt kt kt' = true -> bytes rest -> tuple_of_key rest = kt' ->
  lex_lt (tbytes kt) rest = true.
Proof.
  intros Hw Hlt Hb Ht.
  assert (canon_lt (tuple_of_key (tbytes kt)) kt' = true) as H.
  { pose proof (wf_len_le kt Hw) as H9.
    destruct (N.le_gt_cases (kl kt) 8) as [H8|H8].
    - rewrite (tuple_of_tbytes kt Hw H8). exact Hlt.
    - assert (kl kt = 9) as E9 by lia. rewrite (tbytes9 kt E9).
      change (bytes_of_slice (ks kt) 8) with (tbytes {| ks := ks kt; kl := 8 |}).
      rewrite (tuple_of_tbytes _ (wf8 kt Hw)) by (cbn [kl]; lia).
      eapply canon_lt_trans; [|exact Hlt]. unfold canon_lt. cbn [ks kl]. lia. }
  rewrite (lex_tuple (tbytes kt) rest (bos_bytes _ _) Hb), Ht, H. reflexivity.
Qed.

(** the keys below a link *)
Lemma link_key_shape kt rest :
  kt_wf kt = true -> kl kt = 9 -> bytes rest -> tuple_of_key rest = kt ->
  exists rest', rest = bytes_of_slice (ks kt) 8 ++ rest' /\ bytes rest' /\ rest' <> [].
Proof.
  intros Hw H9 Hb Ht.
  assert (8 < length rest)%nat as Hlen.
  { destruct (Nat.le_gt_cases (length rest) 8) as [H|H]; [|exact H].
    pose proof (tuple_kl_short rest H) as X. rewrite Ht, H9 in X. lia. }
  exists (skipn 8 rest). split; [|split].
  - rewrite <- Ht, (bos8_tuple_long rest Hb Hlen). symmetry. apply firstn_skipn.
  - apply bytes_skipn. exact Hb.
  - intros X. apply (f_equal (@length N)) in X. rewrite skipn_length in X. cbn [length] in X. lia.
Qed.

Section Entries.
  Variable fix2 : bool.
  Variable sub : prefix -> key -> key -> endpoint -> key -> endpoint -> scan_acc -> option scan_acc.
  Variable mx : nat.
  Variable p : prefix. Variable pb : key.
  Variable l : key. Variable le : endpoint. Variable r : key. Variable re : endpoint.
  Variable bid bver : N.

  Local Notation SE := (scan_entries fix2 sub mx p pb l le r re bid bver).

  Lemma scan_entries_cons i s rest pushed acc :
    SE ((i, s) :: rest) pushed acc =
    (let kt := sl_key s in
     let full := pb ++ bytes_of_slice (ks kt) (kl kt) in
     if 8 <? kl kt then
       match larg_f l le kt with
       | None => SE rest pushed acc
       | Some (al, ale) =>
         match rarg_f r re full with
         | None => (SB_END, pushed, if fix2 && negb pushed then acc_push_nv acc bid bver else acc)
         | Some None => (SB_ERR, pushed, acc)
         | Some (Some (ar, are)) =>
           match sub (p ++ [ks kt]) full al ale ar are acc with
           | None => (SB_ERR, pushed, acc)
           | Some acc' =>
             if max_reached mx acc'
             then (SB_END, pushed, if fix2 && negb pushed then acc_push_nv acc' bid bver else acc')
             else SE rest pushed acc'
           end
         end
       end
     else
       match sl_lv s with
       | LValue v =>
         let in_range (_ : unit) :=
           let acc' := acc_push_t acc full v bid bver in
           if max_reached mx acc' then (SB_END, true, acc') else SE rest true acc' in
         if negb (pass_left_f l le kt) then SE rest pushed acc
         else
           match re with
           | EP_INF => in_range tt
           | _ => if inr_f r re full then in_range tt
                  else (SB_END, pushed, if pushed then acc else acc_push_nv acc bid bver)
           end
       | _ => (SB_ERR, pushed, acc)
       end).
  Proof. reflexivity. Qed.

  Lemma re_match {A} (full : key) (X Y : A) :
    match re with
    | EP_INF => X
    | _ => if inr_f r re full then X else Y
    end = if in_right r re full then X else Y.
  Proof. destruct re; rewrite ?inr_f_spec by discriminate; reflexivity. Qed.

  Variable ls : layers_t.
  Variable f : nat.
  Hypothesis Hl : bytes l.
  Hypothesis Hsub : forall x al ale ar are acc,
    layer_get ls (p ++ [x]) <> None -> bytes al -> (ale = EP_INF -> al = []) ->
    mr mx (ac_tuples acc) = false ->
    exists acc', sub (p ++ [x]) (pb ++ bytes_of_slice x 8) al ale ar are acc = Some acc' /\
      ac_tuples acc' =
        trunc mx (ac_tuples acc ++
                  filter (Pabs (pb ++ bytes_of_slice x 8) al ale ar are)
                         (clayer f ls (p ++ [x]) (pb ++ bytes_of_slice x 8))).

  Local Notation P := (Pabs pb l le r re).
  Local Notation CE := (cent f ls p pb).

  Definition eok (s : slot_t) : Prop :=
    entry_ok s /\
    (sl_lv s = LLink -> layer_get ls (p ++ [ks (sl_key s)]) <> None) /\
    (forall kv, In kv (CE s) ->
       exists rest, fst kv = pb ++ rest /\ bytes rest /\ tuple_of_key rest = sl_key s).

  (** nothing at or after an entry whose lower bound is beyond [r] is in range *)
  Lemma dead_filter s more :
    re <> EP_INF -> lex_lt (pb ++ tbytes (sl_key s)) r = false ->
    (forall kv, In kv (CE s) -> in_right r re (fst kv) = false) ->
    Forall eok (s :: more) -> sorted_keys (map sl_key (s :: more)) ->
    filter P (flat_map CE (s :: more)) = [].
  Proof.
    intros Hre Hdead Hs Hok Hsorted. apply filter_nil_iff. intros kv Hin.
    unfold Pabs. apply andb_false_iff. right.
    apply in_flat_map in Hin. destruct Hin as (s' & [<-|Hs'] & Hkv); [apply Hs; exact Hkv|].
    cbn [map] in Hsorted. apply sorted_cons_iff in Hsorted. destruct Hsorted as [_ Hlt].
    rewrite Forall_forall in Hlt. specialize (Hlt (sl_key s') (in_map sl_key _ _ Hs')).
    rewrite Forall_forall in Hok. destruct (Hok s (or_introl eq_refl)) as ((Hw & _) & _).
    destruct (Hok s' (or_intror Hs')) as (_ & _ & Hsh). destruct (Hsh kv Hkv) as (rest & -> & Hb & Ht).
    eapply in_right_dead; [exact Hre|exact Hdead|]. rewrite lex_lt_app.
    eapply tbytes_lt; eassumption.
  Qed.

  Lemma F_cons s more : filter P (flat_map CE (s :: more)) = filter P (CE s) ++ filter P (flat_map CE more).
  Proof. cbn [flat_map]. apply filter_app. Qed.

  Definition se_post (acc : scan_acc) (es : list slot_t) (later : list slot_t)
             (res : sb_res * bool * scan_acc) : Prop :=
    match res with
    | (SB_ERR, _, _) => False
    | (SB_CONT, _, acc') =>
        mr mx (ac_tuples acc') = false /\
        ac_tuples acc' = ac_tuples acc ++ filter P (flat_map CE es)
    | (SB_END, _, acc') =>
        ac_tuples acc' = trunc mx (ac_tuples acc ++ filter P (flat_map CE (es ++ later)))
    end.

  (** an entry that contributes nothing *)
  Lemma se_post_skip acc s es later res :
    filter P (CE s) = [] -> se_post acc es later res -> se_post acc (s :: es) later res.
  Proof.
    intros H0. unfold se_post. destruct res as [[res pu] acc']. destruct res; [| |exact (fun x => x)].
    - rewrite <- app_comm_cons, F_cons, H0. exact (fun x => x).
    - rewrite F_cons, H0. exact (fun x => x).
  Qed.

  (** an entry that contributed [F] and the scan goes on with [acc1] *)
  Lemma se_post_step acc acc1 s es later res :
    ac_tuples acc1 = ac_tuples acc ++ filter P (CE s) ->
    se_post acc1 es later res -> se_post acc (s :: es) later res.
  Proof.
    intros H1. unfold se_post. destruct res as [[res pu] acc']. destruct res; [| |exact (fun x => x)].
    - rewrite <- app_comm_cons, F_cons, H1, <- app_assoc. exact (fun x => x).
    - rewrite F_cons, H1, <- app_assoc. exact (fun x => x).
  Qed.

  Lemma scan_entries_spec : forall es later pushed acc,
    Forall eok (map snd es ++ later) ->
    sorted_keys (map sl_key (map snd es ++ later)) ->
    mr mx (ac_tuples acc) = false ->
    se_post acc (map snd es) later (SE es pushed acc).
  Proof.
    induction es as [|[i s] rest IH]; intros later pushed acc Hok Hsorted Hmr.
    - cbn [scan_entries map flat_map se_post filter]. split; [exact Hmr|]. rewrite app_nil_r. reflexivity.
    - cbn [map snd] in Hok, Hsorted |- *. rewrite <- app_comm_cons in Hok, Hsorted.
      pose proof Hok as Hok0. pose proof Hsorted as Hsorted0.
      apply Forall_cons_iff in Hok. destruct Hok as [Hs Hok].
      cbn [map] in Hsorted. apply sorted_cons_iff in Hsorted. destruct Hsorted as [Hsorted _].
      destruct Hs as ((Hw & Hlv) & Hlink & Hshape).
      rewrite scan_entries_cons. cbv zeta.
      destruct (sl_lv s) as [|v|] eqn:Elv; [contradiction| |].
      + (* a value *)
        destruct (N.ltb_spec 8 (kl (sl_key s))) as [X|_]; [lia|].
        assert (CE s = [(pb ++ tbytes (sl_key s), v)]) as ECE by (unfold cent; rewrite Elv; reflexivity).
        assert (P (pb ++ tbytes (sl_key s), v) =
                in_left l le (tbytes (sl_key s)) && in_right r re (pb ++ tbytes (sl_key s))) as EP.
        { unfold Pabs. cbn [fst]. rewrite in_left_app. reflexivity. }
        rewrite (pass_left_f_spec l le (sl_key s) Hl Hw Hlv).
        fold (tbytes (sl_key s)).
        destruct (in_left l le (tbytes (sl_key s))) eqn:EL; cbn [negb].
        * rewrite re_match.
          destruct (in_right r re (pb ++ tbytes (sl_key s))) eqn:ER.
          -- (* pushed *)
             assert (filter P (CE s) = [(pb ++ tbytes (sl_key s), v)]) as EF.
             { rewrite ECE. cbn [filter]. rewrite EP. reflexivity. }
             rewrite max_reached_mr. cbn [acc_push_t ac_tuples].
             match goal with |- context [if ?c then _ else _] => destruct c eqn:EM end.
             ++ cbn [se_post ac_tuples]. rewrite <- app_comm_cons, F_cons, EF, app_assoc.
                rewrite (trunc_reached _ _ _ EM). symmetry. apply trunc_push. exact Hmr.
             ++ eapply se_post_step; [|apply IH; [exact Hok|exact Hsorted|exact EM]].
                rewrite EF. reflexivity.
          -- (* beyond the right end *)
             pose proof ER as ER0. apply in_right_false_le in ER. destruct ER as [Hre Hdead].
             assert (filter P (flat_map CE (s :: map snd rest ++ later)) = []) as D.
             { apply dead_filter; try assumption. intros kv Hkv. rewrite ECE in Hkv.
               destruct Hkv as [<-|[]]. exact ER0. }
             cbn [se_post]. rewrite <- app_comm_cons, D, app_nil_r.
             destruct pushed; cbn [ac_tuples acc_push_nv]; symmetry; apply trunc_id; exact Hmr.
        * apply se_post_skip; [|apply IH; assumption].
          rewrite ECE. cbn [filter]. rewrite EP. reflexivity.
      + (* a link *)
        set (kt := sl_key s) in *.
        assert (CE s = clayer f ls (p ++ [ks kt]) (pb ++ bytes_of_slice (ks kt) 8)) as ECE
          by (unfold cent; rewrite Elv; reflexivity).
        rewrite Hlv. change (8 <? 9) with true. cbv iota.
        change (bytes_of_slice (ks kt) 9) with (bytes_of_slice (ks kt) 8).
        assert (forall kv, In kv (CE s) ->
                  exists rest', fst kv = (pb ++ bytes_of_slice (ks kt) 8) ++ rest' /\
                                bytes rest' /\ rest' <> []) as Hkeys.
        { intros kv Hkv. destruct (Hshape kv Hkv) as (rest0 & E & Hb & Ht).
          destruct (link_key_shape kt rest0 Hw Hlv Hb Ht) as (rest' & -> & Hb' & Hne).
          exists rest'. rewrite E, app_assoc. auto. }
        pose proof (larg_f_spec l le kt Hl Hw Hlv) as LA.
        destruct (larg_f l le kt) as [[al ale]|].
        * destruct LA as [[Hal Hinf] LA].
          pose proof (rarg_f_spec r re (pb ++ bytes_of_slice (ks kt) 8)) as RA.
          destruct (rarg_f r re (pb ++ bytes_of_slice (ks kt) 8)) as [[[ar are]|]|].
          -- destruct (Hsub (ks kt) al ale ar are acc (Hlink eq_refl) Hal Hinf Hmr) as (acc1 & Es & Ts).
             rewrite Es.
             assert (filter (Pabs (pb ++ bytes_of_slice (ks kt) 8) al ale ar are)
                            (clayer f ls (p ++ [ks kt]) (pb ++ bytes_of_slice (ks kt) 8)) =
                     filter P (CE s)) as EF.
             { rewrite ECE. apply filter_ext_in. intros kv Hkv. rewrite <- ECE in Hkv.
               destruct (Hkeys kv Hkv) as (rest' & E & Hb' & Hne). unfold Pabs. rewrite E.
               rewrite in_left_app, RA, (LA rest' Hb' Hne), <- app_assoc, in_left_app. reflexivity. }
             rewrite EF in Ts. rewrite max_reached_mr.
             match goal with |- context [if ?c then _ else _] => destruct c eqn:EM end.
             ++ cbn [se_post]. rewrite <- app_comm_cons, F_cons, app_assoc.
                rewrite Ts in EM. rewrite mr_trunc in EM. rewrite (trunc_reached _ _ _ EM).
                destruct (fix2 && negb pushed); cbn [ac_tuples acc_push_nv]; exact Ts.
             ++ eapply se_post_step; [|apply IH; [exact Hok|exact Hsorted|exact EM]].
                rewrite Ts. apply trunc_id. rewrite Ts, mr_trunc in EM. exact EM.
          -- contradiction.
          -- destruct RA as [Hre Hdead].
             assert (filter P (flat_map CE (s :: map snd rest ++ later)) = []) as D.
             { apply dead_filter; try assumption.
               - fold kt. rewrite (tbytes9 kt Hlv). exact Hdead.
               - intros kv Hkv. destruct (Hkeys kv Hkv) as (rest' & -> & Hb' & Hne).
                 eapply in_right_dead; [exact Hre|exact Hdead|]. apply lex_lt_prefix. exact Hne. }
             cbn [se_post]. rewrite <- app_comm_cons, D, app_nil_r.
             destruct (fix2 && negb pushed); cbn [ac_tuples acc_push_nv]; symmetry; apply trunc_id; exact Hmr.
        * apply se_post_skip; [|apply IH; assumption].
          apply filter_nil_iff. intros kv Hkv. destruct (Hkeys kv Hkv) as (rest' & E & Hb' & Hne).
          unfold Pabs. rewrite E, <- app_assoc, in_left_app, (LA rest' Hb' Hne). reflexivity.
  Qed.
End Entries.

(** ** 6. the border chain: [scan_leaves], left to right *)
Section Leaves.
  Variable fix2 : bool.
  Variable sub : prefix -> key -> key -> endpoint -> key -> endpoint -> scan_acc -> option scan_acc.
  Variable mx : nat.
  Variable p : prefix. Variable pb : key.
  Variable l : key. Variable le : endpoint. Variable r : key. Variable re : endpoint.
  Variable ls : layers_t.
  Variable f : nat.
  Hypothesis Hl : bytes l.
  Hypothesis Hsub : forall x al ale ar are acc,
    layer_get ls (p ++ [x]) <> None -> bytes al -> (ale = EP_INF -> al = []) ->
    mr mx (ac_tuples acc) = false ->
    exists acc', sub (p ++ [x]) (pb ++ bytes_of_slice x 8) al ale ar are acc = Some acc' /\
      ac_tuples acc' =
        trunc mx (ac_tuples acc ++
                  filter (Pabs (pb ++ bytes_of_slice x 8) al ale ar are)
                         (clayer f ls (p ++ [x]) (pb ++ bytes_of_slice x 8))).

  Lemma scan_leaves_spec : forall lvs acc,
    Forall (eok p pb ls f) (flat_map leaf_entries lvs) ->
    sorted_keys (map sl_key (flat_map leaf_entries lvs)) ->
    mr mx (ac_tuples acc) = false ->
    exists acc', scan_leaves fix2 sub mx false p pb l le r re lvs acc = Some acc' /\
      ac_tuples acc' =
        trunc mx (ac_tuples acc ++
                  filter (Pabs pb l le r re) (flat_map (cent f ls p pb) (flat_map leaf_entries lvs))).
  Proof.
    induction lvs as [|lf rest IH]; intros acc Hok Hsorted Hmr.
    - exists acc. split; [reflexivity|]. cbn [flat_map filter]. rewrite app_nil_r.
      symmetry. apply trunc_id. exact Hmr.
    - cbn [scan_leaves flat_map] in *.
      pose proof (scan_entries_spec fix2 sub mx p pb l le r re (lf_id lf) (lf_ver lf) ls f Hl Hsub
                    (leaf_ranked lf) (flat_map leaf_entries rest) false acc Hok Hsorted Hmr) as S.
      fold (leaf_entries lf) in S.
      destruct (scan_entries fix2 sub mx p pb l le r re (lf_id lf) (lf_ver lf) (leaf_ranked lf) false acc)
        as [[res pu] acc1].
      destruct res; cbn [se_post] in S.
      + exists acc1. split; [reflexivity|exact S].
      + destruct S as [M1 T1].
        set (acc2 := if pu then acc1 else acc_push_nv acc1 (lf_id lf) (lf_ver lf)).
        assert (ac_tuples acc2 = ac_tuples acc1) as E2 by (unfold acc2; destruct pu; reflexivity).
        destruct (IH acc2) as (acc' & E & T').
        { rewrite Forall_app in Hok. apply Hok. }
        { rewrite map_app in Hsorted. apply sorted_app_iff in Hsorted. apply Hsorted. }
        { rewrite E2. exact M1. }
        exists acc'. split; [destruct rest; exact E|].
        rewrite T', E2, T1, flat_map_app, filter_app, app_assoc. reflexivity.
      + contradiction.
  Qed.
End Leaves.

(** ** 7. the descent *)
Lemma slice_app : forall n a b, (length a <= n)%nat ->
  slice_of_bytes (a ++ b) n = slice_of_bytes a n + slice_of_bytes b (n - length a).
Proof.
  induction n as [|n IH]; intros a b Hl.
  - rewrite !slice_0. reflexivity.
  - destruct a as [|x a]; cbn [app length].
    + rewrite slice_nil. reflexivity.
    + cbn [slice_of_bytes]. cbn [length] in Hl. rewrite IH by lia. cbn [Nat.sub]. lia.
Qed.

Lemma slice_firstn_ge n m : forall k, (m <= n)%nat -> slice_of_bytes (firstn n k) m = slice_of_bytes k m.
Proof.
  intros k H. rewrite <- (slice_firstn m (firstn n k)), firstn_firstn, Nat.min_l by exact H.
  apply slice_firstn.
Qed.

(** the top [m] bytes of the slice only depend on the first [m] bytes of the key *)
Lemma slice_shift l n m :
  bytes l -> (n <= length l)%nat -> (n <= 8)%nat -> (m <= n)%nat ->
  N.shiftr (slice_of_bytes l 8) (8 * (8 - N.of_nat m)) =
  N.shiftr (slice_of_bytes (firstn n l) 8) (8 * (8 - N.of_nat m)).
Proof.
  intros Hb Hn H8 Hm.
  rewrite <- (firstn_skipn n l) at 1.
  assert (length (firstn n l) = n) as Hlen by (apply firstn_length_le; exact Hn).
  rewrite slice_app by lia. rewrite Hlen.
  set (a := firstn n l) in *.
  assert (slice_of_bytes a 8 mod 256 ^ N.of_nat (8 - n) = 0) as Hpad.
  { rewrite <- Hlen. apply slice_pad. lia. }
  pose proof (slice_lt (8 - n) (skipn n l) (bytes_skipn n l Hb)) as He.
  set (A := slice_of_bytes a 8) in *. set (e := slice_of_bytes (skipn n l) (8 - n)) in *.
  set (d := 256 ^ N.of_nat (8 - n)) in *.
  assert (d <> 0) as Hd by (apply N.pow_nonzero; discriminate).
  rewrite !N.shiftr_div_pow2, N.pow_mul_r. change (2 ^ 8) with 256.
  assert (256 ^ (8 - N.of_nat m) = d * 256 ^ N.of_nat (n - m)) as ->.
  { unfold d. rewrite <- N.pow_add_r. f_equal. lia. }
  assert (256 ^ N.of_nat (n - m) <> 0) as Hc by (apply N.pow_nonzero; discriminate).
  rewrite <- !N.div_div by assumption. f_equal.
  pose proof (N.div_mod A d Hd) as DM. rewrite Hpad, N.add_0_r in DM.
  rewrite DM at 1. rewrite (N.mul_comm d), N.div_add_l by exact Hd.
  rewrite (N.div_small e d He). lia.
Qed.

Lemma descent_equiv l sep :
  bytes l -> kt_wf sep = true ->
  route_probe (scan_descent_tuple l false) sep =
  route_probe (tuple_of_key (firstn (N.to_nat (N.of_nat (length l) mod 256)) l)) sep.
Proof.
  intros Hb Hw. pose proof (wf_len_le sep Hw) as H9.
  set (nN := N.of_nat (length l) mod 256). set (n := N.to_nat nN).
  assert (nN <= N.of_nat (length l)) as HnN by (unfold nN; apply N.mod_le; discriminate).
  assert (n <= length l)%nat as Hn by lia.
  assert (length (firstn n l) = n) as Hlen by (apply firstn_length_le; exact Hn).
  unfold scan_descent_tuple. rewrite tuple_of_key_klen. unfold klen. rewrite Hlen.
  change (N.of_nat 8) with 8. fold nN.
  unfold route_probe. cbv zeta. cbn [ks kl].
  destruct (N.ltb_spec 8 (N.of_nat n)) as [H|H].
  - rewrite slice_firstn_ge by lia.
    replace (N.min (N.min nN (kl sep)) 8) with (N.min (N.min (8 + 1) (kl sep)) 8) by lia.
    replace (nN <? kl sep) with (8 + 1 <? kl sep) by lia. reflexivity.
  - replace (N.of_nat n) with nN by lia.
    set (m := N.min (N.min nN (kl sep)) 8).
    unfold memcmp_slice. cbv zeta.
    replace m with (N.of_nat (N.to_nat m)) by lia.
    rewrite (slice_shift l n (N.to_nat m) Hb Hn) by lia. reflexivity.
Qed.

Lemma route_ext keys d k :
  (forall s, In s keys -> route_probe d s = route_probe k s) -> forall i, route keys d i = route keys k i.
Proof.
  induction keys as [|s keys IH]; intros H i; [reflexivity|]. cbn [route].
  rewrite (H s (or_introl eq_refl)). destruct (route_probe k s); [reflexivity|].
  apply IH. intros s' Hs'. apply H. right. exact Hs'.
Qed.

Lemma bt_find_leaf_ext fuel : forall t lo hi d k,
  WF_bt lo hi t -> (forall s, kt_wf s = true -> route_probe d s = route_probe k s) ->
  bt_find_leaf fuel t d = bt_find_leaf fuel t k.
Proof.
  induction fuel as [|fu IH]; intros t lo hi d k Hwf Hext; [reflexivity|].
  destruct t as [lf|id ver keys ch]; [reflexivity|]. cbn [bt_find_leaf].
  apply WF_int_iff in Hwf. destruct Hwf as (_ & _ & _ & Hw & _ & Hc & _).
  rewrite (route_ext keys d k).
  2:{ intros s Hs. apply Hext. rewrite Forall_forall in Hw. apply Hw. exact Hs. }
  destruct (nth_error ch (route keys k 0)) as [c|] eqn:E; [|reflexivity].
  assert (route keys k 0 < length ch)%nat as Hi by (apply nth_error_Some; rewrite E; discriminate).
  apply (nth_error_nth _ _ dbt) in E. subst c. eapply IH; [apply Hc; exact Hi|exact Hext].
Qed.

(** the leaves to the left of the leaf found only hold smaller keys *)
Lemma bt_find_leaf_before fuel : forall t lo hi k,
  WF_bt lo hi t -> kt_wf k = true -> (bt_height t < fuel)%nat ->
  exists lf before after,
    bt_find_leaf fuel t k = Some lf /\ bt_leaves t = before ++ lf :: after /\
    (forall s, In s (flat_map leaf_entries before) -> canon_lt (sl_key s) k = true).
Proof.
  induction fuel as [|fu IH]; intros t lo hi k Hwf Hk Hh; [lia|].
  destruct t as [lf|id ver keys ch].
  - exists lf, [], []. split; [reflexivity|]. split; [reflexivity|intros s []].
  - apply WF_int_iff in Hwf. destruct Hwf as [Hn Hkids].
    destruct (kids_route lo hi keys ch k Hkids Hk) as (Hi & _ & _).
    destruct Hkids as (Hlen & Hs & Hw & Hsb & Hc & Hne).
    pose proof (route_is_pos keys k Hw Hk) as Hpos.
    set (i := route keys k 0) in *.
    cbn [bt_find_leaf]. fold i. rewrite (nth_error_child ch i Hi).
    destruct (IH (nth i ch dbt) _ _ k (Hc i Hi) Hk) as (lf & b' & a' & E & EL & Hb').
    { pose proof (height_child id ver keys ch i Hi). lia. }
    exists lf, (flat_map bt_leaves (firstn i ch) ++ b'), (a' ++ flat_map bt_leaves (skipn (S i) ch)).
    split; [exact E|]. split.
    + cbn [bt_leaves]. rewrite (flat_map_split bt_leaves dbt ch i Hi), EL, <- !app_assoc. reflexivity.
    + intros s Hin. rewrite flat_map_app in Hin. apply in_app_or in Hin.
      destruct Hin as [Hin|Hin]; [|apply Hb'; exact Hin].
      apply in_flat_map in Hin. destruct Hin as (lf0 & Hlf0 & Hs0).
      apply in_flat_map in Hlf0. destruct Hlf0 as (c & Hc0 & Hlf0).
      apply (In_nth _ _ dbt) in Hc0. destruct Hc0 as (j & Hj & Ej).
      rewrite firstn_length in Hj. rewrite nth_firstn in Ej.
      destruct (Nat.ltb_spec j i) as [Hji|Hji]; [|lia]. subst c.
      assert (In s (bt_elems (nth j ch dbt))) as Hel.
      { rewrite <- bt_leaves_elems. apply in_flat_map. exists lf0. split; assumption. }
      pose proof (WF_bt_keys_bnd _ _ _ (Hc j ltac:(lia))) as B. rewrite Forall_forall in B.
      destruct (B (sl_key s) (in_elems_in_keys _ _ Hel)) as [_ B2].
      destruct Hpos as (P1 & P2 & _). unfold hi_at in B2.
      destruct (Nat.ltb_spec j (length keys)) as [Hjk|Hjk]; [|lia]. cbn [hi_ok] in B2.
      eapply canon_lt_le_trans; [exact B2|apply P2; exact Hji].
Qed.

Lemma leaves_ids_NoDup t : NoDup (bt_ids t) -> NoDup (map lf_id (bt_leaves t)).
Proof.
  induction t as [lf|id ver keys ch IH] using bt_ind'; [exact (fun H => H)|].
  cbn [bt_ids bt_leaves]. intros H. apply NoDup_cons_iff in H. destruct H as [_ H].
  induction IH as [|c ch Hc _ IH2]; [constructor|].
  cbn [flat_map] in *. rewrite map_app. apply NoDup_app_inv in H. destruct H as (H1 & H2 & H3).
  apply NoDup_app_intro; [apply Hc; exact H1|apply IH2; exact H2|].
  intros x Hx1 Hx2. apply (H3 x).
  - apply in_map_iff in Hx1. destruct Hx1 as (lf & <- & Hlf). apply bt_leaves_ids_incl. exact Hlf.
  - apply in_map_iff in Hx2. destruct Hx2 as (lf & <- & Hlf).
    apply in_flat_map in Hlf. destruct Hlf as (c' & Hc' & Hlf). apply in_flat_map. exists c'.
    split; [exact Hc'|apply bt_leaves_ids_incl; exact Hlf].
Qed.

Lemma skip_to_split : forall before lf after,
  NoDup (map lf_id (before ++ lf :: after)) -> skip_to (lf_id lf) (before ++ lf :: after) = lf :: after.
Proof.
  induction before as [|b before IH]; intros lf after H; cbn [app skip_to].
  - rewrite N.eqb_refl. reflexivity.
  - cbn [app map] in H. apply NoDup_cons_iff in H. destruct H as [Hb H].
    destruct (N.eqb_spec (lf_id b) (lf_id lf)) as [E|E]; [|apply IH; exact H].
    exfalso. apply Hb. rewrite E. apply in_map. apply in_or_app. right. left. reflexivity.
Qed.

(** ** 8. one layer and the layers below it, left to right *)
Section Layer.
  Variable ctr : N.
  Variable ls : layers_t.
  Hypothesis W : WFL ctr ls None.

  Lemma eok_all p pb f root :
    layer_get ls p = Some root -> Forall (eok p pb ls f) (bt_elems root).
  Proof.
    intros Eg. pose proof (wl_layer _ _ _ W) as Hwf. pose proof (wl_nz _ _ _ W) as Hnz.
    apply Forall_forall. intros s Hin.
    pose proof (layer_entry_ok ls Hwf p root s Eg Hin) as Hok. split; [exact Hok|]. split.
    - intros Hl. apply (wl_link _ _ _ W p root _ Eg); [|discriminate].
      rewrite <- (link_entry s Hok Hl). exact Hin.
    - intros kv Hkv. destruct Hok as [Hw Hlv]. unfold cent in Hkv.
      destruct (sl_lv s) as [|v|] eqn:Elv; [destruct Hkv| |].
      + destruct Hkv as [<-|[]]. exists (tbytes (sl_key s)). cbn [fst].
        split; [reflexivity|]. split; [apply bos_bytes|apply tuple_of_tbytes; assumption].
      + assert (In (abskv kv) (abs_layer f ls (p ++ [ks (sl_key s)]) (pb ++ bytes_of_slice (ks (sl_key s)) 8))) as Ha.
        { rewrite abs_clayer. apply in_map. exact Hkv. }
        destruct kv as [k v]. cbn [abskv fst snd] in Ha.
        apply (abs_layer_shape ls Hwf Hnz) in Ha. destruct Ha as (r0 & -> & Hb & Hne).
        exists (bytes_of_slice (ks (sl_key s)) 8 ++ r0). cbn [fst].
        split; [rewrite app_assoc; reflexivity|].
        split; [apply Forall_app; split; [apply bos_bytes|exact Hb]|].
        apply tuple_of_link; try assumption. apply Hne. destruct p; discriminate.
  Qed.

  Variable fix2 : bool.
  Variable mx : nat.

  Theorem scan_layer_fwd : forall fuel p pb l le r re acc,
    layer_get ls p <> None -> (length ls < fuel + length p)%nat ->
    bytes l -> (le = EP_INF -> l = []) -> mr mx (ac_tuples acc) = false ->
    exists acc',
      scan_layer fix2 fuel ls mx false p pb l le r re acc = Some acc' /\
      ac_tuples acc' =
        trunc mx (ac_tuples acc ++ filter (Pabs pb l le r re) (clayer fuel ls p pb)).
  Proof.
    induction fuel as [|f IH]; intros p pb l le r re acc Hex Hfuel Hl Hinf Hmr.
    { pose proof (layer_depth ctr ls None p W Hex). lia. }
    cbn [scan_layer]. rewrite clayer_S.
    destruct (layer_get ls p) as [root|] eqn:Eg; [|contradiction].
    destruct (wl_layer _ _ _ W p root Eg) as [Hwf Hnd].
    (* the descent *)
    set (l' := firstn (N.to_nat (N.of_nat (length l) mod 256)) l).
    assert (bytes l') as Hl' by (apply Forall_firstn; exact Hl).
    pose proof (tuple_of_key_wf l' Hl') as Hk'.
    assert (find_leaf root (scan_descent_tuple l false) = find_leaf root (tuple_of_key l')) as Efl.
    { unfold find_leaf. eapply bt_find_leaf_ext; [exact Hwf|]. intros s Hs. apply descent_equiv; assumption. }
    destruct (bt_find_leaf_before (S (bt_height root)) root None None (tuple_of_key l') Hwf Hk' ltac:(lia))
      as (lf & before & after & Ef & Elv & Hbefore).
    rewrite Efl. unfold find_leaf. rewrite Ef. rewrite Elv.
    rewrite skip_to_split by (rewrite <- Elv; apply leaves_ids_NoDup; exact Hnd).
    (* the elements *)
    pose proof (bt_leaves_elems root) as Eel. rewrite Elv, flat_map_app in Eel.
    pose proof (eok_all p pb f root Eg) as Hok. rewrite <- Eel in Hok.
    pose proof (WF_bt_sorted None None root Hwf) as Hsorted. unfold bt_keys in Hsorted.
    rewrite <- Eel, map_app in Hsorted.
    apply Forall_app in Hok. destruct Hok as [Hok1 Hok2].
    apply sorted_app_iff in Hsorted. destruct Hsorted as (_ & Hsorted2 & _).
    destruct (scan_leaves_spec fix2 (scan_layer fix2 f ls mx false) mx p pb l le r re ls f Hl) with
      (lvs := lf :: after) (acc := acc) as (acc' & Es & Ts); try assumption.
    { intros x al ale ar are acc0 Hex0 Hal Hinf0 Hmr0. apply IH; try assumption.
      rewrite app_length. cbn [length]. lia. }
    exists acc'. split; [exact Es|]. rewrite Ts, <- Eel, flat_map_app, filter_app.
    assert (filter (Pabs pb l le r re) (flat_map (cent f ls p pb) (flat_map leaf_entries before)) = []) as ->;
      [|reflexivity].
    apply filter_nil_iff. intros kv Hkv. apply in_flat_map in Hkv. destruct Hkv as (s & Hs & Hkv).
    rewrite Forall_forall in Hok1. destruct (Hok1 s Hs) as (_ & _ & Hsh).
    destruct (Hsh kv Hkv) as (rest & E & Hb & Ht).
    pose proof (Hbefore s Hs) as Hlt.
    assert (lex_lt rest l' = true) as H1.
    { rewrite (lex_tuple rest l' Hb Hl'), Ht, Hlt. reflexivity. }
    assert (lex_lt rest l = true) as H2.
    { eapply lex_lt_le_trans; [exact H1|]. unfold l'.
      rewrite <- (firstn_skipn (N.to_nat (N.of_nat (length l) mod 256)) l) at 1. apply lex_lt_prefix_le. }
    unfold Pabs. rewrite E, in_left_app. apply andb_false_iff. left.
    destruct le; cbn [in_left].
    - apply lex_lt_asym. exact H2.
    - rewrite H2. reflexivity.
    - rewrite (Hinf eq_refl), lex_lt_nil_r in H2. discriminate.
  Qed.
End Layer.
