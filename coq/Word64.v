(** * Word64: 64-bit machine words as [N] with explicit wrap-around.

    Executable definitions only (no proofs): the model keeps running when a
    proof breaks.  Shifts are the C++ ones for shift amounts < 64; that every
    shift the modelled code performs is < 64 is a separate theorem
    (C19_no_ub_shift). *)
From Coq Require Export NArith List Bool.
Export ListNotations.
Local Open Scope N_scope.

Definition w64 : N := 18446744073709551616. (* 2^64 *)
Definition mask64 : N := 18446744073709551615.

(** truncate to 64 bits *)
Definition trunc64 (w : N) : N := N.land w mask64.

(** [x << k] on uint64_t, k < 64 *)
Definition shl (w k : N) : N := trunc64 (N.shiftl w k).
(** [x >> k] on uint64_t, k < 64 *)
Definition shr (w k : N) : N := N.shiftr w k.
(** [~x] on uint64_t *)
Definition not64 (w : N) : N := N.lxor (trunc64 w) mask64.
(** wrapping [x + y], [x - y] on uint64_t *)
Definition add64 (a b : N) : N := (a + b) mod w64.
Definition sub64 (a b : N) : N := (a + w64 - (b mod w64)) mod w64.

(** i-th 4-bit field *)
Definition nib (w i : N) : N := N.land (N.shiftr w (4 * i)) 15.

(** bit field [lo, lo+len) of a word *)
Definition field (w lo len : N) : N := N.land (N.shiftr w lo) (N.ones len).
(** replace the bit field [lo, lo+len) by [v mod 2^len] *)
Definition set_field (w lo len v : N) : N :=
  N.lor (N.ldiff w (N.shiftl (N.ones len) lo))
        (N.shiftl (N.land v (N.ones len)) lo).
