(** * C15 -- an out-of-line value block is laid out so that header and body
    never overlap, the body is aligned as requested, what is released equals
    what was allocated, and the tag bits of a slot word are read back as they
    were written.  Property theorems only; each closed by [exact]. *)
From Coq Require Import NArith.
From Yk Require Import Word64 ValueDefs ValueProofs.
Local Open Scope N_scope.

(** for every length that fits the 32-bit header field and every power-of-two
    alignment up to 4096: the allocation request, the body offset read back from
    the header (>= the 8 header bytes, body inside the block, body address
    aligned to [align] when the block is aligned as requested of operator new),
    and the length read back *)
Theorem C15_layout : forall len align,
  len < 2 ^ 32 -> (exists k, align = 2 ^ k /\ k <= 12) ->
  let b := create_value_block len align in
  let a := N.max align 8 in
  vb_alloc_align b = a /\
  vb_alloc_size b = len + a /\
  vb_body_offset b = a /\
  8 <= vb_body_offset b /\
  vb_body_offset b + len <= vb_alloc_size b /\
  (forall base, base mod a = 0 -> (base + vb_body_offset b) mod align = 0) /\
  vb_get_len b = len.
Proof. exact c15_layout. Qed.
Print Assumptions C15_layout.

(** size and alignment handed to operator delete / the garbage collector are
    those handed to operator new, as long as the 32-bit sum [len_ + align_]
    does not wrap *)
Theorem C15_release_matches_allocation : forall len align,
  len < 2 ^ 32 -> (exists k, align = 2 ^ k /\ k <= 12) ->
  len + N.max align 8 < 2 ^ 32 ->
  let b := create_value_block len align in
  vb_gc_size b = vb_alloc_size b /\ vb_gc_align b = vb_alloc_align b.
Proof. exact c15_release_matches_allocation. Qed.
Print Assumptions C15_release_matches_allocation.

(** side remark (outside the quantifier of [C15_release_matches_allocation];
    values are up to several MiB): within [max align 8] of 2^32 the 32-bit sum
    [len_ + align_] wraps and the released size is not the allocated one *)
Theorem C15_release_wrap_refuted :
  exists len align, len < 2 ^ 32 /\ (exists k, align = 2 ^ k /\ k <= 12) /\
    vb_gc_size (create_value_block len align) <>
    vb_alloc_size (create_value_block len align).
Proof. exact c15_release_wrap_refuted. Qed.
Print Assumptions C15_release_wrap_refuted.

(** tag bits: a tagged value pointer is recognised, untagged to the original,
    returned by get_value and never taken for a link; a tagged child pointer is
    returned (untagged) by get_next_layer and never taken for a value; the
    initial word is neither; the all-zero word holds no value *)
Theorem C15_pointer_tags :
  (forall p, p < 2 ^ 62 ->
     remove_ptr_flag (tag_value_ptr p) = p /\
     is_value_ptr (tag_value_ptr p) = true /\
     (p <> 0 -> lv_get_value (tag_value_ptr p) = Some (tag_value_ptr p)) /\
     lv_get_next_layer (tag_value_ptr p) = None) /\
  (forall p, p < 2 ^ 62 ->
     lv_get_next_layer (tag_child_ptr p) = Some p /\
     lv_get_value (tag_child_ptr p) = None) /\
  (lv_get_value lv_init = None /\ lv_get_next_layer lv_init = None) /\
  lv_get_value 0 = None.
Proof. exact c15_pointer_tags. Qed.
Print Assumptions C15_pointer_tags.

(** an inline word with bits 62 and 63 clear is stored and returned by value *)
Theorem C15_inline_by_value : forall w,
  w < 2 ^ 62 ->
  value_is_inline w = true /\
  is_value_ptr w = false /\
  (w <> 0 -> lv_get_value w = Some w) /\
  lv_get_next_layer w = None.
Proof. exact c15_inline_by_value. Qed.
Print Assumptions C15_inline_by_value.

(** side remark (outside the quantifier of [C15_layout]): a length of 2^32 or
    more is not read back *)
Theorem C15_len_overflow_refuted :
  exists len, 2 ^ 32 <= len /\ vb_get_len (create_value_block len 8) <> len.
Proof. exact c15_len_overflow_refuted. Qed.
Print Assumptions C15_len_overflow_refuted.

(** side remark (outside the quantifier of [C15_inline_by_value]): an inline
    word with bit 62 set is taken for a pointer *)
Theorem C15_inline_bit62_refuted :
  exists w, w < 2 ^ 64 /\ N.testbit w 62 = true /\ value_is_inline w = false.
Proof. exact c15_inline_bit62_refuted. Qed.
Print Assumptions C15_inline_bit62_refuted.

(** non-vacuity: two concrete requests meet the hypotheses; the computed
    blocks are as the theorems say *)
Example C15_nonvacuous :
  (5 < 2 ^ 32 /\ (exists k, 1 = 2 ^ k /\ k <= 12) /\ 5 + N.max 1 8 < 2 ^ 32 /\
   create_value_block 5 1 =
     {| vb_alloc_size := 13; vb_alloc_align := 8; vb_hdr_len := 5; vb_hdr_align := 8 |} /\
   vb_body_offset (create_value_block 5 1) = 8 /\
   vb_gc_size (create_value_block 5 1) = 13) /\
  (4194305 < 2 ^ 32 /\ (exists k, 4096 = 2 ^ k /\ k <= 12) /\
   4194305 + N.max 4096 8 < 2 ^ 32 /\
   create_value_block 4194305 4096 =
     {| vb_alloc_size := 4198401; vb_alloc_align := 4096;
        vb_hdr_len := 4194305; vb_hdr_align := 4096 |} /\
   vb_body_offset (create_value_block 4194305 4096) = 4096 /\
   vb_gc_size (create_value_block 4194305 4096) = 4198401) /\
  lv_get_value (tag_value_ptr 4096) = Some (tag_value_ptr 4096) /\
  lv_get_next_layer (tag_child_ptr 4096) = Some 4096 /\
  lv_get_value 42 = Some 42.
Proof.
  split; [|split; [|split; [|split]]].
  - split; [vm_compute; reflexivity|].
    split; [exists 0; split; [vm_compute; reflexivity|vm_compute; discriminate]|].
    repeat split; vm_compute; reflexivity.
  - split; [vm_compute; reflexivity|].
    split; [exists 12; split; [vm_compute; reflexivity|vm_compute; discriminate]|].
    repeat split; vm_compute; reflexivity.
  - vm_compute; reflexivity.
  - vm_compute; reflexivity.
  - vm_compute; reflexivity.
Qed.
