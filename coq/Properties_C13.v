(** * C13 -- storages are a map of independent maps: the sequential system
    (outer tree of storage names + one user tree per storage) refines the
    map-of-maps specification for every scan-free operation sequence; writes to
    one storage never show through another; unknown names are rejected. *)
From Coq Require Import NArith List Bool.
From Yk Require Import KeyDefs KeyProofs TreeDefs ScanDefs SysDefs SpecDefs StoreProofs SysProofs.
Import ListNotations.
Local Open Scope N_scope.

Theorem C13_refines_map_of_maps : forall ops,
  Forall (fun o => noscan o = true) ops -> Forall op_bytes ops ->
  map abs_out (snd (exec_all sys_init ops)) = snd (spec_exec_all spec_init ops).
Proof. exact sys_refines_spec. Qed.
Print Assumptions C13_refines_map_of_maps.

Theorem C13_isolation : forall ops o n1 n2 k,
  Forall (fun o => noscan o = true) ops -> Forall op_bytes ops ->
  bytes n1 -> bytes n2 -> writes_to o n1 -> n1 <> n2 ->
  let s := fst (exec_all sys_init ops) in
  snd (exec (fst (exec s o)) (OGet n2 k)) = snd (exec s (OGet n2 k)).
Proof. exact sys_isolation. Qed.
Print Assumptions C13_isolation.

Theorem C13_unknown_storage : forall ops o n,
  Forall (fun o => noscan o = true) ops -> Forall op_bytes ops ->
  bytes n -> data_op_on o n ->
  ssys_get (sp_map (fst (spec_exec_all spec_init ops))) n = None ->
  let s := fst (exec_all sys_init ops) in
  exec s o = (s, RStatus St_WARN_STORAGE_NOT_EXIST).
Proof. exact sys_unknown_storage. Qed.
Print Assumptions C13_unknown_storage.

(** creates (one duplicate), puts into two storages under the shared key [1;2]
    (one unique-restricted, one long key), a drop, a re-create of the dropped
    name (it comes back empty), gets, removes, destroy twice *)
Definition C13_ops : list op :=
  [ OGet [97] [1];
    OCreate [97]; OCreate [98;99]; OCreate [97];
    OPut [97] [1;2] [10] 8 false false;
    OPut [98;99] [1;2] [20;21] 0 true true;
    OPut [98;99] [1;2] [22] 16 true false;
    OPut [97] [1;2;3;4;5;6;7;8;9;10] [11] 8 false false;
    OGet [97] [1;2]; OGet [98;99] [1;2];
    ORemove [98;99] [3];
    ODropStorage [97]; OFind [97]; OGet [97] [1;2]; OGet [98;99] [1;2];
    OCreate [97]; OGet [97] [1;2]; OPut [97] [1;2] [12] 8 false false; OGet [97] [1;2];
    ORemove [98;99] [1;2]; OGet [98;99] [1;2]; OGet [97] [1;2];
    ODestroy; OFind [98;99]; ODestroy ].

Definition C13_expected : list aout :=
  [ AStatus St_WARN_STORAGE_NOT_EXIST;
    AStatus St_OK; AStatus St_OK; AStatus St_WARN_UNIQUE_RESTRICTION;
    APut St_OK; APut St_OK; APut St_WARN_UNIQUE_RESTRICTION; APut St_OK;
    AGet St_OK (Some {| av_bytes := [10]; av_inline := false |});
    AGet St_OK (Some {| av_bytes := [20; 21]; av_inline := true |});
    ARemove St_OK_NOT_FOUND;
    AStatus St_OK; AStatus St_WARN_NOT_EXIST; AStatus St_WARN_STORAGE_NOT_EXIST;
    AGet St_OK (Some {| av_bytes := [20; 21]; av_inline := true |});
    AStatus St_OK; AGet St_WARN_NOT_EXIST None; APut St_OK;
    AGet St_OK (Some {| av_bytes := [12]; av_inline := false |});
    ARemove St_OK; AGet St_WARN_NOT_EXIST None;
    AGet St_OK (Some {| av_bytes := [12]; av_inline := false |});
    AStatus St_OK_DESTROY_ALL; AStatus St_WARN_NOT_EXIST; AStatus St_OK_ROOT_IS_NULL ].

Example C13_nonvacuous :
  Forall (fun o => noscan o = true) C13_ops /\ Forall op_bytes C13_ops /\
  map abs_out (snd (exec_all sys_init C13_ops)) = C13_expected /\
  snd (spec_exec_all spec_init C13_ops) = C13_expected.
Proof.
  split; [repeat constructor|]. split.
  - unfold C13_ops, op_bytes, bytes. repeat (constructor; try reflexivity).
  - split; vm_compute; reflexivity.
Qed.

(** ** with list_storages and scans in the history (SysScanProofs) *)
From Yk Require Import SysScanProofs.
Theorem C13_refines_map_of_maps_all_ops : forall ops, Forall op_bytes ops ->
  map abs_out (snd (exec_all sys_init ops)) = snd (spec_exec_all spec_init ops).
Proof. exact sys_refines_spec_all. Qed.
Print Assumptions C13_refines_map_of_maps_all_ops.

(** ** Concurrent creates / deletes of ONE name: exactly one reports success (BorderUniqueProofs).
    create_storage is a unique insert, delete_storage a remove, of the name in the directory tree; on one border node,
    for every interleaving, any number of threads and operations per thread: *)
From Yk Require Import BorderDefs BorderProofs BorderUniqueProofs.

(** among concurrent unique inserts of a key nobody removes, once they have all completed exactly one returned OK
    (the others WARN_UNIQUE_RESTRICTION) and the key is bound *)
Theorem C13_concurrent_creates_exactly_one : forall s0 tr s k,
  Inv s0 -> bm s0 k = None -> quiet k s0 ->
  brun true s0 tr = Some s -> only_uput_get k tr -> quiet k s ->
  (exists t v r, In (t, OpUput k v, r) (bhist s0 tr)) ->
  uput_ok_returns k s0 tr = 1%nat /\ bm s k <> None /\
  forall t v r, In (t, OpUput k v, r) (bhist s0 tr) -> r = ROk \/ r = RUnique.
Proof. exact uput_quiescent_exactly_one. Qed.
Print Assumptions C13_concurrent_creates_exactly_one.

(** ... and at no instant do two of them stand at a successful return *)
Theorem C13_creates_at_most_one_ok : forall tr s k,
  brun true binit tr = Some s ->
  (forall t o, In (BInvoke t o) tr -> op_key o = k -> exists v, o = OpUput k v \/ o = OpGet k) ->
  forall t1 t2 v1 v2,
    t_op (b_thr s t1) = Some (OpUput k v1) -> t_pc (b_thr s t1) = PDone ROk ->
    t_op (b_thr s t2) = Some (OpUput k v2) -> t_pc (b_thr s t2) = PDone ROk -> t1 = t2.
Proof. exact uput_at_most_one_ok. Qed.
Print Assumptions C13_creates_at_most_one_ok.

(** symmetric for deletes of a bound name *)
Theorem C13_concurrent_deletes_exactly_one : forall s0 tr s k,
  Inv s0 -> bm s0 k <> None -> quiet k s0 ->
  brun true s0 tr = Some s -> only_rem_get k tr -> quiet k s ->
  (exists t r, In (t, OpRem k, r) (bhist s0 tr)) ->
  rem_ok_returns k s0 tr = 1%nat /\ bm s k = None /\
  forall t r, In (t, OpRem k, r) (bhist s0 tr) -> r = ROk \/ r = RNotFound.
Proof. exact rem_quiescent_exactly_one. Qed.
Print Assumptions C13_concurrent_deletes_exactly_one.
