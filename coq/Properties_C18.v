(** * C18 -- every key comparison site agrees with one canonical total order on
    (slice, length) tuples, and that order is the bytewise lexicographic order
    of the keys.  Property theorems only; each closed by [exact]. *)
From Coq Require Import NArith List Bool.
From Yk Require Import KeyDefs KeyProofs.
Local Open Scope N_scope.

(** the canonical order is a strict total order (on all tuples, hence on the
    well-formed ones): irreflexive, transitive, trichotomous *)
Theorem C18_canon_strict_total :
  (forall a, canon_lt a a = false) /\
  (forall a b c, canon_lt a b = true -> canon_lt b c = true -> canon_lt a c = true) /\
  (forall a b, canon_lt a b = false -> canon_lt b a = false -> a = b).
Proof. exact canon_strict_total. Qed.
Print Assumptions C18_canon_strict_total.

(** key_tuple::operator< (zero-length rules, min-length memcmp, 9-byte memcmp
    reading the length byte) and the derived operators are the canonical order *)
Theorem C18_operator_lt_is_canon : forall a b,
  kt_wf a = true -> kt_wf b = true ->
  kt_lt a b = canon_lt a b /\ kt_gt a b = canon_lt b a /\
  kt_le a b = negb (canon_lt b a) /\ kt_ge a b = negb (canon_lt a b) /\
  (kt_eq a b = true <-> a = b) /\
  kt_eq a b = negb (canon_lt a b) && negb (canon_lt b a).
Proof. exact operator_lt_is_canon. Qed.
Print Assumptions C18_operator_lt_is_canon.

(** border lookup: Hit exactly on the equal tuple, Stop / Next exactly when the
    searched key is canonically smaller / larger than the entry *)
Theorem C18_site_lookup : forall k t,
  kt_wf k = true -> kt_wf t = true ->
  (lookup_probe k t = Hit <-> k = t \/ (8 < kl k /\ 8 < kl t /\ ks k = ks t)) /\
  (lookup_probe k t = Hit <-> ks k = ks t /\ kl k = kl t) /\
  (lookup_probe k t = Stop <-> canon_lt k t = true) /\
  (lookup_probe k t = Next <-> canon_lt t k = true).
Proof. exact lookup_probe_site. Qed.
Print Assumptions C18_site_lookup.

(** border insert rank (true for all tuples, well formed or not) *)
Theorem C18_site_rank : forall k t, rank_probe k t = canon_lt k t.
Proof. exact rank_probe_site. Qed.
Print Assumptions C18_site_rank.

(** interior routing *)
Theorem C18_site_route : forall k sep,
  kt_wf k = true -> kt_wf sep = true -> route_probe k sep = canon_lt k sep.
Proof. exact route_probe_site. Qed.
Print Assumptions C18_site_route.

(** interior insert position and interior split side (same test) *)
Theorem C18_site_interior_insert : forall k sep,
  kt_wf k = true -> kt_wf sep = true -> iins_probe k sep = canon_lt k sep.
Proof. exact iins_probe_site. Qed.
Print Assumptions C18_site_interior_insert.

(** border split side: for a new key different from the first moved entry, and
    under the caller's invariant that a rank below [remaining] means a key
    below that entry, the side test is the canonical order *)
Theorem C18_site_border_split : forall k first rank remaining,
  kt_wf k = true -> kt_wf first = true ->
  (ks k <> ks first \/ kl k <> kl first) ->
  ((rank <? remaining) = true -> canon_lt k first = true) ->
  bsplit_left k first rank remaining = canon_lt k first.
Proof. exact bsplit_left_site. Qed.
Print Assumptions C18_site_border_split.

(** delete matches exactly the equal tuple *)
Theorem C18_site_delete_match : forall k t,
  kt_wf k = true -> kt_wf t = true ->
  (delete_match k t = true <-> ks k = ks t /\ kl k = kl t).
Proof. exact delete_match_site. Qed.
Print Assumptions C18_site_delete_match.

(** the tuple order is the lexicographic byte order, wherever the slice
    boundary falls; tuples built from keys are well formed *)
Theorem C18_tuple_order_is_lex :
  (forall k, bytes k -> kt_wf (tuple_of_key k) = true) /\
  (forall a b, bytes a -> bytes b -> (length a <= 8 \/ length b <= 8)%nat ->
     lex_lt a b = canon_lt (tuple_of_key a) (tuple_of_key b)) /\
  (forall a b, bytes a -> bytes b ->
     lex_lt a b =
       canon_lt (tuple_of_key a) (tuple_of_key b) ||
       (kt_eq (tuple_of_key a) (tuple_of_key b) && (kl (tuple_of_key a) =? 9) &&
        lex_lt (skipn 8 a) (skipn 8 b))).
Proof. exact tuple_order_is_lex. Qed.
Print Assumptions C18_tuple_order_is_lex.

(** non-vacuity: "" < "\0" < "\0\0" (all three have slice 0), and an 8-byte key
    against a link (length 9) with the same slice; every tuple is well formed
    and every site gives the canonical answer *)
Example C18_nonvacuous :
  let e  := tuple_of_key [] in
  let z1 := tuple_of_key [0] in
  let z2 := tuple_of_key [0; 0] in
  let k8 := tuple_of_key [1; 2; 3; 4; 5; 6; 7; 8] in
  let lk := tuple_of_key [1; 2; 3; 4; 5; 6; 7; 8; 9] in
  bytes [1; 2; 3; 4; 5; 6; 7; 8; 9] /\ bytes [0; 0] /\
  forallb kt_wf [e; z1; z2; k8; lk] = true /\
  (ks e, ks z1, ks z2) = (0, 0, 0) /\ (kl e, kl z1, kl z2) = (0, 1, 2) /\
  ks k8 = 0x0102030405060708 /\ ks lk = ks k8 /\ (kl k8, kl lk) = (8, 9) /\
  (canon_lt e z1, canon_lt z1 z2, canon_lt e z2, canon_lt z1 e, canon_lt k8 lk, canon_lt lk k8)
    = (true, true, true, false, true, false) /\
  (kt_lt e z1, kt_lt z1 z2, kt_lt e z2, kt_lt z1 e, kt_lt k8 lk, kt_lt lk k8)
    = (true, true, true, false, true, false) /\
  (lookup_probe e z1, lookup_probe z1 z1, lookup_probe z2 z1, lookup_probe e e)
    = (Stop, Hit, Next, Hit) /\
  (lookup_probe k8 lk, lookup_probe lk k8, lookup_probe lk lk) = (Stop, Next, Hit) /\
  (rank_probe z1 z2, route_probe z1 z2, iins_probe z1 z2, bsplit_left z1 z2 3 3)
    = (true, true, true, true) /\
  (rank_probe lk k8, route_probe lk k8, iins_probe lk k8, bsplit_left lk k8 3 3)
    = (false, false, false, false) /\
  (delete_match z1 z2, delete_match k8 lk, delete_match z1 z1, delete_match lk lk)
    = (false, false, true, true) /\
  (lex_lt [] [0], lex_lt [0] [0; 0], lex_lt [1; 2; 3; 4; 5; 6; 7; 8] [1; 2; 3; 4; 5; 6; 7; 8; 9])
    = (true, true, true).
Proof.
  cbv zeta. split; [repeat constructor|]. split; [repeat constructor|].
  vm_compute. repeat split; reflexivity.
Qed.
