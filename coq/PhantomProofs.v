(** * PhantomProofs: C05 at store level, sequential form -- the node-version set recorded by
    a scan detects every later insert of an absent key into the range the scan covered.

    Results (all closed under the global context):
    - [scan_nv_nonempty]      a scan that returns St_OK recorded at least one (border, version)
                              pair (no hypothesis on the store);
    - [scan_records_landing]  part (A): the border in which the insert of a covered key lands
                              ([land], the walk of [put_walk]) is in [so_nv] with its current
                              version word -- any number of layers ([scan_layer_cover]), any
                              max_size, and right to left ([scan_layer_cover_rtl]);
    - [put_lands]             part (B): the insert of an absent key changes the version word of that
                              border ([c12_modified_changes]); border ids are unique in the whole
                              store ([store_leaf_ver_spec], from [wl_disj] of [WF_store]);
    - [scan_detects_insert]   the theorem; [scan_detects_insert_reported]: the stale pair is the
                              pair of the border that the put reports as [pi_modified] (C12);
    - [PhantomExample.scan_nofix2_misses_insert]  with [fix2 = false] (the scan of the pinned
                              source, [scan_nofix2]) the statement is false;
    - [PhantomExample.ex_cases_apply], [demo_cases]  the hypotheses hold on a 39-layer store with
                              several borders per layer, for inserts landing in layers 0, 1, 2,
                              a fresh chain of layers, a reached size limit and right to left.

    How the scan records borders ([scan_entries] / [scan_leaves], fix2 = true): every border on
    which [scan_entries] is run ends up in the vector whatever the outcome ([SE_nv], [SL_nv]);
    entries below the key cannot end the scan while the key is covered ([SE_skip]); at the link
    the key continues below, the layer scan is called with endpoints that still cover the rest
    of the key ([SE_target]).  In the model a key longer than 8 bytes always continues through
    a link entry (length 9) into the next layer, so an insert never converts a value entry: it
    lands in exactly one border, the one reached by [find_leaf] in the first layer where its
    tuple is missing. *)
From Coq Require Import ZArith NArith PeanoNat Lia ZifyBool ZifyN Bool List Sorted Permutation.
From Yk Require Import ListAux Word64 PermDefs PermProofs VersionDefs VersionProofs KeyDefs KeyProofs TreeDefs
     ScanDefs SysDefs SpecDefs LeafProofs LayerProofs VersionReportProofs StoreProofs ScanProofs.
Import ListNotations.
Local Open Scope N_scope.

(** ** 0. definitions *)

(** the part of the requested interval the scan actually covered *)
Definition covered (a : scan_args) (res : list (key * value)) (k : key) : bool :=
  let l := match sa_le a with EP_INF => [] | _ => sa_l a end in
  in_left l (sa_le a) k && in_right (sa_r a) (sa_re a) k &&
  (if sa_rtl a
   then match res with [] => true | (k0, _) :: _ => lex_lt k0 k end
   else if Nat.eqb (sa_max a) 0 || Nat.ltb (length res) (sa_max a) then true
        else match rev res with [] => true | (k1, _) :: _ => lex_lt k k1 end).

(** all borders of a store, layer by layer *)
Definition store_leaves (ls : layers_t) : list leaf := flat_map (fun pr => bt_leaves (snd pr)) ls.

(** the version word of border [id] anywhere in the store *)
Definition store_leaf_ver (tr : tree) (id : N) : option N :=
  option_map lf_ver (find (fun l => N.eqb (lf_id l) id) (store_leaves (t_layers tr))).

(** the border in which the insert of a key with path [ts] lands (the walk of [put_walk]) *)
Fixpoint land (ts : list ktuple) (p : prefix) (ls : layers_t) : option leaf :=
  match ts with
  | [] => None
  | t :: rest =>
    match layer_get ls p with
    | None => None
    | Some root =>
      match find_leaf root t with
      | None => None
      | Some l =>
        match leaf_lookup l t with
        | None => Some l
        | Some _ => match rest with [] => None | _ => land rest (p ++ [ks t]) ls end
        end
      end
    end
  end.

(** ** 1. the node-version vector only grows, and every border the scan looks at is recorded *)
Section NvEntries.
  Variable sub : prefix -> key -> key -> endpoint -> key -> endpoint -> scan_acc -> option scan_acc.
  Variable mx : nat.
  Hypothesis Hmono : forall p pb l le r re acc acc',
    sub p pb l le r re acc = Some acc' -> incl (ac_nv acc) (ac_nv acc').

  Lemma incl_push_nv acc id ver : incl (ac_nv acc) (ac_nv (acc_push_nv acc id ver)).
  Proof. cbn [acc_push_nv ac_nv]. apply incl_appl. apply incl_refl. Qed.
  Lemma in_push_nv acc id ver : In (id, ver) (ac_nv (acc_push_nv acc id ver)).
  Proof. cbn [acc_push_nv ac_nv]. apply in_or_app. right. left. reflexivity. Qed.
  Lemma incl_push_t acc k v id ver : incl (ac_nv acc) (ac_nv (acc_push_t acc k v id ver)).
  Proof. cbn [acc_push_t ac_nv]. apply incl_appl. apply incl_refl. Qed.
  Lemma in_push_t acc k v id ver : In (id, ver) (ac_nv (acc_push_t acc k v id ver)).
  Proof. cbn [acc_push_t ac_nv]. apply in_or_app. right. left. reflexivity. Qed.

  Variable p : prefix. Variable pb : key.
  Variable l : key. Variable le : endpoint. Variable r : key. Variable re : endpoint.
  Variable bid bver : N.
  Local Notation SE := (scan_entries true sub mx p pb l le r re bid bver).

  Lemma SE_nv : forall es pushed acc res pu acc',
    SE es pushed acc = (res, pu, acc') ->
    (pushed = true -> In (bid, bver) (ac_nv acc)) ->
    incl (ac_nv acc) (ac_nv acc') /\
    (res = SB_END -> In (bid, bver) (ac_nv acc')) /\
    (res = SB_CONT -> pu = true -> In (bid, bver) (ac_nv acc')).
  Proof.
    induction es as [|[i s] rest IH]; intros pushed acc res pu acc' E Hp.
    - cbn [scan_entries] in E. injection E as <- <- <-.
      split; [apply incl_refl|]. split; [discriminate|]. intros _. exact Hp.
    - rewrite scan_entries_cons in E. cbv zeta in E.
      destruct (8 <? kl (sl_key s)).
      + destruct (larg_f l le (sl_key s)) as [[al ale]|]; [|exact (IH _ _ _ _ _ E Hp)].
        destruct (rarg_f r re (pb ++ bytes_of_slice (ks (sl_key s)) (kl (sl_key s)))) as [[[ar are]|]|].
        * destruct (sub (p ++ [ks (sl_key s)]) (pb ++ bytes_of_slice (ks (sl_key s)) (kl (sl_key s)))
                        al ale ar are acc) as [acc1|] eqn:Es.
          -- pose proof (Hmono _ _ _ _ _ _ _ _ Es) as Hi.
             destruct (max_reached mx acc1).
             ++ injection E as <- <- <-. cbn [andb]. destruct pushed; cbn [negb].
                ** split; [exact Hi|]. split; [intros _; apply Hi; apply Hp; reflexivity|discriminate].
                ** split; [eapply incl_tran; [exact Hi|apply incl_push_nv]|].
                   split; [intros _; apply in_push_nv|discriminate].
             ++ destruct (IH _ _ _ _ _ E) as (I1 & I2 & I3); [intros X; apply Hi; apply Hp; exact X|].
                split; [eapply incl_tran; eassumption|]. split; assumption.
          -- injection E as <- <- <-. split; [apply incl_refl|]. split; discriminate.
        * injection E as <- <- <-. split; [apply incl_refl|]. split; discriminate.
        * injection E as <- <- <-. cbn [andb]. destruct pushed; cbn [negb].
          -- split; [apply incl_refl|]. split; [intros _; apply Hp; reflexivity|discriminate].
          -- split; [apply incl_push_nv|]. split; [intros _; apply in_push_nv|discriminate].
      + destruct (sl_lv s) as [|v|].
        * injection E as <- <- <-. split; [apply incl_refl|]. split; discriminate.
        * destruct (negb (pass_left_f l le (sl_key s))); [exact (IH _ _ _ _ _ E Hp)|].
          rewrite re_match in E.
          destruct (in_right r re (pb ++ bytes_of_slice (ks (sl_key s)) (kl (sl_key s)))).
          -- destruct (max_reached mx _).
             ++ injection E as <- <- <-. split; [apply incl_push_t|].
                split; [intros _; apply in_push_t|discriminate].
             ++ destruct (IH _ _ _ _ _ E) as (I1 & I2 & I3); [intros _; apply in_push_t|].
                split; [eapply incl_tran; [apply incl_push_t|exact I1]|]. split; assumption.
          -- injection E as <- <- <-. destruct pushed.
             ++ split; [apply incl_refl|]. split; [intros _; apply Hp; reflexivity|discriminate].
             ++ split; [apply incl_push_nv|]. split; [intros _; apply in_push_nv|discriminate].
        * injection E as <- <- <-. split; [apply incl_refl|]. split; discriminate.
  Qed.
End NvEntries.

Section NvLeaves.
  Variable sub : prefix -> key -> key -> endpoint -> key -> endpoint -> scan_acc -> option scan_acc.
  Variable mx : nat. Variable rtl : bool.
  Hypothesis Hmono : forall p pb l le r re acc acc',
    sub p pb l le r re acc = Some acc' -> incl (ac_nv acc) (ac_nv acc').
  Variable p : prefix. Variable pb : key.
  Variable l : key. Variable le : endpoint. Variable r : key. Variable re : endpoint.

  (** the vector grows, and the first border of the walk is recorded *)
  Lemma SL_nv : forall lvs acc acc',
    scan_leaves true sub mx rtl p pb l le r re lvs acc = Some acc' ->
    incl (ac_nv acc) (ac_nv acc') /\
    (forall lf rest, lvs = lf :: rest -> In (lf_id lf, lf_ver lf) (ac_nv acc')).
  Proof.
    induction lvs as [|lf rest IH]; intros acc acc' E.
    - cbn [scan_leaves] in E. injection E as <-. split; [apply incl_refl|]. intros lf rest X. discriminate X.
    - cbn [scan_leaves] in E.
      destruct (scan_entries true sub mx p pb l le r re (lf_id lf) (lf_ver lf)
                  (if rtl then rev (leaf_ranked lf) else leaf_ranked lf) false acc) as [[res pu] acc1] eqn:Ee.
      destruct (SE_nv sub mx Hmono p pb l le r re (lf_id lf) (lf_ver lf) _ _ _ _ _ _ Ee) as (I1 & I2 & I3);
        [discriminate|].
      destruct res.
      + injection E as <-. split; [exact I1|]. intros lf0 rest0 X. injection X as <- <-. apply I2. reflexivity.
      + set (acc2 := if pu then acc1 else acc_push_nv acc1 (lf_id lf) (lf_ver lf)) in *.
        assert (incl (ac_nv acc1) (ac_nv acc2)) as J1.
        { unfold acc2. destruct pu; [apply incl_refl|apply incl_push_nv]. }
        assert (In (lf_id lf, lf_ver lf) (ac_nv acc2)) as J2.
        { unfold acc2. destruct pu; [apply I3; reflexivity|apply in_push_nv]. }
        assert (incl (ac_nv acc2) (ac_nv acc')) as J3.
        { destruct rest as [|lf2 rest2]; [injection E as <-; apply incl_refl|]. apply (IH _ _ E). }
        split; [eapply incl_tran; [exact I1|eapply incl_tran; eassumption]|].
        intros lf0 rest0 X. injection X as <- <-. apply J3. exact J2.
      + discriminate E.
  Qed.
End NvLeaves.

Lemma scan_layer_nv_mono mx rtl ls : forall fuel p pb l le r re acc acc',
  scan_layer true fuel ls mx rtl p pb l le r re acc = Some acc' -> incl (ac_nv acc) (ac_nv acc').
Proof.
  induction fuel as [|f IH]; intros p pb l le r re acc acc' E; [discriminate|].
  cbn [scan_layer] in E.
  destruct (layer_get ls p) as [root|]; [|discriminate].
  destruct (find_leaf root (scan_descent_tuple l rtl)) as [start|]; [|discriminate].
  exact (proj1 (SL_nv _ mx rtl IH p pb l le r re _ _ _ E)).
Qed.

Lemma bt_find_leaf_in fuel : forall t k lf, bt_find_leaf fuel t k = Some lf -> In lf (bt_leaves t).
Proof.
  induction fuel as [|f IH]; intros t k lf E; [discriminate|].
  destruct t as [l0|id ver keys ch]; cbn [bt_find_leaf] in E.
  - injection E as <-. left. reflexivity.
  - destruct (nth_error ch (route keys k 0)) as [c|] eqn:En; [|discriminate].
    cbn [bt_leaves]. apply in_flat_map. exists c. split; [eapply nth_error_In; exact En|eapply IH; exact E].
Qed.

Lemma skip_to_in lf : forall lvs, In lf lvs -> exists lf' rest, skip_to (lf_id lf) lvs = lf' :: rest.
Proof.
  induction lvs as [|a lvs IH]; intros H; [destruct H|]. cbn [skip_to].
  destruct (N.eqb_spec (lf_id a) (lf_id lf)) as [E|NE]; [eexists; eexists; reflexivity|].
  destruct H as [->|H]; [contradiction|]. apply IH. exact H.
Qed.

(** a scan that reports St_OK has recorded at least one border: no hypothesis on the store *)
Theorem scan_nv_nonempty tr a o : scan tr a = Some o -> so_status o = St_OK -> so_nv o <> [].
Proof.
  unfold scan. intros E Hs.
  destruct (scan_validate a) as [s|] eqn:Ev.
  { injection E as <-. cbn [scan_fail so_status] in Hs. subst s. exfalso.
    unfold scan_validate in Ev.
    destruct ((sa_lnull a && negb (Nat.eqb (length (sa_l a)) 0)) || (sa_rnull a && negb (Nat.eqb (length (sa_r a)) 0)));
      [discriminate|].
    destruct (check_empty_scan_range (sa_l a) (sa_le a) (sa_r a) (sa_re a)); try discriminate.
    destruct (sa_rtl a && (negb (ep_eqb (sa_re a) EP_INF) || negb (Nat.eqb (sa_max a) 1))); discriminate. }
  unfold scan_body in E. destruct (t_null tr).
  { injection E as <-. discriminate Hs. }
  destruct (layer_get (t_layers tr) []) as [root|] eqn:Eg; [|discriminate].
  destruct (find_leaf root (scan_descent_tuple (sa_l (scan_normalise a)) (sa_rtl (scan_normalise a))))
    as [start|] eqn:Ef; [|discriminate].
  destruct (get_deleted (lf_ver start) && get_root (lf_ver start)).
  { injection E as <-. discriminate. }
  destruct (scan_layer _ _ _ _ _ _ _ _ _ _ _ _) as [acc|] eqn:El; [|discriminate].
  injection E as <-. cbn [so_nv].
  cbn [scan_layer] in El. rewrite Eg, Ef in El.
  destruct (skip_to_in start (bt_leaves root)) as (lf' & rest & Esk).
  { unfold find_leaf in Ef. eapply bt_find_leaf_in. exact Ef. }
  destruct (SL_nv _ _ _ (scan_layer_nv_mono _ _ _ _) _ _ _ _ _ _ _ _ _ El) as [_ H].
  specialize (H lf' rest Esk). intros X. rewrite X in H. destruct H.
Qed.

(** ** 2. routing is monotone: a greater key is found in the same border or further right *)
Lemma route_mono keys d k :
  Forall (fun s => kt_wf s = true) keys -> kt_wf d = true -> kt_wf k = true ->
  canon_lt k d = false -> (route keys d 0 <= route keys k 0)%nat.
Proof.
  intros Hw Hd Hk Hle.
  destruct (route_is_pos keys d Hw Hd) as (A1 & A2 & A3).
  destruct (route_is_pos keys k Hw Hk) as (B1 & B2 & B3).
  destruct (Nat.le_gt_cases (route keys d 0) (route keys k 0)) as [H|H]; [exact H|exfalso].
  specialize (A2 _ H). specialize (B3 ltac:(lia)).
  pose proof (canon_lt_le_trans _ _ _ B3 A2) as X. congruence.
Qed.

Lemma bt_find_leaf_ge fuel : forall t lo hi d k,
  WF_bt lo hi t -> kt_wf d = true -> kt_wf k = true -> canon_lt k d = false -> (bt_height t < fuel)%nat ->
  exists ld before after lk,
    bt_find_leaf fuel t d = Some ld /\ bt_leaves t = before ++ ld :: after /\
    bt_find_leaf fuel t k = Some lk /\ In lk (ld :: after).
Proof.
  induction fuel as [|fu IH]; intros t lo hi d k Hwf Hd Hk Hle Hh; [lia|].
  destruct t as [lf|id ver keys ch].
  - exists lf, [], [], lf. repeat split; try reflexivity. left. reflexivity.
  - apply WF_int_iff in Hwf. destruct Hwf as [Hn Hkids].
    destruct (kids_route lo hi keys ch d Hkids Hd) as (Hi & _ & _).
    destruct (kids_route lo hi keys ch k Hkids Hk) as (Hj & _ & _).
    destruct Hkids as (Hlen & Hs & Hw & Hsb & Hc & Hne).
    pose proof (route_mono keys d k Hw Hd Hk Hle) as Hij.
    set (i := route keys d 0) in *. set (j := route keys k 0) in *.
    cbn [bt_find_leaf]. fold i. fold j. rewrite (nth_error_child ch i Hi), (nth_error_child ch j Hj).
    assert (bt_height (nth i ch dbt) < fu)%nat as Hhi by (pose proof (height_child id ver keys ch i Hi); lia).
    assert (bt_height (nth j ch dbt) < fu)%nat as Hhj by (pose proof (height_child id ver keys ch j Hj); lia).
    destruct (Nat.eq_dec i j) as [Eij|Nij].
    + rewrite <- Eij.
      destruct (IH (nth i ch dbt) _ _ d k (Hc i Hi) Hd Hk Hle Hhi) as (ld & b' & a' & lk & E1 & EL & E2 & Hin).
      exists ld, (flat_map bt_leaves (firstn i ch) ++ b'), (a' ++ flat_map bt_leaves (skipn (S i) ch)), lk.
      split; [exact E1|]. split.
      { cbn [bt_leaves]. rewrite (flat_map_split bt_leaves dbt ch i Hi), EL, <- !app_assoc. reflexivity. }
      split; [exact E2|]. destruct Hin as [Hin|Hin]; [left; exact Hin|right; apply in_or_app; left; exact Hin].
    + destruct (bt_find_leaf_before fu (nth i ch dbt) _ _ d (Hc i Hi) Hd Hhi) as (ld & b' & a' & E1 & EL & _).
      destruct (bt_find_leaf_spec fu (nth j ch dbt) _ _ k (Hc j Hj) Hk Hhj) as (lk & E2 & _ & Hin & _).
      exists ld, (flat_map bt_leaves (firstn i ch) ++ b'), (a' ++ flat_map bt_leaves (skipn (S i) ch)), lk.
      split; [exact E1|]. split.
      { cbn [bt_leaves]. rewrite (flat_map_split bt_leaves dbt ch i Hi), EL, <- !app_assoc. reflexivity. }
      split; [exact E2|]. right. apply in_or_app. right. apply in_flat_map.
      exists (nth j ch dbt). split; [|exact Hin].
      replace j with (S i + (j - S i))%nat by lia. rewrite <- nth_skipn. apply nth_In.
      rewrite skipn_length. lia.
Qed.

(** with distinct ids, the place of a border in the chain is unique *)
Lemma split_unique (y : leaf) : forall X Y X' Y',
  NoDup (map lf_id (X ++ y :: Y)) -> X ++ y :: Y = X' ++ y :: Y' -> X = X' /\ Y = Y'.
Proof.
  induction X as [|x X IH]; intros Y X' Y' Hnd E.
  - destruct X' as [|x' X']; cbn [app] in E.
    + injection E as <-. split; reflexivity.
    + exfalso. injection E as <- E. cbn [app map] in Hnd. apply NoDup_cons_iff in Hnd. destruct Hnd as [Hn _].
      apply Hn. rewrite E, map_app. apply in_or_app. right. left. reflexivity.
  - destruct X' as [|x' X']; cbn [app] in E.
    + exfalso. injection E as -> E. cbn [app map] in Hnd. apply NoDup_cons_iff in Hnd. destruct Hnd as [Hn _].
      apply Hn. rewrite map_app. apply in_or_app. right. left. reflexivity.
    + injection E as <- E. cbn [app map] in Hnd. apply NoDup_cons_iff in Hnd. destruct Hnd as [_ Hnd].
      destruct (IH Y X' Y' Hnd E) as [-> ->]. split; reflexivity.
Qed.

(** the walk of a left-to-right scan that starts with the descent key [d] reaches the
    border of every key [k >= d], and every entry it passes on the way is below [k] *)
Lemma walk_reaches root d k :
  WF_layer root -> kt_wf d = true -> kt_wf k = true -> canon_lt k d = false ->
  exists start lk A B,
    find_leaf root d = Some start /\ find_leaf root k = Some lk /\
    skip_to (lf_id start) (bt_leaves root) = A ++ lk :: B /\
    In lk (bt_leaves root) /\ (forall lf, In lf A -> In lf (bt_leaves root)) /\
    (forall lf, In lf B -> In lf (bt_leaves root)) /\
    (forall s, In s (flat_map leaf_entries A) -> canon_lt (sl_key s) k = true).
Proof.
  intros [Hwf Hnd] Hd Hk Hle. unfold find_leaf.
  destruct (bt_find_leaf_ge (S (bt_height root)) root None None d k Hwf Hd Hk Hle ltac:(lia))
    as (start & before & after & lk & E1 & EL & E2 & Hin).
  destruct (bt_find_leaf_before (S (bt_height root)) root None None k Hwf Hk ltac:(lia))
    as (lk' & bk & ak & E2' & ELk & Hbk).
  rewrite E2 in E2'. injection E2' as <-.
  apply in_split in Hin. destruct Hin as (A & B & EA).
  pose proof (leaves_ids_NoDup root Hnd) as Hnd'.
  assert (before ++ A = bk /\ B = ak) as [<- <-].
  { apply (split_unique lk).
    - rewrite <- app_assoc, <- EA, <- EL. exact Hnd'.
    - rewrite <- app_assoc, <- EA, <- EL. exact ELk. }
  exists start, lk, A, B. split; [exact E1|]. split; [exact E2|]. split.
  { rewrite EL. rewrite skip_to_split by (rewrite <- EL; exact Hnd'). exact EA. }
  assert (bt_leaves root = before ++ A ++ lk :: B) as EL' by (rewrite EL, EA; reflexivity).
  split; [rewrite EL'; apply in_or_app; right; apply in_or_app; right; left; reflexivity|].
  split; [intros lf H; rewrite EL'; apply in_or_app; right; apply in_or_app; left; exact H|].
  split; [intros lf H; rewrite EL'; apply in_or_app; right; apply in_or_app; right; right; exact H|].
  intros s Hs. apply Hbk. rewrite flat_map_app. apply in_or_app. right. exact Hs.
Qed.

(** ** 3. coverage, left to right *)

(** [Cov mx kf ts]: with the produced tuples [ts] the scan did not stop before the key [kf]:
    either the size limit was not reached or the last produced key is above [kf] *)
Definition Cov (mx : nat) (kf : key) (ts : list (key * value)) : Prop :=
  mr mx ts = false \/ exists pre k1 v1, ts = pre ++ [(k1, v1)] /\ lex_lt kf k1 = true.

Lemma tf (b : bool) : b = true -> b = false -> False.
Proof. intros -> X. discriminate X. Qed.

Lemma trunc_last {A} mx (X F : list A) :
  mr mx X = false -> mr mx (trunc mx (X ++ F)) = true ->
  exists pre x, trunc mx (X ++ F) = pre ++ [x] /\ In x F.
Proof.
  unfold mr, trunc. destruct (Nat.eqb_spec mx 0) as [E|E]; [discriminate|]. cbn [negb andb].
  intros H1 H2. apply Nat.leb_gt in H1. apply Nat.leb_le in H2.
  rewrite firstn_app in H2 |- *. rewrite (firstn_all2 X) in H2 |- * by lia.
  rewrite app_length in H2.
  destruct (firstn (mx - length X) F) as [|y F'] eqn:EF; [cbn [length] in H2; lia|].
  destruct (@exists_last _ (y :: F')) as (pre & x & Ex); [discriminate|].
  exists (X ++ pre), x. split; [rewrite Ex, app_assoc; reflexivity|].
  rewrite <- (firstn_skipn (mx - length X) F), EF, Ex. apply in_or_app. left.
  apply in_or_app. right. left. reflexivity.
Qed.

(** the scan arrives at the link the key continues below (both directions: [CovP] is the
    notion of coverage, which must hold whenever the size limit is not reached) *)
Section TargetEntry.
  Variable sub : prefix -> key -> key -> endpoint -> key -> endpoint -> scan_acc -> option scan_acc.
  Variable mx : nat.
  Variable p : prefix. Variable pb : key.
  Variable l : key. Variable le : endpoint. Variable r : key. Variable re : endpoint.
  Variable ls : layers_t.
  Variable C : slot_t -> list (key * value).
  Hypothesis Hl : bytes l.
  Hypothesis Hsub_ex : forall x al ale ar are acc,
    layer_get ls (p ++ [x]) <> None -> bytes al -> (ale = EP_INF -> al = []) ->
    (re = EP_INF -> are = EP_INF) -> mr mx (ac_tuples acc) = false ->
    exists acc', sub (p ++ [x]) (pb ++ bytes_of_slice x 8) al ale ar are acc = Some acc'.
  Hypothesis Hmono : forall p pb l le r re acc acc',
    sub p pb l le r re acc = Some acc' -> incl (ac_nv acc) (ac_nv acc').
  Variable ksuf : key.
  Hypothesis Hks : bytes ksuf.
  Local Notation tk := (tuple_of_key ksuf).
  Local Notation kf := (pb ++ ksuf).
  Hypothesis Hright : in_right r re kf = true.
  Variable lm : leaf.
  Hypothesis Hleft : in_left l le ksuf = true.
  Variable CovP : key -> list (key * value) -> Prop.
  Hypothesis CovP_mr : forall kf ts, mr mx ts = false -> CovP kf ts.
  Hypothesis HsubG : forall x al ale ar are acc acc_s ksuf',
    bytes al -> (ale = EP_INF -> al = []) -> (re = EP_INF -> are = EP_INF) ->
    mr mx (ac_tuples acc) = false -> bytes ksuf' ->
    land (path_of_key ksuf') (p ++ [x]) ls = Some lm ->
    in_left al ale ksuf' = true -> in_right ar are ((pb ++ bytes_of_slice x 8) ++ ksuf') = true ->
    sub (p ++ [x]) (pb ++ bytes_of_slice x 8) al ale ar are acc = Some acc_s ->
    CovP ((pb ++ bytes_of_slice x 8) ++ ksuf') (ac_tuples acc_s) ->
    In (lf_id lm, lf_ver lm) (ac_nv acc_s).
  Local Notation SE bid bver := (scan_entries true sub mx p pb l le r re bid bver).

  Lemma SE_target bid bver i e E2 pushed acc :
    eok p pb ls C e -> sl_key e = tk -> sl_lv e = LLink ->
    land (path_of_key (skipn 8 ksuf)) (p ++ [ks tk]) ls = Some lm ->
    mr mx (ac_tuples acc) = false ->
    (pushed = true -> In (bid, bver) (ac_nv acc)) ->
    match SE bid bver ((i, e) :: E2) pushed acc with
    | (SB_ERR, _, _) => True
    | (SB_END, _, a) => CovP kf (ac_tuples a) -> In (lf_id lm, lf_ver lm) (ac_nv a)
    | (SB_CONT, _, a) => In (lf_id lm, lf_ver lm) (ac_nv a)
    end.
  Proof.
    intros Hs Hk Elv Hland Hmr Hp. pose proof Hs as ((Hw & Hlv) & Hlink & _).
    rewrite Elv in Hlv. specialize (Hlink Elv).
    destruct e as [ek elv]. cbn [sl_key sl_lv] in *. subst ek elv.
    assert (8 < length ksuf)%nat as Hlen.
    { destruct (Nat.le_gt_cases (length ksuf) 8) as [H|H]; [|exact H].
      rewrite (tuple_kl_short ksuf H) in Hlv. lia. }
    set (ksuf' := skipn 8 ksuf) in *.
    assert (ksuf = bytes_of_slice (ks tk) 8 ++ ksuf') as Eks.
    { rewrite (bos8_tuple_long ksuf Hks Hlen). symmetry. apply firstn_skipn. }
    assert (ksuf' <> []) as Hne.
    { intros X. apply (f_equal (@length N)) in X. unfold ksuf' in X. rewrite skipn_length in X.
      cbn [length] in X. lia. }
    assert (bytes ksuf') as Hks' by (apply bytes_skipn; exact Hks).
    assert ((pb ++ bytes_of_slice (ks tk) 8) ++ ksuf' = kf) as Ekf.
    { rewrite <- app_assoc, <- Eks. reflexivity. }
    rewrite scan_entries_cons. cbv zeta. cbn [sl_key sl_lv].
    rewrite Hlv. change (8 <? 9) with true. cbv iota.
    change (bytes_of_slice (ks tk) 9) with (bytes_of_slice (ks tk) 8).
    pose proof (larg_f_spec l le tk Hl Hw Hlv) as LA.
    destruct (larg_f l le tk) as [[al ale]|].
    2:{ exfalso. specialize (LA ksuf' Hks' Hne). rewrite <- Eks, Hleft in LA. discriminate. }
    destruct LA as [[Hal Hinf] LA]. specialize (LA ksuf' Hks' Hne). rewrite <- Eks, Hleft in LA.
    pose proof (rarg_f_spec r re (pb ++ bytes_of_slice (ks tk) 8)) as RA.
    destruct (rarg_f r re (pb ++ bytes_of_slice (ks tk) 8)) as [[[ar are]|]|].
    - destruct RA as [RAi RA]. specialize (RA ksuf'). rewrite Ekf, Hright in RA.
      destruct (Hsub_ex (ks tk) al ale ar are acc Hlink Hal Hinf RAi Hmr) as (acc1 & Es).
      rewrite Es. pose proof (Hmono _ _ _ _ _ _ _ _ Es) as Hi.
      pose proof (HsubG (ks tk) al ale ar are acc acc1 ksuf' Hal Hinf RAi Hmr Hks' Hland LA) as HG.
      rewrite Ekf in HG. specialize (HG RA Es).
      rewrite max_reached_mr.
      match goal with |- context [if ?c then _ else _] => destruct c eqn:EM end.
      + destruct (negb pushed); cbn [andb]; intros Cv.
        * apply incl_push_nv. apply HG. exact Cv.
        * apply HG. exact Cv.
      + assert (In (lf_id lm, lf_ver lm) (ac_nv acc1)) as G1 by (apply HG; apply CovP_mr; exact EM).
        destruct (SE bid bver E2 pushed acc1) as [[res pu] a] eqn:Ee.
        destruct (SE_nv sub mx Hmono p pb l le r re bid bver _ _ _ _ _ _ Ee) as (I1 & _).
        { intros X. apply Hi. apply Hp. exact X. }
        destruct res; [intros _; apply I1; exact G1|apply I1; exact G1|exact I].
    - contradiction.
    - exfalso. destruct RA as [Hre Hdead].
      assert (lex_lt (pb ++ bytes_of_slice (ks tk) 8) kf = true) as Hfl.
      { rewrite <- Ekf. apply lex_lt_prefix. exact Hne. }
      rewrite (in_right_dead r re _ _ Hre Hdead Hfl) in Hright. discriminate.
  Qed.
End TargetEntry.

Section CoverEntries.
  Variable sub : prefix -> key -> key -> endpoint -> key -> endpoint -> scan_acc -> option scan_acc.
  Variable mx : nat.
  Variable p : prefix. Variable pb : key.
  Variable l : key. Variable le : endpoint. Variable r : key. Variable re : endpoint.
  Variable ls : layers_t.
  Variable f : nat.
  Hypothesis Hl : bytes l.

  Local Notation CE := (cent f ls p pb).
  Local Notation CS := (fun x => clayer f ls (p ++ [x]) (pb ++ bytes_of_slice x 8)).

  Hypothesis Hsub : forall x al ale ar are acc,
    layer_get ls (p ++ [x]) <> None -> bytes al -> (ale = EP_INF -> al = []) ->
    (re = EP_INF -> are = EP_INF) -> mr mx (ac_tuples acc) = false ->
    exists acc', sub (p ++ [x]) (pb ++ bytes_of_slice x 8) al ale ar are acc = Some acc' /\
      ac_tuples acc' =
        trunc mx (ac_tuples acc ++ filter (Pabs (pb ++ bytes_of_slice x 8) al ale ar are) (CS x)).
  Hypothesis Hmono : forall p pb l le r re acc acc',
    sub p pb l le r re acc = Some acc' -> incl (ac_nv acc) (ac_nv acc').

  (** the key whose insert is to be detected: [kf = pb ++ ksuf] *)
  Variable ksuf : key.
  Hypothesis Hks : bytes ksuf.
  Local Notation tk := (tuple_of_key ksuf).
  Local Notation kf := (pb ++ ksuf).
  Hypothesis Hright : in_right r re kf = true.

  Local Notation SE bid bver := (scan_entries true sub mx p pb l le r re bid bver).

  Lemma full_lt s : kt_wf (sl_key s) = true -> canon_lt (sl_key s) tk = true ->
    lex_lt (pb ++ tbytes (sl_key s)) kf = true.
  Proof.
    intros Hw Hlt. rewrite lex_lt_app. eapply tbytes_lt; [exact Hw|exact Hlt|exact Hks|reflexivity].
  Qed.

  Lemma below_lt s kv : eok p pb ls CE s -> canon_lt (sl_key s) tk = true -> In kv (CE s) ->
    lex_lt (fst kv) kf = true.
  Proof.
    intros (_ & _ & Hsh) Hlt Hkv. destruct (Hsh kv Hkv) as (rest & -> & Hb & Ht).
    rewrite lex_lt_app, (lex_tuple rest ksuf Hb Hks), Ht, Hlt. reflexivity.
  Qed.

  (** the outcome of passing entries below the key *)
  Definition skip_res (bid bver : N) (E2 : list (N * slot_t)) (acc : scan_acc)
             (res : sb_res * bool * scan_acc) : Prop :=
    (exists pu a, res = (SB_ERR, pu, a)) \/
    (exists pu a, res = (SB_END, pu, a) /\ ~ Cov mx kf (ac_tuples a)) \/
    (exists pushed1 acc1, res = SE bid bver E2 pushed1 acc1 /\ mr mx (ac_tuples acc1) = false /\
        incl (ac_nv acc) (ac_nv acc1) /\ (pushed1 = true -> In (bid, bver) (ac_nv acc1))).

  Lemma skip_res_incl bid bver E2 acc0 acc res :
    incl (ac_nv acc0) (ac_nv acc) -> skip_res bid bver E2 acc res -> skip_res bid bver E2 acc0 res.
  Proof.
    intros Hi [H|[H|(pu1 & a1 & E & M & I & P)]]; [left; exact H|right; left; exact H|].
    right. right. exists pu1, a1. split; [exact E|]. split; [exact M|]. split; [|exact P].
    eapply incl_tran; eassumption.
  Qed.

  Lemma SE_skip bid bver : forall E1 E2 pushed acc,
    Forall (eok p pb ls CE) (map snd E1) ->
    (forall s, In s (map snd E1) -> canon_lt (sl_key s) tk = true) ->
    mr mx (ac_tuples acc) = false ->
    (pushed = true -> In (bid, bver) (ac_nv acc)) ->
    skip_res bid bver E2 acc (SE bid bver (E1 ++ E2) pushed acc).
  Proof.
    induction E1 as [|[i s] E1 IH]; intros E2 pushed acc Hok Hlt Hmr Hp.
    - right. right. exists pushed, acc. split; [reflexivity|]. split; [exact Hmr|]. split; [apply incl_refl|exact Hp].
    - cbn [map snd] in Hok, Hlt. apply Forall_cons_iff in Hok. destruct Hok as [Hs Hok].
      assert (canon_lt (sl_key s) tk = true) as Hslt by (apply Hlt; left; reflexivity).
      assert (forall s', In s' (map snd E1) -> canon_lt (sl_key s') tk = true) as Hlt'
        by (intros s' H'; apply Hlt; right; exact H').
      pose proof Hs as ((Hw & Hlv) & Hlink & Hshape).
      cbn [app]. rewrite scan_entries_cons. cbv zeta.
      destruct (sl_lv s) as [|v|] eqn:Elv; [contradiction| |].
      + (* a value below the key *)
        destruct (N.ltb_spec 8 (kl (sl_key s))) as [X|_]; [lia|].
        fold (tbytes (sl_key s)).
        pose proof (full_lt s Hw Hslt) as Hfl.
        destruct (negb (pass_left_f l le (sl_key s))); [apply IH; assumption|].
        rewrite re_match.
        destruct (in_right r re (pb ++ tbytes (sl_key s))) eqn:ER.
        * rewrite max_reached_mr. cbn [acc_push_t ac_tuples].
          match goal with |- context [if ?c then _ else _] => destruct c eqn:EM end.
          -- right. left. eexists. eexists. split; [reflexivity|]. cbn [ac_tuples].
             intros [C|(pre & k1 & v1 & E & L)]; [exact (tf _ EM C)|].
             apply app_inj_tail in E. destruct E as [_ E]. injection E as <- <-.
             rewrite (lex_lt_asym _ _ Hfl) in L. discriminate.
          -- eapply skip_res_incl; [|apply IH; [exact Hok|exact Hlt'|exact EM|]].
             ++ apply incl_push_t.
             ++ intros _. apply in_push_t.
        * exfalso. rewrite (in_right_mono r re _ _ ER Hfl) in Hright. discriminate.
      + (* a link below the key *)
        set (kt := sl_key s) in *.
        rewrite Hlv. change (8 <? 9) with true. cbv iota.
        change (bytes_of_slice (ks kt) 9) with (bytes_of_slice (ks kt) 8).
        pose proof (full_lt s Hw Hslt) as Hfl. fold kt in Hfl. rewrite (tbytes9 kt Hlv) in Hfl.
        pose proof (larg_f_spec l le kt Hl Hw Hlv) as LA.
        destruct (larg_f l le kt) as [[al ale]|]; [|apply IH; assumption].
        destruct LA as [[Hal Hinf] _].
        pose proof (rarg_f_spec r re (pb ++ bytes_of_slice (ks kt) 8)) as RA.
        destruct (rarg_f r re (pb ++ bytes_of_slice (ks kt) 8)) as [[[ar are]|]|].
        * destruct RA as [RAi _].
          destruct (Hsub (ks kt) al ale ar are acc (Hlink eq_refl) Hal Hinf RAi Hmr) as (acc1 & Es & Ts).
          rewrite Es. pose proof (Hmono _ _ _ _ _ _ _ _ Es) as Hi.
          rewrite max_reached_mr.
          match goal with |- context [if ?c then _ else _] => destruct c eqn:EM end.
          -- right. left. eexists. eexists. split; [reflexivity|].
             assert (forall a : scan_acc, ac_tuples a = ac_tuples acc1 -> ~ Cov mx kf (ac_tuples a)) as G.
             { intros a ->. intros [C|(pre & k1 & v1 & E & L)]; [exact (tf _ EM C)|].
               rewrite Ts in EM. destruct (trunc_last mx _ _ Hmr EM) as (pre' & x & E' & Hx).
               rewrite <- Ts in E'. rewrite E' in E. apply app_inj_tail in E. destruct E as [_ ->].
               apply filter_In in Hx. destruct Hx as [Hx _].
               assert (In (k1, v1) (CE s)) as Hx' by (rewrite (cent_link p pb ls f s Elv); exact Hx).
               pose proof (below_lt s _ Hs Hslt Hx') as Y. cbn [fst] in Y.
               rewrite (lex_lt_asym _ _ Y) in L. discriminate. }
             destruct (negb pushed); cbn [andb]; apply G; reflexivity.
          -- eapply skip_res_incl; [exact Hi|]. apply IH; [exact Hok|exact Hlt'|exact EM|].
             intros X. apply Hi. apply Hp. exact X.
        * contradiction.
        * exfalso. destruct RA as [Hre Hdead].
          rewrite (in_right_dead r re _ _ Hre Hdead Hfl) in Hright. discriminate.
  Qed.

  (** the border [lm] the insert lands in *)
  Variable lm : leaf.
  Hypothesis Hleft : in_left l le ksuf = true.
  Hypothesis HsubG : forall x al ale ar are acc acc_s ksuf',
    bytes al -> (ale = EP_INF -> al = []) -> (re = EP_INF -> are = EP_INF) ->
    mr mx (ac_tuples acc) = false -> bytes ksuf' ->
    land (path_of_key ksuf') (p ++ [x]) ls = Some lm ->
    in_left al ale ksuf' = true -> in_right ar are ((pb ++ bytes_of_slice x 8) ++ ksuf') = true ->
    sub (p ++ [x]) (pb ++ bytes_of_slice x 8) al ale ar are acc = Some acc_s ->
    Cov mx ((pb ++ bytes_of_slice x 8) ++ ksuf') (ac_tuples acc_s) ->
    In (lf_id lm, lf_ver lm) (ac_nv acc_s).

  Lemma Hsub_ex : forall x al ale ar are acc,
    layer_get ls (p ++ [x]) <> None -> bytes al -> (ale = EP_INF -> al = []) ->
    (re = EP_INF -> are = EP_INF) -> mr mx (ac_tuples acc) = false ->
    exists acc', sub (p ++ [x]) (pb ++ bytes_of_slice x 8) al ale ar are acc = Some acc'.
  Proof.
    intros x al ale ar are acc H1 H2 H3 H4 H5.
    destruct (Hsub x al ale ar are acc H1 H2 H3 H4 H5) as (acc' & E & _). exists acc'. exact E.
  Qed.

  (** the walk along the borders: the borders in [A] only hold entries below the key *)
  Lemma SL_cover : forall A B lk acc acc',
    Forall (eok p pb ls CE) (flat_map leaf_entries (A ++ lk :: B)) ->
    (forall s, In s (flat_map leaf_entries A) -> canon_lt (sl_key s) tk = true) ->
    mr mx (ac_tuples acc) = false ->
    (lm = lk \/
     exists E1 i e E2, leaf_ranked lk = E1 ++ (i, e) :: E2 /\
       (forall s, In s (map snd E1) -> canon_lt (sl_key s) tk = true) /\
       sl_key e = tk /\ sl_lv e = LLink /\
       land (path_of_key (skipn 8 ksuf)) (p ++ [ks tk]) ls = Some lm) ->
    scan_leaves true sub mx false p pb l le r re (A ++ lk :: B) acc = Some acc' ->
    Cov mx kf (ac_tuples acc') -> In (lf_id lm, lf_ver lm) (ac_nv acc').
  Proof.
    induction A as [|a A IH]; intros B lk acc acc' Hok Hlt Hmr Hcase E HC.
    - cbn [app] in E, Hok. cbn [scan_leaves] in E. cbn [flat_map] in Hok.
      apply Forall_app in Hok. destruct Hok as [Hok _]. unfold leaf_entries in Hok.
      destruct Hcase as [->|(E1 & i & e & E2 & Er & Hlt1 & Hk & Elv & Hland)].
      + (* the key lands in this border *)
        destruct (scan_entries true sub mx p pb l le r re (lf_id lk) (lf_ver lk) (leaf_ranked lk) false acc)
          as [[res pu] a] eqn:Ee.
        destruct (SE_nv sub mx Hmono p pb l le r re _ _ _ _ _ _ _ _ Ee) as (I1 & I2 & I3); [discriminate|].
        destruct res; [injection E as <-; apply I2; reflexivity| |discriminate E].
        set (a2 := if pu then a else acc_push_nv a (lf_id lk) (lf_ver lk)) in *.
        assert (In (lf_id lk, lf_ver lk) (ac_nv a2)) as J.
        { unfold a2. destruct pu; [apply I3; reflexivity|apply in_push_nv]. }
        destruct B as [|b B]; [injection E as <-; exact J|].
        apply (proj1 (SL_nv sub mx false Hmono p pb l le r re _ _ _ E)). exact J.
      + (* the key continues below a link of this border *)
        rewrite Er in E, Hok. rewrite map_app in Hok. cbn [map snd] in Hok.
        apply Forall_app in Hok. destruct Hok as [Hok1 Hok2]. apply Forall_cons_iff in Hok2.
        destruct Hok2 as [Hoke _].
        destruct (SE_skip (lf_id lk) (lf_ver lk) E1 ((i, e) :: E2) false acc Hok1 Hlt1 Hmr)
          as [(pu & a & X)|[(pu & a & X & NC)|(pu1 & a1 & X & M1 & I1 & P1)]]; [discriminate| | |].
        * rewrite X in E. discriminate E.
        * rewrite X in E. injection E as <-. contradiction.
        * rewrite X in E.
          pose proof (SE_target sub mx p pb l le r re ls CE Hl Hsub_ex Hmono ksuf Hks Hright lm Hleft (Cov mx)
                        (fun _ ts H => or_introl H) HsubG
                        (lf_id lk) (lf_ver lk) i e E2 pu1 a1 Hoke Hk Elv Hland M1 P1) as T.
          destruct (scan_entries true sub mx p pb l le r re (lf_id lk) (lf_ver lk) ((i, e) :: E2) pu1 a1)
            as [[res pu] a].
          destruct res; [injection E as <-; apply T; exact HC| |discriminate E].
          set (a2 := if pu then a else acc_push_nv a (lf_id lk) (lf_ver lk)) in *.
          assert (In (lf_id lm, lf_ver lm) (ac_nv a2)) as J.
          { unfold a2. destruct pu; [exact T|apply incl_push_nv; exact T]. }
          destruct B as [|b B]; [injection E as <-; exact J|].
          apply (proj1 (SL_nv sub mx false Hmono p pb l le r re _ _ _ E)). exact J.
    - cbn [app] in E, Hok. cbn [scan_leaves] in E. cbn [flat_map] in Hok, Hlt.
      apply Forall_app in Hok. destruct Hok as [Hoka Hok]. unfold leaf_entries at 1 in Hoka.
      assert (forall s, In s (map snd (leaf_ranked a)) -> canon_lt (sl_key s) tk = true) as Hlta.
      { intros s Hs. apply Hlt. apply in_or_app. left. exact Hs. }
      assert (forall s, In s (flat_map leaf_entries A) -> canon_lt (sl_key s) tk = true) as Hlt'.
      { intros s Hs. apply Hlt. apply in_or_app. right. exact Hs. }
      pose proof (SE_skip (lf_id a) (lf_ver a) (leaf_ranked a) [] false acc Hoka Hlta Hmr) as S.
      rewrite app_nil_r in S.
      destruct S as [(pu & a0 & X)|[(pu & a0 & X & NC)|(pu1 & a1 & X & M1 & I1 & P1)]]; [discriminate| | |].
      + rewrite X in E. discriminate E.
      + rewrite X in E. injection E as <-. contradiction.
      + rewrite X in E. cbn [scan_entries] in E.
        set (a2 := if pu1 then a1 else acc_push_nv a1 (lf_id a) (lf_ver a)) in *.
        assert (mr mx (ac_tuples a2) = false) as M2 by (unfold a2; destruct pu1; exact M1).
        destruct (A ++ lk :: B) as [|x rest] eqn:EA; [destruct A; discriminate EA|].
        rewrite <- EA in *. exact (IH B lk a2 acc' Hok Hlt' M2 Hcase E HC).
  Qed.
End CoverEntries.

Lemma land_layer ts p ls lm : land ts p ls = Some lm -> layer_get ls p <> None.
Proof. destruct ts as [|t rest]; [discriminate|]. cbn [land]. destruct (layer_get ls p); [discriminate|discriminate]. Qed.

(** [in_left] bounds the descent key of the scan from above *)
Lemma descent_le l le ksuf :
  bytes l -> bytes ksuf -> (le = EP_INF -> l = []) -> in_left l le ksuf = true ->
  canon_lt (tuple_of_key ksuf)
           (tuple_of_key (firstn (N.to_nat (N.of_nat (length l) mod 256)) l)) = false.
Proof.
  intros Hl Hks Hinf Hleft.
  set (l' := firstn (N.to_nat (N.of_nat (length l) mod 256)) l).
  assert (bytes l') as Hl' by (apply Forall_firstn; exact Hl).
  assert (lex_lt ksuf l = false) as H1.
  { destruct le; cbn [in_left] in Hleft.
    - apply lex_lt_asym. exact Hleft.
    - destruct (lex_lt ksuf l); [discriminate|reflexivity].
    - rewrite (Hinf eq_refl). apply lex_lt_nil_r. }
  assert (lex_lt ksuf l' = false) as H2.
  { destruct (lex_lt ksuf l') eqn:X; [|reflexivity]. exfalso.
    assert (lex_lt ksuf l = true) as Y; [|congruence].
    eapply lex_lt_le_trans; [exact X|]. unfold l'.
    rewrite <- (firstn_skipn (N.to_nat (N.of_nat (length l) mod 256)) l) at 1. apply lex_lt_prefix_le. }
  rewrite (lex_tuple ksuf l' Hks Hl') in H2. apply orb_false_iff in H2. apply H2.
Qed.

Section CoverLayer.
  Variable ctr : N.
  Variable ls : layers_t.
  Hypothesis W : WFL ctr ls None.
  Variable mx : nat.
  Variable lm : leaf.

  (** what [land] says at one layer *)
  Lemma land_cases p root ksuf lk :
    bytes ksuf -> layer_get ls p = Some root -> WF_layer root ->
    find_leaf root (tuple_of_key ksuf) = Some lk -> In lk (bt_leaves root) ->
    land (path_of_key ksuf) p ls = Some lm ->
    lm = lk \/
    exists E1 i e E2, leaf_ranked lk = E1 ++ (i, e) :: E2 /\
      (forall s, In s (map snd E1) -> canon_lt (sl_key s) (tuple_of_key ksuf) = true) /\
      sl_key e = tuple_of_key ksuf /\ sl_lv e = LLink /\
      land (path_of_key (skipn 8 ksuf)) (p ++ [ks (tuple_of_key ksuf)]) ls = Some lm.
  Proof.
    intros Hks Eg [Hwf Hnd] Ef Hin Hland.
    pose proof (tuple_of_key_wf ksuf Hks) as Htk.
    destruct (Nat.le_gt_cases (length ksuf) 8) as [Hlen|Hlen].
    - rewrite (path_short ksuf Hlen) in Hland. cbn [land] in Hland. rewrite Eg, Ef in Hland.
      destruct (leaf_lookup lk (tuple_of_key ksuf)); [discriminate|]. injection Hland as <-. left. reflexivity.
    - rewrite (path_long ksuf Hlen) in Hland. cbn [land] in Hland. rewrite Eg, Ef in Hland.
      destruct (leaf_lookup lk (tuple_of_key ksuf)) as [[[rk slot] s]|] eqn:El;
        [|injection Hland as <-; left; reflexivity].
      right.
      destruct (path_of_key (skipn 8 ksuf)) as [|t2 rest2] eqn:Ep; [discriminate|]. rewrite <- Ep in Hland |- *.
      destruct (find_leaf_lookup root _ lk Hwf Htk Ef) as [_ HB].
      destruct (HB rk slot s El) as (Hel & Hsk & Hnth).
      unfold leaf_entries in Hnth. rewrite nth_error_map in Hnth.
      destruct (nth_error (leaf_ranked lk) rk) as [[i s']|] eqn:En; [|discriminate].
      cbn [option_map snd] in Hnth. injection Hnth as ->.
      apply nth_error_split in En. destruct En as (E1 & E2 & Er & _).
      exists E1, i, s, E2. split; [exact Er|]. split.
      { pose proof (bt_leaves_WF None None root Hwf lk Hin) as (_ & _ & _ & Hsorted).
        unfold leaf_keys, leaf_entries in Hsorted. rewrite Er, !map_app in Hsorted.
        apply sorted_app_iff in Hsorted. destruct Hsorted as (_ & _ & C).
        intros s0 Hs0. apply C; [apply in_map; exact Hs0|]. cbn [map snd]. left. exact Hsk. }
      split; [exact Hsk|]. split; [|exact Hland].
      pose proof (layer_entry_ok ls (wl_layer _ _ _ W) p root s Eg Hel) as [_ Hok].
      rewrite Hsk, (tuple_kl_long ksuf Hlen) in Hok.
      destruct (sl_lv s); [contradiction|lia|reflexivity].
  Qed.

  Theorem scan_layer_cover : forall fuel p pb l le r re acc acc' ksuf,
    layer_get ls p <> None -> (length ls < fuel + length p)%nat ->
    bytes l -> (le = EP_INF -> l = []) -> mr mx (ac_tuples acc) = false ->
    bytes ksuf -> land (path_of_key ksuf) p ls = Some lm ->
    in_left l le ksuf = true -> in_right r re (pb ++ ksuf) = true ->
    scan_layer true fuel ls mx false p pb l le r re acc = Some acc' ->
    Cov mx (pb ++ ksuf) (ac_tuples acc') -> In (lf_id lm, lf_ver lm) (ac_nv acc').
  Proof.
    induction fuel as [|f IH]; intros p pb l le r re acc acc' ksuf Hex Hfuel Hl Hinf Hmr Hks Hland Hleft Hright E HC;
      [discriminate E|].
    cbn [scan_layer] in E.
    destruct (layer_get ls p) as [root|] eqn:Eg; [|contradiction].
    pose proof (wl_layer _ _ _ W p root Eg) as Hwfl. destruct Hwfl as [Hwf Hnd].
    set (l' := firstn (N.to_nat (N.of_nat (length l) mod 256)) l) in *.
    assert (bytes l') as Hl' by (apply Forall_firstn; exact Hl).
    pose proof (tuple_of_key_wf l' Hl') as Hk'.
    pose proof (tuple_of_key_wf ksuf Hks) as Htk.
    assert (find_leaf root (scan_descent_tuple l false) = find_leaf root (tuple_of_key l')) as Efl.
    { unfold find_leaf. eapply bt_find_leaf_ext; [exact Hwf|]. intros s Hs. apply descent_equiv; assumption. }
    pose proof (descent_le l le ksuf Hl Hks Hinf Hleft) as Hle. fold l' in Hle.
    destruct (walk_reaches root (tuple_of_key l') (tuple_of_key ksuf) (conj Hwf Hnd) Hk' Htk Hle)
      as (start & lk & A & B & E1 & E2 & Esk & Hin_lk & HinA & HinB & HltA).
    rewrite Efl, E1, Esk in E.
    pose proof (land_cases p root ksuf lk Hks Eg (conj Hwf Hnd) E2 Hin_lk Hland) as Hcase.
    assert (Forall (eok p pb ls (cent f ls p pb)) (flat_map leaf_entries (A ++ lk :: B))) as Hok.
    { pose proof (eok_all ctr ls W p pb f root Eg) as Hall. rewrite Forall_forall in Hall.
      apply Forall_forall. intros s Hs. apply Hall. rewrite <- bt_leaves_elems.
      apply in_flat_map in Hs. destruct Hs as (lf & Hlf & Hs). apply in_flat_map. exists lf. split; [|exact Hs].
      apply in_app_or in Hlf. destruct Hlf as [Hlf|[<-|Hlf]]; [apply HinA; exact Hlf|exact Hin_lk|apply HinB; exact Hlf]. }
    eapply (SL_cover (scan_layer true f ls mx false) mx p pb l le r re ls f Hl) with (ksuf := ksuf) (lm := lm);
      try eassumption.
    - intros x al ale ar are acc0 Hex0 Hal Hinf0 _ Hmr0.
      apply (scan_layer_fwd ctr ls W true mx f); try assumption. rewrite app_length. cbn [length].
      clear - Hfuel. lia.
    - intros. eapply scan_layer_nv_mono. eassumption.
    - intros x al ale ar are acc0 acc_s ksuf' Hal Hinf0 _ Hmr0 Hks' Hland' Hleft' Hright' Es HC'.
      eapply (IH (p ++ [x]) (pb ++ bytes_of_slice x 8) al ale ar are acc0 acc_s ksuf'); try eassumption.
      + eapply land_layer. exact Hland'.
      + rewrite app_length. cbn [length]. clear - Hfuel. lia.
  Qed.
End CoverLayer.

(** ** 4. the insert: the border it lands in gets a new version word *)
Lemma new_chain_get_other v : forall ts q ctr ls q', ~ is_prefix q q' ->
  layer_get (fst (new_chain q ts v ctr ls)) q' = layer_get ls q'.
Proof.
  induction ts as [|t rest IH]; intros q ctr ls q' Hn; [reflexivity|]. cbn [new_chain].
  destruct rest as [|t2 r].
  - cbn [fst]. apply layer_get_set_other. apply not_prefix_neq. exact Hn.
  - rewrite IH by (apply not_prefix_snoc; exact Hn). apply layer_get_set_other. apply not_prefix_neq. exact Hn.
Qed.

Lemma put_walk_land v unique : forall ts p ctr ls ls' o ctr',
  WFL ctr ls None -> vp ts -> layer_get ls p <> None ->
  LP (ent ls) p ts = None ->
  put_walk ts p ls v unique ctr = Some (ls', o, ctr') ->
  exists lm q root' lm', land ts p ls = Some lm /\ layer_get ls' q = Some root' /\
    In lm' (bt_leaves root') /\ lf_id lm' = lf_id lm /\ lf_ver lm' <> lf_ver lm /\
    exists info, po_info o = Some info /\ pi_modified info = lf_id lm.
Proof.
  induction ts as [|t rest IH]; intros p ctr ls ls' o ctr' W V Hp HLP E; [contradiction|].
  cbn [vp] in V. destruct V as [Hw V].
  pose proof (wl_layer _ _ _ W) as Hwf.
  destruct (layer_get ls p) as [root|] eqn:Eg; [|contradiction]. clear Hp.
  destruct (walk_step ctr ls None p root t W Eg Hw) as (l & Ef & Hl).
  cbn [put_walk] in E. rewrite Eg, Ef in E. cbn [LP] in HLP.
  destruct (leaf_lookup l t) as [[[rk slot] s]|] eqn:El.
  - destruct Hl as (Hin & Hst & He & Hoks). rewrite He in HLP.
    pose proof Hoks as [_ Hok]. rewrite Hst in Hok. destruct rest as [|t2 r].
    + destruct (sl_lv s) as [|ov|] eqn:Elv; [contradiction|discriminate HLP|lia].
    + destruct V as [H9 V]. destruct (sl_lv s) as [|ov|] eqn:Elv; [contradiction|lia|].
      assert (layer_get ls (p ++ [ks t]) <> None) as Hsub.
      { apply (wl_link _ _ _ W p root (ks t) Eg); [|discriminate].
        rewrite (mk9_ks t H9), <- Hst, <- Elv, mk_eta. exact Hin. }
      destruct (IH (p ++ [ks t]) ctr ls ls' o ctr' W V Hsub HLP E) as (lm & q & root' & lm' & Hland & R).
      exists lm, q, root', lm'. split; [|exact R]. cbn [land]. rewrite Eg, Ef, El. exact Hland.
  - destruct Hl as [He Hnin].
    set (lv := match rest with [] => LValue v | _ :: _ => LLink end) in *.
    assert (entry_ok {| sl_key := t; sl_lv := lv |}) as Hokn.
    { split; [exact Hw|]. unfold lv. cbn [sl_lv sl_key]. destruct rest; [exact V|apply V]. }
    destruct (layer_put root t lv ctr) as [[[root' info] ctr1]|] eqn:Eput; [|discriminate].
    destruct (new_chain (p ++ [ks t]) rest v ctr1 (layer_set ls p root')) as [ls2 ctr2] eqn:Enc.
    injection E as <- <- _.
    destruct (c12_modified_changes root t lv ctr root' info ctr1 (Hwf p root Eg) Hw Hnin Hokn
                (fun i => wl_ids _ _ _ W p root i Eg) Eput)
      as (lm0 & lm' & F & _ & Hm & Hin' & Hm' & Hne & _).
    rewrite Ef in F. injection F as <-.
    exists l, p, root', lm'. split; [cbn [land]; rewrite Eg, Ef, El; reflexivity|].
    split.
    { change ls2 with (fst (ls2, ctr2)). rewrite <- Enc.
      rewrite new_chain_get_other by apply snoc_not_prefix. apply layer_get_set_same. }
    split; [exact Hin'|]. split; [congruence|]. split; [exact Hne|].
    exists info. split; [reflexivity|]. symmetry. exact Hm.
Qed.

(** border ids are unique in the whole store, so [store_leaf_ver] finds the border *)
Lemma in_layer_get : forall ls p t, NoDup (map fst ls) -> In (p, t) ls -> layer_get ls p = Some t.
Proof.
  induction ls as [|[q u] ls IH]; intros p t Hnd Hin; [destruct Hin|].
  cbn [map fst] in Hnd. apply NoDup_cons_iff in Hnd. destruct Hnd as [Hq Hnd]. cbn [layer_get].
  destruct (prefix_eqb_spec q p) as [->|Hn].
  - destruct Hin as [X|X]; [injection X as ->; reflexivity|].
    exfalso. apply Hq. change p with (fst (p, t)). apply in_map. exact X.
  - destruct Hin as [X|X]; [injection X as X _; contradiction|]. apply IH; assumption.
Qed.

Lemma store_leaf_ver_spec ctr tr d q root lf :
  WFL ctr (t_layers tr) d -> layer_get (t_layers tr) q = Some root -> In lf (bt_leaves root) ->
  store_leaf_ver tr (lf_id lf) = Some (lf_ver lf).
Proof.
  intros W Eg Hin. unfold store_leaf_ver.
  assert (In lf (store_leaves (t_layers tr))) as Hs.
  { unfold store_leaves. apply in_flat_map. exists (q, root). split; [apply layer_get_in; exact Eg|exact Hin]. }
  destruct (find (fun l => lf_id l =? lf_id lf) (store_leaves (t_layers tr))) as [x|] eqn:Efi.
  2:{ pose proof (find_none _ _ Efi lf Hs) as X. cbn beta in X. rewrite N.eqb_refl in X. discriminate. }
  apply find_some in Efi. destruct Efi as [Hx Eid]. apply N.eqb_eq in Eid.
  unfold store_leaves in Hx. apply in_flat_map in Hx. destruct Hx as ([q2 root2] & Hq2 & Hx). cbn [snd] in Hx.
  apply (in_layer_get _ _ _ (wl_nodup _ _ _ W)) in Hq2.
  assert (q2 = q) as ->.
  { apply (wl_disj _ _ _ W q2 q root2 root (lf_id lf) Hq2 Eg).
    - rewrite <- Eid. apply bt_leaves_ids_incl. exact Hx.
    - apply bt_leaves_ids_incl. exact Hin. }
  rewrite Eg in Hq2. injection Hq2 as <-.
  assert (x = lf) as ->; [|reflexivity].
  apply (map_NoDup_inj lf_id (bt_leaves root)); [|exact Hx|exact Hin|exact Eid].
  apply leaves_ids_NoDup. apply (wl_layer _ _ _ W q root Eg).
Qed.

(** the insert of an absent key: the landing border, and its version word afterwards *)
Lemma put_lands ctr tr k v tr' po ctr' :
  WF_store ctr tr -> t_null tr = false -> bytes k ->
  smap_get (abs_tree tr) k = None ->
  put tr k v false ctr = Some (tr', po, ctr') ->
  exists lm, land (path_of_key k) [] (t_layers tr) = Some lm /\
             store_leaf_ver tr' (lf_id lm) <> Some (lf_ver lm) /\
             exists info, po_info po = Some info /\ pi_modified info = lf_id lm.
Proof.
  intros W Hn Hb Habs Hput.
  destruct (put_refines ctr tr k v false W Hb) as (tr2 & po2 & ctr2 & E2 & W2 & _).
  rewrite Hput in E2. injection E2 as <- <- <-.
  rewrite (abs_tree_get ctr tr k W Hb) in Habs. unfold lookup in Habs. rewrite Hn in Habs.
  assert (LP (ent (t_layers tr)) [] (path_of_key k) = None) as HLP.
  { destruct (LP (ent (t_layers tr)) [] (path_of_key k)); [discriminate Habs|reflexivity]. }
  unfold put in Hput. rewrite Hn in Hput.
  destruct (put_walk (path_of_key k) [] (t_layers tr) v false ctr) as [[[ls' o] c]|] eqn:Ew; [|discriminate].
  injection Hput as <- <- _.
  unfold WF_store in W. rewrite Hn in W.
  destruct (put_walk_land v false _ [] ctr _ ls' o c W (proj1 (path_vp k Hb)) (wl_exc _ _ _ W) HLP Ew)
    as (lm & q & root' & lm' & Hland & Eq & Hin & Hid & Hver & Hrep).
  exists lm. split; [exact Hland|]. split; [|exact Hrep].
  unfold WF_store in W2. cbn [t_null] in W2.
  rewrite <- Hid.
  rewrite (store_leaf_ver_spec ctr' {| t_layers := ls'; t_null := false |} None q root' lm' W2 Eq Hin).
  intros X. injection X as X. contradiction.
Qed.

(** ** 5. coverage, right to left (max_size 1: the greatest entry) *)

(** the leaves to the right of the leaf found only hold greater keys *)
Lemma bt_find_leaf_after fuel : forall t lo hi k,
  WF_bt lo hi t -> kt_wf k = true -> (bt_height t < fuel)%nat ->
  exists lf before after,
    bt_find_leaf fuel t k = Some lf /\ bt_leaves t = before ++ lf :: after /\
    (forall s, In s (flat_map leaf_entries after) -> canon_lt k (sl_key s) = true).
Proof.
  induction fuel as [|fu IH]; intros t lo hi k Hwf Hk Hh; [lia|].
  destruct t as [lf|id ver keys ch].
  - exists lf, [], []. split; [reflexivity|]. split; [reflexivity|intros s []].
  - apply WF_int_iff in Hwf. destruct Hwf as [Hn Hkids].
    destruct (kids_route lo hi keys ch k Hkids Hk) as (Hi & _ & _).
    destruct Hkids as (Hlen & Hs & Hw & Hsb & Hc & Hne).
    pose proof (route_is_pos keys k Hw Hk) as Hpos.
    set (i := route keys k 0) in *.
    cbn [bt_find_leaf]. fold i. rewrite (nth_error_child ch i Hi).
    destruct (IH (nth i ch dbt) _ _ k (Hc i Hi) Hk) as (lf & b' & a' & E & EL & Ha').
    { pose proof (height_child id ver keys ch i Hi). lia. }
    exists lf, (flat_map bt_leaves (firstn i ch) ++ b'), (a' ++ flat_map bt_leaves (skipn (S i) ch)).
    split; [exact E|]. split.
    + cbn [bt_leaves]. rewrite (flat_map_split bt_leaves dbt ch i Hi), EL, <- !app_assoc. reflexivity.
    + intros s Hin. rewrite flat_map_app in Hin. apply in_app_or in Hin.
      destruct Hin as [Hin|Hin]; [apply Ha'; exact Hin|].
      apply in_flat_map in Hin. destruct Hin as (lf0 & Hlf0 & Hs0).
      apply in_flat_map in Hlf0. destruct Hlf0 as (c & Hc0 & Hlf0).
      apply (In_nth _ _ dbt) in Hc0. destruct Hc0 as (j0 & Hj0 & Ej).
      rewrite skipn_length in Hj0. rewrite nth_skipn in Ej. set (j := (S i + j0)%nat) in *.
      assert (j < length ch)%nat as Hj by lia. subst c.
      assert (In s (bt_elems (nth j ch dbt))) as Hel.
      { rewrite <- bt_leaves_elems. apply in_flat_map. exists lf0. split; assumption. }
      pose proof (WF_bt_keys_bnd _ _ _ (Hc j Hj)) as Bd. rewrite Forall_forall in Bd.
      destruct (Bd (sl_key s) (in_elems_in_keys _ _ Hel)) as [B1 _].
      destruct Hpos as (P1 & _ & P3).
      assert (lo_at lo keys j = Some (nth (j - 1) keys dk)) as Elo.
      { unfold j. cbn [Nat.add lo_at]. f_equal. f_equal. lia. }
      rewrite Elo in B1. cbn [lo_ok] in B1.
      eapply canon_lt_le_trans; [|exact B1].
      eapply canon_lt_le_trans; [apply P3; lia|]. apply sorted_nth_le; [exact Hs|lia|lia].
Qed.

(** coverage of a right-to-left scan: it returned nothing, or a key below [kf] *)
Definition CovR (kf : key) (ts : list (key * value)) : Prop :=
  ts = [] \/ exists k0 v0 rest, ts = (k0, v0) :: rest /\ lex_lt k0 kf = true.

Lemma in_left_up L le a b : in_left L le a = true -> lex_lt a b = true -> in_left L le b = true.
Proof.
  intros Ha Hab. destruct (in_left L le b) eqn:X; [reflexivity|].
  rewrite (in_left_mono L le b a X Hab) in Ha. discriminate.
Qed.

Lemma mr1_nil {A} (ts : list A) : mr 1 ts = false -> ts = [].
Proof. destruct ts; [reflexivity|]. unfold mr. cbn. discriminate. Qed.

Section RtlEntries.
  Variable sub : prefix -> key -> key -> endpoint -> key -> endpoint -> scan_acc -> option scan_acc.
  Variable p : prefix. Variable pb : key.
  Variable l : key. Variable le : endpoint. Variable r : key.
  Variable ls : layers_t.
  Variable f : nat.
  Hypothesis Hl : bytes l.
  Local Notation CE := (cent f ls p pb).
  Local Notation CS := (fun x => clayer f ls (p ++ [x]) (pb ++ bytes_of_slice x 8)).
  Hypothesis Hsub : forall x al ale ar are acc,
    layer_get ls (p ++ [x]) <> None -> bytes al -> (ale = EP_INF -> al = []) ->
    (EP_INF = EP_INF -> are = EP_INF) -> mr 1 (ac_tuples acc) = false ->
    exists acc', sub (p ++ [x]) (pb ++ bytes_of_slice x 8) al ale ar are acc = Some acc' /\
      ac_tuples acc' =
        trunc 1 (ac_tuples acc ++ filter (Pabs (pb ++ bytes_of_slice x 8) al ale ar are) (rev (CS x))).
  Hypothesis Hne_sub : forall x, layer_get ls (p ++ [x]) <> None -> CS x <> [].
  Variable ksuf : key.
  Hypothesis Hks : bytes ksuf.
  Local Notation tk := (tuple_of_key ksuf).
  Local Notation kf := (pb ++ ksuf).
  Hypothesis Hleft : in_left l le ksuf = true.
  Local Notation SE bid bver := (scan_entries true sub 1 p pb l le r EP_INF bid bver).

  Lemma above_gt s kv : eok p pb ls CE s -> canon_lt tk (sl_key s) = true -> In kv (CE s) ->
    lex_lt kf (fst kv) = true.
  Proof.
    intros (_ & _ & Hsh) Hgt Hkv. destruct (Hsh kv Hkv) as (rest & -> & Hb & Ht).
    rewrite lex_lt_app, (lex_tuple ksuf rest Hks Hb), Ht, Hgt. reflexivity.
  Qed.

  (** an entry above the key ends the scan with a key above [kf] *)
  Lemma SE_rtl_above bid bver i e rest pushed acc :
    eok p pb ls CE e -> canon_lt tk (sl_key e) = true -> ac_tuples acc = [] ->
    match SE bid bver ((i, e) :: rest) pushed acc with
    | (SB_ERR, _, _) => True
    | (SB_END, _, a) => ~ CovR kf (ac_tuples a)
    | (SB_CONT, _, _) => False
    end.
  Proof.
    intros Hs Hgt Hacc. pose proof Hs as ((Hw & Hlv) & Hlink & Hshape).
    rewrite scan_entries_cons. cbv zeta.
    destruct (sl_lv e) as [|v|] eqn:Elv; [contradiction| |].
    - destruct (N.ltb_spec 8 (kl (sl_key e))) as [X|_]; [lia|].
      fold (tbytes (sl_key e)).
      assert (lex_lt ksuf (tbytes (sl_key e)) = true) as Hlt.
      { rewrite (lex_tuple ksuf (tbytes (sl_key e)) Hks (bos_bytes _ _)), (tuple_of_tbytes _ Hw Hlv), Hgt. reflexivity. }
      rewrite (pass_left_f_spec l le (sl_key e) Hl Hw Hlv), (in_left_up l le _ _ Hleft Hlt).
      cbn [negb]. rewrite max_reached_mr. cbn [acc_push_t ac_tuples]. rewrite Hacc. cbn [app].
      unfold mr at 1. cbn [length Nat.eqb Nat.leb negb andb].
      cbn [acc_push_t ac_tuples]. rewrite Hacc. cbn [app].
      intros [X|(k0 & v0 & rest0 & X & L)]; [discriminate X|]. injection X as <- <- <-.
      assert (lex_lt kf (pb ++ tbytes (sl_key e)) = true) as Y by (rewrite lex_lt_app; exact Hlt).
      rewrite (lex_lt_asym _ _ Y) in L. discriminate.
    - set (kt := sl_key e) in *.
      rewrite Hlv. change (8 <? 9) with true. cbv iota.
      change (bytes_of_slice (ks kt) 9) with (bytes_of_slice (ks kt) 8).
      assert (forall rest', bytes rest' -> rest' <> [] ->
                in_left l le (bytes_of_slice (ks kt) 8 ++ rest') = true) as Hin.
      { intros rest' Hb' Hne'. apply (in_left_up l le ksuf); [exact Hleft|].
        rewrite (lex_tuple ksuf _ Hks), (tuple_of_link kt rest' Hw Hlv Hne'), Hgt; [reflexivity|].
        apply Forall_app. split; [apply bos_bytes|exact Hb']. }
      pose proof (larg_f_spec l le kt Hl Hw Hlv) as LA.
      destruct (larg_f l le kt) as [[al ale]|].
      2:{ assert (bytes [0]) as B0 by (constructor; [lia|constructor]).
          assert (([0] : key) <> []) as N0 by discriminate.
          specialize (LA [0] B0 N0). rewrite (Hin [0] B0 N0) in LA. discriminate LA. }
      destruct LA as [[Hal Hinf] LA]. cbn [rarg_f].
      destruct (Hsub (ks kt) al ale [] EP_INF acc (Hlink eq_refl) Hal Hinf (fun _ => eq_refl))
        as (acc1 & Es & Ts); [rewrite Hacc; reflexivity|].
      rewrite Es. rewrite Hacc in Ts. cbn [app] in Ts.
      set (P' := Pabs (pb ++ bytes_of_slice (ks kt) 8) al ale [] EP_INF) in *.
      assert (forall kv, In kv (CE e) -> P' kv = true /\ lex_lt kf (fst kv) = true) as Hall.
      { intros kv Hkv. split; [|exact (above_gt e kv Hs Hgt Hkv)].
        destruct (Hshape kv Hkv) as (rest0 & E0 & Hb0 & Ht0).
        destruct (link_key_shape kt rest0 Hw Hlv Hb0 Ht0) as (rest' & -> & Hb' & Hne').
        unfold P', Pabs. rewrite E0, app_assoc, in_left_app, (LA rest' Hb' Hne'), (Hin rest' Hb' Hne').
        reflexivity. }
      rewrite (cent_link p pb ls f e Elv) in Hall. fold kt in Hall.
      pose proof (Hne_sub (ks kt) (Hlink eq_refl)) as Hne.
      cbv beta in Ts, Hne.
      set (cs := clayer f ls (p ++ [ks kt]) (pb ++ bytes_of_slice (ks kt) 8)) in *.
      destruct (filter P' (rev cs)) as [|y F] eqn:EF.
      { exfalso. destruct cs as [|kv0 c0]; [contradiction|].
        rewrite filter_nil_iff in EF.
        destruct (Hall kv0 (or_introl eq_refl)) as [X _]. rewrite (EF kv0) in X; [discriminate X|].
        apply in_rev. rewrite rev_involutive. left. reflexivity. }
      assert (In y cs) as Hy.
      { apply in_rev. eapply (proj1 (filter_In P' y _)). rewrite EF. left. reflexivity. }
      assert (ac_tuples acc1 = [y]) as T1 by (rewrite Ts; reflexivity).
      rewrite max_reached_mr, T1. unfold mr at 1. cbn [length Nat.eqb Nat.leb negb andb].
      assert (forall a : scan_acc, ac_tuples a = [y] -> ~ CovR kf (ac_tuples a)) as G.
      { intros a ->. intros [X|(k0 & v0 & rest0 & X & L)]; [discriminate X|]. injection X as -> <-.
        destruct (Hall _ Hy) as [_ Y]. cbn [fst] in Y. rewrite (lex_lt_asym _ _ Y) in L. discriminate. }
      destruct (negb pushed); cbn [andb]; apply G; exact T1.
  Qed.
End RtlEntries.

Section CoverLayerRtl.
  Variable ctr : N.
  Variable ls : layers_t.
  Hypothesis W : WFL ctr ls None.
  Hypothesis Hrtl : rtl_ok ls.
  Variable lm : leaf.

  Lemma ranked_in_elems root lf i e :
    In lf (bt_leaves root) -> In (i, e) (leaf_ranked lf) -> In e (bt_elems root).
  Proof.
    intros Hlf Hie. rewrite <- bt_leaves_elems. apply in_flat_map. exists lf. split; [exact Hlf|].
    unfold leaf_entries. change e with (snd (i, e)). apply in_map. exact Hie.
  Qed.

  Theorem scan_layer_cover_rtl : forall fuel p pb l le r acc acc' ksuf,
    layer_get ls p <> None -> (length ls < fuel + length p)%nat ->
    bytes l -> (le = EP_INF -> l = []) -> ac_tuples acc = [] ->
    bytes ksuf -> land (path_of_key ksuf) p ls = Some lm ->
    in_left l le ksuf = true ->
    scan_layer true fuel ls 1 true p pb l le r EP_INF acc = Some acc' ->
    CovR (pb ++ ksuf) (ac_tuples acc') -> In (lf_id lm, lf_ver lm) (ac_nv acc').
  Proof.
    induction fuel as [|f IH]; intros p pb l le r acc acc' ksuf Hex Hfuel Hl Hinf Hacc Hks Hland Hleft E HC;
      [discriminate E|].
    cbn [scan_layer] in E.
    destruct (layer_get ls p) as [root|] eqn:Eg; [|contradiction].
    pose proof (wl_layer _ _ _ W p root Eg) as Hwfl. destruct Hwfl as [Hwf Hnd].
    pose proof (tuple_of_key_wf ksuf Hks) as Htk.
    change (scan_descent_tuple l true) with dmax in E.
    destruct (bt_find_leaf_last (S (bt_height root)) root None None Hwf (Hrtl p root Eg) ltac:(lia))
      as (lf & before & Ef & Elv).
    unfold find_leaf in E. rewrite Ef, Elv in E.
    rewrite skip_to_split in E by (rewrite <- Elv; apply leaves_ids_NoDup; exact Hnd).
    cbn [scan_leaves] in E.
    assert (In lf (bt_leaves root)) as Hlf by (rewrite Elv; apply in_or_app; right; left; reflexivity).
    pose proof (eok_all ctr ls W p pb f root Eg) as Hall. rewrite Forall_forall in Hall.
    (* the hypotheses on the recursive call *)
    assert (forall x al ale ar are acc0,
      layer_get ls (p ++ [x]) <> None -> bytes al -> (ale = EP_INF -> al = []) ->
      (EP_INF = EP_INF -> are = EP_INF) -> mr 1 (ac_tuples acc0) = false ->
      exists acc1, scan_layer true f ls 1 true (p ++ [x]) (pb ++ bytes_of_slice x 8) al ale ar are acc0 = Some acc1 /\
        ac_tuples acc1 =
          trunc 1 (ac_tuples acc0 ++ filter (Pabs (pb ++ bytes_of_slice x 8) al ale ar are)
                                            (rev (clayer f ls (p ++ [x]) (pb ++ bytes_of_slice x 8))))) as Hsub.
    { intros x al ale ar are acc0 Hex0 Hal Hinf0 Hare Hmr0. rewrite (Hare eq_refl).
      apply (scan_layer_rtl ctr ls W true Hrtl f); try assumption. rewrite app_length. cbn [length]. lia. }
    assert (forall x, layer_get ls (p ++ [x]) <> None ->
              clayer f ls (p ++ [x]) (pb ++ bytes_of_slice x 8) <> []) as Hne_sub.
    { intros x Hx. apply (clayer_nonempty ctr ls W f); [exact Hx|destruct p; discriminate|].
      rewrite app_length. cbn [length]. lia. }
    (* the greatest entry is not above the key *)
    assert (forall i e rest, rev (leaf_ranked lf) = (i, e) :: rest -> canon_lt (tuple_of_key ksuf) (sl_key e) = false) as Hhead.
    { intros i e rest Ees. destruct (canon_lt (tuple_of_key ksuf) (sl_key e)) eqn:Hgt; [exfalso|reflexivity].
      assert (eok p pb ls (cent f ls p pb) e) as Hoke.
      { apply Hall. apply (ranked_in_elems root lf i e Hlf). apply in_rev. rewrite Ees. left. reflexivity. }
      pose proof (SE_rtl_above (scan_layer true f ls 1 true) p pb l le r ls f Hl Hsub Hne_sub ksuf Hks Hleft
                    (lf_id lf) (lf_ver lf) i e rest false acc Hoke Hgt Hacc) as T.
      rewrite Ees in E.
      destruct (scan_entries true (scan_layer true f ls 1 true) 1 p pb l le r EP_INF (lf_id lf) (lf_ver lf)
                  ((i, e) :: rest) false acc) as [[res pu] a].
      destruct res; [injection E as <-; contradiction|contradiction|discriminate E]. }
    (* hence the key belongs to the last border *)
    destruct (bt_find_leaf_after (S (bt_height root)) root None None (tuple_of_key ksuf) Hwf Htk ltac:(lia))
      as (lk & bk & ak & Efk & ELk & Hak).
    assert (lk = lf) as ->.
    { destruct ak as [|a0 ak0].
      - rewrite Elv in ELk. apply (app_inj_tail before bk lf lk) in ELk. symmetry. apply ELk.
      - exfalso. destruct (@exists_last _ (a0 :: ak0)) as (ak' & z & Ez); [discriminate|].
        rewrite Ez in ELk, Hak. clear Ez a0 ak0.
        rewrite Elv in ELk. change (lk :: ak' ++ [z]) with ((lk :: ak') ++ [z]) in ELk.
        rewrite app_assoc in ELk. apply app_inj_tail in ELk. destruct ELk as [Eb <-].
        assert (forall s, In s (leaf_entries lf) -> canon_lt (tuple_of_key ksuf) (sl_key s) = true) as Hgt.
        { intros s Hs. apply Hak. rewrite flat_map_app. apply in_or_app. right. cbn [flat_map].
          rewrite app_nil_r. exact Hs. }
        destruct (bt_leaves_nonempty_root None None root Hwf lf Hlf) as [Hne|Hroot].
        + unfold leaf_entries in Hne, Hgt.
          destruct (rev (leaf_ranked lf)) as [|[i e] rest] eqn:Ees.
          * apply (f_equal (@rev _)) in Ees. rewrite rev_involutive in Ees. rewrite Ees in Hne. contradiction.
          * pose proof (Hhead i e rest eq_refl) as X. rewrite (Hgt e) in X; [discriminate X|].
            change e with (snd (i, e)). apply in_map. apply in_rev. rewrite Ees. left. reflexivity.
        + subst root. cbn [bt_leaves] in Elv. rewrite Eb in Elv.
          apply (f_equal (@length leaf)) in Elv. rewrite !app_length in Elv. cbn [length] in Elv. lia. }
    pose proof (land_cases ctr ls W lm p root ksuf lf Hks Eg (conj Hwf Hnd) Efk Hlf Hland) as Hcase.
    destruct Hcase as [->|(E1 & i & e & E2 & Er & Hlt1 & Hk & Elv' & Hland')].
    - (* the key lands in the last border *)
      destruct (scan_entries true (scan_layer true f ls 1 true) 1 p pb l le r EP_INF (lf_id lf) (lf_ver lf)
                  (rev (leaf_ranked lf)) false acc) as [[res pu] a] eqn:Ee.
      destruct (SE_nv _ 1 (scan_layer_nv_mono 1 true ls f) p pb l le r EP_INF _ _ _ _ _ _ _ _ Ee)
        as (I1 & I2 & I3); [discriminate|].
      destruct res; [injection E as <-; apply I2; reflexivity| |discriminate E].
      injection E as <-. destruct pu; [apply I3; reflexivity|apply in_push_nv].
    - (* the key continues below the greatest entry, a link *)
      assert (E2 = []) as ->.
      { destruct E2 as [|x0 E20]; [reflexivity|]. exfalso.
        destruct (@exists_last _ (x0 :: E20)) as (E2' & [j e2] & Ez); [discriminate|].
        rewrite Ez in Er. clear Ez x0 E20.
          assert (rev (leaf_ranked lf) = (j, e2) :: rev (E1 ++ (i, e) :: E2')) as Ees.
          { rewrite Er. change ((i, e) :: E2' ++ [(j, e2)]) with (((i, e) :: E2') ++ [(j, e2)]).
            rewrite app_assoc, rev_unit. reflexivity. }
          pose proof (Hhead j e2 _ Ees) as X.
          pose proof (bt_leaves_WF None None root Hwf lf Hlf) as (_ & _ & _ & Hsorted).
          unfold leaf_keys, leaf_entries in Hsorted. rewrite Er, !map_app in Hsorted.
          apply sorted_app_iff in Hsorted. destruct Hsorted as (_ & Hs2 & _).
          cbn [map snd] in Hs2. apply sorted_cons_iff in Hs2. destruct Hs2 as [_ Hs2].
          rewrite Forall_forall in Hs2. rewrite <- Hk in X. rewrite Hs2 in X; [discriminate X|].
          rewrite !map_app. apply in_or_app. right. left. reflexivity. }
      assert (Hoke : eok p pb ls (cent f ls p pb) e).
      { apply Hall. apply (ranked_in_elems root lf i e Hlf). rewrite Er. apply in_or_app. right. left. reflexivity. }
      rewrite Er, rev_unit in E.
      pose proof (SE_target (scan_layer true f ls 1 true) 1 p pb l le r EP_INF ls (cent f ls p pb) Hl) as T.
      specialize (T (fun x al ale ar are acc0 H1 H2 H3 H4 H5 =>
                       match Hsub x al ale ar are acc0 H1 H2 H3 H4 H5 with
                       | ex_intro _ a1 (conj Ea _) => ex_intro _ a1 Ea end)).
      specialize (T (scan_layer_nv_mono 1 true ls f) ksuf Hks eq_refl lm Hleft CovR).
      specialize (T (fun kf ts H => or_introl (mr1_nil ts H))).
      assert (forall x al ale ar are acc0 acc_s ksuf',
        bytes al -> (ale = EP_INF -> al = []) -> (EP_INF = EP_INF -> are = EP_INF) ->
        mr 1 (ac_tuples acc0) = false -> bytes ksuf' ->
        land (path_of_key ksuf') (p ++ [x]) ls = Some lm ->
        in_left al ale ksuf' = true -> in_right ar are ((pb ++ bytes_of_slice x 8) ++ ksuf') = true ->
        scan_layer true f ls 1 true (p ++ [x]) (pb ++ bytes_of_slice x 8) al ale ar are acc0 = Some acc_s ->
        CovR ((pb ++ bytes_of_slice x 8) ++ ksuf') (ac_tuples acc_s) ->
        In (lf_id lm, lf_ver lm) (ac_nv acc_s)) as HsubG.
      { intros x al ale ar are acc0 acc_s ksuf' Hal Hinf0 Hare Hmr0 Hks' Hl' Hleft' _ Es HC'.
        rewrite (Hare eq_refl) in Es.
        eapply (IH (p ++ [x]) (pb ++ bytes_of_slice x 8) al ale ar acc0 acc_s ksuf'); try eassumption.
        - eapply land_layer. exact Hl'.
        - rewrite app_length. cbn [length]. lia.
        - apply mr1_nil. exact Hmr0. }
      specialize (T HsubG (lf_id lf) (lf_ver lf) i e (rev E1) false acc Hoke Hk Elv' Hland').
      assert (mr 1 (ac_tuples acc) = false) as Hmr by (rewrite Hacc; reflexivity).
      specialize (T Hmr). specialize (T ltac:(discriminate)).
      destruct (scan_entries true (scan_layer true f ls 1 true) 1 p pb l le r EP_INF (lf_id lf) (lf_ver lf)
                  ((i, e) :: rev E1) false acc) as [[res pu] a].
      destruct res; [injection E as <-; apply T; exact HC| |discriminate E].
      injection E as <-. destruct pu; [exact T|apply incl_push_nv; exact T].
  Qed.
End CoverLayerRtl.

(** ** 6. the theorem *)
Lemma covered_fwd mx (res : list (key * value)) k :
  (if Nat.eqb mx 0 || Nat.ltb (length res) mx then true
   else match rev res with [] => true | (k1, _) :: _ => lex_lt k k1 end) = true ->
  Cov mx k res.
Proof.
  intros H. unfold Cov, mr.
  destruct (Nat.eqb_spec mx 0) as [E0|N0]; [left; reflexivity|]. cbn [orb negb andb] in H |- *.
  destruct (Nat.ltb_spec (length res) mx) as [Hlt|Hge].
  - left. apply Nat.leb_gt. exact Hlt.
  - destruct (rev res) as [|[k1 v1] t] eqn:Er.
    + apply (f_equal (@rev _)) in Er. rewrite rev_involutive in Er. subst res. cbn in Hge. lia.
    + right. exists (rev t), k1, v1. split; [|exact H].
      apply (f_equal (@rev _)) in Er. rewrite rev_involutive in Er. exact Er.
Qed.

(** part (A): the border in which an insert of a covered key would land is in the
    node-version vector, with its current version word *)
Lemma scan_records_landing : forall ctr tr a o k lm,
  WF_store ctr tr -> scan_inv tr -> t_null tr = false ->
  bytes (sa_l a) -> bytes k ->
  spec_scan_args_ok a = true -> scan tr a = Some o ->
  covered a (so_tuples o) k = true ->
  land (path_of_key k) [] (t_layers tr) = Some lm ->
  In (lf_id lm, lf_ver lm) (so_nv o).
Proof.
  intros ctr tr a o k lm W Hinv Hn Hbl Hbk Hok Hscan Hcov Hland.
  destruct (scan_inv_sound tr Hinv) as [Hlive Hrtl].
  unfold scan in Hscan. rewrite (proj2 (proj1 (scan_validate_spec a)) Hok) in Hscan.
  unfold WF_store in W. rewrite Hn in W.
  set (ls := t_layers tr) in *.
  set (a' := scan_normalise a) in *.
  assert (sa_r a' = sa_r a /\ sa_re a' = sa_re a /\ sa_max a' = sa_max a /\ sa_rtl a' = sa_rtl a)
    as (Er & Ere & Emx & Ertl).
  { unfold a', scan_normalise. destruct (sa_le a); repeat split; reflexivity. }
  assert (bytes (sa_l a')) as Hbl'.
  { unfold a', scan_normalise. destruct (sa_le a); cbn [sa_l]; try exact Hbl. constructor. }
  assert (sa_le a' = EP_INF -> sa_l a' = []) as Hinf.
  { unfold a', scan_normalise. destruct (sa_le a) eqn:E; cbn [sa_l sa_le]; rewrite ?E; try discriminate.
    reflexivity. }
  unfold covered in Hcov. cbv zeta in Hcov.
  apply andb_true_iff in Hcov. destruct Hcov as [Hcov Hc3].
  apply andb_true_iff in Hcov. destruct Hcov as [Hc1 Hc2].
  assert (in_left (sa_l a') (sa_le a') k = true) as Hleft.
  { revert Hc1. unfold a', scan_normalise. destruct (sa_le a) eqn:E; cbn [sa_l sa_le]; rewrite ?E;
      intros Hc1; exact Hc1. }
  pose proof (tuple_of_key_wf k Hbk) as Htk.
  unfold scan_body in Hscan. rewrite Hn in Hscan. fold ls in Hscan.
  destruct (layer_get ls []) as [root|] eqn:Eg; [|discriminate Hscan].
  destruct (wl_layer _ _ _ W [] root Eg) as [Hwf Hnd].
  destruct (find_leaf_descent root (sa_l a') (sa_rtl a') Hwf Hbl') as (start & Efl & Hstart).
  rewrite Efl in Hscan.
  destruct (get_deleted (lf_ver start) && get_root (lf_ver start)) eqn:Edel.
  { (* the flagged root border of the empty store *)
    injection Hscan as <-. cbn [so_nv]. left.
    pose proof (Hlive root start Eg Hstart Edel) as Hemp.
    destruct (empty_root_leaf None None root Hwf Hemp) as [l0 ->].
    cbn [bt_leaves] in Hstart. destruct Hstart as [<-|[]].
    destruct (path_hd k) as [rest Ep]. rewrite Ep in Hland. cbn [land] in Hland. fold ls in Hland.
    rewrite Eg in Hland. unfold find_leaf in Hland. cbn [bt_height bt_find_leaf] in Hland.
    destruct (leaf_lookup l0 (tuple_of_key k)) as [[[rk slot] s]|] eqn:El.
    - exfalso. destruct (find_leaf_lookup (BLeaf l0) _ l0 Hwf Htk eq_refl) as [_ HB].
      destruct (HB rk slot s El) as (X & _). rewrite Hemp in X. destruct X.
    - injection Hland as <-. reflexivity. }
  destruct (scan_layer true (S (length ls)) ls (sa_max a') (sa_rtl a') [] [] (sa_l a') (sa_le a')
                       (sa_r a') (sa_re a') {| ac_tuples := []; ac_nv := [] |}) as [acc|] eqn:El;
    [|discriminate Hscan].
  injection Hscan as <-. cbn [so_nv so_tuples] in *.
  rewrite Er, Ere, Emx, Ertl in El.
  assert (layer_get ls [] <> None) as Hex by (rewrite Eg; discriminate).
  destruct (sa_rtl a) eqn:Rtl.
  - (* right to left *)
    assert (sa_re a = EP_INF /\ sa_max a = 1%nat) as [Ere1 Emx1].
    { unfold spec_scan_args_ok in Hok. rewrite Rtl in Hok.
      apply andb_true_iff in Hok. destruct Hok as [_ Hok]. cbn [andb] in Hok.
      apply negb_true_iff, orb_false_iff in Hok. destruct Hok as [E1 E2].
      apply negb_false_iff in E1, E2. split; [destruct (sa_re a); try discriminate; reflexivity|].
      apply Nat.eqb_eq. exact E2. }
    rewrite Ere1, Emx1 in El.
    apply (scan_layer_cover_rtl ctr ls W Hrtl lm (S (length ls)) [] [] (sa_l a') (sa_le a') (sa_r a)
             {| ac_tuples := []; ac_nv := [] |} acc k); try assumption.
    + cbn [length]. rewrite Nat.add_0_r. apply Nat.lt_succ_diag_r.
    + reflexivity.
    + cbn [app]. destruct (ac_tuples acc) as [|[k0 v0] rest]; [left; reflexivity|].
      right. exists k0, v0, rest. split; [reflexivity|exact Hc3].
  - (* left to right *)
    apply (scan_layer_cover ctr ls W (sa_max a) lm (S (length ls)) [] [] (sa_l a') (sa_le a') (sa_r a) (sa_re a)
             {| ac_tuples := []; ac_nv := [] |} acc k); try assumption.
    + cbn [length]. rewrite Nat.add_0_r. apply Nat.lt_succ_diag_r.
    + unfold mr. cbn [ac_tuples length]. destruct (sa_max a); reflexivity.
    + cbn [app]. apply covered_fwd. exact Hc3.
Qed.

(** C05, sequential form: the insert of an absent key of the covered range makes a recorded
    (border, version) pair stale *)
Theorem scan_detects_insert : forall ctr tr a o k v tr' po ctr',
  WF_store ctr tr -> scan_inv tr -> t_null tr = false ->
  bytes (sa_l a) -> bytes (sa_r a) -> bytes k ->
  spec_scan_args_ok a = true -> scan tr a = Some o ->
  smap_get (abs_tree tr) k = None ->
  covered a (so_tuples o) k = true ->
  put tr k v false ctr = Some (tr', po, ctr') ->
  exists id ver, In (id, ver) (so_nv o) /\ store_leaf_ver tr' id <> Some ver.
Proof.
  intros ctr tr a o k v tr' po ctr' W Hinv Hn Hbl _ Hbk Hok Hscan Habs Hcov Hput.
  destruct (put_lands ctr tr k v tr' po ctr' W Hn Hbk Habs Hput) as (lm & Hland & Hstale & _).
  exists (lf_id lm), (lf_ver lm). split; [|exact Hstale].
  exact (scan_records_landing ctr tr a o k lm W Hinv Hn Hbl Hbk Hok Hscan Hcov Hland).
Qed.

(** the same with C12: the stale pair is the one of the border that the put reports as modified *)
Theorem scan_detects_insert_reported : forall ctr tr a o k v tr' po ctr',
  WF_store ctr tr -> scan_inv tr -> t_null tr = false ->
  bytes (sa_l a) -> bytes k ->
  spec_scan_args_ok a = true -> scan tr a = Some o ->
  smap_get (abs_tree tr) k = None ->
  covered a (so_tuples o) k = true ->
  put tr k v false ctr = Some (tr', po, ctr') ->
  exists info ver, po_info po = Some info /\ In (pi_modified info, ver) (so_nv o) /\
                   store_leaf_ver tr' (pi_modified info) <> Some ver.
Proof.
  intros ctr tr a o k v tr' po ctr' W Hinv Hn Hbl Hbk Hok Hscan Habs Hcov Hput.
  destruct (put_lands ctr tr k v tr' po ctr' W Hn Hbk Habs Hput) as (lm & Hland & Hstale & info & Ei & Em).
  exists info, (lf_ver lm). split; [exact Ei|]. rewrite Em. split; [|exact Hstale].
  exact (scan_records_landing ctr tr a o k lm W Hinv Hn Hbl Hbk Hok Hscan Hcov Hland).
Qed.

(** ** 7. the statement is false for the scan before the F2 fix, and sanity of the hypotheses *)
Module PhantomExample.
  Definition mk (l : key) le (r : key) re mx rtl : scan_args :=
    {| sa_l := l; sa_le := le; sa_r := r; sa_re := re; sa_max := mx; sa_rtl := rtl;
       sa_lnull := false; sa_rnull := false |}.

  (** *** fix2 = false: one key "aaaaaaaab"; scan (-inf, "aaaaaaaa"] ends on the layer link
      without recording the border, so the later insert of "a" goes unnoticed *)
  Definition cx_key : key := [97;97;97;97;97;97;97;97;98].
  Definition cx_args : scan_args := mk [] EP_INF [97;97;97;97;97;97;97;97] EP_INCL 0%nat false.
  Definition cx_ins : key := [97].

  Theorem scan_nofix2_misses_insert :
    exists ctr tr o tr' po ctr',
      WF_store ctr tr /\ scan_inv tr /\ t_null tr = false /\
      bytes (sa_l cx_args) /\ bytes (sa_r cx_args) /\ bytes cx_ins /\
      spec_scan_args_ok cx_args = true /\
      scan_nofix2 tr cx_args = Some o /\ so_status o = St_OK /\
      smap_get (abs_tree tr) cx_ins = None /\
      covered cx_args (so_tuples o) cx_ins = true /\
      put tr cx_ins (StoreExample.val 0) false ctr = Some (tr', po, ctr') /\
      ~ (exists id ver, In (id, ver) (so_nv o) /\ store_leaf_ver tr' id <> Some ver) /\
      (* while the current scan does record a pair that becomes stale *)
      exists o2, scan tr cx_args = Some o2 /\
        exists id ver, In (id, ver) (so_nv o2) /\ store_leaf_ver tr' id <> Some ver.
  Proof.
    destruct (ScanExample.puts_inv [cx_key] (empty_tree 1) 2) as (tr & c & E & W & Hi).
    - apply empty_tree_wf. lia.
    - apply scan_inv_empty.
    - constructor; [|constructor]. apply StoreExample.bytesb_sound. vm_compute. reflexivity.
    - vm_compute in E. injection E as <- <-.
      eexists. eexists. eexists. eexists. eexists. eexists.
      split; [exact W|]. split; [exact Hi|]. split; [reflexivity|].
      split; [constructor|]. split; [apply StoreExample.bytesb_sound; vm_compute; reflexivity|].
      split; [apply StoreExample.bytesb_sound; vm_compute; reflexivity|].
      split; [vm_compute; reflexivity|]. split; [vm_compute; reflexivity|].
      split; [reflexivity|]. split; [vm_compute; reflexivity|]. split; [vm_compute; reflexivity|].
      split; [vm_compute; reflexivity|]. split.
      + intros (id & ver & H & _). exact H.
      + eexists. split; [vm_compute; reflexivity|].
        eexists. eexists. split; [left; reflexivity|]. vm_compute. discriminate.
  Qed.

  (** *** the hypotheses of [scan_detects_insert] hold on the 39-layer store of ScanExample
      (three borders in layer 0, two in layer 1) for inserts landing in layers 0, 1 and 2,
      with a size limit, and right to left *)
  Import ScanExample.
  Definition bytesb (k : key) : bool := forallb (fun b => b <? 256) k.
  Definition side (a : scan_args) (k : key) : bool :=
    bytesb (sa_l a) && bytesb (sa_r a) && bytesb k && spec_scan_args_ok a &&
    match smap_get (abs_tree ex_tree) k with None => true | Some _ => false end &&
    match scan ex_tree a with Some o => covered a (so_tuples o) k | None => false end.

  Lemma ex_null : t_null ex_tree = false.
  Proof. vm_compute. reflexivity. Qed.

  Lemma ex_applies a k v : side a k = true ->
    exists ctr o tr' po ctr',
      WF_store ctr ex_tree /\ scan_inv ex_tree /\ scan ex_tree a = Some o /\
      covered a (so_tuples o) k = true /\ smap_get (abs_tree ex_tree) k = None /\
      put ex_tree k v false ctr = Some (tr', po, ctr') /\
      exists id ver, In (id, ver) (so_nv o) /\ store_leaf_ver tr' id <> Some ver.
  Proof.
    unfold side. intros H.
    apply andb_true_iff in H. destruct H as [H H6].
    apply andb_true_iff in H. destruct H as [H H5].
    apply andb_true_iff in H. destruct H as [H H4].
    apply andb_true_iff in H. destruct H as [H H3].
    apply andb_true_iff in H. destruct H as [H1 H2].
    destruct ex_inv as (ctr & W & Hi).
    destruct (scan ex_tree a) as [o|] eqn:Es; [|discriminate H6].
    destruct (smap_get (abs_tree ex_tree) k) eqn:Ea; [discriminate H5|].
    assert (bytes k) as Hk by (apply StoreExample.bytesb_sound; exact H3).
    destruct (put_refines ctr ex_tree k v false W Hk) as (tr' & po & ctr' & E & _).
    exists ctr, o, tr', po, ctr'.
    split; [exact W|]. split; [exact Hi|]. split; [reflexivity|]. split; [exact H6|].
    split; [reflexivity|]. split; [exact E|].
    exact (scan_detects_insert ctr ex_tree a o k v tr' po ctr' W Hi ex_null
             (StoreExample.bytesb_sound _ H1) (StoreExample.bytesb_sound _ H2) Hk H4 Es Ea H6 E).
  Qed.

  Definition ex_cases : list (scan_args * key) :=
    [ (mk [3] EP_INCL [9;1] EP_INCL 0%nat false, [5;5]);               (* lands in layer 0 *)
      (mk [3] EP_INCL [9;1] EP_INCL 0%nat false, p8 ++ [3;3]);          (* lands in layer 1 *)
      (mk [3] EP_INCL [9;1] EP_INCL 0%nat false, p8 ++ p8 ++ [0]);      (* lands in layer 2 *)
      (mk [3] EP_INCL [] EP_INF 4%nat false, [5;5]);                    (* size limit reached *)
      (mk [] EP_INF [] EP_INF 0%nat false, repeat 7 301);               (* a new chain of 38 layers *)
      (mk [3] EP_INCL [] EP_INF 1%nat true, f8 ++ [4]) ].               (* right to left *)

  Example ex_cases_side : forallb (fun ak => side (fst ak) (snd ak)) ex_cases = true.
  Proof. vm_cast_no_check (eq_refl true). Qed.

  Example ex_cases_apply : forall a k, In (a, k) ex_cases ->
    exists ctr o tr' po ctr',
      WF_store ctr ex_tree /\ scan_inv ex_tree /\ scan ex_tree a = Some o /\
      covered a (so_tuples o) k = true /\ smap_get (abs_tree ex_tree) k = None /\
      put ex_tree k (StoreExample.val 0) false ctr = Some (tr', po, ctr') /\
      exists id ver, In (id, ver) (so_nv o) /\ store_leaf_ver tr' id <> Some ver.
  Proof.
    intros a k Hin. apply ex_applies.
    pose proof ex_cases_side as H. rewrite forallb_forall in H. exact (H (a, k) Hin).
  Qed.

  (** *** and what the executable model computes: the stale pairs are those of the border the
      put reports as modified *)
  Definition stale (tr' : tree) (nv : list (N * N)) : list (N * N) :=
    filter (fun iv => match store_leaf_ver tr' (fst iv) with Some w => negb (w =? snd iv) | None => true end) nv.
  Definition ctr0 : N :=
    match StoreExample.puts (empty_tree 1) 2 ex_keys with Some (_, c) => c | None => 0 end.
  Definition demo (a : scan_args) (k : key) :=
    match scan ex_tree a, put ex_tree k (StoreExample.val 0) false ctr0 with
    | Some o, Some (tr', po, _) =>
      Some (covered a (so_tuples o) k, length (so_tuples o), length (so_nv o),
            nodup N.eq_dec (map fst (stale tr' (so_nv o))), option_map pi_modified (po_info po))
    | _, _ => None
    end.

  Example demo_cases :
    map (fun ak => demo (fst ak) (snd ak)) ex_cases =
    [ Some (true, 35%nat, 69%nat, [1], Some 1);
      Some (true, 35%nat, 69%nat, [9], Some 9);
      Some (true, 35%nat, 69%nat, [13], Some 13);
      Some (true, 4%nat, 4%nat, [1], Some 1);
      Some (true, 51%nat, 84%nat, [51], Some 51);
      Some (true, 1%nat, 2%nat, [15], Some 15) ].
  Proof. vm_compute. reflexivity. Qed.

  (** keys outside the covered part need not be detected: size limit 4 stops before [7;5];
      the right-to-left scan returns f8 ++ [3], which is above f8 ++ [2] *)
  Example demo_not_covered :
    demo (mk [3] EP_INCL [] EP_INF 4%nat false) [7;5] = Some (false, 4%nat, 4%nat, [], Some 60) /\
    demo (mk [3] EP_INCL [] EP_INF 1%nat true) (f8 ++ [2]) = Some (false, 1%nat, 2%nat, [15], Some 15).
  Proof. vm_compute. split; reflexivity. Qed.
End PhantomExample.

(** ** axiom audit *)
Print Assumptions scan_nv_nonempty.
Print Assumptions scan_layer_cover.
Print Assumptions scan_layer_cover_rtl.
Print Assumptions put_lands.
Print Assumptions scan_records_landing.
Print Assumptions scan_detects_insert.
Print Assumptions scan_detects_insert_reported.
Print Assumptions PhantomExample.scan_nofix2_misses_insert.
Print Assumptions PhantomExample.ex_cases_apply.
Print Assumptions PhantomExample.demo_cases.
