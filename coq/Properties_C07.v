(** * C07 -- epoch-based reclamation: with the repaired enter protocol (publish
    the begin epoch, re-read the epoch, repeat until equal) no object is freed
    while a session that was active when it was retired is still inside, and no
    object is freed twice; the original read-then-publish enter protocol is
    refuted by a concrete interleaving.  Property theorems only; each closed by
    [exact]. *)
From Yk Require Import EpochDefs EpochProofs.
Local Open Scope N_scope.

(** for every number of slots and every interleaving accepted by the model of
    the repaired protocol: every freed object is protected by no session that is
    still active, and was freed once *)
Theorem C07_no_early_free :
  forall n tr s, run true n init_st tr = Some s -> forall o, safe_obj s o = true.
Proof. exact no_early_free. Qed.
Print Assumptions C07_no_early_free.

(** the original enter protocol (read the epoch, publish it, return): one slot,
    22 steps, the object retired by the only session is freed while that session
    is still active *)
Theorem C07_original_enter_refuted :
  exists tr s, run false 1 init_st tr = Some s /\ safe_obj s 0 = false.
Proof. exact original_enter_refuted. Qed.
Print Assumptions C07_original_enter_refuted.

Theorem C07_retired_once :
  forall n tr s, run true n init_st tr = Some s -> forall o, ost s o <> DoubleFreed.
Proof. exact retired_once. Qed.
Print Assumptions C07_retired_once.

(** non-vacuity: two slots; sessions (0,1) and (1,1) are both active when
    session (0,1) retires object 5; both leave; the epoch advances twice
    (gc epoch 2 > tag 1); a new session (1,2) enters; the gc thread frees
    object 5 *)
Definition c07_trace : list ev :=
  [Claim 0; RdE 0; PubB 0; Recheck 0; Claim 1; RdE 1; PubB 1; Recheck 1;
   Retire 0 0 5; Leave1 1; Leave2 1; Leave1 0;
   EStart; EVer; EVer; EVer; EIncr; EMinStep; EMinStep; EMinStep; EPublish;
   EStart; EVer; EVer; EVer; EIncr; EMinStep; EMinStep; EMinStep; EPublish;
   Claim 1; RdE 1; PubB 1; Recheck 1;
   GStart; GCacheStep; GLoopStep]%nat.

Example C07_nonvacuous :
  exists s, run true 2 init_st c07_trace = Some s /\
            prot s 5 = [(1, 1); (0, 1)]%nat /\
            ost s 5 = Freed /\ safe_obj s 5 = true /\
            gE s = 3 /\ gG s = 2 /\
            ss (slots s 1) = SActive /\ sinst (slots s 1) = 2%nat.
Proof.
  destruct (run true 2 init_st c07_trace) as [s|] eqn:H.
  - exists s. split; [reflexivity|].
    revert H. vm_compute. intros [= <-]. repeat split; reflexivity.
  - exfalso. revert H. vm_compute. discriminate.
Qed.
Print Assumptions C07_nonvacuous.
