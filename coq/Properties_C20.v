(** * C20 -- mem_usage reports, per tree depth, the node count and the used /
    reserved bytes of the nodes at that depth.  Property theorems only; each
    closed by [exact]. *)
From Coq Require Import NArith List.
From Yk Require Import SysDefs MemDefs MemProofs.
Local Open Scope N_scope.

(** the accumulation as coded (stack of per-level counters grown during a
    depth-first walk through interiors, borders and next-layer roots) equals the
    per-depth sums over the list of all nodes -- for every tree, without any
    well-formedness hypothesis *)
Theorem C20_mem_usage_is_shape_stats : forall tr, mem_usage tr = shape_stats tr.
Proof. exact mem_usage_shape. Qed.
Print Assumptions C20_mem_usage_is_shape_stats.

(** used bytes never exceed reserved bytes, at every depth *)
Theorem C20_used_le_reserved : forall tr,
  tree_bounded tr -> forall n u r, In (n, u, r) (mem_usage tr) -> u <= r.
Proof. exact used_le_reserved. Qed.
Print Assumptions C20_used_le_reserved.

(** one entry per tree depth; its node count is the number of nodes at that depth *)
Theorem C20_node_counts : forall tr d,
  fst (fst (nth d (shape_stats tr) (0, 0, 0)))
  = N.of_nat (length (filter (fun x : node => Nat.eqb (fst (fst (fst x))) d) (shape_nodes tr))).
Proof. exact node_counts. Qed.
Print Assumptions C20_node_counts.

(** reserved bytes at a depth = 320 per node + the value footprints held by the
    borders at that depth *)
Theorem C20_reserved_reading : forall tr d,
  snd (nth d (shape_stats tr) (0, 0, 0))
  = 320 * N.of_nat (length (filter (fun x : node => Nat.eqb (fst (fst (fst x))) d) (shape_nodes tr)))
    + vf_at (shape_nodes tr) d.
Proof. exact reserved_reading. Qed.
Print Assumptions C20_reserved_reading.

(** the used bytes of a border grow monotonically with its occupied slots (and
    with the value bytes it holds) *)
Theorem C20_used_monotone : forall occ occ' vf vf',
  occ <= occ' -> occ' <= 15 -> vf <= vf' ->
  sizeof_border - (15 - occ) * sizeof_lv + vf <= sizeof_border - (15 - occ') * sizeof_lv + vf'.
Proof. exact used_monotone. Qed.
Print Assumptions C20_used_monotone.

(** non-vacuity: a storage with 20 one-byte keys and 20 ten-byte keys sharing an
    8-byte prefix: layer 0 has an interior root over two borders, one border
    links to a second layer which again has an interior root over two borders
    -- four depths; the tree is bounded and both descriptions agree on it *)
Definition c20_ops : list op :=
  OCreate [115] ::
  map (fun i => OPut [115] [N.of_nat i] [1; 2; 3] 8 false false) (seq 1 20) ++
  map (fun i => OPut [115] [1; 2; 3; 4; 5; 6; 7; 8; N.of_nat i; 7] [1; 2; 3; 4; 5] 8 false false) (seq 1 20).

Example C20_nonvacuous :
  exists tr,
    trees_get (sy_trees (fst (exec_all sys_init c20_ops))) 1 = Some tr /\
    tree_bounded tr /\
    length (t_layers tr) = 2%nat /\
    mem_usage tr = [(1, 208, 320); (2, 788, 860); (1, 208, 320); (2, 820, 900)] /\
    (3 <= length (mem_usage tr))%nat /\
    mem_usage tr = shape_stats tr /\
    length (shape_nodes tr) = 6%nat.
Proof.
  eexists. split; [vm_compute; reflexivity|].
  split; [apply tree_boundedb_sound; vm_compute; reflexivity|].
  split; [vm_compute; reflexivity|].
  split; [vm_compute; reflexivity|].
  split; [vm_compute; repeat constructor|].
  split; vm_compute; reflexivity.
Qed.
