(** * MemDefs: mem_usage (interface_helper.h, border_node.h, interior_node.h,
    link_or_value.h) -- the accumulation as coded -- and an independent
    per-depth description of the shape ([shape_stats]) it is supposed to equal. *)
From Yk Require Export TreeDefs.
Local Open Scope N_scope.

Definition sizeof_border : N := 320.
Definition sizeof_interior : N := 320.
Definition sizeof_lv : N := 8.

Definition mstat := (N * N * N)%type.   (* node_num, used, reserved *)

(** mem_stat.at(level) += (dn, du, dr), growing the stack by one when level = size *)
Fixpoint bump (st : list mstat) (level : nat) (dn du dr : N) : list mstat :=
  match st, level with
  | [], _ => [(dn, du, dr)]                      (* emplace_back(0,0,0) then add; level = size here *)
  | (n, u, r) :: rest, O => (n + dn, u + du, r + dr) :: rest
  | x :: rest, S l => x :: bump rest l dn du dr
  end.

(** value bytes accounted for one slot: len_ + align_ computed in 32 bits; inline words 0 *)
Definition value_footprint (v : value) : N :=
  if v_inline v then 0 else (N.of_nat (length (v_bytes v)) mod 2 ^ 32 + v_align v mod 2 ^ 16) mod 2 ^ 32.

Section MemUsage.
  Variable ls : layers_t.

  (** base_node::mem_usage of a node of the layer at prefix [p], at [level] *)
  Fixpoint mem_node (fuel : nat) (t : bt) (p : prefix) (level : nat) (st : list mstat) : list mstat :=
    match fuel with
    | O => st
    | S f =>
      match t with
      | BLeaf l =>
        let cnk := leaf_cnk l in
        let st1 := bump st level 1 (sizeof_border - (15 - cnk) * sizeof_lv) sizeof_border in
        fold_left (fun acc (e : N * slot_t) =>
                     match sl_lv (snd e) with
                     | LLink => match layer_get ls (p ++ [ks (sl_key (snd e))]) with
                                | Some root => mem_node f root (p ++ [ks (sl_key (snd e))]) (S level) acc
                                | None => acc
                                end
                     | LValue v => bump acc level 0 (value_footprint v) (value_footprint v)
                     | LEmpty => acc
                     end) (leaf_ranked l) st1
      | BInt _ _ keys ch =>
        let nk := N.of_nat (length keys) + 1 in
        let st1 := bump st level 1 (sizeof_interior - (16 - nk) * 8) sizeof_interior in
        fold_left (fun acc c => mem_node f c p (S level) acc) ch st1
      end
    end.
End MemUsage.

(** total number of nodes, an upper bound for the recursion depth *)
Fixpoint bt_size (t : bt) : nat :=
  match t with
  | BLeaf _ => 1%nat
  | BInt _ _ _ ch => S (fold_right (fun c a => (bt_size c + a)%nat) 0%nat ch)
  end.
Definition layers_size (ls : layers_t) : nat := fold_right (fun x a => (bt_size (snd x) + a)%nat) 0%nat ls.

Definition mem_usage (tr : tree) : list mstat :=
  if t_null tr then []
  else match layer_get (t_layers tr) [] with
       | Some root => mem_node (t_layers tr) (S (layers_size (t_layers tr))) root [] 0 []
       | None => []
       end.

(** ** independent description: all nodes with their depth, then per-depth sums *)
Section Shape.
  Variable ls : layers_t.
  (** (depth, is_border, occupied slots or children, value footprint stored in the node) *)
  Fixpoint nodes_with_depth (fuel : nat) (t : bt) (p : prefix) (d : nat) : list (nat * bool * N * N) :=
    match fuel with
    | O => []
    | S f =>
      match t with
      | BLeaf l =>
        let es := map snd (leaf_ranked l) in
        let vf := fold_right (fun s a => match sl_lv s with LValue v => value_footprint v + a | _ => a end) 0 es in
        (d, true, leaf_cnk l, vf) ::
        flat_map (fun s => match sl_lv s with
                           | LLink => match layer_get ls (p ++ [ks (sl_key s)]) with
                                      | Some root => nodes_with_depth f root (p ++ [ks (sl_key s)]) (S d)
                                      | None => []
                                      end
                           | _ => [] end) es
      | BInt _ _ keys ch =>
        (d, false, N.of_nat (length keys) + 1, 0) :: flat_map (fun c => nodes_with_depth f c p (S d)) ch
      end
    end.
End Shape.

Definition stat_at (nodes : list (nat * bool * N * N)) (d : nat) : mstat :=
  fold_right (fun x acc =>
                let '(dd, isb, occ, vf) := x in
                let '(n, u, r) := acc in
                if Nat.eqb dd d
                then if isb : bool
                     then (n + 1, u + (sizeof_border - (15 - occ) * sizeof_lv) + vf, r + sizeof_border + vf)
                     else (n + 1, u + (sizeof_interior - (16 - occ) * 8), r + sizeof_interior)
                else acc) (0, 0, 0) nodes.

Definition max_depth (nodes : list (nat * bool * N * N)) : nat :=
  fold_right (fun x m => Nat.max (S (fst (fst (fst x)))) m) 0%nat nodes.

Definition shape_stats (tr : tree) : list mstat :=
  if t_null tr then []
  else match layer_get (t_layers tr) [] with
       | Some root =>
         let nodes := nodes_with_depth (t_layers tr) (S (layers_size (t_layers tr))) root [] 0 in
         map (stat_at nodes) (seq 0 (max_depth nodes))
       | None => []
       end.
