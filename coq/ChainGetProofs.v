(** * ChainGetProofs: the point lookup of ChainGetDefs is linearizable across inserts, removes, splits and unlinks.

    A remove does not change the version word of its border (ChainDefs), so the validating load cannot tell
    whether the key was removed after it was read: the linearization point of a lookup is its READ, and the
    version check establishes retroactively that the border read was the one covering the key at that instant.

    Invariant ([cur_ok]) while the lookup is in flight, with n = the node [g_cur] now, v = [g_v], k = [g_key]:
      - n exists and v <= version of n (versions only grow);
      - IF the split counter of n is still the one of v and n is not deleted THEN n is the live node covering k
        (a range shrinks only by a split of the node itself, a node dies only by its unlink; a range may GROW by
        absorbing an unlinked neighbour without any version change, which is harmless);
      - in [GCheck found]: IF the version of n is still v THEN [found] is in the ghost [g_seen] (it was the
        presence of k at the read: n had version v then, so it covered k) and, if k is among the keys of n now,
        found = true (same version => no insert: the keys of n are among those it had at the read).
    [gw_cover] is the key step (per writer event); [cover_present] turns "the live node covering k holds k" into
    "k is present in the layer"; the ghost [g_seen] has the presence now at its head. *)
From Coq Require Import NArith List Bool Lia.
From Yk Require Import ChainDefs ChainProofs ChainGetDefs.
Import ListNotations.
Local Open Scope N_scope.

(** ** 1. cover, constructively *)
Lemma cover_from_none k l best :
  (forall b, In b l -> live b = true -> k < cn_lo b) -> cover_from k best l = best.
Proof.
  induction l as [|x l IH]; intros H; cbn [cover_from]; [reflexivity|].
  destruct (live x) eqn:Lx; cbn [andb].
  - destruct (N.leb_spec (cn_lo x) k) as [Hle|Hgt].
    + specialize (H x (or_introl eq_refl) Lx). lia.
    + apply IH. intros b Hb. apply H. right. exact Hb.
  - apply IH. intros b Hb. apply H. right. exact Hb.
Qed.

Lemma cover_from_app k l1 : forall best l2,
  cover_from k best (l1 ++ l2) = cover_from k (cover_from k best l1) l2.
Proof.
  induction l1 as [|x l1 IH]; intros best l2; cbn [app cover_from]; [reflexivity|].
  destruct (live x && (cn_lo x <=? k)); apply IH.
Qed.

Lemma cover_intro k l1 n l2 :
  live n = true -> cn_lo n <= k -> (forall b, In b l2 -> live b = true -> k < cn_lo b) ->
  cover k (l1 ++ n :: l2) = Some n.
Proof.
  intros Ln Hlo Hb. unfold cover. rewrite cover_from_app. cbn [cover_from]. rewrite Ln.
  destruct (N.leb_spec (cn_lo n) k) as [_|Hgt]; [|lia]. cbn [andb]. apply cover_from_none, Hb.
Qed.

(** the live node covering k holds k iff k is present in the layer *)
Lemma cover_present ns f k n :
  WF ns f -> cover k ns = Some n -> mem k (all_keys ns) = mem k (cn_keys n).
Proof.
  intros W Hc. destruct (cover_spec _ _ _ Hc) as (l1&l2&E&Ln&Hlo&Hb).
  apply Bool.eq_iff_eq_true. rewrite !mem_true. subst ns. destruct (WF_pair _ _ _ _ W) as [Pa Pb]. split.
  - intros Hk. apply in_all_keys in Hk as (b&Hin&Hk). apply in_lk in Hk as [Lb Hk].
    apply in_app_or in Hin as [Hin|[<-|Hin]]; [|exact Hk|].
    + destruct (Pa b Hin Lb Ln) as [_ Q]. specialize (Q k Hk). lia.
    + specialize (Hb b Hin Lb).
      assert (Hok : node_ok b) by (apply (wf_ok _ _ W), in_or_app; right; right; exact Hin).
      destruct Hok as [_ Hok]. specialize (Hok k Hk). lia.
  - intros Hk. apply in_all_keys. exists n. split; [apply in_or_app; right; left; reflexivity|].
    apply in_lk. auto.
Qed.

(** ** 2. small list facts *)
Lemma nodup_app_disj {A} (a b : list A) x : NoDup (a ++ b) -> In x a -> In x b -> False.
Proof.
  induction a as [|y a IH]; [intros _ []|]. cbn [app]. intros H. apply NoDup_cons_iff in H as [H1 H2].
  intros [->|Ha] Hb; [apply H1, in_or_app; right; exact Hb|exact (IH H2 Ha Hb)].
Qed.

Lemma insert_after_app_r t nw a b : ~ In t (ids a) -> insert_after t nw (a ++ b) = a ++ insert_after t nw b.
Proof.
  induction a as [|y a IH]; [reflexivity|]. cbn [ids map In app insert_after]. intros H.
  destruct (N.eqb_spec (cn_id y) t) as [E|E]; [exfalso; apply H; left; exact E|].
  f_equal. apply IH. intros Hi. apply H. right. exact Hi.
Qed.

Lemma first_live_before_live c n l2 NX :
  live n = true -> first_live (c ++ n :: l2) = Some NX -> In NX (c ++ [n]).
Proof.
  intros Ln. induction c as [|x c IH]; cbn [app first_live].
  - rewrite Ln. intros H. injection H as <-. left. reflexivity.
  - destruct (live x); [intros H; injection H as <-; left; reflexivity|]. intros H. right. apply IH, H.
Qed.

Lemma is_writer_writer w : is_writer w = writer w.
Proof. destruct w; reflexivity. Qed.

(** ** 3. one writer step, seen from one node *)
Lemma gw_find s w s' id n :
  WF (c_nodes s) (c_fresh s) -> is_writer w = true -> cstep true s w = Some s' ->
  find_node id (c_nodes s) = Some n ->
  exists n', find_node id (c_nodes s') = Some n' /\ vle (cn_ver n) (cn_ver n') /\
             (cn_ver n' = cn_ver n -> forall k, In k (cn_keys n') -> In k (cn_keys n)).
Proof.
  intros W Hw Hs Hf. rewrite is_writer_writer in Hw.
  destruct (writer_shape _ _ _ _ W Hw Hs) as (_&g&gain&lost&Wm&_&_&_&_&_&Hsh).
  exists (g n). destruct (find_node_In _ _ _ Hf) as [Hin _].
  split; [exact (wshape_find _ _ _ _ _ W Wm Hsh _ _ Hf)|].
  split; [apply (g_vle _ _ _ _ Wm), Hin|apply (g_same _ _ _ _ Wm), Hin].
Qed.

(** a step that is an id-preserving map of the node list *)
Lemma find_map_eq (g : cnode -> cnode) ns n n' :
  (forall x, cn_id (g x) = cn_id x) -> NoDup (ids ns) -> In n ns ->
  find_node (cn_id n) (map g ns) = Some n' -> n' = g n.
Proof.
  intros gid Hnd Hin Hf. rewrite find_node_map in Hf by exact gid.
  rewrite (nodup_find _ _ Hnd Hin) in Hf. cbn in Hf. injection Hf as <-. reflexivity.
Qed.

Lemma cover_map_case (g : cnode -> cnode) k l1 n l2 :
  live (g n) = true -> cn_lo (g n) <= k ->
  (forall b, In b l2 -> live (g b) = true -> k < cn_lo (g b)) ->
  cover k (map g (l1 ++ n :: l2)) = Some (g n).
Proof.
  intros Ln Hlo Hb. rewrite map_app. cbn [map]. apply cover_intro; [exact Ln|exact Hlo|].
  intros b Hin. apply in_map_iff in Hin as (b0&<-&Hin). apply Hb, Hin.
Qed.

Lemma upd_lo_live id f x :
  (forall y, cn_lo (f y) = cn_lo y) -> (forall y, live (f y) = live y) ->
  cn_lo (upd id f x) = cn_lo x /\ live (upd id f x) = live x.
Proof. intros H1 H2. unfold upd. destruct (_ =? _); auto. Qed.

Lemma unl_g_facts u nu L x :
  cn_id (L x) = cn_id x /\ cn_ver (L x) = cn_ver x /\ cn_keys (L x) = cn_keys x ->
  live (unl_g u nu L x) = true ->
  live x = true /\ cn_id x <> u /\ cn_lo (unl_g u nu L x) = cn_lo (L x).
Proof.
  intros (B1&B2&_). unfold unl_g, upd. rewrite redir_id, B1.
  destruct (N.eqb_spec (cn_id x) u) as [Ei|Ei]; [discriminate|].
  rewrite redir_live, redir_lo. unfold live. rewrite B2. auto.
Qed.

(** a live node that is not deleted by the step, for the three map-like steps with lower bounds and liveness kept *)
Lemma cover_keep (g : cnode -> cnode) k ns n n' :
  (forall x, cn_id (g x) = cn_id x) -> (forall x, cn_lo (g x) = cn_lo x /\ live (g x) = live x) ->
  NoDup (ids ns) -> cover k ns = Some n -> find_node (cn_id n) (map g ns) = Some n' ->
  n' = g n /\ cover k (map g ns) = Some n'.
Proof.
  intros gid P Hnd Hc Hf. destruct (cover_spec _ _ _ Hc) as (l1&l2&E&Ln&Hlo&Hb).
  assert (Hinn : In n ns) by (rewrite E; apply in_or_app; right; left; reflexivity).
  pose proof (find_map_eq _ _ _ _ gid Hnd Hinn Hf) as ->. split; [reflexivity|].
  rewrite E. apply cover_map_case.
  - rewrite (proj2 (P n)). exact Ln.
  - rewrite (proj1 (P n)). exact Hlo.
  - intros b Hin. rewrite (proj1 (P b)), (proj2 (P b)). apply Hb, Hin.
Qed.

(** the key step: a node that covers k, is not split and not unlinked by the step still covers k after it *)
Lemma gw_cover s w s' k n n' :
  WF (c_nodes s) (c_fresh s) -> is_writer w = true -> cstep true s w = Some s' ->
  cover k (c_nodes s) = Some n -> find_node (cn_id n) (c_nodes s') = Some n' ->
  cv_split (cn_ver n') = cv_split (cn_ver n) -> cv_del (cn_ver n') = false ->
  cover k (c_nodes s') = Some n'.
Proof.
  intros W Hw Hs Hc Hf Hsp Hdel. pose proof (wf_nodup _ _ W) as Hnd.
  destruct (cover_spec _ _ _ Hc) as (l1&l2&E&Ln&Hlo&Hb).
  assert (Hinn : In n (c_nodes s)) by (rewrite E; apply in_or_app; right; left; reflexivity).
  assert (Ln' : live n' = true) by (unfold live; rewrite Hdel; reflexivity).
  destruct w; try discriminate.
  - (* insert *)
    apply cstep_ins in Hs as (c&_&_&->). cbn [c_nodes] in *.
    rewrite update_node_map in * by exact Hnd.
    eapply cover_keep; eauto.
    + intros x. apply upd_id. reflexivity.
    + intros x. apply upd_lo_live; reflexivity.
  - (* remove *)
    apply cstep_rem in Hs as (c&_&_&->). cbn [c_nodes] in *.
    rewrite update_node_map in * by exact Hnd.
    eapply cover_keep; eauto.
    + intros x. apply upd_id. reflexivity.
    + intros x. apply upd_lo_live; reflexivity.
  - (* split *)
    apply cstep_split in Hs as (T&HfT&LT&Hm&_&->). cbn [c_nodes] in *.
    rewrite update_node_map in * by exact Hnd.
    set (g := upd id (split_f m (c_fresh s))) in *. set (nw := split_nw m (c_fresh s) T) in *.
    assert (gid : forall x, cn_id (g x) = cn_id x) by (intros x; apply upd_id; reflexivity).
    assert (P : forall x, cn_lo (g x) = cn_lo x /\ live (g x) = live x)
      by (intros x; apply upd_lo_live; reflexivity).
    assert (Hne : cn_id n <> cn_id nw) by (pose proof (wf_fresh _ _ W n Hinn); cbn; lia).
    rewrite find_node_insert_after in Hf by exact Hne.
    destruct (find_node_In _ _ _ HfT) as [HinT HidT].
    destruct (cover_keep g k _ n n' gid P Hnd Hc Hf) as [-> _].
    assert (Hnt : cn_id n <> id).
    { intros Ei. unfold g, upd in Hsp. rewrite Ei, N.eqb_refl in Hsp. cbn in Hsp. lia. }
    assert (Hlogn : cn_lo (g n) <= k) by (rewrite (proj1 (P n)); exact Hlo).
    assert (Hbg : forall b, In b (map g l2) -> live b = true -> k < cn_lo b).
    { intros b Hin. apply in_map_iff in Hin as (b0&<-&Hin). rewrite (proj1 (P b0)), (proj2 (P b0)). apply Hb, Hin. }
    rewrite E in HinT |- *. rewrite map_app. cbn [map].
    destruct (in_dec N.eq_dec id (ids l1)) as [Hi|Hi].
    + rewrite insert_after_app_l by (rewrite ids_map by exact gid; exact Hi).
      apply cover_intro; assumption.
    + rewrite insert_after_app_r by (rewrite ids_map by exact gid; exact Hi).
      cbn [insert_after]. rewrite gid. destruct (N.eqb_spec (cn_id n) id) as [Ei|_]; [contradiction|].
      apply cover_intro; [assumption|assumption|].
      intros b Hin Lb. apply in_insert_after in Hin as [->|Hin]; [|apply Hbg; assumption].
      assert (HT2 : In T l2).
      { apply in_app_or in HinT as [HinT|[ET|HinT]]; [|subst T; congruence|exact HinT].
        exfalso. apply Hi. rewrite <- HidT. apply in_map, HinT. }
      specialize (Hb T HT2 LT).
      assert (Hok : node_ok T) by (apply (wf_ok _ _ W); rewrite E; apply in_or_app; right; right; exact HT2).
      destruct Hok as [_ Hok]. specialize (Hok m Hm). cbn. lia.
  - (* unlink *)
    apply cstep_unlink in Hs as (U&HfU&LU&KU&Hcase).
    destruct (find_node_In _ _ _ HfU) as [HinU HidU].
    destruct Hcase as [(_&NX&Hfl&->)|(_&->)]; cbn [c_nodes] in *.
    + (* the right neighbour takes over the range *)
      rewrite unlink_right_map in * by exact Hnd.
      set (L := upd (cn_id NX) (lo_f (cn_lo U))) in *. set (g := unl_g id (cn_next U) L) in *.
      destruct (L_right_facts _ _ _ _ _ W HfU LU Hfl) as (A1&A2&A3&_). fold L in A1, A2, A3.
      assert (gid : forall x, cn_id (g x) = cn_id x).
      { intros x. unfold g, unl_g. rewrite upd_id by reflexivity. rewrite redir_id. apply A1. }
      pose proof (find_map_eq _ _ _ _ gid Hnd Hinn Hf) as ->.
      destruct (unl_g_facts _ _ _ _ (A1 n) Ln') as (_&Hnu&Elon).
      rewrite E. apply cover_map_case; [exact Ln'| |].
      * fold g in Elon. rewrite Elon. pose proof (A3 n Hinn). lia.
      * intros b Hin Lgb. destruct (unl_g_facts _ _ _ _ (A1 b) Lgb) as (Lb&Hbu&Elo).
        fold g in Elo. rewrite Elo. pose proof (Hb b Hin Lb) as Hbb.
        unfold L, upd. destruct (N.eqb_spec (cn_id b) (cn_id NX)) as [Eb|_]; [|exact Hbb].
        cbn [lo_f with_lo cn_lo].
        (* b = NX is after n: then U is after n as well *)
        rewrite E in HinU. apply in_app_or in HinU as [HinU|[EU|HinU]].
        -- exfalso. apply in_split in HinU as (a&c&El1). subst l1.
           rewrite E in Hnd, Hfl.
           assert (Na : ~ In id (ids a)).
           { rewrite <- app_assoc in Hnd. cbn [app] in Hnd. rewrite <- HidU. apply (nodup_mid _ _ _ Hnd). }
           rewrite <- app_assoc in Hfl. cbn [app] in Hfl. rewrite after_mid in Hfl by assumption.
           apply first_live_before_live in Hfl; [|exact Ln].
           assert (HNX : In NX ((a ++ U :: c) ++ [n])).
           { rewrite <- app_assoc. cbn [app]. apply in_or_app. right. right. exact Hfl. }
           replace ((a ++ U :: c) ++ n :: l2) with (((a ++ U :: c) ++ [n]) ++ l2) in Hnd
             by (rewrite <- app_assoc; reflexivity).
           rewrite ids_app in Hnd. apply (nodup_app_disj _ _ (cn_id NX) Hnd).
           ++ apply in_map, HNX.
           ++ rewrite <- Eb. apply in_map, Hin.
        -- exfalso. subst U. apply Hnu. exact HidU.
        -- apply Hb; assumption.
    + (* the left neighbour takes over the range: no lower bound changes *)
      rewrite unlink_left_map in * by exact Hnd.
      set (L := fun x : cnode => x) in *. set (g := unl_g id (cn_next U) L) in *.
      assert (A1 : forall x, cn_id (L x) = cn_id x /\ cn_ver (L x) = cn_ver x /\ cn_keys (L x) = cn_keys x)
        by (intros x; auto).
      assert (gid : forall x, cn_id (g x) = cn_id x).
      { intros x. unfold g, unl_g. rewrite upd_id by reflexivity. apply redir_id. }
      pose proof (find_map_eq _ _ _ _ gid Hnd Hinn Hf) as ->.
      destruct (unl_g_facts _ _ _ _ (A1 n) Ln') as (_&Hnu&Elon).
      rewrite E. apply cover_map_case; [exact Ln'| |].
      * fold g in Elon. rewrite Elon. exact Hlo.
      * intros b Hin Lgb. destruct (unl_g_facts _ _ _ _ (A1 b) Lgb) as (Lb&Hbu&Elo).
        fold g in Elo. rewrite Elo. apply Hb; assumption.
Qed.

(** ** 4. the invariant of the lookup *)
Definition cur_ok (ns : list cnode) (g : getter) (seen : list bool) : Prop :=
  cv_del (g_v g) = false /\
  exists n, find_node (g_cur g) ns = Some n /\ vle (g_v g) (cn_ver n) /\
    (cv_split (cn_ver n) = cv_split (g_v g) -> cv_del (cn_ver n) = false -> cover (g_key g) ns = Some n) /\
    (forall found, g_pc g = GCheck found -> cn_ver n = g_v g ->
       In found seen /\ (mem (g_key g) (cn_keys n) = true -> found = true)).

Record GInv (s : gstate) : Prop := {
  gi_wf : WF (c_nodes (g_c s)) (c_fresh (g_c s));
  gi_cur : searching (g_get s) = true -> cur_ok (c_nodes (g_c s)) (g_get s) (g_seen s);
  gi_head : searching (g_get s) = true -> hd_error (g_seen s) = Some (present (g_key (g_get s)) (g_c s));
  gi_done : forall b, g_pc (g_get s) = GDone b -> In b (g_seen s) }.

Lemma GInv_init kss : kss_ok kss = true -> GInv (ginit kss).
Proof.
  intros Hk. constructor; cbn.
  - apply WF_init, Hk.
  - discriminate.
  - discriminate.
  - discriminate.
Qed.

Lemma start_get_inv ns k r g' :
  start_get ns k r = Some g' ->
  exists n, cover k ns = Some n /\
    g' = {| g_pc := GSearch; g_key := k; g_cur := cn_id n; g_v := cn_ver n; g_restarts := r |}.
Proof.
  unfold start_get. destruct (cover k ns) as [n|]; [|discriminate]. intros H. injection H as <-. eauto.
Qed.

Lemma cur_ok_start ns f k r n seen :
  WF ns f -> cover k ns = Some n ->
  cur_ok ns {| g_pc := GSearch; g_key := k; g_cur := cn_id n; g_v := cn_ver n; g_restarts := r |} seen.
Proof.
  intros W Hc. split; cbn.
  - destruct (cover_spec _ _ _ Hc) as (_&_&_&Ln&_). unfold live in Ln. apply negb_true_iff in Ln. exact Ln.
  - exists n. split; [eapply cover_find; eauto|]. split; [apply vle_refl|]. split; [auto|discriminate].
Qed.

Lemma hd_error_in {A} (l : list A) x : hd_error l = Some x -> In x l.
Proof. destruct l; [discriminate|]. cbn. intros H. injection H as ->. left. reflexivity. Qed.

(** a writer step *)
Lemma cur_ok_writer c w c' g seen seen' :
  WF (c_nodes c) (c_fresh c) -> is_writer w = true -> cstep true c w = Some c' ->
  (forall b, In b seen -> In b seen') ->
  cur_ok (c_nodes c) g seen -> cur_ok (c_nodes c') g seen'.
Proof.
  intros W Hw Hs Hsub (Hvd&n&Hf&Hv&Hcov&Hfound). split; [exact Hvd|].
  destruct (gw_find _ _ _ _ _ W Hw Hs Hf) as (n'&Hf'&Hvle&Hsame).
  exists n'. split; [exact Hf'|]. split; [eapply vle_trans; eauto|]. split.
  - intros Hsp Hdel.
    assert (Hsp0 : cv_split (cn_ver n) = cv_split (g_v g)).
    { destruct Hv as (_&A&_). destruct Hvle as (_&B&_). lia. }
    assert (Hdel0 : cv_del (cn_ver n) = false).
    { destruct Hvle as (_&_&B). destruct (cv_del (cn_ver n)); [|reflexivity]. rewrite B in Hdel; auto. }
    pose proof (Hcov Hsp0 Hdel0) as Hc. destruct (find_node_In _ _ _ Hf) as [_ Hid].
    eapply gw_cover; eauto; [rewrite Hid; exact Hf'|congruence].
  - intros found Hpc Hv'.
    assert (E : cn_ver n = g_v g).
    { apply vle_antisym; [rewrite <- Hv'; exact Hvle|exact Hv]. }
    destruct (Hfound found Hpc E) as [Hin Himp]. split; [apply Hsub, Hin|].
    intros Hm. apply Himp. apply mem_true. apply Hsame; [congruence|]. apply mem_true, Hm.
Qed.

(** the linearization point is the read: if the border read still has the version the lookup validates against,
    it is the live border covering the key, and what is read is the presence of the key at that instant *)
Lemma read_now s n :
  GInv s -> searching (g_get s) = true ->
  find_node (g_cur (g_get s)) (c_nodes (g_c s)) = Some n -> cn_ver n = g_v (g_get s) ->
  mem (g_key (g_get s)) (cn_keys n) = present (g_key (g_get s)) (g_c s).
Proof.
  intros [W Hcur _ _] Hs Hf Hv.
  destruct (Hcur Hs) as (Hvd&n0&Hf0&Hvle&Hcov&_). rewrite Hf in Hf0. injection Hf0 as <-.
  unfold present.
  assert (Hc : cover (g_key (g_get s)) (c_nodes (g_c s)) = Some n).
  { apply Hcov; rewrite Hv; [reflexivity|exact Hvd]. }
  symmetry. eapply cover_present; eauto.
Qed.

Lemma GInv_step s e s' : GInv s -> gstep s e = Some s' -> GInv s'.
Proof.
  intros I H. pose proof I as [W Hcur Hhead Hdone]. destruct e as [w|k| |]; unfold gstep in H.
  - (* writer *)
    destruct (is_writer w) eqn:Hw; [|discriminate].
    destruct (cstep true (g_c s) w) as [c'|] eqn:Hs; [|discriminate]. injection H as <-.
    constructor; cbn [g_c g_get g_seen].
    + eapply WF_step; eauto.
    + intros Hse. rewrite Hse.
      apply (cur_ok_writer (g_c s) w c' (g_get s) (g_seen s)); auto. intros b Hb. right. exact Hb.
    + intros Hse. rewrite Hse. reflexivity.
    + intros b Hb. destruct (searching (g_get s)) eqn:Hse; [|auto].
      unfold searching in Hse. rewrite Hb in Hse. discriminate.
  - (* begin *)
    destruct (g_pc (g_get s)) eqn:Hpc; try discriminate.
    destruct (start_get (c_nodes (g_c s)) k 0) as [g'|] eqn:Hst; [|discriminate]. injection H as <-.
    apply start_get_inv in Hst as (n&Hc&->).
    constructor; cbn [g_c g_get g_seen g_pc g_key].
    + exact W.
    + intros _. eapply cur_ok_start; eauto.
    + reflexivity.
    + discriminate.
  - (* read *)
    destruct (g_pc (g_get s)) eqn:Hpc; try discriminate.
    destruct (find_node (g_cur (g_get s)) (c_nodes (g_c s))) as [n|] eqn:Hf; [|discriminate]. injection H as <-.
    assert (Hse : searching (g_get s) = true) by (unfold searching; rewrite Hpc; reflexivity).
    constructor; cbn [g_c g_get g_seen g_pc g_key].
    + exact W.
    + intros _. destruct (Hcur Hse) as (Hvd&n0&Hf0&Hvle&Hcov&_). rewrite Hf in Hf0. injection Hf0 as <-.
      split; [exact Hvd|]. exists n. cbn. split; [exact Hf|]. split; [exact Hvle|]. split; [exact Hcov|].
      intros found Hfd Hv. injection Hfd as <-. split; [|auto].
      rewrite (read_now s n I Hse Hf Hv). apply hd_error_in, Hhead, Hse.
    + intros _. apply Hhead, Hse.
    + discriminate.
  - (* validate *)
    destruct (g_pc (g_get s)) as [| |found|] eqn:Hpc; try discriminate.
    destruct (find_node (g_cur (g_get s)) (c_nodes (g_c s))) as [n|] eqn:Hf; [|discriminate].
    assert (Hse : searching (g_get s) = true) by (unfold searching; rewrite Hpc; reflexivity).
    destruct (cver_eqb (cn_ver n) (g_v (g_get s))) eqn:Hveq.
    + (* version unchanged: respond *)
      apply cver_eqb_eq in Hveq. injection H as <-.
      constructor; cbn [g_c g_get g_seen g_pc g_key]; try discriminate; [exact W|].
      intros b Hb. injection Hb as <-.
      destruct (Hcur Hse) as (_&n0&Hf0&_&_&Hfound). rewrite Hf in Hf0. injection Hf0 as <-.
      apply (Hfound found Hpc Hveq).
    + destruct (negb (cv_split (cn_ver n) =? cv_split (g_v (g_get s))) || cv_del (cn_ver n)) eqn:Hre.
      * (* split or deleted: start again *)
        destruct (start_get (c_nodes (g_c s)) (g_key (g_get s)) (g_restarts (g_get s) + 1)) as [g'|] eqn:Hst;
          [|discriminate]. injection H as <-.
        apply start_get_inv in Hst as (n1&Hc&->).
        constructor; cbn [g_c g_get g_seen g_pc g_key].
        -- exact W.
        -- intros _. eapply cur_ok_start; eauto.
        -- intros _. apply Hhead, Hse.
        -- discriminate.
      * (* only inserts / removes: adopt the new version, look again *)
        injection H as <-. apply orb_false_iff in Hre as [Hsp Hdel].
        apply negb_false_iff, N.eqb_eq in Hsp.
        constructor; cbn [g_c g_get g_seen g_pc g_key].
        -- exact W.
        -- intros _. destruct (Hcur Hse) as (Hvd&n0&Hf0&Hvle&Hcov&_). rewrite Hf in Hf0. injection Hf0 as <-.
           split; [exact Hdel|]. exists n. cbn. split; [exact Hf|]. split; [apply vle_refl|].
           split; [|discriminate]. intros _ _. apply Hcov; assumption.
        -- intros _. apply Hhead, Hse.
        -- discriminate.
Qed.

Lemma grun_inv evs : forall s s', GInv s -> grun s evs = Some s' -> GInv s'.
Proof.
  induction evs as [|e evs IH]; intros s s' I; cbn [grun].
  - intros H. injection H as <-. exact I.
  - destruct (gstep s e) as [s1|] eqn:E; [|discriminate]. intros H. eapply IH; [|exact H].
    eapply GInv_step; eauto.
Qed.

Lemma reach_G kss evs s : kss_ok kss = true -> grun (ginit kss) evs = Some s -> GInv s.
Proof. intros Hk H. eapply grun_inv; [apply GInv_init, Hk|exact H]. Qed.

(** ** 5. the theorems *)

(* T1: linearizability of the lookup across inserts, removes, splits and unlinks: the answer is the presence of the key
   at some instant between invocation and response *)
Theorem chain_get_linearizable : forall kss evs s b,
  kss_ok kss = true -> grun (ginit kss) evs = Some s ->
  g_pc (g_get s) = GDone b -> In b (g_seen s).
Proof. intros kss evs s b Hk H Hb. exact (gi_done _ (reach_G _ _ _ Hk H) b Hb). Qed.

(* T2: meaning of the ghost: while the lookup is in flight its head is the presence now *)
Theorem chain_get_seen_head : forall kss evs s,
  kss_ok kss = true -> grun (ginit kss) evs = Some s -> searching (g_get s) = true ->
  hd_error (g_seen s) = Some (present (g_key (g_get s)) (g_c s)).
Proof. intros kss evs s Hk H Hs. exact (gi_head _ (reach_G _ _ _ Hk H) Hs). Qed.

(* T2': the linearization point is the READ, not the validating load.  A remove does not change the version word, so
   the response b of a successful GValidate step is the presence of the key when it was read (it is in the ghost),
   which the version check establishes retroactively; at the response itself only one direction is left: a key
   present now was found (an insert would have changed the version), i.e. b = false is still the presence now,
   b = true need not be ([chain_get_true_after_remove]) *)
Theorem chain_get_response_now : forall kss evs s s' b,
  kss_ok kss = true -> grun (ginit kss) evs = Some s -> gstep s GValidate = Some s' ->
  g_pc (g_get s') = GDone b ->
  In b (g_seen s') /\ (present (g_key (g_get s')) (g_c s') = true -> b = true).
Proof.
  intros kss evs s s' b Hk H Hst Hb. pose proof (reach_G _ _ _ Hk H) as I. unfold gstep in Hst.
  destruct (g_pc (g_get s)) as [| |found|] eqn:Hpc; try discriminate.
  destruct (find_node (g_cur (g_get s)) (c_nodes (g_c s))) as [n|] eqn:Hf; [|discriminate].
  assert (Hse : searching (g_get s) = true) by (unfold searching; rewrite Hpc; reflexivity).
  destruct (cver_eqb (cn_ver n) (g_v (g_get s))) eqn:Hveq.
  - apply cver_eqb_eq in Hveq. injection Hst as <-. cbn in Hb |- *. injection Hb as <-.
    destruct (gi_cur _ I Hse) as (_&n0&Hf0&_&_&Hfound). rewrite Hf in Hf0. injection Hf0 as <-.
    destruct (Hfound found Hpc Hveq) as [Hin Himp]. split; [exact Hin|].
    intros Hp. apply Himp. rewrite (read_now s n I Hse Hf Hveq). exact Hp.
  - destruct (negb (cv_split (cn_ver n) =? cv_split (g_v (g_get s))) || cv_del (cn_ver n)).
    + destruct (start_get _ _ _) as [g'|] eqn:Hsg; [|discriminate]. injection Hst as <-.
      apply start_get_inv in Hsg as (n1&_&->). discriminate.
    + injection Hst as <-. discriminate.
Qed.

(* T2'': the read: when the border that is read has the version the lookup validates against (by monotonicity of
   the versions this is the case whenever the validation succeeds later), what is read is the presence of the key in
   the layer at that very instant, which is the head of the ghost *)
Theorem chain_get_read_is_presence : forall kss evs s s' found n,
  kss_ok kss = true -> grun (ginit kss) evs = Some s -> gstep s GRead = Some s' ->
  g_pc (g_get s') = GCheck found ->
  find_node (g_cur (g_get s)) (c_nodes (g_c s)) = Some n -> cn_ver n = g_v (g_get s) ->
  found = present (g_key (g_get s')) (g_c s') /\ hd_error (g_seen s') = Some found.
Proof.
  intros kss evs s s' found n Hk H Hst Hb Hf Hv. pose proof (reach_G _ _ _ Hk H) as I. unfold gstep in Hst.
  destruct (g_pc (g_get s)) eqn:Hpc; try discriminate. rewrite Hf in Hst. injection Hst as <-.
  assert (Hse : searching (g_get s) = true) by (unfold searching; rewrite Hpc; reflexivity).
  cbn in Hb |- *. injection Hb as <-. rewrite (read_now s n I Hse Hf Hv).
  split; [reflexivity|apply (gi_head _ I Hse)].
Qed.

(* T3: the chain invariant is maintained (so the model never gets stuck on a lookup step for a structural reason):
   in every reachable state with an active lookup, the border the lookup is in exists in the node list *)
Theorem chain_get_cur_exists : forall kss evs s,
  kss_ok kss = true -> grun (ginit kss) evs = Some s -> searching (g_get s) = true ->
  exists n, find_node (g_cur (g_get s)) (c_nodes (g_c s)) = Some n.
Proof.
  intros kss evs s Hk H Hs. destruct (gi_cur _ (reach_G _ _ _ Hk H) Hs) as (_&n&Hf&_). eauto.
Qed.

(* the chain invariant itself, in every reachable state *)
Theorem chain_get_wf : forall kss evs s,
  kss_ok kss = true -> grun (ginit kss) evs = Some s -> WF (c_nodes (g_c s)) (c_fresh (g_c s)).
Proof. intros kss evs s Hk H. exact (gi_wf _ (reach_G _ _ _ Hk H)). Qed.

(** ** 6. progress: a lookup step is never stuck (a restart always finds a live border covering the key) *)
Definition has0 (ns : list cnode) : Prop := exists n, In n ns /\ live n = true /\ cn_lo n = 0.

Lemma cover_from_some k l : forall x, exists y, cover_from k (Some x) l = Some y.
Proof.
  induction l as [|a l IH]; intros x; cbn [cover_from]; [eauto|]. destruct (live a && (cn_lo a <=? k)); apply IH.
Qed.

Lemma has0_cover k ns : has0 ns -> exists n, cover k ns = Some n.
Proof.
  intros (n&Hin&Ln&Hlo). apply in_split in Hin as (l1&l2&->). unfold cover. rewrite cover_from_app.
  cbn [cover_from]. rewrite Ln, Hlo. destruct (N.leb_spec 0 k) as [_|Hgt]; [|lia]. cbn [andb]. apply cover_from_some.
Qed.

Lemma has0_init kss : kss_ok kss = true -> has0 (c_nodes (cinit kss)).
Proof.
  unfold kss_ok. destruct kss as [|ks tl]; [discriminate|]. intros _. cbn [cinit c_nodes mk_nodes].
  eexists. split; [left; reflexivity|]. split; reflexivity.
Qed.

Lemma has0_map (g : cnode -> cnode) ns :
  (forall x, cn_lo (g x) = cn_lo x /\ live (g x) = live x) -> has0 ns -> has0 (map g ns).
Proof.
  intros P (n&Hin&Ln&Hlo). exists (g n). split; [apply in_map, Hin|].
  rewrite (proj1 (P n)), (proj2 (P n)). auto.
Qed.

Lemma cstep_unlink_left_live fx s u s' :
  cstep fx s (EUnlink u false) = Some s' -> has_live (before u (c_nodes s)) = true.
Proof.
  cbn [cstep]. destruct (find_node u (c_nodes s)) as [U|]; [|discriminate].
  destruct (live U && _); [|discriminate]. destruct (has_live _); [reflexivity|discriminate].
Qed.

Lemma unl_g_other u nu L x :
  cn_id (L x) = cn_id x /\ cn_ver (L x) = cn_ver x /\ cn_keys (L x) = cn_keys x -> cn_id x <> u ->
  live (unl_g u nu L x) = live x /\ cn_lo (unl_g u nu L x) = cn_lo (L x).
Proof.
  intros (B1&B2&_) Hne. unfold unl_g, upd. rewrite redir_id, B1.
  destruct (N.eqb_spec (cn_id x) u) as [Ei|_]; [contradiction|].
  rewrite redir_live, redir_lo. unfold live. rewrite B2. auto.
Qed.

Lemma has0_step s w s' :
  WF (c_nodes s) (c_fresh s) -> is_writer w = true -> cstep true s w = Some s' ->
  has0 (c_nodes s) -> has0 (c_nodes s').
Proof.
  intros W Hw Hs H0. pose proof (wf_nodup _ _ W) as Hnd. destruct w; try discriminate.
  - apply cstep_ins in Hs as (c&_&_&->). cbn [c_nodes]. rewrite update_node_map by exact Hnd.
    apply has0_map; [|exact H0]. intros x. apply upd_lo_live; reflexivity.
  - apply cstep_rem in Hs as (c&_&_&->). cbn [c_nodes]. rewrite update_node_map by exact Hnd.
    apply has0_map; [|exact H0]. intros x. apply upd_lo_live; reflexivity.
  - apply cstep_split in Hs as (T&_&_&_&_&->). cbn [c_nodes]. rewrite update_node_map by exact Hnd.
    assert (P : forall x, cn_lo (upd id (split_f m (c_fresh s)) x) = cn_lo x /\
                          live (upd id (split_f m (c_fresh s)) x) = live x)
      by (intros x; apply upd_lo_live; reflexivity).
    destruct (has0_map _ _ P H0) as (n&Hin&Hn).
    exists n. split; [apply in_insert_after_old, Hin|exact Hn].
  - pose proof Hs as Hs0. apply cstep_unlink in Hs as (U&HfU&LU&KU&Hcase).
    destruct (find_node_In _ _ _ HfU) as [HinU HidU]. destruct H0 as (n&Hin&Ln&Hlo).
    destruct Hcase as [(->&NX&Hfl&->)|(->&->)]; cbn [c_nodes].
    + rewrite unlink_right_map by exact Hnd.
      destruct (L_right_facts _ _ _ _ _ W HfU LU Hfl) as (A1&A2&A3&_).
      set (L := upd (cn_id NX) (lo_f (cn_lo U))) in *.
      destruct (N.eq_dec (cn_id n) id) as [Ei|Ei].
      * (* the node with lower bound 0 is unlinked: its right neighbour takes the bound over *)
        assert (n = U) by (apply (nodup_uniq _ _ _ Hnd Hin HinU); congruence). subst n.
        destruct (find_node_split _ _ _ HfU) as (l1&l2&E&Hn1&_).
        rewrite E, after_mid in Hfl by assumption. destruct (first_live_split _ _ Hfl) as (d&l3&E2&_&LN).
        assert (HinN : In NX (c_nodes s)).
        { rewrite E, E2. apply in_or_app. right. right. apply in_or_app. right. left. reflexivity. }
        assert (HneN : cn_id NX <> id).
        { rewrite E in Hnd. destruct (nodup_mid _ _ _ Hnd) as [_ N2]. intros EN. apply N2.
          rewrite HidU, <- EN, E2. apply in_map, in_or_app. right. left. reflexivity. }
        destruct (unl_g_other id (cn_next U) L NX (A1 NX) HneN) as [B1 B2].
        exists (unl_g id (cn_next U) L NX). split; [apply in_map, HinN|]. rewrite B1, B2.
        split; [exact LN|]. unfold L, upd. rewrite N.eqb_refl. exact Hlo.
      * destruct (unl_g_other id (cn_next U) L n (A1 n) Ei) as [B1 B2].
        exists (unl_g id (cn_next U) L n). split; [apply in_map, Hin|]. rewrite B1, B2.
        split; [exact Ln|]. pose proof (A3 n Hin). lia.
    + rewrite unlink_left_map by exact Hnd.
      set (L := fun x : cnode => x).
      assert (A1 : forall x, cn_id (L x) = cn_id x /\ cn_ver (L x) = cn_ver x /\ cn_keys (L x) = cn_keys x)
        by (intros x; auto).
      destruct (N.eq_dec (cn_id n) id) as [Ei|Ei].
      * (* the node with lower bound 0 is unlinked to the left: a live node before it has lower bound 0 too *)
        assert (n = U) by (apply (nodup_uniq _ _ _ Hnd Hin HinU); congruence). subst n.
        apply cstep_unlink_left_live in Hs0. unfold has_live in Hs0. apply existsb_exists in Hs0 as (a&Ha&La).
        destruct (find_node_split _ _ _ HfU) as (l1&l2&E&Hn1&_).
        rewrite E in W, Ha. rewrite before_mid in Ha by assumption.
        destruct (WF_pair _ _ _ _ W) as [Pa _]. destruct (Pa a Ha La LU) as [Q _].
        assert (Hne : cn_id a <> id) by (intros Ea; apply Hn1; rewrite <- Ea; apply in_map, Ha).
        destruct (unl_g_other id (cn_next U) L a (A1 a) Hne) as [B1 B2].
        exists (unl_g id (cn_next U) L a). split; [apply in_map; rewrite E; apply in_or_app; left; exact Ha|].
        rewrite B1, B2. split; [exact La|]. unfold L. lia.
      * destruct (unl_g_other id (cn_next U) L n (A1 n) Ei) as [B1 B2].
        exists (unl_g id (cn_next U) L n). split; [apply in_map, Hin|]. rewrite B1, B2. auto.
Qed.

Lemma gstep_nodes s e s' : gstep s e = Some s' ->
  (exists w, e = GW w /\ is_writer w = true /\ cstep true (g_c s) w = Some (g_c s')) \/ g_c s' = g_c s.
Proof.
  destruct e as [w|k| |]; unfold gstep.
  - destruct (is_writer w) eqn:Hw; [|discriminate]. destruct (cstep true (g_c s) w) as [c'|] eqn:Hs; [|discriminate].
    intros H. injection H as <-. left. eauto.
  - destruct (g_pc (g_get s)); try discriminate. destruct (start_get _ _ _); [|discriminate].
    intros H. injection H as <-. right. reflexivity.
  - destruct (g_pc (g_get s)); try discriminate. destruct (find_node _ _); [|discriminate].
    intros H. injection H as <-. right. reflexivity.
  - destruct (g_pc (g_get s)); try discriminate. destruct (find_node _ _); [|discriminate].
    destruct (cver_eqb _ _); [intros H; injection H as <-; right; reflexivity|].
    destruct (_ || _); [|intros H; injection H as <-; right; reflexivity].
    destruct (start_get _ _ _); [|discriminate]. intros H. injection H as <-. right. reflexivity.
Qed.

Lemma reach_has0 kss evs : forall s, kss_ok kss = true -> grun (ginit kss) evs = Some s -> has0 (c_nodes (g_c s)).
Proof.
  intros s Hk. assert (G : forall evs s0 s, GInv s0 -> has0 (c_nodes (g_c s0)) -> grun s0 evs = Some s ->
                                             has0 (c_nodes (g_c s))).
  { clear. induction evs as [|e evs IH]; intros s0 s I H0; cbn [grun].
    - intros H. injection H as <-. exact H0.
    - destruct (gstep s0 e) as [s1|] eqn:E; [|discriminate]. apply IH; [eapply GInv_step; eauto|].
      destruct (gstep_nodes _ _ _ E) as [(w&_&Hw&Hs)|Ec]; [|rewrite Ec; exact H0].
      eapply has0_step; eauto. apply (gi_wf _ I). }
  apply G; [apply GInv_init, Hk|apply has0_init, Hk].
Qed.

(* T3': with an active lookup, the lookup step allowed by the program counter is enabled: the border exists, and a
   restart finds a live border covering the key *)
Theorem chain_get_not_stuck : forall kss evs s,
  kss_ok kss = true -> grun (ginit kss) evs = Some s -> searching (g_get s) = true ->
  exists s', gstep s (match g_pc (g_get s) with GSearch => GRead | _ => GValidate end) = Some s'.
Proof.
  intros kss evs s Hk H Hs. pose proof (reach_G _ _ _ Hk H) as I.
  destruct (gi_cur _ I Hs) as (_&n&Hf&_). unfold searching in Hs. unfold gstep.
  destruct (g_pc (g_get s)) eqn:Hpc; try discriminate; rewrite Hf.
  - eauto.
  - destruct (cver_eqb _ _); [eauto|]. destruct (_ || _); [|eauto].
    destruct (has0_cover (g_key (g_get s)) _ (reach_has0 _ _ _ Hk H)) as (n1&Hc).
    unfold start_get. rewrite Hc. eauto.
Qed.

(* a new lookup can always begin when none is active *)
Theorem chain_get_begin_enabled : forall kss evs s k,
  kss_ok kss = true -> grun (ginit kss) evs = Some s -> g_pc (g_get s) = GIdle ->
  exists s', gstep s (GBegin k) = Some s'.
Proof.
  intros kss evs s k Hk H Hpc. unfold gstep. rewrite Hpc.
  destruct (has0_cover k _ (reach_has0 _ _ _ Hk H)) as (n1&Hc). unfold start_get. rewrite Hc. eauto.
Qed.

(** ** 7. non-vacuity *)
(* the key moves to a new right sibling by a split under the lookup; the lookup restarts and finds it *)
Example chain_get_nonvacuous : exists evs s, grun (ginit [[10]; [20; 30; 40]]) evs = Some s /\
  g_pc (g_get s) = GDone true /\ (1 <=? g_restarts (g_get s)) = true.
Proof.
  exists gex_trace. destruct (grun (ginit [[10]; [20; 30; 40]]) gex_trace) as [s|] eqn:E; [|vm_compute in E; discriminate].
  exists s. split; [reflexivity|].
  assert (Some s = grun (ginit [[10]; [20; 30; 40]]) gex_trace) as H by (symmetry; exact E).
  vm_compute in H. injection H as ->. vm_compute. split; reflexivity.
Qed.

(* the border is emptied and unlinked under the lookup, its right neighbour takes the range over and the key is inserted
   again there: the lookup restarts and finds it; the key was absent at some instants in between *)
Example chain_get_nonvacuous2 : exists evs s, grun (ginit [[10]; [20]]) evs = Some s /\
  g_pc (g_get s) = GDone true /\ (1 <=? g_restarts (g_get s)) = true /\ In false (g_seen s).
Proof.
  set (tr := [GBegin 10; GW (ERem 10); GW (EUnlink 0 true); GW (EIns 10); GRead; GValidate; GRead; GValidate]).
  exists tr. destruct (grun (ginit [[10]; [20]]) tr) as [s|] eqn:E; [|vm_compute in E; discriminate].
  exists s. split; [reflexivity|].
  assert (Some s = grun (ginit [[10]; [20]]) tr) as H by (symmetry; exact E).
  vm_compute in H. injection H as ->. vm_compute. split; [reflexivity|]. split; [reflexivity|]. right. left. reflexivity.
Qed.

(* a lookup that answers "absent", the key being inserted only after the response: the answer false is the presence at
   the read (the linearization point) and, for the answer false, still at the validating load *)
Example chain_get_nonvacuous3 : exists evs s, grun (ginit [[10]; [20]]) evs = Some s /\
  g_pc (g_get s) = GDone false /\ present 15 (g_c s) = true /\ In false (g_seen s).
Proof.
  set (tr := [GBegin 15; GRead; GValidate; GW (EIns 15)]).
  exists tr. destruct (grun (ginit [[10]; [20]]) tr) as [s|] eqn:E; [|vm_compute in E; discriminate].
  exists s. split; [reflexivity|].
  assert (Some s = grun (ginit [[10]; [20]]) tr) as H by (symmetry; exact E).
  vm_compute in H. injection H as ->. vm_compute. split; [reflexivity|]. split; [reflexivity|]. left. reflexivity.
Qed.

(* the linearization point is the read: the key is removed between the read and the validating load; the version of
   the border is unchanged, the lookup answers "present" although the key is absent at the response *)
Example chain_get_true_after_remove : exists evs s, grun (ginit [[10]; [20]]) evs = Some s /\
  g_pc (g_get s) = GDone true /\ present 10 (g_c s) = false /\ g_seen s = [false; true] /\
  g_restarts (g_get s) = 0.
Proof.
  set (tr := [GBegin 10; GRead; GW (ERem 10); GValidate]).
  exists tr. destruct (grun (ginit [[10]; [20]]) tr) as [s|] eqn:E; [|vm_compute in E; discriminate].
  exists s. split; [reflexivity|].
  assert (Some s = grun (ginit [[10]; [20]]) tr) as H by (symmetry; exact E).
  vm_compute in H. injection H as ->. vm_compute. repeat split; reflexivity.
Qed.

Print Assumptions chain_get_linearizable.
Print Assumptions chain_get_seen_head.
Print Assumptions chain_get_response_now.
Print Assumptions chain_get_read_is_presence.
Print Assumptions chain_get_cur_exists.
Print Assumptions chain_get_wf.
Print Assumptions chain_get_not_stuck.
Print Assumptions chain_get_begin_enabled.
Print Assumptions chain_get_nonvacuous.
Print Assumptions chain_get_nonvacuous2.
Print Assumptions chain_get_nonvacuous3.
Print Assumptions chain_get_true_after_remove.
