(** * C09 -- operations always complete: no deadlock and no lock left held.
    Proved: the ordered-acquisition discipline admits no deadlock (any number of
    threads and locks, any rank function); the lock bit of a border is set iff
    exactly one thread is in a critical section and every writer path of the
    border model ends with the lock released (C01_border_lock_and_representation).
    Not proved (explored on the real code, see DESIGN.md): termination of the
    optimistic retry loops under fair schedules, and conformance of every writer
    path of the full tree to the discipline. *)
From Coq Require Import List Bool PeanoNat.
From Yk Require Import LockOrderDefs LockOrderProofs.
Import ListNotations.

Theorem C09_ordered_no_deadlock : forall rank (ts : list lthread),
  ts <> [] -> Forall (ordered rank) ts -> awaited_held ts ->
  exists t, In t ts /\ waits t = None.
Proof. exact ordered_no_deadlock. Qed.
Print Assumptions C09_ordered_no_deadlock.

Theorem C09_not_all_waiting : forall rank (ts : list lthread),
  ts <> [] -> Forall (ordered rank) ts -> awaited_held ts ->
  ~ (forall t, In t ts -> waits t <> None).
Proof. exact readers_never_block_writers. Qed.
Print Assumptions C09_not_all_waiting.

Theorem C09_conformance_check_sound : forall rank t, orderedb rank t = true <-> ordered rank t.
Proof. exact orderedb_spec. Qed.
Print Assumptions C09_conformance_check_sound.

(** non-vacuity: child -> previous sibling -> parent -> root lock, three threads *)
Example C09_nonvacuous :
  let rank := fun l => l in
  let ts := [ {| held := [1; 2]; waits := Some 5 |};      (* holds a border and its prev, waits for the parent *)
              {| held := [5]; waits := Some 9 |};          (* holds the parent, waits for the root lock *)
              {| held := [9]; waits := None |} ] in         (* holds the root lock, running *)
  Forall (ordered rank) ts /\ awaited_held ts /\ forallb (orderedb rank) ts = true.
Proof.
  cbv zeta. split; [|split].
  - repeat constructor.
  - intros t l Hin Hw. cbn in Hin. destruct Hin as [<-|[<-|[<-|[]]]]; cbn in Hw; try discriminate;
      injection Hw as <-.
    + eexists. split; [right; left; reflexivity|]. cbn. auto.
    + eexists. split; [right; right; left; reflexivity|]. cbn. auto.
  - reflexivity.
Qed.
