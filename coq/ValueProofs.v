(** * ValueProofs: layout of out-of-line value blocks and tagging of slot
    words (include/value.h, include/link_or_value.h). *)
From Coq Require Import NArith Lia Bool ZifyBool ZifyN.
From Yk Require Import Word64 Nibble ValueDefs.
Local Open Scope N_scope.

(** ** the two flag bits *)

Lemma vpf_pow : kValPtrFlag = 2 ^ 62.
Proof. reflexivity. Qed.

Lemma cf_pow : kChildFlag = 2 ^ 63.
Proof. reflexivity. Qed.

Lemma testbit_vpf n : N.testbit kValPtrFlag n = (n =? 62).
Proof. rewrite vpf_pow, N.pow2_bits_eqb. apply N.eqb_sym. Qed.

Lemma testbit_cf n : N.testbit kChildFlag n = (n =? 63).
Proof. rewrite cf_pow, N.pow2_bits_eqb. apply N.eqb_sym. Qed.

Ltac tbv :=
  repeat first
    [ rewrite N.lor_spec | rewrite N.land_spec | rewrite testbit_not64
    | rewrite testbit_vpf | rewrite testbit_cf | rewrite N.bits_0 ].

Lemma pow62_lt_63 : 2 ^ 62 < 2 ^ 63.
Proof. reflexivity. Qed.

Lemma pow62_lt_64 : 2 ^ 62 < 2 ^ 64.
Proof. reflexivity. Qed.

Lemma small62_bit w n : w < 2 ^ 62 -> 62 <= n -> N.testbit w n = false.
Proof. intros Hw Hn. apply (testbit_small w 62); assumption. Qed.

Lemma land_small_vpf w : w < 2 ^ 62 -> N.land w kValPtrFlag = 0.
Proof.
  intros Hw. apply N.bits_inj. intros n. tbv.
  destruct (N.eqb_spec n 62) as [->|Hn].
  - rewrite (small62_bit w 62) by (assumption || lia). reflexivity.
  - apply andb_false_r.
Qed.

Lemma land_small_cf w : w < 2 ^ 62 -> N.land w kChildFlag = 0.
Proof.
  intros Hw. apply N.bits_inj. intros n. tbv.
  destruct (N.eqb_spec n 63) as [->|Hn].
  - rewrite (small62_bit w 63) by (assumption || lia). reflexivity.
  - apply andb_false_r.
Qed.

Lemma land_lor_absorb p f : N.land (N.lor p f) f = f.
Proof.
  apply N.bits_inj. intros n. rewrite N.land_spec, N.lor_spec.
  destruct (N.testbit p n), (N.testbit f n); reflexivity.
Qed.

(** ** value pointers *)

Lemma remove_tag_value_ptr p : p < 2 ^ 62 -> remove_ptr_flag (tag_value_ptr p) = p.
Proof.
  intros Hp. unfold remove_ptr_flag, tag_value_ptr.
  apply N.bits_inj. intros n. tbv.
  destruct (N.eqb_spec n 62) as [->|Hn].
  - rewrite (small62_bit p 62) by (assumption || lia). reflexivity.
  - cbn [negb andb]. rewrite orb_false_r.
    destruct (N.ltb_spec n 64) as [H|H].
    + apply andb_true_r.
    + rewrite andb_false_r. symmetry. apply small62_bit; [assumption|lia].
Qed.

Lemma remove_ptr_flag_small w : w < 2 ^ 62 -> remove_ptr_flag w = w.
Proof.
  intros Hw. unfold remove_ptr_flag.
  apply N.bits_inj. intros n. tbv.
  destruct (N.leb_spec 62 n) as [H|H].
  - rewrite (small62_bit w n) by assumption. reflexivity.
  - destruct (N.eqb_spec n 62) as [->|Hn]; [lia|].
    destruct (N.ltb_spec n 64) as [H1|H1]; [|lia].
    cbn [negb andb]. apply andb_true_r.
Qed.

Lemma is_value_ptr_tag p : is_value_ptr (tag_value_ptr p) = true.
Proof. unfold is_value_ptr, tag_value_ptr. rewrite land_lor_absorb. reflexivity. Qed.

Lemma tag_value_ptr_child_bit p :
  p < 2 ^ 62 -> N.land (tag_value_ptr p) kChildFlag = 0.
Proof.
  intros Hp. unfold tag_value_ptr.
  apply N.bits_inj. intros n. tbv.
  destruct (N.eqb_spec n 63) as [->|Hn].
  - rewrite (small62_bit p 63) by (assumption || lia). reflexivity.
  - apply andb_false_r.
Qed.

Lemma tag_value_ptr_neq_init p :
  p < 2 ^ 62 -> p <> 0 -> tag_value_ptr p <> kValPtrFlag.
Proof.
  intros Hp Hz E. apply Hz.
  rewrite <- (remove_tag_value_ptr p Hp), E. reflexivity.
Qed.

Lemma tag_value_ptr_neq_0 p : tag_value_ptr p <> 0.
Proof.
  intros E. pose proof (is_value_ptr_tag p) as H. rewrite E in H. discriminate H.
Qed.

Lemma lv_get_value_tag p :
  p < 2 ^ 62 -> p <> 0 -> lv_get_value (tag_value_ptr p) = Some (tag_value_ptr p).
Proof.
  intros Hp Hz. unfold lv_get_value.
  rewrite (tag_value_ptr_child_bit p Hp).
  destruct (N.eqb_spec (tag_value_ptr p) kValPtrFlag) as [E|E].
  - exfalso. exact (tag_value_ptr_neq_init p Hp Hz E).
  - destruct (N.eqb_spec (tag_value_ptr p) 0) as [E0|E0].
    + exfalso. exact (tag_value_ptr_neq_0 p E0).
    + reflexivity.
Qed.

Lemma lv_get_next_layer_tag p :
  p < 2 ^ 62 -> lv_get_next_layer (tag_value_ptr p) = None.
Proof.
  intros Hp. unfold lv_get_next_layer.
  rewrite (tag_value_ptr_child_bit p Hp). reflexivity.
Qed.

(** ** child links *)

Lemma child_strip p : p < 2 ^ 62 -> N.land (tag_child_ptr p) (not64 kChildFlag) = p.
Proof.
  intros Hp. unfold tag_child_ptr.
  apply N.bits_inj. intros n. tbv.
  destruct (N.eqb_spec n 63) as [->|Hn].
  - rewrite (small62_bit p 63) by (assumption || lia). reflexivity.
  - cbn [negb andb]. rewrite orb_false_r.
    destruct (N.ltb_spec n 64) as [H|H].
    + apply andb_true_r.
    + rewrite andb_false_r. symmetry. apply small62_bit; [assumption|lia].
Qed.

Lemma lv_get_next_layer_child p :
  p < 2 ^ 62 -> lv_get_next_layer (tag_child_ptr p) = Some p.
Proof.
  intros Hp. unfold lv_get_next_layer.
  rewrite (child_strip p Hp).
  unfold tag_child_ptr. rewrite land_lor_absorb. reflexivity.
Qed.

Lemma lv_get_value_child p : lv_get_value (tag_child_ptr p) = None.
Proof.
  unfold lv_get_value, tag_child_ptr. rewrite land_lor_absorb. reflexivity.
Qed.

(** the all-zero word holds nothing (reinterpret_cast<value*>(0) is nullptr) *)
Lemma lv_get_value_zero : lv_get_value 0 = None.
Proof. vm_compute. reflexivity. Qed.

Lemma lv_init_empty : lv_get_value lv_init = None /\ lv_get_next_layer lv_init = None.
Proof. split; vm_compute; reflexivity. Qed.

(** the pointer-tag property as one statement *)
Lemma c15_pointer_tags :
  (forall p, p < 2 ^ 62 ->
     remove_ptr_flag (tag_value_ptr p) = p /\
     is_value_ptr (tag_value_ptr p) = true /\
     (p <> 0 -> lv_get_value (tag_value_ptr p) = Some (tag_value_ptr p)) /\
     lv_get_next_layer (tag_value_ptr p) = None) /\
  (forall p, p < 2 ^ 62 ->
     lv_get_next_layer (tag_child_ptr p) = Some p /\
     lv_get_value (tag_child_ptr p) = None) /\
  (lv_get_value lv_init = None /\ lv_get_next_layer lv_init = None) /\
  lv_get_value 0 = None.
Proof.
  split; [|split; [|split]].
  - intros p Hp. split; [exact (remove_tag_value_ptr p Hp)|].
    split; [exact (is_value_ptr_tag p)|].
    split; [intros Hz; exact (lv_get_value_tag p Hp Hz)|].
    exact (lv_get_next_layer_tag p Hp).
  - intros p Hp. split; [exact (lv_get_next_layer_child p Hp)|exact (lv_get_value_child p)].
  - exact lv_init_empty.
  - exact lv_get_value_zero.
Qed.

(** ** inline words *)

Lemma c15_inline_by_value : forall w,
  w < 2 ^ 62 ->
  value_is_inline w = true /\
  is_value_ptr w = false /\
  (w <> 0 -> lv_get_value w = Some w) /\
  lv_get_next_layer w = None.
Proof.
  intros w Hw. split; [|split; [|split]].
  - unfold value_is_inline. rewrite (remove_ptr_flag_small w Hw). apply N.eqb_refl.
  - unfold is_value_ptr. rewrite (land_small_vpf w Hw). reflexivity.
  - intros Hz. unfold lv_get_value. rewrite (land_small_cf w Hw).
    destruct (N.eqb_spec w kValPtrFlag) as [E|E].
    + exfalso. rewrite vpf_pow in E. lia.
    + destruct (N.eqb_spec w 0) as [E0|E0]; [contradiction|reflexivity].
  - unfold lv_get_next_layer. rewrite (land_small_cf w Hw). reflexivity.
Qed.

(** ** block layout *)

Definition pow2_align (align : N) : Prop := exists k, align = 2 ^ k /\ k <= 12.

Lemma pow2_align_bounds align : pow2_align align -> 1 <= align /\ align <= 4096.
Proof.
  intros (k & -> & Hk). split.
  - pose proof (N.pow_nonzero 2 k). lia.
  - change 4096 with (2 ^ 12). apply N.pow_le_mono_r; lia.
Qed.

(** [max align 8] is a multiple of [align]: both are powers of two *)
Lemma pow2_align_max_multiple align :
  pow2_align align -> exists m, N.max align 8 = m * align.
Proof.
  intros (k & -> & Hk).
  destruct (N.le_gt_cases k 3) as [H|H].
  - exists (2 ^ (3 - k)).
    assert (2 ^ k <= 2 ^ 3) as Hle by (apply N.pow_le_mono_r; lia).
    rewrite <- N.pow_add_r. replace (3 - k + k) with 3 by lia.
    change (2 ^ 3) with 8 in *. lia.
  - exists 1.
    assert (2 ^ 3 < 2 ^ k) as Hlt by (apply N.pow_lt_mono_r; lia).
    change (2 ^ 3) with 8 in Hlt. lia.
Qed.

Lemma create_value_block_eq len align :
  len < 2 ^ 32 -> 1 <= align -> align <= 4096 ->
  create_value_block len align =
  {| vb_alloc_size := len + N.max align 8;
     vb_alloc_align := N.max align 8;
     vb_hdr_len := len;
     vb_hdr_align := N.max align 8 |}.
Proof.
  intros Hl H1 H2. unfold create_value_block, kMinAlignment.
  assert ((if align <? 8 then 8 else align) = N.max align 8) as ->
    by (destruct (N.ltb_spec align 8); lia).
  assert (N.max align 8 <= 4096) as Ha by lia.
  assert (2 ^ 32 = 4294967296) as E32 by reflexivity.
  assert (2 ^ 16 = 65536) as E16 by reflexivity.
  rewrite E32 in *. rewrite E16.
  unfold add64, w64.
  rewrite (N.mod_small (len + N.max align 8)) by lia.
  rewrite (N.mod_small len) by lia.
  rewrite (N.mod_small (N.max align 8)) by lia.
  reflexivity.
Qed.

Lemma aligned_body base a align m :
  align <> 0 -> a = m * align -> a <> 0 ->
  base mod a = 0 -> (base + a) mod align = 0.
Proof.
  intros Hal Ha Hnz Hb.
  apply N.mod_divide in Hb; [|exact Hnz].
  destruct Hb as [q Hq].
  replace (base + a) with ((q * m + m) * align) by (rewrite Hq, Ha; lia).
  apply N.mod_mul. exact Hal.
Qed.

Lemma c15_layout : forall len align,
  len < 2 ^ 32 -> pow2_align align ->
  let b := create_value_block len align in
  let a := N.max align 8 in
  vb_alloc_align b = a /\
  vb_alloc_size b = len + a /\
  vb_body_offset b = a /\
  8 <= vb_body_offset b /\
  vb_body_offset b + len <= vb_alloc_size b /\
  (forall base, base mod a = 0 -> (base + vb_body_offset b) mod align = 0) /\
  vb_get_len b = len.
Proof.
  intros len align Hl Hp. cbv zeta.
  destruct (pow2_align_bounds align Hp) as [H1 H2].
  rewrite (create_value_block_eq len align Hl H1 H2).
  unfold vb_body_offset, vb_get_len.
  cbn [vb_alloc_size vb_alloc_align vb_hdr_len vb_hdr_align].
  split; [reflexivity|]. split; [reflexivity|]. split; [reflexivity|].
  split; [lia|]. split; [lia|]. split; [|reflexivity].
  intros base Hb.
  destruct (pow2_align_max_multiple align Hp) as [m Hm].
  apply (aligned_body base (N.max align 8) align m); [lia|exact Hm|lia|exact Hb].
Qed.

Lemma c15_release_matches_allocation : forall len align,
  len < 2 ^ 32 -> pow2_align align -> len + N.max align 8 < 2 ^ 32 ->
  let b := create_value_block len align in
  vb_gc_size b = vb_alloc_size b /\ vb_gc_align b = vb_alloc_align b.
Proof.
  intros len align Hl Hp Hs. cbv zeta.
  destruct (pow2_align_bounds align Hp) as [H1 H2].
  rewrite (create_value_block_eq len align Hl H1 H2).
  unfold vb_gc_size, vb_gc_align.
  cbn [vb_alloc_size vb_alloc_align vb_hdr_len vb_hdr_align].
  split; [apply N.mod_small; exact Hs|reflexivity].
Qed.

(** ** outside the quantifier (side remarks, not defects) *)

(** a length that does not fit the 32-bit header field is not reported back *)
Lemma c15_len_overflow_refuted :
  exists len, 2 ^ 32 <= len /\ vb_get_len (create_value_block len 8) <> len.
Proof. exists (2 ^ 32). split; [vm_compute; discriminate|vm_compute; discriminate]. Qed.

(** an inline word with bit 62 set is taken for a pointer *)
Lemma c15_inline_bit62_refuted :
  exists w, w < 2 ^ 64 /\ N.testbit w 62 = true /\ value_is_inline w = false.
Proof. exists (2 ^ 62 + 5). split; [reflexivity|]. split; vm_compute; reflexivity. Qed.

(** [len_ + align_] in delete_value / get_gc_info is a 32-bit sum
    (std::uint32_t + std::uint16_t), the allocation size a 64-bit one: for a
    length within [max align 8] of 2^32 they differ.  Outside the property's
    quantifier (values are up to several MiB). *)
Lemma c15_release_wrap_refuted :
  exists len align, len < 2 ^ 32 /\ pow2_align align /\
    vb_gc_size (create_value_block len align) <>
    vb_alloc_size (create_value_block len align).
Proof.
  exists (2 ^ 32 - 1), 8. split; [reflexivity|]. split.
  - exists 3. split; [reflexivity|vm_compute; discriminate].
  - vm_compute. discriminate.
Qed.
