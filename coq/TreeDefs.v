(** * TreeDefs: the sequential semantics of the tree, as coded.

    One trie layer is a B+-tree [bt]; a storage is a flat map from layer
    prefixes (the list of 8-byte slices leading to the layer) to layer roots: a
    link entry (s, 9) in the layer at prefix p denotes the layer at p ++ [s].
    Leaves are slot-level (15 slots + permutation word + version word), interior
    nodes carry their separator array and child array.  Parent / prev / next
    pointers are not stored: they are determined by the shape and compared with
    the real pointers in dumps.  Every node and value carries an allocation id.

    Executable definitions only (extracted and run against the C++). *)
From Coq Require Export NArith List Bool PeanoNat.
From Yk Require Export ListAux Word64 PermDefs VersionDefs KeyDefs.
Export ListNotations.
Local Open Scope N_scope.

(** ** Values and slots *)
Record value := {
  v_id : N;            (* allocation id (0 for inline words) *)
  v_bytes : list N;    (* body bytes; for an inline value the 8 bytes of the word *)
  v_align : N;         (* requested alignment (after the 8-byte minimum) *)
  v_inline : bool;
}.

Inductive lvw :=
| LEmpty                      (* init_lv: kValPtrFlag alone *)
| LValue (v : value)
| LLink.                      (* link to the layer at prefix ++ [slice] *)

Record slot_t := { sl_key : ktuple; sl_lv : lvw }.
Definition empty_slot : slot_t := {| sl_key := {| ks := 0; kl := 0 |}; sl_lv := LEmpty |}.

Record leaf := {
  lf_id : N;
  lf_ver : N;
  lf_perm : N;
  lf_slots : list slot_t;      (* 15 slots, by slot index *)
}.

Inductive bt :=
| BLeaf (l : leaf)
| BInt (id : N) (ver : N) (keys : list ktuple) (ch : list bt).

Definition bt_id (t : bt) : N := match t with BLeaf l => lf_id l | BInt id _ _ _ => id end.
Definition bt_ver (t : bt) : N := match t with BLeaf l => lf_ver l | BInt _ v _ _ => v end.
Definition bt_set_ver (t : bt) (v : N) : bt :=
  match t with
  | BLeaf l => BLeaf {| lf_id := lf_id l; lf_ver := v; lf_perm := lf_perm l; lf_slots := lf_slots l |}
  | BInt id _ k c => BInt id v k c
  end.

Fixpoint bt_height (t : bt) : nat :=
  match t with
  | BLeaf _ => 0%nat
  | BInt _ _ _ ch => S (fold_right (fun c m => Nat.max (bt_height c) m) 0%nat ch)
  end.

(** ** list helpers *)
Fixpoint set_nth {A} (n : nat) (x : A) (l : list A) : list A :=
  match l, n with
  | [], _ => []
  | _ :: r, O => x :: r
  | a :: r, S m => a :: set_nth m x r
  end.

(** ** Leaf operations *)
Definition slot_at (l : leaf) (i : N) : slot_t := nth (N.to_nat i) (lf_slots l) empty_slot.

(** entries in rank order: (slot index, slot) *)
Definition leaf_ranked (l : leaf) : list (N * slot_t) :=
  map (fun i => (i, slot_at l i)) (perm_list (lf_perm l)).

Definition leaf_cnk (l : leaf) : N := get_cnk (lf_perm l).

(** border_node::get_lv_of (quiescent): first Hit in rank order, stop at Stop *)
Fixpoint lookup_ranked (es : list (N * slot_t)) (k : ktuple) (rank : nat) : option (nat * N * slot_t) :=
  match es with
  | [] => None
  | (i, s) :: r =>
    match lookup_probe k (sl_key s) with
    | Hit => Some (rank, i, s)
    | Stop => None
    | Next => lookup_ranked r k (S rank)
    end
  end.
Definition leaf_lookup (l : leaf) (k : ktuple) := lookup_ranked (leaf_ranked l) k 0.

(** border_node::compute_rank_if_insert *)
Fixpoint rank_ranked (es : list (N * slot_t)) (k : ktuple) (rank : nat) : nat :=
  match es with
  | [] => rank
  | (_, s) :: r => if rank_probe k (sl_key s) then rank else rank_ranked r k (S rank)
  end.
Definition leaf_rank (l : leaf) (k : ktuple) : nat := rank_ranked (leaf_ranked l) k 0.

Definition leaf_with (l : leaf) (ver perm : N) (slots : list slot_t) : leaf :=
  {| lf_id := lf_id l; lf_ver := ver; lf_perm := perm; lf_slots := slots |}.

(** border_node::insert_lv_at: write slot, then insert_rank *)
Definition leaf_insert_at (l : leaf) (slot : N) (k : ktuple) (lv : lvw) (rank : nat) : leaf :=
  leaf_with l (lf_ver l) (insert_rank (lf_perm l) (N.of_nat rank) slot)
            (set_nth (N.to_nat slot) {| sl_key := k; sl_lv := lv |} (lf_slots l)).

Definition fresh_slots : list slot_t := repeat empty_slot 15.

(** version words the writers produce *)
Definition v_lock (v : N) : N := set_locked v true.
Definition v_fresh_border (root : bool) : N :=      (* init_border() + set_version_root(root) *)
  set_border (set_root version_init root) true.
Definition v_new_layer_border : N :=                (* init_border(key, ...): atomic_inc_vinsert *)
  inc_vinsert_delete (v_fresh_border true).
Definition v_new_interior_parent : N :=             (* create_interior_parent_of_*: ends after unlock *)
  unlock (v_lock (set_inserting_deleting (set_root (set_border version_init false) true) true)).

(** a fresh one-entry border: border_node::init_border(key_view, value, ..., root) *)
Definition single_leaf (id : N) (k : ktuple) (lv : lvw) : leaf :=
  leaf_insert_at {| lf_id := id; lf_ver := v_new_layer_border; lf_perm := 0; lf_slots := fresh_slots |}
                 0 k lv 0.

(** ** Results of an insert *)
Record put_info := { pi_modified : N; pi_created : option N }.

Inductive insres :=
| IOne (t : bt)
| ISplit (l : bt) (sep : ktuple) (r : bt).

(** the seven moves of border_split: rank 8 -> new slot i, clear, delete_rank 8 *)
Fixpoint split_moves (n : nat) (i : nat) (old : leaf) (nslots : list slot_t) : leaf * list slot_t :=
  match n with
  | O => (old, nslots)
  | S m =>
    let src := get_index_of_rank (lf_perm old) 8 in
    let s := slot_at old src in
    let nslots' := set_nth i s nslots in
    let old' := leaf_with old (lf_ver old) (delete_rank (lf_perm old) 8)
                          (set_nth (N.to_nat src) empty_slot (lf_slots old)) in
    split_moves m (S i) old' nslots'
  end.

(** insert_lv (border_helper.h) on a leaf that does not hold [k]; [nid] = id for a new sibling *)
Definition leaf_put (l : leaf) (k : ktuple) (lv : lvw) (nid : N) : insres * put_info :=
  let rank := leaf_rank l k in
  let v1 := set_inserting_deleting (v_lock (lf_ver l)) true in
  let v1 := if leaf_cnk l =? 0 then set_deleted v1 false else v1 in
  if leaf_cnk l =? 15 then
    (* border_split *)
    let v2 := set_splitting v1 true in
    let '(old, nslots) := split_moves 7 0 (leaf_with l v2 (lf_perm l) (lf_slots l)) fresh_slots in
    let new := {| lf_id := nid; lf_ver := v2; lf_perm := split_dest 7; lf_slots := nslots |} in
    let first := sl_key (slot_at new 0) in
    let '(old2, new2) :=
      if bsplit_left k first (N.of_nat rank) 8
      then (leaf_insert_at old (get_empty_slot (lf_perm old)) k lv rank, new)
      else (old, leaf_insert_at new (get_empty_slot (lf_perm new)) k lv (rank - 8)) in
    (* both halves end with root = false, unlocked *)
    let fin (x : leaf) := leaf_with x (unlock (set_root (lf_ver x) false)) (lf_perm x) (lf_slots x) in
    (ISplit (BLeaf (fin old2)) (sl_key (slot_at new2 0)) (BLeaf (fin new2)),
     {| pi_modified := lf_id l; pi_created := Some nid |})
  else
    let l1 := leaf_insert_at (leaf_with l v1 (lf_perm l) (lf_slots l))
                             (get_empty_slot (lf_perm l)) k lv rank in
    (IOne (BLeaf (leaf_with l1 (unlock (lf_ver l1)) (lf_perm l1) (lf_slots l1))),
     {| pi_modified := lf_id l; pi_created := None |}).

(** interior routing: interior_node::get_child_of *)
Fixpoint route (keys : list ktuple) (k : ktuple) (i : nat) : nat :=
  match keys with
  | [] => i
  | s :: r => if route_probe k s then i else route r k (S i)
  end.

(** interior_node::insert position *)
Fixpoint iins_pos (keys : list ktuple) (k : ktuple) (i : nat) : nat :=
  match keys with
  | [] => i
  | s :: r => if iins_probe k s then i else iins_pos r k (S i)
  end.

(** interior_node::insert(child, pivot): key at position i, child at i+1 *)
Definition int_insert (keys : list ktuple) (ch : list bt) (k : ktuple) (c : bt) : list ktuple * list bt :=
  let i := iins_pos keys k 0 in
  (insert_at i k keys, insert_at (S i) c ch).

(** after a child split below interior (id, ver, keys, ch) at child index i:
    insert (sep, r) -- or split this interior (interior_split) *)
Definition int_absorb (id : N) (ver : N) (keys : list ktuple) (ch : list bt) (i : nat)
           (l : bt) (sep : ktuple) (r : bt) (nid : N) : insres :=
  let ch1 := set_nth i l ch in
  if Nat.eqb (length keys) 15 then
    (* interior_split: pivot = key 7; keys 0..6 | 8..14; children 0..7 | 8..15 *)
    let v2 := set_splitting (v_lock ver) true in
    let pivot := nth 7 keys {| ks := 0; kl := 0 |} in
    let lk := firstn 7 keys in let rk := skipn 8 keys in
    let lc := firstn 8 ch1 in let rc := skipn 8 ch1 in
    let '(lk2, lc2, lv2, rk2, rc2, rv2) :=
      if iins_probe sep pivot
      then let '(a, b) := int_insert lk lc sep r in (a, b, set_inserting_deleting v2 true, rk, rc, v2)
      else let '(a, b) := int_insert rk rc sep r in (lk, lc, v2, a, b, set_inserting_deleting v2 true) in
    ISplit (BInt id (unlock (set_root lv2 false)) lk2 lc2) pivot
           (BInt nid (unlock (set_root rv2 false)) rk2 rc2)
  else
    let '(k2, c2) := int_insert keys ch1 sep r in
    IOne (BInt id (unlock (set_inserting_deleting (v_lock ver) true)) k2 c2).

(** insert [k] (absent) into the B+-tree [t]; [ctr] = next free id *)
Fixpoint bt_put (fuel : nat) (t : bt) (k : ktuple) (lv : lvw) (ctr : N)
  : option (insres * put_info * N) :=
  match fuel with
  | O => None
  | S f =>
    match t with
    | BLeaf l => let '(r, info) := leaf_put l k lv ctr in Some (r, info, ctr + 1)
    | BInt id ver keys ch =>
      let i := route keys k 0 in
      match nth_error ch i with
      | None => None
      | Some c =>
        match bt_put f c k lv ctr with
        | None => None
        | Some (IOne c', info, ctr') => Some (IOne (BInt id ver keys (set_nth i c' ch)), info, ctr')
        | Some (ISplit l sep r, info, ctr') =>
          Some (int_absorb id ver keys ch i l sep r ctr', info, ctr' + 1)
        end
      end
    end
  end.

(** a layer root after an insert: a root that split gets a new interior parent
    (create_interior_parent_of_border / _of_interior) *)
Definition layer_put (root : bt) (k : ktuple) (lv : lvw) (ctr : N) : option (bt * put_info * N) :=
  match bt_put (S (bt_height root)) root k lv ctr with
  | None => None
  | Some (IOne t, info, c) => Some (t, info, c)
  | Some (ISplit l sep r, info, c) => Some (BInt c v_new_interior_parent [sep] [l; r], info, c + 1)
  end.

(** ** Lookup *)
Fixpoint bt_find_leaf (fuel : nat) (t : bt) (k : ktuple) : option leaf :=
  match fuel with
  | O => None
  | S f =>
    match t with
    | BLeaf l => Some l
    | BInt _ _ keys ch =>
      match nth_error ch (route keys k 0) with
      | None => None
      | Some c => bt_find_leaf f c k
      end
    end
  end.
Definition find_leaf (root : bt) (k : ktuple) : option leaf := bt_find_leaf (S (bt_height root)) root k.

(** replace the leaf reached by [k] *)
Fixpoint bt_update_leaf (fuel : nat) (t : bt) (k : ktuple) (f : leaf -> leaf) : bt :=
  match fuel with
  | O => t
  | S fu =>
    match t with
    | BLeaf l => BLeaf (f l)
    | BInt id ver keys ch =>
      let i := route keys k 0 in
      match nth_error ch i with
      | None => t
      | Some c => BInt id ver keys (set_nth i (bt_update_leaf fu c k f) ch)
      end
    end
  end.
Definition update_leaf (root : bt) (k : ktuple) (f : leaf -> leaf) : bt :=
  bt_update_leaf (S (bt_height root)) root k f.

(** ** Delete *)
Inductive delres :=
| DKept (t : bt)      (* the subtree (possibly replaced by a promoted sibling) *)
| DGone.              (* the subtree became empty: its node was unlinked and retired *)

(** border_node::delete_at + permutation update on a leaf holding [k] at [rank]/[slot].
    The slot word is reset only for out-of-line values. *)
Definition leaf_delete (l : leaf) (rank : nat) (slot : N) : leaf :=
  let s := slot_at l slot in
  let slots' := match sl_lv s with
                | LValue v => if v_inline v then lf_slots l
                              else set_nth (N.to_nat slot) {| sl_key := sl_key s; sl_lv := LEmpty |} (lf_slots l)
                | _ => lf_slots l
                end in
  leaf_with l (lf_ver l) (delete_rank (lf_perm l) (N.of_nat rank)) slots'.

Definition remove_nth {A} (n : nat) (l : list A) : list A := remove_at n l.

Fixpoint bt_delete (fuel : nat) (t : bt) (k : ktuple) : option (delres * list N) :=
  (* second component: ids of nodes retired *)
  match fuel with
  | O => None
  | S f =>
    match t with
    | BLeaf l =>
      match leaf_lookup l k with
      | None => None
      | Some (rank, slot, _) =>
        let l' := leaf_delete l rank slot in
        if leaf_cnk l =? 1 then Some (DGone, [lf_id l])
        else Some (DKept (BLeaf l'), [])
      end
    | BInt id ver keys ch =>
      let i := route keys k 0 in
      match nth_error ch i with
      | None => None
      | Some c =>
        match bt_delete f c k with
        | None => None
        | Some (DKept c', ret) => Some (DKept (BInt id ver keys (set_nth i c' ch)), ret)
        | Some (DGone, ret) =>
          (* interior_node::delete_of(child) *)
          if Nat.eqb (length keys) 1 then
            match nth_error ch (1 - i) with
            | None => None
            | Some sib => Some (DKept sib, ret ++ [id])
            end
          else
            let keys' := if Nat.eqb i 0 then remove_nth 0 keys else remove_nth (i - 1) keys in
            Some (DKept (BInt id (unlock (set_inserting_deleting (v_lock ver) true)) keys' (remove_nth i ch)), ret)
        end
      end
    end
  end.

(** ** Storage = layers by prefix *)
Definition prefix := list N.

Fixpoint prefix_eqb (a b : prefix) : bool :=
  match a, b with
  | [], [] => true
  | x :: a', y :: b' => (x =? y) && prefix_eqb a' b'
  | _, _ => false
  end.

Definition layers_t := list (prefix * bt).

Fixpoint layer_get (ls : layers_t) (p : prefix) : option bt :=
  match ls with
  | [] => None
  | (q, t) :: r => if prefix_eqb q p then Some t else layer_get r p
  end.

Fixpoint layer_set (ls : layers_t) (p : prefix) (t : bt) : layers_t :=
  match ls with
  | [] => [(p, t)]
  | (q, u) :: r => if prefix_eqb q p then (q, t) :: r else (q, u) :: layer_set r p t
  end.

Fixpoint layer_del (ls : layers_t) (p : prefix) : layers_t :=
  match ls with
  | [] => []
  | (q, u) :: r => if prefix_eqb q p then r else (q, u) :: layer_del r p
  end.

(** a storage: None = null root pointer *)
Record tree := { t_layers : layers_t; t_null : bool }.

(** ** Keys *)
Fixpoint take_bytes (n : nat) (k : key) : key :=
  match n, k with
  | O, _ => []
  | _, [] => []
  | S m, b :: r => b :: take_bytes m r
  end.

(** the tuples of a key, layer by layer; every tuple but the last has length 9 *)
Fixpoint key_path (fuel : nat) (k : key) : list ktuple :=
  match fuel with
  | O => []
  | S f =>
    if (8 <? N.of_nat (length k))
    then {| ks := slice_of_bytes k 8; kl := 9 |} :: key_path f (skipn 8 k)
    else [{| ks := slice_of_bytes k 8; kl := N.of_nat (length k) |}]
  end.
Definition path_of_key (k : key) : list ktuple := key_path (S (length k)) k.

(** create the chain of fresh one-entry layers for the remaining tuples of a long key
    (insert_lv_at's recursion through init_border) *)
Fixpoint new_chain (p : prefix) (ts : list ktuple) (v : value) (ctr : N) (ls : layers_t)
  : layers_t * N :=
  match ts with
  | [] => (ls, ctr)
  | [t] => (layer_set ls p (BLeaf (single_leaf ctr t (LValue v))), ctr + 1)
  | t :: r => new_chain (p ++ [ks t]) r v (ctr + 1)
                        (layer_set ls p (BLeaf (single_leaf ctr t LLink)))
  end.

Inductive status :=
| St_OK | St_WARN_NOT_EXIST | St_WARN_UNIQUE_RESTRICTION | St_OK_NOT_FOUND | St_OK_ROOT_IS_NULL
| St_ERR_BAD_USAGE | St_WARN_STORAGE_NOT_EXIST | St_WARN_EXIST | St_ERR_FATAL
| St_OK_SCAN_END | St_OK_SCAN_CONTINUE | St_WARN_CONCURRENT_OPERATIONS | St_OK_DESTROY_ALL
| St_WARN_ABORTED_BY_USER.

Record put_out := {
  po_status : status;
  po_info : option put_info;       (* inserted_node_info, when an insert happened *)
  po_retired : list N;           (* value ids handed to the gc (overwrite) *)
}.

(** put (interface_put.h), quiescent: walk the layers along the key *)
Fixpoint put_walk (ts : list ktuple) (p : prefix) (ls : layers_t) (v : value) (unique : bool) (ctr : N)
  : option (layers_t * put_out * N) :=
  match ts with
  | [] => None
  | t :: rest =>
    match layer_get ls p with
    | None => None
    | Some root =>
      match find_leaf root t with
      | None => None
      | Some l =>
        match leaf_lookup l t with
        | None =>
          (* insert here; a long key continues in fresh layers *)
          let lv := match rest with [] => LValue v | _ => LLink end in
          match layer_put root t lv ctr with
          | None => None
          | Some (root', info, ctr1) =>
            let '(ls2, ctr2) := new_chain (p ++ [ks t]) rest v ctr1 (layer_set ls p root') in
            Some (ls2, {| po_status := St_OK; po_info := Some info; po_retired := [] |}, ctr2)
          end
        | Some (_, slot, s) =>
          match rest with
          | [] =>
            if unique
            then Some (ls, {| po_status := St_WARN_UNIQUE_RESTRICTION; po_info := None; po_retired := [] |}, ctr)
            else
              let old := match sl_lv s with
                         | LValue ov => if v_inline ov then [] else [v_id ov]
                         | _ => [] end in
              let root' := update_leaf root t (fun l0 =>
                             leaf_with l0 (lf_ver l0) (lf_perm l0)
                                       (set_nth (N.to_nat slot) {| sl_key := sl_key s; sl_lv := LValue v |}
                                                (lf_slots l0))) in
              Some (layer_set ls p root',
                    {| po_status := St_OK; po_info := None; po_retired := old |}, ctr)
          | _ => put_walk rest (p ++ [ks t]) ls v unique ctr
          end
        end
      end
    end
  end.

(** put with a null root pointer: a fresh root border holding the key (CAS path) *)
Definition put (tr : tree) (k : key) (v : value) (unique : bool) (ctr : N)
  : option (tree * put_out * N) :=
  if t_null tr then
    let ts := path_of_key k in
    let '(ls, ctr') := new_chain [] ts v ctr [] in
    Some ({| t_layers := ls; t_null := false |},
          {| po_status := St_OK; po_info := Some {| pi_modified := ctr; pi_created := None |};
             po_retired := [] |}, ctr')
  else
    match put_walk (path_of_key k) [] (t_layers tr) v unique ctr with
    | None => None
    | Some (ls, o, c) => Some ({| t_layers := ls; t_null := false |}, o, c)
    end.

Record get_out := {
  go_status : status;
  go_value : option value;
  go_checked : option (N * N);   (* (border id, version) on a miss *)
}.

Fixpoint get_walk (ts : list ktuple) (p : prefix) (ls : layers_t) : option get_out :=
  match ts with
  | [] => None
  | t :: rest =>
    match layer_get ls p with
    | None => None
    | Some root =>
      match find_leaf root t with
      | None => None
      | Some l =>
        match leaf_lookup l t with
        | None => Some {| go_status := St_WARN_NOT_EXIST; go_value := None;
                          go_checked := Some (lf_id l, lf_ver l) |}
        | Some (_, _, s) =>
          match rest, sl_lv s with
          | [], LValue v => Some {| go_status := St_OK; go_value := Some v; go_checked := None |}
          | [], _ => None
          | _, _ => get_walk rest (p ++ [ks t]) ls
          end
        end
      end
    end
  end.

Definition get (tr : tree) (k : key) : option get_out :=
  if t_null tr then Some {| go_status := St_WARN_NOT_EXIST; go_value := None; go_checked := None |}
  else get_walk (path_of_key k) [] (t_layers tr).

(** remove: delete in the last layer, then cascade the removal of emptied layers upwards *)
Record rem_out := {
  ro_status : status;
  ro_retired_values : list N;
  ro_retired_nodes : list N;
}.

Definition set_root_flag (t : bt) (b : bool) : bt := bt_set_ver t (set_root (bt_ver t) b).

(** delete tuple [t] from the layer at [p]; returns the new layers and whether the layer vanished *)
Definition layer_remove (ls : layers_t) (p : prefix) (t : ktuple) : option (layers_t * bool * list N) :=
  match layer_get ls p with
  | None => None
  | Some root =>
    match bt_delete (S (bt_height root)) root t with
    | None => None
    | Some (DKept root', ret) =>
      let root'' := if N.eqb (bt_id root') (bt_id root) then root' else set_root_flag root' true in
      Some (layer_set ls p root'', false, ret)
    | Some (DGone, ret) =>
      match p with
      | [] =>
        (* the layer-0 root border stays, empty and marked deleted *)
        match root with
        | BLeaf l =>
          match leaf_lookup l t with
          | None => None
          | Some (rank, slot, _) =>
            let l' := leaf_delete l rank slot in
            Some (layer_set ls p (BLeaf (leaf_with l' (set_deleted (lf_ver l') true) (lf_perm l') (lf_slots l'))),
                  false, [])
          end
        | _ => None
        end
      | _ => Some (layer_del ls p, true, ret)
      end
    end
  end.

Fixpoint remove_last {A} (l : list A) : list A :=
  match l with
  | [] => []
  | [_] => []
  | a :: r => a :: remove_last r
  end.

(** cascade: the layer at [p] vanished, so delete its link (last p, 9) from the layer above *)
Fixpoint cascade (fuel : nat) (ls : layers_t) (p : prefix) (ret : list N) : option (layers_t * list N) :=
  match fuel with
  | O => None
  | S f =>
    match rev p with
    | [] => Some (ls, ret)
    | s :: _ =>
      let up := remove_last p in
      match layer_remove ls up {| ks := s; kl := 9 |} with
      | None => None
      | Some (ls', gone, ret') =>
        if gone then cascade f ls' up (ret ++ ret') else Some (ls', ret ++ ret')
      end
    end
  end.

Fixpoint remove_walk (ts : list ktuple) (p : prefix) (ls : layers_t) : option (layers_t * rem_out) :=
  match ts with
  | [] => None
  | t :: rest =>
    match layer_get ls p with
    | None => None
    | Some root =>
      match find_leaf root t with
      | None => None
      | Some l =>
        match leaf_lookup l t with
        | None => Some (ls, {| ro_status := St_OK_NOT_FOUND; ro_retired_values := []; ro_retired_nodes := [] |})
        | Some (_, _, s) =>
          match rest with
          | [] =>
            let rv := match sl_lv s with
                      | LValue v => if v_inline v then [] else [v_id v]
                      | _ => [] end in
            match layer_remove ls p t with
            | None => None
            | Some (ls', gone, ret) =>
              if gone then
                match cascade (S (length p)) ls' p ret with
                | None => None
                | Some (ls'', ret') =>
                  Some (ls'', {| ro_status := St_OK; ro_retired_values := rv; ro_retired_nodes := ret' |})
                end
              else Some (ls', {| ro_status := St_OK; ro_retired_values := rv; ro_retired_nodes := ret |})
            end
          | _ => remove_walk rest (p ++ [ks t]) ls
          end
        end
      end
    end
  end.

Definition remove (tr : tree) (k : key) : option (tree * rem_out) :=
  if t_null tr then Some (tr, {| ro_status := St_OK_ROOT_IS_NULL; ro_retired_values := []; ro_retired_nodes := [] |})
  else match remove_walk (path_of_key k) [] (t_layers tr) with
       | None => None
       | Some (ls, o) => Some ({| t_layers := ls; t_null := false |}, o)
       end.

(** an empty user storage: create_storage's root border (init_border(): vinsert 0, root, border) *)
Definition empty_tree (id : N) : tree :=
  {| t_layers := [([], BLeaf {| lf_id := id; lf_ver := v_fresh_border true; lf_perm := 0;
                                lf_slots := fresh_slots |})];
     t_null := false |}.
Definition null_tree : tree := {| t_layers := []; t_null := true |}.
