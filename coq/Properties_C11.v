(** * C11 -- everything allocated is released: no leak through any operation history.

    Model-level accounting (proved for one layer, _partial): an insert never loses a
    node and creates only nodes with fresh ids; a delete hands every node that leaves
    the tree to the garbage collector exactly once (the ids of the old tree are a
    permutation of the retired ids plus the ids of the new tree, without duplicates).
    The balance over whole init..fin histories -- incl. delete_storage, destroy,
    failed create_storage, overwritten values -- is tied to the real allocator
    (operator new/delete interposition) on every run: per-operation allocation and
    release counts predicted by the model, zero balance after fin(). *)
From Coq Require Import NArith List Permutation.
From Yk Require Import ListAux KeyDefs KeyProofs TreeDefs LeafProofs LayerProofs.
Import ListNotations.
Local Open Scope N_scope.

Theorem C11_insert_loses_nothing_partial : forall k lv fuel t lo hi ctr,
  WF_bt lo hi t -> kt_wf k = true -> in_bnd lo hi k -> ~ In k (bt_keys t) ->
  entry_ok {| sl_key := k; sl_lv := lv |} -> (bt_height t < fuel)%nat ->
  exists res info ctr' nw,
    bt_put fuel t k lv ctr = Some (res, info, ctr') /\
    ires_ok lo hi res /\
    (exists A B, bt_elems t = A ++ B /\ ires_elems res = A ++ {| sl_key := k; sl_lv := lv |} :: B) /\
    Permutation (ires_ids res) (nw ++ bt_ids t) /\ NoDup nw /\
    (forall i, In i nw -> ctr <= i /\ i < ctr') /\ ctr < ctr' /\
    In (pi_modified info) (bt_ids t) /\
    match pi_created info with
    | Some c => c = ctr /\ In c nw
    | None => nw = [] /\ exists t', res = IOne t'
    end.
Proof. exact bt_put_spec. Qed.
Print Assumptions C11_insert_loses_nothing_partial.

Theorem C11_delete_retires_exactly_once_partial : forall k fuel t lo hi res ret,
  WF_bt lo hi t -> NoDup (bt_ids t) -> kt_wf k = true -> In k (bt_keys t) -> (bt_height t < fuel)%nat ->
  bt_delete fuel t k = Some (res, ret) ->
  NoDup (dres_ids res) /\ NoDup ret /\ incl (dres_ids res) (bt_ids t) /\ incl ret (bt_ids t) /\
  (forall x, In x ret -> ~ In x (dres_ids res)) /\
  (forall x, In x (bt_ids t) -> In x ret \/ In x (dres_ids res)).
Proof. exact bt_delete_ids. Qed.
Print Assumptions C11_delete_retires_exactly_once_partial.

(** ** Store and system level (AccountingProofs): every id taken from the counter is exactly one of reachable,
    released (retired) once, or never materialised; nothing released is still reachable; after destroy nothing is
    reachable.  [sys_allocs] = node ids and out-of-line value ids reachable from the outer tree and all user trees;
    [released_all] = everything handed to the gc or released at once (delete_storage, destroy), in order. *)
From Yk Require Import KeyProofs TreeDefs StoreProofs SysDefs SysProofs AccountingProofs.

Theorem C11_no_leak_no_double_release : forall ops, Forall op_bytes ops ->
  let s' := fst (exec_all sys_init ops) in
  SAcc s' /\ NoDup (sys_allocs s' ++ released_all sys_init ops) /\
  (forall i, In i (sys_allocs s' ++ released_all sys_init ops) -> 1 <= i < sy_ctr s').
Proof. exact sys_history_accounting. Qed.
Print Assumptions C11_no_leak_no_double_release.

(** one step: what is reachable afterwards together with what the operation released is exactly what was reachable
    before plus fresh ids from the counter *)
Theorem C11_step_accounting : forall s o, SAcc s -> op_bytes o -> exec_post s o.
Proof. exact exec_accounting. Qed.
Print Assumptions C11_step_accounting.

Theorem C11_destroy_zero_balance : forall ops, Forall op_bytes ops ->
  sys_allocs (fst (exec_all sys_init (ops ++ [ODestroy]))) = [].
Proof. exact sys_destroy_zero_balance. Qed.
Print Assumptions C11_destroy_zero_balance.

(** a failed unique insert (and an inline value) leaves its speculatively taken value id neither reachable nor retired,
    and changes nothing else *)
Theorem C11_failed_put_releases : forall c tr k bs al u il tr' po c',
  WF_store c tr -> alloc_ok c tr -> bytes k ->
  put tr k (mk_value c bs al il) u (c + 1) = Some (tr', po, c') ->
  (il = false /\ po_status po = St_OK -> In c (store_allocs tr')) /\
  (il = true \/ po_status po <> St_OK -> ~ In c (store_allocs tr' ++ po_retired po)) /\
  (po_status po <> St_OK -> tr' = tr /\ po_retired po = [] /\ c' = c + 1).
Proof. exact put_value_fate. Qed.
Print Assumptions C11_failed_put_releases.
