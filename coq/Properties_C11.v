(** * C11 -- everything allocated is released: no leak through any operation history.

    Model-level accounting (proved for one layer, _partial): an insert never loses a
    node and creates only nodes with fresh ids; a delete hands every node that leaves
    the tree to the garbage collector exactly once (the ids of the old tree are a
    permutation of the retired ids plus the ids of the new tree, without duplicates).
    The balance over whole init..fin histories -- incl. delete_storage, destroy,
    failed create_storage, overwritten values -- is tied to the real allocator
    (operator new/delete interposition) on every run: per-operation allocation and
    release counts predicted by the model, zero balance after fin(). *)
From Coq Require Import NArith List Permutation.
From Yk Require Import ListAux KeyDefs KeyProofs TreeDefs LeafProofs LayerProofs.
Import ListNotations.
Local Open Scope N_scope.

Theorem C11_insert_loses_nothing_partial : forall k lv fuel t lo hi ctr,
  WF_bt lo hi t -> kt_wf k = true -> in_bnd lo hi k -> ~ In k (bt_keys t) ->
  entry_ok {| sl_key := k; sl_lv := lv |} -> (bt_height t < fuel)%nat ->
  exists res info ctr' nw,
    bt_put fuel t k lv ctr = Some (res, info, ctr') /\
    ires_ok lo hi res /\
    (exists A B, bt_elems t = A ++ B /\ ires_elems res = A ++ {| sl_key := k; sl_lv := lv |} :: B) /\
    Permutation (ires_ids res) (nw ++ bt_ids t) /\ NoDup nw /\
    (forall i, In i nw -> ctr <= i /\ i < ctr') /\ ctr < ctr' /\
    In (pi_modified info) (bt_ids t) /\
    match pi_created info with
    | Some c => c = ctr /\ In c nw
    | None => nw = [] /\ exists t', res = IOne t'
    end.
Proof. exact bt_put_spec. Qed.
Print Assumptions C11_insert_loses_nothing_partial.

Theorem C11_delete_retires_exactly_once_partial : forall k fuel t lo hi res ret,
  WF_bt lo hi t -> NoDup (bt_ids t) -> kt_wf k = true -> In k (bt_keys t) -> (bt_height t < fuel)%nat ->
  bt_delete fuel t k = Some (res, ret) ->
  NoDup (dres_ids res) /\ NoDup ret /\ incl (dres_ids res) (bt_ids t) /\ incl ret (bt_ids t) /\
  (forall x, In x ret -> ~ In x (dres_ids res)) /\
  (forall x, In x (bt_ids t) -> In x ret \/ In x (dres_ids res)).
Proof. exact bt_delete_ids. Qed.
Print Assumptions C11_delete_retires_exactly_once_partial.
