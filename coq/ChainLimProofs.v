(** * ChainLimProofs: the size-limited forward scan and the right-to-left scan (model: ChainLimDefs.v)

    Route.  The embedded layer evolves by writer events only, so [WF] and the writer description [wtrans] of
    ChainProofs apply to the projection [pjx s sc] (the layer of [s], the ghosts of [s], any scanner record [sc]).
    A reachable state is in one of three regimes:
      - F   forward scan that has not been cut by the limit: its projection [pj s] is a state of the unlimited
            scanner of ChainDefs, every step of it is a step of [cstep true], so InvA / InvB / InvC hold verbatim;
      - Cut forward scan that ended because the limit was reached: the projection with the UNTRUNCATED result [G]
            of the last border (and an idle program counter) satisfies InvA / InvB / InvC, the delivered list is
            [firstn max G];
      - R   right-to-left scan: one border (the last live one), a small invariant of its own.

    A remove does not change the version word of its border (ChainDefs): a validated snapshot is a SUPERSET of the
    keys its border has at the validation and later, as long as the version stays the same.  Consequently the
    phantom clause (L4) is: every current key of the covered part of the interval is in the result (forward), resp.
    not above the delivered key (right-to-left); the result is exactly the expected one when no remove happened
    since the invocation; the exact form without that hypothesis is refuted. *)
From Coq Require Import NArith List Bool Lia PeanoNat.
From Yk Require Import ChainDefs ChainProofs ChainLimDefs.
Import ListNotations.
Local Open Scope N_scope.

(** ** 0. the evaluated facts *)
Example lim_nonvacuous :
  lres [[10; 12]; [20; 30; 40]] lim_trace =
  Some (CDone, [10; 12; 20], 0,
        [(0, {| cv_ins := 0; cv_split := 0; cv_del := false |});
         (1, {| cv_ins := 1; cv_split := 0; cv_del := false |})]).
Proof. vm_compute. reflexivity. Qed.

Example rtl_nonvacuous :
  lres [[10; 12]; [20; 30; 40]] rtl_trace =
  Some (CDone, [50], 1, [(2, {| cv_ins := 1; cv_split := 0; cv_del := false |})]).
Proof. vm_compute. reflexivity. Qed.

(** ** 1. projection to the unlimited scanner's state space *)
Definition cs (sc : lscan) : cscan :=
  {| sc_pc := ls_pc sc; sc_l := ls_l sc; sc_r := ls_r sc; sc_cur := ls_cur sc; sc_v := ls_v sc;
     sc_snap := ls_snap sc; sc_nxt := ls_nxt sc; sc_nv := ls_nv sc; sc_res := ls_res sc;
     sc_nvset := ls_nvset sc; sc_restarts := ls_restarts sc |}.
Definition pjx (s : lstate) (sc : cscan) : cstate :=
  {| c_nodes := c_nodes (l_c s); c_fresh := c_fresh (l_c s); c_scan := sc;
     c_stable := l_stable s; c_ever := l_ever s |}.
Definition pj (s : lstate) : cstate := pjx s (cs (l_scan s)).

Lemma scanning_cs sc : scanning (cs sc) = lscanning sc.
Proof. reflexivity. Qed.

Lemma lrun_inv (P : lstate -> Prop) :
  (forall s e s', P s -> lstep s e = Some s' -> P s') ->
  forall evs s s', P s -> lrun s evs = Some s' -> P s'.
Proof.
  intros Hstep. induction evs as [|e evs IH]; intros s s' HP; cbn [lrun].
  - intros H. injection H as <-. exact HP.
  - destruct (lstep s e) as [s1|] eqn:E; [|discriminate]. intros H. eapply IH; [|exact H].
    eapply Hstep; eauto.
Qed.

(** a writer event of the embedding is the same writer event on any projection *)
Lemma lw_sim s w s' sc :
  lstep s (LW w) = Some s' -> scanning sc = lscanning (l_scan s) ->
  writer w = true /\ cstep true (pjx s sc) w = Some (pjx s' sc) /\ l_scan s' = l_scan s.
Proof.
  cbn [lstep]. intros H Hsc. destruct (lwriter w) eqn:Hw; [|discriminate].
  destruct (cstep true (l_c s) w) as [c'|] eqn:E; [|discriminate]. injection H as <-.
  split; [destruct w; try discriminate; reflexivity|]. split; [|reflexivity].
  destruct w; try discriminate.
  - apply cstep_ins in E as (n&Hk&Hc&->). cbn [cstep pjx c_nodes c_fresh c_scan c_stable c_ever].
    apply mem_false in Hk. rewrite Hk, Hc, Hsc. reflexivity.
  - apply cstep_rem in E as (n&Hk&Hc&->). cbn [cstep pjx c_nodes c_fresh c_scan c_stable c_ever].
    apply mem_true in Hk. rewrite Hk, Hc. reflexivity.
  - unfold cstep in E |- *. cbn [pjx c_nodes c_fresh c_scan c_stable c_ever] in *.
    destruct (find_node id (c_nodes (l_c s))) as [T|]; [|discriminate].
    destruct (live T && mem m (cn_keys T) && existsb (fun x => x <? m) (cn_keys T)); [|discriminate].
    injection E as <-. reflexivity.
  - unfold cstep in E |- *. cbn [pjx c_nodes c_fresh c_scan c_stable c_ever] in *.
    destruct (find_node id (c_nodes (l_c s))) as [U|]; [|discriminate].
    destruct (live U && match cn_keys U with [] => true | _ :: _ => false end); [|discriminate].
    destruct absorb_right.
    + destruct (first_live (after id (c_nodes (l_c s)))) as [NX|]; [|discriminate]. injection E as <-. reflexivity.
    + destruct (has_live (before id (c_nodes (l_c s)))); [|discriminate]. injection E as <-. reflexivity.
Qed.

Lemma lw_wtrans s w s' sc :
  WF (c_nodes (l_c s)) (c_fresh (l_c s)) ->
  lstep s (LW w) = Some s' -> scanning sc = lscanning (l_scan s) ->
  wtrans (pjx s sc) (pjx s' sc) /\ WF (c_nodes (l_c s')) (c_fresh (l_c s')) /\ l_scan s' = l_scan s.
Proof.
  intros W H Hsc. destruct (lw_sim _ _ _ _ H Hsc) as (Hw&Hc&Hl).
  split; [eapply writer_shape; eauto|]. split; [|exact Hl].
  exact (WF_step true (pjx s sc) w (pjx s' sc) W Hc).
Qed.

(** ** 2. the scanner steps *)
Definition lrestart (l : N) (r : option N) (mx : nat) (rtl : bool) (rs : N) (n : cnode) : lscan :=
  {| ls_pc := CRead; ls_l := l; ls_r := r; ls_max := mx; ls_rtl := rtl; ls_cur := cn_id n; ls_v := cn_ver n;
     ls_snap := []; ls_nxt := None; ls_nv := cver0; ls_res := []; ls_nvset := []; ls_restarts := rs |}.
Definition ls_read (sc : lscan) (n : cnode) : lscan :=
  {| ls_pc := CNextVer; ls_l := ls_l sc; ls_r := ls_r sc; ls_max := ls_max sc; ls_rtl := ls_rtl sc;
     ls_cur := ls_cur sc; ls_v := ls_v sc; ls_snap := cn_keys n; ls_nxt := cn_next n; ls_nv := ls_nv sc;
     ls_res := ls_res sc; ls_nvset := ls_nvset sc; ls_restarts := ls_restarts sc |}.
Definition ls_nextver (sc : lscan) (nv : cver) : lscan :=
  {| ls_pc := CValidate; ls_l := ls_l sc; ls_r := ls_r sc; ls_max := ls_max sc; ls_rtl := ls_rtl sc;
     ls_cur := ls_cur sc; ls_v := ls_v sc; ls_snap := ls_snap sc; ls_nxt := ls_nxt sc; ls_nv := nv;
     ls_res := ls_res sc; ls_nvset := ls_nvset sc; ls_restarts := ls_restarts sc |}.
Definition ls_fin (sc : lscan) (res' : list N) : lscan :=
  {| ls_pc := CDone; ls_l := ls_l sc; ls_r := ls_r sc; ls_max := ls_max sc; ls_rtl := ls_rtl sc;
     ls_cur := ls_cur sc; ls_v := ls_v sc; ls_snap := []; ls_nxt := None; ls_nv := cver0;
     ls_res := res'; ls_nvset := ls_nvset sc ++ [(ls_cur sc, ls_v sc)]; ls_restarts := ls_restarts sc |}.
Definition ls_adv (sc : lscan) (res' : list N) (nx : N) : lscan :=
  {| ls_pc := CRead; ls_l := ls_l sc; ls_r := ls_r sc; ls_max := ls_max sc; ls_rtl := false;
     ls_cur := nx; ls_v := ls_nv sc; ls_snap := []; ls_nxt := None; ls_nv := cver0;
     ls_res := res'; ls_nvset := ls_nvset sc ++ [(ls_cur sc, ls_v sc)]; ls_restarts := ls_restarts sc |}.
Definition ls_reread (sc : lscan) (w : cver) : lscan :=
  {| ls_pc := CRead; ls_l := ls_l sc; ls_r := ls_r sc; ls_max := ls_max sc; ls_rtl := ls_rtl sc;
     ls_cur := ls_cur sc; ls_v := w; ls_snap := []; ls_nxt := None; ls_nv := cver0;
     ls_res := ls_res sc; ls_nvset := ls_nvset sc; ls_restarts := ls_restarts sc |}.

(** the greatest element >= l of a list *)
Definition gr (l : N) (K : list N) : list N :=
  match rev (filter (fun k => l <=? k) K) with [] => [] | k :: _ => [k] end.
Definition linr (sc : lscan) : list N :=
  filter (fun k => le_r k (ls_r sc)) (filter (fun k => ls_l sc <=? k) (ls_snap sc)).
Definition ltake (sc : lscan) : list N :=
  if Nat.eqb (ls_max sc) 0 then linr sc else firstn (ls_max sc - length (ls_res sc)) (linr sc).
Definition lfull (sc : lscan) : bool :=
  negb (Nat.eqb (ls_max sc) 0) && Nat.leb (ls_max sc) (length (ls_res sc ++ ltake sc)).

Lemma lstart_inv ns l r mx rtl rs sc' :
  lstart ns l r mx rtl rs = Some sc' ->
  exists n, (if rtl then last_live None ns else cover l ns) = Some n /\ sc' = lrestart l r mx rtl rs n.
Proof.
  unfold lstart. destruct (if rtl then last_live None ns else cover l ns) as [n|]; [|discriminate].
  intros H. injection H as <-. exists n. split; reflexivity.
Qed.

Lemma lstep_begin s l r mx rtl s' :
  lstep s (LBegin l r mx rtl) = Some s' ->
  ls_pc (l_scan s) = CIdle /\ (rtl = true -> mx = 1%nat /\ r = None) /\
  exists n, (if rtl then last_live None (c_nodes (l_c s)) else cover l (c_nodes (l_c s))) = Some n /\
    s' = {| l_c := l_c s; l_scan := lrestart l r mx rtl 0 n;
            l_stable := all_keys (c_nodes (l_c s)); l_ever := all_keys (c_nodes (l_c s)) |}.
Proof.
  cbn [lstep]. destruct (ls_pc (l_scan s)); try discriminate.
  destruct (rtl && negb (Nat.eqb mx 1 && match r with None => true | Some _ => false end)) eqn:G; [discriminate|].
  destruct (lstart _ _ _ _ _ _) as [sc'|] eqn:E; [|discriminate].
  apply lstart_inv in E as (n&Hn&->). intros H. injection H as <-.
  split; [reflexivity|]. split.
  - intros ->. cbn [andb] in G. apply negb_false_iff in G. apply andb_true_iff in G as [G1 G2].
    apply Nat.eqb_eq in G1. destruct r; [discriminate|]. auto.
  - exists n. auto.
Qed.

Lemma lstep_read s s' :
  lstep s LRead = Some s' ->
  ls_pc (l_scan s) = CRead /\ exists c, find_node (ls_cur (l_scan s)) (c_nodes (l_c s)) = Some c /\
  s' = set_lscan s (ls_read (l_scan s) c).
Proof.
  cbn [lstep]. destruct (ls_pc (l_scan s)); try discriminate.
  destruct (find_node _ _) as [c|]; [|discriminate]. intros H. injection H as <-.
  split; [reflexivity|]. exists c. auto.
Qed.

Lemma lstep_nextver s s' :
  lstep s LNextVer = Some s' ->
  ls_pc (l_scan s) = CNextVer /\
  s' = set_lscan s (ls_nextver (l_scan s)
         match ls_nxt (l_scan s) with
         | Some id => match find_node id (c_nodes (l_c s)) with Some n => cn_ver n | None => cver0 end
         | None => cver0 end).
Proof.
  cbn [lstep]. destruct (ls_pc (l_scan s)); try discriminate. intros H. injection H as <-. auto.
Qed.

(** reading and loading the next version are steps of the unlimited scanner *)
Lemma lread_sim s s' : lstep s LRead = Some s' -> cstep true (pj s) ERead = Some (pj s').
Proof.
  intros H. apply lstep_read in H as (Hpc&c&Hf&->).
  cbn [cstep pj pjx cs c_scan c_nodes sc_pc sc_cur]. rewrite Hpc, Hf. reflexivity.
Qed.
Lemma lnextver_sim s s' : lstep s LNextVer = Some s' -> cstep true (pj s) ENextVer = Some (pj s').
Proof.
  intros H. apply lstep_nextver in H as (Hpc&->).
  cbn [cstep pj pjx cs c_scan c_nodes sc_pc sc_cur]. rewrite Hpc. reflexivity.
Qed.
Lemma lbegin_sim s l r mx s' :
  lstep s (LBegin l r mx false) = Some s' -> cstep true (pj s) (EBegin l r) = Some (pj s').
Proof.
  intros H. apply lstep_begin in H as (Hpc&_&n&Hn&->).
  cbn [cstep pj pjx cs c_scan c_nodes sc_pc sc_cur]. rewrite Hpc. unfold start_scan. rewrite Hn. reflexivity.
Qed.

Lemma lvalidate_rtl s s' :
  lstep s LValidate = Some s' -> ls_rtl (l_scan s) = true ->
  let sc := l_scan s in
  ls_pc sc = CValidate /\ exists c, find_node (ls_cur sc) (c_nodes (l_c s)) = Some c /\
  ((exists n, last_live None (c_nodes (l_c s)) = Some n /\
      s' = set_lscan s (lrestart (ls_l sc) (ls_r sc) (ls_max sc) true (ls_restarts sc + 1) n)) \/
   (cn_ver c = ls_v sc /\ s' = set_lscan s (ls_fin sc (gr (ls_l sc) (ls_snap sc)))) \/
   (cn_ver c <> ls_v sc /\ cv_del (cn_ver c) = false /\ cv_split (cn_ver c) = cv_split (ls_v sc) /\
    s' = set_lscan s (ls_reread sc (cn_ver c)))).
Proof.
  cbn [lstep]. cbv zeta. intros H Hr. destruct (ls_pc (l_scan s)); try discriminate.
  destruct (find_node _ _) as [c|]; [|discriminate]. split; [reflexivity|]. exists c.
  split; [reflexivity|]. rewrite Hr in H.
  destruct (cver_eqb (cn_ver c) (ls_v (l_scan s))) eqn:Ev.
  - apply cver_eqb_eq in Ev. right. left. injection H as <-. split; [exact Ev|].
    unfold ls_fin. rewrite Hr. reflexivity.
  - destruct (negb (cv_split (cn_ver c) =? cv_split (ls_v (l_scan s))) || cv_del (cn_ver c)) eqn:Eo.
    + left. destruct (lstart _ _ _ _ _ _) as [sc'|] eqn:E; [|discriminate].
      apply lstart_inv in E as (n&Hn&->). injection H as <-. exists n. auto.
    + right. right. apply orb_false_iff in Eo as [Eo1 Eo]. injection H as <-.
      apply negb_false_iff, N.eqb_eq in Eo1.
      split; [|split; [exact Eo|split; [exact Eo1|unfold ls_reread; rewrite Hr; reflexivity]]]. intros E. rewrite E in Ev.
      assert (cver_eqb (ls_v (l_scan s)) (ls_v (l_scan s)) = true) by (apply cver_eqb_eq; reflexivity).
      congruence.
Qed.

Lemma firstn_all_le {A} n (l : list A) : (length l <= n)%nat -> firstn n l = l.
Proof. apply firstn_all2. Qed.

Lemma ltake_notfull sc :
  (ls_max sc <> 0%nat -> (length (ls_res sc) < ls_max sc)%nat) -> lfull sc = false -> ltake sc = linr sc.
Proof.
  unfold lfull, ltake. intros Hlen. destruct (Nat.eqb_spec (ls_max sc) 0) as [E|E]; [reflexivity|].
  cbn [negb andb]. intros H. apply Nat.leb_gt in H. rewrite app_length in H. specialize (Hlen E).
  destruct (Nat.le_gt_cases (length (linr sc)) (ls_max sc - length (ls_res sc))) as [Hle|Hgt].
  - apply firstn_all2, Hle.
  - rewrite firstn_length_le in H by lia. lia.
Qed.

Lemma lvalidate_fwd s s' :
  lstep s LValidate = Some s' -> ls_rtl (l_scan s) = false ->
  (ls_max (l_scan s) <> 0%nat -> (length (ls_res (l_scan s)) < ls_max (l_scan s))%nat) ->
  let sc := l_scan s in
  ls_pc sc = CValidate /\
  ((exists c, find_node (ls_cur sc) (c_nodes (l_c s)) = Some c /\ cn_ver c = ls_v sc /\
      stale (cs sc) = false /\ lfull sc = true /\ s' = set_lscan s (ls_fin sc (ls_res sc ++ ltake sc))) \/
   (cstep true (pj s) EValidate = Some (pj s') /\
    ls_rtl (l_scan s') = false /\ ls_max (l_scan s') = ls_max sc /\
    ((ls_res (l_scan s') = [] /\ ls_pc (l_scan s') = CRead) \/
     (ls_res (l_scan s') = ls_res sc /\ ls_pc (l_scan s') = CRead) \/
     (ls_res (l_scan s') = ls_res sc ++ ltake sc /\ lfull sc = false)))).
Proof.
  intros H Hr Hlen. cbv zeta. unfold lstep in H. cbv zeta in H.
  destruct (ls_pc (l_scan s)) eqn:Hpc; try discriminate.
  destruct (find_node (ls_cur (l_scan s)) (c_nodes (l_c s))) as [c|] eqn:Hf; [|discriminate].
  split; [reflexivity|]. rewrite Hr in H.
  set (sc := l_scan s) in *.
  set (LRS := match lstart (c_nodes (l_c s)) (ls_l sc) (ls_r sc) (ls_max sc) false (ls_restarts sc + 1) with
              | Some sc' => Some (set_lscan s sc') | None => None end) in *.
  set (CRS := match start_scan (c_nodes (l_c s)) (ls_l sc) (ls_r sc) (ls_restarts sc + 1) with
              | Some sc' => Some (set_scan (pj s) sc') | None => None end).
  assert (Hrs : forall x, LRS = Some x ->
            CRS = Some (pj x) /\ ls_rtl (l_scan x) = false /\ ls_max (l_scan x) = ls_max sc /\
            ls_res (l_scan x) = [] /\ ls_pc (l_scan x) = CRead).
  { intros x. subst LRS CRS. unfold lstart, start_scan. destruct (cover _ _) as [n|]; [|discriminate].
    intros Hx. injection Hx as <-. repeat split. }
  assert (H' : (if cver_eqb (cn_ver c) (ls_v sc)
                then if stale (cs sc) then LRS
                     else match (if lfull sc || beyond (cs sc) then None else ls_nxt sc) with
                          | None => Some (set_lscan s (ls_fin sc (ls_res sc ++ ltake sc)))
                          | Some nx => Some (set_lscan s (ls_adv sc (ls_res sc ++ ltake sc) nx))
                          end
                else if negb (cv_split (cn_ver c) =? cv_split (ls_v sc)) || cv_del (cn_ver c) then LRS
                     else Some (set_lscan s (ls_reread sc (cn_ver c)))) = Some s').
  { rewrite <- H. unfold ls_fin, ls_reread. rewrite Hr. reflexivity. }
  clear H.
  assert (Hc : cstep true (pj s) EValidate =
               (if cver_eqb (cn_ver c) (ls_v sc)
                then if stale (cs sc) then CRS
                     else match (if beyond (cs sc) then None else ls_nxt sc) with
                          | None => Some (set_scan (pj s) (sc_done (cs sc)))
                          | Some nx => Some (set_scan (pj s) (sc_adv (cs sc) nx))
                          end
                else if negb (cv_split (cn_ver c) =? cv_split (ls_v sc)) || cv_del (cn_ver c) then CRS
                     else Some (set_scan (pj s) (sc_reread (cs sc) (cn_ver c))))).
  { unfold cstep. cbv zeta.
    cbn [pj pjx cs c_scan c_nodes sc_pc sc_cur]. fold sc. rewrite Hpc, Hf. reflexivity. }
  rewrite Hc. clear Hc.
  destruct (cver_eqb (cn_ver c) (ls_v sc)) eqn:Ev.
  - destruct (stale (cs sc)) eqn:Est.
    + right. destruct (Hrs _ H') as (H1&H2&H3&H4&H5). repeat split; auto.
    + destruct (lfull sc) eqn:Efull.
      * left. cbn [orb] in H'. injection H' as <-. exists c. apply cver_eqb_eq in Ev. repeat split; auto.
      * right. cbn [orb] in H'. pose proof (ltake_notfull _ Hlen Efull) as Et.
        assert (Ed : deliver_res (cs sc) = ls_res sc ++ ltake sc) by (rewrite Et; reflexivity).
        destruct (beyond (cs sc)).
        -- injection H' as <-. unfold sc_done. rewrite Ed. repeat split; auto.
        -- destruct (ls_nxt sc) as [nx|]; injection H' as <-; unfold sc_done, sc_adv; rewrite Ed; repeat split; auto.
  - destruct (negb (cv_split (cn_ver c) =? cv_split (ls_v sc)) || cv_del (cn_ver c)) eqn:Eo.
    + right. destruct (Hrs _ H') as (H1&H2&H3&H4&H5). repeat split; auto.
    + right. injection H' as <-. repeat split; auto.
Qed.

(** ** 3. auxiliary list facts *)
Lemma sorted_firstn n l : sorted_strict l = true -> sorted_strict (firstn n l) = true.
Proof. intros H. rewrite <- (firstn_skipn n l) in H. apply sorted_app in H. apply H. Qed.
Lemma in_firstn {A} n (l : list A) x : In x (firstn n l) -> In x l.
Proof. intros H. rewrite <- (firstn_skipn n l). apply in_or_app. left. exact H. Qed.
Lemma sorted_prefix_le n l k d :
  sorted_strict l = true -> In k l -> last_key (firstn n l) = Some d -> k <= d -> In k (firstn n l).
Proof.
  intros Hs Hk Hl Hle. rewrite <- (firstn_skipn n l) in Hs, Hk. apply sorted_app in Hs as (_&_&Hs).
  apply in_app_or in Hk as [Hk|Hk]; [exact Hk|]. exfalso.
  apply last_key_some in Hl as (l'&El).
  assert (Hd : In d (firstn n l)) by (rewrite El; apply in_or_app; right; left; reflexivity).
  specialize (Hs d k Hd Hk). lia.
Qed.

Lemma gr_nil l : gr l [] = [].
Proof. reflexivity. Qed.
Lemma gr_cases l K :
  sorted_strict K = true ->
  (gr l K = [] /\ forall x, In x K -> x < l) \/
  (exists d, gr l K = [d] /\ In d K /\ l <= d /\ forall x, In x K -> x <= d).
Proof.
  intros Hs. unfold gr. pose proof (sorted_filter (fun k => l <=? k) K Hs) as HsF.
  assert (HF : forall x, In x K -> l <= x -> In x (filter (fun k => l <=? k) K)).
  { intros x Hx Hl. apply filter_In. split; [exact Hx|]. apply N.leb_le. exact Hl. }
  destruct (rev (filter (fun k => l <=? k) K)) as [|d t] eqn:E.
  - left. split; [reflexivity|]. intros x Hx. destruct (N.lt_ge_cases x l) as [|Hge]; [assumption|].
    apply (f_equal (@rev N)) in E. rewrite rev_involutive in E. cbn in E.
    specialize (HF x Hx Hge). rewrite E in HF. destruct HF.
  - right. exists d. apply (f_equal (@rev N)) in E. rewrite rev_involutive in E. cbn [rev] in E.
    assert (Hd : In d (filter (fun k => l <=? k) K)) by (rewrite E; apply in_or_app; right; left; reflexivity).
    apply filter_In in Hd as [Hd1 Hd2]. apply N.leb_le in Hd2.
    split; [reflexivity|]. split; [exact Hd1|]. split; [exact Hd2|].
    intros x Hx. destruct (N.lt_ge_cases x l) as [|Hge]; [lia|].
    specialize (HF x Hx Hge). rewrite E in HF, HsF. apply sorted_app in HsF as (_&_&HsF).
    apply in_app_or in HF as [HF|[<-|[]]]; [|lia]. specialize (HsF x d HF (or_introl eq_refl)). lia.
Qed.

Lemma gr_app l A K :
  (forall a b, In a A -> In b K -> a < b) -> K <> [] -> gr l (A ++ K) = gr l K.
Proof.
  intros Hlt Hne. unfold gr. rewrite filter_app, rev_app_distr.
  destruct (rev (filter (fun k => l <=? k) K)) as [|d t] eqn:E; [|reflexivity].
  apply (f_equal (@rev N)) in E. rewrite rev_involutive in E. cbn in E. cbn [app].
  destruct K as [|b K']; [contradiction|].
  assert (Hb : b < l).
  { destruct (N.lt_ge_cases b l) as [|Hge]; [assumption|]. exfalso.
    assert (In b (filter (fun k => l <=? k) (b :: K'))).
    { apply filter_In. split; [left; reflexivity|]. apply N.leb_le. exact Hge. }
    rewrite E in H. destruct H. }
  rewrite (filter_none _ A); [reflexivity|]. intros a Ha. apply N.leb_gt.
  specialize (Hlt a b Ha (or_introl eq_refl)). lia.
Qed.

Lemma last_live_dead l : forall best, (forall x, In x l -> live x = false) -> last_live best l = best.
Proof.
  induction l as [|x l IH]; intros best H; [reflexivity|]. cbn [last_live].
  rewrite (H x (or_introl eq_refl)). apply IH. intros y Hy. apply H. right. exact Hy.
Qed.
Lemma last_live_app l1 : forall best n l2,
  live n = true -> (forall x, In x l2 -> live x = false) -> last_live best (l1 ++ n :: l2) = Some n.
Proof.
  induction l1 as [|x l1 IH]; intros best n l2 Ln Hd; cbn [app last_live].
  - rewrite Ln. apply last_live_dead, Hd.
  - destruct (live x); apply IH; assumption.
Qed.
Lemma last_live_spec ns : forall best n,
  last_live best ns = Some n ->
  (best = Some n /\ forall b, In b ns -> live b = false) \/
  (exists l1 l2, ns = l1 ++ n :: l2 /\ live n = true /\ forall b, In b l2 -> live b = false).
Proof.
  induction ns as [|x ns IH]; intros best n; cbn [last_live].
  - intros ->. left. split; [reflexivity|intros ? []].
  - destruct (live x) eqn:Lx; intros H; apply IH in H as [[E Hb]|(l1&l2&->&H1&H2)].
    + injection E as ->. right. exists [], ns. repeat split; auto.
    + right. exists (x :: l1), l2. repeat split; auto.
    + left. split; [exact E|]. intros b [<-|Hin]; auto.
    + right. exists (x :: l1), l2. repeat split; auto.
Qed.

(** after a node that is the last live one, a writer step leaves no live node, unless it splits that node *)
Lemma upd_live_keep t f x : (forall y, live (f y) = live y) -> live (upd t f x) = live x.
Proof. intros H. unfold upd. destruct (_ =? _); auto. Qed.

Lemma writer_last fx s w s' p c :
  WF (c_nodes s) (c_fresh s) -> writer w = true -> cstep fx s w = Some s' ->
  find_node p (c_nodes s) = Some c -> next_ok None (after p (c_nodes s)) ->
  next_ok None (after p (c_nodes s')) \/
  (exists c', find_node p (c_nodes s') = Some c' /\ cv_split (cn_ver c) < cv_split (cn_ver c')).
Proof.
  intros W Hw H Hf Hn. pose proof (wf_nodup _ _ W) as Hnd.
  assert (Hmap : forall g gain lost, wmap (c_nodes s) g gain lost -> c_nodes s' = map g (c_nodes s) ->
                   next_ok None (after p (c_nodes s'))).
  { intros g gain lost Wm E. rewrite E, after_map by apply (g_id _ _ _ _ Wm).
    apply next_ok_map; [apply (g_id _ _ _ _ Wm)| |exact Hn].
    intros x Hx Hd. rewrite (g_dead _ _ _ _ Wm x (in_after _ _ _ Hx) Hd). exact Hd. }
  destruct w; try discriminate.
  - apply cstep_ins in H as (n&Hk&Hc&->). left. eapply Hmap; [eapply wmap_ins; eauto|].
    cbn. apply update_node_map, Hnd.
  - apply cstep_rem in H as (n&Hk&Hc&->). left.
    destruct (cover_spec _ _ _ Hc) as (l1&l2&E&Hl&_).
    assert (Hin : In n (c_nodes s)) by (rewrite E; apply in_or_app; right; left; reflexivity).
    eapply Hmap; [eapply wmap_rem; eauto|]. cbn. apply update_node_map, Hnd.
  - apply cstep_split in H as (T&HfT&LT&Hm&Hx&->). cbn [c_nodes].
    destruct (N.eq_dec p id) as [->|Hne].
    + right. rewrite Hf in HfT. injection HfT as <-.
      destruct (find_node_split _ _ _ Hf) as (l1&l2&E&Hni&Hid). rewrite E.
      rewrite update_node_mid, insert_after_mid by auto.
      exists (split_f m (c_fresh s) c). split; [apply find_node_mid; auto|]. cbn. lia.
    + left. destruct (find_node_In _ _ _ Hf) as [Hin Hid]. destruct (find_node_In _ _ _ HfT) as [HinT HidT].
      rewrite update_node_map by exact Hnd.
      assert (gid : forall x, cn_id (upd id (split_f m (c_fresh s)) x) = cn_id x)
        by (intros x; apply upd_id; reflexivity).
      rewrite after_insert_after;
        [|rewrite ids_map by exact gid; exact Hnd|cbn; pose proof (wf_fresh _ _ W c Hin); lia|exact Hne].
      rewrite after_map by exact gid.
      rewrite insert_after_notin.
      * apply next_ok_map; [exact gid| |exact Hn]. intros x _ Hd.
        rewrite upd_live_keep; [exact Hd|reflexivity].
      * rewrite ids_map by exact gid. intros Hi.
        assert (HT : In T (after p (c_nodes s))).
        { apply (in_ids_find (c_nodes s) id); auto. intros x. apply in_after. }
        pose proof (proj1 (next_ok_none _) Hn T HT) as Hd. rewrite Hd in LT. discriminate.
  - apply cstep_unlink in H as (U&HfU&LU&HK&[(_&NX&Hfl&->)|(_&->)]); left.
    + destruct (L_right_facts _ _ _ _ _ W HfU LU Hfl) as (A1&A2&A3&A4).
      apply (Hmap (unl_g id (cn_next U) (upd (cn_id NX) (lo_f (cn_lo U)))) (fun _ => False) (fun _ => False));
        [eapply wmap_unlink; eauto|cbn; apply unlink_right_map, Hnd].
    + apply (Hmap (unl_g id (cn_next U) (fun x => x)) (fun _ => False) (fun _ => False));
        [eapply wmap_unlink; eauto; intros; solve [lia|left; reflexivity]|cbn; apply unlink_left_map, Hnd].
Qed.

(** ** 4. the three regimes *)
Definition LenOk (sc : lscan) : Prop :=
  ls_max sc <> 0%nat ->
  (length (ls_res sc) <= ls_max sc)%nat /\ (lscanning sc = true -> (length (ls_res sc) < ls_max sc)%nat).

Definition cutcs (sc : lscan) (G : list N) : cscan :=
  {| sc_pc := CIdle; sc_l := ls_l sc; sc_r := ls_r sc; sc_cur := ls_cur sc; sc_v := ls_v sc;
     sc_snap := []; sc_nxt := None; sc_nv := cver0; sc_res := G; sc_nvset := ls_nvset sc;
     sc_restarts := ls_restarts sc |}.

Record RegF (s : lstate) : Prop := {
  rf_rtl : ls_rtl (l_scan s) = false;
  rf_done : ls_pc (l_scan s) = CDone ->
            ls_max (l_scan s) = 0%nat \/ (length (ls_res (l_scan s)) < ls_max (l_scan s))%nat;
  rf_A : InvA true (pj s);
  rf_B : InvB (pj s);
  rf_C : InvC (pj s) }.

Record RegCut (s : lstate) (G : list N) : Prop := {
  rc_rtl : ls_rtl (l_scan s) = false;
  rc_pc : ls_pc (l_scan s) = CDone;
  rc_max : ls_max (l_scan s) <> 0%nat;
  rc_len : length (ls_res (l_scan s)) = ls_max (l_scan s);
  rc_res : ls_res (l_scan s) = firstn (ls_max (l_scan s)) G;
  rc_nv : ls_nvset (l_scan s) <> [];
  rc_A : InvA true (pjx s (cutcs (l_scan s) G));
  rc_B : InvB (pjx s (cutcs (l_scan s) G));
  rc_C : InvC (pjx s (cutcs (l_scan s) G));
  rc_stable : forall k d, In k (l_stable s) -> in_interval (ls_l (l_scan s)) (ls_r (l_scan s)) k = true ->
                last_key (ls_res (l_scan s)) = Some d -> k <= d -> In k (ls_res (l_scan s));
  (* the last recorded pair is the border in which the scan was cut; it held a delivered key, so it was live *)
  rc_last : exists rest, ls_nvset (l_scan s) = rest ++ [(ls_cur (l_scan s), ls_v (l_scan s))];
  rc_live : cv_del (ls_v (l_scan s)) = false;
  (* as long as the recorded versions are current, every key of the untruncated result, removed or not, is below
     the range of the nodes after that border *)
  rc_above : Hcur (pjx s (cutcs (l_scan s) G)) ->
             forall d, In d G -> lo_above d (after (ls_cur (l_scan s)) (c_nodes (l_c s))) }.

Record RegR (s : lstate) : Prop := {
  rr_rtl : ls_rtl (l_scan s) = true;
  rr_max : ls_max (l_scan s) = 1%nat;
  rr_r : ls_r (l_scan s) = None;
  rr_pc : ls_pc (l_scan s) <> CIdle;
  rr_A : InvA true (pj s);
  rr_cur : exists c, find_node (ls_cur (l_scan s)) (c_nodes (l_c s)) = Some c /\ vle (ls_v (l_scan s)) (cn_ver c);
  rr_live : cv_del (ls_v (l_scan s)) = false;
  rr_last : forall c, find_node (ls_cur (l_scan s)) (c_nodes (l_c s)) = Some c ->
              cv_split (cn_ver c) = cv_split (ls_v (l_scan s)) ->
              next_ok None (after (ls_cur (l_scan s)) (c_nodes (l_c s)));
  rr_scan : lscanning (l_scan s) = true -> ls_res (l_scan s) = [] /\ ls_nvset (l_scan s) = [];
  rr_snap : ls_pc (l_scan s) = CNextVer \/ ls_pc (l_scan s) = CValidate ->
            forall c, find_node (ls_cur (l_scan s)) (c_nodes (l_c s)) = Some c -> cn_ver c = ls_v (l_scan s) ->
            (* removes are not counted by the version: the snapshot is a superset of the keys of the border,
               and it stays within the (possibly grown) range of the border *)
            (forall k, In k (cn_keys c) -> In k (ls_snap (l_scan s))) /\
            (forall x, In x (ls_snap (l_scan s)) -> cn_lo c <= x);
  rr_done : ls_pc (l_scan s) = CDone ->
            ls_nvset (l_scan s) = [(ls_cur (l_scan s), ls_v (l_scan s))] /\
            exists K, ls_res (l_scan s) = gr (ls_l (l_scan s)) K /\ sorted_strict K = true /\
              (forall x, In x K -> In x (l_ever s)) /\
              (forall c, find_node (ls_cur (l_scan s)) (c_nodes (l_c s)) = Some c -> cn_ver c = ls_v (l_scan s) ->
                         (forall k, In k (cn_keys c) -> In k K) /\ (forall x, In x K -> cn_lo c <= x)) /\
              (K <> [] -> forall k, In k (l_stable s) -> ls_l (l_scan s) <= k ->
                          exists d, ls_res (l_scan s) = [d] /\ k <= d) }.

Definition LInv (s : lstate) : Prop :=
  WF (c_nodes (l_c s)) (c_fresh (l_c s)) /\ LenOk (l_scan s) /\
  (RegF s \/ (exists G, RegCut s G) \/ RegR s).

Lemma LInv_init kss : kss_ok kss = true -> LInv (linit kss).
Proof.
  intros Hk. split; [apply (WF_init kss Hk)|]. split.
  - intros H. cbn in H. contradiction.
  - left. constructor.
    + reflexivity.
    + discriminate.
    + apply (InvA_init true kss).
    + apply (InvB_init kss).
    + apply (InvC_init kss Hk).
Qed.

(** *** the forward regime *)
Lemma pj_scan_eq s s' : l_scan s' = l_scan s -> pj s' = pjx s' (cs (l_scan s)).
Proof. unfold pj. intros ->. reflexivity. Qed.

Lemma RegF_writer s w s' :
  WF (c_nodes (l_c s)) (c_fresh (l_c s)) -> RegF s -> lstep s (LW w) = Some s' -> RegF s'.
Proof.
  intros W [F1 F2 F3 F4 F5] H.
  destruct (lw_wtrans s w s' (cs (l_scan s)) W H (scanning_cs _)) as (Wt&W'&Hl).
  constructor; rewrite ?Hl; auto; rewrite (pj_scan_eq _ _ Hl).
  - exact (InvA_wtrans true (pj s) (pjx s' (cs (l_scan s))) W F3 Wt).
  - exact (InvB_wtrans true (pj s) (pjx s' (cs (l_scan s))) W F3 F4 Wt).
  - exact (InvC_wtrans (pj s) (pjx s' (cs (l_scan s))) W W' F4 F5 Wt).
Qed.

Lemma RegF_cstep s e s' :
  WF (c_nodes (l_c s)) (c_fresh (l_c s)) -> RegF s -> cstep true (pj s) e = Some (pj s') ->
  ls_rtl (l_scan s') = false ->
  (ls_pc (l_scan s') = CDone ->
     ls_max (l_scan s') = 0%nat \/ (length (ls_res (l_scan s')) < ls_max (l_scan s'))%nat) ->
  RegF s'.
Proof.
  intros W [F1 F2 F3 F4 F5] H Hr Hd. constructor; auto.
  - exact (InvA_step true (pj s) e (pj s') W F3 H).
  - exact (InvB_step true (pj s) e (pj s') W F3 F4 H).
  - exact (InvC_step true (pj s) e (pj s') W F4 F5 H).
Qed.

(** *** the cut regime *)
Lemma RegCut_writer s w s' G :
  WF (c_nodes (l_c s)) (c_fresh (l_c s)) -> RegCut s G -> lstep s (LW w) = Some s' -> RegCut s' G.
Proof.
  intros W [C1 C2 C3 C4 C5 C6 C7 C8 C9 C10 C11 C12 C13] H.
  assert (Hsc : scanning (cutcs (l_scan s) G) = lscanning (l_scan s)).
  { unfold lscanning. rewrite C2. reflexivity. }
  destruct (lw_wtrans s w s' (cutcs (l_scan s) G) W H Hsc) as (Wt&W'&Hl).
  constructor; rewrite ?Hl; auto.
  - exact (InvA_wtrans true (pjx s (cutcs (l_scan s) G)) (pjx s' (cutcs (l_scan s) G)) W C7 Wt).
  - exact (InvB_wtrans true (pjx s (cutcs (l_scan s) G)) (pjx s' (cutcs (l_scan s) G)) W C7 C8 Wt).
  - exact (InvC_wtrans (pjx s (cutcs (l_scan s) G)) (pjx s' (cutcs (l_scan s) G)) W W' C8 C9 Wt).
  - intros k d Hk. apply C10. destruct Wt as (_&g&gain&lost&_&S1&_). apply (S1 k Hk).
  - (* the recorded versions are current after the step: they were before it, and the step left them alone *)
    intros HC' d Hd. destruct Wt as (_&g&gain&lost&Wm&_&_&_&_&_&Hsh).
    pose proof (wshape_find (pjx s (cutcs (l_scan s) G)) (pjx s' (cutcs (l_scan s) G)) g gain lost W Wm Hsh) as Hfind.
    cbn [pjx c_nodes] in Hfind.
    assert (Hrec : forall id v, In (id, v) (ls_nvset (l_scan s)) ->
              exists n, find_node id (c_nodes (l_c s)) = Some n /\ cn_ver n = v /\ cn_ver (g n) = cn_ver n).
    { intros id v Hin. destruct (ib_nvset _ C8 id v Hin) as (n&Hf&Hv). cbn [pjx c_nodes] in Hf.
      destruct (HC' id v Hin) as (n'&Hf'&Hv'). cbn [pjx c_nodes] in Hf'.
      rewrite (Hfind _ _ Hf) in Hf'. injection Hf' as <-.
      pose proof (g_vle _ _ _ _ Wm n (proj1 (find_node_In _ _ _ Hf))) as Hv2.
      assert (cn_ver n = v) by (apply vle_antisym; [rewrite <- Hv'; exact Hv2|exact Hv]).
      exists n. repeat split; auto. congruence. }
    assert (HC : Hcur (pjx s (cutcs (l_scan s) G))).
    { intros id v Hin. destruct (Hrec id v Hin) as (n&Hf&Hv&_). exists n. auto. }
    destruct C11 as (rest&Env).
    destruct (Hrec (ls_cur (l_scan s)) (ls_v (l_scan s))) as (PM&HfPM&HvPM&HgPM);
      [rewrite Env; apply in_or_app; right; left; reflexivity|].
    apply (wshape_lo_above (pjx s (cutcs (l_scan s) G)) (pjx s' (cutcs (l_scan s) G)) g gain lost W Wm Hsh
             (ls_cur (l_scan s)) PM d HfPM); auto.
    eapply live_of_ver; eauto.
Qed.

Lemma LenOk_scanning s :
  LenOk (l_scan s) -> lscanning (l_scan s) = true ->
  ls_max (l_scan s) <> 0%nat -> (length (ls_res (l_scan s)) < ls_max (l_scan s))%nat.
Proof. intros H Hs Hm. apply (H Hm), Hs. Qed.

(** the step that ends the scan because the limit is reached *)
Lemma RegCut_enter s c :
  WF (c_nodes (l_c s)) (c_fresh (l_c s)) -> LenOk (l_scan s) -> RegF s ->
  ls_pc (l_scan s) = CValidate ->
  find_node (ls_cur (l_scan s)) (c_nodes (l_c s)) = Some c -> cn_ver c = ls_v (l_scan s) ->
  stale (cs (l_scan s)) = false -> lfull (l_scan s) = true ->
  let s' := set_lscan s (ls_fin (l_scan s) (ls_res (l_scan s) ++ ltake (l_scan s))) in
  RegCut s' (deliver_res (cs (l_scan s))) /\ LenOk (l_scan s').
Proof.
  intros W HL [F1 F2 F3 F4 F5] Hpc Hf Hv Hst Hfull s'.
  set (sc := l_scan s) in *.
  assert (Hs : lscanning sc = true) by (unfold lscanning; rewrite Hpc; reflexivity).
  assert (Hmax : ls_max sc <> 0%nat).
  { unfold lfull in Hfull. destruct (Nat.eqb_spec (ls_max sc) 0); [discriminate|assumption]. }
  pose proof (LenOk_scanning s HL Hs Hmax) as Hlt. fold sc in Hlt.
  assert (Etake : ltake sc = firstn (ls_max sc - length (ls_res sc)) (linr sc)).
  { unfold ltake. destruct (Nat.eqb_spec (ls_max sc) 0); [contradiction|reflexivity]. }
  assert (Hlen : length (ls_res sc ++ ltake sc) = ls_max sc).
  { unfold lfull in Hfull. apply andb_true_iff in Hfull as [_ Hfull]. apply Nat.leb_le in Hfull.
    rewrite app_length in *. rewrite Etake in *.
    pose proof (firstn_le_length (ls_max sc - length (ls_res sc)) (linr sc)). lia. }
  assert (Eres : ls_res sc ++ ltake sc = firstn (ls_max sc) (deliver_res (cs sc))).
  { change (deliver_res (cs sc)) with (ls_res sc ++ linr sc).
    rewrite firstn_app, Etake. rewrite (firstn_all2 (ls_res sc)) by lia. reflexivity. }
  destruct (ib_snap _ F4 (or_intror Hpc) c Hf Hv) as (Hsnap&Hnx&Hlo).
  assert (HsG : sorted_strict (deliver_res (cs sc)) = true).
  { rewrite deliver_res_eq. apply sorted_app. split; [apply (ia_sorted _ _ F3 eq_refl)|]. split.
    - apply sorted_filter, (ia_snap _ _ F3).
    - intros a b Ha Hb. apply filter_In in Hb as [Hb _].
      eapply (stale_false (cs sc)); eauto. apply (ia_sorted _ _ F3 eq_refl). }
  assert (HGin : forall k, In k (deliver_res (cs sc)) ->
            in_interval (ls_l sc) (ls_r sc) k = true /\ In k (l_ever s)).
  { intros k Hk. rewrite deliver_res_eq in Hk. apply in_app_or in Hk as [Hk|Hk]; [apply (ia_res _ _ F3), Hk|].
    apply filter_In in Hk as [Hk1 Hk2]. split; [exact Hk2|]. apply (ia_snap _ _ F3), Hk1. }
  assert (HGsup : forall k, In k (ls_res sc) \/ (In k (ls_snap sc) /\ in_interval (ls_l sc) (ls_r sc) k = true) ->
            In k (deliver_res (cs sc))).
  { intros k Hk. rewrite deliver_res_eq. apply in_or_app. destruct Hk as [Hk|[Hk1 Hk2]]; [left; exact Hk|right].
    apply filter_In. auto. }
  assert (Hne : ltake sc <> []).
  { intros E. rewrite E, app_nil_r in Hlen. lia. }
  (* the border in which the scan is cut delivers a key: it is live, and that key is above all earlier ones *)
  assert (Hx : exists x, In x (ls_snap sc) /\ (forall a, In a (ls_res sc) -> a < x)).
  { destruct (ltake sc) as [|x0 tk] eqn:Et; [contradiction|]. exists x0.
    assert (Hin : In x0 (ls_snap sc)).
    { assert (H0 : In x0 (x0 :: tk)) by (left; reflexivity). rewrite Etake in H0. apply in_firstn in H0.
      unfold linr in H0. apply filter_In in H0 as [H0 _]. apply filter_In in H0 as [H0 _]. exact H0. }
    split; [exact Hin|]. intros a Ha. eapply (stale_false (cs sc)); eauto. apply (ia_sorted _ _ F3 eq_refl). }
  destruct Hx as (x&Hxs&Hxlt). destruct (Hlo x Hxs) as [Lc Habx].
  assert (HGab : forall d, In d (deliver_res (cs sc)) -> lo_above d (after (ls_cur sc) (c_nodes (l_c s)))).
  { intros d Hd. rewrite deliver_res_eq in Hd. apply in_app_or in Hd as [Hd|Hd].
    - specialize (Hxlt d Hd). intros b Hb Lb. specialize (Habx b Hb Lb). lia.
    - apply filter_In in Hd as [Hd _]. apply (Hlo d Hd). }
  set (G := deliver_res (cs sc)) in *.
  split.
  - constructor; cbn [s' set_lscan l_scan ls_fin ls_rtl ls_pc ls_max ls_res ls_nvset ls_l ls_r l_stable].
    + exact F1.
    + reflexivity.
    + exact Hmax.
    + exact Hlen.
    + exact Eres.
    + destruct (ls_nvset sc); discriminate.
    + destruct F3 as [I1 I2 I3 I4 I5]. constructor; cbn.
      * exact I1.
      * discriminate.
      * intros _. exact HsG.
      * exact HGin.
      * split; [reflexivity|intros ? []].
    + destruct F4 as [B1 B2 B3 B4 B5 B6].
      constructor; cbn; try discriminate; try (intros [|]; discriminate).
      intros id v Hin. apply in_app_or in Hin as [Hin|[Hin|[]]]; [apply B2, Hin|]. injection Hin as <- <-.
      exists c. split; [exact Hf|]. rewrite Hv. apply vle_refl.
    + constructor; cbn [pjx cutcs c_scan c_nodes sc_pc sc_l sc_r sc_cur sc_v sc_res sc_nvset
                         s' set_lscan l_scan l_c ls_fin ls_l ls_r ls_cur ls_v ls_nvset ls_restarts].
      * unfold first_rec, cutcs, ls_fin. cbn [sc_nvset sc_cur sc_v ls_nvset ls_cur ls_v]. rewrite first_rec_snoc.
        apply (ic_first _ F5).
      * intros E. destruct (ls_nvset sc); discriminate.
      * intros HC' rest pm vm Env.
        assert (HC : Hcur (pj s)).
        { intros id v Hin. apply HC'. cbn. apply in_or_app. left. exact Hin. }
        apply app_inj_tail in Env as [<- Epm]. injection Epm as <- <-.
        destruct (deliver_main (pj s) c W F5 HC Hpc Hf Hv Hsnap) as [D1 D2].
        split; [exact D1|]. split.
        { unfold recorded, first_rec, cutcs, ls_fin. cbn [sc_nvset sc_cur sc_v ls_nvset ls_cur ls_v].
          rewrite first_rec_snoc. exact D2. }
        split; discriminate.
    + (* every stable key of the interval up to the last delivered key has been delivered *)
      intros k d Hk Hi Hlast0 Hle. pose proof Hlast0 as Hlast. rewrite Eres in Hlast |- *.
      assert (Hd : In d (firstn (ls_max sc) G)).
      { destruct (last_key_some _ _ Hlast) as (l'&El). rewrite El. apply in_or_app. right. left. reflexivity. }
      destruct (ib_front _ F4 Hs k Hk Hi) as [Hin|Hnb].
      { rewrite <- Eres. apply in_or_app. left. exact Hin. }
      apply (sorted_prefix_le _ _ k d HsG); auto.
      pose proof (ia_stable _ _ F3 k Hk) as Hall. cbn [pj pjx c_nodes] in Hall, Hnb.
      rewrite (before_after_split _ _ _ Hf), all_keys_app, all_keys_cons in Hall.
      apply in_app_or in Hall as [Hall|Hall]; [contradiction|].
      apply HGsup. right. split; [|exact Hi].
      apply in_app_or in Hall as [Hall|Hall]; [apply Hsnap; apply in_lk in Hall; apply Hall|]. exfalso.
      (* k lies in a node after the current one, so it is above every key of the untruncated result, hence above d *)
      assert (HdG : In d G) by (apply (in_firstn _ _ _ Hd)).
      apply in_all_keys in Hall as (b&Hb&Hkb). apply in_lk in Hkb as [Lb Hkb].
      pose proof (HGab d HdG b Hb Lb) as Hdb.
      destruct (wf_ok _ _ W b (in_after _ _ _ Hb)) as [_ Hlob]. specialize (Hlob k Hkb). lia.
    + exists (ls_nvset sc). reflexivity.
    + cbn [ls_fin ls_v]. rewrite <- Hv. unfold live in Lc. apply negb_true_iff in Lc. exact Lc.
    + intros _. exact HGab.
  - intros _. cbn [s' set_lscan l_scan ls_fin ls_res ls_max]. split; [lia|]. discriminate.
Qed.

(** *** the right-to-left regime *)
Lemma RegR_writer s w s' :
  WF (c_nodes (l_c s)) (c_fresh (l_c s)) -> RegR s -> lstep s (LW w) = Some s' -> RegR s'.
Proof.
  intros W [R1 R2 R3 R4 R5 R6 R7 R8 R9 R10 R11] H.
  destruct (lw_sim s w s' (cs (l_scan s)) H (scanning_cs _)) as (Hw&Hc&Hl).
  pose proof (writer_shape true (pj s) w (pjx s' (cs (l_scan s))) W Hw Hc) as Wt.
  pose proof (writer_last true (pj s) w (pjx s' (cs (l_scan s))) (ls_cur (l_scan s))) as Hlast.
  pose proof Wt as (Hsc&g&gain&lost&Wm&S1&E1&E1'&E2&E3&Hsh).
  pose proof (wshape_find (pj s) (pjx s' (cs (l_scan s))) g gain lost W Wm Hsh) as Hfind.
  cbn [pj pjx c_nodes] in Hfind, Hlast.
  destruct R6 as (c&Hf&Hv).
  pose proof (g_vle _ _ _ _ Wm c (proj1 (find_node_In _ _ _ Hf))) as Hv2.
  constructor; rewrite ?Hl; auto.
  - rewrite (pj_scan_eq _ _ Hl). exact (InvA_wtrans true (pj s) (pjx s' (cs (l_scan s))) W R5 Wt).
  - exists (g c). split; [apply Hfind, Hf|]. eapply vle_trans; eauto.
  - intros c' Hf' Hs'. rewrite (Hfind _ _ Hf) in Hf'. injection Hf' as <-.
    assert (Es : cv_split (cn_ver c) = cv_split (ls_v (l_scan s))).
    { destruct Hv as (_&?&_), Hv2 as (_&?&_). lia. }
    destruct (Hlast c W Hw Hc Hf (R8 c Hf Es)) as [Hn|(c'&Hf'&Hlt)]; [exact Hn|].
    rewrite (Hfind _ _ Hf) in Hf'. injection Hf' as <-. lia.
  - intros Hpc c' Hf' Hv'. rewrite (Hfind _ _ Hf) in Hf'. injection Hf' as <-.
    assert (Ec : cn_ver c = ls_v (l_scan s)).
    { apply vle_antisym; [rewrite <- Hv'; exact Hv2|exact Hv]. }
    destruct (R10 Hpc c Hf Ec) as [Q1 Q2]. split.
    + intros k Hk. apply Q1. apply (g_same _ _ _ _ Wm c); [apply (find_node_In _ _ _ Hf)|congruence|exact Hk].
    + intros x Hx. specialize (Q2 x Hx). pose proof (g_lo _ _ _ _ Wm c (proj1 (find_node_In _ _ _ Hf))). lia.
  - intros Hpc. destruct (R11 Hpc) as (Env&K&Er&HsK&HKe&HK&Hst). split; [exact Env|]. exists K.
    split; [exact Er|]. split; [exact HsK|]. split; [intros x Hx; apply (E1 x), HKe, Hx|]. split.
    + intros c' Hf' Hv'. rewrite (Hfind _ _ Hf) in Hf'. injection Hf' as <-.
      assert (Ec : cn_ver c = ls_v (l_scan s)).
      { apply vle_antisym; [rewrite <- Hv'; exact Hv2|exact Hv]. }
      destruct (HK c Hf Ec) as [Q1 Q2]. split.
      * intros k Hk. apply Q1. apply (g_same _ _ _ _ Wm c); [apply (find_node_In _ _ _ Hf)|congruence|exact Hk].
      * intros x Hx. specialize (Q2 x Hx). pose proof (g_lo _ _ _ _ Wm c (proj1 (find_node_In _ _ _ Hf))). lia.
    + intros Hne k Hk. apply (Hst Hne). apply (S1 k Hk).
Qed.

Lemma RegR_start s' l rs n :
  WF (c_nodes (l_c s')) (c_fresh (l_c s')) -> last_live None (c_nodes (l_c s')) = Some n ->
  l_scan s' = lrestart l None 1 true rs n -> InvA true (pj s') -> RegR s'.
Proof.
  intros W Hn Hsc IA. pose proof (wf_nodup _ _ W) as Hnd.
  apply last_live_spec in Hn as [[E _]|(l1&l2&E&Ln&Hd)]; [discriminate|].
  assert (Hin : In n (c_nodes (l_c s'))) by (rewrite E; apply in_or_app; right; left; reflexivity).
  assert (Hf : find_node (cn_id n) (c_nodes (l_c s')) = Some n) by (apply nodup_find; assumption).
  constructor; rewrite ?Hsc; cbn [lrestart ls_rtl ls_max ls_r ls_pc ls_cur ls_v ls_res ls_nvset ls_snap ls_l];
    auto; try discriminate; try (intros [|]; discriminate).
  - exists n. split; [exact Hf|apply vle_refl].
  - unfold live in Ln. apply negb_true_iff in Ln. exact Ln.
  - intros _ _ _. rewrite E in Hnd |- *. destruct (nodup_mid _ _ _ Hnd) as [N1 _].
    rewrite after_mid by auto. apply next_ok_none, Hd.
Qed.

Lemma InvA_restart s sc' :
  InvA true (pj s) -> lscanning (l_scan s) = true ->
  ls_pc sc' = CRead -> ls_res sc' = [] -> ls_snap sc' = [] -> InvA true (pj (set_lscan s sc')).
Proof.
  intros [I1 I2 I3 I4 I5] Hs Hpc Hres Hsnap. constructor; cbn; rewrite ?Hres, ?Hsnap; auto.
  - intros ? [].
  - split; [reflexivity|intros ? []].
Qed.

(** the validated snapshot of a non-empty last border: its greatest key >= l is not below any stable key >= l
    (stable keys are never removed, so they are in the snapshot or in an earlier border) *)
Lemma rtl_finish_stable s c :
  WF (c_nodes (l_c s)) (c_fresh (l_c s)) -> RegR s -> ls_pc (l_scan s) = CValidate ->
  find_node (ls_cur (l_scan s)) (c_nodes (l_c s)) = Some c -> cn_ver c = ls_v (l_scan s) ->
  ls_snap (l_scan s) <> [] ->
  forall k, In k (l_stable s) -> ls_l (l_scan s) <= k ->
  exists d, gr (ls_l (l_scan s)) (ls_snap (l_scan s)) = [d] /\ k <= d.
Proof.
  intros W [R1 R2 R3 R4 R5 R6 R7 R8 R9 R10 R11] Hpc Hf Hv Hne k Hk Hlk.
  destruct (R10 (or_intror Hpc) c Hf Hv) as [Q1 Q2].
  assert (HsK : sorted_strict (ls_snap (l_scan s)) = true) by apply (ia_snap _ _ R5).
  assert (Hn : next_ok None (after (ls_cur (l_scan s)) (c_nodes (l_c s)))) by (apply (R8 c Hf); congruence).
  assert (Lc : live c = true) by (eapply live_of_ver; eauto).
  pose proof (ia_stable _ _ R5 k Hk) as Hall. cbn [pj pjx c_nodes] in Hall.
  rewrite (before_after_split _ _ _ Hf), all_keys_app, all_keys_cons in Hall.
  rewrite (all_keys_dead (after _ _)) in Hall by (apply next_ok_none, Hn). rewrite app_nil_r in Hall.
  destruct (gr_cases (ls_l (l_scan s)) _ HsK) as [[Eg Hlow]|(d&Eg&Hd&Hld&Hmax)].
  - exfalso. apply in_app_or in Hall as [Hall|Hall].
    + pose proof (before_below _ _ _ _ _ W Hf Lc Hall) as Hb.
      destruct (ls_snap (l_scan s)) as [|x0 tl0] eqn:Es; [contradiction|].
      specialize (Hlow x0 (or_introl eq_refl)). specialize (Q2 x0 (or_introl eq_refl)). lia.
    + apply in_lk in Hall as [_ Hall]. specialize (Hlow k (Q1 k Hall)). lia.
  - exists d. split; [exact Eg|]. apply in_app_or in Hall as [Hall|Hall].
    + pose proof (before_below _ _ _ _ _ W Hf Lc Hall) as Hb. specialize (Q2 d Hd). lia.
    + apply in_lk in Hall as [_ Hall]. apply Hmax, Q1, Hall.
Qed.

Lemma RegR_step s e s' :
  WF (c_nodes (l_c s)) (c_fresh (l_c s)) -> RegR s -> lstep s e = Some s' -> RegR s'.
Proof.
  intros W R H. pose proof R as R0. destruct e.
  - eapply RegR_writer; eauto.
  - apply lstep_begin in H as (Hpc&_). exfalso. exact (rr_pc _ R Hpc).
  - (* read *)
    pose proof (lread_sim _ _ H) as Hc. apply lstep_read in H as (Hpc&c&Hf&->).
    destruct R as [R1 R2 R3 R4 R5 R6 R7 R8 R9 R10 R11].
    constructor; cbn [set_lscan l_scan l_c l_stable ls_read ls_rtl ls_max ls_r ls_pc ls_cur ls_v ls_res ls_nvset
                       ls_snap ls_l]; auto; try discriminate.
    + exact (InvA_step true (pj s) ERead _ W R5 Hc).
    + intros _. apply R9. unfold lscanning. rewrite Hpc. reflexivity.
    + intros _ c' Hf' _. rewrite Hf in Hf'. injection Hf' as <-. split; [auto|].
      apply (wf_ok _ _ W c), (find_node_In _ _ _ Hf).
  - (* next version *)
    pose proof (lnextver_sim _ _ H) as Hc. apply lstep_nextver in H as (Hpc&->).
    destruct R as [R1 R2 R3 R4 R5 R6 R7 R8 R9 R10 R11].
    constructor; cbn [set_lscan l_scan l_c l_stable ls_nextver ls_rtl ls_max ls_r ls_pc ls_cur ls_v ls_res ls_nvset
                       ls_snap ls_l]; auto; try discriminate.
    + exact (InvA_step true (pj s) ENextVer _ W R5 Hc).
    + intros _. apply R9. unfold lscanning. rewrite Hpc. reflexivity.
  - (* validate *)
    apply lvalidate_rtl in H; [|apply (rr_rtl _ R)]. cbv zeta in H. destruct H as (Hpc&c&Hf&Hcases).
    assert (Hs : lscanning (l_scan s) = true) by (unfold lscanning; rewrite Hpc; reflexivity).
    destruct R as [R1 R2 R3 R4 R5 R6 R7 R8 R9 R10 R11]. destruct (R9 Hs) as [Hres Hnvs].
    destruct Hcases as [(n&Hn&->)|[(Hv&->)|(Hv&Hdel&Hspl&->)]].
    + rewrite R2, R3. eapply RegR_start; cbn [set_lscan l_c l_scan]; eauto.
      apply InvA_restart; auto.
    + (* finish *)
      pose proof (R10 (or_intror Hpc) c Hf Hv) as Hsnap.
      destruct (find_node_In _ _ _ Hf) as [Hcin Hcid].
      assert (HsK : sorted_strict (ls_snap (l_scan s)) = true) by apply (ia_snap _ _ R5).
      assert (Hn : next_ok None (after (ls_cur (l_scan s)) (c_nodes (l_c s)))) by (apply (R8 c Hf); congruence).
      assert (Lc : live c = true) by (eapply live_of_ver; eauto).
      constructor; cbn [set_lscan l_scan l_c l_stable ls_fin ls_rtl ls_max ls_r ls_pc ls_cur ls_v ls_res ls_nvset
                         ls_snap ls_l]; auto; try discriminate; try (intros [|]; discriminate).
      * destruct R5 as [I1 I2 I3 I4 I5].
        destruct (gr_cases (ls_l (l_scan s)) _ HsK) as [[Eg _]|(d&Eg&Hd&Hld&_)].
        -- constructor; cbn; rewrite ?Eg; auto; try (intros ? []). split; [reflexivity|intros ? []].
        -- constructor; cbn; rewrite ?Eg; auto; try discriminate.
           ++ intros k [<-|[]]. split; [|apply I5, Hd]. unfold in_interval. rewrite R3. cbn [le_r].
              rewrite andb_true_r. apply N.leb_le. exact Hld.
           ++ split; [reflexivity|intros ? []].
      * intros _. rewrite Hnvs. split; [reflexivity|]. exists (ls_snap (l_scan s)).
        split; [reflexivity|]. split; [exact HsK|]. split; [apply (ia_snap _ _ R5)|]. split.
        -- intros c' Hf' _. rewrite Hf in Hf'. injection Hf' as <-. exact Hsnap.
        -- intros Hne k Hk Hlk. exact (rtl_finish_stable s c W R0 Hpc Hf Hv Hne k Hk Hlk).
    + (* read the node again *)
      constructor; cbn [set_lscan l_scan l_c l_stable ls_reread ls_rtl ls_max ls_r ls_pc ls_cur ls_v ls_res ls_nvset
                         ls_snap ls_l]; auto; try discriminate; try (intros [|]; discriminate).
      * apply (InvA_restart s (ls_reread (l_scan s) (cn_ver c))); auto.
      * exists c. split; [exact Hf|apply vle_refl].
      * intros c' Hf' Hs'. rewrite Hf in Hf'. injection Hf' as <-. apply (R8 c Hf).
        exact Hspl.
Qed.

(** ** 5. the invariant is inductive *)
Lemma LenOk_nil sc : ls_res sc = [] -> LenOk sc.
Proof. intros E Hm. rewrite E. cbn. lia. Qed.
Lemma LenOk_same sc sc' :
  ls_res sc' = ls_res sc -> ls_max sc' = ls_max sc -> lscanning sc = true -> LenOk sc -> LenOk sc'.
Proof. intros E1 E2 Hs H Hm. rewrite E1, E2 in *. destruct (H Hm) as [H1 H2]. split; [exact H1|]. intros _. auto. Qed.
Lemma gr_length l K : (length (gr l K) <= 1)%nat.
Proof. unfold gr. destruct (rev _); cbn; lia. Qed.

Lemma LInv_step s e s' : LInv s -> lstep s e = Some s' -> LInv s'.
Proof.
  intros (W&HL&Hreg) H.
  destruct e as [w|l r mx rtl| | |].
  - (* writer *)
    destruct (lw_wtrans s w s' (cs (l_scan s)) W H (scanning_cs _)) as (_&W'&Hl).
    split; [exact W'|]. split; [rewrite Hl; exact HL|].
    destruct Hreg as [F|[(G&C)|R]].
    + left. exact (RegF_writer s w s' W F H).
    + right. left. exists G. exact (RegCut_writer s w s' G W C H).
    + right. right. exact (RegR_writer s w s' W R H).
  - (* begin *)
    pose proof H as H0. apply lstep_begin in H as (Hpc&Hapi&n&Hn&->).
    split; [exact W|]. split; [apply LenOk_nil; reflexivity|].
    destruct Hreg as [F|[(G&C)|R]].
    + destruct rtl.
      * right. right. destruct (Hapi eq_refl) as [-> ->].
        eapply RegR_start; cbn [l_c l_scan]; eauto.
        constructor; cbn; auto; try (intros ? []). split; [reflexivity|intros ? []].
      * left. pose proof (lbegin_sim _ _ _ _ _ H0) as Hc.
        eapply RegF_cstep; eauto; cbn; try reflexivity; discriminate.
    + rewrite (rc_pc _ _ C) in Hpc. discriminate.
    + exfalso. exact (rr_pc _ R Hpc).
  - (* read *)
    pose proof (lread_sim _ _ H) as Hc. pose proof H as H0. apply lstep_read in H as (Hpc&c&Hf&->).
    assert (Hs : lscanning (l_scan s) = true) by (unfold lscanning; rewrite Hpc; reflexivity).
    split; [exact W|]. split; [apply (LenOk_same (l_scan s)); [reflexivity|reflexivity|exact Hs|exact HL]|].
    destruct Hreg as [F|[(G&C)|R]].
    + left. eapply RegF_cstep; eauto; cbn; try apply (rf_rtl _ F); discriminate.
    + rewrite (rc_pc _ _ C) in Hpc. discriminate.
    + right. right. eapply RegR_step; eauto.
  - (* next version *)
    pose proof (lnextver_sim _ _ H) as Hc. pose proof H as H0. apply lstep_nextver in H as (Hpc&->).
    assert (Hs : lscanning (l_scan s) = true) by (unfold lscanning; rewrite Hpc; reflexivity).
    split; [exact W|]. split; [apply (LenOk_same (l_scan s)); [reflexivity|reflexivity|exact Hs|exact HL]|].
    destruct Hreg as [F|[(G&C)|R]].
    + left. eapply RegF_cstep; eauto; cbn; try apply (rf_rtl _ F); discriminate.
    + rewrite (rc_pc _ _ C) in Hpc. discriminate.
    + right. right. eapply RegR_step; eauto.
  - (* validate *)
    destruct Hreg as [F|[(G&C)|R]].
    + assert (Hlen : ls_max (l_scan s) <> 0%nat -> (length (ls_res (l_scan s)) < ls_max (l_scan s))%nat).
      { intros Hm. destruct (lscanning (l_scan s)) eqn:Hs; [apply (HL Hm), Hs|].
        exfalso. unfold lstep in H. unfold lscanning in Hs. destruct (ls_pc (l_scan s)); discriminate. }
      pose proof (lvalidate_fwd s s' H (rf_rtl _ F) Hlen) as Hv. cbv zeta in Hv.
      destruct Hv as (Hpc&[(c&Hf&Hv&Hst&Hfull&->)|(Hc&Hr&Hm&Hres)]).
      * destruct (RegCut_enter s c W HL F Hpc Hf Hv Hst Hfull) as [C HL'].
        split; [exact W|]. split; [exact HL'|]. right. left. eexists. exact C.
      * assert (W' : WF (c_nodes (l_c s')) (c_fresh (l_c s'))) by exact (WF_step true (pj s) EValidate (pj s') W Hc).
        assert (Hs : lscanning (l_scan s) = true) by (unfold lscanning; rewrite Hpc; reflexivity).
        assert (HL' : LenOk (l_scan s') /\
                      (ls_pc (l_scan s') = CDone ->
                       ls_max (l_scan s') = 0%nat \/ (length (ls_res (l_scan s')) < ls_max (l_scan s'))%nat)).
        { destruct Hres as [[E Hp]|[[E Hp]|[E Hnf]]].
          - split; [apply LenOk_nil, E|]. rewrite Hp. discriminate.
          - split; [|rewrite Hp; discriminate]. intros Hm'. rewrite E, Hm in *. destruct (HL Hm') as [H1 H2].
            split; [exact H1|]. intros _. auto.
          - rewrite Hm, E. unfold lfull in Hnf. destruct (Nat.eqb_spec (ls_max (l_scan s)) 0) as [E0|E0].
            + split; [intros Hm'; rewrite Hm in Hm'; contradiction|]. intros _. left. exact E0.
            + cbn [negb andb] in Hnf. apply Nat.leb_gt in Hnf.
              split; [intros _; rewrite Hm, E; split; [lia|intros _; exact Hnf]|]. intros _. right. exact Hnf. }
        destruct HL' as [HL' Hd].
        split; [exact W'|]. split; [exact HL'|]. left. exact (RegF_cstep s EValidate s' W F Hc Hr Hd).
    + exfalso. unfold lstep in H. rewrite (rc_pc _ _ C) in H. discriminate.
    + pose proof (RegR_step s LValidate s' W R H) as R'.
      pose proof (lvalidate_rtl s s' H (rr_rtl _ R)) as Hv. cbv zeta in Hv.
      destruct Hv as (Hpc&c&Hf&Hcases).
      assert (Hs : lscanning (l_scan s) = true) by (unfold lscanning; rewrite Hpc; reflexivity).
      assert (El : l_c s' = l_c s /\ LenOk (l_scan s')).
      { destruct Hcases as [(n&Hn&->)|[(Hv&->)|(Hv&Hdel&Hspl&->)]]; (split; [reflexivity|]).
        - apply LenOk_nil. reflexivity.
        - intros _. cbn [set_lscan l_scan ls_fin ls_res ls_max]. rewrite (rr_max _ R).
          pose proof (gr_length (ls_l (l_scan s)) (ls_snap (l_scan s))). split; [lia|discriminate].
        - apply (LenOk_same (l_scan s)); [reflexivity|reflexivity|exact Hs|exact HL]. }
      destruct El as [El HL']. split; [rewrite El; exact W|]. split; [exact HL'|]. right. right. exact R'.
Qed.

Lemma reach_L kss evs s : kss_ok kss = true -> lrun (linit kss) evs = Some s -> LInv s.
Proof.
  intros Hk. apply (lrun_inv LInv).
  - intros s0 e s' I H. eapply LInv_step; eauto.
  - apply LInv_init, Hk.
Qed.

(** ** 6. L1, L2: ascending, bounded, sound *)
Theorem lim_scan_ascending : forall kss evs s,
  kss_ok kss = true -> lrun (linit kss) evs = Some s ->
  sorted_strict (ls_res (l_scan s)) = true /\
  (ls_max (l_scan s) <> 0%nat -> (length (ls_res (l_scan s)) <= ls_max (l_scan s))%nat).
Proof.
  intros kss evs s Hk H. destruct (reach_L _ _ _ Hk H) as (W&HL&Hreg). split.
  - destruct Hreg as [F|[(G&C)|R]].
    + apply (ia_sorted _ _ (rf_A _ F) eq_refl).
    + rewrite (rc_res _ _ C). apply sorted_firstn. apply (ia_sorted _ _ (rc_A _ _ C) eq_refl).
    + apply (ia_sorted _ _ (rr_A _ R) eq_refl).
  - intros Hm. apply (HL Hm).
Qed.

Theorem lim_scan_sound : forall kss evs s k,
  kss_ok kss = true -> lrun (linit kss) evs = Some s ->
  In k (ls_res (l_scan s)) ->
  in_interval (ls_l (l_scan s)) (ls_r (l_scan s)) k = true /\ In k (l_ever s).
Proof.
  intros kss evs s k Hk H Hin. destruct (reach_L _ _ _ Hk H) as (W&HL&[F|[(G&C)|R]]).
  - apply (ia_res _ _ (rf_A _ F) k Hin).
  - rewrite (rc_res _ _ C) in Hin. apply in_firstn in Hin. apply (ia_res _ _ (rc_A _ _ C) k Hin).
  - apply (ia_res _ _ (rr_A _ R) k Hin).
Qed.

(** a right-to-left scan delivers at most one key (its limit is 1) *)
Theorem rtl_scan_at_most_one : forall kss evs s,
  kss_ok kss = true -> lrun (linit kss) evs = Some s -> ls_rtl (l_scan s) = true ->
  (length (ls_res (l_scan s)) <= 1)%nat.
Proof.
  intros kss evs s Hk H Hr. destruct (reach_L _ _ _ Hk H) as (W&HL&[F|[(G&C)|R]]).
  - rewrite (rf_rtl _ F) in Hr. discriminate.
  - rewrite (rc_rtl _ _ C) in Hr. discriminate.
  - rewrite <- (rr_max _ R). apply HL. rewrite (rr_max _ R). discriminate.
Qed.

(** ** 7. L3: no stable key of the covered part of the interval is lost *)
Theorem lim_scan_no_lost_stable_key : forall kss evs s k,
  kss_ok kss = true -> lrun (linit kss) evs = Some s ->
  ls_pc (l_scan s) = CDone -> ls_rtl (l_scan s) = false -> In k (l_stable s) ->
  in_interval (ls_l (l_scan s)) (ls_r (l_scan s)) k = true ->
  (ls_max (l_scan s) = 0%nat \/ (length (ls_res (l_scan s)) < ls_max (l_scan s))%nat \/
   (exists lk, last_key (ls_res (l_scan s)) = Some lk /\ k <= lk)) ->
  In k (ls_res (l_scan s)).
Proof.
  intros kss evs s k Hk H Hpc Hr Hin Hi Hcov. destruct (reach_L _ _ _ Hk H) as (W&HL&[F|[(G&C)|R]]).
  - apply (ib_done _ (rf_B _ F) Hpc k Hin Hi).
  - destruct Hcov as [Hm|[Hlt|(d&Hd&Hle)]].
    + exfalso. apply (rc_max _ _ C Hm).
    + rewrite (rc_len _ _ C) in Hlt. lia.
    + apply (rc_stable _ _ C k d); assumption.
  - rewrite (rr_rtl _ R) in Hr. discriminate.
Qed.

(** ** 8. L4 for the forward scan: no undetected insert into the covered part of the interval *)
Lemma InvC_upto c :
  InvC c -> Hcur c -> sc_nvset (c_scan c) <> [] ->
  exists rest pm vm PM, sc_nvset (c_scan c) = rest ++ [(pm, vm)] /\ find_node pm (c_nodes c) = Some PM /\
    (forall k, In k (all_keys (upto pm (c_nodes c))) ->
               in_interval (sc_l (c_scan c)) (sc_r (c_scan c)) k = true -> In k (sc_res (c_scan c))).
Proof.
  intros IC HC Hne. destruct (exists_last Hne) as (rest&[pm vm]&Env).
  destruct (ic_main _ IC HC rest pm vm Env) as (R1&_).
  assert (Hpmin : In (pm, vm) (sc_nvset (c_scan c))) by (rewrite Env; apply in_or_app; right; left; reflexivity).
  destruct (HC pm vm Hpmin) as (PM&HfPM&_). exists rest, pm, vm, PM. auto.
Qed.

Lemma in_all_keys_split pm PM ns k :
  find_node pm ns = Some PM -> In k (all_keys ns) ->
  In k (all_keys (upto pm ns)) \/ In k (all_keys (after pm ns)).
Proof.
  intros Hf Hin. rewrite (before_after_split _ _ _ Hf) in Hin. unfold upto. rewrite Hf.
  replace (before pm ns ++ PM :: after pm ns) with ((before pm ns ++ [PM]) ++ after pm ns) in Hin
    by (rewrite <- app_assoc; reflexivity).
  rewrite all_keys_app in Hin. apply in_app_or in Hin. exact Hin.
Qed.

(** a scan cut by the limit: every current key of the interval up to the last delivered key has been delivered *)
Lemma lim_cut_covered s G k d :
  WF (c_nodes (l_c s)) (c_fresh (l_c s)) -> RegCut s G -> Hcur (pjx s (cutcs (l_scan s) G)) ->
  In k (all_keys (c_nodes (l_c s))) -> in_interval (ls_l (l_scan s)) (ls_r (l_scan s)) k = true ->
  last_key (ls_res (l_scan s)) = Some d -> k <= d -> In k (ls_res (l_scan s)).
Proof.
  intros W C HC Hin Hi Hd Hle.
  destruct (InvC_upto _ (rc_C _ _ C) HC (rc_nv _ _ C)) as (rest&pm&vm&PM&Env&HfPM&R1).
  cbn [pjx cutcs c_scan c_nodes sc_res sc_l sc_r sc_nvset] in R1, HfPM, Env.
  destruct (rc_last _ _ C) as (rest'&Env'). rewrite Env' in Env. apply app_inj_tail in Env as [_ Epm].
  injection Epm as <- <-.
  assert (HsG : sorted_strict G = true) by apply (ia_sorted _ _ (rc_A _ _ C) eq_refl).
  assert (HdG : In d G).
  { destruct (last_key_some _ _ Hd) as (l'&El). apply (in_firstn (ls_max (l_scan s))).
    rewrite <- (rc_res _ _ C), El. apply in_or_app; right; left; reflexivity. }
  rewrite (rc_res _ _ C) in Hd |- *.
  destruct (in_all_keys_split _ _ _ k HfPM Hin) as [Hu|Ha].
  - apply (sorted_prefix_le _ _ k d HsG); auto.
  - exfalso. apply in_all_keys in Ha as (b&Hb&Hkb). apply in_lk in Hkb as [Lb Hkb].
    pose proof (rc_above _ _ C HC d HdG b Hb Lb) as Hdb.
    destruct (wf_ok _ _ W b (in_after _ _ _ Hb)) as [_ Hlob]. specialize (Hlob k Hkb). lia.
Qed.

(** L4, forward: no undetected insert.  The covered part of the interval is described as in L3: the whole interval if
    the scan was not cut by the limit, the keys up to the last delivered one if it was *)
Theorem lim_scan_no_phantom_insert_fwd : forall kss evs s k,
  kss_ok kss = true -> lrun (linit kss) evs = Some s ->
  ls_pc (l_scan s) = CDone -> ls_rtl (l_scan s) = false ->
  (forall id v, In (id, v) (ls_nvset (l_scan s)) ->
     exists n, find_node id (c_nodes (l_c s)) = Some n /\ cn_ver n = v) ->
  In k (all_keys (c_nodes (l_c s))) -> in_interval (ls_l (l_scan s)) (ls_r (l_scan s)) k = true ->
  (ls_max (l_scan s) = 0%nat \/ (length (ls_res (l_scan s)) < ls_max (l_scan s))%nat \/
   (exists lk, last_key (ls_res (l_scan s)) = Some lk /\ k <= lk)) ->
  In k (ls_res (l_scan s)).
Proof.
  intros kss evs s k Hk H Hpc Hr HC Hin Hi Hcov. destruct (reach_L _ _ _ Hk H) as (W&HL&[F|[(G&C)|R]]).
  - exact (InvC_no_phantom_insert (pj s) k W (rf_C _ F) Hpc HC Hin Hi).
  - destruct Hcov as [Hm|[Hlt|(d&Hd&Hle)]].
    + exfalso. apply (rc_max _ _ C Hm).
    + rewrite (rc_len _ _ C) in Hlt. lia.
    + exact (lim_cut_covered s G k d W C HC Hin Hi Hd Hle).
  - rewrite (rr_rtl _ R) in Hr. discriminate.
Qed.

Lemma expected_fwd sc ns :
  ls_rtl sc = false ->
  expected_result sc ns =
  if Nat.eqb (ls_max sc) 0 then filter (in_interval (ls_l sc) (ls_r sc)) (all_keys ns)
  else firstn (ls_max sc) (filter (in_interval (ls_l sc) (ls_r sc)) (all_keys ns)).
Proof. unfold expected_result, interval_keys. intros ->. reflexivity. Qed.

(** *** no remove since the invocation: the expected result exactly *)
Definition NRL (s : lstate) : Prop := forall k, In k (l_ever s) -> In k (all_keys (c_nodes (l_c s))).

Lemma lstep_validate_frame s s' : lstep s LValidate = Some s' -> exists sc', s' = set_lscan s sc'.
Proof.
  unfold lstep. cbv zeta. destruct (ls_pc (l_scan s)); try discriminate.
  destruct (find_node _ _) as [c|]; [|discriminate].
  destruct (cver_eqb _ _).
  - destruct (ls_rtl _); [intros H; injection H as <-; eexists; reflexivity|].
    destruct (match last_key _ with Some _ => _ | None => _ end).
    + destruct (lstart _ _ _ _ _ _); [|discriminate]. intros H; injection H as <-; eexists; reflexivity.
    + match goal with |- match ?x with _ => _ end = _ -> _ => destruct x end;
        intros H; injection H as <-; eexists; reflexivity.
  - destruct (_ || _).
    + destruct (lstart _ _ _ _ _ _); [|discriminate]. intros H; injection H as <-; eexists; reflexivity.
    + intros H; injection H as <-; eexists; reflexivity.
Qed.

Lemma NRL_step s e s' :
  WF (c_nodes (l_c s)) (c_fresh (l_c s)) -> (forall k, e <> LW (ERem k)) -> NRL s -> lstep s e = Some s' -> NRL s'.
Proof.
  intros W Hnr HN H. destruct e as [w|l r mx rtl| | |].
  - destruct (lw_sim s w s' (cs (l_scan s)) H (scanning_cs _)) as (Hw&Hc&Hl).
    assert (Hq : no_rem w) by (intros k ->; exact (Hnr k eq_refl)).
    exact (NR_step true (pj s) w (pjx s' (cs (l_scan s))) W Hq HN Hc).
  - apply lstep_begin in H as (_&_&n&_&->). intros k. cbn. auto.
  - apply lstep_read in H as (_&c&_&->). exact HN.
  - apply lstep_nextver in H as (_&->). exact HN.
  - apply lstep_validate_frame in H as (sc'&->). exact HN.
Qed.

Lemma lrun_app evs1 : forall s evs2,
  lrun s (evs1 ++ evs2) = match lrun s evs1 with Some s1 => lrun s1 evs2 | None => None end.
Proof.
  induction evs1 as [|e evs1 IH]; intros s evs2; cbn [app lrun]; [reflexivity|].
  destruct (lstep s e); [apply IH|reflexivity].
Qed.

Lemma NRL_run evs : forall s s',
  LInv s -> NRL s -> (forall k, ~ In (LW (ERem k)) evs) -> lrun s evs = Some s' -> NRL s'.
Proof.
  induction evs as [|e evs IH]; intros s s' I HN Hnr; cbn [lrun].
  - intros H. injection H as <-. exact HN.
  - destruct (lstep s e) as [s1|] eqn:E; [|discriminate]. intros H.
    apply (IH s1 s'); [eapply LInv_step; eauto| |intros k Hk; apply (Hnr k); right; exact Hk|exact H].
    apply (NRL_step s e s1); auto; [apply I|]. intros k ->. apply (Hnr k). left. reflexivity.
Qed.

Lemma NRL_since_begin kss pre l r mx rtl post s :
  kss_ok kss = true -> lrun (linit kss) (pre ++ LBegin l r mx rtl :: post) = Some s ->
  (forall k, ~ In (LW (ERem k)) post) -> NRL s.
Proof.
  intros Hk H Hnr. rewrite lrun_app in H. destruct (lrun (linit kss) pre) as [s0|] eqn:E0; [|discriminate].
  cbn [lrun] in H. destruct (lstep s0 (LBegin l r mx rtl)) as [s1|] eqn:E1; [|discriminate].
  pose proof (reach_L _ _ _ Hk E0) as I0. pose proof (LInv_step _ _ _ I0 E1) as I1.
  apply (NRL_run post s1 s I1); auto.
  apply lstep_begin in E1 as (_&_&n&_&->). intros k. cbn. auto.
Qed.

Lemma filter_le_prefix d l : sorted_strict l = true ->
  filter (fun x => x <=? d) l = firstn (length (filter (fun x => x <=? d) l)) l.
Proof.
  induction l as [|x l IH]; [reflexivity|]. intros Hs. apply sorted_cons in Hs as [H1 H2]. cbn [filter].
  destruct (N.leb_spec x d) as [Hle|Hgt].
  - cbn [length firstn]. f_equal. apply IH, H2.
  - rewrite (filter_none _ l); [reflexivity|]. intros y Hy. apply N.leb_gt. specialize (H1 y Hy). lia.
Qed.

(** a sorted list [R] inside a sorted list [IK] that holds every element of [IK] up to its last one is a prefix *)
Lemma sorted_prefix_char R IK :
  sorted_strict R = true -> sorted_strict IK = true -> (forall k, In k R -> In k IK) ->
  (forall k d, last_key R = Some d -> In k IK -> k <= d -> In k R) -> R = firstn (length R) IK.
Proof.
  intros HsR HsI Hsub Hcov. destruct (last_key R) as [d|] eqn:El.
  - assert (E : R = filter (fun x => x <=? d) IK).
    { apply sorted_ext; [exact HsR|apply sorted_filter, HsI|]. intros k. rewrite filter_In, N.leb_le. split.
      - intros Hk. split; [apply Hsub, Hk|]. destruct (last_key_some _ _ El) as (l'&El'). rewrite El' in HsR, Hk.
        apply sorted_app in HsR as (_&_&Hlt). apply in_app_or in Hk as [Hk|[<-|[]]]; [|lia].
        specialize (Hlt k d Hk (or_introl eq_refl)). lia.
      - intros [Hk Hle]. apply (Hcov k d); auto. }
    rewrite E. apply filter_le_prefix, HsI.
  - apply last_key_none in El. subst R. reflexivity.
Qed.

Lemma lim_cut_exact s G :
  WF (c_nodes (l_c s)) (c_fresh (l_c s)) -> RegCut s G -> Hcur (pjx s (cutcs (l_scan s) G)) -> NRL s ->
  ls_res (l_scan s) =
  firstn (ls_max (l_scan s)) (filter (in_interval (ls_l (l_scan s)) (ls_r (l_scan s))) (all_keys (c_nodes (l_c s)))).
Proof.
  intros W C HC HN. rewrite <- (rc_len _ _ C). apply sorted_prefix_char.
  - rewrite (rc_res _ _ C). apply sorted_firstn, (ia_sorted _ _ (rc_A _ _ C) eq_refl).
  - apply sorted_filter, (WF_sorted _ _ W).
  - intros k Hk. rewrite (rc_res _ _ C) in Hk. apply in_firstn in Hk.
    destruct (ia_res _ _ (rc_A _ _ C) k Hk) as [Hi He]. apply filter_In. split; [apply HN, He|exact Hi].
  - intros k d Hd Hk Hle. apply filter_In in Hk as [Hk Hi]. exact (lim_cut_covered s G k d W C HC Hk Hi Hd Hle).
Qed.

Theorem lim_scan_phantom_free_fwd_no_removes : forall kss pre l r mx rtl post s,
  kss_ok kss = true -> lrun (linit kss) (pre ++ LBegin l r mx rtl :: post) = Some s ->
  (forall k, ~ In (LW (ERem k)) post) ->
  ls_pc (l_scan s) = CDone -> ls_rtl (l_scan s) = false ->
  (forall id v, In (id, v) (ls_nvset (l_scan s)) ->
     exists n, find_node id (c_nodes (l_c s)) = Some n /\ cn_ver n = v) ->
  ls_res (l_scan s) = expected_result (l_scan s) (c_nodes (l_c s)).
Proof.
  intros kss pre l r mx rtl post s Hk H Hnr Hpc Hr HC.
  pose proof (NRL_since_begin _ _ _ _ _ _ _ _ Hk H Hnr) as HN.
  destruct (reach_L _ _ _ Hk H) as (W&HL&[F|[(G&C)|R]]).
  - rewrite (expected_fwd _ _ Hr).
    assert (E : ls_res (l_scan s) =
                filter (in_interval (ls_l (l_scan s)) (ls_r (l_scan s))) (all_keys (c_nodes (l_c s)))).
    { apply (phantom_free_core (pj s) W (rf_A _ F) HN). intros k Hin Hi.
      exact (InvC_no_phantom_insert (pj s) k W (rf_C _ F) Hpc HC Hin Hi). }
    rewrite <- E. destruct (rf_done _ F Hpc) as [Hm|Hlt].
    + rewrite Hm. reflexivity.
    + destruct (Nat.eqb_spec (ls_max (l_scan s)) 0); [reflexivity|]. symmetry. apply firstn_all2. lia.
  - rewrite (expected_fwd _ _ Hr).
    destruct (Nat.eqb_spec (ls_max (l_scan s)) 0) as [E0|_]; [destruct (rc_max _ _ C E0)|].
    exact (lim_cut_exact s G W C HC HN).
  - rewrite (rr_rtl _ R) in Hr. discriminate.
Qed.

(** ** 9. the right-to-left scan
    In this model a remove that empties a border and the unlink of that border are two events, so the LAST live border
    can be empty while earlier borders hold keys.  A right-to-left scan that validates such a border returns nothing:
    the clauses "greatest stable key" and "phantom protection" are FALSE as stated for the whole layer
    ([rtl_empty_last_border_counterexample]).  What holds: the scan returns the greatest key >= l of the last live
    border; this is the greatest key >= l of the layer whenever that border is non-empty.  (In the C++ code remove and
    unlink happen under one lock, so a reader never validates an empty non-root border.) *)
Definition rtl_cex : list lev := [LW (ERem 20); LBegin 0 None 1 true; LRead; LNextVer; LValidate].

Theorem rtl_empty_last_border_counterexample :
  exists s, kss_ok [[10; 12]; [20]] = true /\ lrun (linit [[10; 12]; [20]]) rtl_cex = Some s /\
    ls_pc (l_scan s) = CDone /\ ls_rtl (l_scan s) = true /\
    (forall id v, In (id, v) (ls_nvset (l_scan s)) ->
       exists n, find_node id (c_nodes (l_c s)) = Some n /\ cn_ver n = v) /\
    ls_res (l_scan s) = [] /\ expected_result (l_scan s) (c_nodes (l_c s)) = [12] /\
    In 12 (l_stable s) /\ ls_l (l_scan s) <= 12.
Proof.
  destruct (lrun (linit [[10; 12]; [20]]) rtl_cex) as [s|] eqn:E; [|vm_compute in E; discriminate].
  exists s. split; [reflexivity|]. split; [reflexivity|].
  assert (Some s = lrun (linit [[10; 12]; [20]]) rtl_cex) as H by (symmetry; exact E).
  vm_compute in H. injection H as ->. cbn [l_scan l_c l_stable ls_pc ls_rtl ls_nvset ls_res ls_l c_nodes].
  split; [reflexivity|]. split; [reflexivity|]. split.
  - intros id v [Hin|[]]. injection Hin as <- <-. eexists. split; reflexivity.
  - split; [reflexivity|]. split; [vm_compute; reflexivity|]. split; [right; left; reflexivity|].
    intros Hc. discriminate Hc.
Qed.

(** what the recorded (node, version) pair of a completed right-to-left scan protects: the border is still the last
    live one, and the snapshot [K] the result was taken from still contains all its keys *)
Lemma RegR_current s n :
  WF (c_nodes (l_c s)) (c_fresh (l_c s)) -> RegR s -> ls_pc (l_scan s) = CDone ->
  find_node (ls_cur (l_scan s)) (c_nodes (l_c s)) = Some n -> cn_ver n = ls_v (l_scan s) ->
  last_live None (c_nodes (l_c s)) = Some n /\
  (exists K, ls_res (l_scan s) = gr (ls_l (l_scan s)) K /\ sorted_strict K = true /\
     (forall k, In k (cn_keys n) -> In k K) /\ (forall x, In x K -> cn_lo n <= x) /\
     (forall x, In x K -> In x (l_ever s))) /\
  all_keys (c_nodes (l_c s)) = all_keys (before (ls_cur (l_scan s)) (c_nodes (l_c s))) ++ cn_keys n /\
  (forall a, In a (all_keys (before (ls_cur (l_scan s)) (c_nodes (l_c s)))) -> a < cn_lo n).
Proof.
  intros W R Hpc Hf Hv. destruct (rr_done _ R Hpc) as (Env&K&Er&HsK&HKe&HK&_).
  destruct (HK n Hf Hv) as [Q1 Q2].
  assert (Ln : live n = true) by (eapply live_of_ver; [exact Hv|apply (rr_live _ R)]).
  assert (Hn : next_ok None (after (ls_cur (l_scan s)) (c_nodes (l_c s)))).
  { apply (rr_last _ R n Hf). rewrite Hv. reflexivity. }
  pose proof (proj1 (next_ok_none _) Hn) as Hd.
  destruct (find_node_In _ _ _ Hf) as [Hin Hid].
  split; [|split; [|split]].
  - rewrite (before_after_split _ _ _ Hf). apply last_live_app; assumption.
  - exists K. auto.
  - rewrite (before_after_split _ _ _ Hf) at 1. rewrite all_keys_app, all_keys_cons.
    rewrite (all_keys_dead _ Hd), app_nil_r. unfold lk. rewrite Ln. reflexivity.
  - intros a Ha. exact (before_below _ _ _ _ _ W Hf Ln Ha).
Qed.

Lemma expected_rtl sc ns : ls_rtl sc = true -> expected_result sc ns = gr (ls_l sc) (all_keys ns).
Proof. unfold expected_result, gr. intros ->. reflexivity. Qed.

(** L4, right-to-left, true form 1: the recorded border is the current LAST live border, and no key >= l of it is
    above the delivered key (if it holds such a key, one is delivered) *)
Theorem rtl_scan_no_phantom_insert_partial : forall kss evs s,
  kss_ok kss = true -> lrun (linit kss) evs = Some s ->
  ls_pc (l_scan s) = CDone -> ls_rtl (l_scan s) = true ->
  (forall id v, In (id, v) (ls_nvset (l_scan s)) ->
     exists n, find_node id (c_nodes (l_c s)) = Some n /\ cn_ver n = v) ->
  exists n, last_live None (c_nodes (l_c s)) = Some n /\
    ls_nvset (l_scan s) = [(cn_id n, cn_ver n)] /\
    (forall k, In k (cn_keys n) -> ls_l (l_scan s) <= k -> exists d, ls_res (l_scan s) = [d] /\ k <= d).
Proof.
  intros kss evs s Hk H Hpc Hr HC. destruct (reach_L _ _ _ Hk H) as (W&HL&[F|[(G&C)|R]]).
  - rewrite (rf_rtl _ F) in Hr. discriminate.
  - rewrite (rc_rtl _ _ C) in Hr. discriminate.
  - destruct (rr_done _ R Hpc) as (Env&_).
    destruct (HC (ls_cur (l_scan s)) (ls_v (l_scan s))) as (n&Hf&Hv); [rewrite Env; left; reflexivity|].
    destruct (RegR_current s n W R Hpc Hf Hv) as (H1&(K&Er&HsK&Q1&_)&_). exists n.
    split; [exact H1|]. split.
    + rewrite Env, Hv. destruct (find_node_In _ _ _ Hf) as [_ ->]. reflexivity.
    + intros k Hkn Hlk. rewrite Er. destruct (gr_cases (ls_l (l_scan s)) K HsK) as [[_ Hlow]|(d&Eg&_&_&Hmax)].
      * specialize (Hlow k (Q1 k Hkn)). lia.
      * exists d. split; [exact Eg|apply Hmax, Q1, Hkn].
Qed.

(** ... and exactly the greatest key >= l of that border when no remove happened since the invocation *)
Theorem rtl_scan_phantom_free_partial_no_removes : forall kss pre l r mx rtl post s,
  kss_ok kss = true -> lrun (linit kss) (pre ++ LBegin l r mx rtl :: post) = Some s ->
  (forall k, ~ In (LW (ERem k)) post) ->
  ls_pc (l_scan s) = CDone -> ls_rtl (l_scan s) = true ->
  (forall id v, In (id, v) (ls_nvset (l_scan s)) ->
     exists n, find_node id (c_nodes (l_c s)) = Some n /\ cn_ver n = v) ->
  exists n, last_live None (c_nodes (l_c s)) = Some n /\
    ls_nvset (l_scan s) = [(cn_id n, cn_ver n)] /\
    ls_res (l_scan s) = match rev (filter (fun k => ls_l (l_scan s) <=? k) (cn_keys n)) with
                        | [] => [] | k :: _ => [k] end.
Proof.
  intros kss pre l r mx rtl post s Hk H Hnr Hpc Hr HC.
  pose proof (NRL_since_begin _ _ _ _ _ _ _ _ Hk H Hnr) as HN.
  destruct (reach_L _ _ _ Hk H) as (W&HL&[F|[(G&C)|R]]).
  - rewrite (rf_rtl _ F) in Hr. discriminate.
  - rewrite (rc_rtl _ _ C) in Hr. discriminate.
  - destruct (rr_done _ R Hpc) as (Env&_).
    destruct (HC (ls_cur (l_scan s)) (ls_v (l_scan s))) as (n&Hf&Hv); [rewrite Env; left; reflexivity|].
    destruct (RegR_current s n W R Hpc Hf Hv) as (H1&(K&Er&HsK&Q1&Q2&Q3)&H3&H4). exists n.
    split; [exact H1|]. split.
    + rewrite Env, Hv. destruct (find_node_In _ _ _ Hf) as [_ ->]. reflexivity.
    + assert (EK : K = cn_keys n).
      { apply sorted_ext; [exact HsK|apply (wf_ok _ _ W n), (find_node_In _ _ _ Hf)|].
        intros x. split; [|apply Q1]. intros Hx. pose proof (HN x (Q3 x Hx)) as Hall. rewrite H3 in Hall.
        apply in_app_or in Hall as [Hall|Hall]; [|exact Hall]. specialize (H4 x Hall). specialize (Q2 x Hx). lia. }
      rewrite Er, EK. reflexivity.
Qed.

(** L4 for both directions: no undetected insert into the covered part; right-to-left under the hypothesis that the
    recorded border is not empty, the delivered key is not below any current key >= l of the layer *)
Theorem lim_scan_no_phantom_insert : forall kss evs s k,
  kss_ok kss = true -> lrun (linit kss) evs = Some s ->
  ls_pc (l_scan s) = CDone ->
  (forall id v, In (id, v) (ls_nvset (l_scan s)) ->
     exists n, find_node id (c_nodes (l_c s)) = Some n /\ cn_ver n = v) ->
  (ls_rtl (l_scan s) = true ->
     forall id v n, In (id, v) (ls_nvset (l_scan s)) -> find_node id (c_nodes (l_c s)) = Some n -> cn_keys n <> []) ->
  In k (all_keys (c_nodes (l_c s))) -> in_interval (ls_l (l_scan s)) (ls_r (l_scan s)) k = true ->
  (ls_rtl (l_scan s) = false ->
     ls_max (l_scan s) = 0%nat \/ (length (ls_res (l_scan s)) < ls_max (l_scan s))%nat \/
     (exists lk, last_key (ls_res (l_scan s)) = Some lk /\ k <= lk)) ->
  if ls_rtl (l_scan s) then exists d, ls_res (l_scan s) = [d] /\ k <= d else In k (ls_res (l_scan s)).
Proof.
  intros kss evs s k Hk H Hpc HC Hne Hin Hi Hcov. destruct (ls_rtl (l_scan s)) eqn:Hr.
  - destruct (reach_L _ _ _ Hk H) as (W&HL&[F|[(G&C)|R]]).
    + rewrite (rf_rtl _ F) in Hr. discriminate.
    + rewrite (rc_rtl _ _ C) in Hr. discriminate.
    + destruct (rr_done _ R Hpc) as (Env&_).
      assert (Hrec : In (ls_cur (l_scan s), ls_v (l_scan s)) (ls_nvset (l_scan s))) by (rewrite Env; left; reflexivity).
      destruct (HC _ _ Hrec) as (n&Hf&Hv).
      destruct (RegR_current s n W R Hpc Hf Hv) as (_&(K&Er&HsK&Q1&Q2&_)&H3&H4).
      pose proof (in_interval_l _ _ _ Hi) as Hlk.
      (* a key x of the snapshot with k <= x *)
      assert (Hx : exists x, In x K /\ k <= x).
      { rewrite H3 in Hin. apply in_app_or in Hin as [Hb|Hn]; [|exists k; split; [apply Q1, Hn|lia]].
        pose proof (Hne eq_refl _ _ n Hrec Hf) as Hnn. destruct (cn_keys n) as [|x0 tl0] eqn:Ekn; [contradiction|].
        exists x0. specialize (Q1 x0 (or_introl eq_refl)). split; [exact Q1|].
        specialize (H4 k Hb). specialize (Q2 x0 Q1). lia. }
      destruct Hx as (x&HxK&Hkx). rewrite Er.
      destruct (gr_cases (ls_l (l_scan s)) K HsK) as [[_ Hlow]|(d&Eg&_&_&Hmax)].
      * specialize (Hlow x HxK). lia.
      * exists d. split; [exact Eg|]. specialize (Hmax x HxK). lia.
  - exact (lim_scan_no_phantom_insert_fwd kss evs s k Hk H Hpc Hr HC Hin Hi (Hcov eq_refl)).
Qed.

(** L4 for both directions, exact, when no remove happened since the invocation *)
Theorem lim_scan_phantom_free_no_removes : forall kss pre l r mx rtl post s,
  kss_ok kss = true -> lrun (linit kss) (pre ++ LBegin l r mx rtl :: post) = Some s ->
  (forall k, ~ In (LW (ERem k)) post) ->
  ls_pc (l_scan s) = CDone ->
  (forall id v, In (id, v) (ls_nvset (l_scan s)) ->
     exists n, find_node id (c_nodes (l_c s)) = Some n /\ cn_ver n = v) ->
  (ls_rtl (l_scan s) = true ->
     forall id v n, In (id, v) (ls_nvset (l_scan s)) -> find_node id (c_nodes (l_c s)) = Some n -> cn_keys n <> []) ->
  ls_res (l_scan s) = expected_result (l_scan s) (c_nodes (l_c s)).
Proof.
  intros kss pre l r mx rtl post s Hk H Hnr Hpc HC Hne. destruct (ls_rtl (l_scan s)) eqn:Hr.
  - destruct (rtl_scan_phantom_free_partial_no_removes _ _ _ _ _ _ _ _ Hk H Hnr Hpc Hr HC) as (n&Hl&Env&Eres).
    destruct (reach_L _ _ _ Hk H) as (W&HL&[F|[(G&C)|R]]).
    + rewrite (rf_rtl _ F) in Hr. discriminate.
    + rewrite (rc_rtl _ _ C) in Hr. discriminate.
    + destruct (rr_done _ R Hpc) as (Env'&_).
      assert (Hrec : In (ls_cur (l_scan s), ls_v (l_scan s)) (ls_nvset (l_scan s))) by (rewrite Env'; left; reflexivity).
      destruct (HC _ _ Hrec) as (n'&Hf&Hv).
      destruct (RegR_current s n' W R Hpc Hf Hv) as (Hl'&_&H3&H4).
      rewrite Hl in Hl'. injection Hl' as <-.
      rewrite (expected_rtl _ _ Hr), H3. fold (gr (ls_l (l_scan s)) (cn_keys n)) in Eres. rewrite Eres.
      symmetry. apply gr_app; [|exact (Hne eq_refl _ _ n Hrec Hf)].
      intros a b Ha Hb. specialize (H4 a Ha). destruct (wf_ok _ _ W n (proj1 (find_node_In _ _ _ Hf))) as [_ Hlo].
      specialize (Hlo b Hb). lia.
  - exact (lim_scan_phantom_free_fwd_no_removes kss pre l r mx rtl post s Hk H Hnr Hpc Hr HC).
Qed.

(** the exact form without the no-remove hypothesis is false in both directions: the scan completes, a key it has
    delivered is removed; every recorded version is still current *)
Theorem lim_phantom_free_with_remove_refuted :
  exists evs s, lrun (linit [[10]; [20; 30]]) evs = Some s /\ ls_pc (l_scan s) = CDone /\ ls_rtl (l_scan s) = false /\
    (forall id v, In (id, v) (ls_nvset (l_scan s)) ->
       exists n, find_node id (c_nodes (l_c s)) = Some n /\ cn_ver n = v) /\
    ls_res (l_scan s) = [10; 20] /\ expected_result (l_scan s) (c_nodes (l_c s)) = [10; 30].
Proof.
  set (tr := [LBegin 0 None 2 false; LRead; LNextVer; LValidate; LRead; LNextVer; LValidate; LW (ERem 20)]).
  exists tr. destruct (lrun (linit [[10]; [20; 30]]) tr) as [s|] eqn:E; [|vm_compute in E; discriminate].
  exists s. split; [reflexivity|].
  assert (Some s = lrun (linit [[10]; [20; 30]]) tr) as H by (symmetry; exact E).
  vm_compute in H. injection H as ->. cbn [l_scan l_c ls_pc ls_rtl ls_nvset ls_res c_nodes].
  split; [reflexivity|]. split; [reflexivity|]. split.
  { intros id v [Hin|[Hin|[]]]; injection Hin as <- <-; eexists; (split; [vm_compute; reflexivity|reflexivity]). }
  split; [reflexivity|vm_compute; reflexivity].
Qed.

Theorem rtl_phantom_free_with_remove_refuted :
  exists evs s, lrun (linit [[10]; [20; 30]]) evs = Some s /\ ls_pc (l_scan s) = CDone /\ ls_rtl (l_scan s) = true /\
    (forall id v, In (id, v) (ls_nvset (l_scan s)) ->
       exists n, find_node id (c_nodes (l_c s)) = Some n /\ cn_ver n = v /\ cn_keys n <> []) /\
    ls_res (l_scan s) = [30] /\ expected_result (l_scan s) (c_nodes (l_c s)) = [20].
Proof.
  set (tr := [LBegin 0 None 1 true; LRead; LNextVer; LValidate; LW (ERem 30)]).
  exists tr. destruct (lrun (linit [[10]; [20; 30]]) tr) as [s|] eqn:E; [|vm_compute in E; discriminate].
  exists s. split; [reflexivity|].
  assert (Some s = lrun (linit [[10]; [20; 30]]) tr) as H by (symmetry; exact E).
  vm_compute in H. injection H as ->. cbn [l_scan l_c ls_pc ls_rtl ls_nvset ls_res c_nodes].
  split; [reflexivity|]. split; [reflexivity|]. split.
  { intros id v [Hin|[]]; injection Hin as <- <-; eexists.
    split; [vm_compute; reflexivity|]. split; [reflexivity|]. cbn. discriminate. }
  split; [reflexivity|vm_compute; reflexivity].
Qed.

(** L3, right-to-left, true form 1: a delivered key is not below any stable key of [l, +inf) *)
Theorem rtl_scan_greatest_stable_partial : forall kss evs s k,
  kss_ok kss = true -> lrun (linit kss) evs = Some s ->
  ls_pc (l_scan s) = CDone -> ls_rtl (l_scan s) = true -> In k (l_stable s) -> ls_l (l_scan s) <= k ->
  ls_res (l_scan s) <> [] ->
  exists d, ls_res (l_scan s) = [d] /\ k <= d.
Proof.
  intros kss evs s k Hk H Hpc Hr Hin Hl Hne. destruct (reach_L _ _ _ Hk H) as (W&HL&[F|[(G&C)|R]]).
  - rewrite (rf_rtl _ F) in Hr. discriminate.
  - rewrite (rc_rtl _ _ C) in Hr. discriminate.
  - destruct (rr_done _ R Hpc) as (_&K&Er&_&_&_&Hst). apply Hst; auto.
    intros ->. rewrite gr_nil in Er. contradiction.
Qed.

(** L3, right-to-left, true form 2: if the border was not empty at the validated instant, the scan returns a key
    that is not below any stable key of [l, +inf) -- in particular it returns something if there is such a key *)
Lemma done_persist evs : forall s s',
  lrun s evs = Some s' -> ls_pc (l_scan s) = CDone ->
  l_scan s' = l_scan s /\ forall k, In k (l_stable s') -> In k (l_stable s).
Proof.
  induction evs as [|e evs IH]; intros s s'; cbn [lrun].
  - intros H _. injection H as <-. auto.
  - destruct (lstep s e) as [s1|] eqn:E; [|discriminate]. intros H Hpc.
    assert (E1 : l_scan s1 = l_scan s /\ forall k, In k (l_stable s1) -> In k (l_stable s)).
    { destruct e; cbn [lstep] in E; rewrite ?Hpc in E; try discriminate.
      destruct (lwriter e); [|discriminate]. destruct (cstep true (l_c s) e); [|discriminate].
      injection E as <-. cbn. split; [reflexivity|]. intros k Hk. destruct e; auto.
      apply in_remove_key in Hk. apply Hk. }
    destruct E1 as [E1 E2]. destruct (IH s1 s' H) as [E3 E4]; [rewrite E1; exact Hpc|].
    split; [congruence|auto].
Qed.

Theorem rtl_scan_greatest_stable_validated : forall kss evs1 s1 s2 evs2 s k,
  kss_ok kss = true -> lrun (linit kss) evs1 = Some s1 ->
  lstep s1 LValidate = Some s2 -> ls_rtl (l_scan s1) = true -> ls_pc (l_scan s2) = CDone ->
  ls_snap (l_scan s1) <> [] ->
  lrun s2 evs2 = Some s ->
  In k (l_stable s) -> ls_l (l_scan s) <= k ->
  exists d, ls_res (l_scan s) = [d] /\ k <= d.
Proof.
  intros kss evs1 s1 s2 evs2 s k Hk H1 Hst Hr Hpc Hsn H2 Hin Hl.
  destruct (reach_L _ _ _ Hk H1) as (W&HL&[F|[(G&C)|R]]).
  - rewrite (rf_rtl _ F) in Hr. discriminate.
  - rewrite (rc_rtl _ _ C) in Hr. discriminate.
  - destruct (done_persist _ _ _ H2 Hpc) as [Esc Estab]. rewrite Esc in *.
    pose proof (lvalidate_rtl s1 s2 Hst Hr) as Hv. cbv zeta in Hv. destruct Hv as (Hpc1&c&Hf&Hcases).
    destruct Hcases as [(n&Hn&->)|[(Hv&->)|(Hv&Hdel&Hspl&->)]]; try discriminate.
    cbn [set_lscan l_scan l_stable ls_fin ls_res ls_l] in *.
    apply (rtl_finish_stable s1 c W R Hpc1 Hf Hv Hsn k); [apply Estab, Hin|exact Hl].
Qed.

(** the hypotheses of the two right-to-left theorems are satisfiable: the run [rtl_trace] *)
Example rtl_validated_nonvacuous :
  exists evs1 s1 s2, lrun (linit [[10; 12]; [20; 30; 40]]) evs1 = Some s1 /\ lstep s1 LValidate = Some s2 /\
    ls_rtl (l_scan s1) = true /\ ls_pc (l_scan s2) = CDone /\ ls_snap (l_scan s1) <> [] /\
    ls_res (l_scan s2) = [50] /\ In 40 (l_stable s2).
Proof.
  exists (removelast rtl_trace).
  destruct (lrun (linit [[10; 12]; [20; 30; 40]]) (removelast rtl_trace)) as [s1|] eqn:E;
    [|vm_compute in E; discriminate].
  exists s1.
  assert (Some s1 = lrun (linit [[10; 12]; [20; 30; 40]]) (removelast rtl_trace)) as H by (symmetry; exact E).
  vm_compute in H.
  destruct (lstep s1 LValidate) as [s2|] eqn:E2; [|injection H as ->; vm_compute in E2; discriminate].
  exists s2. split; [reflexivity|]. split; [reflexivity|].
  injection H as ->.
  assert (Some s2 = lstep {| l_c := _; l_scan := _; l_stable := _; l_ever := _ |} LValidate) as H2
    by (symmetry; exact E2).
  vm_compute in H2. injection H2 as ->. vm_compute.
  split; [reflexivity|]. split; [reflexivity|]. split; [discriminate|]. split; [reflexivity|].
  right. right. right. right. left. reflexivity.
Qed.

Print Assumptions lim_scan_ascending.
Print Assumptions lim_scan_sound.
Print Assumptions rtl_scan_at_most_one.
Print Assumptions lim_scan_no_lost_stable_key.
Print Assumptions lim_scan_no_phantom_insert_fwd.
Print Assumptions lim_scan_phantom_free_fwd_no_removes.
Print Assumptions rtl_scan_no_phantom_insert_partial.
Print Assumptions rtl_scan_phantom_free_partial_no_removes.
Print Assumptions lim_scan_no_phantom_insert.
Print Assumptions lim_scan_phantom_free_no_removes.
Print Assumptions lim_phantom_free_with_remove_refuted.
Print Assumptions rtl_phantom_free_with_remove_refuted.
Print Assumptions rtl_scan_greatest_stable_partial.
Print Assumptions rtl_scan_greatest_stable_validated.
Print Assumptions rtl_empty_last_border_counterexample.
Print Assumptions lim_nonvacuous.
Print Assumptions rtl_nonvacuous.
Print Assumptions rtl_validated_nonvacuous.
