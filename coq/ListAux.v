(** * ListAux: list lemmas missing from the 8.16 standard library *)
From Coq Require Import PeanoNat Lia List.
Import ListNotations.

Lemma nth_firstn {A} (d : A) l n i :
  nth i (firstn n l) d = if i <? n then nth i l d else d.
Proof.
  revert n i. induction l as [|a l IH]; intros n i.
  - rewrite firstn_nil. destruct i; destruct (_ <? _); reflexivity.
  - destruct n as [|n].
    + cbn [firstn]. destruct i; reflexivity.
    + destruct i as [|i]; [reflexivity|]. cbn [firstn nth]. rewrite IH.
      destruct (Nat.ltb_spec i n); destruct (Nat.ltb_spec (S i) (S n)); try lia; reflexivity.
Qed.

Lemma nth_skipn {A} (d : A) l n i : nth i (skipn n l) d = nth (n + i) l d.
Proof.
  revert l. induction n as [|n IH]; intros l; [reflexivity|].
  destruct l as [|a l]; [destruct i; reflexivity|]. cbn [skipn]. rewrite IH. reflexivity.
Qed.

Definition insert_at {A} (r : nat) (x : A) (l : list A) : list A := firstn r l ++ x :: skipn r l.
Definition remove_at {A} (r : nat) (l : list A) : list A := firstn r l ++ skipn (S r) l.

Lemma list_ext_nth {A} (d : A) (l1 l2 : list A) :
  length l1 = length l2 ->
  (forall i, (i < length l1)%nat -> nth i l1 d = nth i l2 d) -> l1 = l2.
Proof.
  intros Hlen H. apply (nth_ext l1 l2 d d Hlen). exact H.
Qed.

Lemma nth_insert_at {A} (d x : A) l r i :
  (r <= length l)%nat ->
  nth i (insert_at r x l) d =
    if (i <? r)%nat then nth i l d else if (i =? r)%nat then x else nth (i - 1)%nat l d.
Proof.
  intros Hr. unfold insert_at.
  destruct (Nat.ltb_spec i r) as [H|H].
  - rewrite app_nth1 by (rewrite firstn_length; lia).
    rewrite nth_firstn. destruct (Nat.ltb_spec i r); [reflexivity|lia].
  - rewrite app_nth2 by (rewrite firstn_length; lia).
    rewrite firstn_length, Nat.min_l by lia.
    destruct (Nat.eqb_spec i r) as [->|Hne].
    + rewrite Nat.sub_diag. reflexivity.
    + destruct (i - r)%nat as [|k] eqn:E; [lia|]. cbn [nth].
      rewrite nth_skipn. f_equal. lia.
Qed.

Lemma nth_remove_at {A} (d : A) l r i :
  (r < length l)%nat ->
  nth i (remove_at r l) d = if (i <? r)%nat then nth i l d else nth (S i) l d.
Proof.
  intros Hr. unfold remove_at.
  destruct (Nat.ltb_spec i r) as [H|H].
  - rewrite app_nth1 by (rewrite firstn_length; lia).
    rewrite nth_firstn. destruct (Nat.ltb_spec i r); [reflexivity|lia].
  - rewrite app_nth2 by (rewrite firstn_length; lia).
    rewrite firstn_length, Nat.min_l by lia.
    rewrite nth_skipn. f_equal. lia.
Qed.

Lemma insert_at_length {A} r (x : A) l : (r <= length l)%nat -> length (insert_at r x l) = S (length l).
Proof.
  intros. unfold insert_at. rewrite app_length. cbn [length].
  rewrite firstn_length, skipn_length. lia.
Qed.

Lemma remove_at_length {A} r (l : list A) : (r < length l)%nat -> length (remove_at r l) = (length l - 1)%nat.
Proof.
  intros. unfold remove_at. rewrite app_length, firstn_length, skipn_length. lia.
Qed.

