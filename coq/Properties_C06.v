(** * C06 -- a scan and a concurrent insert into the scanned range: once both
    have completed, the scan's result contains the key or the node version
    recorded by the scan differs from the node's current version.
    Model: BorderScanDefs.v.  [SDone v res]: the scan of the node completed with
    result [res] and recorded insert counter [v]. *)
From Coq Require Import NArith List.
From Yk Require Import BorderDefs BorderProofs BorderScanDefs BorderScanProofs.
Import ListNotations.
Local Open Scope N_scope.

(** In every reachable state in which scanner [t] holds a completed scan
    (v, res): the recorded counter is not ahead of the node's, and for every
    key that is bound now but missing from [res]
    - the node's insert counter differs from [v], or the dirty bit is set (the
      insert has stored its permutation and is about to unlock, which bumps the
      counter; a stable re-read of the version waits for that);
    - if the lock is free (every writer has completed its critical section, in
      particular the insert has returned) the counter differs from [v].
    The converse direction does not hold (a remove does not bump the counter). *)
Theorem C06_border_seen_or_stale :
  forall s t v res, reach2 s -> sc_pc (scn s t) = SDone v res ->
    v <= b_vins (base s) /\
    forall k, bm (base s) k <> None -> ~ In k (map fst res) ->
      (b_vins (base s) <> v \/ b_insdel (base s) = true) /\
      (b_locked (base s) = false -> b_vins (base s) <> v).
Proof. exact scan_seen_or_stale. Qed.
Print Assumptions C06_border_seen_or_stale.

(** The form without the dirty-bit disjunct is false: between the insert's
    permutation store and its unlock the key is bound, missing from the result,
    and the counter still equals the recorded one (dirty bit and lock set). *)
Theorem C06_naive_form_refuted :
  exists s, reach2 s /\
    exists t v res k,
      sc_pc (scn s t) = SDone v res /\
      bm (base s) k <> None /\ ~ In k (map fst res) /\
      b_vins (base s) = v /\ b_insdel (base s) = true /\ b_locked (base s) = true.
Proof. exact naive_seen_or_stale_refuted. Qed.
Print Assumptions C06_naive_form_refuted.

(** The insert counter never decreases (so "differs" means "is larger", and a
    version that became stale stays stale). *)
Theorem C06_counter_monotone :
  forall tr s s', srun2 s tr = Some s' -> b_vins (base s) <= b_vins (base s').
Proof. exact scan_counter_run. Qed.
Print Assumptions C06_counter_monotone.

(** Non-vacuity: keys 5 and 9 bound; scanner 0 collects both and completes with
    recorded counter 2 while thread 2 (insert of 2 -> 4) is waiting to take the
    lock; then the insert runs.  After its permutation store (transient state)
    the counter is still 2 with the dirty bit set; after its unlock and return
    the key 2 is bound, missing from the result, and the counter is 3 <> 2. *)
Definition c06_trace : list sev2 := transient_trace ++ sbsteps 2 1 ++ [EBase (BReturn 2)].

Example C06_nonvacuous :
  match srun2 sinit2 transient_trace, srun2 sinit2 c06_trace with
  | Some s1, Some s =>
    (sc_pc (scn s1 0%nat) = SDone 2 [(5, 7); (9, 3)] /\ bm (base s1) 2 = Some 4 /\
     b_vins (base s1) = 2 /\ b_insdel (base s1) = true) /\
    sc_pc (scn s 0%nat) = SDone 2 [(5, 7); (9, 3)] /\
    bm (base s) 2 = Some 4 /\ sc_seen (scn s 0%nat) 2 = [Some 4; None] /\
    b_vins (base s) = 3 /\ b_insdel (base s) = false /\ b_locked (base s) = false /\
    t_pc (b_thr (base s) 2%nat) = PIdle
  | _, _ => False
  end.
Proof. vm_compute. repeat split. Qed.

(** ** Multi-node form (ChainProofs): along the whole leaf chain, under inserts, removes, splits and unlinks in
    any interleaving: a key of the interval that is present now and is not in the result of the completed scan
    leaves at least one recorded pair stale (removes do not change versions, so only inserts are detectable: the
    statement of the property). *)
From Yk Require Import ChainDefs ChainProofs.

Theorem C06_chain_seen_or_stale : forall kss evs s k,
  kss_ok kss = true -> crun true (cinit kss) evs = Some s ->
  sc_pc (c_scan s) = CDone ->
  In k (all_keys (c_nodes s)) -> in_interval (sc_l (c_scan s)) (sc_r (c_scan s)) k = true ->
  In k (sc_res (c_scan s)) \/
  ~ (forall id v, In (id, v) (sc_nvset (c_scan s)) ->
       exists n, find_node id (c_nodes s) = Some n /\ cn_ver n = v).
Proof.
  intros kss evs s k Hk Hr Hd Hin Hiv.
  destruct (in_dec N.eq_dec k (sc_res (c_scan s))) as [Hy | Hn]; [left; exact Hy | right].
  intros Hall. apply Hn. exact (chain_scan_no_phantom_insert kss evs s k Hk Hr Hd Hall Hin Hiv).
Qed.
Print Assumptions C06_chain_seen_or_stale.

(** consequently, when no remove happened since the invocation, a transaction that finds all recorded pairs
    unchanged has read exactly the set of keys that exist in the interval *)
Theorem C06_chain_exact_when_no_removes : forall kss pre l r post s,
  kss_ok kss = true -> crun true (cinit kss) (pre ++ EBegin l r :: post) = Some s -> sc_pc (c_scan s) = CDone ->
  (forall k, ~ In (ERem k) post) ->
  (forall id v, In (id, v) (sc_nvset (c_scan s)) -> exists n, find_node id (c_nodes s) = Some n /\ cn_ver n = v) ->
  sc_res (c_scan s) = filter (in_interval (sc_l (c_scan s)) (sc_r (c_scan s))) (all_keys (c_nodes s)).
Proof. exact chain_scan_phantom_free_no_removes_since_begin. Qed.
Print Assumptions C06_chain_exact_when_no_removes.

(** size-limited and right-to-left scans (ChainLimProofs) *)
From Yk Require Import ChainLimDefs ChainLimProofs.
Theorem C06_chain_limited_seen_or_stale : forall kss evs s k,
  kss_ok kss = true -> lrun (linit kss) evs = Some s -> ls_pc (l_scan s) = CDone -> ls_rtl (l_scan s) = false ->
  (forall id v, In (id, v) (ls_nvset (l_scan s)) -> exists n, find_node id (c_nodes (l_c s)) = Some n /\ cn_ver n = v) ->
  In k (all_keys (c_nodes (l_c s))) -> in_interval (ls_l (l_scan s)) (ls_r (l_scan s)) k = true ->
  (ls_max (l_scan s) = 0%nat \/ (length (ls_res (l_scan s)) < ls_max (l_scan s))%nat \/
   (exists lk, last_key (ls_res (l_scan s)) = Some lk /\ k <= lk)) ->
  In k (ls_res (l_scan s)).
Proof. exact lim_scan_no_phantom_insert_fwd. Qed.
Print Assumptions C06_chain_limited_seen_or_stale.
