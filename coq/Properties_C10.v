(** * C10 -- the cursor API (iscan) enumerates the scan interval in both directions.
    (Property theorems; the enumeration theorem iscan_all = Spec is added by IScanProofs.) *)
From Coq Require Import NArith List.
From Yk Require Import SysDefs SpecDefs IScanDefs.
Import ListNotations.
Local Open Scope N_scope.

(** The reverse cursor of the pinned source skipped every key with an all-0xFF
    8-byte slice below layer 0: it entered a child layer at key_tuple::max(), which
    IS the tuple of such a link, and the start-side test is strict (finding F5).
    [iscan_all_orig] is that behaviour; [iscan_all] is the current source. *)
Definition c10_p8 : key := [112;112;112;112;112;112;112;112].
Definition c10_ff8 : key := [255;255;255;255;255;255;255;255].
Definition c10_build : list op :=
  [OCreate [115];
   OPut [115] (c10_p8 ++ c10_ff8 ++ [122]) [1] 1 false false;
   OPut [115] (c10_p8 ++ [97]) [2] 1 false false;
   OPut [115] [97] [3] 1 false false].
Definition c10_args : iscan_args :=
  {| ia_l := []; ia_le := EP_INF; ia_r := []; ia_re := EP_INF; ia_rtl := true; ia_lnull := false; ia_rnull := false |}.
Definition c10_spec_args : scan_args :=
  {| sa_l := []; sa_le := EP_INF; sa_r := []; sa_re := EP_INF; sa_max := 0%nat; sa_rtl := false;
     sa_lnull := false; sa_rnull := false |}.

Definition keys_of (r : option (status * list (key * value) * list (N * N))) : option (list key) :=
  option_map (fun x => map fst (snd (fst x))) r.

Theorem C10_original_reverse_ff_slice_refuted :
  exists tr m,
    trees_get (sy_trees (fst (exec_all sys_init c10_build))) 1 = Some tr /\
    ssys_get (sp_map (fst (spec_exec_all spec_init c10_build))) [115] = Some m /\
    keys_of (iscan_all_orig tr c10_args) <> Some (rev (map fst (spec_scan_list m c10_spec_args))) /\
    keys_of (iscan_all tr c10_args) = Some (rev (map fst (spec_scan_list m c10_spec_args))).
Proof.
  eexists. eexists. split; [vm_compute; reflexivity|]. split; [vm_compute; reflexivity|].
  split; [vm_compute; intros H; discriminate H|vm_compute; reflexivity].
Qed.
Print Assumptions C10_original_reverse_ff_slice_refuted.

(** ** The refinement theorem for the quiescent sentence (IScanProofs): on every store reached by puts and
    removes, for every interval (all endpoint kinds, keys of any length) and both directions, the cursor driven
    to its end delivers exactly the interval's entries -- ascending left-to-right, descending right-to-left --
    each with its value and with full_key = the entry's key; it rejects exactly what scan rejects. *)
From Yk Require Import KeyProofs TreeDefs ScanDefs SpecDefs IScanDefs StoreProofs ScanProofs IScanProofs.

Theorem C10_cursor_is_interval_enumeration : forall ctr tr a,
  WF_store ctr tr -> iscan_inv tr -> bytes (ia_l a) -> bytes (ia_r a) ->
  exists st kvs cbs, iscan_all tr a = Some (st, kvs, cbs) /\
    match iscan_validate a with
    | Some s => st = s /\ kvs = []
    | None => st = St_OK /\ map (fun kv => (fst kv, abs_value (snd kv))) kvs = spec_iscan_list (abs_tree tr) a
    end.
Proof. exact iscan_refines_inv. Qed.
Print Assumptions C10_cursor_is_interval_enumeration.

(** the side invariant holds initially and is preserved by the store operations *)
Theorem C10_iscan_inv_reachable :
  iscan_inv null_tree /\ (forall id, iscan_inv (empty_tree id)) /\
  (forall ctr tr k v unique tr' po ctr',
     WF_store ctr tr -> bytes k -> put tr k v unique ctr = Some (tr', po, ctr') -> iscan_inv tr -> iscan_inv tr') /\
  (forall tr k tr' ro, remove tr k = Some (tr', ro) -> iscan_inv tr -> iscan_inv tr').
Proof.
  split; [exact iscan_inv_null|]. split; [exact iscan_inv_empty|]. split; [exact put_iscan_inv|exact remove_iscan_inv].
Qed.
Print Assumptions C10_iscan_inv_reachable.

(** the cursor rejects exactly the argument combinations scan rejects (without scan's right-to-left restriction) *)
Theorem C10_validate : forall a,
  (iscan_validate a = None <-> spec_scan_args_ok (iscan_to_scan a) = true) /\
  (spec_scan_args_ok (iscan_to_scan a) = false -> iscan_validate a = Some St_ERR_BAD_USAGE) /\
  (forall s, iscan_validate a = Some s -> s = St_ERR_BAD_USAGE).
Proof. exact iscan_validate_spec. Qed.
Print Assumptions C10_validate.

(** ** Finding F12: the cursor's node-version set.  With both endpoints inside ONE next-layer slice that holds no entry
    (["abcdefghx", "abcdefghz"], both inclusive, nothing under "abcdefgh") the pinned cursor made no callback at all:
    the tuples of the two endpoints are equal (both the link tuple of the slice), and "the callback range is empty"
    was concluded from that.  [iscan_all_orig] is the pinned behaviour, [iscan_all] the repaired one. *)
Definition c10_f12_tree : tree :=
  match put (empty_tree 1) [97] {| v_id := 2; v_bytes := [1]; v_align := 8; v_inline := false |} false 3 with
  | Some (tr, _, _) => tr
  | None => null_tree
  end.
Definition c10_f12_args : iscan_args :=
  {| ia_l := [97;98;99;100;101;102;103;104;120]; ia_le := EP_INCL;
     ia_r := [97;98;99;100;101;102;103;104;122]; ia_re := EP_INCL; ia_rtl := false; ia_lnull := false; ia_rnull := false |}.
Theorem C10_original_cursor_empty_nodeset_refuted :
  (exists st kvs, iscan_all_orig c10_f12_tree c10_f12_args = Some (st, kvs, [])) /\
  (exists st kvs cb cbs, iscan_all c10_f12_tree c10_f12_args = Some (st, kvs, cb :: cbs)).
Proof. split; vm_compute; repeat eexists. Qed.
Print Assumptions C10_original_cursor_empty_nodeset_refuted.

(** ** Finding F13 (found by a proof attempt): outside the layer that holds the range end the end tuple is only a
    sentinel, (0xff..ff, 9) left to right; a start key whose slice in such a layer is all 0xff and continues had
    exactly that tuple, and with an inclusive end the pinned cursor concluded "callback range empty": the border in
    which keys of the interval land was not reported.  Pinned source: not reported; repaired source: reported. *)
From Yk Require Import IScanPhantomProofs.
Theorem C10_original_cursor_ff_slice_refuted :
  ff_landing_reported true = Some false /\ ff_landing_reported false = Some true.
Proof. exact iscan_ff_slice_repaired. Qed.
Print Assumptions C10_original_cursor_ff_slice_refuted.
