(** * VersionDefs: the 64-bit node version word (include/version.h).
    Layout (confirmed against the compiled bit-field by ConstsCheck.v):
    vinsert_delete 0..28 | locked 29 | inserting_deleting 30 | splitting 31 |
    vsplit 32..60 | deleted 61 | root 62 | border 63 *)
From Yk Require Export Word64.
Local Open Scope N_scope.

Definition vins_lo : N := 0.   Definition vins_len : N := 29.
Definition locked_bit : N := 29.
Definition insdel_bit : N := 30.
Definition splitting_bit : N := 31.
Definition vsplit_lo : N := 32. Definition vsplit_len : N := 29.
Definition deleted_bit : N := 61.
Definition root_bit : N := 62.
Definition border_bit : N := 63.

Definition b2n (b : bool) : N := if b then 1 else 0.
Definition get_bit (w pos : N) : bool := N.testbit w pos.
Definition set_bit (w pos : N) (b : bool) : N := set_field w pos 1 (b2n b).

Definition get_vinsert_delete (w : N) : N := field w vins_lo vins_len.
Definition get_vsplit (w : N) : N := field w vsplit_lo vsplit_len.
Definition get_locked w := get_bit w locked_bit.
Definition get_inserting_deleting w := get_bit w insdel_bit.
Definition get_splitting w := get_bit w splitting_bit.
Definition get_deleted w := get_bit w deleted_bit.
Definition get_root w := get_bit w root_bit.
Definition get_border w := get_bit w border_bit.

Definition set_locked w b := set_bit w locked_bit b.
Definition set_inserting_deleting w b := set_bit w insdel_bit b.
Definition set_splitting w b := set_bit w splitting_bit b.
Definition set_deleted w b := set_bit w deleted_bit b.
Definition set_root w b := set_bit w root_bit b.
Definition set_border w b := set_bit w border_bit b.

(** [++vinsert_delete] / [++vsplit] on a 29-bit bit-field: wraps inside the field *)
Definition inc_vinsert_delete (w : N) : N := set_field w vins_lo vins_len (get_vinsert_delete w + 1).
Definition inc_vsplit (w : N) : N := set_field w vsplit_lo vsplit_len (get_vsplit w + 1).

(** node_version64::unlock -- the value the CAS installs *)
Definition unlock (w : N) : N :=
  let w1 := if get_inserting_deleting w then set_inserting_deleting (inc_vinsert_delete w) false else w in
  let w2 := if get_splitting w1 then set_splitting (inc_vsplit w1) false else w1 in
  set_locked w2 false.

(** one attempt of node_version64::lock on the observed word *)
Definition try_lock (w : N) : option N :=
  if get_locked w then None else Some (set_locked w true).

(** the condition under which get_stable_version returns the word it read *)
Definition is_stable (w : N) : bool :=
  negb (get_inserting_deleting w) && negb (get_locked w) && negb (get_splitting w).

Definition version_init : N := 0.

(** abstract reading *)
Record vfields := { f_vins : N; f_locked : bool; f_insdel : bool; f_splitting : bool;
                    f_vsplit : N; f_deleted : bool; f_root : bool; f_border : bool }.
Definition decode_version (w : N) : vfields :=
  {| f_vins := get_vinsert_delete w; f_locked := get_locked w;
     f_insdel := get_inserting_deleting w; f_splitting := get_splitting w;
     f_vsplit := get_vsplit w; f_deleted := get_deleted w; f_root := get_root w;
     f_border := get_border w |}.

(** ** Trace monitor for the writes on a published version word (C17, tie T3).
    [is_lock] = the write is the CAS of node_version64::lock; every other CAS on the word
    must install one of: unlock, inc_vinsert_delete, or one flag setter, applied to the
    word that is current at that instant. *)
Definition ver_setters (w : N) (b : bool) : list N :=
  set_inserting_deleting w b :: set_splitting w b :: set_deleted w b :: set_root w b :: set_border w b :: nil.
Definition ver_write_ok (cur nw : N) (is_lock : bool) : bool :=
  if is_lock then negb (get_locked cur) && (nw =? set_locked cur true)
  else (nw =? unlock cur) || (nw =? inc_vinsert_delete cur)
       || existsb (N.eqb nw) (ver_setters cur true) || existsb (N.eqb nw) (ver_setters cur false).
