(** * MemProofs: [mem_usage] (the accumulation as coded) equals [shape_stats]
    (the per-depth description of the shape), for every tree; readings of the
    entries. *)
From Coq Require Import Lia ZifyBool ZifyN.
From Yk Require Import MemDefs.
Local Open Scope N_scope.

Definition node := (nat * bool * N * N)%type.
Definition z0 : mstat := (0, 0, 0).

Definition madd (a b : mstat) : mstat :=
  let '(n1, u1, r1) := a in let '(n2, u2, r2) := b in (n1 + n2, u1 + u2, r1 + r2).

Definition ndepth (x : node) : nat := fst (fst (fst x)).
Definition nborder (x : node) : bool := snd (fst (fst x)).
Definition nocc (x : node) : N := snd (fst x).
Definition nvf (x : node) : N := snd x.

(** what one node record adds to the entry of its depth *)
Definition contrib (x : node) : mstat :=
  if nborder x
  then (1, sizeof_border - (15 - nocc x) * sizeof_lv + nvf x, sizeof_border + nvf x)
  else (1, sizeof_interior - (16 - nocc x) * 8, sizeof_interior).

Lemma triple_eq (a a' b b' c c' : N) : a = a' -> b = b' -> c = c' -> (a, b, c) = (a', b', c').
Proof. intros; subst; reflexivity. Qed.

Ltac mcrush :=
  unfold madd, z0 in *;
  repeat match goal with
         | |- context [match ?x with pair _ _ => _ end] =>
           lazymatch x with
           | context [match _ with pair _ _ => _ end] => fail
           | _ => destruct x
           end
         end;
  try (apply triple_eq; lia).

Lemma madd_z0_l a : madd z0 a = a.
Proof. mcrush. Qed.
Lemma madd_z0_r a : madd a z0 = a.
Proof. mcrush. Qed.
Lemma madd_assoc a b c : madd (madd a b) c = madd a (madd b c).
Proof. mcrush. Qed.
Lemma madd_comm a b : madd a b = madd b a.
Proof. mcrush. Qed.

(** ** [stat_at], [max_depth] over list structure *)
Lemma stat_at_nil i : stat_at [] i = z0.
Proof. reflexivity. Qed.

Lemma stat_at_cons x ns i :
  stat_at (x :: ns) i = if Nat.eqb (ndepth x) i then madd (stat_at ns i) (contrib x) else stat_at ns i.
Proof.
  destruct x as [[[dd isb] occ] vf].
  unfold stat_at at 1. cbn [fold_right]. fold (stat_at ns i).
  unfold ndepth, contrib, nborder, nocc, nvf; cbn [fst snd].
  destruct (stat_at ns i) as [[n u] r].
  destruct (Nat.eqb dd i); [|reflexivity].
  destruct isb; unfold madd; apply triple_eq; lia.
Qed.

Lemma stat_at_app a b i : stat_at (a ++ b) i = madd (stat_at a i) (stat_at b i).
Proof.
  induction a as [|x a IH]; cbn [app].
  - rewrite stat_at_nil, madd_z0_l. reflexivity.
  - rewrite !stat_at_cons, IH. destruct (Nat.eqb (ndepth x) i); [|reflexivity].
    rewrite !madd_assoc. f_equal. apply madd_comm.
Qed.

Lemma max_depth_cons x ns : max_depth (x :: ns) = Nat.max (S (ndepth x)) (max_depth ns).
Proof. reflexivity. Qed.

Lemma max_depth_app a b : max_depth (a ++ b) = Nat.max (max_depth a) (max_depth b).
Proof.
  induction a as [|x a IH]; cbn [app].
  - reflexivity.
  - rewrite !max_depth_cons, IH. lia.
Qed.

Lemma stat_at_beyond ns i : (max_depth ns <= i)%nat -> stat_at ns i = z0.
Proof.
  induction ns as [|x ns IH]; intros H.
  - reflexivity.
  - rewrite max_depth_cons in H. rewrite stat_at_cons.
    destruct (Nat.eqb_spec (ndepth x) i); [lia|]. apply IH. lia.
Qed.

(** ** [bump] *)
Lemma bump_length st : forall level a b c,
  (level <= length st)%nat -> length (bump st level a b c) = Nat.max (length st) (S level).
Proof.
  induction st as [|[[n u] r] st IH]; intros level a b c H; cbn [length] in *.
  - assert (level = 0%nat) by lia. subst. reflexivity.
  - destruct level as [|level]; cbn [bump length].
    + lia.
    + rewrite IH by lia. lia.
Qed.

Lemma nth_nil_z0 i : nth i (@nil mstat) z0 = z0.
Proof. destruct i; reflexivity. Qed.

Lemma bump_nth st : forall level i a b c,
  (level <= length st)%nat ->
  nth i (bump st level a b c) z0 = madd (nth i st z0) (if Nat.eqb i level then (a, b, c) else z0).
Proof.
  induction st as [|[[n u] r] st IH]; intros level i a b c H; cbn [length] in *.
  - assert (level = 0%nat) by lia. subst. cbn [bump].
    destruct i as [|i]; cbn [nth Nat.eqb].
    + rewrite madd_z0_l. reflexivity.
    + destruct i; reflexivity.
  - destruct level as [|level], i as [|i]; cbn [bump nth Nat.eqb].
    + reflexivity.
    + rewrite madd_z0_r. reflexivity.
    + rewrite madd_z0_r. reflexivity.
    + apply IH. lia.
Qed.

(** ** the accumulation relation: [res] is [st] plus the per-depth sums of [ns] *)
Definition rel (st : list mstat) (ns : list node) (res : list mstat) : Prop :=
  length res = Nat.max (length st) (max_depth ns) /\
  forall i, nth i res z0 = madd (nth i st z0) (stat_at ns i).

Lemma rel_nil st : rel st [] st.
Proof.
  split.
  - cbn. lia.
  - intros i. rewrite stat_at_nil, madd_z0_r. reflexivity.
Qed.

Lemma rel_app st a r1 b r2 : rel st a r1 -> rel r1 b r2 -> rel st (a ++ b) r2.
Proof.
  intros [L1 N1] [L2 N2]. split.
  - rewrite L2, L1, max_depth_app. lia.
  - intros i. rewrite N2, N1, stat_at_app, madd_assoc. reflexivity.
Qed.

Lemma rel_len st ns res : rel st ns res -> (length st <= length res)%nat.
Proof. intros [L _]. lia. Qed.

Lemma rel_bump st (x : node) :
  (ndepth x <= length st)%nat ->
  rel st [x] (bump st (ndepth x) (fst (fst (contrib x))) (snd (fst (contrib x))) (snd (contrib x))).
Proof.
  intros H. split.
  - rewrite bump_length by assumption. rewrite max_depth_cons. cbn. lia.
  - intros i. rewrite bump_nth by assumption. rewrite stat_at_cons, stat_at_nil, madd_z0_l.
    rewrite Nat.eqb_sym. destruct (contrib x) as [[n u] r]. reflexivity.
Qed.

(** sum of the value footprints of a list of slots *)
Definition vfs (es : list slot_t) : N :=
  fold_right (fun s a => match sl_lv s with LValue v => value_footprint v + a | _ => a end) 0 es.

(** ** the generalised statement *)
Lemma mem_node_rel ls : forall fuel t p d st,
  (d <= length st)%nat ->
  rel st (nodes_with_depth ls fuel t p d) (mem_node ls fuel t p d st).
Proof.
  induction fuel as [|f IH]; intros t p d st Hd.
  - cbn. apply rel_nil.
  - destruct t as [l | id ver keys ch]; cbn [mem_node nodes_with_depth].
    + (* border *)
      fold (vfs (map snd (leaf_ranked l))).
      match goal with
      | |- rel _ (_ :: flat_map ?g _) (fold_left ?h _ _) => set (G := g); set (H := h)
      end.
      assert (HF : forall xs acc, (S d <= length acc)%nat ->
                length (fold_left H xs acc)
                = Nat.max (length acc) (max_depth (flat_map G (map snd xs))) /\
                forall i, nth i (fold_left H xs acc) z0
                          = madd (madd (nth i acc z0) (stat_at (flat_map G (map snd xs)) i))
                                 (if Nat.eqb i d then (0, vfs (map snd xs), vfs (map snd xs)) else z0)).
      { induction xs as [|e xs IHxs]; intros acc Hacc.
        - cbn [fold_left map flat_map vfs fold_right]. split.
          + cbn. lia.
          + intros i. rewrite stat_at_nil, madd_z0_r.
            destruct (Nat.eqb i d); mcrush.
        - cbn [fold_left map flat_map vfs fold_right]. fold (vfs (map snd xs)).
          unfold H at 2 4. unfold G at 1 3. cbv beta.
          destruct (sl_lv (snd e)) as [|v|] eqn:E.
          + (* empty *) cbn [app]. apply IHxs. assumption.
          + (* value *)
            cbn [app].
            assert (Hd' : (d <= length acc)%nat) by lia.
            pose proof (bump_length acc d 0 (value_footprint v) (value_footprint v) Hd') as BL.
            destruct (IHxs (bump acc d 0 (value_footprint v) (value_footprint v))) as [L N]; [lia|].
            split.
            * rewrite L, BL. lia.
            * intros i. rewrite N, bump_nth by assumption.
              destruct (Nat.eqb i d); mcrush.
          + (* link *)
            destruct (layer_get ls (p ++ [ks (sl_key (snd e))])) as [root|].
            * assert (Hd' : (S d <= length acc)%nat) by lia.
              pose proof (IH root (p ++ [ks (sl_key (snd e))]) (S d) acc Hd') as [L1 N1].
              destruct (IHxs (mem_node ls f root (p ++ [ks (sl_key (snd e))]) (S d) acc)) as [L N]; [lia|].
              split.
              -- rewrite L, L1, max_depth_app. lia.
              -- intros i. rewrite N, N1, stat_at_app. rewrite !madd_assoc. reflexivity.
            * cbn [app]. apply IHxs. assumption. }
      assert (Hb : (S d <= length (bump st d 1 (sizeof_border - (15 - leaf_cnk l) * sizeof_lv) sizeof_border))%nat).
      { rewrite bump_length by assumption. lia. }
      destruct (HF (leaf_ranked l) _ Hb) as [L N]. split.
      * rewrite L, bump_length by assumption. rewrite max_depth_cons. cbn [ndepth fst]. lia.
      * intros i. rewrite N, bump_nth by assumption. rewrite stat_at_cons.
        cbn [ndepth fst]. rewrite (Nat.eqb_sym d i).
        unfold contrib, nborder, nocc, nvf; cbn [fst snd].
        destruct (Nat.eqb i d); mcrush.
    + (* interior *)
      set (x := (d, false, N.of_nat (length keys) + 1, 0) : node).
      change (x :: flat_map (fun c => nodes_with_depth ls f c p (S d)) ch)
        with ([x] ++ flat_map (fun c => nodes_with_depth ls f c p (S d)) ch).
      pose proof (rel_bump st x Hd) as RB.
      change (bump st (ndepth x) (fst (fst (contrib x))) (snd (fst (contrib x))) (snd (contrib x)))
        with (bump st d 1 (sizeof_interior - (16 - (N.of_nat (length keys) + 1)) * 8) sizeof_interior) in RB.
      eapply rel_app; [exact RB|].
      apply rel_len in RB. cbn [length app] in RB.
      assert (Hb : (S d <= length (bump st d 1 (sizeof_interior - (16 - (N.of_nat (length keys) + 1)) * 8) sizeof_interior))%nat).
      { rewrite bump_length by assumption. lia. }
      clear RB. revert Hb.
      generalize (bump st d 1 (sizeof_interior - (16 - (N.of_nat (length keys) + 1)) * 8) sizeof_interior).
      induction ch as [|c ch IHch]; intros acc Hacc; cbn [fold_left flat_map].
      * apply rel_nil.
      * eapply rel_app.
        -- apply IH. exact Hacc.
        -- apply IHch. pose proof (rel_len _ _ _ (IH c p (S d) acc Hacc)). lia.
Qed.

(** ** 1. mem_usage = shape_stats, for every tree (no well-formedness needed) *)
Theorem mem_usage_shape : forall tr, mem_usage tr = shape_stats tr.
Proof.
  intros tr. unfold mem_usage, shape_stats.
  destruct (t_null tr); [reflexivity|].
  destruct (layer_get (t_layers tr) []) as [root|]; [|reflexivity].
  cbv zeta.
  set (fuel := S (layers_size (t_layers tr))).
  destruct (mem_node_rel (t_layers tr) fuel root [] 0 [] (le_n 0)) as [HL HN].
  set (ns := nodes_with_depth (t_layers tr) fuel root [] 0) in *.
  cbn [length Nat.max] in HL.
  apply nth_ext with (d := z0) (d' := z0).
  - rewrite map_length, seq_length. exact HL.
  - intros i Hi. rewrite HN, nth_nil_z0, madd_z0_l.
    rewrite (nth_indep _ z0 (stat_at ns 0%nat)) by (rewrite map_length, seq_length; lia).
    rewrite map_nth, seq_nth by lia. reflexivity.
Qed.

(** ** the node list of a tree; [shape_stats] through it *)
Definition shape_nodes (tr : tree) : list node :=
  if t_null tr then []
  else match layer_get (t_layers tr) [] with
       | Some root => nodes_with_depth (t_layers tr) (S (layers_size (t_layers tr))) root [] 0
       | None => []
       end.

Lemma shape_stats_nodes tr :
  shape_stats tr = map (stat_at (shape_nodes tr)) (seq 0 (max_depth (shape_nodes tr))).
Proof.
  unfold shape_stats, shape_nodes.
  destruct (t_null tr); [reflexivity|].
  destruct (layer_get (t_layers tr) []); reflexivity.
Qed.

(** one entry per tree depth *)
Lemma shape_stats_length tr : length (shape_stats tr) = max_depth (shape_nodes tr).
Proof. rewrite shape_stats_nodes, map_length, seq_length. reflexivity. Qed.

Lemma nth_shape_stats tr d : nth d (shape_stats tr) (0, 0, 0) = stat_at (shape_nodes tr) d.
Proof.
  rewrite shape_stats_nodes. fold z0.
  destruct (Nat.lt_ge_cases d (max_depth (shape_nodes tr))) as [H|H].
  - rewrite (nth_indep _ z0 (stat_at (shape_nodes tr) 0%nat)) by (rewrite map_length, seq_length; lia).
    rewrite map_nth, seq_nth by lia. reflexivity.
  - rewrite nth_overflow by (rewrite map_length, seq_length; lia).
    symmetry. apply stat_at_beyond. exact H.
Qed.

(** ** 2. used <= reserved *)
Fixpoint bt_bounded (t : bt) : bool :=
  match t with
  | BLeaf l => leaf_cnk l <=? 15
  | BInt _ _ keys ch => (length keys <=? 15)%nat && forallb bt_bounded ch
  end.

Definition tree_bounded (tr : tree) : Prop :=
  Forall (fun x => bt_bounded (snd x) = true) (t_layers tr).

Lemma stat_at_used_le ns d : snd (fst (stat_at ns d)) <= snd (stat_at ns d).
Proof.
  induction ns as [|x ns IH].
  - cbn. lia.
  - rewrite stat_at_cons. destruct (Nat.eqb (ndepth x) d); [|exact IH].
    unfold contrib. destruct (stat_at ns d) as [[n u] r]. cbn [fst snd] in IH.
    destruct (nborder x); cbn [madd fst snd]; lia.
Qed.

(** holds without any hypothesis in the model: the subtraction in N is truncated,
    so [size - (15 - occ) * 8 <= size] whatever [occ] is *)
Theorem used_le_reserved_all : forall tr n u r, In (n, u, r) (mem_usage tr) -> u <= r.
Proof.
  intros tr n u r H. rewrite mem_usage_shape, shape_stats_nodes in H.
  apply in_map_iff in H. destruct H as [d [E _]].
  pose proof (stat_at_used_le (shape_nodes tr) d) as L. rewrite E in L. exact L.
Qed.

Theorem used_le_reserved : forall tr,
  tree_bounded tr -> forall n u r, In (n, u, r) (mem_usage tr) -> u <= r.
Proof. intros tr _. apply used_le_reserved_all. Qed.

(** what the boundedness hypothesis buys: every node record has [occ] within
    the slot / child count, so none of the model's subtractions is truncated
    (the C++ computes them in machine arithmetic) *)
Definition node_in_range (x : node) : Prop :=
  if nborder x then nocc x <= 15 else nocc x <= 16.

Lemma layer_get_in ls : forall p t, layer_get ls p = Some t -> exists q, In (q, t) ls.
Proof.
  induction ls as [|[q u] ls IH]; intros p t H; cbn [layer_get] in H.
  - discriminate.
  - destruct (prefix_eqb q p).
    + inversion H; subst. exists q. left. reflexivity.
    + destruct (IH _ _ H) as [q' Hq]. exists q'. right. exact Hq.
Qed.

Lemma nodes_in_range ls :
  Forall (fun x => bt_bounded (snd x) = true) ls ->
  forall fuel t p d, bt_bounded t = true -> Forall node_in_range (nodes_with_depth ls fuel t p d).
Proof.
  intros HB. induction fuel as [|f IH]; intros t p d Ht.
  - constructor.
  - destruct t as [l | id ver keys ch]; cbn [nodes_with_depth bt_bounded] in *.
    + constructor.
      * unfold node_in_range, nborder, nocc; cbn [fst snd]. lia.
      * generalize (map snd (leaf_ranked l)). intros es.
        induction es as [|s es IHes]; cbn [flat_map]; [constructor|].
        apply Forall_app. split; [|exact IHes].
        destruct (sl_lv s); try constructor.
        destruct (layer_get ls (p ++ [ks (sl_key s)])) as [root|] eqn:E; [|constructor].
        apply IH. apply layer_get_in in E. destruct E as [q Hq].
        rewrite Forall_forall in HB. exact (HB _ Hq).
    + apply andb_prop in Ht. destruct Ht as [Hk Hc]. constructor.
      * unfold node_in_range, nborder, nocc; cbn [fst snd]. lia.
      * induction ch as [|c ch IHch]; cbn [flat_map forallb] in *; [constructor|].
        apply andb_prop in Hc. destruct Hc as [Hc1 Hc2].
        apply Forall_app. split; [apply IH; exact Hc1 | apply IHch; exact Hc2].
Qed.

Lemma shape_nodes_in_range tr : tree_bounded tr -> Forall node_in_range (shape_nodes tr).
Proof.
  intros HB. unfold shape_nodes.
  destruct (t_null tr); [constructor|].
  destruct (layer_get (t_layers tr) []) as [root|] eqn:E; [|constructor].
  apply nodes_in_range; [exact HB|].
  apply layer_get_in in E. destruct E as [q Hq].
  unfold tree_bounded in HB. rewrite Forall_forall in HB. exact (HB _ Hq).
Qed.

(** ** 3. node counts *)
Lemma stat_at_count ns d :
  fst (fst (stat_at ns d))
  = N.of_nat (length (filter (fun x : node => Nat.eqb (fst (fst (fst x))) d) ns)).
Proof.
  induction ns as [|x ns IH].
  - reflexivity.
  - rewrite stat_at_cons. cbn [filter]. unfold ndepth.
    destruct (Nat.eqb (fst (fst (fst x))) d); [|exact IH].
    cbn [length]. rewrite Nat2N.inj_succ, <- IH.
    destruct (stat_at ns d) as [[n u] r]. unfold contrib.
    destruct (nborder x); cbn [madd fst snd]; lia.
Qed.

Theorem node_counts : forall tr d,
  fst (fst (nth d (shape_stats tr) (0, 0, 0)))
  = N.of_nat (length (filter (fun x : node => Nat.eqb (fst (fst (fst x))) d) (shape_nodes tr))).
Proof. intros tr d. rewrite nth_shape_stats. apply stat_at_count. Qed.

(** ** 4. reserved bytes *)
(** sum of the value footprints recorded in the border nodes at depth [d] *)
Definition vf_at (ns : list node) (d : nat) : N :=
  fold_right N.add 0
    (map (fun x : node => snd x)
         (filter (fun x : node => Nat.eqb (fst (fst (fst x))) d && snd (fst (fst x))) ns)).

Lemma stat_at_reserved ns d :
  snd (stat_at ns d)
  = 320 * N.of_nat (length (filter (fun x : node => Nat.eqb (fst (fst (fst x))) d) ns)) + vf_at ns d.
Proof.
  unfold vf_at. induction ns as [|x ns IH].
  - reflexivity.
  - rewrite stat_at_cons. cbn [filter]. unfold ndepth.
    destruct (Nat.eqb (fst (fst (fst x))) d); [|exact IH].
    cbn [length andb]. rewrite Nat2N.inj_succ.
    destruct (stat_at ns d) as [[n u] r]. unfold contrib, nborder, nvf. cbn [snd] in IH.
    destruct (snd (fst (fst x))); cbn [madd fst snd map fold_right];
      unfold sizeof_border, sizeof_interior; lia.
Qed.

Theorem reserved_reading : forall tr d,
  snd (nth d (shape_stats tr) (0, 0, 0))
  = 320 * N.of_nat (length (filter (fun x : node => Nat.eqb (fst (fst (fst x))) d) (shape_nodes tr)))
    + vf_at (shape_nodes tr) d.
Proof. intros tr d. rewrite nth_shape_stats. apply stat_at_reserved. Qed.

(** ** 5. used bytes of one border record grow with the occupied slots *)
Theorem used_monotone : forall occ occ' vf vf',
  occ <= occ' -> occ' <= 15 -> vf <= vf' ->
  sizeof_border - (15 - occ) * sizeof_lv + vf <= sizeof_border - (15 - occ') * sizeof_lv + vf'.
Proof. intros. unfold sizeof_border, sizeof_lv. lia. Qed.

(** executable form of [tree_bounded] (for concrete trees) *)
Definition tree_boundedb (tr : tree) : bool := forallb (fun x => bt_bounded (snd x)) (t_layers tr).
Lemma tree_boundedb_sound tr : tree_boundedb tr = true -> tree_bounded tr.
Proof.
  unfold tree_boundedb, tree_bounded. intros H. rewrite forallb_forall in H.
  apply Forall_forall. exact H.
Qed.
